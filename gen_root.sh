#!/bin/sh
# regenerate lean/PyomaVerif.lean (imports every module of the library)
cd "$(dirname "$0")/lean" || exit 1
find PyomaVerif -name '*.lean' | sort | sed 's/\.lean$//; s#/#.#g; s/^/import /' > PyomaVerif.lean
