#!/usr/bin/env python3
"""prints the 'as built' table for DESIGN.md section 9 from claims.json, the harness modules and known_findings.json"""
import ast, json, os, re
H = os.path.dirname(os.path.abspath(__file__))
claims = json.load(open(os.path.join(H, "claims.json")))
kf = json.load(open(os.path.join(H, "known_findings.json")))
def consts(path):
    out = {}
    for n in ast.parse(open(path).read()).body:
        if isinstance(n, ast.Assign) and isinstance(n.targets[0], ast.Name) and n.targets[0].id in ("LEAN_MODULES", "THEOREMS"):
            try: out[n.targets[0].id] = ast.literal_eval(n.value)
            except Exception: pass
    return out
print("| prop. | Lean modules | property theorems audited | open known findings | fixed defects |")
print("|---|---|---|---|---|")
for pid in sorted(claims):
    c = consts(os.path.join(H, "harness", pid.lower() + ".py"))
    mods = ", ".join(m.replace("PyomaVerif.", "") for m in c.get("LEAN_MODULES", []))
    nth = len(c.get("THEOREMS", []))
    op = [f["sig"] for f in kf["findings"] if f["property"] == pid]
    fx = [re.sub(r"^fixed: property=\S+ (\S+) .*", r"\1", s) for s in kf["fixed"] if f"property={pid} " in s]
    print(f"| {pid} | {mods} | {nth} | {', '.join(op) or '–'} | {', '.join(fx) or '–'} |")
