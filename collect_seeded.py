#!/usr/bin/env python3
"""collect verified seeded changes from /tmp/mut/<prop>/out/m* into /verif/seeded/<PROP>-m<k>/ with the evaluation results"""
import glob, json, os, shutil, sys
ROUND = sys.argv[1] if len(sys.argv) > 1 else "1"   # "1": /tmp/mut, ids <PROP>-m<k>; "2": /tmp/mut2, ids <PROP>-r2m<k>
SRC = "/tmp/mut" if ROUND == "1" else f"/tmp/mut{ROUND}"
PREFIX = "" if ROUND == "1" else (sys.argv[2] if len(sys.argv) > 2 else f"r{ROUND}")  # e.g. `collect_seeded.py 4 r3`: /tmp/mut4 -> ids <PROP>-r3m<k>
res = {}
for f in sorted(glob.glob(os.path.join(SRC, "results*.json"))):
    if os.path.exists(f):
        for k, v in json.load(open(f)).items():
            res.setdefault(k, {}).update({kk: vv for kk, vv in v.items() if vv is not None})
for d in sorted(glob.glob(os.path.join(SRC, "c*/out/m*"))):
    if not os.path.exists(os.path.join(d, "patch.diff")):
        continue
    prop = os.path.basename(os.path.dirname(os.path.dirname(d))).upper()
    key = f"{prop}/{os.path.basename(d)}"
    r = res.get(key)
    if not r or not r.get("applies") or r.get("demo_clean_rc") != 0 or r.get("demo_patched_rc") in (0, None):
        print("skip (not verified):", key, r and {k: r.get(k) for k in ("applies", "demo_clean_rc", "demo_patched_rc")})
        continue
    if r.get("baseline_broken"):
        print("skip (breaks baseline tests):", key, r["baseline_broken"])
        continue
    out = os.path.join("/verif/seeded", f"{prop}-{PREFIX}{os.path.basename(d)}")
    os.makedirs(out, exist_ok=True)
    shutil.copy(os.path.join(d, "patch.diff"), out)
    shutil.copy(os.path.join(d, "demo.py"), out)
    meta = json.load(open(os.path.join(d, "meta.json"))) if os.path.exists(os.path.join(d, "meta.json")) else {}
    checks = {k[6:-3]: {"rc": r[k], "out": r.get(k[:-3] + "_out")} for k in r if k.startswith("check_") and k.endswith("_rc")}
    meta["verified"] = {
        "repo_head": r.get("repo_head"),
        "patch_applies": True,
        "demo_exit_unpatched": r["demo_clean_rc"],
        "demo_exit_patched": r["demo_patched_rc"],
        "baseline_stable_tests_broken": r.get("baseline_broken", "not re-run in the last evaluation (was [] in the first)"),
        "checks_run_against_patched_tree": checks,
        "caught_by": sorted(c for c, v in checks.items() if v["rc"] == 1),
        "how": "eval_mutants.py: scratch worktree of /repo HEAD, `git apply patch.diff`, demo with PYTHONPATH=<wt>/src, pinned pytest suite vs BASELINE.stable_pass, `PYOMA2_REPO=<wt> ./check <prop> --tier quick`",
    }
    json.dump(meta, open(os.path.join(out, "meta.json"), "w"), indent=1)
    print("kept", key, "caught by", meta["verified"]["caught_by"])
