#!/usr/bin/env python3
"""prints the 'seeded change | what it does | caught by' table of DESIGN.md section 9 from seeded/<id>/meta.json
usage: tools_seeded_table.py r3m     (substring of the ids to list; default: all)"""
import glob, json, os, re, sys

H = os.path.dirname(os.path.abspath(__file__))
pat = sys.argv[1] if len(sys.argv) > 1 else ""


def key(d):
    b = os.path.basename(d)
    m = re.match(r"C(\d+)-(?:r(\d+))?m(\d+)", b)
    return (int(m.group(2) or 1), int(m.group(1)), int(m.group(3)))


print("| seeded change | what it does | caught by (first reported sig) |")
print("|---|---|---|")
for d in sorted(glob.glob(os.path.join(H, "seeded", "*")), key=key):
    b = os.path.basename(d)
    if pat not in b:
        continue
    m = json.load(open(os.path.join(d, "meta.json")))
    v = m.get("verified", {})
    caught = []
    for c in v.get("caught_by", []):
        out = (v["checks_run_against_patched_tree"].get(c, {}).get("out") or "")
        if isinstance(out, list):
            out = "\n".join(out)
        sig = ""
        for line in out.splitlines():
            mm = re.match(r"\s+([A-Za-z0-9_:\-\.\[\]=!+/|<>,*' ]+?): ", line)
            if mm and "VIOLATION" not in line:
                sig = mm.group(1).strip()
                break
        if "no-failing-input-found" in out and not sig:
            sig = "no-failing-input-found"
        caught.append(f"{c}: {sig}" if sig else c)
    s = re.sub(r"\s+", " ", m.get("summary", "")).replace("|", "/")[:140]
    print(f"| {b} | {s} | {'; '.join(caught) or 'NOT CAUGHT'} |")
