import Lean.Data.Json
import PyomaVerif.Model.Basic
/-! JSON codec of the line protocol (exact rationals as `"num/den"` strings). -/
open Lean
namespace PV.Codec

def parseRat (s : String) : Option Rat :=
  match s.splitOn "/" with
  | [n] => n.toInt?.map (fun (z : Int) => (z : Rat))
  | [n, d] => do
      let a ← n.toInt?
      let b ← d.toNat?
      if b = 0 then none else pure ((a : Rat) / (b : Rat))
  | _ => none

def ratStr (r : Rat) : String := if r.den = 1 then s!"{r.num}" else s!"{r.num}/{r.den}"

def ratOfJson (j : Json) : Except String Rat :=
  match j with
  | .str s => match parseRat s with
    | some q => pure q
    | none => throw s!"bad rat {s}"
  | .num n => if n.exponent = 0 then pure (n.mantissa : Rat) else throw "non-integer json number"
  | _ => throw "rat expected"

def ratToJson (r : Rat) : Json := Json.str (ratStr r)

/-- optional rational: JSON `null` is NaN / None -/
def oratOfJson (j : Json) : Except String (Option Rat) :=
  match j with
  | .null => pure none
  | _ => do let q ← ratOfJson j; pure (some q)

def oratToJson : Option Rat → Json
  | none => Json.null
  | some q => ratToJson q

def arrOf {α} (f : Json → Except String α) (j : Json) : Except String (Array α) := do
  let a ← j.getArr?
  a.mapM f

def listOf {α} (f : Json → Except String α) (j : Json) : Except String (List α) := do
  let a ← arrOf f j
  pure a.toList

def natOfJson (j : Json) : Except String Nat := j.getNat?
def intOfJson (j : Json) : Except String Int := j.getInt?
def boolOfJson (j : Json) : Except String Bool := j.getBool?
def strOfJson (j : Json) : Except String String := j.getStr?

def matOf {α} [Inhabited α] (f : Json → Except String α) (j : Json) : Except String (Mat α) := do
  let data ← arrOf (arrOf f) j
  let r := data.size
  let c := if h : 0 < data.size then data[0].size else 0
  pure ⟨r, c, fun i k => (data[i]!)[k]!⟩

def matOfJson (j : Json) : Except String (Mat Rat) := matOf ratOfJson j

def matToJson {α} (f : α → Json) (m : Mat α) : Json :=
  Json.arr ((List.range m.r).map fun i => Json.arr ((List.range m.c).map fun k => f (m.e i k)).toArray).toArray

def field (j : Json) (k : String) : Except String Json := j.getObjVal? k

def fieldD (j : Json) (k : String) (d : Json) : Json :=
  match j.getObjVal? k with
  | .ok v => v
  | .error _ => d

def listToJson {α} (f : α → Json) (l : List α) : Json := Json.arr (l.map f).toArray

end PV.Codec
