import PyomaVerif.Model.Stab
import PyomaVerif.Lemmas.NanTable
import PyomaVerif.Lemmas.Sum
import Mathlib.Tactic.Ring
import Mathlib.Tactic.FieldSimp
/-! Lemmas on `Model/Stab.lean` (`gen.SC_apply`). -/
namespace PV
open Finset

/-- the soft criteria of cell `(i, o)` against the **first nearest** retained pole of column `o − 1`,
    written out: this is the right-hand side of `C10_label_iff`. -/
def StableAgainstPrev (Fn Xi : Mat NR) (Phi : Ten3 (Option CQ)) (eF eX eP : Rat) (o i : Nat) : Prop :=
  ∃ f j f', Fn.e i o = some f ∧ IsFirstNearest (fun j => Fn.e j (o - 1)) Fn.r f j f' ∧
    f ≠ 0 ∧ |f - f'| / f < eF ∧
    ∃ ξ ξ', Xi.e i o = some ξ ∧ Xi.e j (o - 1) = some ξ' ∧ ξ ≠ 0 ∧ |ξ - ξ'| / ξ < eX ∧
    ∃ m, scMac Phi.d (Phi.e i o) (Phi.e j (o - 1)) = some m ∧ 1 - m < eP

theorem scCell_01 (Fn Xi : Mat NR) (Phi : Ten3 (Option CQ)) (eF eX eP : Rat) (o i : Nat) :
    scCell Fn Xi Phi eF eX eP o i = 0 ∨ scCell Fn Xi Phi eF eX eP o i = 1 := by
  unfold scCell
  split
  · left; rfl
  · simp only []; split <;> simp

theorem scCell_eq_one (Fn Xi : Mat NR) (Phi : Ten3 (Option CQ)) (eF eX eP : Rat) (o i : Nat) :
    scCell Fn Xi Phi eF eX eP o i = 1 ↔ StableAgainstPrev Fn Xi Phi eF eX eP o i := by
  unfold StableAgainstPrev
  cases hf : Fn.e i o with
  | none => simp [scCell, hf, nanargminAbs_nan]
  | some f =>
    cases hidx : nanargminAbs (fun j => Fn.e j (o - 1)) Fn.r (some f) with
    | none =>
      simp only [scCell, hf, hidx]
      constructor
      · intro h; cases h
      · rintro ⟨f0, j, f', hf0, hnear, _⟩
        cases hf0
        have := (nanargminAbs_some _ _ _ _).mpr ⟨f', hnear⟩
        rw [hidx] at this; cases this
    | some idx =>
      obtain ⟨v, hv⟩ := (nanargminAbs_some _ _ _ _).mp hidx
      have hprev : Fn.e idx (o - 1) = some v := hv.2.1
      have key : ∀ (P : Nat → Rat → Prop),
          (∃ f0 j f', some f = some f0 ∧ IsFirstNearest (fun j => Fn.e j (o - 1)) Fn.r f0 j f' ∧ P j f') ↔ P idx v := by
        intro P
        constructor
        · rintro ⟨f0, j, f', hf0, hnear, hP⟩
          cases hf0
          obtain ⟨rfl, rfl⟩ := hnear.unique hv
          exact hP
        · intro hP; exact ⟨f, idx, v, rfl, hv, hP⟩
      have key' := key (fun j f' => f ≠ 0 ∧ |f - f'| / f < eF ∧
        ∃ ξ ξ', Xi.e i o = some ξ ∧ Xi.e j (o - 1) = some ξ' ∧ ξ ≠ 0 ∧ |ξ - ξ'| / ξ < eX ∧
        ∃ m, scMac Phi.d (Phi.e i o) (Phi.e j (o - 1)) = some m ∧ 1 - m < eP)
      -- the statement has `f` in place of `f0` inside `P`; rewrite it into the `key` form
      have : (∃ f_1 j f', some f = some f_1 ∧ IsFirstNearest (fun j => Fn.e j (o - 1)) Fn.r f_1 j f' ∧
          f_1 ≠ 0 ∧ |f_1 - f'| / f_1 < eF ∧
          ∃ ξ ξ', Xi.e i o = some ξ ∧ Xi.e j (o - 1) = some ξ' ∧ ξ ≠ 0 ∧ |ξ - ξ'| / ξ < eX ∧
          ∃ m, scMac Phi.d (Phi.e i o) (Phi.e j (o - 1)) = some m ∧ 1 - m < eP) ↔
          (∃ f0 j f', some f = some f0 ∧ IsFirstNearest (fun j => Fn.e j (o - 1)) Fn.r f0 j f' ∧
          f ≠ 0 ∧ |f - f'| / f < eF ∧
          ∃ ξ ξ', Xi.e i o = some ξ ∧ Xi.e j (o - 1) = some ξ' ∧ ξ ≠ 0 ∧ |ξ - ξ'| / ξ < eX ∧
          ∃ m, scMac Phi.d (Phi.e i o) (Phi.e j (o - 1)) = some m ∧ 1 - m < eP) := by
        constructor
        · rintro ⟨f0, j, f', hf0, h⟩; cases hf0; exact ⟨f, j, f', rfl, h⟩
        · rintro ⟨f0, j, f', hf0, h⟩; cases hf0; exact ⟨f, j, f', rfl, h⟩
      rw [this, key']
      simp only [scCell, hf, hidx, hprev, nanSub, nanAbs, nanDivPos, qabs_eq_abs]
      by_cases hf0 : f = 0
      · simp [hf0, nanLt]
      · cases hxi : Xi.e i o with
        | none => simp [hf0, nanLt, nanSub, nanAbs, nanDivPos]
        | some ξ =>
          cases hxj : Xi.e idx (o - 1) with
          | none => simp [hf0, nanLt, nanSub, nanAbs, nanDivPos]
          | some ξ' =>
            by_cases hx0 : ξ = 0
            · simp [hf0, hx0, nanLt, nanSub, nanAbs, nanDivPos]
            · cases hm : scMac Phi.d (Phi.e i o) (Phi.e idx (o - 1)) with
              | none => simp [hf0, hx0, nanLt, nanSub, nanAbs, nanDivPos]
              | some m =>
                simp [hf0, hx0, nanLt, nanSub, nanAbs, nanDivPos, qabs_eq_abs]

/-! ### the loops -/

theorem setLab_e (L : Mat Nat) (i o v i' o' : Nat) :
    (setLab L i o v).e i' o' = if i' = i ∧ o' = o then v else L.e i' o' := rfl

theorem rowsFold_spec (g : Nat → Nat) (o : Nat) : ∀ (n : Nat) (Lab : Mat Nat),
    let L := (List.range n).foldl (fun L i => setLab L i o (g i)) Lab
    L.r = Lab.r ∧ L.c = Lab.c ∧
      ∀ i' o', L.e i' o' = if o' = o ∧ i' < n then g i' else Lab.e i' o' := by
  intro n
  induction n with
  | zero => intro Lab; simp
  | succ n ih =>
    intro Lab
    simp only [List.range_succ, List.foldl_append, List.foldl_cons, List.foldl_nil]
    obtain ⟨hr, hc, he⟩ := ih Lab
    refine ⟨by simpa [setLab] using hr, by simpa [setLab] using hc, ?_⟩
    intro i' o'
    rw [setLab_e]
    by_cases h1 : i' = n ∧ o' = o
    · obtain ⟨rfl, rfl⟩ := h1; simp
    · rw [if_neg h1, he i' o']
      by_cases h2 : o' = o
      · subst h2
        have : i' ≠ n := fun h => h1 ⟨h, rfl⟩
        by_cases h3 : i' < n
        · simp [h3, Nat.lt_succ_of_lt h3]
        · have : ¬ i' < n + 1 := by omega
          simp [h3, this]
      · simp [h2]

theorem scRows_spec (Fn Xi : Mat NR) (Phi : Ten3 (Option CQ)) (eF eX eP : Rat) (o : Nat) (Lab : Mat Nat) :
    (scRows Fn Xi Phi eF eX eP o Lab).r = Lab.r ∧ (scRows Fn Xi Phi eF eX eP o Lab).c = Lab.c ∧
      ∀ i' o', (scRows Fn Xi Phi eF eX eP o Lab).e i' o'
        = if o' = o ∧ i' < Fn.r then scCell Fn Xi Phi eF eX eP o i' else Lab.e i' o' :=
  rowsFold_spec (scCell Fn Xi Phi eF eX eP o) o Fn.r Lab

/-- a successful run of the order loop: no visited column is out of range, and every cell
    holds `scCell` if its column was visited (and is not column 0), else its initial value. -/
theorem scLoop_ok (Fn Xi : Mat NR) (Phi : Ten3 (Option CQ)) (step : Nat) (eF eX eP : Rat) :
    ∀ (l : List Nat) (L0 L : Mat Nat), scLoop Fn Xi Phi step eF eX eP l L0 = .ok L →
      (∀ oo ∈ l, oo / step < Fn.c) ∧ L.r = L0.r ∧ L.c = L0.c ∧
      ∀ i o, L.e i o = if (o ≠ 0 ∧ i < Fn.r ∧ ∃ oo ∈ l, oo / step = o)
        then scCell Fn Xi Phi eF eX eP o i else L0.e i o := by
  intro l
  induction l with
  | nil =>
    intro L0 L h
    simp only [scLoop, pure, Except.pure, Except.ok.injEq] at h
    subst h
    simp
  | cons oo rest ih =>
    intro L0 L h
    unfold scLoop at h
    unfold scStep at h
    by_cases hc : Fn.c ≤ oo / step
    · simp [hc, throw, throwThe, MonadExceptOf.throw] at h
    · simp only [hc, if_false] at h
      by_cases h0 : oo / step = 0
      · simp only [h0, if_true, pure, Except.pure] at h
        obtain ⟨hall, hr, hcc, he⟩ := ih L0 L h
        refine ⟨?_, hr, hcc, ?_⟩
        · intro x hx
          rcases List.mem_cons.mp hx with rfl | hx
          · omega
          · exact hall x hx
        · intro i o
          rw [he i o]
          by_cases hcond : o ≠ 0 ∧ i < Fn.r ∧ ∃ oo' ∈ rest, oo' / step = o
          · have : o ≠ 0 ∧ i < Fn.r ∧ ∃ oo' ∈ oo :: rest, oo' / step = o := by
              obtain ⟨a, b, x, hx, hxo⟩ := hcond
              exact ⟨a, b, x, List.mem_cons_of_mem _ hx, hxo⟩
            rw [if_pos hcond, if_pos this]
          · have : ¬ (o ≠ 0 ∧ i < Fn.r ∧ ∃ oo' ∈ oo :: rest, oo' / step = o) := by
              rintro ⟨a, b, x, hx, hxo⟩
              rcases List.mem_cons.mp hx with rfl | hx
              · exact a (hxo ▸ h0)
              · exact hcond ⟨a, b, x, hx, hxo⟩
            rw [if_neg hcond, if_neg this]
      · simp only [h0, if_false, pure, Except.pure] at h
        obtain ⟨hall, hr, hcc, he⟩ := ih _ L h
        obtain ⟨sr, sc, se⟩ := scRows_spec Fn Xi Phi eF eX eP (oo / step) L0
        refine ⟨?_, hr.trans sr, hcc.trans sc, ?_⟩
        · intro x hx
          rcases List.mem_cons.mp hx with rfl | hx
          · omega
          · exact hall x hx
        · intro i o
          rw [he i o, se i o]
          by_cases hcond : o ≠ 0 ∧ i < Fn.r ∧ ∃ oo' ∈ rest, oo' / step = o
          · have : o ≠ 0 ∧ i < Fn.r ∧ ∃ oo' ∈ oo :: rest, oo' / step = o := by
              obtain ⟨a, b, x, hx, hxo⟩ := hcond
              exact ⟨a, b, x, List.mem_cons_of_mem _ hx, hxo⟩
            rw [if_pos hcond, if_pos this]
          · rw [if_neg hcond]
            by_cases hhere : o = oo / step ∧ i < Fn.r
            · have : o ≠ 0 ∧ i < Fn.r ∧ ∃ oo' ∈ oo :: rest, oo' / step = o :=
                ⟨by omega, hhere.2, oo, List.mem_cons_self, hhere.1.symm⟩
              rw [if_pos hhere, if_pos this, hhere.1]
            · have : ¬ (o ≠ 0 ∧ i < Fn.r ∧ ∃ oo' ∈ oo :: rest, oo' / step = o) := by
                rintro ⟨a, b, x, hx, hxo⟩
                rcases List.mem_cons.mp hx with rfl | hx
                · exact hhere ⟨hxo.symm, b⟩
                · exact hcond ⟨a, b, x, hx, hxo⟩
              rw [if_neg hhere, if_neg this]

/-- the order loop fails exactly with `IndexError`, when a visited column lies outside the table. -/
theorem scLoop_error (Fn Xi : Mat NR) (Phi : Ten3 (Option CQ)) (step : Nat) (eF eX eP : Rat) :
    ∀ (l : List Nat) (L0 : Mat Nat) (e : String), scLoop Fn Xi Phi step eF eX eP l L0 = .error e →
      e = "IndexError" ∧ ∃ oo ∈ l, Fn.c ≤ oo / step := by
  intro l
  induction l with
  | nil => intro L0 e h; simp [scLoop, pure, Except.pure] at h
  | cons oo rest ih =>
    intro L0 e h
    unfold scLoop at h
    unfold scStep at h
    by_cases hc : Fn.c ≤ oo / step
    · simp only [hc, if_true, throw, throwThe, MonadExceptOf.throw, Except.error.injEq] at h
      exact ⟨h.symm, oo, List.mem_cons_self, hc⟩
    · simp only [hc, if_false] at h
      by_cases h0 : oo / step = 0
      · simp only [h0, if_true, pure, Except.pure] at h
        obtain ⟨he, x, hx, hxc⟩ := ih _ e h
        exact ⟨he, x, List.mem_cons_of_mem _ hx, hxc⟩
      · simp only [h0, if_false, pure, Except.pure] at h
        obtain ⟨he, x, hx, hxc⟩ := ih _ e h
        exact ⟨he, x, List.mem_cons_of_mem _ hx, hxc⟩

/-- `oo ∈ range(ordmin, ordmax + 1, step)` -/
theorem mem_scOrders (ordmin ordmax step : Nat) (hs : 0 < step) (oo : Nat) :
    oo ∈ scOrders ordmin ordmax step ↔ ∃ k, oo = ordmin + k * step ∧ oo ≤ ordmax := by
  unfold scOrders
  simp only [List.mem_map, List.mem_range]
  constructor
  · rintro ⟨k, hk, rfl⟩
    refine ⟨k, rfl, ?_⟩
    have h1 : (k + 1) * step ≤ ordmax + 1 - ordmin + step - 1 := (Nat.le_div_iff_mul_le hs).mp hk
    rw [Nat.succ_mul] at h1
    generalize k * step = m at *
    omega
  · rintro ⟨k, rfl, hle⟩
    refine ⟨k, ?_, rfl⟩
    apply (Nat.le_div_iff_mul_le hs).mpr
    rw [Nat.succ_mul]
    generalize k * step = m at *
    omega

/-! ### MAC on Gaussian rationals -/

theorem scDotH_some (x y : Nat → Option CQ) (xs ys : Nat → CQ) : ∀ d : Nat,
    (∀ k, k < d → x k = some (xs k)) → (∀ k, k < d → y k = some (ys k)) →
    scDotH d x y = some (∑ k ∈ range d, ((xs k).1 * (ys k).1 + (xs k).2 * (ys k).2),
                         ∑ k ∈ range d, ((xs k).1 * (ys k).2 - (xs k).2 * (ys k).1)) := by
  intro d
  induction d with
  | zero => intro _ _; simp [scDotH]
  | succ d ih =>
    intro hx hy
    have h := ih (fun k hk => hx k (Nat.lt_succ_of_lt hk)) (fun k hk => hy k (Nat.lt_succ_of_lt hk))
    unfold scDotH at h ⊢
    rw [List.range_succ, List.foldl_append, h]
    simp [hx d (Nat.lt_succ_self d), hy d (Nat.lt_succ_self d), nanCAdd, nanCConjMul, cqConjMul,
      Finset.sum_range_succ]
    ring

theorem foldl_nanCAdd_none (g : Nat → Option CQ) (l : List Nat) :
    l.foldl (fun acc k => nanCAdd acc (g k)) none = none := by
  induction l with
  | nil => rfl
  | cons a t ih => simpa [List.foldl_cons, nanCAdd] using ih

/-- a NaN component anywhere makes `conj(x) @ y` NaN. -/
theorem scDotH_nan (x y : Nat → Option CQ) : ∀ (d k : Nat), k < d → (x k = none ∨ y k = none) →
    scDotH d x y = none := by
  intro d
  induction d with
  | zero => intro k hk; omega
  | succ d ih =>
    intro k hk hnan
    unfold scDotH
    rw [List.range_succ, List.foldl_append]
    rcases Nat.lt_succ_iff_lt_or_eq.mp hk with hlt | heq
    · have := ih k hlt hnan
      unfold scDotH at this
      rw [this]
      simp [nanCAdd]
    · subst heq
      have : nanCConjMul (x k) (y k) = none := by
        rcases hnan with h | h
        · rw [h]; rfl
        · rw [h]; cases x k <;> rfl
      simp only [List.foldl_cons, List.foldl_nil, this]
      cases (List.foldl (fun acc k => nanCAdd acc (nanCConjMul (x k) (y k))) (some (0, 0)) (List.range k)) <;> rfl

theorem scMac_nan_left (x y : Nat → Option CQ) (d k : Nat) (hk : k < d) (h : x k = none) :
    scMac d x y = none := by
  unfold scMac
  rw [scDotH_nan x y d k hk (Or.inl h)]

theorem scMac_nan_right (x y : Nat → Option CQ) (d k : Nat) (hk : k < d) (h : y k = none) :
    scMac d x y = none := by
  unfold scMac
  rw [scDotH_nan x y d k hk (Or.inr h)]

end PV
