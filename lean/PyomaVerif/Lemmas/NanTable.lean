import PyomaVerif.Model.NanTable
import Mathlib.Algebra.Order.Field.Rat
import Mathlib.Algebra.Order.Ring.Abs
import Mathlib.Tactic.Linarith
/-! Pointwise characterisations of the numpy NaN idioms of `Model/NanTable.lean`. -/
namespace PV

theorem qabs_eq_abs (x : Rat) : qabs x = |x| := by
  unfold qabs
  split
  · rename_i h; rw [abs_of_neg h]
  · rename_i h; rw [abs_of_nonneg (not_lt.mp h)]

/-- the specification of `np.nanargmin`: `k` is the first index of the minimum `v` over the non-NaN entries -/
def IsFirstMin (f : Nat → NR) (n k : Nat) (v : Rat) : Prop :=
  k < n ∧ f k = some v ∧ (∀ j, j < n → ∀ w, f j = some w → v ≤ w) ∧
    (∀ j, j < k → ∀ w, f j = some w → v < w)

theorem IsFirstMin.unique {f : Nat → NR} {n k k' : Nat} {v v' : Rat}
    (h : IsFirstMin f n k v) (h' : IsFirstMin f n k' v') : k = k' ∧ v = v' := by
  obtain ⟨hk, hf, hall, hfirst⟩ := h
  obtain ⟨hk', hf', hall', hfirst'⟩ := h'
  have h1 : v ≤ v' := hall k' hk' v' hf'
  have h2 : v' ≤ v := hall' k hk v hf
  have hv : v = v' := le_antisymm h1 h2
  refine ⟨?_, hv⟩
  rcases Nat.lt_trichotomy k k' with hlt | heq | hgt
  · have := hfirst' k hlt v hf; linarith
  · exact heq
  · have := hfirst k' hgt v' hf'; linarith

theorem nanargminFn_none (f : Nat → NR) : ∀ n, nanargminFn f n = none ↔ ∀ j, j < n → f j = none := by
  intro n
  induction n with
  | zero => simp [nanargminFn]
  | succ n ih =>
    unfold nanargminFn
    cases hprev : nanargminFn f n with
    | none =>
      have hn := ih.mp hprev
      cases hfn : f n with
      | none =>
        simp only [true_iff]
        intro j hj
        rcases Nat.lt_succ_iff_lt_or_eq.mp hj with h | h
        · exact hn j h
        · rw [h]; exact hfn
      | some w =>
        simp only [reduceCtorEq, false_iff]
        intro h
        have := h n (Nat.lt_succ_self n)
        rw [hfn] at this; cases this
    | some b =>
      have hex : ¬ ∀ j, j < n → f j = none := fun h => by
        have := ih.mpr h; rw [hprev] at this; cases this
      have hex' : ¬ ∀ j, j < n + 1 → f j = none := fun h => hex (fun j hj => h j (Nat.lt_succ_of_lt hj))
      cases hfn : f n with
      | none => simp only [reduceCtorEq, false_iff]; exact hex'
      | some w =>
        simp only
        split <;> simp only [reduceCtorEq, false_iff] <;> exact hex'

theorem nanargminFn_spec (f : Nat → NR) : ∀ (n k : Nat) (v : Rat),
    nanargminFn f n = some (k, v) → IsFirstMin f n k v := by
  intro n
  induction n with
  | zero => intro k v h; simp [nanargminFn] at h
  | succ n ih =>
    intro k v h
    unfold nanargminFn at h
    cases hprev : nanargminFn f n with
    | none =>
      rw [hprev] at h
      have hn := (nanargminFn_none f n).mp hprev
      cases hfn : f n with
      | none => rw [hfn] at h; simp at h
      | some w =>
        rw [hfn] at h
        simp only [Option.some.injEq, Prod.mk.injEq] at h
        obtain ⟨rfl, rfl⟩ := h
        refine ⟨Nat.lt_succ_self _, hfn, ?_, ?_⟩
        · intro j hj u hu
          rcases Nat.lt_succ_iff_lt_or_eq.mp hj with hlt | heq
          · rw [hn j hlt] at hu; cases hu
          · rw [heq, hfn] at hu; cases hu; exact le_refl _
        · intro j hj u hu
          rw [hn j hj] at hu; cases hu
    | some b =>
      rw [hprev] at h
      obtain ⟨bk, bv⟩ := b
      obtain ⟨hbk, hbf, hball, hbfirst⟩ := ih bk bv hprev
      cases hfn : f n with
      | none =>
        rw [hfn] at h
        simp only [Option.some.injEq, Prod.mk.injEq] at h
        obtain ⟨rfl, rfl⟩ := h
        refine ⟨Nat.lt_succ_of_lt hbk, hbf, ?_, hbfirst⟩
        intro j hj u hu
        rcases Nat.lt_succ_iff_lt_or_eq.mp hj with hlt | heq
        · exact hball j hlt u hu
        · rw [heq, hfn] at hu; cases hu
      | some w =>
        rw [hfn] at h
        simp only at h
        split at h
        · rename_i hlt
          simp only [Option.some.injEq, Prod.mk.injEq] at h
          obtain ⟨rfl, rfl⟩ := h
          refine ⟨Nat.lt_succ_self _, hfn, ?_, ?_⟩
          · intro j hj u hu
            rcases Nat.lt_succ_iff_lt_or_eq.mp hj with hl | heq
            · have := hball j hl u hu; linarith
            · rw [heq, hfn] at hu; cases hu; exact le_refl _
          · intro j hj u hu
            have := hball j hj u hu; linarith
        · rename_i hnlt
          simp only [Option.some.injEq, Prod.mk.injEq] at h
          obtain ⟨rfl, rfl⟩ := h
          refine ⟨Nat.lt_succ_of_lt hbk, hbf, ?_, hbfirst⟩
          intro j hj u hu
          rcases Nat.lt_succ_iff_lt_or_eq.mp hj with hl | heq
          · exact hball j hl u hu
          · rw [heq, hfn] at hu; cases hu; exact not_lt.mp hnlt

/-- `np.nanargmin` returns `k` exactly when `k` is the first index of the minimum over the non-NaN entries. -/
theorem nanargmin_some (f : Nat → NR) (n k : Nat) :
    nanargmin f n = some k ↔ ∃ v, IsFirstMin f n k v := by
  unfold nanargmin
  constructor
  · intro h
    cases hr : nanargminFn f n with
    | none => rw [hr] at h; simp at h
    | some b =>
      rw [hr] at h
      simp only [Option.map_some, Option.some.injEq] at h
      obtain ⟨bk, bv⟩ := b
      simp only at h
      subst h
      exact ⟨bv, nanargminFn_spec f n bk bv hr⟩
  · rintro ⟨v, hv⟩
    cases hr : nanargminFn f n with
    | none =>
      have := (nanargminFn_none f n).mp hr k hv.1
      rw [hv.2.1] at this; cases this
    | some b =>
      obtain ⟨bk, bv⟩ := b
      have := (nanargminFn_spec f n bk bv hr).unique hv
      simp [this.1]

/-- `np.nanargmin` raises (all-NaN or empty slice) exactly when no entry is a number. -/
theorem nanargmin_none (f : Nat → NR) (n : Nat) :
    nanargmin f n = none ↔ ∀ j, j < n → f j = none := by
  unfold nanargmin
  rw [Option.map_eq_none_iff]
  exact nanargminFn_none f n

/-- `k` is the first row of `col[0:n]` nearest to `x` among the non-NaN rows -/
def IsFirstNearest (col : Nat → NR) (n : Nat) (x : Rat) (k : Nat) (v : Rat) : Prop :=
  k < n ∧ col k = some v ∧ (∀ j, j < n → ∀ w, col j = some w → |v - x| ≤ |w - x|) ∧
    (∀ j, j < k → ∀ w, col j = some w → |v - x| < |w - x|)

theorem IsFirstNearest.unique {col : Nat → NR} {n k k' : Nat} {x v v' : Rat}
    (h : IsFirstNearest col n x k v) (h' : IsFirstNearest col n x k' v') : k = k' ∧ v = v' := by
  obtain ⟨hk, hf, hall, hfirst⟩ := h
  obtain ⟨hk', hf', hall', hfirst'⟩ := h'
  have hkk : k = k' := by
    rcases Nat.lt_trichotomy k k' with hlt | heq | hgt
    · have h1 := hfirst' k hlt v hf
      have h2 := hall k' hk' v' hf'
      linarith
    · exact heq
    · have h1 := hfirst k' hgt v' hf'
      have h2 := hall' k hk v hf
      linarith
  subst hkk
  rw [hf] at hf'
  exact ⟨rfl, Option.some.inj hf'⟩

/-- `np.nanargmin(np.abs(col - x))` for a number `x`. -/
theorem nanargminAbs_some (col : Nat → NR) (n : Nat) (x : Rat) (k : Nat) :
    nanargminAbs col n (some x) = some k ↔ ∃ v, IsFirstNearest col n x k v := by
  unfold nanargminAbs
  rw [nanargmin_some]
  constructor
  · rintro ⟨d, hk, hf, hall, hfirst⟩
    beta_reduce at hf
    cases hc : col k with
    | none => rw [hc] at hf; simp [nanSub, nanAbs] at hf
    | some v =>
      rw [hc] at hf
      simp only [nanSub, nanAbs, Option.some.injEq, qabs_eq_abs] at hf
      subst hf
      refine ⟨v, hk, hc, ?_, ?_⟩
      · intro j hj w hw
        exact hall j hj (|w - x|) (by simp [hw, nanSub, nanAbs, qabs_eq_abs])
      · intro j hj w hw
        exact hfirst j hj (|w - x|) (by simp [hw, nanSub, nanAbs, qabs_eq_abs])
  · rintro ⟨v, hk, hc, hall, hfirst⟩
    refine ⟨|v - x|, hk, by simp [hc, nanSub, nanAbs, qabs_eq_abs], ?_, ?_⟩
    · intro j hj w hw
      beta_reduce at hw
      cases hcj : col j with
      | none => rw [hcj] at hw; simp [nanSub, nanAbs] at hw
      | some u =>
        rw [hcj] at hw
        simp only [nanSub, nanAbs, Option.some.injEq, qabs_eq_abs] at hw
        subst hw
        exact hall j hj u hcj
    · intro j hj w hw
      beta_reduce at hw
      cases hcj : col j with
      | none => rw [hcj] at hw; simp [nanSub, nanAbs] at hw
      | some u =>
        rw [hcj] at hw
        simp only [nanSub, nanAbs, Option.some.injEq, qabs_eq_abs] at hw
        subst hw
        exact hfirst j hj u hcj

theorem nanargminAbs_none (col : Nat → NR) (n : Nat) (x : Rat) :
    nanargminAbs col n (some x) = none ↔ ∀ j, j < n → col j = none := by
  unfold nanargminAbs
  rw [nanargmin_none]
  constructor
  · intro h j hj
    have := h j hj
    cases hc : col j with
    | none => rfl
    | some u => rw [hc] at this; simp [nanSub, nanAbs] at this
  · intro h j hj
    simp [h j hj, nanSub, nanAbs]

/-- a NaN query makes every distance NaN: `ValueError`. -/
theorem nanargminAbs_nan (col : Nat → NR) (n : Nat) : nanargminAbs col n none = none := by
  unfold nanargminAbs
  rw [nanargmin_none]
  intro j _
  cases col j <;> simp [nanSub, nanAbs]

theorem isclose_some (a b rtol : Rat) :
    isclose (some a) (some b) rtol = true ↔ |a - b| ≤ iscloseAtol + rtol * |b| := by
  simp [isclose, qabs_eq_abs]

end PV
