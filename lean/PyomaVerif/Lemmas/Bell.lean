import PyomaVerif.Model.Efdd
import PyomaVerif.Lemmas.Efdd
import Mathlib.Algebra.BigOperators.Ring.Finset
import Mathlib.Algebra.Order.BigOperators.Ring.Finset
/-!
# Lemmas for C07Bell: the SDOF bell on a structured spectrum

`Cx K` (the pair-complex numbers of the model) is made a commutative ring (scoped to this
namespace), the model's `cdot` / `mac` get closed forms over `Finset.sum`, and the three
algebraic facts the property theorems rest on are proved:

* `mac` does not see a non-zero complex factor on either argument, nor a unitary change of
  basis applied to both arguments;
* `φᴴ·(Σ_m s_m·a_m·a_mᴴ)·φ = Σ_m s_m·|φᴴ·a_m|²`;
* `(Pφ)ᴴ·(P·S·Pᴴ)·(Pφ) = φᴴ·S·φ` for `PᴴP = I`.

Vocabulary used only in theorem statements (not part of the executable model):
`structSy`, `applyM`, `conjBy`, `IsUnitaryOn`, `nrm2`.
-/
set_option linter.unusedSectionVars false
set_option linter.unnecessarySeqFocus false
namespace PV.Bell
open PV PV.Fdd PV.Efdd Finset

variable {K : Type} [Field K] [LinearOrder K] [IsStrictOrderedRing K]

/-! ### `Cx K` as a commutative ring -/

scoped instance cxNeg : Neg (Cx K) := ⟨fun a => ⟨-a.re, -a.im⟩⟩
@[simp] theorem neg_re (a : Cx K) : (-a).re = -a.re := rfl
@[simp] theorem neg_im (a : Cx K) : (-a).im = -a.im := rfl

scoped instance cxCommRing : CommRing (Cx K) where
  add := (· + ·)
  zero := 0
  mul := (· * ·)
  one := 1
  neg := Neg.neg
  add_assoc a b c := by ext <;> simp [add_assoc]
  zero_add a := by ext <;> simp
  add_zero a := by ext <;> simp
  add_comm a b := by ext <;> simp [add_comm]
  neg_add_cancel a := by ext <;> simp
  mul_assoc a b c := by ext <;> simp <;> ring
  one_mul a := by ext <;> simp
  mul_one a := by ext <;> simp
  left_distrib a b c := by ext <;> simp <;> ring
  right_distrib a b c := by ext <;> simp <;> ring
  mul_comm a b := by ext <;> simp <;> ring
  zero_mul a := by ext <;> simp
  mul_zero a := by ext <;> simp
  nsmul := nsmulRec
  zsmul := zsmulRec

theorem conj_add (a b : Cx K) : Cx.conj (a + b) = Cx.conj a + Cx.conj b := by
  ext <;> simp [add_comm]
theorem conj_zero : Cx.conj (0 : Cx K) = 0 := by ext <;> simp
theorem conj_ofReal (x : K) : Cx.conj (Cx.ofReal x : Cx K) = Cx.ofReal x := by ext <;> simp
theorem ofReal_zero : (Cx.ofReal 0 : Cx K) = 0 := by ext <;> simp
theorem ofReal_one : (Cx.ofReal 1 : Cx K) = 1 := by ext <;> simp
theorem ofReal_add (x y : K) : (Cx.ofReal (x + y) : Cx K) = Cx.ofReal x + Cx.ofReal y := by
  ext <;> simp
theorem ofReal_mul (x y : K) : (Cx.ofReal (x * y) : Cx K) = Cx.ofReal x * Cx.ofReal y := by
  ext <;> simp
theorem smul_eq (s : K) (a : Cx K) : Cx.smul s a = Cx.ofReal s * a := by ext <;> simp
theorem mul_conj_self (a : Cx K) : a * Cx.conj a = Cx.ofReal (Cx.normSq a) := by
  ext <;> simp [Cx.normSq] <;> ring
theorem conj_mul_self (a : Cx K) : Cx.conj a * a = Cx.ofReal (Cx.normSq a) := by
  ext <;> simp [Cx.normSq] <;> ring
theorem normSq_ofReal (x : K) : Cx.normSq (Cx.ofReal x : Cx K) = x * x := by
  simp [Cx.normSq]
theorem normSq_one : Cx.normSq (1 : Cx K) = 1 := by simp [Cx.normSq]
theorem normSq_zero : Cx.normSq (0 : Cx K) = 0 := by simp [Cx.normSq]
theorem ofReal_injective {x y : K} (h : (Cx.ofReal x : Cx K) = Cx.ofReal y) : x = y :=
  congrArg Cx.re h

theorem conj_sum (n : Nat) (f : Nat → Cx K) :
    Cx.conj (∑ i ∈ range n, f i) = ∑ i ∈ range n, Cx.conj (f i) := by
  induction n with
  | zero => simp [conj_zero]
  | succ n ih => rw [sum_range_succ, sum_range_succ, conj_add, ih]

theorem ofReal_sum {ι : Type} (s : Finset ι) (f : ι → K) :
    (Cx.ofReal (∑ i ∈ s, f i) : Cx K) = ∑ i ∈ s, Cx.ofReal (f i) := by
  classical
  induction s using Finset.induction_on with
  | empty => simp [ofReal_zero]
  | insert a s ha ih => rw [sum_insert ha, sum_insert ha, ofReal_add, ih]

theorem sum_re (n : Nat) (f : Nat → Cx K) :
    (∑ i ∈ range n, f i).re = ∑ i ∈ range n, (f i).re := by
  induction n with
  | zero => simp
  | succ n ih => rw [sum_range_succ, sum_range_succ, Cx.add_re, ih]

/-! ### statement vocabulary -/

/-- `‖x‖² = Σ_{i<n} |x_i|²` -/
def nrm2 (n : Nat) (x : Nat → Cx K) : K := ∑ i ∈ range n, Cx.normSq (x i)

/-- matrix–vector product over the first `n` channels -/
def applyM (n : Nat) (P : Nat → Nat → Cx K) (x : Nat → Cx K) (i : Nat) : Cx K :=
  sumTo n (fun j => P i j * x j)

/-- `P·S·Pᴴ` on every spectral line -/
def conjBy (n : Nat) (P : Nat → Nat → Cx K) (Sy : Nat → Nat → Nat → Cx K) (i j l : Nat) : Cx K :=
  sumTo n (fun k => sumTo n (fun k' => P i k * Sy k k' l * Cx.conj (P j k')))

/-- `PᴴP = I` on the first `n` channels -/
def IsUnitaryOn (n : Nat) (P : Nat → Nat → Cx K) : Prop :=
  ∀ j k, j < n → k < n → ∑ i ∈ range n, Cx.conj (P i j) * P i k = if j = k then 1 else 0

/-- the structured spectral matrix `Sy(l) = Σ_{m<M} s_m(l)·a_m·a_mᴴ` -/
def structSy (M : Nat) (s : Nat → Nat → K) (a : Nat → Nat → Cx K) (i j l : Nat) : Cx K :=
  sumTo M (fun m => Cx.smul (s m l) (a m i * Cx.conj (a m j)))

/-- `φᴴ·Sy(l)·φ` exactly as the FSDD branch evaluates it -/
def quadForm (n : Nat) (phi : Nat → Cx K) (Sy : Nat → Nat → Nat → Cx K) (l : Nat) : Cx K :=
  sumTo n (fun j => (sumTo n (fun i => (phi i).conj * Sy i j l)) * phi j)

/-! ### closed forms of `cdot` and `mac` -/

theorem cdot_eq (n : Nat) (x a : Nat → Cx K) :
    cdot n x a = ∑ i ∈ range n, Cx.conj (x i) * a i := by
  unfold cdot; rw [sumTo_eq]

theorem cdot_self (n : Nat) (x : Nat → Cx K) : cdot n x x = Cx.ofReal (nrm2 n x) := by
  rw [cdot_eq, nrm2, ofReal_sum]
  exact sum_congr rfl (fun i _ => conj_mul_self (x i))

theorem conj_cdot (n : Nat) (x a : Nat → Cx K) : Cx.conj (cdot n x a) = cdot n a x := by
  rw [cdot_eq, cdot_eq, conj_sum]
  apply sum_congr rfl; intro i _
  rw [Cx.conj_mul, Cx.conj_conj, mul_comm]

theorem nrm2_nonneg (n : Nat) (x : Nat → Cx K) : 0 ≤ nrm2 n x :=
  sum_nonneg (fun _ _ => Cx.normSq_nonneg _)

/-- **closed form of the coded MAC**: `|xᴴa|² / (‖x‖²·‖a‖²)` -/
theorem mac_eq (n : Nat) (x a : Nat → Cx K) :
    mac n x a = Cx.normSq (cdot n x a) / (nrm2 n x * nrm2 n a) := by
  have hden : sumTo n (fun i => (cdot n x x * (a i).conj) * a i)
      = Cx.ofReal (nrm2 n x * nrm2 n a) := by
    rw [sumTo_eq, ofReal_mul, ← cdot_self, ← cdot_self n a, cdot_eq n a a, mul_sum]
    apply sum_congr rfl; intro i _; ring
  unfold mac
  simp only [hden, Cx.div_re, Cx.ofReal_re, Cx.ofReal_im, normSq_ofReal, mul_zero, add_zero]
  set N := Cx.normSq (cdot n x a)
  set D := nrm2 n x * nrm2 n a
  by_cases hD : D = 0
  · simp [hD]
  · field_simp

theorem cdot_smul_right (n : Nat) (w : Cx K) (x a : Nat → Cx K) :
    cdot n x (fun i => w * a i) = w * cdot n x a := by
  rw [cdot_eq, cdot_eq, mul_sum]
  apply sum_congr rfl; intro i _; ring

theorem cdot_smul_left (n : Nat) (w : Cx K) (x a : Nat → Cx K) :
    cdot n (fun i => w * x i) a = Cx.conj w * cdot n x a := by
  rw [cdot_eq, cdot_eq, mul_sum]
  apply sum_congr rfl; intro i _; rw [Cx.conj_mul]; ring

theorem nrm2_smul (n : Nat) (w : Cx K) (x : Nat → Cx K) :
    nrm2 n (fun i => w * x i) = Cx.normSq w * nrm2 n x := by
  unfold nrm2
  rw [mul_sum]
  exact sum_congr rfl (fun i _ => Cx.normSq_mul _ _)

/-- the MAC does not see a non-zero complex factor on the second argument -/
theorem mac_smul_right (n : Nat) (w : Cx K) (hw : w ≠ 0) (x a : Nat → Cx K) :
    mac n x (fun i => w * a i) = mac n x a := by
  have hW : Cx.normSq w ≠ 0 := fun h => hw (Cx.normSq_eq_zero.mp h)
  rw [mac_eq, mac_eq, cdot_smul_right, nrm2_smul, Cx.normSq_mul]
  rw [show nrm2 n x * (Cx.normSq w * nrm2 n a) = Cx.normSq w * (nrm2 n x * nrm2 n a) by ring]
  exact mul_div_mul_left _ _ hW

/-- the MAC does not see a non-zero complex factor on the first argument -/
theorem mac_smul_left (n : Nat) (w : Cx K) (hw : w ≠ 0) (x a : Nat → Cx K) :
    mac n (fun i => w * x i) a = mac n x a := by
  have hW : Cx.normSq w ≠ 0 := fun h => hw (Cx.normSq_eq_zero.mp h)
  rw [mac_eq, mac_eq, cdot_smul_left, nrm2_smul, Cx.normSq_mul, Cx.normSq_conj]
  rw [show Cx.normSq w * nrm2 n x * nrm2 n a = Cx.normSq w * (nrm2 n x * nrm2 n a) by ring]
  exact mul_div_mul_left _ _ hW

/-- MAC of unit-norm vectors is the squared modulus of their inner product -/
theorem mac_unit (n : Nat) (x a : Nat → Cx K) (hx : nrm2 n x = 1) (ha : nrm2 n a = 1) :
    mac n x a = Cx.normSq (cdot n x a) := by
  rw [mac_eq, hx, ha, mul_one, div_one]

theorem nrm2_congr (n : Nat) (a a' : Nat → Cx K) (h : ∀ i, i < n → a i = a' i) :
    nrm2 n a = nrm2 n a' :=
  sum_congr rfl (fun i hi => by rw [h i (mem_range.mp hi)])

theorem cdot_congr (n : Nat) (x a a' : Nat → Cx K) (h : ∀ i, i < n → a i = a' i) :
    cdot n x a = cdot n x a' := by
  rw [cdot_eq, cdot_eq]
  exact sum_congr rfl (fun i hi => by rw [h i (mem_range.mp hi)])

/-- the MAC reads the first `n` entries only -/
theorem mac_congr_right (n : Nat) (x a a' : Nat → Cx K) (h : ∀ i, i < n → a i = a' i) :
    mac n x a = mac n x a' := by
  rw [mac_eq, mac_eq, cdot_congr n x a a' h, nrm2_congr n a a' h]

/-! ### the sum over the close modes keeps at most one term -/

/-- If the MAC test of close mode `csm` passes exactly when the recorded vector belongs to the
    reference mode `r`, and the recorded modes are distinct, then the sum over the close modes
    is the single value `V` of that close mode when `r` is among them, and zero otherwise. -/
theorem bellAt_select (m : Method) (nch cm : Nat) (Sy : Nat → Nat → Nat → Cx K)
    (Sval : Nat → Nat → Nat → K) (Svec : Nat → Nat → Nat → Cx K) (phi : Nat → Cx K)
    (MAClim : K) (l : Nat) (σ : Nat → Nat → Nat) (r : Nat) (V : Cx K)
    (hmask : ∀ csm, csm < cm → (maskAt nch phi Svec MAClim csm l = true ↔ σ csm l = r))
    (hinj : ∀ c c', c < cm → c' < cm → σ c l = σ c' l → c = c')
    (hV : ∀ csm, csm < cm → σ csm l = r → bellVal m nch Sy Sval phi csm l = V) :
    bellAt m nch cm Sy Sval Svec phi MAClim l
      = if ∃ csm, csm < cm ∧ σ csm l = r then V else 0 := by
  unfold bellAt
  rw [sumTo_eq]
  split_ifs with h
  · obtain ⟨c0, hc0, hσ⟩ := h
    rw [sum_eq_single c0]
    · rw [if_pos ((hmask c0 hc0).mpr hσ), hV c0 hc0 hσ]
    · intro b hb hne
      rw [if_neg]
      intro hb'
      exact hne (hinj b c0 (mem_range.mp hb) hc0
        (((hmask b (mem_range.mp hb)).mp hb').trans hσ.symm))
    · intro hnot; exact absurd (mem_range.mpr hc0) hnot
  · apply sum_eq_zero
    intro c hc
    rw [if_neg]
    intro hc'
    exact h ⟨c, mem_range.mp hc, (hmask c (mem_range.mp hc)).mp hc'⟩

/-! ### the quadratic form on a structured spectrum -/

theorem quadForm_eq (n : Nat) (phi : Nat → Cx K) (Sy : Nat → Nat → Nat → Cx K) (l : Nat) :
    quadForm n phi Sy l
      = ∑ j ∈ range n, ∑ i ∈ range n, Cx.conj (phi i) * Sy i j l * phi j := by
  unfold quadForm
  rw [sumTo_eq]
  apply sum_congr rfl; intro j _
  rw [sumTo_eq, sum_mul]

theorem structSy_eq (M : Nat) (s : Nat → Nat → K) (a : Nat → Nat → Cx K) (i j l : Nat) :
    structSy M s a i j l = ∑ m ∈ range M, Cx.ofReal (s m l) * (a m i * Cx.conj (a m j)) := by
  unfold structSy
  rw [sumTo_eq]
  exact sum_congr rfl (fun m _ => smul_eq _ _)

/-- `φᴴ·(Σ_m s_m·a_m·a_mᴴ)·φ = Σ_m s_m·|φᴴ·a_m|²` -/
theorem quadForm_struct (n M : Nat) (phi : Nat → Cx K) (s : Nat → Nat → K)
    (a : Nat → Nat → Cx K) (l : Nat) :
    quadForm n phi (structSy M s a) l
      = Cx.ofReal (∑ m ∈ range M, s m l * Cx.normSq (cdot n phi (a m))) := by
  rw [quadForm_eq, ofReal_sum]
  have step : ∀ m, Cx.ofReal (s m l * Cx.normSq (cdot n phi (a m)))
      = ∑ j ∈ range n, ∑ i ∈ range n,
          Cx.conj (phi i) * (Cx.ofReal (s m l) * (a m i * Cx.conj (a m j))) * phi j := by
    intro m
    rw [ofReal_mul, ← mul_conj_self, conj_cdot, cdot_eq, cdot_eq, sum_mul_sum, mul_sum, sum_comm]
    apply sum_congr rfl; intro j _
    rw [mul_sum]
    apply sum_congr rfl; intro i _
    ring
  simp only [step, structSy_eq]
  conv_rhs => rw [sum_comm]
  apply sum_congr rfl; intro j _
  conv_rhs => rw [sum_comm]
  apply sum_congr rfl; intro i _
  rw [mul_sum, sum_mul]

/-! ### unitary change of the channel basis -/

theorem applyM_eq (n : Nat) (P : Nat → Nat → Cx K) (x : Nat → Cx K) (i : Nat) :
    applyM n P x i = ∑ j ∈ range n, P i j * x j := by
  unfold applyM; rw [sumTo_eq]

/-- `Pᴴ·(P·x) = x` -/
theorem adj_apply (n : Nat) (P : Nat → Nat → Cx K) (hP : IsUnitaryOn n P) (x : Nat → Cx K)
    (k : Nat) (hk : k < n) :
    ∑ i ∈ range n, Cx.conj (P i k) * applyM n P x i = x k := by
  simp only [applyM_eq, mul_sum]
  rw [sum_comm]
  have : ∀ j ∈ range n, ∑ i ∈ range n, Cx.conj (P i k) * (P i j * x j)
      = (if k = j then 1 else 0) * x j := by
    intro j hj
    rw [← hP k j hk (mem_range.mp hj), sum_mul]
    apply sum_congr rfl; intro i _; ring
  rw [sum_congr rfl this]
  simp only [ite_mul, one_mul, zero_mul]
  rw [sum_ite_eq (range n) k]
  simp [hk]

/-- a unitary change of basis preserves the inner product -/
theorem cdot_unitary (n : Nat) (P : Nat → Nat → Cx K) (hP : IsUnitaryOn n P) (x a : Nat → Cx K) :
    cdot n (applyM n P x) (applyM n P a) = cdot n x a := by
  rw [cdot_eq, cdot_eq]
  have h1 : ∀ i, Cx.conj (applyM n P x i) * applyM n P a i
      = ∑ j ∈ range n, Cx.conj (x j) * (Cx.conj (P i j) * applyM n P a i) := by
    intro i
    rw [applyM_eq n P x, conj_sum, sum_mul]
    apply sum_congr rfl; intro j _
    rw [Cx.conj_mul]; ring
  simp only [h1]
  rw [sum_comm]
  apply sum_congr rfl; intro j hj
  rw [← mul_sum, adj_apply n P hP a j (mem_range.mp hj)]

theorem nrm2_eq_cdot_re (n : Nat) (x : Nat → Cx K) : nrm2 n x = (cdot n x x).re := by
  rw [cdot_self]; rfl

theorem mac_unitary (n : Nat) (P : Nat → Nat → Cx K) (hP : IsUnitaryOn n P) (x a : Nat → Cx K) :
    mac n (applyM n P x) (applyM n P a) = mac n x a := by
  rw [mac_eq, mac_eq, cdot_unitary n P hP, nrm2_eq_cdot_re, nrm2_eq_cdot_re n (applyM n P a),
    cdot_unitary n P hP, cdot_unitary n P hP, ← nrm2_eq_cdot_re, ← nrm2_eq_cdot_re]

theorem conjBy_eq (n : Nat) (P : Nat → Nat → Cx K) (Sy : Nat → Nat → Nat → Cx K) (i j l : Nat) :
    conjBy n P Sy i j l
      = ∑ k ∈ range n, ∑ k' ∈ range n, P i k * Sy k k' l * Cx.conj (P j k') := by
  unfold conjBy
  rw [sumTo_eq]
  exact sum_congr rfl (fun k _ => sumTo_eq _ _)

/-- `φᴴ·S·φ = ⟨φ, S·φ⟩` -/
theorem quadForm_cdot (n : Nat) (phi : Nat → Cx K) (Sy : Nat → Nat → Nat → Cx K) (l : Nat) :
    quadForm n phi Sy l = cdot n phi (applyM n (fun i j => Sy i j l) phi) := by
  rw [quadForm_eq, cdot_eq, sum_comm]
  apply sum_congr rfl; intro i _
  rw [applyM_eq, mul_sum]
  apply sum_congr rfl; intro j _
  ring

/-- `(P·S·Pᴴ)·(P·φ) = P·(S·φ)` -/
theorem conjBy_apply (n : Nat) (P : Nat → Nat → Cx K) (hP : IsUnitaryOn n P)
    (phi : Nat → Cx K) (Sy : Nat → Nat → Nat → Cx K) (l i : Nat) :
    applyM n (fun i j => conjBy n P Sy i j l) (applyM n P phi) i
      = applyM n P (applyM n (fun i j => Sy i j l) phi) i := by
  rw [applyM_eq, applyM_eq n P]
  have hR : ∀ k ∈ range n, P i k * applyM n (fun i j => Sy i j l) phi k
      = ∑ k' ∈ range n, ∑ j ∈ range n,
          P i k * Sy k k' l * Cx.conj (P j k') * applyM n P phi j := by
    intro k _
    rw [applyM_eq, mul_sum]
    apply sum_congr rfl; intro k' hk'
    rw [← adj_apply n P hP phi k' (mem_range.mp hk'), mul_sum, mul_sum]
    apply sum_congr rfl; intro j _
    ring
  rw [sum_congr rfl hR]
  simp only [conjBy_eq, sum_mul]
  rw [sum_comm]
  apply sum_congr rfl; intro k _
  rw [sum_comm]

/-- `(Pφ)ᴴ·(P·S·Pᴴ)·(Pφ) = φᴴ·S·φ` -/
theorem quadForm_unitary (n : Nat) (P : Nat → Nat → Cx K) (hP : IsUnitaryOn n P)
    (phi : Nat → Cx K) (Sy : Nat → Nat → Nat → Cx K) (l : Nat) :
    quadForm n (applyM n P phi) (conjBy n P Sy) l = quadForm n phi Sy l := by
  rw [quadForm_cdot, quadForm_cdot,
    cdot_congr n _ _ _ (fun i _ => conjBy_apply n P hP phi Sy l i), cdot_unitary n P hP]

end PV.Bell
