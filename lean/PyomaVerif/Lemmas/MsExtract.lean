import PyomaVerif.Lemmas.Mpe
import PyomaVerif.Lemmas.NanTable
import Mathlib.Tactic.Linarith
import Mathlib.Data.List.Basic
/-!
Helper lemmas for `Props/C03C11.lean` (multi-setup SSI identification ⇒ extraction).

* indexing into the concatenation of the per-setup roving channel lists;
* the request loop of `SSI_mpe` when, for every request, the row holding the wanted pole is the
  first nearest retained row of the order column and `np.isclose` to the request: the selected
  cells are exactly those rows, in request order.
-/
namespace PV

/-! ### the sensor order `references ++ roving₀ ++ roving₁ ++ …` -/

theorem flatten_getD (L : List (List Nat)) : ∀ jj l k, L[jj]? = some l → k < l.length →
    L.flatten.getD (((L.map List.length).take jj).sum + k) 0 = l.getD k 0 := by
  induction L with
  | nil => intro jj l k h; simp at h
  | cons x xs ih =>
    intro jj l k h hk
    cases jj with
    | zero =>
      simp only [List.getElem?_cons_zero, Option.some.injEq] at h
      subst h
      simp only [List.map_cons, List.take_zero, List.sum_nil, Nat.zero_add, List.flatten_cons,
        List.getD_eq_getElem?_getD]
      rw [List.getElem?_append_left hk]
    | succ jj =>
      simp only [List.getElem?_cons_succ] at h
      have := ih jj l k h hk
      simp only [List.map_cons, List.take_succ_cons, List.sum_cons, List.flatten_cons,
        List.getD_eq_getElem?_getD] at this ⊢
      rw [List.getElem?_append_right (by omega)]
      have e : x.length + ((xs.map List.length).take jj).sum + k - x.length
          = ((xs.map List.length).take jj).sum + k := by omega
      rw [e, this]

theorem append_getD_left (xs ys : List Nat) (s : Nat) (hs : s < xs.length) :
    (xs ++ ys).getD s 0 = xs.getD s 0 := by
  simp only [List.getD_eq_getElem?_getD]
  rw [List.getElem?_append_left hs]

theorem append_getD_right (xs ys : List Nat) (m : Nat) :
    (xs ++ ys).getD (xs.length + m) 0 = ys.getD m 0 := by
  simp only [List.getD_eq_getElem?_getD]
  rw [List.getElem?_append_right (by omega)]
  congr 2; omega

/-! ### the request loop on a column with a first nearest, close pole for every request -/

/-- a sufficient condition for "first nearest": every other retained row of the column is
    strictly farther from the request, or holds the same value and comes later (the conjugate
    partner of a pole has the same frequency) -/
theorem firstNearest_of_separated (col : Nat → NR) (n : Nat) (x : Rat) (k : Nat) (v : Rat)
    (hk : k < n) (hv : col k = some v)
    (hsep : ∀ j, j < n → j ≠ k → ∀ w, col j = some w → |v - x| < |w - x| ∨ (w = v ∧ k < j)) :
    IsFirstNearest col n x k v := by
  refine ⟨hk, hv, ?_, ?_⟩
  · intro j hj w hw
    by_cases hjk : j = k
    · subst hjk; rw [hv] at hw; cases hw; exact le_refl _
    · rcases hsep j hj hjk w hw with h | ⟨h, _⟩
      · exact le_of_lt h
      · rw [h]
  · intro j hj w hw
    rcases hsep j (lt_trans hj hk) (Nat.ne_of_lt hj) w hw with h | ⟨_, h⟩
    · exact h
    · omega

/-- if for every request the row `tr fj` is the first nearest retained row of column `ord` and its
    value is `np.isclose` to the request, the request loop selects exactly the cells `(tr fj, ord)` -/
theorem mpeCells_of_firstNearest (Fn : Mat NR) (rtol : Rat) (ord : Nat) (tr : Rat → Nat) (tv : Rat → Rat) :
    ∀ freq : List Rat,
      (∀ fj ∈ freq, IsFirstNearest (fun r => Fn.e r ord) Fn.r fj (tr fj) (tv fj)
        ∧ |tv fj - fj| ≤ iscloseAtol + rtol * |fj|) →
      mpeCells Fn (chkOwn rtol) (freq.map fun f => (f, some ord)) = freq.map fun fj => (tr fj, ord) := by
  intro freq
  induction freq with
  | nil => intro _; rfl
  | cons fj rest ih =>
    intro h
    obtain ⟨hn, hc⟩ := h fj List.mem_cons_self
    have hidx : nanargminAbs (fun r => Fn.e r ord) Fn.r (some fj) = some (tr fj) :=
      (nanargminAbs_some _ _ _ _).mpr ⟨tv fj, hn⟩
    have hval : Fn.e (tr fj) ord = some (tv fj) := hn.2.1
    have hchk : chkOwn rtol fj (Fn.e (tr fj) ord) = true := by
      rw [chkOwn, hval, isclose_some]; exact hc
    have hrest := ih (fun f hf => h f (List.mem_cons_of_mem _ hf))
    have : mpeCells Fn (chkOwn rtol) (((fj :: rest).map fun f => (f, some ord)))
        = (tr fj, ord) :: mpeCells Fn (chkOwn rtol) (rest.map fun f => (f, some ord)) := by
      simp [mpeCells, selCell, hidx, hchk]
    rw [this, hrest]
    rfl

end PV
