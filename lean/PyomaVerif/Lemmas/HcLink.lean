import PyomaVerif.Model.Hc
import PyomaVerif.Lemmas.HcProg
/-!
# Layer A / Layer C link of C09: the list-of-rows functions of `Model/Hc.lean` (what the driver runs
and the harness compares with `gen.HC_*` / `gen.applymask`) against the cell-function semantics that
`cexec` of `Model/HcProg.lean` hard-codes (`maskTbl` = `np.where(mask, arr, nan)`).

* `cellAt_applymask` — `gen.applymask` on a 2-D table IS `maskTbl`;
* `cellAt_hcDamp`, `cellAt_hcCov`, `cellAt_hcConj` — the filtered table each `HC_*` function returns
  IS `maskTbl` of its own mask (for `HC_damp` this is the `damp*mask; ==0 → nan` code, for `HC_cov`
  the repaired `np.where`), and `maskAt_*` — its mask IS the cell criterion `cexec` evaluates;
* `mem_entries`, `mem_entries_gridOf`, `conjMask_gridOf` — `HC_conj`'s set of table entries, cell-wise;
  on a table that fits the grid, the grid reading (`conjGrid`) and the list reading coincide.

No Mathlib.
-/
namespace PV.HcFn
open PV.Hc

variable {α : Type}

theorem cellAt_eq_some (t : T α) (x : Nat × Nat) (a : α) :
    cellAt t x = some a ↔ ∃ row, t[x.1]? = some row ∧ row[x.2]? = some (some a) := by
  unfold cellAt
  cases h : t[x.1]? with
  | none => simp
  | some row =>
    cases h2 : row[x.2]? with
    | none => simp [h2]
    | some o => cases o <;> simp [h2]

theorem cellAt_lt (t : T α) (r c : Nat) (hf : Fits r c t) (x : Nat × Nat) (a : α)
    (h : cellAt t x = some a) : x.1 < r ∧ x.2 < c := by
  obtain ⟨row, h1, h2⟩ := (cellAt_eq_some t x a).mp h
  obtain ⟨hl, e1⟩ := List.getElem?_eq_some_iff.mp h1
  obtain ⟨hl2, _⟩ := List.getElem?_eq_some_iff.mp h2
  have hrow : row ∈ t := by rw [← e1]; exact List.getElem_mem hl
  have := hf.2 row hrow
  exact ⟨Nat.lt_of_lt_of_le hl hf.1, Nat.lt_of_lt_of_le hl2 this⟩

theorem cellAt_gridOf (r c : Nat) (f : Nat × Nat → Option α) (x : Nat × Nat) :
    cellAt (gridOf r c f) x = if x.1 < r ∧ x.2 < c then f x else none := by
  unfold cellAt gridOf
  by_cases h1 : x.1 < r
  · by_cases h2 : x.2 < c
    · simp [h1, h2]
    · simp [h1, h2]
  · simp [h1]

theorem fits_gridOf (r c : Nat) (f : Nat × Nat → Option α) : Fits r c (gridOf r c f) := by
  constructor
  · simp [gridOf]
  · intro row hrow
    simp only [gridOf, List.mem_map] at hrow
    obtain ⟨i, _, rfl⟩ := hrow
    simp

/-- `set(lambd.flatten())`, cell-wise: a value is among the entries iff some cell holds it -/
theorem mem_entries (t : T C) (z : C) : z ∈ entries t ↔ ∃ x, cellAt t x = some z := by
  unfold entries
  simp only [List.mem_filterMap, List.mem_flatMap, id]
  constructor
  · rintro ⟨o, ⟨row, hrow, ho⟩, hoz⟩
    subst hoz
    obtain ⟨i, hi⟩ := List.mem_iff_getElem?.mp hrow
    obtain ⟨j, hj⟩ := List.mem_iff_getElem?.mp ho
    exact ⟨(i, j), (cellAt_eq_some t (i, j) z).mpr ⟨row, hi, hj⟩⟩
  · rintro ⟨x, hx⟩
    obtain ⟨row, h1, h2⟩ := (cellAt_eq_some t x z).mp hx
    exact ⟨some z, ⟨row, List.mem_of_getElem? h1, List.mem_of_getElem? h2⟩, rfl⟩

theorem mem_entries_gridOf (r c : Nat) (f : Nat × Nat → Option C) (z : C) :
    z ∈ entries (gridOf r c f) ↔ ∃ x : Nat × Nat, x.1 < r ∧ x.2 < c ∧ f x = some z := by
  rw [mem_entries]
  constructor
  · rintro ⟨x, hx⟩
    rw [cellAt_gridOf] at hx
    split at hx
    · rename_i h; exact ⟨x, h.1, h.2, hx⟩
    · cases hx
  · rintro ⟨x, h1, h2, hx⟩
    exact ⟨x, by rw [cellAt_gridOf, if_pos ⟨h1, h2⟩]; exact hx⟩

/-- a table that fits the grid has the same entries as its grid reading -/
theorem entries_gridOf_cellAt (r c : Nat) (t : T C) (hf : Fits r c t) (z : C) :
    z ∈ entries (gridOf r c (cellAt t)) ↔ z ∈ entries t := by
  rw [mem_entries_gridOf, mem_entries]
  constructor
  · rintro ⟨x, _, _, hx⟩; exact ⟨x, hx⟩
  · rintro ⟨x, hx⟩
    obtain ⟨h1, h2⟩ := cellAt_lt t r c hf x z hx
    exact ⟨x, h1, h2, hx⟩

theorem conjMask_congr (t t' : T C) (h : ∀ z, z ∈ entries t ↔ z ∈ entries t') (x : Option C) :
    conjMask t x = conjMask t' x := by
  cases x with
  | none => rfl
  | some z =>
    simp only [conjMask]
    rw [Bool.eq_iff_iff]
    simp [h z, h (cconj z)]

/-- **grid reading = list reading of `HC_conj`** on a table that fits the grid -/
theorem conjGrid_cellAt (r c : Nat) (t : T C) (hf : Fits r c t) (x : Nat × Nat) :
    conjGrid r c (cellAt t) x = conjMask t (cellAt t x) :=
  conjMask_congr _ _ (entries_gridOf_cellAt r c t hf) _

/-- "its complex conjugate is present": the meaning of the grid criterion, for every cell function -/
theorem conjGrid_iff (r c : Nat) (f : Nat × Nat → Option C) (x : Nat × Nat) :
    conjGrid r c f x = true ↔ ∃ z, f x = some z ∧
      (∃ y : Nat × Nat, y.1 < r ∧ y.2 < c ∧ f y = some z) ∧
      (∃ y : Nat × Nat, y.1 < r ∧ y.2 < c ∧ f y = some (cconj z)) := by
  unfold conjGrid
  cases h : f x with
  | none => simp [conjMask]
  | some z =>
    simp only [conjMask, Bool.and_eq_true, decide_eq_true_eq, mem_entries_gridOf]
    constructor
    · rintro ⟨h1, h2⟩; exact ⟨z, rfl, h1, h2⟩
    · rintro ⟨z', hz, h1, h2⟩
      cases hz
      exact ⟨h1, h2⟩

/-! ### masks and filtered tables, cell-wise -/

theorem cellAt_map (g : Option α → Option α) (hg : g none = none) (t : T α) (x : Nat × Nat) :
    cellAt (t.map (·.map g)) x = g (cellAt t x) := by
  unfold cellAt
  cases h : t[x.1]? with
  | none => simp [h, hg]
  | some row =>
    cases h2 : row[x.2]? with
    | none => simp [h, h2, hg]
    | some o => simp [h, h2]

theorem maskAt_map {β : Type} (g : Option β → Bool) (hg : g none = false) (t : T β) (x : Nat × Nat) :
    maskAt (t.map (·.map g)) x = g (cellAt t x) := by
  unfold maskAt cellAt
  cases h : t[x.1]? with
  | none => simp [h, hg]
  | some row =>
    cases h2 : row[x.2]? with
    | none => simp [h, h2, hg]
    | some o => simp [h, h2]

/-- **`gen.applymask` (2-D) is `maskTbl`** — the semantics `cexec` gives to `Stmt.apply`. -/
theorem cellAt_applymask (t : T α) (m : List (List Bool)) :
    cellAt (applymask t m) = maskTbl (maskAt m) (cellAt t) := by
  funext x
  unfold cellAt maskAt maskTbl applymask
  rw [List.getElem?_zipWith]
  cases hti : t[x.1]? with
  | none => simp [hti]
  | some row =>
    cases hmi : m[x.1]? with
    | none => simp [hmi]
    | some mrow =>
      simp only [hti, hmi, Option.bind_some]
      rw [List.getElem?_zipWith]
      cases hr : row[x.2]? with
      | none => simp
      | some o =>
        cases hm : mrow[x.2]? with
        | none => simp
        | some b => cases b <;> simp

/-- `HC_damp`: its mask is the cell criterion … -/
theorem maskAt_hcDamp (t : T Rat) (mx : Rat) (x : Nat × Nat) :
    maskAt (hcDamp t mx).2 x = dampMask mx (cellAt t x) :=
  maskAt_map (dampMask mx) rfl t x

/-- … and its filtered table (`damp * mask; filt[filt == 0] = nan`) is `maskTbl` of that mask. -/
theorem cellAt_hcDamp (t : T Rat) (mx : Rat) :
    cellAt (hcDamp t mx).1 = maskTbl (fun x => dampMask mx (cellAt t x)) (cellAt t) := by
  funext x
  show cellAt (t.map (·.map (dampFilt mx))) x = _
  rw [cellAt_map (dampFilt mx) rfl]
  unfold maskTbl
  cases h : cellAt t x with
  | none => simp [dampFilt, dampMask, h]
  | some v =>
    by_cases hm : dampMask mx (some v) = true
    · have hv : v ≠ 0 := by
        intro h0
        subst h0
        simp [dampMask] at hm
      simp [dampFilt, hm, hv, h]
    · simp [dampFilt, hm, h]

theorem maskAt_hcCov (t : T Rat) (mx : Rat) (x : Nat × Nat) :
    maskAt (hcCov t mx).2 x = covMask mx (cellAt t x) :=
  maskAt_map (covMask mx) rfl t x

/-- `HC_cov` (after the repair of F23): the filtered table is `maskTbl` of its mask, zero variances included -/
theorem cellAt_hcCov (t : T Rat) (mx : Rat) :
    cellAt (hcCov t mx).1 = maskTbl (fun x => covMask mx (cellAt t x)) (cellAt t) := by
  funext x
  show cellAt (t.map (·.map (covFilt mx))) x = _
  rw [cellAt_map (covFilt mx) rfl]
  rfl

theorem maskAt_hcConj (t : T C) (x : Nat × Nat) :
    maskAt (hcConj t).2 x = conjMask t (cellAt t x) :=
  maskAt_map (conjMask t) rfl t x

/-- `HC_conj`'s filtered table is its input blanked by its own mask -/
theorem cellAt_hcConj (t : T C) :
    cellAt (hcConj t).1 = maskTbl (fun x => conjMask t (cellAt t x)) (cellAt t) := by
  funext x
  show cellAt (t.map (·.map fun y => if conjMask t y then y else none)) x = _
  rw [cellAt_map (fun y => if conjMask t y then y else none) (by simp [conjMask])]
  rfl

theorem maskAt_hcPhiComp (mpd mpc : T Rat) (mpcLim mpdLim : Rat) (x : Nat × Nat) :
    maskAt (hcPhiComp mpd mpc mpcLim mpdLim).1 x = mpdMask mpdLim (cellAt mpd x) ∧
    maskAt (hcPhiComp mpd mpc mpcLim mpdLim).2 x = mpcMask mpcLim (cellAt mpc x) :=
  ⟨maskAt_map (mpdMask mpdLim) rfl mpd x, maskAt_map (mpcMask mpcLim) rfl mpc x⟩

end PV.HcFn
