import PyomaVerif.Lemmas.Spectral
import Mathlib.Algebra.BigOperators.Intervals
import Mathlib.Algebra.Ring.GeomSum
import Mathlib.Algebra.BigOperators.Field
import Mathlib.RingTheory.RootsOfUnity.Complex
/-!
Helper lemmas for `Props/C13Parseval.lean`: orthogonality of the twiddle factors, Parseval for
the model's `dft`, Hermitian symmetry of the transform of a real sequence, folding of a
Hermitian two-sided spectrum into the one-sided one, and the concrete twiddle
`exp(−2πi·m/N)` over `ℝ` (via Mathlib's complex roots of unity).
-/
set_option linter.unnecessarySeqFocus false
namespace PV
open Finset

section abstract
variable {K : Type} [Field K]

/-- `tw 0 = 1` for a multiplicative unit-modulus twiddle. -/
theorem tw_zero (tw : Nat → CxS K) (hmul : ∀ a b, tw (a + b) = tw a * tw b)
    (hunit : ∀ m, CxS.conj (tw m) * tw m = 1) : tw 0 = 1 := by
  have h := hmul 0 0
  rw [Nat.add_zero] at h
  calc tw 0 = (CxS.conj (tw 0) * tw 0) * tw 0 := by rw [hunit, one_mul]
    _ = CxS.conj (tw 0) * (tw 0 * tw 0) := by ring
    _ = 1 := by rw [← h, hunit]

/-- **Orthogonality kernel.** `Σ_{k<N} conj(tw(k·s))·tw(k·t) = N·[s = t]` for `s, t < N`. -/
theorem tw_kernel (tw : Nat → CxS K) (N : Nat) (hmul : ∀ a b, tw (a + b) = tw a * tw b)
    (hunit : ∀ m, CxS.conj (tw m) * tw m = 1)
    (horth : ∀ m, 0 < m → m < N → ∑ k ∈ range N, tw (k * m) = 0)
    (s t : Nat) (hs : s < N) (ht : t < N) :
    ∑ k ∈ range N, CxS.conj (tw (k * s)) * tw (k * t) = if s = t then (N : CxS K) else 0 := by
  rcases Nat.lt_trichotomy s t with h | h | h
  · rw [if_neg (by omega)]
    rw [← horth (t - s) (by omega) (by omega)]
    apply sum_congr rfl; intro k _
    have e : k * t = k * s + k * (t - s) := by rw [← Nat.mul_add]; congr 1; omega
    rw [e, hmul, ← mul_assoc, hunit, one_mul]
  · subst h
    rw [if_pos rfl]
    simp only [hunit, sum_const, card_range, nsmul_eq_mul, mul_one]
  · rw [if_neg (by omega)]
    have h0 : ∑ k ∈ range N, CxS.conj (tw (k * (s - t))) = 0 := by
      rw [← CxS.conj_sum, horth (s - t) (by omega) (by omega), CxS.conj_zero]
    rw [← h0]
    apply sum_congr rfl; intro k _
    have e : k * s = k * t + k * (s - t) := by rw [← Nat.mul_add]; congr 1; omega
    rw [e, hmul, CxS.conj_mul, mul_right_comm, hunit, one_mul]

/-- **Parseval / Plancherel for the model's `dft`** (complex sequences, zero-padding `n ≤ N`). -/
theorem dft_parseval_cx (n N : Nat) (hnN : n ≤ N) (tw : Nat → CxS K)
    (hmul : ∀ a b, tw (a + b) = tw a * tw b) (hunit : ∀ m, CxS.conj (tw m) * tw m = 1)
    (horth : ∀ m, 0 < m → m < N → ∑ k ∈ range N, tw (k * m) = 0) (x y : Nat → CxS K) :
    ∑ k ∈ range N, CxS.conj (dft n tw x k) * dft n tw y k
      = (N : CxS K) * ∑ t ∈ range n, CxS.conj (x t) * y t := by
  have step1 : ∀ k, CxS.conj (dft n tw x k) * dft n tw y k
      = ∑ s ∈ range n, ∑ t ∈ range n,
          (CxS.conj (x s) * y t) * (CxS.conj (tw (k * s)) * tw (k * t)) := by
    intro k
    rw [dft_eq, dft_eq, CxS.conj_sum, sum_mul_sum]
    apply sum_congr rfl; intro s _; apply sum_congr rfl; intro t _
    rw [CxS.conj_mul]; ring
  simp only [step1]
  rw [sum_comm]
  have step2 : ∀ s, s ∈ range n →
      ∑ k ∈ range N, ∑ t ∈ range n,
          (CxS.conj (x s) * y t) * (CxS.conj (tw (k * s)) * tw (k * t))
        = (N : CxS K) * (CxS.conj (x s) * y s) := by
    intro s hs
    have hs' := mem_range.mp hs
    rw [sum_comm]
    have : ∀ t, t ∈ range n →
        ∑ k ∈ range N, (CxS.conj (x s) * y t) * (CxS.conj (tw (k * s)) * tw (k * t))
          = if s = t then (N : CxS K) * (CxS.conj (x s) * y t) else 0 := by
      intro t ht
      rw [← mul_sum, tw_kernel tw N hmul hunit horth s t (by omega) (by have := mem_range.mp ht; omega)]
      split_ifs <;> ring
    rw [sum_congr rfl this, sum_ite_eq, if_pos hs]
  rw [sum_congr rfl step2, ← mul_sum]

/-- orthogonality follows from primitivity: `tw m ≠ 1` for `0 < m < N` (ordered scalars). -/
theorem orth_of_ne_one [LinearOrder K] [IsStrictOrderedRing K] (tw : Nat → CxS K) (N : Nat)
    (hmul : ∀ a b, tw (a + b) = tw a * tw b) (hn : tw N = 1)
    (hprim : ∀ m, 0 < m → m < N → tw m ≠ 1) :
    ∀ m, 0 < m → m < N → ∑ k ∈ range N, tw (k * m) = 0 := by
  intro m h0 h1
  rw [← geo_sum tw N hmul hn m (hprim m h0 h1)]
  exact sum_congr rfl (fun k _ => by rw [Nat.mul_comm])

/-- `tw((N−k)·t) = conj(tw(k·t))` for `k ≤ N`. -/
theorem tw_reflect (tw : Nat → CxS K) (N : Nat) (hmul : ∀ a b, tw (a + b) = tw a * tw b)
    (hn : tw N = 1) (hunit : ∀ m, CxS.conj (tw m) * tw m = 1) (k t : Nat) (hk : k ≤ N) :
    tw ((N - k) * t) = CxS.conj (tw (k * t)) := by
  have h1 : tw ((N - k) * t) * tw (k * t) = 1 := by
    rw [← hmul, ← Nat.add_mul, Nat.sub_add_cancel hk, Nat.mul_comm]
    exact tw_mul_period tw N hmul hn t
  calc tw ((N - k) * t) = tw ((N - k) * t) * (CxS.conj (tw (k * t)) * tw (k * t)) := by
        rw [hunit, mul_one]
    _ = CxS.conj (tw (k * t)) * (tw ((N - k) * t) * tw (k * t)) := by ring
    _ = CxS.conj (tw (k * t)) := by rw [h1, mul_one]

/-- **Hermitian symmetry**: line `N − k` of the transform of a REAL sequence is the conjugate of
    line `k`. -/
theorem dft_real_reflect (n N : Nat) (tw : Nat → CxS K) (hmul : ∀ a b, tw (a + b) = tw a * tw b)
    (hn : tw N = 1) (hunit : ∀ m, CxS.conj (tw m) * tw m = 1) (a : Nat → K) (k : Nat)
    (hk : k ≤ N) :
    dft n tw (fun t => CxS.ofReal (a t)) (N - k)
      = CxS.conj (dft n tw (fun t => CxS.ofReal (a t)) k) := by
  rw [dft_eq, dft_eq, CxS.conj_sum]
  apply sum_congr rfl; intro t _
  rw [tw_reflect tw N hmul hn hunit k t hk, CxS.conj_mul, CxS.conj_ofReal]

/-- **One-sided folding** of a sequence that is symmetric about `N/2`: the model's weights
    (`1` at `k = 0` and, for even `N`, at `k = N/2`; `2` at every other line `k ≤ N/2`; for odd
    `N` the last line `(N−1)/2` IS doubled and there is no Nyquist line) reproduce the full sum. -/
theorem fold_sum (N : Nat) (hN : 0 < N) (r : Nat → K)
    (hsym : ∀ k, 0 < k → k < N → r (N - k) = r k) :
    ∑ k ∈ range (N / 2 + 1), (if k = 0 ∨ (N % 2 = 0 ∧ k = N / 2) then r k else 2 * r k)
      = ∑ k ∈ range N, r k := by
  rcases Nat.mod_two_eq_zero_or_one N with hpar | hpar
  · -- even: N = 2h, h ≥ 1
    obtain ⟨h, rfl⟩ : ∃ h, N = 2 * h := ⟨N / 2, by omega⟩
    have hh : 1 ≤ h := by omega
    have hdiv : 2 * h / 2 = h := by omega
    rw [hdiv]
    have hrefl : ∑ j ∈ Ico 1 h, r (2 * h - j) = ∑ j ∈ Ico (h + 1) (2 * h), r j := by
      have := sum_Ico_reflect r 1 (m := h) (n := 2 * h) (by omega)
      rw [this]; congr 2 <;> omega
    have hrefl' : ∑ j ∈ Ico 1 h, r (2 * h - j) = ∑ j ∈ Ico 1 h, r j :=
      sum_congr rfl (fun j hj => by
        have := mem_Ico.mp hj; exact hsym j (by omega) (by omega))
    have rhs : ∑ k ∈ range (2 * h), r k
        = r 0 + ∑ j ∈ Ico 1 h, r j + r h + ∑ j ∈ Ico (h + 1) (2 * h), r j := by
      rw [range_eq_Ico, ← sum_Ico_consecutive r (Nat.zero_le 1) (by omega : 1 ≤ 2 * h),
        ← sum_Ico_consecutive r hh (by omega : h ≤ 2 * h),
        ← sum_Ico_consecutive r (by omega : h ≤ h + 1) (by omega : h + 1 ≤ 2 * h)]
      simp [add_assoc]
    have lhs : ∑ k ∈ range (h + 1),
        (if k = 0 ∨ ((2 * h) % 2 = 0 ∧ k = h) then r k else 2 * r k)
        = r 0 + ∑ j ∈ Ico 1 h, 2 * r j + r h := by
      rw [sum_range_succ, range_eq_Ico, ← sum_Ico_consecutive _ (Nat.zero_le 1) hh]
      have e1 : ∀ j ∈ Ico 1 h, (if j = 0 ∨ ((2 * h) % 2 = 0 ∧ j = h) then r j else 2 * r j)
          = 2 * r j := by
        intro j hj
        have := mem_Ico.mp hj
        rw [if_neg]; omega
      rw [sum_congr rfl e1]
      simp [hpar]
    rw [lhs, rhs, ← hrefl, hrefl', ← mul_sum]; ring
  · -- odd: N = 2h + 1
    obtain ⟨h, rfl⟩ : ∃ h, N = 2 * h + 1 := ⟨N / 2, by omega⟩
    have hdiv : (2 * h + 1) / 2 = h := by omega
    rw [hdiv]
    have hrefl : ∑ j ∈ Ico 1 (h + 1), r (2 * h + 1 - j) = ∑ j ∈ Ico (h + 1) (2 * h + 1), r j := by
      have := sum_Ico_reflect r 1 (m := h + 1) (n := 2 * h + 1) (by omega)
      rw [this]; congr 2 <;> omega
    have hrefl' : ∑ j ∈ Ico 1 (h + 1), r (2 * h + 1 - j) = ∑ j ∈ Ico 1 (h + 1), r j :=
      sum_congr rfl (fun j hj => by
        have := mem_Ico.mp hj; exact hsym j (by omega) (by omega))
    have rhs : ∑ k ∈ range (2 * h + 1), r k
        = r 0 + ∑ j ∈ Ico 1 (h + 1), r j + ∑ j ∈ Ico (h + 1) (2 * h + 1), r j := by
      rw [range_eq_Ico, ← sum_Ico_consecutive r (Nat.zero_le 1) (by omega : 1 ≤ 2 * h + 1),
        ← sum_Ico_consecutive r (by omega : 1 ≤ h + 1) (by omega : h + 1 ≤ 2 * h + 1)]
      simp [add_assoc]
    have lhs : ∑ k ∈ range (h + 1),
        (if k = 0 ∨ ((2 * h + 1) % 2 = 0 ∧ k = h) then r k else 2 * r k)
        = r 0 + ∑ j ∈ Ico 1 (h + 1), 2 * r j := by
      rw [range_eq_Ico, ← sum_Ico_consecutive _ (Nat.zero_le 1) (by omega : 1 ≤ h + 1)]
      have e1 : ∀ j ∈ Ico 1 (h + 1),
          (if j = 0 ∨ ((2 * h + 1) % 2 = 0 ∧ j = h) then r j else 2 * r j) = 2 * r j := by
        intro j hj
        have := mem_Ico.mp hj
        rw [if_neg]; omega
      rw [sum_congr rfl e1]
      simp
    rw [lhs, rhs, ← hrefl, hrefl', ← mul_sum]; ring

end abstract

/-! ### the concrete twiddle `exp(−2πi·m/N)` over `ℝ` -/
section concrete
open Real

/-- `exp(−2πi·m/N) = cos(2πm/N) − i·sin(2πm/N)` as a model complex number over `ℝ`. -/
noncomputable def twR (N m : Nat) : CxS ℝ := ⟨Real.cos (2 * π * m / N), -Real.sin (2 * π * m / N)⟩

/-- the model's pairs over `ℝ` as Mathlib complex numbers -/
def CxS.toC (z : CxS ℝ) : ℂ := ⟨z.re, z.im⟩

theorem CxS.toC_injective : Function.Injective CxS.toC := by
  intro a b h
  have h1 := congrArg Complex.re h
  have h2 := congrArg Complex.im h
  exact CxS.ext' h1 h2

theorem CxS.toC_zero : CxS.toC 0 = 0 := rfl
theorem CxS.toC_add (a b : CxS ℝ) : CxS.toC (a + b) = CxS.toC a + CxS.toC b := rfl
theorem CxS.toC_sum (n : Nat) (f : Nat → CxS ℝ) :
    CxS.toC (∑ i ∈ range n, f i) = ∑ i ∈ range n, CxS.toC (f i) := by
  induction n with
  | zero => simp [CxS.toC_zero]
  | succ n ih => rw [sum_range_succ, sum_range_succ, CxS.toC_add, ih]

/-- the model twiddle IS the `m`-th power of the inverse of Mathlib's primitive root
    `exp(2πi/N)`. -/
theorem toC_twR (N m : Nat) :
    CxS.toC (twR N m) = (Complex.exp (2 * π * Complex.I / N))⁻¹ ^ m := by
  have e : (Complex.exp (2 * π * Complex.I / N))⁻¹ ^ m
      = Complex.exp (((-(2 * π * m / N) : ℝ) : ℂ) * Complex.I) := by
    rw [← Complex.exp_neg, ← Complex.exp_nat_mul]
    congr 1
    push_cast
    ring
  rw [e]
  apply Complex.ext
  · rw [Complex.exp_ofReal_mul_I_re, Real.cos_neg]; rfl
  · rw [Complex.exp_ofReal_mul_I_im, Real.sin_neg]; rfl

theorem twR_mul (N : Nat) : ∀ a b, twR N (a + b) = twR N a * twR N b := by
  intro a b
  apply CxS.toC_injective
  have hm : ∀ u v : CxS ℝ, CxS.toC (u * v) = CxS.toC u * CxS.toC v := by
    intro u v; apply Complex.ext <;> simp [CxS.toC]
  rw [hm, toC_twR, toC_twR, toC_twR, pow_add]

theorem twR_period (N : Nat) (hN : N ≠ 0) : twR N N = 1 := by
  apply CxS.toC_injective
  rw [toC_twR, inv_pow, (Complex.isPrimitiveRoot_exp N hN).pow_eq_one, inv_one]
  rfl

theorem twR_unit (N : Nat) : ∀ m, CxS.conj (twR N m) * twR N m = 1 := by
  intro m
  ext
  · simp only [twR, CxS.mul_re, CxS.conj_re, CxS.conj_im, CxS.one_re]
    have := Real.cos_sq_add_sin_sq (2 * π * m / N)
    nlinarith [this]
  · simp only [twR, CxS.mul_im, CxS.conj_re, CxS.conj_im, CxS.one_im]; ring

/-- **Orthogonality of the complex roots of unity**, from Mathlib's
    `Complex.isPrimitiveRoot_exp`: `Σ_{k<N} exp(−2πi·k·m/N) = 0` for `0 < m < N`. -/
theorem twR_orth (N : Nat) : ∀ m, 0 < m → m < N → ∑ k ∈ range N, twR N (k * m) = 0 := by
  intro m h0 h1
  have hN : N ≠ 0 := by omega
  have hprim : IsPrimitiveRoot (Complex.exp (2 * π * Complex.I / N))⁻¹ N :=
    (Complex.isPrimitiveRoot_exp N hN).inv
  set ζ := (Complex.exp (2 * π * Complex.I / N))⁻¹ with hζ
  apply CxS.toC_injective
  rw [CxS.toC_sum, CxS.toC_zero]
  have e : ∀ k, CxS.toC (twR N (k * m)) = (ζ ^ m) ^ k := by
    intro k; rw [toC_twR, ← pow_mul, Nat.mul_comm]
  simp only [e]
  have hne : ζ ^ m - 1 ≠ 0 := sub_ne_zero.mpr (hprim.pow_ne_one_of_pos_of_lt (by omega) h1)
  have hgeo := mul_geom_sum (ζ ^ m) N
  rw [← pow_mul, Nat.mul_comm, pow_mul, hprim.pow_eq_one, one_pow, sub_self] at hgeo
  exact (mul_eq_zero.mp hgeo).resolve_left hne

/-- the single geometric sum `m = 1`, literally Mathlib's `IsPrimitiveRoot.geom_sum_eq_zero`. -/
theorem twR_geom_one (N : Nat) (hN : 1 < N) : ∑ k ∈ range N, twR N k = 0 := by
  apply CxS.toC_injective
  rw [CxS.toC_sum, CxS.toC_zero]
  simp only [toC_twR]
  exact (Complex.isPrimitiveRoot_exp N (by omega)).inv.geom_sum_eq_zero hN

/-- the model's Hann window with the concrete twiddle is the textbook periodic Hann window. -/
theorem hann_twR (N t : Nat) : hann (twR N) t = 1 / 2 - 1 / 2 * Real.cos (2 * π * t / N) := by
  simp only [hann, twR]; norm_num

end concrete

/-! ### the two-sided Welch density and its relation to the model's one-sided `welchCsd` -/
section welch2
variable {K : Type} [Field K]

/-- the windowed, mean-removed segment the model transforms: `w_t·(x[s·step+t] − mean_s)`
    (`segMean` is the model's definition). -/
theorem welchX_dft (x w : Nat → K) (n step : Nat) (tw : Nat → CxS K) (s k : Nat) :
    welchX x w n step tw s k
      = dft n tw (fun t => CxS.ofReal (w t * (x (s * step + t) - segMean x n step s))) k := rfl

/-- specification-side quantity (NOT part of the model): line `k` of the TWO-sided averaged
    density, `1/(fs·Σw²)·(1/nseg)·Σ_s conj(X_s[k])·Y_s[k]`, `k = 0 … nfft−1`. -/
def welchTwoSided (x y : Nat → K) (n : Nat) (fs : K) (w : Nat → K) (nperseg noverlap : Nat)
    (tw : Nat → CxS K) (k : Nat) : CxS K :=
  CxS.ofReal ((1 / (fs * ∑ t ∈ range nperseg, w t * w t))
      * ((welchNseg n nperseg noverlap : Nat) : K)⁻¹)
    * ∑ s ∈ range (welchNseg n nperseg noverlap),
        CxS.conj (welchX x w nperseg (nperseg - noverlap) tw s k)
          * welchX y w nperseg (nperseg - noverlap) tw s k

/-- what the model's one-sided scaling does, line by line. -/
theorem welchCsd_one_sided (x y : Nat → K) (n : Nat) (fs : K) (w : Nat → K)
    (nperseg noverlap nfft : Nat) (tw : Nat → CxS K) (k : Nat) :
    (welchCsd x y n fs w nperseg noverlap nfft tw).val k
      = if k = 0 ∨ (nfft % 2 = 0 ∧ k = nfft / 2)
        then welchTwoSided x y n fs w nperseg noverlap tw k
        else CxS.ofReal 2 * welchTwoSided x y n fs w nperseg noverlap tw k := by
  rw [welchCsd_val]
  unfold csdCoef welchTwoSided
  split_ifs with h
  · rw [one_mul]
  · rw [CxS.ofReal_mul, mul_assoc]

/-- Hermitian symmetry of the two-sided density of real records. -/
theorem welchTwoSided_reflect (x y : Nat → K) (n : Nat) (fs : K) (w : Nat → K)
    (nperseg noverlap nfft : Nat) (tw : Nat → CxS K) (hmul : ∀ a b, tw (a + b) = tw a * tw b)
    (hn : tw nfft = 1) (hunit : ∀ m, CxS.conj (tw m) * tw m = 1) (k : Nat) (hk : k ≤ nfft) :
    welchTwoSided x y n fs w nperseg noverlap tw (nfft - k)
      = CxS.conj (welchTwoSided x y n fs w nperseg noverlap tw k) := by
  unfold welchTwoSided
  rw [CxS.conj_mul, CxS.conj_ofReal, CxS.conj_sum]
  congr 1
  apply sum_congr rfl; intro s _
  rw [welchX_dft, welchX_dft, welchX_dft, welchX_dft,
    dft_real_reflect _ nfft tw hmul hn hunit _ k hk, dft_real_reflect _ nfft tw hmul hn hunit _ k hk,
    CxS.conj_mul]

/-- Parseval for the two-sided density: its sum over all `nfft` lines is real and equals
    `nfft/(fs·Σw²)·(1/nseg)·Σ_s Σ_t (w_t x̃_t)(w_t ỹ_t)`. -/
theorem welchTwoSided_sum (x y : Nat → K) (n : Nat) (fs : K) (w : Nat → K)
    (nperseg noverlap nfft : Nat) (hle : nperseg ≤ nfft) (tw : Nat → CxS K)
    (hmul : ∀ a b, tw (a + b) = tw a * tw b) (hunit : ∀ m, CxS.conj (tw m) * tw m = 1)
    (horth : ∀ m, 0 < m → m < nfft → ∑ k ∈ range nfft, tw (k * m) = 0) :
    ∑ k ∈ range nfft, welchTwoSided x y n fs w nperseg noverlap tw k
      = CxS.ofReal ((nfft : K) * ((1 / (fs * ∑ t ∈ range nperseg, w t * w t))
          * ((welchNseg n nperseg noverlap : Nat) : K)⁻¹
          * ∑ s ∈ range (welchNseg n nperseg noverlap), ∑ t ∈ range nperseg,
              (w t * (x (s * (nperseg - noverlap) + t) - segMean x nperseg (nperseg - noverlap) s))
                * (w t * (y (s * (nperseg - noverlap) + t)
                    - segMean y nperseg (nperseg - noverlap) s)))) := by
  unfold welchTwoSided
  rw [← mul_sum, sum_comm]
  have hs : ∀ s, ∑ k ∈ range nfft,
      CxS.conj (welchX x w nperseg (nperseg - noverlap) tw s k)
        * welchX y w nperseg (nperseg - noverlap) tw s k
      = CxS.ofReal ((nfft : K) * ∑ t ∈ range nperseg,
          (w t * (x (s * (nperseg - noverlap) + t) - segMean x nperseg (nperseg - noverlap) s))
            * (w t * (y (s * (nperseg - noverlap) + t)
                - segMean y nperseg (nperseg - noverlap) s))) := by
    intro s
    simp only [welchX_dft]
    rw [dft_parseval_cx nperseg nfft hle tw hmul hunit horth, CxS.ofReal_mul, CxS.ofReal_natCast,
      CxS.ofReal_sum]
    congr 1
    apply sum_congr rfl; intro t _
    rw [CxS.conj_ofReal, ← CxS.ofReal_mul]
  simp only [hs]
  rw [← CxS.ofReal_sum, ← CxS.ofReal_mul, ← mul_sum]
  congr 1; ring

end welch2

/-! ### the correlogram chain: sum of all lines of a transform, `irfft` at lag 0 -/
section cor
variable {K : Type} [Field K]

/-- the sum of all `N` lines of a length-`N` transform is `N` times the sample at `t = 0`. -/
theorem dft_sum_lines (N : Nat) (hN : 0 < N) (tw : Nat → CxS K)
    (hmul : ∀ a b, tw (a + b) = tw a * tw b) (hunit : ∀ m, CxS.conj (tw m) * tw m = 1)
    (horth : ∀ m, 0 < m → m < N → ∑ k ∈ range N, tw (k * m) = 0) (x : Nat → CxS K) :
    ∑ k ∈ range N, dft N tw x k = (N : CxS K) * x 0 := by
  simp only [dft_eq]
  rw [sum_comm]
  have h0 : tw 0 = 1 := tw_zero tw hmul hunit
  have hk : ∀ t, t ∈ range N → ∑ k ∈ range N, x t * tw (k * t)
      = if 0 = t then (N : CxS K) * x t else 0 := by
    intro t ht
    rw [← mul_sum]
    have := tw_kernel tw N hmul hunit horth 0 t hN (mem_range.mp ht)
    simp only [Nat.mul_zero, h0] at this
    have c1 : CxS.conj (1 : CxS K) = 1 := by ext <;> simp
    simp only [c1, one_mul] at this
    rw [this]; split_ifs <;> ring
  rw [sum_congr rfl hk, sum_ite_eq, if_pos (mem_range.mpr hN)]

/-- `irfft` at lag 0: `n2·R[0] = Re P[0] + Σ_{0<k<m−1} 2·Re P[k] + Re P[m−1]`. -/
theorem irfft_zero (m : Nat) (tw2 : Nat → CxS K) (h0 : tw2 0 = 1)
    (hne : (((2 * (m - 1) : Nat)) : K) ≠ 0) (P : Nat → CxS K) :
    (((2 * (m - 1) : Nat)) : K) * irfft m tw2 P 0
      = (P 0).re + ∑ k' ∈ range (m - 2), 2 * (P (k' + 1)).re + (P (m - 1)).re := by
  have c1 : CxS.conj (1 : CxS K) = 1 := by ext <;> simp
  simp only [irfft, sumTo_eq, Nat.mul_zero, h0, c1, mul_one, Nat.zero_mod, if_true]
  rw [mul_div_cancel₀ _ hne]
  congr 2
  apply sum_congr rfl; intro k _; norm_num

/-- mean removal: line 0 of the transform of a mean-removed boxcar segment vanishes. -/
theorem welchX_boxcar_dc [CharZero K] (x : Nat → K) (n step : Nat) (hn : 0 < n)
    (tw : Nat → CxS K) (h0 : tw 0 = 1) (s : Nat) :
    welchX x (fun _ => 1) n step tw s 0 = 0 := by
  have hne : (n : K) ≠ 0 := by exact_mod_cast (by omega : n ≠ 0)
  rw [welchX_eq]
  simp only [Nat.zero_mul, h0, mul_one, one_mul]
  rw [← CxS.ofReal_sum, sum_sub_distrib, segMean_eq]
  simp only [sum_const, card_range, nsmul_eq_mul]
  rw [mul_div_cancel₀ _ hne, sub_self, CxS.ofReal_zero]

end cor

end PV
