import PyomaVerif.Model.Basic
import Mathlib.Algebra.BigOperators.Group.Finset.Basic
import Mathlib.Algebra.BigOperators.Intervals
import Mathlib.Algebra.BigOperators.Ring.Finset
/-! `sumTo` is `Finset.sum` over `range`; index lemmas for stacked blocks. -/
namespace PV
open Finset

theorem sumTo_eq {K} [AddCommMonoid K] (n : Nat) (f : Nat → K) :
    sumTo n f = ∑ i ∈ range n, f i := by
  unfold sumTo
  induction n with
  | zero => simp
  | succ n ih => rw [List.range_succ, List.foldl_append, ih, Finset.sum_range_succ]; simp

theorem blk_div {h a : Nat} (i : Nat) (ha : a < h) : (i * h + a) / h = i := by
  rw [Nat.add_comm, Nat.add_mul_div_right _ _ (by omega), Nat.div_eq_of_lt ha]; simp

theorem blk_mod {h a : Nat} (i : Nat) (ha : a < h) : (i * h + a) % h = a := by
  rw [Nat.add_comm, Nat.add_mul_mod_self_right, Nat.mod_eq_of_lt ha]

end PV
