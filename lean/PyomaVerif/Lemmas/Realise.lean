import PyomaVerif.Model.Realise
import PyomaVerif.Lemmas.Sum
import Mathlib.LinearAlgebra.Matrix.NonsingularInverse
import Mathlib.Tactic.Ring
import Mathlib.Tactic.Linarith
/-! Linear-algebra core of subspace identification and the bridge from the index-level model
(`Mat`) to Mathlib matrices. -/
namespace PV
open Matrix Finset

variable {K : Type} [Field K]

/-- the `m × n` Mathlib matrix of an entry function -/
def toMx (m n : Nat) (f : Nat → Nat → K) : Matrix (Fin m) (Fin n) K := fun i j => f i.1 j.1

theorem toMx_mul (m k n : Nat) (f g : Nat → Nat → K) :
    toMx m n (fun i j => sumTo k (fun t => f i t * g t j)) = toMx m k f * toMx k n g := by
  ext i j
  simp only [toMx, Matrix.mul_apply, sumTo_eq]
  rw [Finset.sum_range]

theorem toMx_mulT (m k n : Nat) (f g : Nat → Nat → K) :
    toMx m n (fun i j => sumTo k (fun t => f t i * g t j)) = (toMx k m f)ᵀ * toMx k n g := by
  ext i j
  simp only [toMx, Matrix.mul_apply, Matrix.transpose_apply, sumTo_eq]
  rw [Finset.sum_range]

/-- **rank-factor uniqueness**: `O·Γ = Obs·W` with `O`, `Obs` left-invertible (n columns) and `Γ`
    right-invertible gives an invertible `T` with `Obs = O·T`. -/
theorem rank_factor_unique {m n c : ℕ}
    (O Obs : Matrix (Fin m) (Fin n) K) (Γ W : Matrix (Fin n) (Fin c) K)
    (Ol : Matrix (Fin n) (Fin m) K) (Γr : Matrix (Fin c) (Fin n) K)
    (hO : Ol * O = 1) (hΓ : Γ * Γr = 1)
    (h : O * Γ = Obs * W) :
    ∃ T Tinv : Matrix (Fin n) (Fin n) K, T * Tinv = 1 ∧ Tinv * T = 1 ∧ Obs = O * T := by
  set M := W * Γr with hM
  have h1 : O = Obs * M := by
    have := congrArg (· * Γr) h
    simp only [Matrix.mul_assoc, hΓ, Matrix.mul_one] at this
    simpa [hM] using this
  have h2 : (Ol * Obs) * M = 1 := by rw [Matrix.mul_assoc, ← h1, hO]
  have h3 : M * (Ol * Obs) = 1 := mul_eq_one_comm.mp h2
  refine ⟨Ol * Obs, M, h2, h3, ?_⟩
  rw [h1, Matrix.mul_assoc, h3, Matrix.mul_one]

/-- **similarity of the realised state matrix**, for ANY left inverse `L` of the upper part. -/
theorem realisation_similar {m n : ℕ}
    (Oup Odn : Matrix (Fin m) (Fin n) K) (A T Tinv : Matrix (Fin n) (Fin n) K)
    (L : Matrix (Fin n) (Fin m) K)
    (hshift : Odn = Oup * A) (hT : T * Tinv = 1) (hL : L * (Oup * T) = 1) :
    L * (Odn * T) = Tinv * A * T := by
  subst hshift
  have h1 : Oup * A * T = (Oup * T) * (Tinv * A * T) := by
    simp only [Matrix.mul_assoc]
    rw [← Matrix.mul_assoc T Tinv, hT, Matrix.one_mul]
  rw [h1, ← Matrix.mul_assoc, hL, Matrix.one_mul]

/-- eigenpairs transfer through the similarity, output shapes are preserved -/
theorem eig_transfer {n l : ℕ} (A T Tinv Ah : Matrix (Fin n) (Fin n) K) (C Ch : Matrix (Fin l) (Fin n) K)
    (hT : T * Tinv = 1) (hA : Ah = Tinv * A * T) (hC : Ch = C * T)
    (v : Fin n → K) (lam : K) (hv : Ah.mulVec v = lam • v) :
    A.mulVec (T.mulVec v) = lam • T.mulVec v ∧ Ch.mulVec v = C.mulVec (T.mulVec v) := by
  constructor
  · have : T.mulVec (Ah.mulVec v) = T.mulVec (lam • v) := by rw [hv]
    rw [hA, Matrix.mulVec_mulVec, ← Matrix.mul_assoc, ← Matrix.mul_assoc, hT, Matrix.one_mul,
        Matrix.mulVec_smul] at this
    rw [← this, Matrix.mulVec_mulVec]
  · rw [hC, Matrix.mulVec_mulVec]

/-- block observability matrix `O[i*l + a, :] = C[a, :]·A^i`, as a Nat-indexed function -/
def obsFn {n : ℕ} (l : ℕ) (A : Matrix (Fin n) (Fin n) K) (C : ℕ → Fin n → K) : ℕ → Fin n → K :=
  fun i j => ∑ k, C (i % l) k * (A ^ (i / l)) k j

/-- shift structure: dropping the first block row equals dropping the last one times `A` -/
theorem obs_shift {n : ℕ} (l : ℕ) (hl : 0 < l) (A : Matrix (Fin n) (Fin n) K) (C : ℕ → Fin n → K)
    (i : ℕ) (j : Fin n) :
    obsFn l A C (i + l) j = ∑ k, obsFn l A C i k * A k j := by
  unfold obsFn
  have h1 : (i + l) % l = i % l := Nat.add_mod_right i l
  have h2 : (i + l) / l = i / l + 1 := Nat.add_div_right i hl
  rw [h1, h2, pow_succ]
  simp only [Matrix.mul_apply, Finset.mul_sum, Finset.sum_mul]
  rw [Finset.sum_comm]
  apply Finset.sum_congr rfl; intro x _
  apply Finset.sum_congr rfl; intro y _
  ring

/-- sums over `Fin N` of a function vanishing beyond `n ≤ N` reduce to `Fin n` -/
theorem sum_fin_trunc {N n : ℕ} (hn : n ≤ N) (f : ℕ → K) (h0 : ∀ t, n ≤ t → t < N → f t = 0) :
    ∑ t : Fin N, f t.1 = ∑ t : Fin n, f t.1 := by
  rw [← Finset.sum_range (fun t => f t), ← Finset.sum_range (fun t => f t)]
  rw [← Finset.sum_range_add_sum_Ico _ hn]
  have : ∑ t ∈ Finset.Ico n N, f t = 0 := by
    apply Finset.sum_eq_zero
    intro t ht
    rw [Finset.mem_Ico] at ht
    exact h0 t ht.1 ht.2
  rw [this, add_zero]

/-- **the leading blocks of one QR factorisation are a QR factorisation of the leading columns**
    (what makes the single QR of `SSI_fast` valid for every model order). -/
theorem qr_leading_block {M N n : ℕ} (hn : n ≤ N) (op q r : ℕ → ℕ → K)
    (hQR : toMx M N op = toMx M N q * toMx N N r)
    (hTri : ∀ i j, j < i → r i j = 0) :
    toMx M n op = toMx M n q * toMx n n r := by
  ext i j
  have := congrFun (congrFun hQR i) ⟨j.1, lt_of_lt_of_le j.2 hn⟩
  simp only [toMx, Matrix.mul_apply] at this ⊢
  rw [this]
  exact sum_fin_trunc hn (fun t => q i.1 t * r t j.1) (fun t ht _ => by
    rw [hTri t j.1 (lt_of_lt_of_le j.2 ht), mul_zero])

/-- orthonormal columns stay orthonormal when only the first `n` are kept -/
theorem orth_leading {M N n : ℕ} (hn : n ≤ N) (q : ℕ → ℕ → K)
    (hO : (toMx M N q)ᵀ * toMx M N q = 1) : (toMx M n q)ᵀ * toMx M n q = 1 := by
  ext a b
  have := congrFun (congrFun hO ⟨a.1, lt_of_lt_of_le a.2 hn⟩) ⟨b.1, lt_of_lt_of_le b.2 hn⟩
  simp only [toMx, Matrix.mul_apply, Matrix.transpose_apply, Matrix.one_apply] at this ⊢
  rw [this]
  simp [Fin.ext_iff]

end PV
