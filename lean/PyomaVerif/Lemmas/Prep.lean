import PyomaVerif.Model.Prep
import Mathlib.Algebra.Field.Rat
import Mathlib.Tactic.FieldSimp
import Mathlib.Tactic.Ring
/-!
# Helper lemmas for C14: closed forms of the step functions, the simulation invariants
-/
namespace PV.Prep

/-! ## `List.mapM` in `Except` -/

theorem mapM_ok_map {α β ε : Type} (f : α → Except ε β) (g : α → β) (l : List α)
    (h : ∀ a ∈ l, f a = .ok (g a)) : l.mapM f = .ok (l.map g) := by
  induction l with
  | nil => rfl
  | cons a l ih =>
    rw [List.mapM_cons, h a (by simp), ih (fun b hb => h b (by simp [hb]))]
    rfl

theorem mapM_error {α β ε : Type} (f : α → Except ε β) (l : List α)
    (h : ∃ a ∈ l, ∃ e, f a = .error e) : ∃ e, l.mapM f = .error e := by
  induction l with
  | nil => obtain ⟨a, ha, _⟩ := h; cases ha
  | cons a l ih =>
    rw [List.mapM_cons]
    cases hfa : f a with
    | error e => exact ⟨e, rfl⟩
    | ok b =>
      obtain ⟨x, hx, e, he⟩ := h
      have hx' : x ∈ l := by
        rcases List.mem_cons.mp hx with rfl | hx'
        · rw [hfa] at he; cases he
        · exact hx'
      obtain ⟨e', he'⟩ := ih ⟨x, hx', e, he⟩
      exact ⟨e', by rw [he']; rfl⟩

/-! ## products of decimation factors -/

theorem prodNat_append_singleton (l : List Nat) (q : Nat) : prodNat (l ++ [q]) = prodNat l * q := by
  simp [prodNat, List.foldl_append]

theorem div_prod_step (a : Rat) (l : List Nat) (q : Nat) :
    a / ((prodNat l : Nat) : Rat) / (q : Rat) = a / ((prodNat (l ++ [q]) : Nat) : Rat) := by
  rw [prodNat_append_singleton, Nat.cast_mul, div_div]

/-! ## closed forms of the keyword plumbing -/

@[simp] theorem mergeKw_single (kw : DecKwIn) :
    mergeKw { axis0 := true } { kw with axis0 := false } = .ok { kw with axis0 := true } := by
  cases kw; simp [mergeKw, Option.orElse]

theorem resolve_axis (kw : DecKwIn) (b : Bool) : ({ kw with axis0 := b } : DecKwIn).resolve = kw.resolve := rfl

/-- with `kwargs.pop` (repaired), PreGER hands scipy exactly the caller's keywords. -/
theorem mDecimateKw_pop (v : Variant) (hv : v.dupKw = false) (kw : DecKwIn) :
    ∃ k, mDecimateKw v kw = .ok k ∧ k.resolve = kw.resolve ∧ k.bogus = kw.bogus := by
  cases kw with
  | mk n ft ax zp bg =>
    refine ⟨{ n := some (n.getD none), ftype := some (ft.getD .iir), axis0 := true,
              zeroPhase := some (zp.getD true), bogus := bg }, ?_, ?_, rfl⟩
    · simp [mDecimateKw, hv, mergeKw, Option.orElse]
    · simp [DecKwIn.resolve]

/-- with `kwargs.get` (pinned), any of the four keys is passed twice. -/
theorem mDecimateKw_get (v : Variant) (hv : v.dupKw = true) (kw : DecKwIn)
    (h : kw.n.isSome ∨ kw.ftype.isSome ∨ kw.axis0 = true ∨ kw.zeroPhase.isSome) :
    mDecimateKw v kw = .error .typeError := by
  cases kw with
  | mk n ft ax zp bg =>
    simp only [mDecimateKw, hv, mergeKw]
    rcases h with h | h | h | h <;> simp_all

theorem documented_iff (kw : DecKwIn) :
    kw.documented = true ↔ kw.bogus = false ∧ kw.resolve.ftype ≠ .bad := by
  simp [DecKwIn.documented]

theorem decOk_iff (q : Nat) (kw : DecKwIn) :
    decOk q kw = true ↔ kw.bogus = false ∧ kw.resolve.ftype ≠ .bad ∧ q ≠ 0 ∧ ¬ (q = 1 ∧ kw.resolve.ftype = .fir) := by
  rw [decOk, Bool.and_eq_true, documented_iff, decQOk]
  cases hft : kw.resolve.ftype <;> simp <;> omega

theorem decOk_of_documented (q : Nat) (kw : DecKwIn) (h : kw.documented = true) (hq : 2 ≤ q) :
    decOk q kw = true := by
  simp [decOk, decQOk, h, hq]

theorem documented_of_decOk (q : Nat) (kw : DecKwIn) (h : decOk q kw = true) : kw.documented = true := by
  simp only [decOk, Bool.and_eq_true] at h; exact h.1

theorem sciDecimate_ok (x : Term) (q : Nat) (kw : DecKwIn) (h : decOk q kw = true) :
    sciDecimate x q kw = .ok (.dec q kw.resolve x) := by
  obtain ⟨h1, h2, h3, h4⟩ := (decOk_iff q kw).mp h
  simp [sciDecimate, h1, h2, h3, h4]

theorem sciDecimate_err (x : Term) (q : Nat) (kw : DecKwIn) (h : decOk q kw = false) :
    ∃ e, sciDecimate x q kw = .error e := by
  unfold sciDecimate
  by_cases h1 : kw.bogus = true
  · exact ⟨.typeError, by simp [h1]⟩
  · by_cases h2 : kw.resolve.ftype = .bad
    · exact ⟨.valueError, by simp [h1, h2]⟩
    · by_cases h3 : q = 0
      · exact ⟨.zeroDivisionError, by simp [h1, h2, h3]⟩
      · by_cases h4 : q = 1 ∧ kw.resolve.ftype = .fir
        · exact ⟨.valueError, by simp [h1, h4]⟩
        · exfalso
          have : decOk q kw = true := (decOk_iff q kw).mpr ⟨by simpa using h1, h2, h3, h4⟩
          rw [h] at this; cases this

theorem helperDecimate_ok (n0 : Nat → Nat) (x : Term) (fs : Rat) (q : Nat) (kw : DecKwIn)
    (h : decOk q kw = true) :
    helperDecimate n0 x fs q kw =
      .ok (.dec q kw.resolve x, fs / (q : Rat), 1 / (fs / (q : Rat)), (Term.dec q kw.resolve x).len n0,
           1 / (fs / (q : Rat)) / (q : Rat) * (((Term.dec q kw.resolve x).len n0 : Nat) : Rat)) := by
  simp [helperDecimate, sciDecimate_ok x q kw h, bind, Except.bind, pure, Except.pure]

theorem helperDecimate_err (n0 : Nat → Nat) (x : Term) (fs : Rat) (q : Nat) (kw : DecKwIn)
    (h : decOk q kw = false) : ∃ e, helperDecimate n0 x fs q kw = .error e := by
  obtain ⟨e, he⟩ := sciDecimate_err x q kw h
  exact ⟨e, by simp [helperDecimate, he, bind, Except.bind]⟩

/-- detrend acceptance on one array of length `N`. -/
def detOk (N : Nat) (kw : DetKwIn) : Bool :=
  !kw.bogus && kw.type.getD .linear != .bad &&
    (kw.type.getD .linear == .constant || !(kw.bp.getD [0]).any (fun b => N < b))

theorem helperDetrend_ok (n0 : Nat → Nat) (x : Term) (kw : DetKwIn) (h : detOk (x.len n0) kw = true) :
    helperDetrend n0 x kw = .ok (.det (kw.type.getD .linear) (kw.bp.getD [0]) x) := by
  simp only [detOk, Bool.and_eq_true, Bool.not_eq_true', Bool.or_eq_true, bne_iff_ne, beq_iff_eq] at h
  obtain ⟨⟨h1, h2⟩, h3⟩ := h
  simp only [helperDetrend, sciDetrend, h1, h2]
  rcases h3 with h3 | h3
  · simp [h3]
  · by_cases hc : kw.type.getD .linear = .constant
    · simp [hc]
    · simp [hc, h3]

theorem helperDetrend_err (n0 : Nat → Nat) (x : Term) (kw : DetKwIn) (h : detOk (x.len n0) kw = false) :
    ∃ e, helperDetrend n0 x kw = .error e := by
  simp only [helperDetrend, sciDetrend]
  by_cases h1 : kw.bogus = true
  · exact ⟨.typeError, by simp [h1]⟩
  · by_cases h2 : kw.type.getD .linear = .bad
    · exact ⟨.valueError, by simp [h1, h2]⟩
    · by_cases h3 : kw.type.getD .linear = .constant
      · exfalso; simp [detOk, h1, h3] at h
      · by_cases h4 : (kw.bp.getD [0]).any (fun b => x.len n0 < b) = true
        · exact ⟨.valueError, by simp [h1, h2, h3, h4]⟩
        · exfalso; simp [detOk, h1, h2, h3] at h h4; obtain ⟨b, hb, hlt⟩ := h; exact absurd hlt (by have := h4 b hb; omega)

theorem helperFilter_ok (x : Term) (fs : Rat) (wn : Wn) (o : Nat) (bt : BType) (h : butterOk fs wn bt = true) :
    helperFilter x fs wn o bt = .ok (.filt fs wn o bt x) := by
  simp [helperFilter, genFilter, h]

theorem helperFilter_err (x : Term) (fs : Rat) (wn : Wn) (o : Nat) (bt : BType) (h : butterOk fs wn bt = false) :
    helperFilter x fs wn o bt = .error .valueError := by
  simp [helperFilter, genFilter, h]

end PV.Prep

namespace PV.Prep

/-! ## SingleSetup: closed forms and the simulation invariant -/

theorem documented_axis (kw : DecKwIn) (b : Bool) :
    ({ kw with axis0 := b } : DecKwIn).documented = kw.documented := rfl

theorem sStep_decimate_ok (v : Variant) (c : SCfg) (s : SState) (q : Nat) (kw : DecKwIn)
    (h : decOk q kw = true) :
    sStep v c s (.decimate q kw) = .ok
      { s with data := .dec q kw.resolve s.data, fs := s.fs / (q : Rat), dt := 1 / (s.fs / (q : Rat)),
               Ndat := c.len (.dec q kw.resolve s.data),
               T := if v.helperTS then 1 / (s.fs / (q : Rat)) / (q : Rat) * ((c.len (.dec q kw.resolve s.data) : Nat) : Rat)
                    else 1 / (s.fs / (q : Rat)) * ((c.len (.dec q kw.resolve s.data) : Nat) : Rat) } := by
  have h' : decOk q ({ kw with axis0 := true } : DecKwIn) = true := h
  simp only [sStep, mergeKw_single, bind, Except.bind, helperDecimate_ok _ _ _ _ _ h', pure, Except.pure]
  rfl

theorem sStep_decimate_err (v : Variant) (c : SCfg) (s : SState) (q : Nat) (kw : DecKwIn)
    (h : decOk q kw = false) : ∃ e, sStep v c s (.decimate q kw) = .error e := by
  have h' : decOk q ({ kw with axis0 := true } : DecKwIn) = false := h
  obtain ⟨e, he⟩ := helperDecimate_err (fun _ => c.n0) s.data s.fs q _ h'
  exact ⟨e, by simp only [sStep, mergeKw_single, bind, Except.bind, he]⟩

/-- last active decimation factor (1 when there is none). -/
def lastQ (qs : List Nat) : Nat := qs.getLast?.getD 1

/-- simulation invariant of `SingleSetup` against the specification fold. -/
structure SInv (v : Variant) (c : SCfg) (s : SState) (σ : Spec) (qs : List Nat) : Prop where
  terms : σ.terms = [s.data]
  fs : s.fs = σ.fs
  fsq : σ.fs = c.fs0 / ((prodNat qs : Nat) : Rat)
  dt : s.dt = 1 / s.fs
  ndat : s.Ndat = c.len s.data
  dur : s.T * (((if v.helperTS then lastQ qs else 1) : Nat) : Rat) = (s.Ndat : Rat) * s.dt
  initData : s.initData = .init 0
  initFs : s.initFs = c.fs0

theorem helperT_law (fs : Rat) (q N : Nat) :
    1 / (fs / (q : Rat)) / (q : Rat) * (N : Rat) * (q : Rat) = (N : Rat) * (1 / (fs / (q : Rat))) := by
  by_cases hq : (q : Rat) = 0
  · simp [hq]
  · field_simp

theorem lastQ_append (qs : List Nat) (q : Nat) : lastQ (qs ++ [q]) = q := by simp [lastQ]

theorem sInit_inv (v : Variant) (c : SCfg) : SInv v c (sInit c) c.spec0 [] := by
  refine ⟨rfl, rfl, ?_, rfl, rfl, ?_, rfl, rfl⟩
  · simp [SCfg.spec0, prodNat]
  · simp [sInit, sInitialize, lastQ, mul_comm]

theorem sInitialize_inv (v : Variant) (c : SCfg) (s : SState) :
    SInv v c (sInitialize c { s with data := .init 0, fs := c.fs0 } (.init 0) c.fs0) c.spec0 [] := by
  refine ⟨rfl, rfl, ?_, rfl, rfl, ?_, rfl, rfl⟩
  · simp [SCfg.spec0, prodNat]
  · simp [sInitialize, lastQ, mul_comm]

theorem sStep_inv (v : Variant) (c : SCfg) (s : SState) (σ : Spec) (qs : List Nat) (op : Op)
    (h : SInv v c s σ qs) :
    SInv v c (sStep' v c s op) (specStep (fun _ => c.n0) c.spec0 σ op) (qsStep qs op) := by
  obtain ⟨ht, hfs, hfsq, hdt, hnd, hdur, hid, hif⟩ := h
  cases op with
  | decimate q kw =>
    by_cases hk : decOk q kw = true
    · simp only [sStep', sStep_decimate_ok v c s q kw hk, specStep, Op.accepted, hk, if_true, qsStep, ht,
        List.map_cons, List.map_nil]
      refine ⟨rfl, by simp [hfs], ?_, rfl, rfl, ?_, hid, hif⟩
      · simp only []; rw [hfsq, div_prod_step]
      · simp only [lastQ_append]
        by_cases hv : v.helperTS = true
        · simp only [hv, if_true]; exact helperT_law _ _ _
        · simp [hv, mul_comm]
    · have hk' : decOk q kw = false := by simpa using hk
      obtain ⟨e, he⟩ := sStep_decimate_err v c s q kw hk'
      simp only [sStep', he, specStep, Op.accepted, hk', qsStep]
      exact ⟨ht, hfs, hfsq, hdt, hnd, hdur, hid, hif⟩
  | detrend kw =>
    have hacc : Op.accepted [Term.len (fun _ => c.n0) s.data] σ.fs (.detrend kw) = detOk (c.len s.data) kw := by
      simp only [Op.accepted, detOk, SCfg.len, List.all_cons, List.all_nil, Bool.and_true]; rfl
    by_cases hk : detOk (c.len s.data) kw = true
    · have := helperDetrend_ok (fun _ => c.n0) s.data kw hk
      simp only [sStep', sStep, this, bind, Except.bind, pure, Except.pure, specStep, hacc, hk, if_true, qsStep, ht,
        List.map_cons, List.map_nil]
      exact ⟨rfl, hfs, hfsq, hdt, hnd, hdur, hid, hif⟩
    · have hk' : detOk (c.len s.data) kw = false := by simpa using hk
      obtain ⟨e, he⟩ := helperDetrend_err (fun _ => c.n0) s.data kw hk'
      simp only [sStep', sStep, he, bind, Except.bind, specStep, ht, List.map_cons, List.map_nil, hacc, hk', qsStep]
      exact ⟨ht, hfs, hfsq, hdt, hnd, hdur, hid, hif⟩
  | filter wn o bt =>
    by_cases hk : butterOk s.fs wn bt = true
    · have hk2 : butterOk σ.fs wn bt = true := hfs ▸ hk
      simp only [sStep', sStep, helperFilter_ok _ _ _ _ _ hk, bind, Except.bind, pure, Except.pure, specStep,
        Op.accepted, hk2, if_true, qsStep, ht, List.map_cons, List.map_nil]
      exact ⟨by rw [hfs], hfs, hfsq, hdt, hnd, hdur, hid, hif⟩
    · have hk' : butterOk s.fs wn bt = false := by simpa using hk
      have hk2 : butterOk σ.fs wn bt = false := hfs ▸ hk'
      simp only [sStep', sStep, helperFilter_err _ _ _ _ _ hk', bind, Except.bind, specStep, Op.accepted, hk2, qsStep]
      exact ⟨ht, hfs, hfsq, hdt, hnd, hdur, hid, hif⟩
  | rollback =>
    have hs : sStep' v c s .rollback = sInitialize c { s with data := .init 0, fs := c.fs0 } (.init 0) c.fs0 := by
      simp [sStep', sStep, hid, hif, pure, Except.pure]
    rw [hs]
    simp only [specStep, Op.accepted, if_true, qsStep]
    exact sInitialize_inv v c s
  | add =>
    simp only [sStep', sStep, pure, Except.pure, specStep, Op.accepted, if_true, qsStep]
    exact ⟨ht, hfs, hfsq, hdt, hnd, hdur, hid, hif⟩

end PV.Prep

namespace PV.Prep

/-! ## MultiSetup_PreGER: closed forms and the simulation invariant -/

theorem multiRepaired_iff (v : Variant) :
    v.multiRepaired = true ↔ v.helperTM = false ∧ v.staleDt = false ∧ v.forgetDatasets = false ∧ v.dupKw = false := by
  simp [Variant.multiRepaired, and_assoc]

theorem mDecimateOne_ok (v : Variant) (hv : v.dupKw = false) (c : MCfg) (fs : Rat) (q : Nat) (kw : DecKwIn)
    (data : Term) (h : decOk q kw = true) :
    mDecimateOne v c fs q kw data =
      .ok (.dec q kw.resolve data, fs / (q : Rat), 1 / (fs / (q : Rat)), (Term.dec q kw.resolve data).len c.n0f,
           1 / (fs / (q : Rat)) / (q : Rat) * (((Term.dec q kw.resolve data).len c.n0f : Nat) : Rat)) := by
  obtain ⟨k, hk, hr, hb⟩ := mDecimateKw_pop v hv kw
  have hd : decOk q k = true := by
    have : decOk q k = decOk q kw := by simp [decOk, decQOk, DecKwIn.documented, hr, hb]
    rw [this, h]
  simp only [mDecimateOne, hk, bind, Except.bind, helperDecimate_ok _ _ _ _ _ hd, hr]

theorem mDecimateOne_err (v : Variant) (hv : v.dupKw = false) (c : MCfg) (fs : Rat) (q : Nat) (kw : DecKwIn)
    (data : Term) (h : decOk q kw = false) : ∃ e, mDecimateOne v c fs q kw data = .error e := by
  obtain ⟨k, hk, hr, hb⟩ := mDecimateKw_pop v hv kw
  have hd : decOk q k = false := by
    have : decOk q k = decOk q kw := by simp [decOk, decQOk, DecKwIn.documented, hr, hb]
    rw [this, h]
  obtain ⟨e, he⟩ := helperDecimate_err c.n0f data fs q k hd
  exact ⟨e, by simp only [mDecimateOne, hk, bind, Except.bind, he]⟩

theorem mStep_decimate_ok (v : Variant) (hv : v.multiRepaired = true) (c : MCfg) (s : MState) (q : Nat)
    (kw : DecKwIn) (h : decOk q kw = true) :
    mStep v c s (.decimate q kw) = .ok
      { s with datasets := s.datasets.map (Term.dec q kw.resolve),
               data := preMultisetup c.nchf (s.datasets.map (Term.dec q kw.resolve)) s.refInd,
               fs := s.fs / (q : Rat), dt := 1 / (s.fs / (q : Rat)),
               Ndats := s.datasets.map (fun d => (Term.dec q kw.resolve d).len c.n0f),
               Ts := s.datasets.map (fun d => 1 / (s.fs / (q : Rat)) * (((Term.dec q kw.resolve d).len c.n0f : Nat) : Rat)) } := by
  obtain ⟨h1, h2, _, h4⟩ := (multiRepaired_iff v).mp hv
  simp only [mStep]
  rw [mapM_ok_map _ _ _ (fun d _ => mDecimateOne_ok v h4 c s.fs q kw d h)]
  simp [bind, Except.bind, pure, Except.pure, List.map_map, Function.comp_def, h1, h2]

theorem mStep_decimate_err (v : Variant) (hv : v.multiRepaired = true) (c : MCfg) (s : MState) (q : Nat)
    (kw : DecKwIn) (h : decOk q kw = false) (hne : s.datasets ≠ []) :
    ∃ e, mStep v c s (.decimate q kw) = .error e := by
  obtain ⟨_, _, _, h4⟩ := (multiRepaired_iff v).mp hv
  obtain ⟨d, hd⟩ := List.exists_mem_of_ne_nil _ hne
  obtain ⟨e, he⟩ := mapM_error (mDecimateOne v c s.fs q kw) s.datasets ⟨d, hd, mDecimateOne_err v h4 c s.fs q kw d h⟩
  exact ⟨e, by simp only [mStep, he, bind, Except.bind]⟩

theorem mStep_filter_ok (v : Variant) (hv : v.multiRepaired = true) (c : MCfg) (s : MState) (wn : Wn) (o : Nat)
    (bt : BType) (h : butterOk s.fs wn bt = true) :
    mStep v c s (.filter wn o bt) = .ok
      { s with datasets := s.datasets.map (Term.filt s.fs wn o bt),
               data := preMultisetup c.nchf (s.datasets.map (Term.filt s.fs wn o bt)) s.refInd } := by
  obtain ⟨_, _, h3, _⟩ := (multiRepaired_iff v).mp hv
  simp only [mStep]
  rw [mapM_ok_map _ _ _ (fun d _ => helperFilter_ok d s.fs wn o bt h)]
  simp [bind, Except.bind, pure, Except.pure, h3]

theorem mStep_filter_err (v : Variant) (c : MCfg) (s : MState) (wn : Wn) (o : Nat)
    (bt : BType) (h : butterOk s.fs wn bt = false) (hne : s.datasets ≠ []) :
    ∃ e, mStep v c s (.filter wn o bt) = .error e := by
  obtain ⟨d, hd⟩ := List.exists_mem_of_ne_nil _ hne
  obtain ⟨e, he⟩ := mapM_error (fun data => helperFilter data s.fs wn o bt) s.datasets
    ⟨d, hd, _, helperFilter_err d s.fs wn o bt h⟩
  exact ⟨e, by simp only [mStep, he, bind, Except.bind]⟩

theorem detrend_accepted_iff (n0 : Nat → Nat) (terms : List Term) (fs : Rat) (kw : DetKwIn) (hne : terms ≠ []) :
    Op.accepted (terms.map (Term.len n0)) fs (.detrend kw) = true ↔ ∀ d ∈ terms, detOk (d.len n0) kw = true := by
  simp only [Op.accepted, detOk, Bool.and_eq_true, Bool.or_eq_true, List.all_eq_true, List.mem_map]
  constructor
  · rintro ⟨h12, h3⟩ d hd
    refine ⟨h12, ?_⟩
    rcases h3 with h3 | h3
    · exact Or.inl h3
    · exact Or.inr (h3 _ ⟨d, hd, rfl⟩)
  · intro h
    obtain ⟨d0, hd0⟩ := List.exists_mem_of_ne_nil _ hne
    refine ⟨(h d0 hd0).1, ?_⟩
    by_cases hc : (kw.type.getD .linear == .constant) = true
    · exact Or.inl hc
    · right
      rintro N ⟨d, hd, rfl⟩
      rcases (h d hd).2 with h3 | h3
      · exact absurd h3 hc
      · exact h3

theorem mStep_detrend_ok (v : Variant) (hv : v.multiRepaired = true) (c : MCfg) (s : MState) (kw : DetKwIn)
    (h : ∀ d ∈ s.datasets, detOk (d.len c.n0f) kw = true) :
    mStep v c s (.detrend kw) = .ok
      { s with datasets := s.datasets.map (Term.det (kw.type.getD .linear) (kw.bp.getD [0])),
               data := preMultisetup c.nchf (s.datasets.map (Term.det (kw.type.getD .linear) (kw.bp.getD [0]))) s.refInd } := by
  obtain ⟨_, _, h3, _⟩ := (multiRepaired_iff v).mp hv
  simp only [mStep]
  rw [mapM_ok_map _ _ _ (fun d hd => helperDetrend_ok c.n0f d kw (h d hd))]
  simp [bind, Except.bind, pure, Except.pure, h3]

theorem mStep_detrend_err (v : Variant) (c : MCfg) (s : MState) (kw : DetKwIn)
    (h : ∃ d ∈ s.datasets, detOk (d.len c.n0f) kw = false) :
    ∃ e, mStep v c s (.detrend kw) = .error e := by
  obtain ⟨d, hd, hf⟩ := h
  obtain ⟨e, he⟩ := mapM_error (fun data => helperDetrend c.n0f data kw) s.datasets
    ⟨d, hd, helperDetrend_err c.n0f d kw hf⟩
  exact ⟨e, by simp only [mStep, he, bind, Except.bind]⟩

/-- simulation invariant of `MultiSetup_PreGER` against the specification fold. -/
structure MInv (c : MCfg) (s : MState) (σ : Spec) (qs : List Nat) : Prop where
  datasets : s.datasets = σ.terms
  data : s.data = preMultisetup c.nchf σ.terms c.refInd
  len : σ.terms.length = c.n0.length
  fs : s.fs = σ.fs
  fsq : σ.fs = c.fs0 / ((prodNat qs : Nat) : Rat)
  dt : s.dt = 1 / s.fs
  ndats : s.Ndats = σ.terms.map (Term.len c.n0f)
  durs : s.Ts = σ.terms.map (fun d => s.dt * ((d.len c.n0f : Nat) : Rat))
  refInd : s.refInd = c.refInd
  initFs : s.initFs = c.fs0
  initRefInd : s.initRefInd = c.refInd
  initDatasets : s.initDatasets = mInitTerms c

theorem mInitTerms_length (c : MCfg) : (mInitTerms c).length = c.n0.length := by simp [mInitTerms]

theorem mInitialize_inv (c : MCfg) (s : MState) :
    MInv c (mInitialize c { s with fs := c.fs0, refInd := c.refInd, datasets := mInitTerms c } c.fs0 c.refInd (mInitTerms c))
      c.spec0 [] := by
  refine ⟨rfl, rfl, mInitTerms_length c, rfl, ?_, rfl, rfl, rfl, rfl, rfl, rfl, rfl⟩
  simp [MCfg.spec0, prodNat]

theorem mInit_inv (c : MCfg) : MInv c (mInit c) c.spec0 [] := by
  refine ⟨rfl, rfl, mInitTerms_length c, rfl, ?_, rfl, rfl, rfl, rfl, rfl, rfl, rfl⟩
  simp [MCfg.spec0, prodNat]

theorem mStep_inv (v : Variant) (hv : v.multiRepaired = true) (c : MCfg) (hc : c.n0 ≠ []) (s : MState) (σ : Spec)
    (qs : List Nat) (op : Op) (h : MInv c s σ qs) :
    MInv c (mStep' v c s op) (specStep c.n0f c.spec0 σ op) (qsStep qs op) := by
  obtain ⟨hds, hdata, hlen, hfs, hfsq, hdt, hnd, hdur, hri, hif, hiri, hids⟩ := h
  have hne : s.datasets ≠ [] := by
    intro h0; rw [hds] at h0; rw [h0] at hlen; exact hc (List.length_eq_zero_iff.mp hlen.symm)
  cases op with
  | decimate q kw =>
    by_cases hk : decOk q kw = true
    · simp only [mStep', mStep_decimate_ok v hv c s q kw hk, specStep, Op.accepted, hk, if_true, qsStep]
      refine ⟨by simp [hds], by simp [hds, hri], by simpa using hlen, by simp [hfs], ?_, rfl, ?_, ?_, hri, hif, hiri, hids⟩
      · simp only []; rw [hfsq, div_prod_step]
      · simp [hds, List.map_map, Function.comp_def]
      · simp [hds, List.map_map, Function.comp_def]
    · have hk' : decOk q kw = false := by simpa using hk
      obtain ⟨e, he⟩ := mStep_decimate_err v hv c s q kw hk' hne
      simp only [mStep', he, specStep, Op.accepted, hk', qsStep]
      exact ⟨hds, hdata, hlen, hfs, hfsq, hdt, hnd, hdur, hri, hif, hiri, hids⟩
  | detrend kw =>
    have hne' : σ.terms ≠ [] := hds ▸ hne
    by_cases hk : Op.accepted (σ.terms.map (Term.len c.n0f)) σ.fs (.detrend kw) = true
    · have hall := (detrend_accepted_iff c.n0f σ.terms σ.fs kw hne').mp hk
      rw [← hds] at hall
      simp only [mStep', mStep_detrend_ok v hv c s kw hall, specStep, hk, if_true, qsStep]
      refine ⟨by simp [hds], by simp [hds, hri], by simpa using hlen, hfs, hfsq, hdt, ?_, ?_, hri, hif, hiri, hids⟩
      · simp [hnd, List.map_map, Function.comp_def, Term.len]
      · simp [hdur, List.map_map, Function.comp_def, Term.len]
    · have hk' : Op.accepted (σ.terms.map (Term.len c.n0f)) σ.fs (.detrend kw) = false := by simpa using hk
      have hex : ∃ d ∈ s.datasets, detOk (d.len c.n0f) kw = false := by
        by_contra hcon
        have : ∀ d ∈ σ.terms, detOk (d.len c.n0f) kw = true := by
          intro d hd
          by_contra hd'
          exact hcon ⟨d, hds ▸ hd, by simpa using hd'⟩
        exact hk ((detrend_accepted_iff c.n0f σ.terms σ.fs kw hne').mpr this)
      obtain ⟨e, he⟩ := mStep_detrend_err v c s kw hex
      simp only [mStep', he, specStep, hk', qsStep]
      exact ⟨hds, hdata, hlen, hfs, hfsq, hdt, hnd, hdur, hri, hif, hiri, hids⟩
  | filter wn o bt =>
    by_cases hk : butterOk s.fs wn bt = true
    · have hk2 : butterOk σ.fs wn bt = true := hfs ▸ hk
      simp only [mStep', mStep_filter_ok v hv c s wn o bt hk, specStep, Op.accepted, hk2, if_true, qsStep]
      refine ⟨by simp [hds, hfs], by simp [hds, hri, hfs], by simpa using hlen, hfs, hfsq, hdt, ?_, ?_, hri, hif, hiri, hids⟩
      · simp [hnd, List.map_map, Function.comp_def, Term.len]
      · simp [hdur, List.map_map, Function.comp_def, Term.len]
    · have hk' : butterOk s.fs wn bt = false := by simpa using hk
      have hk2 : butterOk σ.fs wn bt = false := hfs ▸ hk'
      obtain ⟨e, he⟩ := mStep_filter_err v c s wn o bt hk' hne
      simp only [mStep', he, specStep, Op.accepted, hk2, qsStep]
      exact ⟨hds, hdata, hlen, hfs, hfsq, hdt, hnd, hdur, hri, hif, hiri, hids⟩
  | rollback =>
    have hs : mStep' v c s .rollback =
        mInitialize c { s with fs := c.fs0, refInd := c.refInd, datasets := mInitTerms c } c.fs0 c.refInd (mInitTerms c) := by
      simp [mStep', mStep, hif, hiri, hids, pure, Except.pure]
    rw [hs]
    simp only [specStep, Op.accepted, if_true, qsStep]
    exact mInitialize_inv c s
  | add =>
    simp only [mStep', mStep, pure, Except.pure, specStep, Op.accepted, if_true, qsStep]
    exact ⟨hds, hdata, hlen, hfs, hfsq, hdt, hnd, hdur, hri, hif, hiri, hids⟩

/-! ## folding the step lemmas over a history -/

theorem sRun_inv_gen (v : Variant) (c : SCfg) (ops : List Op) (s : SState) (σ : Spec) (qs : List Nat)
    (h : SInv v c s σ qs) :
    SInv v c (ops.foldl (sStep' v c) s) (ops.foldl (specStep (fun _ => c.n0) c.spec0) σ) (ops.foldl qsStep qs) := by
  induction ops generalizing s σ qs with
  | nil => exact h
  | cons op ops ih => exact ih _ _ _ (sStep_inv v c s σ qs op h)

theorem sRun_inv (v : Variant) (c : SCfg) (ops : List Op) :
    SInv v c (sRun v c ops) (c.spec ops) (activeQs ops) :=
  sRun_inv_gen v c ops _ _ _ (sInit_inv v c)

theorem mRun_inv_gen (v : Variant) (hv : v.multiRepaired = true) (c : MCfg) (hc : c.n0 ≠ []) (ops : List Op)
    (s : MState) (σ : Spec) (qs : List Nat) (h : MInv c s σ qs) :
    MInv c (ops.foldl (mStep' v c) s) (ops.foldl (specStep c.n0f c.spec0) σ) (ops.foldl qsStep qs) := by
  induction ops generalizing s σ qs with
  | nil => exact h
  | cons op ops ih => exact ih _ _ _ (mStep_inv v hv c hc s σ qs op h)

theorem mRun_inv (v : Variant) (hv : v.multiRepaired = true) (c : MCfg) (hc : c.n0 ≠ []) (ops : List Op) :
    MInv c (mRun v c ops) (c.spec ops) (activeQs ops) :=
  mRun_inv_gen v hv c hc ops _ _ _ (mInit_inv c)

theorem sRun_snoc (v : Variant) (c : SCfg) (ops : List Op) (op : Op) :
    sRun v c (ops ++ [op]) = sStep' v c (sRun v c ops) op := by
  simp [sRun, List.foldl_append]

theorem mRun_snoc (v : Variant) (c : MCfg) (ops : List Op) (op : Op) :
    mRun v c (ops ++ [op]) = mStep' v c (mRun v c ops) op := by
  simp [mRun, List.foldl_append]

end PV.Prep

namespace PV.Prep

/-! ## `pre_multisetup` with its exceptions -/


theorem removeRefs_ok_eq (mov : List Nat) (r : List Nat) (m : List Nat) (h : removeRefs mov r = .ok m) :
    m = r.foldl (fun l x => l.erase x) mov := by
  induction r generalizing mov with
  | nil => simp only [removeRefs, Except.ok.injEq] at h; simpa using h.symm
  | cons x r ih =>
    simp only [removeRefs] at h
    by_cases hx : x ∈ mov
    · rw [if_pos hx] at h; rw [List.foldl_cons]; exact ih _ h
    · rw [if_neg hx] at h; cases h

/-- the removals succeed exactly for a duplicate-free list of entries of `mov`. -/
theorem removeRefs_ok_iff (mov : List Nat) (hm : mov.Nodup) (r : List Nat) :
    (∃ m, removeRefs mov r = .ok m) ↔ r.Nodup ∧ ∀ x ∈ r, x ∈ mov := by
  induction r generalizing mov with
  | nil => simp [removeRefs]
  | cons x r ih =>
    simp only [removeRefs]
    by_cases hx : x ∈ mov
    · rw [if_pos hx, ih _ (hm.erase x), List.nodup_cons]
      constructor
      · rintro ⟨hn, hall⟩
        refine ⟨⟨fun hxr => ?_, hn⟩, ?_⟩
        · exact ((hm.mem_erase_iff).mp (hall x hxr)).1 rfl
        · intro y hy
          rcases List.mem_cons.mp hy with rfl | hy
          · exact hx
          · exact ((hm.mem_erase_iff).mp (hall y hy)).2
      · rintro ⟨⟨hxr, hn⟩, hall⟩
        refine ⟨hn, fun y hy => (hm.mem_erase_iff).mpr ⟨?_, hall y (List.mem_cons_of_mem _ hy)⟩⟩
        rintro rfl; exact hxr hy
    · rw [if_neg hx]
      constructor
      · rintro ⟨m, hm'⟩; cases hm'
      · rintro ⟨_, hall⟩; exact absurd (hall x (List.mem_cons_self ..)) hx

/-- when the constructor's `pre_multisetup` does not raise and there is one reference list per dataset, its result
    is the total `preMultisetup` the state machines (and all C14 theorems) use. -/
theorem preMultisetupChecked_eq (nch : Nat → Nat) (ds : List Term) (rs : List (List Nat)) (Y : List Split)
    (h : preMultisetupChecked nch ds rs = .ok Y) (hl : rs.length = ds.length) : Y = preMultisetup nch ds rs := by
  induction ds generalizing rs Y with
  | nil =>
    cases rs with
    | nil => simp only [preMultisetupChecked, Except.ok.injEq] at h; subst h; rfl
    | cons r rs => simp at hl
  | cons y ys ih =>
    cases rs with
    | nil => simp at hl
    | cons r rs =>
      simp only [preMultisetupChecked, bind, Except.bind] at h
      cases hr : removeRefs (List.range (y.ncols nch)) r with
      | error e => rw [hr] at h; cases h
      | ok mov =>
        rw [hr] at h
        simp only at h
        by_cases hc : r = [] ∨ mov = []
        · rw [if_pos hc] at h; cases h
        · rw [if_neg hc] at h
          cases hrest : preMultisetupChecked nch ys rs with
          | error e => rw [hrest] at h; cases h
          | ok rest =>
            rw [hrest] at h
            simp only [pure, Except.pure, Except.ok.injEq] at h
            subst h
            have := ih rs rest hrest (by simpa using hl)
            rw [this, removeRefs_ok_eq _ _ _ hr]
            rfl

end PV.Prep
