import PyomaVerif.Lemmas.PreGER
import PyomaVerif.Lemmas.RankOneSpec
import Mathlib.Algebra.BigOperators.Fin
/-!
Helper lemmas for `Props/C04C06.lean` (multi-setup FDD end to end).

* `stackFn` — a vector over the rows of the merged PreGER matrix (reference rows first, then
  every setup's roving rows in setup order), with its two index lemmas;
* a left inverse of a square block is a right inverse (through Mathlib's `Matrix`), hence
  `(T·G)·W·M = T·M` — the PreGER re-scaling applied to a roving block that is a fixed
  combination `T` of the reference rows returns `T` times the mean block;
* a rank-one block `c·α·αᵀ` with at least two rows has no left inverse;
* the first left singular vector of a rank-one column `σ·a·b`.
-/
set_option linter.unusedSectionVars false
namespace PV
open Finset

/-! ### row order of the merged matrix -/
section stack
variable {α : Type}

/-- value at row `i` of the merged layout of `n` setups: `ref i` for the `nref` reference rows,
    then `mov ii a` for roving row `a` of setup `ii`, setup after setup (`nmov ii` rows each) -/
def stackFn (nref : Nat) (ref : Nat → α) (nmov : Nat → Nat) (mov : Nat → Nat → α) : Nat → Nat → α
  | 0, i => ref i
  | n + 1, i =>
    if i < nref + ∑ k ∈ range n, nmov k then stackFn nref ref nmov mov n i
    else mov n (i - (nref + ∑ k ∈ range n, nmov k))

theorem stackFn_ref (nref : Nat) (ref : Nat → α) (nmov : Nat → Nat) (mov : Nat → Nat → α)
    (n i : Nat) (hi : i < nref) : stackFn nref ref nmov mov n i = ref i := by
  induction n with
  | zero => rfl
  | succ n ih =>
    simp only [stackFn]
    rw [if_pos (by omega)]
    exact ih

theorem stackFn_mov (nref : Nat) (ref : Nat → α) (nmov : Nat → Nat) (mov : Nat → Nat → α) :
    ∀ n ii a, ii < n → a < nmov ii →
      stackFn nref ref nmov mov n (nref + (∑ k ∈ range ii, nmov k) + a) = mov ii a := by
  intro n
  induction n with
  | zero => intro ii a h; omega
  | succ n ih =>
    intro ii a h ha
    simp only [stackFn]
    rcases Nat.lt_succ_iff_lt_or_eq.mp h with h' | h'
    · have := Mat.off_le nmov h'
      rw [if_pos (by omega)]
      exact ih ii a h' ha
    · subst h'
      rw [if_neg (by omega)]
      congr 1; omega

end stack

/-! ### algebra of the re-scaling -/
section algebra
variable {K : Type} [Field K]

/-- a left inverse of a square block is a right inverse -/
theorem isLeftInv_right {W G : Mat K} (hsq : G.r = G.c) (h : IsLeftInv W G) (i j : Nat)
    (hi : i < G.c) (hj : j < G.c) :
    ∑ t ∈ range G.c, G.e i t * W.e t j = if i = j then 1 else 0 := by
  have e1 := isLeftInv_matrix hsq rfl h
  have e3 : toMatrix G.c G.c G * toMatrix G.c G.c W = 1 := mul_eq_one_comm.mp e1
  have := congrFun (congrFun e3 ⟨i, hi⟩) ⟨j, hj⟩
  simp only [Matrix.mul_apply, toMatrix, Matrix.one_apply, Fin.ext_iff] at this
  rw [← this, Finset.sum_range]

/-- **`(T·G)·W·M = T·M`.** If the roving block `A` is `T·G` (`G` the square reference block) and
    `W` is a left inverse of `G`, the re-scaled block `(A·W)·M` is `T·M`, whatever `M` is. -/
theorem transmissibility_cancel {A W G M : Mat K} (Tm : Nat → Nat → K) (hsq : G.r = G.c)
    (hW : IsLeftInv W G) (hAc : A.c = G.c) (a : Nat)
    (hA : ∀ u, u < G.c → A.e a u = ∑ s ∈ range G.c, Tm a s * G.e s u) (j : Nat) :
    (Mat.mul (Mat.mul A W) M).e a j = ∑ s ∈ range G.c, Tm a s * M.e s j := by
  have hin : ∀ t ∈ range G.c, ∑ u ∈ range G.c, A.e a u * W.e u t = Tm a t := by
    intro t ht
    calc ∑ u ∈ range G.c, A.e a u * W.e u t
        = ∑ u ∈ range G.c, ∑ s ∈ range G.c, Tm a s * (G.e s u * W.e u t) := by
          apply sum_congr rfl; intro u hu
          rw [hA u (mem_range.mp hu), sum_mul]
          apply sum_congr rfl; intro s _; ring
      _ = ∑ s ∈ range G.c, Tm a s * ∑ u ∈ range G.c, G.e s u * W.e u t := by
          rw [sum_comm]; apply sum_congr rfl; intro s _; rw [mul_sum]
      _ = ∑ s ∈ range G.c, Tm a s * (if s = t then 1 else 0) := by
          apply sum_congr rfl; intro s hs
          rw [isLeftInv_right hsq hW s t (mem_range.mp hs) (mem_range.mp ht)]
      _ = Tm a t := by simp [Finset.sum_ite_eq', mem_range.mp ht]
  have hWc : W.c = G.c := by rw [hW.2.1, hsq]
  simp only [Mat.mul, sumTo_eq, hWc, hAc]
  exact sum_congr rfl (fun t ht => by rw [hin t ht])

/-- **A rank-one block with two or more rows is singular**: `G = c·α·αᵀ` (`G.c ≥ 2`) has no
    left inverse. -/
theorem rank_one_no_leftInv {G : Mat K} (hr : G.r = G.c) (h2 : 2 ≤ G.c) (c : K) (α : Nat → K)
    (hG : ∀ i j, i < G.c → j < G.c → G.e i j = c * (α i * α j)) : ¬ ∃ W, IsLeftInv W G := by
  rintro ⟨W, hWr, hWc, hI⟩
  -- a non-zero vector `x = (p, q, 0, …)` with `αᵀx = 0`
  obtain ⟨p, q, hpq, hne⟩ : ∃ p q : K, α 0 * p + α 1 * q = 0 ∧ (p ≠ 0 ∨ q ≠ 0) := by
    by_cases h0 : α 1 = 0
    · by_cases h1 : α 0 = 0
      · exact ⟨1, 0, by rw [h0, h1]; ring, Or.inl one_ne_zero⟩
      · exact ⟨0, 1, by rw [h0]; ring, Or.inr one_ne_zero⟩
    · exact ⟨α 1, -α 0, by ring, Or.inl h0⟩
  set x : Nat → K := fun j => if j = 0 then p else if j = 1 then q else 0 with hx
  obtain ⟨m, hm⟩ : ∃ m, G.c = m + 2 := ⟨G.c - 2, by omega⟩
  have hax : ∑ j ∈ range G.c, α j * x j = 0 := by
    rw [hm, Finset.sum_range_succ', Finset.sum_range_succ']
    have : ∑ k ∈ range m, α (k + 1 + 1) * x (k + 1 + 1) = 0 := by
      apply sum_eq_zero; intro k _; simp [hx]
    rw [this]; simp only [hx]; simp; linear_combination hpq
  have hzero : ∀ i, i < G.c → x i = 0 := by
    intro i hi
    have e1 : ∑ j ∈ range G.c, (Mat.mul W G).e i j * x j = x i := by
      rw [sum_congr rfl (fun j hj => by rw [hI i j hi (mem_range.mp hj)])]
      simp [Finset.sum_ite_eq, hi]
    have e2 : ∑ j ∈ range G.c, (Mat.mul W G).e i j * x j = 0 := by
      simp only [Mat.mul, sumTo_eq, hWc, hr]
      calc ∑ j ∈ range G.c, (∑ t ∈ range G.c, W.e i t * G.e t j) * x j
          = ∑ j ∈ range G.c, ∑ t ∈ range G.c, (W.e i t * c * α t) * (α j * x j) := by
            apply sum_congr rfl; intro j hj
            rw [sum_mul]
            apply sum_congr rfl; intro t ht
            rw [hG t j (mem_range.mp ht) (mem_range.mp hj)]; ring
        _ = ∑ t ∈ range G.c, (W.e i t * c * α t) * ∑ j ∈ range G.c, α j * x j := by
            rw [sum_comm]; apply sum_congr rfl; intro t _; rw [mul_sum]
        _ = 0 := by rw [hax]; simp
    rw [← e1, e2]
  have hp : p = 0 := by have := hzero 0 (by omega); simpa [hx] using this
  have hq : q = 0 := by have := hzero 1 (by omega); simpa [hx] using this
  rcases hne with h | h
  · exact h hp
  · exact h hq

end algebra

/-! ### first left singular vector of a rank-one column -/
namespace Fdd
section rect
variable {K : Type} [Field K] [LinearOrder K] [IsStrictOrderedRing K]

/-- **Rank-one column.** If column `j₀` of the matrix handed to the SVD is `σ·a·b` (`a` real,
    `σ·b ≠ 0`, `a ≠ 0`) and equals `s₁·u·v̄` (leading term of the decomposition; for a
    one-column matrix this *is* the decomposition `U·diag(S)·Vᴴ`), then `u = w·a` with `w ≠ 0`. -/
theorem first_left_of_rank_one_col (n : Nat) (A : Nat → Cx K) (σ s1 vc : Cx K) (a : Nat → K) (b : K)
    (hA : ∀ i, i < n → A i = σ * Cx.ofReal (a i) * Cx.ofReal b)
    (u : Nat → Cx K) (hdec : ∀ i, i < n → A i = s1 * u i * vc)
    (hσ : σ ≠ 0) (hb : b ≠ 0) (i0 : Nat) (hi0 : i0 < n) (ha : a i0 ≠ 0) :
    ∃ w : Cx K, w ≠ 0 ∧ ∀ i, i < n → u i = w * Cx.conj (Cx.ofReal (a i)) := by
  have hb' : (Cx.ofReal b : Cx K) ≠ 0 := Cx.ofReal_ne_zero hb
  have hne : s1 * u i0 * vc ≠ 0 := by
    rw [← hdec i0 hi0, hA i0 hi0]
    exact mul_ne_zero (mul_ne_zero hσ (Cx.ofReal_ne_zero ha)) hb'
  have hs1 : s1 ≠ 0 := fun e => hne (by rw [e]; ring)
  have hv : vc ≠ 0 := fun e => hne (by rw [e]; ring)
  refine ⟨σ * Cx.ofReal b / (s1 * vc), div_ne_zero (mul_ne_zero hσ hb') (mul_ne_zero hs1 hv), ?_⟩
  intro i hi
  have h := hdec i hi
  rw [hA i hi] at h
  rw [Cx.conj_ofReal]
  field_simp
  linear_combination -h

end rect
end Fdd
end PV
