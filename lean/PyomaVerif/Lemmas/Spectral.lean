import PyomaVerif.Model.Spectral
import PyomaVerif.Lemmas.Sum
import Mathlib.Tactic.Ring
import Mathlib.Tactic.FieldSimp
import Mathlib.Tactic.Linarith
import Mathlib.Tactic.LinearCombination
import Mathlib.Algebra.Field.Basic
import Mathlib.Algebra.Order.Field.Basic
import Mathlib.Algebra.Order.BigOperators.Ring.Finset
/-! Helper lemmas for C13: `CxS K` is a commutative ring, `conj`/`ofReal` are ring
    homomorphisms, shifting a periodic summand. -/
set_option linter.unnecessarySeqFocus false
namespace PV
open Finset

namespace CxS
variable {K : Type}

@[ext] theorem ext' {a b : CxS K} (h1 : a.re = b.re) (h2 : a.im = b.im) : a = b := by
  cases a; cases b; simp_all

section
variable [CommRing K]

instance : One (CxS K) := ⟨⟨1, 0⟩⟩
instance : Neg (CxS K) := ⟨fun a => ⟨-a.re, -a.im⟩⟩

@[simp] theorem zero_re : (0 : CxS K).re = 0 := rfl
@[simp] theorem zero_im : (0 : CxS K).im = 0 := rfl
@[simp] theorem one_re : (1 : CxS K).re = 1 := rfl
@[simp] theorem one_im : (1 : CxS K).im = 0 := rfl
@[simp] theorem add_re (a b : CxS K) : (a + b).re = a.re + b.re := rfl
@[simp] theorem add_im (a b : CxS K) : (a + b).im = a.im + b.im := rfl
@[simp] theorem neg_re (a : CxS K) : (-a).re = -a.re := rfl
@[simp] theorem neg_im (a : CxS K) : (-a).im = -a.im := rfl
@[simp] theorem mul_re (a b : CxS K) : (a * b).re = a.re * b.re - a.im * b.im := rfl
@[simp] theorem mul_im (a b : CxS K) : (a * b).im = a.re * b.im + a.im * b.re := rfl

instance instCommRing : CommRing (CxS K) where
  add := (· + ·)
  zero := 0
  mul := (· * ·)
  one := 1
  neg := Neg.neg
  add_assoc a b c := by ext <;> simp [add_assoc]
  zero_add a := by ext <;> simp
  add_zero a := by ext <;> simp
  add_comm a b := by ext <;> simp [add_comm]
  neg_add_cancel a := by ext <;> simp
  mul_assoc a b c := by ext <;> simp <;> ring
  one_mul a := by ext <;> simp
  mul_one a := by ext <;> simp
  left_distrib a b c := by ext <;> simp <;> ring
  right_distrib a b c := by ext <;> simp <;> ring
  mul_comm a b := by ext <;> simp <;> ring
  zero_mul a := by ext <;> simp
  mul_zero a := by ext <;> simp
  nsmul := nsmulRec
  zsmul := zsmulRec

@[simp] theorem conj_re (a : CxS K) : (conj a).re = a.re := rfl
@[simp] theorem conj_im (a : CxS K) : (conj a).im = -a.im := rfl
@[simp] theorem ofReal_re (x : K) : (ofReal x : CxS K).re = x := rfl
@[simp] theorem ofReal_im (x : K) : (ofReal x : CxS K).im = 0 := rfl
@[simp] theorem smul_re (s : K) (a : CxS K) : (smul s a).re = s * a.re := rfl
@[simp] theorem smul_im (s : K) (a : CxS K) : (smul s a).im = s * a.im := rfl
@[simp] theorem sub_re (a b : CxS K) : (a - b).re = a.re - b.re := by
  rw [sub_eq_add_neg, add_re, neg_re, sub_eq_add_neg]
@[simp] theorem sub_im (a b : CxS K) : (a - b).im = a.im - b.im := by
  rw [sub_eq_add_neg, add_im, neg_im, sub_eq_add_neg]

theorem conj_add (a b : CxS K) : conj (a + b) = conj a + conj b := by ext <;> simp [add_comm]
theorem conj_mul (a b : CxS K) : conj (a * b) = conj a * conj b := by ext <;> simp <;> ring
theorem conj_conj (a : CxS K) : conj (conj a) = a := by ext <;> simp
theorem conj_zero : conj (0 : CxS K) = 0 := by ext <;> simp
theorem conj_ofReal (x : K) : conj (ofReal x : CxS K) = ofReal x := by ext <;> simp
theorem ofReal_add (x y : K) : (ofReal (x + y) : CxS K) = ofReal x + ofReal y := by ext <;> simp
theorem ofReal_mul (x y : K) : (ofReal (x * y) : CxS K) = ofReal x * ofReal y := by ext <;> simp
theorem ofReal_zero : (ofReal 0 : CxS K) = 0 := by ext <;> simp
theorem ofReal_one : (ofReal 1 : CxS K) = 1 := by ext <;> simp
theorem ofReal_sub (x y : K) : (ofReal (x - y) : CxS K) = ofReal x - ofReal y := by ext <;> simp
theorem smul_eq (s : K) (a : CxS K) : smul s a = ofReal s * a := by ext <;> simp
theorem conj_mul_self (a : CxS K) : conj a * a = ofReal (a.re * a.re + a.im * a.im) := by
  ext <;> simp <;> ring

theorem conj_sum (n : Nat) (f : Nat → CxS K) :
    conj (∑ i ∈ range n, f i) = ∑ i ∈ range n, conj (f i) := by
  induction n with
  | zero => simp [conj_zero]
  | succ n ih => rw [sum_range_succ, sum_range_succ, conj_add, ih]

theorem ofReal_sum (n : Nat) (f : Nat → K) :
    (ofReal (∑ i ∈ range n, f i) : CxS K) = ∑ i ∈ range n, ofReal (f i) := by
  induction n with
  | zero => simp [ofReal_zero]
  | succ n ih => rw [sum_range_succ, sum_range_succ, ofReal_add, ih]

theorem sum_re (n : Nat) (f : Nat → CxS K) : (∑ i ∈ range n, f i).re = ∑ i ∈ range n, (f i).re := by
  induction n with
  | zero => simp
  | succ n ih => rw [sum_range_succ, sum_range_succ, add_re, ih]

end

section
variable [Field K]
theorem divR_eq (a : CxS K) (s : K) : divR a s = ofReal s⁻¹ * a := by
  ext <;> simp [divR, div_eq_mul_inv, mul_comm]
end
end CxS

section shift
variable {K : Type} [CommRing K]

/-- the sum over one period of an `n`-periodic summand does not depend on the start. -/
theorem sum_periodic_shift {M : Type} [AddCommGroup M] (n : Nat) (f : Nat → M)
    (hp : ∀ t, f (t + n) = f t) (d : Nat) :
    ∑ t ∈ range n, f (t + d) = ∑ t ∈ range n, f t := by
  induction d with
  | zero => simp
  | succ d ih =>
    have h1 : ∑ t ∈ range (n + 1), f (t + d) = ∑ t ∈ range n, f (t + d) + f (n + d) :=
      sum_range_succ _ n
    have h2 : ∑ t ∈ range (n + 1), f (t + d) = ∑ t ∈ range n, f (t + 1 + d) + f (0 + d) :=
      sum_range_succ' (fun t => f (t + d)) n
    have h3 : f (n + d) = f (0 + d) := by rw [Nat.add_comm n d, hp, Nat.zero_add]
    have h4 : ∑ t ∈ range n, f (t + (d + 1)) = ∑ t ∈ range n, f (t + 1 + d) := by
      apply sum_congr rfl; intro t _; congr 1; omega
    rw [h4, ← ih]
    rw [h3] at h1
    exact add_right_cancel (h2.symm.trans h1)

theorem tw_mul_period (tw : Nat → CxS K) (n : Nat) (hmul : ∀ a b, tw (a + b) = tw a * tw b)
    (hn : tw n = 1) (k : Nat) : tw (k * n) = 1 := by
  induction k with
  | zero =>
    have := hmul 0 n
    rw [Nat.zero_add, hn, mul_one] at this
    rw [Nat.zero_mul]; exact this.symm
  | succ k ih => rw [Nat.succ_mul, hmul, ih, hn, mul_one]

/-- `tw` multiplicative with `tw n = 1` is `n`-periodic. -/
theorem tw_periodic (tw : Nat → CxS K) (n : Nat) (hmul : ∀ a b, tw (a + b) = tw a * tw b)
    (hn : tw n = 1) (k t : Nat) : tw (k * (t + n)) = tw (k * t) := by
  rw [Nat.mul_add, hmul, tw_mul_period tw n hmul hn, mul_one]

theorem circ_advance (n d : Nat) (hpos : 0 < n) : (n - d % n) + d = (d / n + 1) * n := by
  have h1 := Nat.mod_lt d hpos
  have h2 := Nat.div_add_mod d n
  rw [Nat.mul_comm] at h2
  rw [Nat.add_mul, Nat.one_mul]
  generalize d / n * n = q at *
  generalize d % n = r at *
  omega

/-- a circular delay does not change the sum over the segment -/
theorem sum_circDelay {M : Type} [AddCommGroup M] (n d : Nat) (u : Nat → M) :
    ∑ t ∈ range n, circDelay n d u t = ∑ t ∈ range n, u t := by
  have h := sum_periodic_shift n (fun t => u (t % n)) (fun t => by simp) (n - d % n)
  simp only [circDelay]
  rw [h]
  exact sum_congr rfl (fun t ht => by rw [Nat.mod_eq_of_lt (mem_range.mp ht)])

end shift

section welch
variable {K : Type} [Field K]

theorem dft_eq (n : Nat) (tw x : Nat → CxS K) (k : Nat) :
    dft n tw x k = ∑ t ∈ range n, x t * tw (k * t) := by
  simp only [dft, sumTo_eq]

theorem segMean_eq (x : Nat → K) (n step s : Nat) :
    segMean x n step s = (∑ t ∈ range n, x (s * step + t)) / (n : K) := by
  simp only [segMean, sumTo_eq]

theorem welchX_eq (x w : Nat → K) (n step : Nat) (tw : Nat → CxS K) (s k : Nat) :
    welchX x w n step tw s k
      = ∑ t ∈ range n, CxS.ofReal (w t * (x (s * step + t) - segMean x n step s)) * tw (k * t) := by
  simp only [welchX, dft_eq]

theorem welchX_congr (x x' w : Nat → K) (n step : Nat) (tw : Nat → CxS K) (s k : Nat)
    (h : ∀ t, t < n → x' (s * step + t) = x (s * step + t)) :
    welchX x' w n step tw s k = welchX x w n step tw s k := by
  have hm : segMean x' n step s = segMean x n step s := by
    rw [segMean_eq, segMean_eq]; congr 1
    exact sum_congr rfl (fun t ht => h t (mem_range.mp ht))
  rw [welchX_eq, welchX_eq, hm]
  exact sum_congr rfl (fun t ht => by rw [h t (mem_range.mp ht)])

theorem welchX_add (x x' w : Nat → K) (n step : Nat) (tw : Nat → CxS K) (s k : Nat) :
    welchX (fun t => x t + x' t) w n step tw s k
      = welchX x w n step tw s k + welchX x' w n step tw s k := by
  simp only [welchX_eq, segMean_eq, sum_add_distrib, add_div]
  rw [← sum_add_distrib]
  apply sum_congr rfl; intro t _
  rw [← add_mul, ← CxS.ofReal_add]; congr 2; ring

theorem welchX_smul (g : K) (x w : Nat → K) (n step : Nat) (tw : Nat → CxS K) (s k : Nat) :
    welchX (fun t => g * x t) w n step tw s k = CxS.ofReal g * welchX x w n step tw s k := by
  simp only [welchX_eq, segMean_eq, ← mul_sum, mul_div_assoc]
  rw [mul_sum]
  apply sum_congr rfl; intro t _
  rw [← mul_assoc, ← CxS.ofReal_mul]; congr 2; ring

/-- segments of the Welch estimate lie inside the record -/
theorem seg_index_lt (n nperseg noverlap s t : Nat)
    (hs : s < welchNseg n nperseg noverlap) (ht : t < nperseg) :
    s * (nperseg - noverlap) + t < n := by
  unfold welchNseg at hs
  have hpos : 0 < nperseg - noverlap := by
    rcases Nat.eq_zero_or_pos (nperseg - noverlap) with h | h
    · rw [h, Nat.div_zero] at hs; omega
    · exact h
  have h1 : (s + 1) * (nperseg - noverlap) ≤ n - noverlap :=
    le_trans (Nat.mul_le_mul_right _ hs) (Nat.div_mul_le_self _ _)
  rw [Nat.add_mul, Nat.one_mul] at h1
  have h2 : 0 < n - noverlap := by omega
  omega

/-- the multiplier of the averaged cross products in line `k` -/
def csdCoef (fs : K) (w : Nat → K) (n nperseg noverlap nfft k : Nat) : K :=
  (if k = 0 ∨ (nfft % 2 = 0 ∧ k = nfft / 2) then 1 else 2)
    * ((1 / (fs * ∑ t ∈ range nperseg, w t * w t))
    * ((welchNseg n nperseg noverlap : Nat) : K)⁻¹)

theorem welchCsd_val (x y : Nat → K) (n : Nat) (fs : K) (w : Nat → K) (nperseg noverlap nfft : Nat)
    (tw : Nat → CxS K) (k : Nat) :
    (welchCsd x y n fs w nperseg noverlap nfft tw).val k
      = CxS.ofReal (csdCoef fs w n nperseg noverlap nfft k)
        * ∑ s ∈ range (welchNseg n nperseg noverlap),
            CxS.conj (welchX x w nperseg (nperseg - noverlap) tw s k)
              * welchX y w nperseg (nperseg - noverlap) tw s k := by
  simp only [welchCsd, csdCoef, sumTo_eq, CxS.smul_eq, CxS.divR_eq]
  split_ifs with h
  · rw [one_mul, CxS.ofReal_mul, mul_assoc]
  · rw [CxS.ofReal_mul, CxS.ofReal_mul, mul_assoc, mul_assoc]
    congr 2; norm_num

theorem csdCoef_nonneg [LinearOrder K] [IsStrictOrderedRing K] (fs : K) (hfs : 0 ≤ fs) (w : Nat → K)
    (n nperseg noverlap nfft k : Nat) : 0 ≤ csdCoef fs w n nperseg noverlap nfft k := by
  unfold csdCoef
  have h1 : (0 : K) ≤ ∑ t ∈ range nperseg, w t * w t := sum_nonneg (fun t _ => mul_self_nonneg _)
  have h2 : (0 : K) ≤ 1 / (fs * ∑ t ∈ range nperseg, w t * w t) :=
    div_nonneg zero_le_one (mul_nonneg hfs h1)
  have h3 : (0 : K) ≤ ((welchNseg n nperseg noverlap : Nat) : K)⁻¹ := inv_nonneg.mpr (Nat.cast_nonneg _)
  apply mul_nonneg _ (mul_nonneg h2 h3)
  split_ifs <;> norm_num

theorem welchCsd_add_left (x x' y : Nat → K) (n : Nat) (fs : K) (w : Nat → K) (np nov nfft : Nat)
    (tw : Nat → CxS K) (k : Nat) :
    (welchCsd (fun t => x t + x' t) y n fs w np nov nfft tw).val k
      = (welchCsd x y n fs w np nov nfft tw).val k + (welchCsd x' y n fs w np nov nfft tw).val k := by
  simp only [welchCsd_val, welchX_add, CxS.conj_add, add_mul, sum_add_distrib, mul_add]

theorem welchCsd_add_right (x y y' : Nat → K) (n : Nat) (fs : K) (w : Nat → K) (np nov nfft : Nat)
    (tw : Nat → CxS K) (k : Nat) :
    (welchCsd x (fun t => y t + y' t) n fs w np nov nfft tw).val k
      = (welchCsd x y n fs w np nov nfft tw).val k + (welchCsd x y' n fs w np nov nfft tw).val k := by
  simp only [welchCsd_val, welchX_add, mul_add, sum_add_distrib]

theorem welchCsd_smul (g h : K) (x y : Nat → K) (n : Nat) (fs : K) (w : Nat → K) (np nov nfft : Nat)
    (tw : Nat → CxS K) (k : Nat) :
    (welchCsd (fun t => g * x t) (fun t => h * y t) n fs w np nov nfft tw).val k
      = CxS.ofReal (g * h) * (welchCsd x y n fs w np nov nfft tw).val k := by
  simp only [welchCsd_val, welchX_smul, CxS.conj_mul, CxS.conj_ofReal, CxS.ofReal_mul, mul_sum]
  apply sum_congr rfl; intro s _; ring

theorem irfft_add (m : Nat) (tw2 P Q : Nat → CxS K) (t : Nat) :
    irfft m tw2 (fun k => P k + Q k) t = irfft m tw2 P t + irfft m tw2 Q t := by
  simp only [irfft, sumTo_eq, add_mul, CxS.add_re, mul_add, sum_add_distrib]
  split_ifs <;> ring

theorem irfft_smul (c : K) (m : Nat) (tw2 P : Nat → CxS K) (t : Nat) :
    irfft m tw2 (fun k => CxS.ofReal c * P k) t = c * irfft m tw2 P t := by
  have h : ∀ a b : CxS K, (CxS.ofReal c * a * b).re = c * (a * b).re := by
    intro a b; simp; ring
  simp only [irfft, sumTo_eq, h]
  have h0 : ∀ a : CxS K, (CxS.ofReal c * a).re = c * a.re := by intro a; simp
  simp only [h0]
  have hs : ∑ k' ∈ range (m - 2), (1 + 1) * (c * (P (k' + 1) * CxS.conj (tw2 ((k' + 1) * t))).re)
      = c * ∑ k' ∈ range (m - 2), (1 + 1) * (P (k' + 1) * CxS.conj (tw2 ((k' + 1) * t))).re := by
    rw [mul_sum]; apply sum_congr rfl; intro k' _; ring
  rw [hs]
  split_ifs <;> ring

theorem corFromPxy_add (m : Nat) (tw2 : Nat → CxS K) (ew : Nat → K) (P Q : Nat → CxS K) (k : Nat) :
    corFromPxy m tw2 ew (fun q => P q + Q q) k
      = corFromPxy m tw2 ew P k + corFromPxy m tw2 ew Q k := by
  simp only [corFromPxy, dft_eq, irfft_add, add_mul, CxS.ofReal_add, sum_add_distrib]

theorem corFromPxy_smul (c : K) (m : Nat) (tw2 : Nat → CxS K) (ew : Nat → K) (P : Nat → CxS K) (k : Nat) :
    corFromPxy m tw2 ew (fun q => CxS.ofReal c * P q) k = CxS.ofReal c * corFromPxy m tw2 ew P k := by
  simp only [corFromPxy, dft_eq, irfft_smul, mul_assoc, CxS.ofReal_mul, mul_sum]

theorem corPxy_add_left (Y Y' Yref : Mat K) (nxseg : Nat) (tw : Nat → CxS K) (i j : Nat) :
    corPxy (Mat.add Y Y') Yref nxseg tw i j
      = fun q => corPxy Y Yref nxseg tw i j q + corPxy Y' Yref nxseg tw i j q := by
  funext q; simp only [corPxy, Mat.add, welchCsd_add_left]

theorem corPxy_add_right (Y Yref Yref' : Mat K) (nxseg : Nat) (tw : Nat → CxS K) (i j : Nat)
    (hc : Yref'.c = Yref.c) :
    corPxy Y (Mat.add Yref Yref') nxseg tw i j
      = fun q => corPxy Y Yref nxseg tw i j q + corPxy Y Yref' nxseg tw i j q := by
  funext q; simp only [corPxy, Mat.add, hc, welchCsd_add_right]

theorem corPxy_smul (g h : K) (Y Yref : Mat K) (nxseg : Nat) (tw : Nat → CxS K) (i j : Nat) :
    corPxy (Mat.scale g Y) (Mat.scale h Yref) nxseg tw i j
      = fun q => CxS.ofReal (g * h) * corPxy Y Yref nxseg tw i j q := by
  funext q; simp only [corPxy, Mat.scale, welchCsd_smul]

end welch
section sinus
variable {K : Type} [Field K] [LinearOrder K] [IsStrictOrderedRing K]

theorem CxS.mul_eq_zero_cancel {u G : CxS K} (hu : u ≠ 0) (h : u * G = 0) : G = 0 := by
  have hne : u.re ≠ 0 ∨ u.im ≠ 0 := by
    by_contra hc
    have hc' := not_or.mp hc
    exact hu (CxS.ext' (not_not.mp hc'.1) (not_not.mp hc'.2))
  have hpos : 0 < u.re * u.re + u.im * u.im := by
    rcases hne with h1 | h1
    · have := mul_self_pos.mpr h1; have := mul_self_nonneg u.im; linarith
    · have := mul_self_pos.mpr h1; have := mul_self_nonneg u.re; linarith
  have h2 : CxS.ofReal (u.re * u.re + u.im * u.im) * G = 0 := by
    rw [← CxS.conj_mul_self, mul_assoc, h, mul_zero]
  have hre := congrArg CxS.re h2
  have him := congrArg CxS.im h2
  simp only [CxS.mul_re, CxS.mul_im, CxS.ofReal_re, CxS.ofReal_im, CxS.zero_re, CxS.zero_im, zero_mul,
    sub_zero, add_zero] at hre him
  ext
  · rcases mul_eq_zero.mp hre with h3 | h3
    · exact absurd h3 (ne_of_gt hpos)
    · simpa using h3
  · rcases mul_eq_zero.mp him with h3 | h3
    · exact absurd h3 (ne_of_gt hpos)
    · simpa using h3

/-- `Σ_{t<n} tw(j·t) = 0` unless `tw j = 1` -/
theorem geo_sum (tw : Nat → CxS K) (n : Nat) (hmul : ∀ a b, tw (a + b) = tw a * tw b)
    (hn : tw n = 1) (j : Nat) (hj : tw j ≠ 1) : ∑ t ∈ range n, tw (j * t) = 0 := by
  have hs : tw j * ∑ t ∈ range n, tw (j * t) = ∑ t ∈ range n, tw (j * t) := by
    rw [mul_sum]
    have : ∀ t, tw j * tw (j * t) = tw (j * (t + 1)) := by
      intro t; rw [Nat.mul_add, Nat.mul_one, hmul, mul_comm]
    simp only [this]
    exact sum_periodic_shift n (fun t => tw (j * t)) (fun t => tw_periodic tw n hmul hn j t) 1
  have h0 : (tw j - 1) * ∑ t ∈ range n, tw (j * t) = 0 := by rw [sub_mul, hs, one_mul, sub_self]
  exact CxS.mul_eq_zero_cancel (sub_ne_zero.mpr hj) h0

omit [LinearOrder K] [IsStrictOrderedRing K] in
theorem CxS.ofReal_natCast (n : Nat) : (CxS.ofReal (n : K) : CxS K) = (n : CxS K) := by
  induction n with
  | zero => simp [CxS.ofReal_zero]
  | succ n ih => rw [Nat.cast_succ, Nat.cast_succ, CxS.ofReal_add, ih, CxS.ofReal_one]

theorem CxS.ofReal_re_eq (z : CxS K) : CxS.ofReal z.re = CxS.ofReal (1 / 2) * (z + CxS.conj z) := by
  have h2 : (2 : K) ≠ 0 := two_ne_zero
  ext
  · simp only [CxS.ofReal_re, CxS.mul_re, CxS.ofReal_im, CxS.add_re, CxS.conj_re, zero_mul, sub_zero]
    field_simp; ring
  · simp

/-- Hann-windowed transform at line `k0` of one segment of a grid-line sinusoid with complex
    amplitude `b`: `(n/4)·b`. -/
theorem hann_line (tw : Nat → CxS K) (n : Nat) (hmul : ∀ a b, tw (a + b) = tw a * tw b)
    (hn : tw n = 1) (hunit : ∀ m, CxS.conj (tw m) * tw m = 1) (k0 : Nat) (hk0 : 1 ≤ k0)
    (h1 : tw 1 ≠ 1) (h2 : tw (2 * k0) ≠ 1) (h3 : tw (2 * k0 + 1) ≠ 1) (h4 : tw (2 * k0 - 1) ≠ 1)
    (b : CxS K) :
    ∑ t ∈ range n, CxS.ofReal (hann tw t * (b * CxS.conj (tw (k0 * t))).re) * tw (k0 * t)
      = CxS.ofReal ((n : K) / 4) * b := by
  have hh : (CxS.ofReal (1 / 2) : CxS K) * CxS.ofReal (1 / 2) = CxS.ofReal (1 / 4) := by
    rw [← CxS.ofReal_mul]; norm_num
  have point : ∀ t, CxS.ofReal (hann tw t * (b * CxS.conj (tw (k0 * t))).re) * tw (k0 * t)
      = CxS.ofReal (1 / 2) * CxS.ofReal (1 / 2) * b
        - CxS.ofReal (1 / 2) * CxS.ofReal (1 / 2) * CxS.ofReal (1 / 2) * b * tw (1 * t)
        - CxS.ofReal (1 / 2) * CxS.ofReal (1 / 2) * CxS.ofReal (1 / 2) * b * CxS.conj (tw (1 * t))
        + CxS.ofReal (1 / 2) * CxS.ofReal (1 / 2) * CxS.conj b * tw (2 * k0 * t)
        - CxS.ofReal (1 / 2) * CxS.ofReal (1 / 2) * CxS.ofReal (1 / 2) * CxS.conj b * tw ((2 * k0 + 1) * t)
        - CxS.ofReal (1 / 2) * CxS.ofReal (1 / 2) * CxS.ofReal (1 / 2) * CxS.conj b * tw ((2 * k0 - 1) * t) := by
    intro t
    have e1 : tw (2 * k0 * t) = tw (k0 * t) * tw (k0 * t) := by
      rw [← hmul]; congr 1; ring
    have e2 : tw ((2 * k0 + 1) * t) = tw (k0 * t) * tw (k0 * t) * tw t := by
      rw [← hmul, ← hmul]; congr 1; ring
    have e3 : tw ((2 * k0 - 1) * t) = tw (k0 * t) * tw (k0 * t) * CxS.conj (tw t) := by
      have : tw (k0 * t) * tw (k0 * t) = tw ((2 * k0 - 1) * t) * tw t := by
        rw [← hmul, ← hmul]; congr 1
        have : 2 * k0 - 1 + 1 = 2 * k0 := by omega
        calc k0 * t + k0 * t = (2 * k0 - 1 + 1) * t := by rw [this]; ring
          _ = (2 * k0 - 1) * t + t := by ring
      rw [this, mul_assoc, mul_comm (tw t), hunit, mul_one]
    have hw : CxS.ofReal (hann tw t) = CxS.ofReal (1 / 2)
        - CxS.ofReal (1 / 2) * (CxS.ofReal (1 / 2) * (tw t + CxS.conj (tw t))) := by
      simp only [hann]
      rw [CxS.ofReal_sub, CxS.ofReal_mul, CxS.ofReal_re_eq]
      norm_num
    rw [CxS.ofReal_mul, hw, CxS.ofReal_re_eq, CxS.conj_mul, CxS.conj_conj, e1, e2, e3, Nat.one_mul]
    linear_combination (CxS.ofReal (1 / 2) * CxS.ofReal (1 / 2) * b
      - CxS.ofReal (1 / 2) * CxS.ofReal (1 / 2) * CxS.ofReal (1 / 2) * (tw t + CxS.conj (tw t)) * b)
      * hunit (k0 * t)
  simp only [point, sum_add_distrib, sum_sub_distrib, ← mul_sum, ← CxS.conj_sum,
    geo_sum tw n hmul hn 1 h1, geo_sum tw n hmul hn (2 * k0) h2, geo_sum tw n hmul hn (2 * k0 + 1) h3,
    geo_sum tw n hmul hn (2 * k0 - 1) h4, CxS.conj_zero, mul_zero, sub_zero, add_zero,
    sum_const, card_range, nsmul_eq_mul, hh]
  rw [← CxS.ofReal_natCast, ← mul_assoc, ← CxS.ofReal_mul]
  congr 2; ring

end sinus
end PV
