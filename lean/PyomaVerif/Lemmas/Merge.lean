import PyomaVerif.Model.Merge
import Mathlib.Algebra.Field.Basic
import Mathlib.Tactic.Ring
import Mathlib.Tactic.FieldSimp
import Mathlib.Algebra.BigOperators.Group.List.Basic
/-! helper lemmas for C02 / C03-split -/
namespace PV.Merge

theorem pick_map {α β} [Inhabited α] [Inhabited β] (f : α → β) (v : List α) (idx : List Nat)
    (h : ∀ i ∈ idx, i < v.length) : pick (v.map f) idx = (pick v idx).map f := by
  unfold pick
  rw [List.map_map]
  apply List.map_congr_left
  intro i hi
  have hlt := h i hi
  simp [List.getD, hlt]

theorem delete_map {α β} (f : α → β) (v : List α) (idx : List Nat) :
    delete (v.map f) idx = (delete v idx).map f := by
  unfold delete
  rw [List.zipIdx_map, List.filter_map, List.map_map, List.map_map]
  rfl

theorem rovingConcat_map {α β} (f : α → β) (xs : List (List α)) (refs : List (List Nat)) :
    rovingConcat (xs.map (·.map f)) refs = (rovingConcat xs refs).map f := by
  unfold rovingConcat
  induction xs generalizing refs with
  | nil => simp
  | cons x xs ih =>
    cases refs with
    | nil => simp
    | cons r rs =>
      simp only [List.map_cons, List.zipWith_cons_cons, List.flatten_cons, List.map_append]
      rw [delete_map, ih]

theorem foldl_add_eq_sum {C} [AddCommMonoid C] (l : List C) (a : C) :
    l.foldl (· + ·) a = a + l.sum := by
  induction l generalizing a with
  | nil => simp
  | cons x xs ih => simp [ih, add_assoc]

theorem dot_eq_sum {C} [Field C] (x y : List C) : dot x y = (List.zipWith (· * ·) x y).sum := by
  unfold dot; rw [foldl_add_eq_sum]; simp

theorem dot_scale {C} [Field C] (a b : C) (g : List C) :
    dot (g.map (a * ·)) (g.map (b * ·)) = a * b * dot g g := by
  rw [dot_eq_sum, dot_eq_sum]
  induction g with
  | nil => simp
  | cons x xs ih =>
    simp only [List.map_cons, List.zipWith_cons_cons, List.sum_cons]
    rw [ih]; ring

/-- the scale factor between two re-scaled copies of one reference vector -/
theorem msf_scaled {C} [Field C] (re : C → C) (g : List C) (si s0 : C)
    (hsi : si ≠ 0) (hg : dot g g ≠ 0) (hre : re (s0 / si) = s0 / si) :
    msf re (g.map (si * ·)) (g.map (s0 * ·)) = s0 / si := by
  unfold msf
  rw [dot_scale, dot_scale]
  have : s0 * si * dot g g / (si * si * dot g g) = s0 / si := by
    field_simp
  rw [this, hre]

end PV.Merge
