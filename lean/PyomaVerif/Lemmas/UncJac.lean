import PyomaVerif.Model.Unc
import PyomaVerif.Lemmas.Sum
import PyomaVerif.Lemmas.Unc
import PyomaVerif.Lemmas.Realise
import Mathlib.Analysis.SpecialFunctions.Complex.LogDeriv
import Mathlib.Analysis.SpecialFunctions.Sqrt
import Mathlib.Analysis.Calculus.FDeriv.Prod
import Mathlib.Analysis.Calculus.FDeriv.Mul
import Mathlib.Analysis.Calculus.FDeriv.Pow
import Mathlib.Analysis.Calculus.Deriv.Inv
import Mathlib.Analysis.Complex.Norm
import Mathlib.Topology.Algebra.Module.FiniteDimension
import Mathlib.LinearAlgebra.Matrix.ToLin
import Mathlib.Algebra.BigOperators.Fin
import Mathlib.Tactic.Ring
import Mathlib.Tactic.FieldSimp
import Mathlib.Tactic.LinearCombination
/-!
Helpers for `Props/C17Jac.lean`: the `(f, ξ)` Jacobian of `ssi.SSI_poles` (Lemma 5 as coded) and
the singular-triple sensitivity of `ssi.SSI_fast` (eqs 28–34 as coded).
-/
namespace PV.Unc
open Mat

/-! ## `Jfx_l` of `SSI_poles` (`mat22`, `jfxMat1..3`, `jfx` are in `Model/Unc.lean`, executed by the driver) -/

/-- entries of `Jfx_l`, multiplied out. -/
theorem jfx_entries {K : Type} [Field K] (pi dt absd absc a b x y : K) :
    (jfx pi dt absd absc a b x y).e 0 0
        = 1 / (dt * (absd * absd) * absc) * (1 / (2 * pi) * (a * x - b * y)) ∧
    (jfx pi dt absd absc a b x y).e 0 1
        = 1 / (dt * (absd * absd) * absc) * (1 / (2 * pi) * (a * y + b * x)) ∧
    (jfx pi dt absd absc a b x y).e 1 0
        = 1 / (dt * (absd * absd) * absc) * (100 / (absc * absc) * (-(b * b) * x - a * b * y)) ∧
    (jfx pi dt absd absc a b x y).e 1 1
        = 1 / (dt * (absd * absd) * absc) * (100 / (absc * absc) * (-(b * b) * y + a * b * x)) := by
  refine ⟨?_, ?_, ?_, ?_⟩ <;>
    simp only [jfx, jfxMat1, jfxMat2, jfxMat3, mat22, scale, mul, sumTo_eq, Finset.sum_range_succ,
      Finset.sum_range_zero, Nat.cast_ofNat] <;>
    simp only [↓reduceIte, one_ne_zero, zero_add] <;> ring

/-! ## Analytic links -/

section Links
variable {E : Type*} [NormedAddCommGroup E] [NormedSpace ℝ E]

/-- modulus link: `d√(a²+b²) = (a·da + b·db)/√(a²+b²)` (first row of `Mat2`, up to `1/|λ_c|`). -/
theorem hasFDerivAt_modulus {a b : E → ℝ} {a' b' : E →L[ℝ] ℝ} {p : E}
    (ha : HasFDerivAt a a' p) (hb : HasFDerivAt b b' p) (h0 : a p ^ 2 + b p ^ 2 ≠ 0) :
    HasFDerivAt (fun q => √(a q ^ 2 + b q ^ 2))
      ((1 / √(a p ^ 2 + b p ^ 2)) • (a p • a' + b p • b')) p := by
  have hs : √(a p ^ 2 + b p ^ 2) ≠ 0 := fun h => h0 ((Real.sqrt_eq_zero' .. |>.mp h).antisymm
    (by positivity))
  have h : HasFDerivAt (fun q => √(a q ^ 2 + b q ^ 2)) _ p :=
    ((ha.pow 2).add (hb.pow 2)).sqrt h0
  refine h.congr_fderiv ?_
  ext v
  simp
  ring

/-- damping link: `d(−a/√(a²+b²)) = (−b²·da + a·b·db)/√(a²+b²)³` (second row of `Mat2`). -/
theorem hasFDerivAt_damping {a b : E → ℝ} {a' b' : E →L[ℝ] ℝ} {p : E}
    (ha : HasFDerivAt a a' p) (hb : HasFDerivAt b b' p) (h0 : a p ^ 2 + b p ^ 2 ≠ 0) :
    HasFDerivAt (fun q => -(a q / √(a q ^ 2 + b q ^ 2)))
      ((1 / √(a p ^ 2 + b p ^ 2) ^ 3) • (-(b p ^ 2) • a' + (a p * b p) • b')) p := by
  have hs : √(a p ^ 2 + b p ^ 2) ≠ 0 := fun h => h0 ((Real.sqrt_eq_zero' .. |>.mp h).antisymm
    (by positivity))
  have hr := hasFDerivAt_modulus ha hb h0
  have hi := (hasDerivAt_inv hs).comp_hasFDerivAt p hr
  simp only [div_eq_mul_inv]
  refine ((ha.mul hi).neg).congr_fderiv ?_
  have hr2 : √(a p ^ 2 + b p ^ 2) ^ 2 = a p ^ 2 + b p ^ 2 := Real.sq_sqrt (by positivity)
  ext v
  simp
  generalize √(a p ^ 2 + b p ^ 2) = r at hs hr2 ⊢
  have hb2 : b p ^ 2 = r ^ 2 - a p ^ 2 := by linarith
  rw [hb2]
  field_simp
  ring

/-- log link: with `λ = x + i·y` off the branch cut, `μ = log λ · (1/dt) = a + i·b`:
    `da = (x·dx + y·dy)/(dt·|λ|²)`, `db = (−y·dx + x·dy)/(dt·|λ|²)` (`Mat3` and the factor
    `1/(dt·|λ_d|²)`). -/
theorem hasFDerivAt_logmap {x y : E → ℝ} {x' y' : E →L[ℝ] ℝ} {p : E} (dt : ℝ)
    (hx : HasFDerivAt x x' p) (hy : HasFDerivAt y y' p)
    (hs : ((x p : ℂ) + (y p : ℂ) * Complex.I) ∈ Complex.slitPlane) :
    HasFDerivAt (fun q => (Complex.log ((x q : ℂ) + (y q : ℂ) * Complex.I) * ((1 / dt : ℝ) : ℂ)).re)
      ((1 / (dt * (x p ^ 2 + y p ^ 2))) • (x p • x' + y p • y')) p ∧
    HasFDerivAt (fun q => (Complex.log ((x q : ℂ) + (y q : ℂ) * Complex.I) * ((1 / dt : ℝ) : ℂ)).im)
      ((1 / (dt * (x p ^ 2 + y p ^ 2))) • (-(y p) • x' + x p • y')) p := by
  have hl : HasFDerivAt (fun q => (x q : ℂ) + (y q : ℂ) * Complex.I) _ p :=
    (Complex.ofRealCLM.hasFDerivAt.comp p hx).add
      ((Complex.ofRealCLM.hasFDerivAt.comp p hy).mul_const Complex.I)
  have hlog := ((Complex.hasStrictFDerivAt_log_real hs).hasFDerivAt.comp p hl).mul_const
    ((1 / dt : ℝ) : ℂ)
  have hne : x p ^ 2 + y p ^ 2 ≠ 0 := by
    intro h
    have hx0 : x p = 0 := by nlinarith [sq_nonneg (x p), sq_nonneg (y p)]
    have hy0 : y p = 0 := by nlinarith [sq_nonneg (x p), sq_nonneg (y p)]
    simp [hx0, hy0] at hs
  have hn : Complex.normSq ((x p : ℂ) + (y p : ℂ) * Complex.I) = x p ^ 2 + y p ^ 2 := by
    simp [Complex.normSq_apply]; ring
  constructor
  · refine (Complex.reCLM.hasFDerivAt.comp p hlog).congr_fderiv ?_
    ext v
    simp
    rw [hn]
    field_simp
  · refine (Complex.imCLM.hasFDerivAt.comp p hlog).congr_fderiv ?_
    ext v
    simp
    rw [hn]
    field_simp

end Links

/-! ## The map `(Re λ_d, Im λ_d) ↦ (f, 100·ξ)` of `ac2mp` and the matrix `SSI_poles` uses for it -/

/-- `lam_c = np.log(lam_d) * (1/dt)` with `lam_d = q 0 + i·q 1`. -/
noncomputable def lamC (dt : ℝ) (q : Fin 2 → ℝ) : ℂ :=
  Complex.log ((q 0 : ℂ) + (q 1 : ℂ) * Complex.I) * ((1 / dt : ℝ) : ℂ)

/-- `(fn, 100·xi)` of `ac2mp` as a function of `(Re λ_d, Im λ_d)`:
    `fn = abs(lam_c)/(2π)`, `xi = −(Re lam_c / abs(lam_c))`.  (`ac2mp` returns `xi` as a fraction;
    the second row of `Jfx_l` carries the factor 100, i.e. it differentiates the damping in
    percent.) -/
noncomputable def fxMap (dt : ℝ) (q : Fin 2 → ℝ) : Fin 2 → ℝ :=
  ![‖lamC dt q‖ / (2 * Real.pi), 100 * -((lamC dt q).re / ‖lamC dt q‖)]

/-- `Jfx_l` as `SSI_poles` evaluates it at `lam_d = q 0 + i·q 1`. -/
noncomputable def jfxAt (dt : ℝ) (q : Fin 2 → ℝ) : Mat ℝ :=
  jfx Real.pi dt ‖(q 0 : ℂ) + (q 1 : ℂ) * Complex.I‖ ‖lamC dt q‖ (lamC dt q).re (lamC dt q).im
    (q 0) (q 1)

/-! ## Singular-triple sensitivity of `SSI_fast` (eqs 28–34 as coded), Mathlib-matrix form -/

section SV
open Matrix
variable {K : Type} [Field K] {ι κ : Type} [Fintype ι] [Fintype κ] [DecidableEq ι] [DecidableEq κ]

/-- `np.vstack([np.zeros((n−1, ·)), w.T])` with `l` the last row index: row `l` is `w`, every
    other row is zero. -/
def rowAt (l : κ) (w : ι → K) : Matrix κ ι K := Matrix.of fun i j => if i = l then w j else 0

omit [Fintype κ] [DecidableEq ι] in
theorem rowAt_mulVec (l : κ) (w x : ι → K) : rowAt l w *ᵥ x = (w ⬝ᵥ x) • Pi.single l 1 := by
  ext i
  by_cases h : i = l <;> simp [rowAt, Matrix.mulVec, dotProduct, h]

omit [Fintype ι] [DecidableEq ι] in
theorem vecMul_rowAt (l : κ) (w : ι → K) (y : κ → K) : y ᵥ* rowAt l w = y l • w := by
  ext j
  simp [rowAt, Matrix.vecMul, dotProduct, Finset.sum_ite_eq']

/-- the argument of `np.linalg.inv` in eq. 28: `I + [0; 2·vᵀ] − HᵀH/σ²`. -/
def svKarg (H : Matrix ι κ K) (v : κ → K) (σ : K) (l : κ) : Matrix κ κ K :=
  1 + rowAt l ((2 : K) • v) - (σ * σ)⁻¹ • (Hᵀ * H)

/-- `uᵀ·ΔH·v` (`np.dot(Vom[:, ii].T, Ti1)`, `np.dot(Uom[:, ii].T, Ti2)`). -/
def svDsig (u : ι → K) (v : κ → K) (dH : Matrix ι κ K) : K := u ⬝ᵥ (dH *ᵥ v)
/-- upper block of the stack of eq. 34: `Ti2 − u·(uᵀ·Ti2) = ΔH·v − u·Δσ`. -/
def svP (u : ι → K) (v : κ → K) (dH : Matrix ι κ K) : ι → K := dH *ᵥ v - svDsig u v dH • u
/-- lower block of the stack of eq. 34: `Ti1 − v·(vᵀ·Ti1) = ΔHᵀ·u − v·Δσ`. -/
def svQ (u : ι → K) (v : κ → K) (dH : Matrix ι κ K) : κ → K := dHᵀ *ᵥ u - svDsig u v dH • v
/-- `Bi1·stack` of eqs 29/34 (`= σ·Δu`). -/
def svW (H : Matrix ι κ K) (u : ι → K) (v : κ → K) (σ : K) (l : κ) (Ki : Matrix κ κ K)
    (dH : Matrix ι κ K) : ι → K :=
  (1 + (σ⁻¹ • H * Ki) * (σ⁻¹ • Hᵀ - rowAt l u)) *ᵥ svP u v dH + (σ⁻¹ • H * Ki) *ᵥ svQ u v dH
/-- the coded left-singular-vector sensitivity, `Δu = Bi1·stack/σ`. -/
def svDu (H : Matrix ι κ K) (u : ι → K) (v : κ → K) (σ : K) (l : κ) (Ki : Matrix κ κ K)
    (dH : Matrix ι κ K) : ι → K := σ⁻¹ • svW H u v σ l Ki dH
/-- the right-singular-vector sensitivity implied by the same inverse (not formed by the
    code, which needs `Δu` only): `Δv = Ki·((Hᵀ/σ − [0; uᵀ])·p + q)/σ`. -/
def svDv (H : Matrix ι κ K) (u : ι → K) (v : κ → K) (σ : K) (l : κ) (Ki : Matrix κ κ K)
    (dH : Matrix ι κ K) : κ → K :=
  σ⁻¹ • (Ki *ᵥ ((σ⁻¹ • Hᵀ - rowAt l u) *ᵥ svP u v dH + svQ u v dH))

omit [DecidableEq ι] [DecidableEq κ] in
theorem svP_orth (u : ι → K) (v : κ → K) (dH : Matrix ι κ K) (huu : u ⬝ᵥ u = 1) :
    u ⬝ᵥ svP u v dH = 0 := by
  simp [svP, svDsig, dotProduct_sub, dotProduct_smul, huu]

omit [DecidableEq ι] [DecidableEq κ] in
theorem svQ_orth (u : ι → K) (v : κ → K) (dH : Matrix ι κ K) (hvv : v ⬝ᵥ v = 1) :
    v ⬝ᵥ svQ u v dH = 0 := by
  simp [svQ, svDsig, dotProduct_sub, dotProduct_smul, hvv, Matrix.mulVec_transpose,
    Matrix.dotProduct_mulVec, dotProduct_comm]

/-- `Bi1·stack = p + H·Δv`: the first-order form of `H·v = σ·u`. -/
theorem svW_eq (H : Matrix ι κ K) (u : ι → K) (v : κ → K) (σ : K) (l : κ) (Ki : Matrix κ κ K)
    (dH : Matrix ι κ K) :
    svW H u v σ l Ki dH = svP u v dH + H *ᵥ svDv H u v σ l Ki dH := by
  simp only [svW, svDv, Matrix.add_mulVec, Matrix.one_mulVec, ← Matrix.mulVec_mulVec,
    Matrix.mulVec_add, Matrix.smul_mulVec, Matrix.mulVec_smul]
  rw [smul_add, add_assoc]

/-- **The coded closed form solves the first-order singular-triple equations.** -/
theorem sv_sens_solves (H dH : Matrix ι κ K) (u : ι → K) (v : κ → K) (σ : K) (l : κ)
    (Ki : Matrix κ κ K) (hσ : σ ≠ 0) (hHv : H *ᵥ v = σ • u) (hHu : u ᵥ* H = σ • v)
    (huu : u ⬝ᵥ u = 1) (hvv : v ⬝ᵥ v = 1) (hKi : Ki * svKarg H v σ l = 1) :
    dH *ᵥ v + H *ᵥ svDv H u v σ l Ki dH = svDsig u v dH • u + σ • svDu H u v σ l Ki dH ∧
    u ᵥ* dH + svDu H u v σ l Ki dH ᵥ* H = svDsig u v dH • v + σ • svDv H u v σ l Ki dH ∧
    u ⬝ᵥ svDu H u v σ l Ki dH = 0 ∧ v ⬝ᵥ svDv H u v σ l Ki dH = 0 := by
  have hKi' : svKarg H v σ l * Ki = 1 := mul_eq_one_comm.mp hKi
  have hup := svP_orth u v dH huu
  have hvq := svQ_orth u v dH hvv
  have hvK : v ᵥ* svKarg H v σ l = (2 * v l) • v := by
    simp only [svKarg, Matrix.vecMul_sub, Matrix.vecMul_add, Matrix.vecMul_one, vecMul_rowAt,
      Matrix.vecMul_smul, ← Matrix.vecMul_vecMul, Matrix.vecMul_transpose, hHv,
      Matrix.smul_vecMul, hHu]
    ext j
    simp
    field_simp
    ring
  have h2 : 2 * v l ≠ 0 := by
    intro h0
    have h := congrArg (fun y => y ᵥ* Ki) hvK
    simp only [Matrix.vecMul_vecMul, hKi', Matrix.vecMul_one, h0, zero_smul,
      Matrix.zero_vecMul] at h
    rw [h] at hvv
    simp at hvv
  have hvz : v ⬝ᵥ ((σ⁻¹ • Hᵀ - rowAt l u) *ᵥ svP u v dH + svQ u v dH) = 0 := by
    rw [dotProduct_add, hvq, Matrix.sub_mulVec, dotProduct_sub, rowAt_mulVec, hup,
      Matrix.dotProduct_mulVec, Matrix.vecMul_smul, Matrix.vecMul_transpose, hHv]
    simp [hup]
  have hKdv : svKarg H v σ l *ᵥ svDv H u v σ l Ki dH
      = σ⁻¹ • ((σ⁻¹ • Hᵀ - rowAt l u) *ᵥ svP u v dH + svQ u v dH) := by
    rw [svDv, Matrix.mulVec_smul, Matrix.mulVec_mulVec, hKi', Matrix.one_mulVec]
  have hvdv : v ⬝ᵥ svDv H u v σ l Ki dH = 0 := by
    have h := congrArg (fun y => v ⬝ᵥ y) hKdv
    simp only [Matrix.dotProduct_mulVec, hvK, dotProduct_smul, smul_dotProduct, hvz,
      smul_eq_mul, mul_zero] at h
    exact (mul_eq_zero.mp h).resolve_left h2
  have hsdu : σ • svDu H u v σ l Ki dH = svP u v dH + H *ᵥ svDv H u v σ l Ki dH := by
    rw [svDu, smul_smul, mul_inv_cancel₀ hσ, one_smul, svW_eq]
  have hF := hKdv
  simp only [svKarg, Matrix.sub_mulVec, Matrix.add_mulVec, Matrix.one_mulVec, rowAt_mulVec,
    Matrix.smul_mulVec, ← Matrix.mulVec_mulVec, smul_dotProduct, hvdv, hup, smul_eq_mul,
    mul_zero, zero_smul, add_zero, sub_zero] at hF
  refine ⟨?_, ?_, ?_, hvdv⟩
  · rw [hsdu, svP]
    abel
  · have hdu : svDu H u v σ l Ki dH = σ⁻¹ • (svP u v dH + H *ᵥ svDv H u v σ l Ki dH) := by
      rw [← hsdu, smul_smul, inv_mul_cancel₀ hσ, one_smul]
    have hq : dHᵀ *ᵥ u = svQ u v dH + svDsig u v dH • v := by rw [svQ]; abel
    rw [hdu, ← Matrix.mulVec_transpose dH u, ← Matrix.mulVec_transpose H, Matrix.mulVec_smul,
      Matrix.mulVec_add, hq]
    ext j
    have hj := congrFun hF j
    simp only [Pi.add_apply, Pi.sub_apply, Pi.smul_apply, smul_eq_mul] at hj ⊢
    field_simp at hj ⊢
    linear_combination -hj
  · have h := congrArg (fun y => u ⬝ᵥ y) hsdu
    simp only [dotProduct_smul, dotProduct_add, hup, Matrix.dotProduct_mulVec, hHu,
      smul_dotProduct, hvdv, smul_eq_mul, mul_zero, add_zero] at h
    exact (mul_eq_zero.mp h).resolve_left hσ

omit [DecidableEq ι] in
/-- homogeneous first-order equations have only the zero solution when the inverse of
    eq. 28 exists (this is where simplicity of the singular value enters). -/
theorem sv_sens_homog (H : Matrix ι κ K) (v : κ → K) (σ : K) (l : κ) (Ki : Matrix κ κ K)
    (hσ : σ ≠ 0) (hKi : Ki * svKarg H v σ l = 1) (δu : ι → K) (δv : κ → K)
    (h1 : H *ᵥ δv = σ • δu) (h2 : δu ᵥ* H = σ • δv) (h4 : v ⬝ᵥ δv = 0) :
    δu = 0 ∧ δv = 0 := by
  have hK0 : svKarg H v σ l *ᵥ δv = 0 := by
    simp only [svKarg, Matrix.sub_mulVec, Matrix.add_mulVec, Matrix.one_mulVec, rowAt_mulVec,
      Matrix.smul_mulVec, ← Matrix.mulVec_mulVec, smul_dotProduct, h4, h1, Matrix.mulVec_smul,
      Matrix.mulVec_transpose, h2, smul_eq_mul, mul_zero, zero_smul, add_zero, smul_smul]
    rw [inv_mul_cancel₀ (mul_ne_zero hσ hσ), one_smul, sub_self]
  have hv0 : δv = 0 := by
    have h := congrArg (fun y => Ki *ᵥ y) hK0
    simpa only [Matrix.mulVec_mulVec, hKi, Matrix.one_mulVec, Matrix.mulVec_zero] using h
  refine ⟨?_, hv0⟩
  rw [hv0, Matrix.mulVec_zero] at h1
  have h := congrArg (fun y => σ⁻¹ • y) h1
  simpa only [smul_zero, smul_smul, inv_mul_cancel₀ hσ, one_smul] using h.symm

/-- **The coded closed form is the only first-order solution** (pair form). -/
theorem sv_sens_pair (H dH : Matrix ι κ K) (u : ι → K) (v : κ → K) (σ : K) (l : κ)
    (Ki : Matrix κ κ K) (hσ : σ ≠ 0) (hHv : H *ᵥ v = σ • u) (hHu : u ᵥ* H = σ • v)
    (huu : u ⬝ᵥ u = 1) (hvv : v ⬝ᵥ v = 1) (hKi : Ki * svKarg H v σ l = 1)
    (du : ι → K) (dv : κ → K) (dσ : K)
    (e1 : dH *ᵥ v + H *ᵥ dv = dσ • u + σ • du) (e2 : u ᵥ* dH + du ᵥ* H = dσ • v + σ • dv)
    (e3 : u ⬝ᵥ du = 0) (e4 : v ⬝ᵥ dv = 0) :
    dσ = svDsig u v dH ∧ du = svDu H u v σ l Ki dH ∧ dv = svDv H u v σ l Ki dH := by
  obtain ⟨s1, s2, _, s4⟩ := sv_sens_solves H dH u v σ l Ki hσ hHv hHu huu hvv hKi
  have hds : dσ = svDsig u v dH := by
    have h := congrArg (fun y => u ⬝ᵥ y) e1
    simp only [dotProduct_add, dotProduct_smul, Matrix.dotProduct_mulVec u H, hHu,
      smul_dotProduct, e3, e4, huu, smul_eq_mul, mul_zero, add_zero, mul_one] at h
    exact h.symm
  subst hds
  have hh := sv_sens_homog H v σ l Ki hσ hKi (du - svDu H u v σ l Ki dH)
    (dv - svDv H u v σ l Ki dH) ?_ ?_ ?_
  · exact ⟨rfl, sub_eq_zero.mp hh.1, sub_eq_zero.mp hh.2⟩
  · rw [Matrix.mulVec_sub, smul_sub]
    have := congrArg₂ (· - ·) e1 s1
    simp only [add_sub_add_left_eq_sub] at this
    exact this
  · rw [Matrix.sub_vecMul, smul_sub]
    have := congrArg₂ (· - ·) e2 s2
    simp only [add_sub_add_left_eq_sub] at this
    exact this
  · rw [dotProduct_sub, e4, s4, sub_zero]

end SV

/-! ## first-order parts of dual-number vectors (complements of `Lemmas/Unc.lean`) -/

section Dual2
set_option linter.unusedSectionVars false
open TrivSqZeroExt Matrix
variable {K : Type} [CommRing K] {m n : Type} [Fintype m] [Fintype n]

theorem vsnd_vecMul (x : m → DualNumber K) (A : Matrix m n (DualNumber K)) :
    vsnd (x ᵥ* A) = vfst x ᵥ* msnd A + vsnd x ᵥ* mfst A := by
  ext i
  simp [vfst, vsnd, mfst, msnd, Matrix.vecMul, dotProduct, snd_sum, Finset.sum_add_distrib]

theorem snd_dotProduct (x y : n → DualNumber K) :
    (x ⬝ᵥ y).snd = vfst x ⬝ᵥ vsnd y + vsnd x ⬝ᵥ vfst y := by
  simp [vfst, vsnd, dotProduct, snd_sum, Finset.sum_add_distrib]

theorem dual_vec_ext {x y : n → DualNumber K} (h0 : vfst x = vfst y) (h1 : vsnd x = vsnd y) :
    x = y := by
  funext i
  exact TrivSqZeroExt.ext (congrFun h0 i) (congrFun h1 i)

/-- the dual-number vector `x₀ + ε·x₁` -/
def dvec (x0 x1 : n → K) : n → DualNumber K := fun i => inl (x0 i) + inr (x1 i)
/-- the dual-number matrix `A₀ + ε·A₁` -/
def dmat (A0 A1 : Matrix m n K) : Matrix m n (DualNumber K) := fun i j => inl (A0 i j) + inr (A1 i j)

@[simp] theorem vfst_dvec (x0 x1 : n → K) : vfst (dvec x0 x1) = x0 := by ext i; simp [vfst, dvec]
@[simp] theorem vsnd_dvec (x0 x1 : n → K) : vsnd (dvec x0 x1) = x1 := by ext i; simp [vsnd, dvec]
@[simp] theorem mfst_dmat (A0 A1 : Matrix m n K) : mfst (dmat A0 A1) = A0 := by
  ext i j; simp [mfst, dmat]
@[simp] theorem msnd_dmat (A0 A1 : Matrix m n K) : msnd (dmat A0 A1) = A1 := by
  ext i j; simp [msnd, dmat]

end Dual2

/-! ## Bridge from the index-level model (`kiArg`, `force`) to the Mathlib-matrix form -/

section Bridge
variable {K : Type} [Field K] [Inhabited K]

omit [Field K] in
/-- `force` is the identity on in-range entries. -/
theorem force_e (m : Mat K) {i j : Nat} (hi : i < m.r) (hj : j < m.c) :
    (force m).e i j = m.e i j := by
  simp [force, hi, hj]

omit [Inhabited K] in
theorem sumTo_congr {n : Nat} {f g : Nat → K} (h : ∀ t, t < n → f t = g t) :
    sumTo n f = sumTo n g := by
  rw [sumTo_eq, sumTo_eq]
  exact Finset.sum_congr rfl fun t ht => h t (Finset.mem_range.mp ht)

/-- the last index of a non-empty range (row `q·r − 1` of `np.vstack([np.zeros((q*r − 1, ·)), …])`). -/
def lastIx (n : Nat) (h : 0 < n) : Fin n := ⟨n - 1, Nat.sub_lt h Nat.one_pos⟩

/-- the model's argument of `np.linalg.inv` (eq. 28) is `svKarg` of the bridged matrices. -/
theorem toMx_kiArg (H : Mat K) (nV : Nat) (v : Nat → K) (sig : K) (hc : H.c = nV) (h0 : 0 < nV) :
    toMx nV nV (kiArg H nV v sig).e
      = svKarg (toMx H.r nV H.e) (fun j : Fin nV => v j.1) sig (lastIx nV h0) := by
  ext i j
  have hi : i.1 < (mul (transpose H) H).r := by simp [mul, transpose, hc]
  have hj : j.1 < (mul (transpose H) H).c := by simp [mul, hc]
  simp only [toMx, kiArg, Mat.sub, Mat.add, divS]
  rw [force_e _ hi hj]
  simp only [eye, vstack2, zeros, rowVec,
    svKarg, Matrix.sub_apply, Matrix.add_apply, Matrix.smul_apply, Matrix.mul_apply,
    Matrix.transpose_apply, Matrix.one_apply, rowAt, Matrix.of_apply, Pi.smul_apply, smul_eq_mul,
    mul, transpose, sumTo_eq, Finset.sum_range, lastIx, Fin.ext_iff, toMx]
  have : (i.1 < nV - 1) ↔ ¬ (i.1 = nV - 1) := by have := i.2; omega
  by_cases h : i.1 = nV - 1 <;> simp [this, h, div_eq_inv_mul, one_add_one_eq_two]

end Bridge

end PV.Unc
