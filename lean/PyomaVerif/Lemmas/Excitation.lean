import PyomaVerif.Lemmas.FreeVib
import Mathlib.LinearAlgebra.Vandermonde
/-!
# The controllability-side rank condition of C01/C03, derived from the property's own premises

`Props/C01E2E.lean` assumes that the factor `Γ` (`FreeVib.gamMx`) of the Hankel matrix of a free
response is right invertible.  The property speaks about "an initial condition exciting all modes"
and "a reference subset that still observes all modes".  In matrix form these are

* `A` invertible (a sampled continuous-time system, `A = exp(A_c·dt)`),
* the state sequence `x_0 … x_{T−1}` spans the state space (`kryMx A x0 T` right invertible),
* `(A, C_ref)` observable with the `p+1` block rows the Hankel matrix has,

and this file proves that they imply the right-invertibility of `Γ` (`gam_right_inv`), over any
linearly ordered field (the Gram matrix `Σ_t x_t·x_tᵀ` of a spanning sequence is positive definite).
`krylov_right_inv` then derives the second condition from a diagonalisation with distinct
eigenvalues and an initial state with no vanishing modal coordinate (Vandermonde determinant),
over any field, and `right_inv_re` brings it back from `Cpx ℚ` to `ℚ`.
-/
set_option linter.unusedSectionVars false
set_option linter.unusedVariables false

namespace PV.Excite
open PV PV.Mat PV.Cov PV.FreeVib Matrix Finset

section ordered
variable {K : Type} [Field K] [LinearOrder K] [IsStrictOrderedRing K]

/-- Over an ordered field a matrix with linearly independent rows (`v·M = 0 → v = 0`) has a right
    inverse (`Mᵀ·(M·Mᵀ)⁻¹`). -/
theorem right_inv_of_vecMul_inj {n w : ℕ} (M : Matrix (Fin n) (Fin w) K)
    (h : ∀ v : Fin n → K, v ᵥ* M = 0 → v = 0) : ∃ B : Matrix (Fin w) (Fin n) K, M * B = 1 := by
  have hker : ∀ z : Fin n → K, z ᵥ* (M * Mᵀ) = 0 → z = 0 := by
    intro z hz
    apply h
    have hsym : (M * Mᵀ) *ᵥ z = 0 := by
      have : (M * Mᵀ) *ᵥ z = z ᵥ* (M * Mᵀ)ᵀ := (vecMul_transpose _ _).symm
      rw [this, transpose_mul, transpose_transpose, hz]
    have : (z ᵥ* M) ⬝ᵥ (z ᵥ* M) = 0 := by
      rw [← dotProduct_mulVec, ← mulVec_transpose M z, mulVec_mulVec, hsym, dotProduct_zero]
    exact dotProduct_self_eq_zero.mp this
  have hinj : Function.Injective fun v : Fin n → K => v ᵥ* (M * Mᵀ) := by
    intro v1 v2 h12
    have h0 : (v1 - v2) ᵥ* (M * Mᵀ) = 0 := by
      rw [sub_vecMul]; exact sub_eq_zero.mpr h12
    exact sub_eq_zero.mp (hker _ h0)
  rw [vecMul_injective_iff_isUnit] at hinj
  obtain ⟨u, hu⟩ := hinj
  refine ⟨Mᵀ * (↑u⁻¹ : Matrix (Fin n) (Fin n) K), ?_⟩
  rw [← Matrix.mul_assoc, ← hu]
  exact u.mul_inv

/-- Over an ordered field a matrix with linearly independent columns (`M·v = 0 → v = 0`) has a left
    inverse (`(Mᵀ·M)⁻¹·Mᵀ`). -/
theorem left_inv_of_mulVec_inj {m n : ℕ} (M : Matrix (Fin m) (Fin n) K)
    (h : ∀ v : Fin n → K, M *ᵥ v = 0 → v = 0) : ∃ B : Matrix (Fin n) (Fin m) K, B * M = 1 := by
  obtain ⟨B, hB⟩ := right_inv_of_vecMul_inj Mᵀ (fun v hv => h v (by rw [← vecMul_transpose]; exact hv))
  refine ⟨Bᵀ, ?_⟩
  have := congrArg Matrix.transpose hB
  rw [transpose_mul, transpose_transpose, transpose_one] at this
  exact this

/-- the state sequence `x_0, …, x_{T−1}` as the columns of a matrix -/
def kryMx {n : ℕ} (A : Matrix (Fin n) (Fin n) K) (x0 : Fin n → K) (T : ℕ) :
    Matrix (Fin n) (Fin T) K := Matrix.of fun k t => stateAt A x0 t.1 k

/-- index facts for the column of `Γ` (block `p − i`, reference `b`) that pairs with row `(i, b)` of
    the observability matrix -/
theorem idx_facts (p i b r : ℕ) (hi : i ≤ p) (hb : b < r) :
    (p - i) * r + b < (p + 1) * r ∧ ((p - i) * r + b) / r = p - i ∧ ((p - i) * r + b) % r = b
      ∧ p + 1 - (p - i) = i + 1 := by
  have hr : 0 < r := by omega
  refine ⟨?_, ?_, ?_, by omega⟩
  · have h1 : (p - i) + 1 ≤ p + 1 := by omega
    calc (p - i) * r + b < (p - i) * r + r := by omega
      _ = ((p - i) + 1) * r := by ring
      _ ≤ (p + 1) * r := Nat.mul_le_mul_right _ h1
  · rw [Nat.add_comm, Nat.add_mul_div_right _ _ hr, Nat.div_eq_of_lt hb, Nat.zero_add]
  · rw [Nat.add_comm, Nat.add_mul_mod_self_right, Nat.mod_eq_of_lt hb]

/-- `v·x_{u+t} = (v·A^u)·x_t` -/
theorem dot_state_shift {n : ℕ} (A : Matrix (Fin n) (Fin n) K) (x0 v : Fin n → K) (u t : ℕ) :
    v ⬝ᵥ stateAt A x0 (u + t) = (v ᵥ* A ^ u) ⬝ᵥ stateAt A x0 t := by
  unfold stateAt
  rw [pow_add, ← mulVec_mulVec, dotProduct_mulVec]

/-- row `I` of the block observability matrix applied to a vector -/
theorem obsFn_dot {n : ℕ} (r : ℕ) (A : Matrix (Fin n) (Fin n) K) (C : ℕ → Fin n → K) (I : ℕ)
    (g : Fin n → K) :
    ∑ k, obsFn r A C I k * g k = (C (I % r)) ⬝ᵥ ((A ^ (I / r)) *ᵥ g) := by
  unfold obsFn
  simp only [dotProduct, mulVec, Finset.sum_mul, Finset.mul_sum]
  rw [Finset.sum_comm]
  apply Finset.sum_congr rfl; intro x _
  apply Finset.sum_congr rfl; intro y _
  ring

/-- **`Γ` is right invertible** when `A` is invertible, the state sequence over the `T = N−2p−2`
    averaged samples spans the state space, the reference record is the free response of
    `(A, C_ref, x0)` and `(A, C_ref)` is observable with `p+1` block rows — the property's
    "initial condition exciting all modes" and "reference subset that still observes all modes"
    in matrix form.  `s ≠ 0` is the `1/√N` scale. -/
theorem gam_right_inv {n : ℕ} (A Ainv : Matrix (Fin n) (Fin n) K) (hA : A * Ainv = 1)
    (Cref : ℕ → Fin n → K) (x0 : Fin n → K) (Yref : Mat K) (p : ℕ) (s : K) (hs : s ≠ 0) (Ndat : ℕ)
    (hYref : ∀ b t, b < Yref.r → t < Ndat → Yref.e b t = Cref b ⬝ᵥ stateAt A x0 t)
    (Xr : Matrix (Fin (Ndat - p - (p + 1) - 1)) (Fin n) K)
    (hX : kryMx A x0 (Ndat - p - (p + 1) - 1) * Xr = 1)
    (OL : Matrix (Fin n) (Fin ((p + 1) * Yref.r)) K)
    (hO : OL * obsMx ((p + 1) * Yref.r) Yref.r A Cref = 1) :
    ∃ Γr : Matrix (Fin ((p + 1) * Yref.r)) (Fin n) K,
      gamMx A x0 Yref p s Ndat ((p + 1) * Yref.r) * Γr = 1 := by
  apply right_inv_of_vecMul_inj
  intro v hv
  have hA' : Ainv * A = 1 := mul_eq_one_comm.mp hA
  -- the scalars a_t = v·x_{p+2+t} and the vector g = Σ_t a_t·x_t
  set a : ℕ → K := fun t => v ⬝ᵥ stateAt A x0 (p + 2 + t) with ha
  set g : Fin n → K := fun k => ∑ t ∈ range (Ndat - p - (p + 1) - 1), a t * stateAt A x0 t k with hg
  -- every entry of v·Γ is s²·(C_ref[b]·A^{p+1−j}·g)
  have hentry : ∀ c : Fin ((p + 1) * Yref.r),
      (v ᵥ* gamMx A x0 Yref p s Ndat ((p + 1) * Yref.r)) c
        = (s * s) * (Cref (c.1 % Yref.r) ⬝ᵥ ((A ^ (p + 1 - c.1 / Yref.r)) *ᵥ g)) := by
    intro c
    have hr : 0 < Yref.r := by
      by_contra h
      have h0 : Yref.r = 0 := by omega
      have h1 : (p + 1) * Yref.r = 0 := by rw [h0]; rfl
      have := c.2
      omega
    have hb : c.1 % Yref.r < Yref.r := Nat.mod_lt _ hr
    have hj : c.1 / Yref.r ≤ p := by
      have : c.1 / Yref.r < p + 1 := by rw [Nat.div_lt_iff_lt_mul hr]; exact c.2
      omega
    simp only [vecMul, dotProduct, gamMx, gamFn, Matrix.of_apply]
    have hy : ∀ t ∈ range (Ndat - p - (p + 1) - 1), Yref.e (c.1 % Yref.r) (p + 1 - c.1 / Yref.r + t)
        = Cref (c.1 % Yref.r) ⬝ᵥ ((A ^ (p + 1 - c.1 / Yref.r)) *ᵥ stateAt A x0 t) := by
      intro t ht
      have ht' : t < Ndat - p - (p + 1) - 1 := Finset.mem_range.mp ht
      have hle : p + 1 - c.1 / Yref.r + t ≤ p + 1 + t := Nat.add_le_add_right (Nat.sub_le _ _) _
      rw [hYref _ _ hb (lt_of_le_of_lt hle (by omega))]
      congr 1
      unfold stateAt
      rw [mulVec_mulVec, ← pow_add]
    simp only [Finset.mul_sum]
    rw [Finset.sum_comm]
    have : ∀ t ∈ range (Ndat - p - (p + 1) - 1),
        ∑ x, v x * (s * s * (stateAt A x0 (p + 2 + t) x
            * Yref.e (c.1 % Yref.r) (p + 1 - c.1 / Yref.r + t)))
          = s * s * (a t * (Cref (c.1 % Yref.r) ⬝ᵥ
              ((A ^ (p + 1 - c.1 / Yref.r)) *ᵥ stateAt A x0 t))) := by
      intro t ht
      rw [hy t ht, ha]
      simp only [dotProduct, Finset.sum_mul, Finset.mul_sum]
      rw [Finset.sum_comm]
      apply Finset.sum_congr rfl; intro x _
      apply Finset.sum_congr rfl; intro y _
      ring
    rw [Finset.sum_congr rfl this]
    -- pull g out
    have hg' : (A ^ (p + 1 - c.1 / Yref.r)) *ᵥ g
        = fun k => ∑ t ∈ range (Ndat - p - (p + 1) - 1), a t * ((A ^ (p + 1 - c.1 / Yref.r)) *ᵥ stateAt A x0 t) k := by
      funext k
      simp only [mulVec, dotProduct, hg, Finset.mul_sum]
      rw [Finset.sum_comm]
      apply Finset.sum_congr rfl; intro t _
      apply Finset.sum_congr rfl; intro y _
      ring
    rw [hg']
    simp only [dotProduct, Finset.mul_sum]
    rw [Finset.sum_comm]
    apply Finset.sum_congr rfl; intro x _
    apply Finset.sum_congr rfl; intro y _
    ring
  -- hence the observability matrix annihilates A·g
  have hOg : (obsMx ((p + 1) * Yref.r) Yref.r A Cref) *ᵥ (A *ᵥ g) = 0 := by
    funext I
    have hr : 0 < Yref.r := by
      by_contra h
      have h0 : Yref.r = 0 := by omega
      have h1 : (p + 1) * Yref.r = 0 := by rw [h0]; rfl
      have := I.2
      omega
    have hi : I.1 / Yref.r < p + 1 := by rw [Nat.div_lt_iff_lt_mul hr]; exact I.2
    have hb : I.1 % Yref.r < Yref.r := Nat.mod_lt _ hr
    -- the column of Γ with block index j = p − i
    obtain ⟨hc, hdiv, hmod, hpow⟩ := idx_facts p (I.1 / Yref.r) (I.1 % Yref.r) Yref.r (by omega) hb
    have h1 := hentry ⟨_, hc⟩
    rw [hv] at h1
    simp only [Pi.zero_apply] at h1
    rw [hdiv, hmod, hpow] at h1
    have hss : s * s ≠ 0 := mul_ne_zero hs hs
    have h2 := (mul_eq_zero.mp h1.symm).resolve_left hss
    simp only [mulVec, obsMx, Matrix.of_apply, Pi.zero_apply]
    show ∑ k, obsFn Yref.r A Cref I.1 k * (A *ᵥ g) k = 0
    rw [obsFn_dot, mulVec_mulVec, ← pow_succ]
    exact h2.symm ▸ rfl
  have hAg : A *ᵥ g = 0 := by
    have := congrArg (fun w => OL *ᵥ w) hOg
    simp only [mulVec_zero] at this
    rw [mulVec_mulVec (A *ᵥ g) OL, hO, one_mulVec] at this
    exact this
  have hg0 : g = 0 := by
    have := congrArg (fun w => Ainv *ᵥ w) hAg
    simp only [mulVec_mulVec, hA', one_mulVec, mulVec_zero] at this
    exact this
  -- Σ a_t² = u·g = 0 with u = v·A^{p+2}
  set u : Fin n → K := v ᵥ* A ^ (p + 2) with hu
  have hau : ∀ t, a t = u ⬝ᵥ stateAt A x0 t := fun t => dot_state_shift A x0 v (p + 2) t
  have hsq : ∑ t ∈ range (Ndat - p - (p + 1) - 1), a t * a t = 0 := by
    have : ∑ t ∈ range (Ndat - p - (p + 1) - 1), a t * a t = u ⬝ᵥ g := by
      have hgt : u ⬝ᵥ g
          = ∑ t ∈ range (Ndat - p - (p + 1) - 1), a t * (u ⬝ᵥ stateAt A x0 t) := by
        simp only [dotProduct, hg, Finset.mul_sum]
        rw [Finset.sum_comm]
        apply Finset.sum_congr rfl; intro t _
        apply Finset.sum_congr rfl; intro x _
        ring
      rw [hgt]
      apply Finset.sum_congr rfl; intro t _
      rw [← hau t]
    rw [this, hg0, dotProduct_zero]
  have hat : ∀ t ∈ range (Ndat - p - (p + 1) - 1), a t = 0 := by
    intro t ht
    have := (Finset.sum_eq_zero_iff_of_nonneg (fun i _ => mul_self_nonneg (a i))).mp hsq t ht
    exact mul_self_eq_zero.mp this
  have huX : u ᵥ* kryMx A x0 (Ndat - p - (p + 1) - 1) = 0 := by
    funext t
    simp only [vecMul, kryMx, Pi.zero_apply]
    have := hat t.1 (Finset.mem_range.mpr t.2)
    rw [hau] at this
    exact this
  have hu0 : u = 0 := by
    have := congrArg (fun w => w ᵥ* Xr) huX
    simp only [zero_vecMul] at this
    rw [vecMul_vecMul, hX, vecMul_one] at this
    exact this
  -- A^{p+2} is invertible
  have hpow : A ^ (p + 2) * Ainv ^ (p + 2) = 1 := by
    have hc : Commute A Ainv := by
      show A * Ainv = Ainv * A
      rw [hA, hA']
    rw [← hc.mul_pow, hA, one_pow]
  have := congrArg (fun w => w ᵥ* Ainv ^ (p + 2)) hu0
  simp only [hu, vecMul_vecMul, hpow, vecMul_one, zero_vecMul] at this
  exact this

end ordered

section general
variable {F : Type} [Field F]

/-- `A^t = V·D^t·V⁻¹` for a diagonalisation `A·V = V·D` -/
theorem pow_of_diag {n : ℕ} (A V Vinv : Matrix (Fin n) (Fin n) F) (d : Fin n → F)
    (hV : V * Vinv = 1) (hAV : A * V = V * diagonal d) (t : ℕ) :
    A ^ t = V * diagonal (fun i => d i ^ t) * Vinv := by
  have hV' : Vinv * V = 1 := mul_eq_one_comm.mp hV
  have hA : A = V * diagonal d * Vinv := by
    rw [← hAV, Matrix.mul_assoc, hV, Matrix.mul_one]
  induction t with
  | zero =>
    have : (fun i : Fin n => d i ^ 0) = fun _ => (1 : F) := by funext i; exact pow_zero _
    rw [pow_zero, this, diagonal_one, Matrix.mul_one, hV]
  | succ t ih =>
    calc A ^ (t + 1) = A ^ t * A := pow_succ _ _
      _ = (V * diagonal (fun i => d i ^ t) * Vinv) * (V * diagonal d * Vinv) := by
          rw [ih]; congr 1
      _ = V * (diagonal (fun i => d i ^ t) * ((Vinv * V) * diagonal d)) * Vinv := by
          simp only [Matrix.mul_assoc]
      _ = V * diagonal (fun i => d i ^ (t + 1)) * Vinv := by
          rw [hV', Matrix.one_mul, diagonal_mul_diagonal]
          congr 3
          funext i
          rw [pow_succ]

/-- the state sequence in modal coordinates: `x_t = V·(d^t ∘ c)`, `c = V⁻¹·x0` -/
theorem stateAt_diag {n : ℕ} (A V Vinv : Matrix (Fin n) (Fin n) F) (d : Fin n → F)
    (hV : V * Vinv = 1) (hAV : A * V = V * diagonal d) (x0 : Fin n → F) (t : ℕ) :
    stateAt A x0 t = V *ᵥ (fun i => d i ^ t * (Vinv *ᵥ x0) i) := by
  unfold stateAt
  rw [pow_of_diag A V Vinv d hV hAV t, ← mulVec_mulVec, ← mulVec_mulVec]
  congr 1
  funext i
  rw [mulVec_diagonal]

/-- **The state sequence spans the state space** (`kryMx` has a right inverse) when `A` is
    diagonalisable with pairwise distinct eigenvalues, no modal coordinate of `x0` vanishes
    ("the initial condition excites all modes") and at least `n` samples are used. -/
theorem krylov_right_inv {n : ℕ} (A V Vinv : Matrix (Fin n) (Fin n) F) (d : Fin n → F)
    (hV : V * Vinv = 1) (hAV : A * V = V * diagonal d) (hd : Function.Injective d)
    (x0 : Fin n → F) (hc : ∀ i, (Vinv *ᵥ x0) i ≠ 0) (T : ℕ) (hT : n ≤ T) :
    ∃ Xr : Matrix (Fin T) (Fin n) F, kryMx A x0 T * Xr = 1 := by
  have hV' : Vinv * V = 1 := mul_eq_one_comm.mp hV
  set c := Vinv *ᵥ x0 with hcdef
  -- the rectangular Vandermonde matrix and a right inverse of it
  let W : Matrix (Fin n) (Fin T) F := Matrix.of fun i t => d i ^ t.1
  have hdet : IsUnit (vandermonde d).det :=
    isUnit_iff_ne_zero.mpr (det_vandermonde_ne_zero_iff.mpr hd)
  let Wr : Matrix (Fin T) (Fin n) F := Matrix.of fun t k =>
    if h : t.1 < n then (vandermonde d)⁻¹ ⟨t.1, h⟩ k else 0
  have hW : W * Wr = 1 := by
    ext i k
    have h1 : (W * Wr) i k = ∑ t ∈ range T,
        (if h : t < n then d i ^ t * (vandermonde d)⁻¹ ⟨t, h⟩ k else 0) := by
      rw [← Fin.sum_univ_eq_sum_range
        (fun t => if h : t < n then d i ^ t * (vandermonde d)⁻¹ ⟨t, h⟩ k else 0) T]
      simp only [Matrix.mul_apply, W, Wr, Matrix.of_apply]
      apply Finset.sum_congr rfl; intro t _
      by_cases h : t.1 < n
      · rw [dif_pos h, dif_pos h]
      · rw [dif_neg h, dif_neg h, mul_zero]
    have h2 : ((vandermonde d) * (vandermonde d)⁻¹) i k = ∑ t ∈ range n,
        (if h : t < n then d i ^ t * (vandermonde d)⁻¹ ⟨t, h⟩ k else 0) := by
      rw [← Fin.sum_univ_eq_sum_range
        (fun t => if h : t < n then d i ^ t * (vandermonde d)⁻¹ ⟨t, h⟩ k else 0) n]
      simp only [Matrix.mul_apply, vandermonde_apply]
      apply Finset.sum_congr rfl; intro t _
      rw [dif_pos t.2]
    rw [h1, ← mul_nonsing_inv _ hdet, h2]
    symm
    apply Finset.sum_subset (Finset.range_subset_range.mpr hT)
    intro t _ hnot
    have : ¬ t < n := fun h => hnot (Finset.mem_range.mpr h)
    rw [dif_neg this]
  -- kryMx = V·diag(c)·W
  have hK : kryMx A x0 T = V * diagonal c * W := by
    ext k t
    simp only [kryMx, Matrix.of_apply]
    rw [stateAt_diag A V Vinv d hV hAV x0 t.1, ← hcdef, Matrix.mul_apply]
    simp only [mul_diagonal, mulVec, dotProduct, W, Matrix.of_apply]
    apply Finset.sum_congr rfl; intro i _
    ring
  have hcc : diagonal c * diagonal (fun i => (c i)⁻¹) = (1 : Matrix (Fin n) (Fin n) F) := by
    rw [diagonal_mul_diagonal]
    have : (fun i => c i * (c i)⁻¹) = fun _ => (1 : F) := by
      funext i; exact mul_inv_cancel₀ (hc i)
    rw [this, diagonal_one]
  refine ⟨Wr * diagonal (fun i => (c i)⁻¹) * Vinv, ?_⟩
  rw [hK]
  calc V * diagonal c * W * (Wr * diagonal (fun i => (c i)⁻¹) * Vinv)
      = V * (diagonal c * ((W * Wr) * diagonal (fun i => (c i)⁻¹))) * Vinv := by
        simp only [Matrix.mul_assoc]
    _ = 1 := by rw [hW, Matrix.one_mul, hcc, Matrix.mul_one, hV]

/-- row `I` of the block observability matrix applied to a vector (any field) -/
theorem obsFn_dot' {n : ℕ} (r : ℕ) (A : Matrix (Fin n) (Fin n) F) (C : ℕ → Fin n → F) (I : ℕ)
    (g : Fin n → F) :
    ∑ k, obsFn r A C I k * g k = (C (I % r)) ⬝ᵥ ((A ^ (I / r)) *ᵥ g) := by
  unfold obsFn
  simp only [dotProduct, mulVec, Finset.sum_mul, Finset.mul_sum]
  rw [Finset.sum_comm]
  apply Finset.sum_congr rfl; intro x _
  apply Finset.sum_congr rfl; intro y _
  ring

/-- **Observability from modal data**: `A` diagonalised by `V` with pairwise distinct eigenvalues,
    every eigenvector seen by at least one of the `l` output rows (`C_a·V_k ≠ 0` for some `a < l`),
    at least `n` block rows ⇒ the block observability matrix has a trivial kernel. -/
theorem obs_inj_of_modal {n l p : ℕ} (A V Vinv : Matrix (Fin n) (Fin n) F) (d : Fin n → F)
    (hV : V * Vinv = 1) (hAV : A * V = V * diagonal d) (hd : Function.Injective d)
    (C : ℕ → Fin n → F) (hobs : ∀ k : Fin n, ∃ a, a < l ∧ (C a ⬝ᵥ fun j => V j k) ≠ 0) (hp : n ≤ p)
    (v : Fin n → F) (hv : obsMx (p * l) l A C *ᵥ v = 0) : v = 0 := by
  have hV' : Vinv * V = 1 := mul_eq_one_comm.mp hV
  set z := Vinv *ᵥ v with hz
  have hvz : v = V *ᵥ z := by rw [hz, mulVec_mulVec, hV, one_mulVec]
  have hdet : (vandermonde d).det ≠ 0 := det_vandermonde_ne_zero_iff.mpr hd
  -- for every output row a < l the weights (C_a·V_k)·z_k vanish
  have hw : ∀ a, a < l → ∀ k : Fin n, (C a ⬝ᵥ fun j => V j k) * z k = 0 := by
    intro a ha
    have hl : 0 < l := by omega
    have hrow : (fun k : Fin n => (C a ⬝ᵥ fun j => V j k) * z k) ᵥ* vandermonde d = 0 := by
      funext i
      have hI : i.1 * l + a < p * l := by
        have : i.1 + 1 ≤ p := by have := i.2; omega
        calc i.1 * l + a < i.1 * l + l := by omega
          _ = (i.1 + 1) * l := by ring
          _ ≤ p * l := Nat.mul_le_mul_right _ this
      have h0 := congrFun hv ⟨i.1 * l + a, hI⟩
      simp only [mulVec, obsMx, Matrix.of_apply, Pi.zero_apply, dotProduct] at h0
      rw [obsFn_dot'] at h0
      have hdiv : (i.1 * l + a) / l = i.1 := by
        rw [Nat.add_comm, Nat.add_mul_div_right _ _ hl, Nat.div_eq_of_lt ha, Nat.zero_add]
      have hmod : (i.1 * l + a) % l = a := by
        rw [Nat.add_comm, Nat.add_mul_mod_self_right, Nat.mod_eq_of_lt ha]
      rw [hdiv, hmod, hvz, mulVec_mulVec, pow_of_diag A V Vinv d hV hAV i.1, Matrix.mul_assoc,
        Matrix.mul_assoc, hV', Matrix.mul_one, ← mulVec_mulVec] at h0
      simp only [vecMul, dotProduct, vandermonde_apply, Pi.zero_apply]
      rw [← h0]
      have hdz : (diagonal fun k => d k ^ i.1) *ᵥ z = fun k => d k ^ i.1 * z k := by
        funext k; rw [mulVec_diagonal]
      rw [hdz]
      simp only [dotProduct, mulVec, Finset.mul_sum, Finset.sum_mul]
      rw [Finset.sum_comm]
      apply Finset.sum_congr rfl; intro x _
      apply Finset.sum_congr rfl; intro y _
      ring
    have := eq_zero_of_vecMul_eq_zero hdet hrow
    intro k
    exact congrFun this k
  have hz0 : z = 0 := by
    funext k
    obtain ⟨a, ha, hne⟩ := hobs k
    exact (mul_eq_zero.mp (hw a ha k)).resolve_left hne
  rw [hvz, hz0, mulVec_zero]

end general

section descent
open Cpx

theorem re_sum {ι : Type} (s : Finset ι) (f : ι → Cpx ℚ) :
    (∑ j ∈ s, f j).re = ∑ j ∈ s, (f j).re := by
  classical
  induction s using Finset.induction_on with
  | empty => rfl
  | insert a s ha ih => rw [Finset.sum_insert ha, Finset.sum_insert ha, Cpx.add_re, ih]

/-- a real matrix with a right inverse over `Cpx ℚ` has one over `ℚ` (its real part) -/
theorem right_inv_re {n T : ℕ} (X : Matrix (Fin n) (Fin T) ℚ) (Z : Matrix (Fin T) (Fin n) (Cpx ℚ))
    (h : X.map ofR * Z = 1) : X * Z.map Cpx.re = 1 := by
  ext i k
  have := congrArg Cpx.re (congrFun (congrFun h i) k)
  simp only [Matrix.mul_apply, Matrix.map_apply] at this ⊢
  rw [re_sum] at this
  have h2 : ∀ j, (ofR (X i j) * Z j k).re = X i j * (Z j k).re := by
    intro j
    rw [Cpx.mul_re, ofR_re, ofR_im, zero_mul, sub_zero]
  simp only [h2] at this
  rw [this, Matrix.one_apply, Matrix.one_apply]
  split <;> rfl

end descent
end PV.Excite
