import PyomaVerif.Model.Unc
import PyomaVerif.Model.Realise
import PyomaVerif.Lemmas.Sum
import PyomaVerif.Lemmas.Unc
import PyomaVerif.Lemmas.UncJac
import Mathlib.Algebra.BigOperators.Fin
import Mathlib.Data.Matrix.Basic
import Mathlib.Tactic.Ring
/-!
Helpers for `Props/C17Vec.lean`: index-level vec / Kronecker / selection identities for the model's
`kron`, `vecC`, `pnn`, `s4n`, `selVI`, the entries of `q1234`, and the first-order (dual-number)
objects the recorded factors are compared with.
-/
namespace PV.Unc
open Mat Finset

/-! ## A. vec / Kronecker identities of the model's definitions (commutative semiring) -/

section Kron
variable {K : Type} [CommSemiring K]

/-- **`vec(A·X·B) = (Bᵀ ⊗ A)·vec(X)`** for the model's `kron` (numpy layout) and the column
    stacking `vecC`, all sizes. -/
theorem kron_mulVec_vecC (A X B : Mat K) (hXr : X.r = A.c) (hXc : X.c = B.r) (m : Nat) :
    mulVec (kron (transpose B) A) (vecC X) m = vecC (mul (mul A X) B) m := by
  simp only [mulVec, kron, transpose, vecC, mul, sumTo_eq, hXr, hXc]
  rw [sum_range_mul]
  apply Finset.sum_congr rfl
  intro j _
  rw [Finset.sum_mul]
  apply Finset.sum_congr rfl
  intro i hi
  rw [blk_div j (mem_range.mp hi), blk_mod j (mem_range.mp hi)]
  ring

/-- entries of the permutation matrix of eq. 15 as the loop of `SSI_poles` builds it. -/
theorem pnn_e (n i j : Nat) :
    (pnn n : Mat K).e i j = (if i / n = j % n then 1 else 0) * (if i % n = j / n then 1 else 0) := by
  simp only [pnn, hstackN, kron, eye, ek, Nat.div_one]

/-- **`Pnn` is the commutation matrix**: `(Pnn·X)[i·n + a, :] = X[a·n + i, :]`. -/
theorem pnn_mul_e (n : Nat) (X : Mat K) (i a k : Nat) (hi : i < n) (ha : a < n) :
    (mul (pnn n) X).e (i * n + a) k = X.e (a * n + i) k := by
  have hc : (pnn n : Mat K).c = n * n := rfl
  simp only [mul, sumTo_eq, hc, pnn_e, blk_div i ha, blk_mod i ha]
  rw [sum_range_mul, Finset.sum_eq_single a]
  · rw [Finset.sum_eq_single i]
    · rw [blk_div a hi, blk_mod a hi]; simp
    · intro c hc hci
      rw [blk_mod a (mem_range.mp hc)]; simp [Ne.symm hci]
    · intro h; exact absurd (mem_range.mpr hi) h
  · intro b _ hba
    apply Finset.sum_eq_zero
    intro c hc
    rw [blk_div b (mem_range.mp hc)]; simp [Ne.symm hba]
  · intro h; exact absurd (mem_range.mpr ha) h

/-- **`Pnn·vec(X) = vec(Xᵀ)`** for every `n × n` matrix and the column stacking `vecC`. -/
theorem pnn_mulVec_vecC (X : Mat K) (n : Nat) (hr : X.r = n) (hc : X.c = n) (m : Nat)
    (hm : m < n * n) : mulVec (pnn n) (vecC X) m = vecC (transpose X) m := by
  have hn : 0 < n := by
    rcases Nat.eq_zero_or_pos n with h | h
    · subst h; simp at hm
    · exact h
  have hdiv : m / n < n := Nat.div_lt_of_lt_mul hm
  have hmod : m % n < n := Nat.mod_lt _ hn
  have hm' : m = (m / n) * n + m % n := by rw [Nat.mul_comm]; exact (Nat.div_add_mod m n).symm
  have h := pnn_mul_e n (⟨n * n, 1, fun t _ => vecC X t⟩ : Mat K) (m / n) (m % n) 0 hdiv hmod
  rw [← hm'] at h
  simp only [mul] at h
  simp only [mulVec]
  rw [h]
  simp only [vecC, transpose, hr, hc, blk_div _ hdiv, blk_mod _ hdiv]

/-- entries of `hstack([eye(n), zeros((n, N − n))])`. -/
theorem selLead_e (n N i j : Nat) :
    (selLead n N : Mat K).e i j = if j < n then (if i = j then 1 else 0) else 0 := rfl

/-- **`S4_n` selects the leading `n × n` block of the unvectorised `N × N` matrix**:
    `(S4_n·Q)[i·n + a, :] = Q[i·N + a, :]` for `i, a < n ≤ N`. -/
theorem s4n_mul_e (n N : Nat) (hn : n ≤ N) (Q : Mat K) (i a k : Nat) (hi : i < n) (ha : a < n) :
    (mul (s4n n N) Q).e (i * n + a) k = Q.e (i * N + a) k := by
  have hc : (s4n n N : Mat K).c = N * N := by
    show (n + (N - n)) * (n + (N - n)) = N * N
    rw [Nat.add_sub_cancel' hn]
  have hsr : (selLead n N : Mat K).r = n := rfl
  have hsc : (selLead n N : Mat K).c = N := by show n + (N - n) = N; exact Nat.add_sub_cancel' hn
  simp only [mul, sumTo_eq, hc]
  simp only [s4n, kron, hsr, hsc, selLead_e, blk_div i ha, blk_mod i ha]
  rw [sum_range_mul, Finset.sum_eq_single i]
  · rw [Finset.sum_eq_single a]
    · have hiN : i < N := lt_of_lt_of_le hi hn
      have haN : a < N := lt_of_lt_of_le ha hn
      rw [blk_div i haN, blk_mod i haN]; simp [hi, ha]
    · intro c hc hca
      rw [blk_mod i (mem_range.mp hc)]
      by_cases h : c < n <;> simp [h, Ne.symm hca]
    · intro h; exact absurd (mem_range.mpr (lt_of_lt_of_le ha hn)) h
  · intro b _ hbi
    apply Finset.sum_eq_zero
    intro c hc
    rw [blk_div b (mem_range.mp hc)]
    by_cases h : b < n <;> simp [h, Ne.symm hbi]
  · intro h; exact absurd (mem_range.mpr (lt_of_lt_of_le hi hn)) h

/-- **`(φᵀ ⊗ I_n)·Y`, column by column**: `(kron(φ, eye(n))·Y)[i, :] = Σ_j φ_j·Y[j·n + i, :]`, i.e.
    `unvec(Y[:, k])·φ`. -/
theorem selVI_mul_e (c n : Nat) (v : Nat → K) (Y : Mat K) (i k : Nat) (hi : i < n) :
    (mul (selVI c n v) Y).e i k = ∑ j ∈ range c, v j * Y.e (j * n + i) k := by
  have hc : (selVI c n v).c = c * n := rfl
  simp only [mul, sumTo_eq, hc]
  simp only [selVI, kron, eye, rowVec, Nat.mod_eq_of_lt hi]
  rw [sum_range_mul]
  apply Finset.sum_congr rfl
  intro j _
  rw [Finset.sum_eq_single i]
  · rw [blk_div j hi, blk_mod j hi]; simp
  · intro b hb hbi
    rw [blk_mod j (mem_range.mp hb)]; simp [Ne.symm hbi]
  · intro h; exact absurd (mem_range.mpr hi) h

end Kron

/-! ## B. Selection matrices of `SSI_fast` and the entries of `Q1..Q3` -/

theorem ofFn_getD {α : Type} (n : Nat) (f : Nat → α) (d : α) (b : Nat) (hb : b < n) :
    (Array.ofFn (n := n) fun ii => f ii.1).getD b d = f b := by
  simp [Array.getD, hb]

section Sel
variable {K : Type} [CommSemiring K]

theorem sel1_mul_e (m l : Nat) (X : Mat K) (i k : Nat) (hi : i < m) :
    (mul (hstack2 (eye m) (zeros m l)) X).e i k = X.e i k := by
  simp only [mul, sumTo_eq, hstack2, eye, zeros]
  rw [Finset.sum_eq_single i]
  · simp [hi]
  · intro t _ hti
    by_cases h : t < m <;> simp [h, Ne.symm hti]
  · intro h; exact absurd (mem_range.mpr (by omega)) h

theorem sel2_mul_e (m l : Nat) (X : Mat K) (i k : Nat) (hi : i < m) :
    (mul (hstack2 (zeros m l) (eye m)) X).e i k = X.e (l + i) k := by
  simp only [mul, sumTo_eq, hstack2, eye, zeros]
  rw [Finset.sum_eq_single (l + i)]
  · simp
  · intro t _ hti
    by_cases h : t < l
    · simp [h]
    · have : i ≠ t - l := by omega
      simp [h, this]
  · intro h; exact absurd (mem_range.mpr (by omega)) h

theorem mul_assoc_e (A B C : Mat K) (i k : Nat) :
    (mul (mul A B) C).e i k = (mul A (mul B C)).e i k := by
  simp only [mul, sumTo_eq]
  simp only [Finset.sum_mul, Finset.mul_sum]
  rw [Finset.sum_comm]
  refine Finset.sum_congr rfl fun s _ => Finset.sum_congr rfl fun t _ => by ring

theorem sumTo_congr' {M : Type} [AddCommMonoid M] {n : Nat} {f g : Nat → M}
    (h : ∀ t, t < n → f t = g t) : sumTo n f = sumTo n g := by
  rw [sumTo_eq, sumTo_eq]
  exact Finset.sum_congr rfl fun t ht => h t (Finset.mem_range.mp ht)

theorem opT_sel_mul_e [Inhabited K] (Op S J : Mat K) (a k : Nat) (ha : a < Op.c) :
    (mul (mul (transpose Op) S).force J).e a k
      = ∑ s ∈ range Op.r, Op.e s a * (mul S J).e s k := by
  have h : (mul (mul (transpose Op) S).force J).e a k = (mul (mul (transpose Op) S) J).e a k := by
    simp only [mul]
    apply sumTo_congr'
    intro t ht
    rw [force_e _ (by exact ha) (by exact ht)]
  rw [h, mul_assoc_e]
  simp only [mul, transpose, sumTo_eq]
end Sel

section QEntries
variable {K : Type} [Field K] [Inhabited K]

theorem q1234_e (H T Op Om : Mat K) (l r p ordmax : Nat) (U V : Mat K) (sig rs : Nat → K)
    (Ki : Nat → Mat K) (hOr : Op.r = p * l) (hOc : Op.c = ordmax) (hMr : Om.r = p * l)
    (hMc : Om.c = ordmax) (a b k : Nat) (ha : a < ordmax) (hb : b < ordmax) (hk : k < T.c) :
    let J := johT H T ((p + 1) * l) ((p + 1) * r) (col U b) (col V b) (sig b) (rs b) (Ki b)
    (q1234 H T Op Om l r p ordmax U V sig rs Ki).1.e (b * ordmax + a) k
        = ∑ s ∈ range (p * l), Op.e s a * J.e s k ∧
    (q1234 H T Op Om l r p ordmax U V sig rs Ki).2.1.e (b * ordmax + a) k
        = ∑ s ∈ range (p * l), Om.e s a * J.e s k ∧
    (q1234 H T Op Om l r p ordmax U V sig rs Ki).2.2.1.e (b * ordmax + a) k
        = ∑ s ∈ range (p * l), Op.e s a * J.e (l + s) k := by
  intro J
  have hrow : b * ordmax + a < ordmax * ordmax := by
    calc b * ordmax + a < b * ordmax + ordmax := by omega
      _ = (b + 1) * ordmax := by ring
      _ ≤ ordmax * ordmax := Nat.mul_le_mul_right _ hb
  have hJ : (Array.ofFn (n := ordmax) fun ii => johT H T ((p + 1) * l) ((p + 1) * r) (col U ii.1)
      (col V ii.1) (sig ii.1) (rs ii.1) (Ki ii.1)).getD b (zeros 0 0) = J :=
    ofFn_getD ordmax (fun ii => johT H T ((p + 1) * l) ((p + 1) * r) (col U ii) (col V ii) (sig ii)
      (rs ii) (Ki ii)) _ b hb
  refine ⟨?_, ?_, ?_⟩
  · simp only [q1234]
    rw [force_e _ (by exact hrow) (by exact hk)]
    simp only [vstackN, blk_div b ha, blk_mod b ha, hJ]
    rw [opT_sel_mul_e _ _ _ _ _ (by rw [hOc]; exact ha), hOr]
    refine Finset.sum_congr rfl fun s hs => ?_
    rw [sel1_mul_e _ _ _ _ _ (mem_range.mp hs)]
  · simp only [q1234]
    rw [force_e _ (by exact hrow) (by exact hk)]
    simp only [vstackN, blk_div b ha, blk_mod b ha, hJ]
    rw [opT_sel_mul_e _ _ _ _ _ (by rw [hMc]; exact ha), hMr]
    refine Finset.sum_congr rfl fun s hs => ?_
    rw [sel1_mul_e _ _ _ _ _ (mem_range.mp hs)]
  · simp only [q1234]
    rw [force_e _ (by exact hrow) (by exact hk)]
    simp only [vstackN, blk_div b ha, blk_mod b ha, hJ]
    rw [opT_sel_mul_e _ _ _ _ _ (by rw [hOc]; exact ha), hOr]
    refine Finset.sum_congr rfl fun s hs => ?_
    rw [sel2_mul_e _ _ _ _ _ (mem_range.mp hs)]
end QEntries

/-! ## C. The uncertainty loop of `SSI_poles`, entrywise -/

section PoleEntries
set_option linter.unusedSectionVars false
variable {R : Type} [CommSemiring R] [Inhabited R]

theorem idx_lt {n i a : Nat} (hi : i < n) (ha : a < n) : i * n + a < n * n := by
  calc i * n + a < i * n + n := by omega
    _ = (i + 1) * n := by ring
    _ ≤ n * n := Nat.mul_le_mul_right _ hi

/-- `Q_n = S4_n·Q` (eq. 49): row `i·n + a` is row `i·ordmax + a` of `Q`. -/
theorem qn_e (n N : Nat) (hn : n ≤ N) (Q : Mat R) (i a k : Nat) (hi : i < n) (ha : a < n)
    (hk : k < Q.c) : (qn n N Q).e (i * n + a) k = Q.e (i * N + a) k := by
  unfold qn
  rw [force_e _ (by exact idx_lt hi ha) (by exact hk)]
  exact s4n_mul_e n N hn Q i a k hi ha

theorem add_eye_mul_e (P X : Mat R) (m i k : Nat) (hc : P.c = m) (hi : i < m) :
    (mul (add P (eye m)) X).e i k = (mul P X).e i k + X.e i k := by
  simp only [mul, add, eye, sumTo_eq, hc]
  simp only [add_mul, Finset.sum_add_distrib]
  congr 1
  rw [Finset.sum_eq_single i]
  · simp
  · intro t _ hti; simp [Ne.symm hti]
  · intro h; exact absurd (mem_range.mpr hi) h

/-- `PnQ1 = (Pnn + I)·Q1_n`: row `j·n + i` is `Q1[i·N + j, :] + Q1[j·N + i, :]`. -/
theorem pnQ1_e (n N : Nat) (hn : n ≤ N) (Q1 : Mat R) (i j k : Nat) (hi : i < n) (hj : j < n)
    (hk : k < Q1.c) :
    (pnQ1 n N Q1).e (j * n + i) k = Q1.e (i * N + j) k + Q1.e (j * N + i) k := by
  unfold pnQ1
  rw [force_e _ (by exact idx_lt hj hi) (by exact hk)]
  rw [add_eye_mul_e _ _ (n * n) _ _ rfl (idx_lt hj hi), pnn_mul_e n _ j i k hj hi,
    qn_e n N hn Q1 i j k hi hj hk, qn_e n N hn Q1 j i k hj hi hk]

/-- `PnQ2_Q3 = Pnn·Q2_n + Q3_n`: row `j·n + i` is `Q2[i·N + j, :] + Q3[j·N + i, :]`. -/
theorem pnQ23_e (n N : Nat) (hn : n ≤ N) (Q2 Q3 : Mat R) (i j k : Nat) (hi : i < n) (hj : j < n)
    (hk2 : k < Q2.c) (hk3 : k < Q3.c) :
    (pnQ23 n N Q2 Q3).e (j * n + i) k = Q2.e (i * N + j) k + Q3.e (j * N + i) k := by
  unfold pnQ23
  rw [force_e _ (by exact idx_lt hj hi) (by exact hk2)]
  simp only [add]
  rw [pnn_mul_e n _ j i k hj hi, qn_e n N hn Q2 i j k hi hj hk2, qn_e n N hn Q3 j i k hj hi hk3]

end PoleEntries

section PoleK
set_option linter.unusedSectionVars false
variable {R K : Type} [CommSemiring R] [Inhabited R] [Field K] [Inhabited K]

/-- Eq. 44, entrywise. -/
theorem qiOf_e (ι : R → K) (n : Nat) (phi : Nat → K) (lam : K) (P1 P23 : Mat R) (i k : Nat)
    (hi : i < n) (hk : k < P1.c) :
    (qiOf ι n phi lam P1 P23).e i k
      = ∑ j ∈ range n, phi j * (-lam * ι (P1.e (j * n + i) k) + ι (P23.e (j * n + i) k)) := by
  unfold qiOf
  rw [force_e _ (by show i < 1 * n; omega) (by exact hk)]
  rw [selVI_mul_e n n phi _ i k hi]
  rfl

/-- Eq. 43, entrywise. -/
theorem jaohT_e (ι : R → K) (n : Nat) (chi phi : Nat → K) (OO : Mat R) (Qi : Mat K) (k : Nat)
    (hOc : OO.c = n) :
    (jaohT ι n chi phi OO Qi).e 0 k
      = 1 / (∑ m ∈ range n, chi m * phi m)
          * ∑ a ∈ range n, (∑ m ∈ range n, chi m * ι (OO.e m a)) * Qi.e a k := by
  unfold jaohT
  simp only [scale, sumTo_eq]
  congr 1
  simp only [mul]
  rw [sumTo_eq]
  show ∑ a ∈ range OO.c, _ = _
  rw [hOc]
  refine Finset.sum_congr rfl fun a ha => ?_
  rw [force_e _ (by exact Nat.one_pos) (by show a < OO.c; rw [hOc]; exact mem_range.mp ha)]
  simp only [rowVec, mapM, sumTo_eq]

end PoleK

/-! ## D. First-order (dual-number) objects the recorded factors are compared with -/

section DualObs
set_option linter.unusedSectionVars false
open Matrix TrivSqZeroExt
variable {R K : Type} [Field R] [Field K]

/-- entrywise image of a real dual-number matrix in the complex dual numbers -/
def dlift (ι : R →+* K) {m n : Type} (M : Matrix m n (DualNumber R)) : Matrix m n (DualNumber K) :=
  dmat ((mfst M).map ι) ((msnd M).map ι)

theorem mfst_dlift (ι : R →+* K) {m n : Type} [Fintype m] [Fintype n] (M : Matrix m n (DualNumber R)) :
    mfst (dlift ι M) = (mfst M).map ι := by unfold dlift; exact mfst_dmat _ _
theorem msnd_dlift (ι : R →+* K) {m n : Type} [Fintype m] [Fintype n] (M : Matrix m n (DualNumber R)) :
    msnd (dlift ι M) = (msnd M).map ι := by unfold dlift; exact msnd_dmat _ _

/-- rows `off .. off + m` of the first-order observability matrix whose column `b` is `s̃_b·ũ_b`. -/
def obsD (off m n : Nat) (s : Nat → DualNumber R) (ud : Nat → Nat → DualNumber R) :
    Matrix (Fin m) (Fin n) (DualNumber R) := fun t b => s b.1 * ud b.1 (off + t.1)

/-- column `k` of an `n² × nb` model matrix, unstacked (column stacking) and promoted. -/
def unvecK (ι : R → K) (n : Nat) (P : Mat R) (k : Nat) : Matrix (Fin n) (Fin n) K :=
  fun i j => ι (P.e (j.1 * n + i.1) k)

variable [Inhabited R] [Inhabited K]

/-- Eqs 43–44 of the model in matrix form: `JaohT[k] = χ·OO·(−λ·unvec(PnQ1[:,k]) + unvec(PnQ2_Q3[:,k]))·φ / (χ·φ)`. -/
theorem jaohT_contraction (ι : R → K) (n : Nat) (chi phi : Nat → K) (lam : K) (OO P1 P23 : Mat R)
    (k : Nat) (hOc : OO.c = n) (hk : k < P1.c) :
    (jaohT ι n chi phi OO (qiOf ι n phi lam P1 P23)).e 0 k
      = ((fun m : Fin n => chi m.1) ⬝ᵥ ((toMx n n OO.e).map ι *ᵥ
          ((-lam • unvecK ι n P1 k + unvecK ι n P23 k) *ᵥ fun j : Fin n => phi j.1)))
        / ((fun m : Fin n => chi m.1) ⬝ᵥ fun j : Fin n => phi j.1) := by
  rw [jaohT_e ι n chi phi OO _ k hOc, Matrix.dotProduct_mulVec, one_div, mul_comm, div_eq_mul_inv]
  congr 1
  · simp only [dotProduct, Matrix.vecMul, Matrix.mulVec, Matrix.map_apply, toMx]
    rw [Finset.sum_range]
    refine Finset.sum_congr rfl fun a _ => ?_
    rw [qiOf_e ι n phi lam P1 P23 a.1 k a.2 hk, Finset.sum_range, Finset.sum_range]
    congr 1
    refine Finset.sum_congr rfl fun j _ => ?_
    simp only [unvecK, Matrix.add_apply, Matrix.smul_apply, smul_eq_mul]
    ring
  · simp only [dotProduct]
    rw [Finset.sum_range]

end DualObs

section Contract
open Matrix TrivSqZeroExt
variable {R : Type} [Field R] [Inhabited R]

/-- **Recorded-factor contract for one singular index, together with an arbitrary first-order
    singular triple extending it.**  `u`, `v`, `sig` are column `b` of `Uom`, `Vom`, `Som[b]` as `svd`
    returned them, `rs = 1/np.sqrt(Som[b])`, `Ki` the `np.linalg.inv` result of eq. 28 — assumed
    exact (`ki_inv`, `rs_sq`).  `(ũ, σ̃, ṽ)` (`ud`, `sd`, `vd`, indexed by `ℕ`, read on `Fin`) is ANY
    singular triple of `H + ε·ΔH` over the dual numbers with unit vectors whose value part is the
    recorded triple; `s̃` is any square root of `σ̃` with value `1/rs`. -/
structure SvFirstOrder (H dH Ki : Mat R) (u v : Nat → R) (sig rs : R)
    (ud vd : Nat → DualNumber R) (sd s : DualNumber R) : Prop where
  rs_sq : rs * rs * sig = 1
  ki_cols : Ki.c = dH.c
  ki_inv : toMx dH.c dH.c Ki.e * toMx dH.c dH.c (kiArg H dH.c v sig).e = 1
  u_fst : ∀ i, i < dH.r → (ud i).fst = u i
  v_fst : ∀ j, j < dH.c → (vd j).fst = v j
  sd_fst : sd.fst = sig
  Hv : dmat (toMx dH.r dH.c H.e) (toMx dH.r dH.c dH.e) *ᵥ (fun j : Fin dH.c => vd j.1)
        = sd • fun i : Fin dH.r => ud i.1
  uH : (fun i : Fin dH.r => ud i.1) ᵥ* dmat (toMx dH.r dH.c H.e) (toMx dH.r dH.c dH.e)
        = sd • fun j : Fin dH.c => vd j.1
  uu : (fun i : Fin dH.r => ud i.1) ⬝ᵥ (fun i : Fin dH.r => ud i.1) = 1
  vv : (fun j : Fin dH.c => vd j.1) ⬝ᵥ (fun j : Fin dH.c => vd j.1) = 1
  s_sq : s * s = sd
  s_rs : s.fst * rs = 1

/-- value-level (no dual numbers) recorded-factor contract for singular index `b`: exact singular
    triple with unit vectors, `rs = 1/√σ`, `sq = √σ`, `Ki` the exact inverse of eq. 28. -/
structure SvExact (H Ki : Mat R) (u v : Nat → R) (sig rs sq : R) : Prop where
  Hv : toMx H.r H.c H.e *ᵥ (fun j : Fin H.c => v j.1) = sig • fun i : Fin H.r => u i.1
  uH : (fun i : Fin H.r => u i.1) ᵥ* toMx H.r H.c H.e = sig • fun j : Fin H.c => v j.1
  uu : (fun i : Fin H.r => u i.1) ⬝ᵥ (fun i : Fin H.r => u i.1) = 1
  vv : (fun j : Fin H.c => v j.1) ⬝ᵥ (fun j : Fin H.c => v j.1) = 1
  rs_sq : rs * rs * sig = 1
  sq_rs : sq * rs = 1
  ki_cols : Ki.c = H.c
  ki_inv : toMx H.c H.c Ki.e * toMx H.c H.c (kiArg H H.c v sig).e = 1

theorem SvExact.scaling {H Ki : Mat R} {u v : Nat → R} {sig rs sq : R} (h2 : (2 : R) ≠ 0)
    (h : SvExact H Ki u v sig rs sq) :
    SvFirstOrder H H Ki u v sig rs (fun i => inl (u i)) (fun j => inl (v j)) (inl sig + inr sig)
      (inl sq + inr (sq / 2)) := by
  have hsq : sq * sq = sig := by
    have h1 : sq * sq * (rs * rs * sig) = sig := by
      have : sq * sq * (rs * rs * sig) = (sq * rs) * (sq * rs) * sig := by ring
      rw [this, h.sq_rs]; ring
    rwa [h.rs_sq, mul_one] at h1
  refine ⟨h.rs_sq, h.ki_cols, h.ki_inv, fun i _ => by simp, fun j _ => by simp, by simp, ?_, ?_, ?_,
    ?_, ?_, by simpa using h.sq_rs⟩
  · apply dual_vec_ext
    · rw [vfst_mulVec, vfst_smul, mfst_dmat]
      rw [show (inl sig + inr sig : DualNumber R).fst = sig by simp]
      exact h.Hv
    · rw [vsnd_mulVec, vsnd_smul, mfst_dmat, msnd_dmat]
      have e1 : vsnd (fun j : Fin H.c => (inl (v j.1) : DualNumber R)) = 0 := by ext j; simp [vsnd]
      have e2 : vsnd (fun i : Fin H.r => (inl (u i.1) : DualNumber R)) = 0 := by ext i; simp [vsnd]
      have e3 : vfst (fun j : Fin H.c => (inl (v j.1) : DualNumber R)) = fun j => v j.1 := by
        ext j; simp [vfst]
      have e4 : vfst (fun i : Fin H.r => (inl (u i.1) : DualNumber R)) = fun i => u i.1 := by
        ext i; simp [vfst]
      rw [e1, e2, e3, e4, Matrix.mulVec_zero, zero_add, smul_zero, zero_add, h.Hv]
      simp
  · apply dual_vec_ext
    · rw [vfst_vecMul, vfst_smul, mfst_dmat]
      rw [show (inl sig + inr sig : DualNumber R).fst = sig by simp]
      exact h.uH
    · rw [vsnd_vecMul, vsnd_smul, mfst_dmat, msnd_dmat]
      have e1 : vsnd (fun j : Fin H.c => (inl (v j.1) : DualNumber R)) = 0 := by ext j; simp [vsnd]
      have e2 : vsnd (fun i : Fin H.r => (inl (u i.1) : DualNumber R)) = 0 := by ext i; simp [vsnd]
      have e3 : vfst (fun j : Fin H.c => (inl (v j.1) : DualNumber R)) = fun j => v j.1 := by
        ext j; simp [vfst]
      have e4 : vfst (fun i : Fin H.r => (inl (u i.1) : DualNumber R)) = fun i => u i.1 := by
        ext i; simp [vfst]
      rw [e1, e2, e3, e4, Matrix.zero_vecMul, add_zero, smul_zero, zero_add, h.uH]
      simp
  · apply TrivSqZeroExt.ext
    · rw [fst_dotProduct, fst_one]; exact h.uu
    · rw [snd_dotProduct, snd_one]
      have e2 : vsnd (fun i : Fin H.r => (inl (u i.1) : DualNumber R)) = 0 := by ext i; simp [vsnd]
      rw [e2]; simp
  · apply TrivSqZeroExt.ext
    · rw [fst_dotProduct, fst_one]; exact h.vv
    · rw [snd_dotProduct, snd_one]
      have e1 : vsnd (fun j : Fin H.c => (inl (v j.1) : DualNumber R)) = 0 := by ext j; simp [vsnd]
      rw [e1]; simp
  · apply TrivSqZeroExt.ext
    · simpa using hsq
    · simp
      field_simp
      rw [← hsq]; ring

end Contract

/-! ## E. One QR for every order, over a commutative ring (so also over the dual numbers) -/

section QR
open Matrix
variable {S : Type} [CommRing S]

theorem toMx_mul' (m k n : Nat) (f g : Nat → Nat → S) :
    toMx m n (fun i j => sumTo k (fun t => f i t * g t j)) = toMx m k f * toMx k n g := by
  ext i j
  simp only [toMx, Matrix.mul_apply, sumTo_eq]
  rw [Finset.sum_range]

theorem toMx_mulT' (m k n : Nat) (f g : Nat → Nat → S) :
    toMx m n (fun i j => sumTo k (fun t => f t i * g t j)) = (toMx k m f)ᵀ * toMx k n g := by
  ext i j
  simp only [toMx, Matrix.mul_apply, Matrix.transpose_apply, sumTo_eq]
  rw [Finset.sum_range]

theorem sum_fin_trunc' {N n : ℕ} (hn : n ≤ N) (f : ℕ → S) (h0 : ∀ t, n ≤ t → t < N → f t = 0) :
    ∑ t : Fin N, f t.1 = ∑ t : Fin n, f t.1 := by
  rw [← Finset.sum_range (fun t => f t), ← Finset.sum_range (fun t => f t)]
  rw [← Finset.sum_range_add_sum_Ico _ hn]
  have : ∑ t ∈ Finset.Ico n N, f t = 0 := by
    apply Finset.sum_eq_zero
    intro t ht
    rw [Finset.mem_Ico] at ht
    exact h0 t ht.1 ht.2
  rw [this, add_zero]

theorem qr_leading_block' {M N n : ℕ} (hn : n ≤ N) (op q r : ℕ → ℕ → S)
    (hQR : toMx M N op = toMx M N q * toMx N N r)
    (hTri : ∀ i j, j < i → r i j = 0) :
    toMx M n op = toMx M n q * toMx n n r := by
  ext i j
  have := congrFun (congrFun hQR i) ⟨j.1, lt_of_lt_of_le j.2 hn⟩
  simp only [toMx, Matrix.mul_apply] at this ⊢
  rw [this]
  exact sum_fin_trunc' hn (fun t => q i.1 t * r t j.1) (fun t ht _ => by
    rw [hTri t j.1 (lt_of_lt_of_le j.2 ht), mul_zero])

theorem orth_leading' {M N n : ℕ} (hn : n ≤ N) (q : ℕ → ℕ → S)
    (hO : (toMx M N q)ᵀ * toMx M N q = 1) : (toMx M n q)ᵀ * toMx M n q = 1 := by
  ext a b
  have := congrFun (congrFun hO ⟨a.1, lt_of_lt_of_le a.2 hn⟩) ⟨b.1, lt_of_lt_of_le b.2 hn⟩
  simp only [toMx, Matrix.mul_apply, Matrix.transpose_apply, Matrix.one_apply] at this ⊢
  rw [this]
  simp [Fin.ext_iff]

/-- **The QR-based state matrix of `SSI_fast` solves the normal equations**, over any
    commutative ring: with `O↑ = Q·R` (one QR of all `N` columns), `QᵀQ = 1`, `R` upper
    triangular and `Rinv` a left inverse of `R[:n, :n]`, `W = Rinv·Rinvᵀ` inverts
    `O↑ₙᵀ·O↑ₙ` and `inv(R[:n,:n])·(Qᵀ·O↓)[:n,:n] = W·O↑ₙᵀ·O↓ₙ`. -/
theorem fastA_normal {M N n : ℕ} (hn : n ≤ N) (Op Om Q Rm Rinv : Mat S)
    (hRc : Rinv.c = n) (hQr : Q.r = M)
    (hQR : toMx M N Op.e = toMx M N Q.e * toMx N N Rm.e)
    (hOrth : (toMx M N Q.e)ᵀ * toMx M N Q.e = 1)
    (hTri : ∀ i j, j < i → Rm.e i j = 0)
    (hRinv : toMx n n Rinv.e * toMx n n Rm.e = 1) :
    let W := toMx n n Rinv.e * (toMx n n Rinv.e)ᵀ
    W * ((toMx M n Op.e)ᵀ * toMx M n Op.e) = 1 ∧
    toMx n n (fastA Rinv Q Om n).e = W * ((toMx M n Op.e)ᵀ * toMx M n Om.e) := by
  intro W
  have hqr := qr_leading_block' hn Op.e Q.e Rm.e hQR hTri
  have ho := orth_leading' hn Q.e hOrth
  have hR' : toMx n n Rm.e * toMx n n Rinv.e = 1 := mul_eq_one_comm.mp hRinv
  have hRT : (toMx n n Rinv.e)ᵀ * (toMx n n Rm.e)ᵀ = 1 := by
    rw [← Matrix.transpose_mul, hR', Matrix.transpose_one]
  have hfa : toMx n n (fastA Rinv Q Om n).e
      = toMx n n Rinv.e * ((toMx M n Q.e)ᵀ * toMx M n Om.e) := by
    simp only [fastA, Mat.mul, leadBlock, Mat.transpose, hRc, hQr]
    rw [toMx_mul']
    congr 1
    exact toMx_mulT' n M n Q.e Om.e
  constructor
  · rw [hqr, Matrix.transpose_mul]
    calc W * ((toMx n n Rm.e)ᵀ * (toMx M n Q.e)ᵀ * (toMx M n Q.e * toMx n n Rm.e))
        = toMx n n Rinv.e * ((toMx n n Rinv.e)ᵀ * (toMx n n Rm.e)ᵀ)
            * ((toMx M n Q.e)ᵀ * toMx M n Q.e) * toMx n n Rm.e := by
          simp only [W, Matrix.mul_assoc]
      _ = 1 := by rw [hRT, ho, Matrix.mul_one, Matrix.mul_one, hRinv]
  · rw [hfa, hqr, Matrix.transpose_mul]
    calc toMx n n Rinv.e * ((toMx M n Q.e)ᵀ * toMx M n Om.e)
        = toMx n n Rinv.e * ((toMx n n Rinv.e)ᵀ * (toMx n n Rm.e)ᵀ)
            * ((toMx M n Q.e)ᵀ * toMx M n Om.e) := by rw [hRT, Matrix.mul_one]
      _ = _ := by simp only [W, Matrix.mul_assoc]

end QR

/-! ## F. Dual-number matrices: extensionality, existence of the first-order inverse -/

section DualInv
set_option linter.unusedSectionVars false
open Matrix TrivSqZeroExt
variable {S : Type} [CommRing S] {m n : Type} [Fintype m] [Fintype n]

theorem dual_mat_ext {A B : Matrix m n (DualNumber S)} (h0 : mfst A = mfst B)
    (h1 : msnd A = msnd B) : A = B := by
  ext i j
  · exact congrFun (congrFun h0 i) j
  · exact congrFun (congrFun h1 i) j

/-- a left inverse `W₀` of the value part extends to the first-order left inverse
    `W₀ − ε·W₀·M₁·W₀`. -/
theorem dual_left_inverse [DecidableEq n] (M : Matrix n n (DualNumber S)) (W0 : Matrix n n S)
    (h : W0 * mfst M = 1) : dmat W0 (-(W0 * msnd M * W0)) * M = 1 := by
  apply dual_mat_ext
  · rw [mfst_mul, mfst_dmat, h, mfst_one]
  · rw [msnd_mul, mfst_dmat, msnd_dmat, msnd_one, Matrix.neg_mul, Matrix.mul_assoc _ W0, h,
      Matrix.mul_one, add_neg_cancel]

end DualInv

/-! ## G. Variance read-out of the model -/

section ReadOut
variable {R K : Type} [CommSemiring R] [Inhabited R]

/-- `cov_fx[0, 0]` of the model is the sum over the columns of `JaohT` of the squared first row of
    `Jfx_l` applied to `(Re, Im)` of the entry. -/
theorem var00_ufxOf (re im : K → R) (J : Mat R) (Ja : Mat K) (hJc : J.c = 2) (hJr : 0 < J.r)
    (hr : Ja.r = 1) :
    var00 (ufxOf re im J Ja)
      = ∑ k ∈ range Ja.c, (J.e 0 0 * re (Ja.e 0 k) + J.e 0 1 * im (Ja.e 0 k))
          * (J.e 0 0 * re (Ja.e 0 k) + J.e 0 1 * im (Ja.e 0 k)) := by
  have hc : (ufxOf re im J Ja).c = Ja.c := rfl
  simp only [var00, mulT, sumTo_eq, hc]
  refine Finset.sum_congr rfl fun k hk => ?_
  have he : (ufxOf re im J Ja).e 0 k = J.e 0 0 * re (Ja.e 0 k) + J.e 0 1 * im (Ja.e 0 k) := by
    unfold ufxOf
    rw [force_e _ (by exact hJr) (by exact mem_range.mp hk)]
    simp only [Mat.mul, sumTo_eq, hJc, Finset.sum_range_succ, Finset.sum_range_zero, zero_add,
      vstack2, mapM, hr]
    simp
  rw [he]

end ReadOut
/-- a sum over `Fin (1 * 1)` (the row index of `O↑` for one channel and one block row) -/
theorem sum_fin_one_mul {S : Type} [AddCommMonoid S] (f : Fin (1 * 1) → S) :
    ∑ t, f t = f ⟨0, by decide⟩ := by
  show ∑ t : Fin 1, f t = _
  rw [Fin.sum_univ_one]
  rfl

/-! ## H. The whole first-order identification of one factor column, bundled -/

section Bundle
open Matrix TrivSqZeroExt
variable {R K : Type} [Field R] [Inhabited R] [Field K]

/-- **Contracts of `C17_lambda_first_order` for column `k` of the factor, bundled.**
    Shapes (`H`, `ΔH = unvec(T[:, k])` are `(p+1)l × (p+1)r`, `Uom` has `(p+1)l` rows, `n ≤ ordmax`);
    `T[:, k] = vec_c(ΔH)`; the recorded inverse `OO` of `O↑ₙᵀO↑ₙ` is exact; and there is
    (equivalently: for any) a first-order identification of `H + ε·ΔH` extending the recorded
    factors: singular triples `b < n` (`SvFirstOrder`), `Õ = [s̃_b·ũ_b]`, `W̃ = (Õ↑ᵀÕ↑)⁻¹`,
    `Ã = W̃·Õ↑ᵀ·Õ↓`, an eigen-triple `Ã·φ̃ = λ̃·φ̃`, `χ̃·Ã = λ̃·χ̃` with `χ₀·φ₀ ≠ 0` whose value parts
    are `phi = r_eigvt[:, jj]`, `chi = conj(l_eigvt[:, jj])`; `lam = λ̃` (`lam.fst = lam_d[jj]`). -/
structure FirstOrderIdent (ι : R →+* K) (H dH T U V : Mat R) (l r p N n : Nat)
    (sq sig rs : Nat → R) (Ki : Nat → Mat R) (OO : Mat R) (phi chi : Nat → K) (k : Nat)
    (lam : DualNumber K) : Prop where
  hk : k < T.c
  hcol : ∀ m, m < dH.c * dH.r → T.e m k = vecC dH m
  hHr : H.r = dH.r
  hHc : H.c = dH.c
  hr : dH.r = (p + 1) * l
  hc : dH.c = (p + 1) * r
  h0 : 0 < dH.c
  h2 : (2 : R) ≠ 0
  hn : n ≤ N
  hUr : U.r = dH.r
  hOc : OO.c = n
  hOO : toMx n n OO.e * toMx n n (ooArg (obsOf U sq N) l n).e = 1
  ident : ∃ (ud vd : Nat → Nat → DualNumber R) (sd s : Nat → DualNumber R)
      (W A : Matrix (Fin n) (Fin n) (DualNumber K)) (φ χ : Fin n → DualNumber K),
    (∀ b, b < n → SvFirstOrder H dH (Ki b) (col U b) (col V b) (sig b) (rs b) (ud b) (vd b)
      (sd b) (s b)) ∧
    (∀ b, b < n → (s b).fst = sq b) ∧
    (∀ j : Fin n, (φ j).fst = phi j.1) ∧ (∀ j : Fin n, (χ j).fst = chi j.1) ∧
    W * ((dlift ι (obsD 0 (p * l) n s ud))ᵀ * dlift ι (obsD 0 (p * l) n s ud)) = 1 ∧
    A = W * ((dlift ι (obsD 0 (p * l) n s ud))ᵀ * dlift ι (obsD l (p * l) n s ud)) ∧
    A *ᵥ φ = lam • φ ∧ χ ᵥ* A = lam • χ ∧ (χ ⬝ᵥ φ).fst ≠ 0

end Bundle

end PV.Unc
