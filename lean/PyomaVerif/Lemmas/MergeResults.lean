import PyomaVerif.Lemmas.Merge
import Mathlib.Algebra.Order.Field.Basic
import Mathlib.Algebra.Order.BigOperators.Group.List
import Mathlib.Tactic.Ring
import Mathlib.Tactic.FieldSimp
import Mathlib.Tactic.Positivity
/-!
Helper lemmas for the model of `MultiSetup_PoSER.merge_results` (`Model/Merge.lean`):

* `mapE` (a loop that may raise) succeeds iff every step succeeds (`mapE_ok_iff`);
* the grouping loops (`algGroups`): with pairwise distinct names and one algorithm per name in
  every setup, the dictionary has the names as keys, in order, and the group of the `gi`-th name
  is the `gi`-th algorithm of every setup, in setup order (`algGroups_nodup`);
* `mean` / `pvar` as `List.sum` expressions, `pvar ≥ 0`.
-/
namespace PV.Merge

/-! ### `mapE` -/

theorem mapE_ok_iff {α β : Type} (f : α → Except String β) (l : List α) (out : List β) :
    mapE f l = .ok out ↔ List.Forall₂ (fun a b => f a = .ok b) l out := by
  induction l generalizing out with
  | nil =>
    constructor
    · intro h; simp only [mapE, Except.ok.injEq] at h; subst h; exact List.Forall₂.nil
    · intro h; cases h; rfl
  | cons a as ih =>
    constructor
    · intro h
      simp only [mapE] at h
      cases hfa : f a with
      | error e => rw [hfa] at h; cases h
      | ok b =>
        rw [hfa] at h
        cases hrest : mapE f as with
        | error e => rw [hrest] at h; cases h
        | ok bs =>
          rw [hrest] at h
          simp only [Except.ok.injEq] at h
          subst h
          exact List.Forall₂.cons hfa ((ih bs).mp hrest)
    · intro h
      cases h with
      | cons h1 h2 =>
        simp only [mapE, h1, (ih _).mpr h2]

theorem mapE_ok_of_forall {α β : Type} (f : α → Except String β) (g : α → β) (l : List α)
    (h : ∀ a ∈ l, f a = .ok (g a)) : mapE f l = .ok (l.map g) := by
  induction l with
  | nil => rfl
  | cons a as ih =>
    simp only [mapE, h a (by simp), List.map_cons]
    rw [ih (fun x hx => h x (by simp [hx]))]

/-! ### the grouping loops -/

/-- per algorithm position the algorithms of all setups, in setup order -/
def byPosition {α : Type} [Inhabited α] (n : Nat) (setups : List (List α)) : List (List α) :=
  (List.range n).map fun gi => setups.map (fun s => s.getD gi default)

theorem groupAppend_skip {α : Type} (n1 : List String) (c1 : List (List α))
    (rest : List (String × List α)) (k : String) (a : α) (hk : k ∉ n1) (hlen : n1.length = c1.length) :
    groupAppend (n1.zip c1 ++ rest) k a = n1.zip c1 ++ groupAppend rest k a := by
  induction n1 generalizing c1 with
  | nil => simp
  | cons x xs ih =>
    cases c1 with
    | nil => simp at hlen
    | cons c cs =>
      have hx : x ≠ k := fun h => hk (by simp [h])
      have hk' : k ∉ xs := fun h => hk (by simp [h])
      simp only [List.zip_cons_cons, List.cons_append, groupAppend, hx, if_false]
      rw [ih cs hk' (by simpa using hlen)]

/-- a later setup: every existing group gets the setup's algorithm of its position appended -/
theorem groupSetup_later {α : Type} (n2 : List String) :
    ∀ (n1 : List String) (c1 c2 : List (List α)) (as : List α),
      (n1 ++ n2).Nodup → n1.length = c1.length → n2.length = c2.length → n2.length = as.length →
      groupSetup (n1 ++ n2) ((n1 ++ n2).zip (c1 ++ c2)) n1.length as
        = .ok ((n1 ++ n2).zip (c1 ++ List.zipWith (fun c a => c ++ [a]) c2 as)) := by
  induction n2 with
  | nil =>
    intro n1 c1 c2 as _ _ h2 h3
    have : as = [] := List.length_eq_zero_iff.mp h3.symm
    have : c2 = [] := List.length_eq_zero_iff.mp h2.symm
    subst_vars
    simp [groupSetup]
  | cons k n2' ih =>
    intro n1 c1 c2 as hnd h1 h2 h3
    cases c2 with
    | nil => simp at h2
    | cons c c2' =>
      cases as with
      | nil => simp at h3
      | cons a as' =>
        have hget : (n1 ++ k :: n2')[n1.length]? = some k := by simp
        have hk : k ∉ n1 := by
          intro hmem
          have := List.nodup_append.mp hnd
          exact this.2.2 k hmem k (by simp) rfl
        simp only [groupSetup, hget]
        have hzip : (n1 ++ k :: n2').zip (c1 ++ c :: c2') = n1.zip c1 ++ (k, c) :: n2'.zip c2' := by
          rw [List.zip_append h1]; rfl
        rw [hzip, groupAppend_skip n1 c1 _ k a hk h1]
        simp only [groupAppend, if_true]
        have hback : n1.zip c1 ++ (k, c ++ [a]) :: n2'.zip c2'
            = ((n1 ++ [k]) ++ n2').zip ((c1 ++ [c ++ [a]]) ++ c2') := by
          rw [List.zip_append (by simp [h1]), List.zip_append h1]; simp
        rw [hback]
        have hnames : n1 ++ k :: n2' = (n1 ++ [k]) ++ n2' := by simp
        have hlen : n1.length + 1 = (n1 ++ [k]).length := by simp
        rw [hnames, hlen, ih (n1 ++ [k]) (c1 ++ [c ++ [a]]) c2' as' (by rw [← hnames]; exact hnd)
          (by simp [h1]) (by simpa using h2) (by simpa using h3)]
        simp

/-- the first setup: one new group per name -/
theorem groupSetup_first {α : Type} (n2 : List String) :
    ∀ (n1 : List String) (c1 : List (List α)) (as : List α),
      (n1 ++ n2).Nodup → n1.length = c1.length → n2.length = as.length →
      groupSetup (n1 ++ n2) (n1.zip c1) n1.length as
        = .ok ((n1 ++ n2).zip (c1 ++ as.map ([·]))) := by
  induction n2 with
  | nil =>
    intro n1 c1 as _ _ h3
    have : as = [] := List.length_eq_zero_iff.mp h3.symm
    subst this
    simp [groupSetup]
  | cons k n2' ih =>
    intro n1 c1 as hnd h1 h3
    cases as with
    | nil => simp at h3
    | cons a as' =>
      have hget : (n1 ++ k :: n2')[n1.length]? = some k := by simp
      have hk : k ∉ n1 := by
        intro hmem
        have := List.nodup_append.mp hnd
        exact this.2.2 k hmem k (by simp) rfl
      simp only [groupSetup, hget]
      have h0 : n1.zip c1 = n1.zip c1 ++ [] := by simp
      rw [h0, groupAppend_skip n1 c1 [] k a hk h1]
      simp only [groupAppend]
      have hback : n1.zip c1 ++ [(k, [a])] = (n1 ++ [k]).zip (c1 ++ [[a]]) := by
        rw [List.zip_append h1]; simp
      have hnames : n1 ++ k :: n2' = (n1 ++ [k]) ++ n2' := by simp
      have hlen : n1.length + 1 = (n1 ++ [k]).length := by simp
      rw [hback, hnames, hlen, ih (n1 ++ [k]) (c1 ++ [[a]]) as' (by rw [← hnames]; exact hnd)
        (by simp [h1]) (by simpa using h3)]
      simp

theorem byPosition_snoc {α : Type} [Inhabited α] (n : Nat) (prev : List (List α)) (s : List α)
    (hs : s.length = n) :
    List.zipWith (fun c a => c ++ [a]) (byPosition n prev) s = byPosition n (prev ++ [s]) := by
  apply List.ext_getElem
  · simp [byPosition, hs]
  · intro i h1 h2
    have hi : i < n := by simpa [byPosition] using h2
    simp [byPosition, List.getD, List.getElem?_eq_getElem (hs ▸ hi)]

theorem byPosition_single {α : Type} [Inhabited α] (n : Nat) (s : List α) (hs : s.length = n) :
    s.map ([·]) = byPosition n [s] := by
  apply List.ext_getElem
  · simp [byPosition, hs]
  · intro i h1 h2
    have hi : i < n := by simpa [byPosition] using h2
    simp [byPosition, List.getD, List.getElem?_eq_getElem (hs ▸ hi)]

theorem algGroups_later {α : Type} [Inhabited α] (names : List String) (hnd : names.Nodup) :
    ∀ (ss prev : List (List α)), (∀ s ∈ ss, s.length = names.length) →
      algGroups names (names.zip (byPosition names.length prev)) ss
        = .ok (names.zip (byPosition names.length (prev ++ ss))) := by
  intro ss
  induction ss with
  | nil => intro prev _; simp [algGroups]
  | cons s ss ih =>
    intro prev h
    have hs := h s (by simp)
    have := groupSetup_later names [] [] (byPosition names.length prev) s (by simpa using hnd) rfl
      (by simp [byPosition]) hs.symm
    simp only [List.nil_append, List.length_nil] at this
    simp only [algGroups, this]
    rw [byPosition_snoc _ _ _ hs, ih (prev ++ [s]) (fun s' hs' => h s' (by simp [hs']))]
    simp

/-- **the dictionary of `merge_results`**: pairwise distinct names, every setup with one
    algorithm per name, at least one setup — the keys are the names (in order) and the group of
    the `gi`-th name is the `gi`-th algorithm of every setup, in setup order. -/
theorem algGroups_nodup {α : Type} [Inhabited α] (names : List String) (hnd : names.Nodup)
    (s0 : List α) (ss : List (List α)) (h : ∀ s ∈ s0 :: ss, s.length = names.length) :
    algGroups names [] (s0 :: ss) = .ok (names.zip (byPosition names.length (s0 :: ss))) := by
  have hs0 := h s0 (by simp)
  have := groupSetup_first names [] [] s0 (by simpa using hnd) rfl hs0.symm
  simp only [List.nil_append, List.length_nil, List.zip_nil_right] at this
  have h0 : ([] : List String).zip ([] : List (List α)) = [] := rfl
  simp only [algGroups]
  rw [show groupSetup names [] 0 s0 = .ok (names.zip (s0.map ([·]))) from by simpa using this]
  simp only
  rw [byPosition_single _ _ hs0, algGroups_later names hnd ss [s0] (fun s hs => h s (by simp [hs]))]
  simp

/-! ### mean and population variance as sums -/

theorem mean_eq_sum {C} [Field C] (xs : List C) : mean xs = xs.sum / (xs.length : C) := by
  unfold mean; rw [foldl_add_eq_sum, zero_add]

theorem pvar_eq_sum {C} [Field C] (xs : List C) :
    pvar xs = (xs.map (fun x => (x - mean xs) ^ 2)).sum / (xs.length : C) := by
  unfold pvar
  rw [mean_eq_sum, List.length_map]
  congr 2
  apply List.map_congr_left
  intro x _
  ring

theorem pvar_nonneg {K} [Field K] [LinearOrder K] [IsStrictOrderedRing K] (xs : List K) :
    0 ≤ pvar xs := by
  rw [pvar_eq_sum]
  apply div_nonneg
  · apply List.sum_nonneg
    intro y hy
    obtain ⟨x, _, rfl⟩ := List.mem_map.mp hy
    positivity
  · positivity

theorem getD_range_map {β : Type} (n k : Nat) (f : Nat → β) (d : β) (hk : k < n) :
    ((List.range n).map f).getD k d = f k := by
  simp [List.getD, hk]

end PV.Merge
