import PyomaVerif.Model.Poles
import PyomaVerif.Lemmas.Plscf
/-!
# The loops of `plscf.pLSCF` and `plscf.pLSCF_poles` (`plscfAll`, `plscfPoles` of `Model/Poles.lean`)

* `plscfAll_get` — a returning call has `ordmax` entries in both lists; entry `n − 1` is the reshaped
  result of `plscfOrder` at order `n`, run with the constraint AND the basis of the one sign `sgn`.
* `plscfPoles_get` — a returning call: list position `j` went through `rmfd2ac` on `(Ad[j], Bn[j])`; the
  padded tables are `padTables` of the `ac2mpPoly` columns in list order, so table column `j` is list
  position `j`; the matrices handed to `eig` are the state matrices `rmfd2ac` built.
* `tblMat_c` — the padded table has as many columns as the lists have entries.
-/
namespace PV.Plscf

variable {K : Type} [Zero K] [One K] [Add K] [Sub K] [Neg K] [Mul K] [Div K] [DecidableEq K]
  [Inhabited K]

theorem plscfLoop_get (Nch Nref Nf : Nat) (hi : Bool) (Om : Nat → Cx K)
    (Sy : Nat → Nat → Nat → Cx K) :
    ∀ (todo n0 : Nat) (Ad Bn : List (Coefs K)),
      plscfLoop Nch Nref Nf hi Om Sy todo n0 = .ok (Ad, Bn) →
      Ad.length = todo ∧ Bn.length = todo
      ∧ ∀ j, j < todo → ∃ out, plscfOrder Nch Nref Nf (n0 + j) hi Om Sy = some out
          ∧ Ad[j]? = some (reshapeAd Nch (n0 + j) out.alpha)
          ∧ Bn[j]? = some (moveaxisBn Nch Nref (n0 + j) out.beta) := by
  intro todo
  induction todo with
  | zero =>
    intro n0 Ad Bn h
    simp only [plscfLoop] at h
    injection h with h
    injection h with h1 h2
    subst h1; subst h2
    exact ⟨rfl, rfl, fun j hj => absurd hj (by omega)⟩
  | succ t ih =>
    intro n0 Ad Bn h
    unfold plscfLoop at h
    split at h
    · cases h
    · rename_i out hout
      split at h
      · cases h
      · rename_i Ad' Bn' hrest
        injection h with h
        injection h with h1 h2
        subst h1; subst h2
        obtain ⟨l1, l2, hall⟩ := ih (n0 + 1) Ad' Bn' hrest
        refine ⟨by simp [l1], by simp [l2], ?_⟩
        intro j hj
        cases j with
        | zero => exact ⟨out, hout, rfl, rfl⟩
        | succ j =>
          obtain ⟨o, ho, hA, hB⟩ := hall j (by omega)
          have e : n0 + 1 + j = n0 + (j + 1) := by omega
          rw [e] at ho hA hB
          exact ⟨o, ho, by simpa using hA, by simpa using hB⟩

/-- **`plscfAll` (model of `plscf.pLSCF`), a returning call with `sgn_basf ∈ {−1, 1}`**: both lists have
    `ordmax` entries and entry `n − 1` is what ONE pass of the loop body (`plscfOrder`) gives at order
    `n` under the constraint `hi = (sgn == 1)` with the basis `OmOf sgn` of the same sign, reshaped
    (`reshapeAd`, `moveaxisBn`). -/
theorem plscfAll_get (Nch Nref Nf ordmax : Nat) (sgn : Int) (hs : sgn = -1 ∨ sgn = 1)
    (OmOf : Int → Nat → Cx K) (Sy : Nat → Nat → Nat → Cx K) (Ad Bn : List (Coefs K))
    (h : plscfAll Nch Nref Nf ordmax sgn OmOf Sy = .ok (Ad, Bn)) :
    Ad.length = ordmax ∧ Bn.length = ordmax
    ∧ ∀ n, 1 ≤ n → n ≤ ordmax →
        ∃ out, plscfOrder Nch Nref Nf n (decide (sgn = 1)) (OmOf sgn) Sy = some out
          ∧ Ad[n - 1]? = some (reshapeAd Nch n out.alpha)
          ∧ Bn[n - 1]? = some (moveaxisBn Nch Nref n out.beta) := by
  unfold plscfAll at h
  rw [if_pos hs] at h
  obtain ⟨l1, l2, hall⟩ := plscfLoop_get Nch Nref Nf _ _ Sy ordmax 1 Ad Bn h
  refine ⟨l1, l2, ?_⟩
  intro n h1 hn
  obtain ⟨out, ho, hA, hB⟩ := hall (n - 1) (by omega)
  have e : 1 + (n - 1) = n := by omega
  rw [e] at ho hA hB
  exact ⟨out, ho, hA, hB⟩

variable [LT K] [DecidableLT K]

/-- the loop of `pLSCF_poles` with `ac2mp_poly` not yet applied: `(A, C, record)` per list position -/
def polesInputs (Bn : List (Coefs K)) (eigs : List (List (EigIn K))) :
    List (Coefs K) → Nat → Except String (List (Mat K × Mat K × List (EigIn K)))
  | [], _ => .ok []
  | A_den :: rest, ii =>
    match Bn[ii]? with
    | none => .error "IndexError"
    | some B_num =>
      match rmfd2ac A_den B_num with
      | none => .error "LinAlgError"
      | some (A, C) =>
        match polesInputs Bn eigs rest (ii + 1) with
        | .error e => .error e
        | .ok t => .ok ((A, C, eigs.getD ii []) :: t)

theorem polesLoop_eq (sqrt : K → K) (twoPi invdt : K) (cor : Bool) (invTau : K)
    (Bn : List (Coefs K)) (eigs : List (List (EigIn K))) :
    ∀ (Ad : List (Coefs K)) (ii : Nat),
      polesLoop sqrt twoPi invdt cor invTau Bn eigs Ad ii
        = (polesInputs Bn eigs Ad ii).map
            (fun t => t.map fun p => (p.1, ac2mpPoly sqrt twoPi invdt cor invTau p.2.1 p.2.2)) := by
  intro Ad
  induction Ad with
  | nil => intro ii; rfl
  | cons a rest ih =>
    intro ii
    unfold polesLoop polesInputs
    cases hB : Bn[ii]? with
    | none => rfl
    | some B =>
      simp only []
      cases hr : rmfd2ac a B with
      | none => rfl
      | some AC =>
        obtain ⟨A, C⟩ := AC
        simp only []
        rw [ih (ii + 1)]
        cases polesInputs Bn eigs rest (ii + 1) with
        | error e => rfl
        | ok t => rfl

omit [LT K] [DecidableLT K] in
theorem polesInputs_get (Bn : List (Coefs K)) (eigs : List (List (EigIn K))) :
    ∀ (Ad : List (Coefs K)) (ii : Nat) (t : List (Mat K × Mat K × List (EigIn K))),
      polesInputs Bn eigs Ad ii = .ok t →
      t.length = Ad.length
      ∧ ∀ j A_den, Ad[j]? = some A_den → ∃ B_num A C, Bn[ii + j]? = some B_num
          ∧ rmfd2ac A_den B_num = some (A, C) ∧ t[j]? = some (A, C, eigs.getD (ii + j) []) := by
  intro Ad
  induction Ad with
  | nil =>
    intro ii t h
    simp only [polesInputs] at h
    injection h with h
    subst h
    exact ⟨rfl, fun j A hj => by simp at hj⟩
  | cons a rest ih =>
    intro ii t h
    unfold polesInputs at h
    split at h
    · cases h
    · rename_i B hB
      split at h
      · cases h
      · rename_i A C hr
        split at h
        · cases h
        · rename_i t' ht'
          injection h with h
          subst h
          obtain ⟨hl, hall⟩ := ih (ii + 1) t' ht'
          refine ⟨by simp [hl], ?_⟩
          intro j A_den hj
          cases j with
          | zero =>
            simp only [List.getElem?_cons_zero, Option.some.injEq] at hj
            subst hj
            exact ⟨B, A, C, hB, hr, rfl⟩
          | succ j =>
            simp only [List.getElem?_cons_succ] at hj
            obtain ⟨B2, A2, C2, h1, h2, h3⟩ := hall j A_den hj
            have e : ii + 1 + j = ii + (j + 1) := by omega
            rw [e] at h1 h3
            exact ⟨B2, A2, C2, h1, h2, by simpa using h3⟩

/-- **`plscfPoles` (model of `plscf.pLSCF_poles`), a returning call**: there is the list `inp` of
    `(C, record)` pairs, one per list position, in list order, such that the tables are the padding of
    the `ac2mp_poly` columns of `inp` (the form `C05_table`, `C05_e2e_table` take); position `j` is
    `rmfd2ac(Ad[j], Bn[j])` with the `j`-th recorded eigen-decomposition, and `As[j]` — the matrix
    handed to `np.linalg.eig` in pass `j` — is the state matrix of that pair. -/
theorem plscfPoles_get (sqrt : K → K) (twoPi invdt : K) (cor : Bool) (invTau : K)
    (Ad Bn : List (Coefs K)) (eigs : List (List (EigIn K))) (T : Tables K) (As : List (Mat K))
    (h : plscfPoles sqrt twoPi invdt cor invTau Ad Bn eigs = .ok (T, As)) :
    Ad ≠ [] ∧ As.length = Ad.length
    ∧ ∃ inp : List (Mat K × List (EigIn K)),
        inp.length = Ad.length
        ∧ padTables (inp.map fun p => ac2mpPoly sqrt twoPi invdt cor invTau p.1 p.2) = .ok T
        ∧ ∀ j A_den, Ad[j]? = some A_den → ∃ B_num A C, Bn[j]? = some B_num
            ∧ rmfd2ac A_den B_num = some (A, C) ∧ As[j]? = some A
            ∧ inp[j]? = some (C, eigs.getD j []) := by
  unfold plscfPoles at h
  rw [polesLoop_eq] at h
  cases ht : polesInputs Bn eigs Ad 0 with
  | error e => rw [ht] at h; cases h
  | ok t =>
    rw [ht] at h
    simp only [Except.map] at h
    obtain ⟨hl, hall⟩ := polesInputs_get Bn eigs Ad 0 t ht
    split at h
    · cases h
    · rename_i hne
      split at h
      · cases h
      · rename_i T' hpad
        injection h with h
        injection h with h1 h2
        subst h1; subst h2
        have hAd : Ad ≠ [] := by
          intro e
          apply hne
          rw [e] at hl
          have : t = [] := List.length_eq_zero_iff.mp hl
          simp [this]
        refine ⟨hAd, by simp [hl], t.map (fun p => (p.2.1, p.2.2)), by simp [hl], ?_, ?_⟩
        · rw [← hpad]
          congr 1
          simp [List.map_map, Function.comp_def]
        · intro j A_den hj
          obtain ⟨B, A, C, h1, h2, h3⟩ := hall j A_den hj
          rw [Nat.zero_add] at h1 h3
          exact ⟨B, A, C, h1, h2, by simp [h3], by simp [h3]⟩

omit [Zero K] [One K] [Add K] [Sub K] [Neg K] [Mul K] [Div K] [DecidableEq K] [Inhabited K]
  [LT K] [DecidableLT K] in
/-- every row of `zipLongest cols` has `cols.length` entries: the padded table has one column per list
    entry (`np.array(list(zip_longest(*cols)))` has shape `(h, len(cols))` for `h ≥ 1`) -/
theorem tblMat_c {α : Type} (cols : List (List (Option α)))
    (h : 0 < (cols.map List.length).foldl max 0) :
    (tblMat (zipLongest cols)).c = cols.length ∧ (tblMat (zipLongest cols)).r
      = (cols.map List.length).foldl max 0 := by
  unfold tblMat zipLongest
  simp only [List.length_map, List.length_range, and_true]
  cases hh : (cols.map List.length).foldl max 0 with
  | zero => omega
  | succ m => simp [List.range_succ_eq_map]

end PV.Plscf
