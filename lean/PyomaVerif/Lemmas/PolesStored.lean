import PyomaVerif.Lemmas.HcStored
import PyomaVerif.Lemmas.Poles
/-!
# The tables `ssiPoles` returns, as the unfiltered solution the `run()` interpreter starts from

`Props/C01Stored.lean`, `C03Stored.lean` take the unfiltered tables from the OLD table model `polesTable`
(`ssiRaw`) and assume its columns (`OrderFilled`).  Here the unfiltered solution is read off the record
`SsiTables` that the EXECUTABLE model `ssiPoles` (op `ssi_poles`, streams `ssi.SSI_poles[values]`, `[step]`,
`[cov values]`) returns:

* `rawOf : SsiTables → Stored.Raw` — the four tables as list-of-rows tables, cell by cell; a mode-shape cell is
  NaN iff one of its components is (`SSI_poles` writes all components of a cell at once: `Phi[:n, ii, :] = phi`);
* `rawOf_fn / _xi / _lam / _phi` — `cellAt` of these tables is the cell of the `Mat` / `Ten3`;
* `ssiPoles_raw` — for a returning call the four cell equations hold on the whole `ordmax × (ordmax/step + 1)`
  grid, with the shape cell given by `phiCell`;
* `ssiPoles_same_pattern` — `Fn`, `Xi` (and `Lambds`) of a returning call share one NaN pattern as soon as every
  recorded eigen-decomposition has as many `λ_c` as `|λ_c|` (the arrays `np.log(lam_d)`, `abs(lam_c)`).
-/
namespace PV.Poles
open PV PV.HcFn PV.Stored

/-- a complex table cell as the complex number of the indicator model -/
def ofCQ (z : CQ) : Cx Rat := ⟨z.1, z.2⟩

/-- a complex number of the realisation model as one of the indicator model -/
def cxOf (z : Cpx Rat) : Cx Rat := ⟨z.re, z.im⟩

/-- all entries are numbers (`some` list), or one is NaN (`none`) -/
def optAll {α : Type} : List (Option α) → Option (List α)
  | [] => some []
  | none :: _ => none
  | some a :: r => (optAll r).map (a :: ·)

/-- the mode-shape cell `Phi[r, c, :]`: NaN as soon as a component is NaN -/
def phiCell (P : Ten3 (Option CQ)) (r c : Nat) : Option (List (Cx Rat)) :=
  (optAll ((List.range P.d).map fun k => P.e r c k)).map (·.map ofCQ)

/-- **the unfiltered solution `ssi.SSI_poles` returned, as list-of-rows tables** -/
def rawOf (T : SsiTables) : Raw where
  fn := gridOf T.fn.r T.fn.c fun x => T.fn.e x.1 x.2
  xi := gridOf T.xi.r T.xi.c fun x => T.xi.e x.1 x.2
  phi := gridOf T.phi.r T.phi.c fun x => phiCell T.phi x.1 x.2
  lam := gridOf T.lam.r T.lam.c fun x => (T.lam.e x.1 x.2).map ofCQ

theorem optAll_map_some {α : Type} (l : List α) : optAll (l.map some) = some l := by
  induction l with
  | nil => rfl
  | cons a r ih => simp [optAll, ih]

theorem optAll_none_head {α : Type} (l : List (Option α)) : optAll (none :: l) = none := rfl

theorem rawOf_fn (T : SsiTables) (r c : Nat) (hr : r < T.fn.r) (hc : c < T.fn.c) :
    cellAt (rawOf T).fn (r, c) = T.fn.e r c := by
  simp only [rawOf]
  rw [cellAt_gridOf, if_pos ⟨hr, hc⟩]

theorem rawOf_xi (T : SsiTables) (r c : Nat) (hr : r < T.xi.r) (hc : c < T.xi.c) :
    cellAt (rawOf T).xi (r, c) = T.xi.e r c := by
  simp only [rawOf]
  rw [cellAt_gridOf, if_pos ⟨hr, hc⟩]

theorem rawOf_lam (T : SsiTables) (r c : Nat) (hr : r < T.lam.r) (hc : c < T.lam.c) :
    cellAt (rawOf T).lam (r, c) = (T.lam.e r c).map ofCQ := by
  simp only [rawOf]
  rw [cellAt_gridOf, if_pos ⟨hr, hc⟩]

theorem rawOf_phi (T : SsiTables) (r c : Nat) (hr : r < T.phi.r) (hc : c < T.phi.c) :
    cellAt (rawOf T).phi (r, c) = phiCell T.phi r c := by
  simp only [rawOf]
  rw [cellAt_gridOf, if_pos ⟨hr, hc⟩]

/-- a cell all of whose components were written from the shape `s` (`d` components) holds `s` -/
theorem phiCell_of_shape (P : Ten3 (Option CQ)) (r c : Nat) (s : List (Cpx Rat)) (hs : s.length = P.d)
    (h : ∀ t, P.e r c t = (s[t]?).map toCQ) : phiCell P r c = some (s.map cxOf) := by
  have e1 : ((List.range P.d).map fun k => P.e r c k) = (s.map toCQ).map some := by
    apply List.ext_getElem
    · simp [hs]
    · intro i h1 h2
      simp only [List.getElem_map, List.getElem_range]
      rw [h i, List.getElem?_eq_getElem (by simpa [hs] using h1)]
      rfl
  unfold phiCell
  rw [e1, optAll_map_some, Option.map_some, List.map_map]
  rfl

/-- a cell never written is NaN (tables with at least one component per shape) -/
theorem phiCell_none (P : Ten3 (Option CQ)) (r c : Nat) (hd : 0 < P.d) (h : ∀ t, P.e r c t = none) :
    phiCell P r c = none := by
  unfold phiCell
  obtain ⟨d, hd'⟩ : ∃ d, P.d = d + 1 := ⟨P.d - 1, by omega⟩
  rw [hd', List.range_succ_eq_map, List.map_cons, h 0, optAll_none_head]
  rfl

/-- **`ssiPoles_raw` — the unfiltered list-of-rows tables of a returning `ssiPoles` call are its tables**, on
    the whole grid `ordmax × (ordmax/step + 1)` (outside the grid every table is NaN, as `cellAt` is). -/
theorem ssiPoles_raw (inp : SsiIn) (T : SsiTables) (h : ssiPoles inp = .ok T) (r c : Nat)
    (hr : r < inp.ordmax) (hc : c < inp.ordmax / inp.step + 1) :
    cellAt (rawOf T).fn (r, c) = T.fn.e r c
      ∧ cellAt (rawOf T).xi (r, c) = T.xi.e r c
      ∧ cellAt (rawOf T).lam (r, c) = (T.lam.e r c).map ofCQ
      ∧ cellAt (rawOf T).phi (r, c) = phiCell T.phi r c := by
  obtain ⟨_, _, ⟨h1, h2, h3, h4, h5, h6, h7, h8⟩, _⟩ := ssiPoles_spec inp T h
  exact ⟨rawOf_fn T r c (by omega) (by omega), rawOf_xi T r c (by omega) (by omega),
    rawOf_lam T r c (by omega) (by omega), rawOf_phi T r c (by omega) (by omega)⟩

theorem fits_gridOf' {α : Type} (r c r' c' : Nat) (hr : r = r') (hc : c = c')
    (f : Nat × Nat → Option α) : Fits r' c' (gridOf r c f) := by
  subst hr hc
  exact fits_gridOf r c f

/-- the four unfiltered tables fit the grid of the run -/
theorem rawOf_fits (inp : SsiIn) (T : SsiTables) (h : ssiPoles inp = .ok T) :
    Fits inp.ordmax (inp.ordmax / inp.step + 1) (rawOf T).fn
      ∧ Fits inp.ordmax (inp.ordmax / inp.step + 1) (rawOf T).xi
      ∧ Fits inp.ordmax (inp.ordmax / inp.step + 1) (rawOf T).lam
      ∧ Fits inp.ordmax (inp.ordmax / inp.step + 1) (rawOf T).phi := by
  obtain ⟨_, _, ⟨h1, h2, h3, h4, h5, h6, h7, h8⟩, _⟩ := ssiPoles_spec inp T h
  simp only [rawOf]
  exact ⟨fits_gridOf' _ _ _ _ h1 h2 _, fits_gridOf' _ _ _ _ h3 h4 _, fits_gridOf' _ _ _ _ h5 h6 _,
    fits_gridOf' _ _ _ _ h7 h8 _⟩

/-- every order column is visited or left NaN: the column index of a cell that is not NaN is the order of
    some pass of the loop -/
theorem col_visited (inp : SsiIn) (c : Nat) :
    (∃ k, c = 1 + k * inp.step ∧ 1 + k * inp.step ≤ inp.ordmax)
      ∨ (∀ k, c = 1 + k * inp.step → inp.ordmax < c) := by
  by_cases hex : ∃ k, c = 1 + k * inp.step ∧ 1 + k * inp.step ≤ inp.ordmax
  · exact Or.inl hex
  · right
    intro k hk
    by_contra hle
    exact hex ⟨k, hk, by omega⟩

/-- **`Fn`, `Xi`, `Lambds` of a returning `ssiPoles` call share one NaN pattern**, provided every recorded
    eigen-decomposition has as many `λ_c` as `|λ_c|` (both are elementwise images of the same `lam_d`). -/
theorem ssiPoles_same_pattern (inp : SsiIn) (T : SsiTables) (h : ssiPoles inp = .ok T)
    (hrec : ∀ k, ((inp.recs.getD k EigRec.empty).lamc).length = ((inp.recs.getD k EigRec.empty).absc).length)
    (r c : Nat) :
    (T.xi.e r c).isSome = (T.fn.e r c).isSome ∧ (T.lam.e r c).isSome = (T.fn.e r c).isSome := by
  obtain ⟨_, _, _, _, hpass, hnan⟩ := ssiPoles_spec inp T h
  rcases col_visited inp c with ⟨k, rfl, hk⟩ | hout
  · obtain ⟨A, C, _, _, _, _, _, hfn, hxi, hlam, _⟩ := hpass k hk
    rw [hfn r, hxi r, hlam r]
    have hl1 : (passOut inp k C).fn.length = ((inp.recs.getD k EigRec.empty).absc).length := by
      simp [passOut, ac2mp]
    have hl2 : (passOut inp k C).xi.length = ((inp.recs.getD k EigRec.empty).absc).length := by
      show (List.zipWith xiOf (inp.recs.getD k EigRec.empty).lamc (inp.recs.getD k EigRec.empty).absc).length = _
      rw [List.length_zipWith, hrec k, Nat.min_self]
    have hl3 : (passOut inp k C).lamc.length = ((inp.recs.getD k EigRec.empty).absc).length := hrec k
    by_cases hr : r < (passOut inp k C).fn.length
    · rw [if_pos hr, if_pos hr, List.getElem?_eq_getElem hr, List.getElem?_eq_getElem (by omega),
        List.getElem?_eq_getElem (by omega)]
      exact ⟨rfl, rfl⟩
    · rw [if_neg hr, if_neg hr, List.getElem?_eq_none (by omega)]
      exact ⟨rfl, rfl⟩
  · obtain ⟨hc, _⟩ := hnan c hout
    obtain ⟨h1, h2, h3, _⟩ := hc r
    rw [h1, h2, h3]
    exact ⟨rfl, rfl⟩

end PV.Poles
