import PyomaVerif.Lemmas.Covariance
import PyomaVerif.Lemmas.PoserE2E
import PyomaVerif.Props.C01
import PyomaVerif.Props.C12Dat
import PyomaVerif.Model.NanTable
import Mathlib.LinearAlgebra.Matrix.Charpoly.Basic
import Mathlib.LinearAlgebra.Matrix.ToLinearEquiv
import Mathlib.LinearAlgebra.Matrix.Rank
/-!
# Helpers for `Props/C01E2E.lean` — from a free-vibration record to the realised pair

1. the block observability matrix and the state sequence of `y_t = C·Aᵗ·x0`; the model's
   moment-matrix Hankel (`hankMM`) of such a record **is** `O_{p+1}·Γ` as a matrix identity
   (`hankMM_factor`), the future block `Yf` of the data-driven method is `O_{p+1}·X`
   (`hankYf_factor`), and the block the data-driven method cuts out of the recorded triangular
   factor is `Yf·Q₁ = O_{p+1}·(X·Q₁)` (`hankDat_factor`) — no rank condition on the past block.
2. the recorded SVD with exactly `n` non-zero singular values gives `H = Obs_n·W` with
   `Obs_n = U[:, :n]·√S` left invertible and `W` right invertible (`svd_split`).
3. `rank_factor_unique_lr`: `O·Γ = Obs·W`, `Γ` and `W` right invertible, `Obs` left invertible ⇒
   `Obs = O·T`, `T` invertible — the left-invertibility of `O` is a conclusion, not a hypothesis.
4. `realised_of_factor`: both realisation routines of the model at order `n ≤ ordmax`.
-/
set_option linter.unusedSectionVars false
namespace PV.FreeVib
open PV PV.Mat PV.Cov Matrix Finset

section general
variable {K : Type} [Field K]

/-- block observability matrix with `m` rows: row `i·l + a` is `C[a, :]·Aⁱ` -/
def obsMx {n : ℕ} (m l : ℕ) (A : Matrix (Fin n) (Fin n) K) (C : ℕ → Fin n → K) :
    Matrix (Fin m) (Fin n) K := Matrix.of fun i k => obsFn l A C i.1 k

/-- the output matrix (first `l` rows of `C`) -/
def outMx {n : ℕ} (l : ℕ) (C : ℕ → Fin n → K) : Matrix (Fin l) (Fin n) K :=
  Matrix.of fun a k => C a.1 k

/-- state sequence `x_t = Aᵗ·x0` -/
def stateAt {n : ℕ} (A : Matrix (Fin n) (Fin n) K) (x0 : Fin n → K) (t : ℕ) : Fin n → K :=
  (A ^ t).mulVec x0

/-- "the record is the free response of `(A, C, x0)`": `Y[a, t] = C[a, :]·Aᵗ·x0` for every channel and
    every sample of the record -/
def IsFreeResponse {n : ℕ} (A : Matrix (Fin n) (Fin n) K) (C : ℕ → Fin n → K) (x0 : Fin n → K)
    (Y : Mat K) : Prop :=
  ∀ a t, a < Y.r → t < Y.c → Y.e a t = ∑ k, C a k * stateAt A x0 t k

/-- the controllability-like factor `Γ` shared by the moment-matrix and the data-driven Hankel
    matrices: column `j·r + b` (block `j`, reference `b`) is `s²·Σ_t x_{p+2+t}·Yref[b, p+1−j+t]`
    over the `N−1` columns of the data matrices — `X·Ypᵀ` with `X` the (scaled) state sequence
    and `Yp` the past-reference block. -/
def gamFn {n : ℕ} (A : Matrix (Fin n) (Fin n) K) (x0 : Fin n → K) (Yref : Mat K) (p : ℕ) (s : K)
    (Ndat : ℕ) (k : Fin n) (c : ℕ) : K :=
  (s * s) * ∑ t ∈ range (Ndat - p - (p + 1) - 1),
    stateAt A x0 (p + 2 + t) k * Yref.e (c % Yref.r) (p + 1 - c / Yref.r + t)

/-- `Γ` with `w` columns (`w = (p+1)·r`) -/
def gamMx {n : ℕ} (A : Matrix (Fin n) (Fin n) K) (x0 : Fin n → K) (Yref : Mat K) (p : ℕ) (s : K)
    (Ndat w : ℕ) : Matrix (Fin n) (Fin w) K := Matrix.of fun k c => gamFn A x0 Yref p s Ndat k c.1

/-- `C[a,:]·A^{i+u}·x0 = (C[a,:]·Aⁱ)·(A^u·x0)` -/
theorem out_shift {n : ℕ} (A : Matrix (Fin n) (Fin n) K) (C : ℕ → Fin n → K) (x0 : Fin n → K)
    (a i u : ℕ) :
    ∑ k, C a k * stateAt A x0 (i + u) k = ∑ k, (∑ k', C a k' * (A ^ i) k' k) * stateAt A x0 u k := by
  unfold stateAt
  rw [pow_add, ← Matrix.mulVec_mulVec]
  generalize (A ^ u).mulVec x0 = w
  simp only [Matrix.mulVec, dotProduct, Finset.sum_mul, Finset.mul_sum]
  rw [Finset.sum_comm]
  apply Finset.sum_congr rfl; intro x _
  apply Finset.sum_congr rfl; intro y _
  ring

/-- **The moment-matrix Hankel of a free-vibration record factorises**, as a matrix identity
    over the whole `(p+1)·l × (p+1)·r` matrix the model builds: `hankMM Y Yref p s = O_{p+1}(A, C)·Γ`.
    `Yref` is arbitrary here (in the code: some rows of `Y`). -/
theorem hankMM_factor {n : ℕ} (A : Matrix (Fin n) (Fin n) K) (C : ℕ → Fin n → K) (x0 : Fin n → K)
    (Y Yref : Mat K) (p : ℕ) (s : K) (hY : IsFreeResponse A C x0 Y) :
    toMx ((p + 1) * Y.r) ((p + 1) * Yref.r) (hankMM Y Yref p s).e
      = obsMx ((p + 1) * Y.r) Y.r A C * gamMx A x0 Yref p s Y.c ((p + 1) * Yref.r) := by
  ext I J
  have hl : 0 < Y.r := by
    by_contra h
    have h0 : Y.r = 0 := by omega
    have h1 : (p + 1) * Y.r = 0 := by rw [h0]; rfl
    have := I.2
    omega
  have hr : 0 < Yref.r := by
    by_contra h
    have h0 : Yref.r = 0 := by omega
    have h1 : (p + 1) * Yref.r = 0 := by rw [h0]; rfl
    have := J.2
    omega
  have hI : I.1 = I.1 / Y.r * Y.r + I.1 % Y.r := (Nat.div_add_mod' I.1 Y.r).symm
  have hJ : J.1 = J.1 / Yref.r * Yref.r + J.1 % Yref.r := (Nat.div_add_mod' J.1 Yref.r).symm
  have ha : I.1 % Y.r < Y.r := Nat.mod_lt _ hl
  have hb : J.1 % Yref.r < Yref.r := Nat.mod_lt _ hr
  have hi : I.1 / Y.r < p + 1 := by
    rw [Nat.div_lt_iff_lt_mul hl]; exact I.2
  have hj : J.1 / Yref.r ≤ p := by
    have : J.1 / Yref.r < p + 1 := by rw [Nat.div_lt_iff_lt_mul hr]; exact J.2
    omega
  simp only [toMx, Matrix.mul_apply, obsMx, gamMx, gamFn, Matrix.of_apply, obsFn]
  conv_lhs => rw [hI, hJ]
  rw [PV.C12.C12_mm_entry Y Yref p s (I.1 / Y.r) (I.1 % Y.r) (J.1 / Yref.r) (J.1 % Yref.r) ha hb hj]
  have key : ∀ t ∈ range (Y.c - p - (p + 1) - 1),
      Y.e (I.1 % Y.r) (p + 2 + I.1 / Y.r + t)
        = ∑ k, (∑ k', C (I.1 % Y.r) k' * (A ^ (I.1 / Y.r)) k' k) * stateAt A x0 (p + 2 + t) k := by
    intro t ht
    have ht' := Finset.mem_range.mp ht
    rw [hY _ _ ha (by omega)]
    have : p + 2 + I.1 / Y.r + t = I.1 / Y.r + (p + 2 + t) := by omega
    rw [this, out_shift]
  rw [Finset.sum_congr rfl (fun t ht => by rw [key t ht])]
  simp only [Finset.mul_sum, Finset.sum_mul]
  rw [Finset.sum_comm]
  apply Finset.sum_congr rfl; intro x _
  apply Finset.sum_congr rfl; intro y _
  apply Finset.sum_congr rfl; intro z _
  ring

/-- the scaled state sequence behind the data matrices: `X[k, t] = s·x_{p+2+t}[k]` -/
def stateMx {n : ℕ} (A : Matrix (Fin n) (Fin n) K) (x0 : Fin n → K) (p : ℕ) (s : K) (T : ℕ) :
    Matrix (Fin n) (Fin T) K := Matrix.of fun k t => s * stateAt A x0 (p + 2 + t.1) k

/-- **The future block of the data-driven method is `O_{p+1}·X`** (the model's `hankYf`, all rows). -/
theorem hankYf_factor {n : ℕ} (A : Matrix (Fin n) (Fin n) K) (C : ℕ → Fin n → K) (x0 : Fin n → K)
    (Y : Mat K) (p : ℕ) (s : K) (hY : IsFreeResponse A C x0 Y) :
    toMx ((p + 1) * Y.r) (Y.c - p - (p + 1) - 1) (hankYf Y p s).e
      = obsMx ((p + 1) * Y.r) Y.r A C * stateMx A x0 p s (Y.c - p - (p + 1) - 1) := by
  ext I c
  have hl : 0 < Y.r := by
    by_contra h
    have h0 : Y.r = 0 := by omega
    have h1 : (p + 1) * Y.r = 0 := by rw [h0]; rfl
    have := I.2
    omega
  have ha : I.1 % Y.r < Y.r := Nat.mod_lt _ hl
  have hi : I.1 / Y.r < p + 1 := by
    rw [Nat.div_lt_iff_lt_mul hl]; exact I.2
  have hc := c.2
  simp only [toMx, Matrix.mul_apply, obsMx, stateMx, Matrix.of_apply, obsFn, hankYf, vstackN, scale,
    colSlice]
  rw [hY _ _ ha (by omega)]
  have : p + 1 + 1 + I.1 / Y.r + c.1 = I.1 / Y.r + (p + 2 + c.1) := by omega
  rw [this, out_shift, Finset.mul_sum]
  apply Finset.sum_congr rfl; intro k _
  ring

/-- **The block the data-driven method cuts out of the recorded triangular factor is `O_{p+1}·G`,
    and `G·R₁₁ = Γ`.**  `ys` = the model's stacked matrix `[Yp; Yf]` (`hankYs`), `a = (p+1)·r` past
    rows, `b = (p+1)·l` future rows, `T = N−1` columns; contract of `np.linalg.qr(Ys.T, mode="r")`:
    `Ysᵀ = Q·R`, `QᵀQ = 1` (`Q` itself is not returned by the call), `R` upper triangular.
    Then `H = Rᵀ[a:, :a] = Yf·Q₁ = O_{p+1}·(X·Q₁)` — orthonormality only, **no rank condition on the
    past block** — and `(X·Q₁)·R[:a, :a] = X·Ypᵀ = Γ`, the factor of the moment-matrix method:
    a right inverse `Γr` of `Γ` gives the right inverse `R[:a,:a]·Γr` of `X·Q₁`. -/
theorem hankDat_factor {n : ℕ} (A : Matrix (Fin n) (Fin n) K) (C : ℕ → Fin n → K) (x0 : Fin n → K)
    (Y Yref : Mat K) (p : ℕ) (s : K) (hY : IsFreeResponse A C x0 Y) (q r : ℕ → ℕ → K)
    (hQR : ∀ (i : Fin ((p + 1) * Yref.r + (p + 1) * Y.r)) (c : Fin (Y.c - p - (p + 1) - 1)),
      (hankYs Y Yref p s).e i.1 c.1
        = ∑ t : Fin ((p + 1) * Yref.r + (p + 1) * Y.r), q c.1 t.1 * r t.1 i.1)
    (hOrth : ∀ (u t : Fin ((p + 1) * Yref.r + (p + 1) * Y.r)),
      ∑ c : Fin (Y.c - p - (p + 1) - 1), q c.1 u.1 * q c.1 t.1 = if u = t then 1 else 0)
    (hTri : ∀ i j, j < i → r i j = 0) :
    ∃ G : Matrix (Fin n) (Fin ((p + 1) * Yref.r)) K,
      toMx ((p + 1) * Y.r) ((p + 1) * Yref.r) (fun i j => r j ((p + 1) * Yref.r + i))
        = obsMx ((p + 1) * Y.r) Y.r A C * G ∧
      G * toMx ((p + 1) * Yref.r) ((p + 1) * Yref.r) r
        = gamMx A x0 Yref p s Y.c ((p + 1) * Yref.r) := by
  set a := (p + 1) * Yref.r with ha
  set b := (p + 1) * Y.r with hb
  set T := Y.c - p - (p + 1) - 1 with hT
  have hYpr : (hankYp Y.c Yref p s).r = a := rfl
  let Q1 : Matrix (Fin T) (Fin a) K := Matrix.of fun c j => q c.1 j.1
  refine ⟨stateMx A x0 p s T * Q1, ?_, ?_⟩
  · -- `Rᵀ[a:, :a] = Yf·Q₁`
    have hYf : toMx b a (fun i j => r j (a + i)) = toMx b T (hankYf Y p s).e * Q1 := by
      ext I J
      simp only [toMx, Matrix.mul_apply, Q1, Matrix.of_apply]
      have hrow : ∀ c : Fin T, (hankYf Y p s).e I.1 c.1
          = ∑ t : Fin (a + b), q c.1 t.1 * r t.1 (a + I.1) := by
        intro c
        rw [← hQR ⟨a + I.1, by have := I.2; omega⟩ c, PV.C12.hankYs_rows, hYpr,
          if_neg (show ¬ a + I.1 < a by omega), Nat.add_sub_cancel_left]
      rw [Finset.sum_congr rfl (fun c _ => by rw [hrow c])]
      simp only [Finset.sum_mul]
      rw [Finset.sum_comm]
      have : ∀ t : Fin (a + b), ∑ c : Fin T, q c.1 t.1 * r t.1 (a + I.1) * q c.1 J.1
          = r t.1 (a + I.1) * (if t = (⟨J.1, by have := J.2; omega⟩ : Fin (a + b)) then 1 else 0) := by
        intro t
        rw [← hOrth t ⟨J.1, by have := J.2; omega⟩, Finset.mul_sum]
        apply Finset.sum_congr rfl; intro c _; ring
      rw [Finset.sum_congr rfl (fun t _ => this t)]
      simp
    rw [hYf, hankYf_factor A C x0 Y p s hY, Matrix.mul_assoc]
  · -- `(X·Q₁)·R₁₁ = X·Ypᵀ = Γ`
    ext k i
    simp only [Matrix.mul_apply, toMx, stateMx, Q1, Matrix.of_apply, gamMx, gamFn]
    have hrow : ∀ c : Fin T, (hankYp Y.c Yref p s).e i.1 c.1 = ∑ t : Fin a, q c.1 t.1 * r t.1 i.1 := by
      intro c
      have h1 := hQR ⟨i.1, by have := i.2; omega⟩ c
      rw [PV.C12.hankYs_rows, hYpr, if_pos i.2] at h1
      rw [h1, PV.C12.sum_fin_split a b (fun t => q c.1 t * r t i.1)]
      have hz : ∑ t : Fin b, q c.1 (a + t.1) * r (a + t.1) i.1 = 0 := by
        apply Finset.sum_eq_zero; intro t _
        rw [hTri (a + t.1) i.1 (by have := i.2; omega), mul_zero]
      rw [hz, add_zero]
    have hYp : ∀ c : Fin T, (hankYp Y.c Yref p s).e i.1 c.1
        = s * Yref.e (i.1 % Yref.r) (p + 1 - i.1 / Yref.r + c.1) := by
      intro c
      simp only [hankYp, vstackN, scale, colSlice]
    calc ∑ j : Fin a, (∑ c : Fin T, s * stateAt A x0 (p + 2 + c.1) k * q c.1 j.1) * r j.1 i.1
        = ∑ c : Fin T, s * stateAt A x0 (p + 2 + c.1) k * ∑ j : Fin a, q c.1 j.1 * r j.1 i.1 := by
          simp only [Finset.sum_mul, Finset.mul_sum]
          rw [Finset.sum_comm]
          apply Finset.sum_congr rfl; intro c _
          apply Finset.sum_congr rfl; intro j _
          ring
      _ = ∑ c : Fin T, s * stateAt A x0 (p + 2 + c.1) k
            * (s * Yref.e (i.1 % Yref.r) (p + 1 - i.1 / Yref.r + c.1)) := by
          apply Finset.sum_congr rfl; intro c _
          rw [← hrow c, hYp c]
      _ = s * s * ∑ t ∈ range T, stateAt A x0 (p + 2 + t) k
            * Yref.e (i.1 % Yref.r) (p + 1 - i.1 / Yref.r + t) := by
          rw [Finset.mul_sum, Finset.sum_range]
          apply Finset.sum_congr rfl; intro c _
          ring

/-- **rank-factor uniqueness without assuming observability.**  `O·Γ = Obs·W` with `Γ`, `W` right
    invertible and `Obs` left invertible ⇒ `Obs = O·T` with `T` invertible; in particular `O` is left
    invertible (the system is observable by the block rows of the Hankel matrix). -/
theorem rank_factor_unique_lr {m n c : ℕ}
    (O Obs : Matrix (Fin m) (Fin n) K) (Γ W : Matrix (Fin n) (Fin c) K)
    (L : Matrix (Fin n) (Fin m) K) (Γr Wr : Matrix (Fin c) (Fin n) K)
    (hL : L * Obs = 1) (hΓ : Γ * Γr = 1) (hW : W * Wr = 1) (h : O * Γ = Obs * W) :
    ∃ T Tinv : Matrix (Fin n) (Fin n) K, T * Tinv = 1 ∧ Tinv * T = 1 ∧ Obs = O * T := by
  have h1 : O = Obs * (W * Γr) := by
    have := congrArg (· * Γr) h
    simp only [Matrix.mul_assoc, hΓ, Matrix.mul_one] at this
    exact this
  have h2 : Obs = O * (Γ * Wr) := by
    have := congrArg (· * Wr) h
    simp only [Matrix.mul_assoc, hW, Matrix.mul_one] at this
    exact this.symm
  have h3 : (W * Γr) * (Γ * Wr) = 1 := by
    have : L * Obs = L * (Obs * (W * Γr) * (Γ * Wr)) := by rw [← h1, ← h2]
    rw [hL, Matrix.mul_assoc, ← Matrix.mul_assoc L, hL, Matrix.one_mul] at this
    exact this.symm
  exact ⟨Γ * Wr, W * Γr, mul_eq_one_comm.mp h3, h3, h2⟩

end general

/-! ## the recorded SVD with exactly `n` non-zero singular values -/
section svd
variable {K : Type} [Field K] [LinearOrder K] [IsStrictOrderedRing K]

/-- `H = Obs_n·W`, `Obs_n = U[:, :n]·diag(sq)` (the leading `n` columns of the factor the code forms),
    `W = diag(sq)·V[:, :n]ᵀ`; `Obs_n` has the left inverse `diag(1/sq)·U[:, :n]ᵀ`, `W` the right inverse
    `V[:, :n]·diag(1/sq)`.  Contracts: recorded SVD on `N ≥ n` triples, `S t = 0` beyond `n`, `S t ≠ 0`
    below, `sq² = S`. -/
theorem svd_split (H U V : Mat K) (S sq : ℕ → K) (N n : ℕ) (hn : n ≤ N)
    (hsvd : SvdOf H U V S N) (hsq : SqrtOf sq S N)
    (hpos : ∀ t, t < n → S t ≠ 0) (hzero : ∀ t, n ≤ t → t < N → S t = 0) :
    ∃ (W : Matrix (Fin n) (Fin H.c) K) (L : Matrix (Fin n) (Fin H.r) K) (Wr : Matrix (Fin H.c) (Fin n) K),
      toMx H.r H.c H.e = toMx H.r n (obsOf U sq n).e * W ∧
      L * toMx H.r n (obsOf U sq n).e = 1 ∧ W * Wr = 1 := by
  have hsq0 : ∀ t : Fin n, sq t.1 ≠ 0 := by
    intro t h0
    have := (hsq t.1 (lt_of_lt_of_le t.2 hn)).2
    rw [h0, mul_zero] at this
    exact hpos t.1 t.2 this.symm
  have hU := orth_leading hn U.e hsvd.orthU
  have hV := orth_leading hn V.e hsvd.orthV
  refine ⟨Matrix.of fun k j => sq k.1 * V.e j.1 k.1, Matrix.of fun k i => (sq k.1)⁻¹ * U.e i.1 k.1,
    Matrix.of fun j k => V.e j.1 k.1 * (sq k.1)⁻¹, ?_, ?_, ?_⟩
  · ext i j
    simp only [toMx, Matrix.mul_apply, Matrix.of_apply, obsOf]
    rw [hsvd.dec i.1 j.1 i.2 j.2, ← Finset.sum_range_add_sum_Ico _ hn]
    have hz : ∑ t ∈ Finset.Ico n N, U.e i.1 t * S t * V.e j.1 t = 0 := by
      apply Finset.sum_eq_zero
      intro t ht
      rw [Finset.mem_Ico] at ht
      rw [hzero t ht.1 ht.2, mul_zero, zero_mul]
    rw [hz, add_zero, Finset.sum_range]
    apply Finset.sum_congr rfl
    intro t _
    rw [← (hsq t.1 (lt_of_lt_of_le t.2 hn)).2]; ring
  · ext a b
    have := congrFun (congrFun hU a) b
    simp only [toMx, Matrix.mul_apply, Matrix.transpose_apply, Matrix.one_apply] at this
    simp only [toMx, Matrix.mul_apply, Matrix.of_apply, obsOf, Matrix.one_apply]
    have e : ∀ x : Fin H.r, (sq a.1)⁻¹ * U.e x.1 a.1 * (U.e x.1 b.1 * sq b.1)
        = (sq a.1)⁻¹ * sq b.1 * (U.e x.1 a.1 * U.e x.1 b.1) := by intro x; ring
    rw [Finset.sum_congr rfl (fun x _ => e x), ← Finset.mul_sum, this]
    by_cases hab : a = b
    · subst hab; simp [hsq0 a]
    · simp [hab]
  · ext a b
    have := congrFun (congrFun hV a) b
    simp only [toMx, Matrix.mul_apply, Matrix.transpose_apply, Matrix.one_apply] at this
    simp only [Matrix.mul_apply, Matrix.of_apply, Matrix.one_apply]
    have e : ∀ x : Fin H.c, sq a.1 * V.e x.1 a.1 * (V.e x.1 b.1 * (sq b.1)⁻¹)
        = sq a.1 * (sq b.1)⁻¹ * (V.e x.1 a.1 * V.e x.1 b.1) := by intro x; ring
    rw [Finset.sum_congr rfl (fun x _ => e x), ← Finset.mul_sum, this]
    by_cases hab : a = b
    · subst hab; simp [hsq0 a]
    · simp [hab]

/-- the singular values of a recorded SVD are non-increasing along any gap -/
theorem svd_antitone {H U V : Mat K} {S : ℕ → K} {N : ℕ} (hsvd : SvdOf H U V S N) :
    ∀ d t, t + d < N → S (t + d) ≤ S t := by
  intro d
  induction d with
  | zero => intro t _; exact le_refl _
  | succ d ih =>
    intro t ht
    have h1 := hsvd.ordered (t + d) (by omega)
    exact le_trans h1 (ih t (by omega))

/-- **"exactly `n` non-zero singular values" is a consequence of the rank conditions.**  If
    `H = O·Γ` with `O` (`n` columns) left invertible and `Γ` right invertible, every recorded SVD of `H`
    on `N` triples has `n ≤ N`, `S t ≠ 0` for `t < n` and `S t = 0` for `n ≤ t < N`. -/
theorem svd_rank_count {n : ℕ} (H U V : Mat K) (S : ℕ → K) (N : ℕ) (hsvd : SvdOf H U V S N)
    (O : Matrix (Fin H.r) (Fin n) K) (Γ : Matrix (Fin n) (Fin H.c) K)
    (Ol : Matrix (Fin n) (Fin H.r) K) (Γr : Matrix (Fin H.c) (Fin n) K)
    (hO : Ol * O = 1) (hΓ : Γ * Γr = 1) (hfac : toMx H.r H.c H.e = O * Γ) :
    n ≤ N ∧ (∀ t, t < n → S t ≠ 0) ∧ (∀ t, n ≤ t → t < N → S t = 0) := by
  classical
  set Hm := toMx H.r H.c H.e with hHm
  set Um := toMx H.r N U.e with hUm
  set Vm := toMx H.c N V.e with hVm
  set D : Matrix (Fin N) (Fin N) K := Matrix.diagonal (fun t => S t.1) with hD
  have hdec : Hm = Um * D * Vmᵀ := by
    ext i j
    simp only [hHm, hUm, hVm, hD, toMx, Matrix.mul_apply, Matrix.transpose_apply, Matrix.diagonal_apply]
    rw [hsvd.dec i.1 j.1 i.2 j.2, Finset.sum_range]
    apply Finset.sum_congr rfl
    intro t _
    rw [Finset.sum_eq_single t]
    · simp
    · intro b _ hb; simp [hb]
    · intro h; exact absurd (Finset.mem_univ t) h
  have hD' : D = Umᵀ * Hm * Vm := by
    rw [hdec]
    have e1 : Umᵀ * (Um * D * Vmᵀ) * Vm = (Umᵀ * Um) * D * (Vmᵀ * Vm) := by
      simp only [Matrix.mul_assoc]
    rw [e1, hsvd.orthU, hsvd.orthV, Matrix.one_mul, Matrix.mul_one]
  -- rank H = n
  have hr1 : Hm.rank ≤ n := by
    rw [hfac]
    exact le_trans (Matrix.rank_mul_le_left O Γ) (Matrix.rank_le_width O)
  have hr2 : n ≤ Hm.rank := by
    have h1 : (1 : Matrix (Fin n) (Fin n) K) = Ol * Hm * Γr := by
      rw [hfac]
      have : Ol * (O * Γ) * Γr = (Ol * O) * (Γ * Γr) := by simp only [Matrix.mul_assoc]
      rw [this, hO, hΓ, Matrix.one_mul]
    have h2 : (1 : Matrix (Fin n) (Fin n) K).rank = n := by
      rw [Matrix.rank_one, Fintype.card_fin]
    calc n = (Ol * Hm * Γr).rank := by rw [← h1, h2]
      _ ≤ (Ol * Hm).rank := Matrix.rank_mul_le_left _ _
      _ ≤ Hm.rank := Matrix.rank_mul_le_right _ _
  have hr3 : D.rank = Hm.rank := by
    apply le_antisymm
    · rw [hD']
      exact le_trans (Matrix.rank_mul_le_left _ _) (Matrix.rank_mul_le_right _ _)
    · rw [hdec]
      exact le_trans (Matrix.rank_mul_le_left _ _) (Matrix.rank_mul_le_right _ _)
  have hcard : ((Finset.range N).filter (fun t => S t ≠ 0)).card = n := by
    have h1 : D.rank = n := by rw [hr3]; exact le_antisymm hr1 hr2
    rw [hD, Matrix.rank_diagonal, Fintype.card_subtype, Finset.card_filter] at h1
    rw [Finset.card_filter, Finset.sum_range]
    exact h1
  have hnn : ∀ t, t < N → S t ≠ 0 → 0 < S t := fun t ht h0 =>
    lt_of_le_of_ne (hsvd.nonneg t ht) (Ne.symm h0)
  refine ⟨?_, ?_, ?_⟩
  · rw [← hcard]
    exact le_trans (Finset.card_filter_le _ _) (by rw [Finset.card_range])
  · intro t ht h0
    -- everything from `t` on vanishes: at most `t < n` non-zero values
    have hsub : (Finset.range N).filter (fun u => S u ≠ 0) ⊆ Finset.range t := by
      intro u hu
      rw [Finset.mem_filter, Finset.mem_range] at hu
      rw [Finset.mem_range]
      by_contra hge
      have hge' : t ≤ u := by omega
      obtain ⟨d, rfl⟩ := Nat.exists_eq_add_of_le hge'
      have := svd_antitone hsvd d t hu.1
      rw [h0] at this
      exact hu.2 (le_antisymm this (hsvd.nonneg _ hu.1))
    have := Finset.card_le_card hsub
    rw [hcard, Finset.card_range] at this
    omega
  · intro t hnt htN
    by_contra h0
    -- everything up to `t` is non-zero: at least `t + 1 > n` non-zero values
    have hsub : Finset.range (t + 1) ⊆ (Finset.range N).filter (fun u => S u ≠ 0) := by
      intro u hu
      rw [Finset.mem_range] at hu
      rw [Finset.mem_filter, Finset.mem_range]
      refine ⟨by omega, ?_⟩
      obtain ⟨d, hd⟩ := Nat.exists_eq_add_of_le (show u ≤ t by omega)
      have := svd_antitone hsvd d u (by omega)
      rw [← hd] at this
      exact ne_of_gt (lt_of_lt_of_le (hnn t htN h0) this)
    have := Finset.card_le_card hsub
    rw [hcard, Finset.card_range] at this
    omega

end svd

/-! ## conditional contracts of `inv` / `pinv`, and both realisation routines -/
section realise
variable {K : Type} [Field K] [LinearOrder K] [IsStrictOrderedRing K]

/-- contract of `np.linalg.qr(O↑)` and of `np.linalg.inv(R[:n,:n])` as `SSI_fast` uses them; the
    inverse in its natural conditional form: **if** the leading block is invertible, `Rinv` is its
    inverse (`QrOf` of `Lemmas/Covariance.lean` assumes the conclusion outright). -/
structure QrC (Op Q R Rinv : Mat K) (M N n : Nat) : Prop where
  hRc : Rinv.c = n
  hQr : Q.r = M
  dec : toMx M N Op.e = toMx M N Q.e * toMx N N R.e
  orth : (toMx M N Q.e)ᵀ * toMx M N Q.e = 1
  tri : ∀ i j, j < i → R.e i j = 0
  inv : (∃ X : Matrix (Fin n) (Fin n) K, X * toMx n n R.e = 1) →
    toMx n n Rinv.e * toMx n n R.e = 1

theorem QrC.of {Op Q R Rinv : Mat K} {M N n : Nat} (h : QrOf Op Q R Rinv M N n) :
    QrC Op Q R Rinv M N n := ⟨h.hRc, h.hQr, h.dec, h.orth, h.tri, fun _ => h.inv⟩

/-- contract of `np.linalg.pinv(O↑ₙ)` as the legacy `SSI` uses it: **if** `O↑ₙ` has full column
    rank (a left inverse exists), the pseudo-inverse is a left inverse. -/
structure PinvC (Obsn Pinv : Mat K) (M n l : Nat) : Prop where
  hPc : Pinv.c = M
  inv : (∃ X : Matrix (Fin n) (Fin M) K, X * toMx M n (upPart Obsn l).e = 1) →
    toMx n M Pinv.e * toMx M n (upPart Obsn l).e = 1

theorem PinvC.of {Obsn Pinv : Mat K} {M n l : Nat} (h : PinvOf Obsn Pinv M n l) :
    PinvC Obsn Pinv M n l := ⟨h.hPc, fun _ => h.inv⟩

omit [LinearOrder K] [IsStrictOrderedRing K] in
theorem obsFn_first {n : ℕ} (l : ℕ) (A : Matrix (Fin n) (Fin n) K) (C : ℕ → Fin n → K)
    (a : ℕ) (ha : a < l) (k : Fin n) : obsFn l A C a k = C a k := by
  unfold obsFn
  rw [Nat.mod_eq_of_lt ha, Nat.div_eq_of_lt ha, pow_zero]
  simp [Matrix.one_apply]

/-- **From a factorising Hankel matrix to the realised pair, both routines.**
    `H` any `(p+1)·l`-row matrix with `H = O_{p+1}(A, C)·Γ`, `Γ` right invertible; `(A, C)` observable
    by `p` block rows; recorded SVD of `H` with exactly `n` non-zero singular values, `sq = √S`.
    Then there is ONE invertible `T` such that
    * for every recorded `(Q, R, R⁻¹)` of the upper part of the order-`N` factor (`N = ordmax ≥ n`),
      `fastA … n = T⁻¹·A·T`, `outC … = C·T`;
    * for every recorded pseudo-inverse of the upper part of the order-`n` factor,
      `legacyA … = T⁻¹·A·T`, `outC … = C·T`. -/
theorem realised_of_factor {n : ℕ} (A : Matrix (Fin n) (Fin n) K) (C : ℕ → Fin n → K)
    (l p : ℕ) (hl : 0 < l) (H U V : Mat K) (S sq : ℕ → K) (N : ℕ) (hn : n ≤ N)
    (hHr : H.r = (p + 1) * l)
    (Γ : Matrix (Fin n) (Fin H.c) K) (Γr : Matrix (Fin H.c) (Fin n) K) (hΓ : Γ * Γr = 1)
    (hfac : toMx H.r H.c H.e = obsMx H.r l A C * Γ)
    (Olp : Matrix (Fin n) (Fin (p * l)) K) (hObs : Olp * obsMx (p * l) l A C = 1)
    (hsvd : SvdOf H U V S N) (hsq : SqrtOf sq S N)
    (hpos : ∀ t, t < n → S t ≠ 0) (hzero : ∀ t, n ≤ t → t < N → S t = 0) :
    ∃ T Tinv : Matrix (Fin n) (Fin n) K, T * Tinv = 1 ∧ Tinv * T = 1 ∧
      (∀ Q R Rinv : Mat K, QrC (upPart (obsOf U sq N) l) Q R Rinv (p * l) N n →
        toMx n n (fastA Rinv Q (dnPart (obsOf U sq N) l) n).e = Tinv * A * T ∧
        toMx l n (outC (obsOf U sq N) l n).e = outMx l C * T) ∧
      (∀ Pinv : Mat K, PinvC (obsOf U sq n) Pinv (p * l) n l →
        toMx n n (legacyA Pinv (obsOf U sq n) l).e = Tinv * A * T ∧
        toMx l n (outC (obsOf U sq n) l n).e = outMx l C * T) := by
  obtain ⟨W, L, Wr, hHW, hL, hW⟩ := svd_split H U V S sq N n hn hsvd hsq hpos hzero
  obtain ⟨T, Tinv, h1, h2, h3⟩ := rank_factor_unique_lr (obsMx H.r l A C) (toMx H.r n (obsOf U sq n).e) Γ W
    L Γr Wr hL hΓ hW (by rw [← hfac, hHW])
  have hE : ∀ i, i < H.r → ∀ j : Fin n, U.e i j.1 * sq j.1 = ∑ k, obsFn l A C i k * T k j := by
    intro i hi j
    have := congrFun (congrFun h3 ⟨i, hi⟩) j
    simpa [toMx, obsOf, obsMx, Matrix.mul_apply] using this
  have hpl : p * l + l = H.r := by rw [hHr, Nat.add_mul, Nat.one_mul]
  have hUp : ∀ Obs : Mat K, (∀ i j, Obs.e i j = U.e i j * sq j) →
      toMx (p * l) n (upPart Obs l).e = obsMx (p * l) l A C * T := by
    intro Obs hO
    ext i j
    simp only [toMx, Matrix.mul_apply, obsMx, Matrix.of_apply, C01.upPart_e, hO]
    exact hE i.1 (by have := i.2; omega) j
  have hDn : ∀ Obs : Mat K, (∀ i j, Obs.e i j = U.e i j * sq j) →
      toMx (p * l) n (dnPart Obs l).e = obsMx (p * l) l A C * A * T := by
    intro Obs hO
    ext i j
    simp only [toMx, Matrix.mul_apply, obsMx, Matrix.of_apply, C01.dnPart_e, hO]
    rw [hE (l + i.1) (by have := i.2; omega) j]
    apply Finset.sum_congr rfl
    intro k _
    rw [Nat.add_comm, obs_shift l hl A C i.1 k]
  have hOut : ∀ Obs : Mat K, (∀ i j, Obs.e i j = U.e i j * sq j) →
      toMx l n (outC Obs l n).e = outMx l C * T := by
    intro Obs hO
    ext a j
    simp only [toMx, Matrix.mul_apply, outMx, Matrix.of_apply, C01.C01_outC, hO]
    rw [hE a.1 (by have := a.2; omega) j]
    apply Finset.sum_congr rfl
    intro k _
    rw [obsFn_first l A C a.1 a.2 k]
  refine ⟨T, Tinv, h1, h2, ?_, ?_⟩
  · intro Q R Rinv hqr
    have hO : ∀ i j, (obsOf U sq N).e i j = U.e i j * sq j := fun _ _ => rfl
    have hlead := qr_leading_block hn (upPart (obsOf U sq N) l).e Q.e R.e hqr.dec hqr.tri
    have hRinv := hqr.inv ⟨Tinv * Olp * toMx (p * l) n Q.e, by
      rw [Matrix.mul_assoc, ← hlead, hUp _ hO, Matrix.mul_assoc, ← Matrix.mul_assoc Olp, hObs,
        Matrix.one_mul, h2]⟩
    exact ⟨C01.C01_realisation_fast hn _ _ Q R Rinv hqr.hRc hqr.hQr hqr.dec hqr.orth hqr.tri hRinv
      (obsMx (p * l) l A C) A T Tinv h1 (hUp _ hO) (hDn _ hO), hOut _ hO⟩
  · intro Pinv hp
    have hO : ∀ i j, (obsOf U sq n).e i j = U.e i j * sq j := fun _ _ => rfl
    have hP := hp.inv ⟨Tinv * Olp, by
      rw [hUp _ hO, Matrix.mul_assoc, ← Matrix.mul_assoc Olp, hObs, Matrix.one_mul, h2]⟩
    exact ⟨C01.C01_realisation_legacy _ Pinv hp.hPc hP (obsMx (p * l) l A C) A T Tinv h1 (hUp _ hO)
      (hDn _ hO), hOut _ hO⟩

omit [LinearOrder K] [IsStrictOrderedRing K] in
/-- observability by the first `p·l` rows gives a left inverse of every taller observability matrix -/
theorem obs_left_inv_extend {n : ℕ} (A : Matrix (Fin n) (Fin n) K) (C : ℕ → Fin n → K) (l m0 m : ℕ)
    (hm : m0 ≤ m) (Olp : Matrix (Fin n) (Fin m0) K) (hObs : Olp * obsMx m0 l A C = 1) :
    ∃ Ol : Matrix (Fin n) (Fin m) K, Ol * obsMx m l A C = 1 := by
  refine ⟨Matrix.of fun k i => if h : i.1 < m0 then Olp k ⟨i.1, h⟩ else 0, ?_⟩
  ext k j
  rw [← hObs]
  simp only [Matrix.mul_apply, Matrix.of_apply, obsMx]
  have := sum_fin_trunc hm
    (fun t => (if h : t < m0 then Olp k ⟨t, h⟩ else 0) * obsFn l A C t j)
    (fun t ht _ => by rw [dif_neg (by omega), zero_mul])
  rw [this]
  apply Finset.sum_congr rfl
  intro t _
  rw [dif_pos t.2]

/-- **`realised_of_factor` with "exactly `n` non-zero singular values" derived** from the rank
    conditions (`svd_rank_count`): the recorded SVD enters through `SvdOf`/`SqrtOf` alone, `N` is
    any number of recorded triples. -/
theorem realised_of_factor_rank {n : ℕ} (A : Matrix (Fin n) (Fin n) K) (C : ℕ → Fin n → K)
    (l p : ℕ) (hl : 0 < l) (H U V : Mat K) (S sq : ℕ → K) (N : ℕ)
    (hHr : H.r = (p + 1) * l)
    (Γ : Matrix (Fin n) (Fin H.c) K) (Γr : Matrix (Fin H.c) (Fin n) K) (hΓ : Γ * Γr = 1)
    (hfac : toMx H.r H.c H.e = obsMx H.r l A C * Γ)
    (Olp : Matrix (Fin n) (Fin (p * l)) K) (hObs : Olp * obsMx (p * l) l A C = 1)
    (hsvd : SvdOf H U V S N) (hsq : SqrtOf sq S N) :
    n ≤ N ∧ (∀ t, t < n → S t ≠ 0) ∧ (∀ t, n ≤ t → t < N → S t = 0) ∧
    ∃ T Tinv : Matrix (Fin n) (Fin n) K, T * Tinv = 1 ∧ Tinv * T = 1 ∧
      (∀ Q R Rinv : Mat K, QrC (upPart (obsOf U sq N) l) Q R Rinv (p * l) N n →
        toMx n n (fastA Rinv Q (dnPart (obsOf U sq N) l) n).e = Tinv * A * T ∧
        toMx l n (outC (obsOf U sq N) l n).e = outMx l C * T) ∧
      (∀ Pinv : Mat K, PinvC (obsOf U sq n) Pinv (p * l) n l →
        toMx n n (legacyA Pinv (obsOf U sq n) l).e = Tinv * A * T ∧
        toMx l n (outC (obsOf U sq n) l n).e = outMx l C * T) := by
  obtain ⟨Ol, hOl⟩ := obs_left_inv_extend A C l (p * l) H.r
    (by rw [hHr, Nat.add_mul]; exact Nat.le_add_right _ _) Olp hObs
  obtain ⟨hn, hpos, hzero⟩ := svd_rank_count H U V S N hsvd (obsMx H.r l A C) Γ Ol Γr hOl hΓ hfac
  exact ⟨hn, hpos, hzero, realised_of_factor A C l p hl H U V S sq N hn hHr Γ Γr hΓ hfac Olp hObs hsvd hsq
    hpos hzero⟩

end realise

/-! ## modal part: the rational numbers of the model, its complex pairs, and ℂ -/
section modal
open Cpx

/-- the real numbers of the model inside its complex numbers (`np.dot(C, r_eigvt)`, `eig(A)` with a
    real `A`) -/
def ofR : ℚ →+* Cpx ℚ where
  toFun x := ⟨x, 0⟩
  map_one' := rfl
  map_mul' a b := by apply Cpx.ext' <;> simp
  map_zero' := rfl
  map_add' a b := by apply Cpx.ext' <;> simp

/-- the model's complex numbers inside ℂ -/
noncomputable def toC : Cpx ℚ →+* ℂ where
  toFun z := ⟨(z.re : ℝ), (z.im : ℝ)⟩
  map_one' := by apply Complex.ext <;> simp
  map_mul' a b := by apply Complex.ext <;> simp
  map_zero' := by apply Complex.ext <;> simp
  map_add' a b := by apply Complex.ext <;> simp

/-- complex conjugation on the model's complex numbers, as a ring homomorphism -/
def conjR : Cpx ℚ →+* Cpx ℚ where
  toFun z := Cpx.conj z
  map_one' := by apply Cpx.ext' <;> simp [Cpx.conj]
  map_mul' a b := by
    apply Cpx.ext'
    · simp [Cpx.conj]
    · simp only [Cpx.conj, Cpx.mul_im]; ring
  map_zero' := by apply Cpx.ext' <;> simp [Cpx.conj]
  map_add' a b := by
    apply Cpx.ext'
    · simp [Cpx.conj]
    · simp only [Cpx.conj, Cpx.add_im]; ring

theorem ofR_re (x : ℚ) : (ofR x).re = x := rfl
theorem ofR_im (x : ℚ) : (ofR x).im = 0 := rfl
theorem conjR_apply (z : Cpx ℚ) : conjR z = Cpx.conj z := rfl
theorem conjR_ofR (x : ℚ) : conjR (ofR x) = ofR x := by
  apply Cpx.ext' <;> simp [conjR, ofR, Cpx.conj]
theorem toC_conj (z : Cpx ℚ) : toC (Cpx.conj z) = (starRingEnd ℂ) (toC z) := by
  apply Complex.ext <;> simp [toC, Cpx.conj]

theorem cplx_toMx (m n : ℕ) (M : Mat ℚ) : toMx m n (cplx M).e = (toMx m n M.e).map ofR := rfl

/-- similarity over ℚ is similarity over ℚ(i) -/
theorem similar_map {n : ℕ} (Ah : Mat ℚ) (A T Tinv : Matrix (Fin n) (Fin n) ℚ)
    (h : toMx n n Ah.e = Tinv * A * T) :
    toMx n n (cplx Ah).e = Tinv.map ofR * A.map ofR * T.map ofR := by
  rw [cplx_toMx, h, Matrix.map_mul, Matrix.map_mul]

theorem out_map {n l : ℕ} (Ch : Mat ℚ) (C : Matrix (Fin l) (Fin n) ℚ) (T : Matrix (Fin n) (Fin n) ℚ)
    (h : toMx l n Ch.e = C * T) : toMx l n (cplx Ch).e = C.map ofR * T.map ofR := by
  rw [cplx_toMx, h, Matrix.map_mul]

/-- similar matrices have the same characteristic polynomial (same eigenvalues with the same
    algebraic multiplicities) -/
theorem charpoly_similar {n : ℕ} {R : Type} [CommRing R] (A T Tinv : Matrix (Fin n) (Fin n) R)
    (hT : T * Tinv = 1) : (Tinv * A * T).charpoly = A.charpoly := by
  rw [Matrix.mul_assoc, Matrix.charpoly_mul_comm, Matrix.mul_assoc, hT, Matrix.mul_one]

/-- **exact shape.** Realised pair `(T⁻¹·A·T, C·T)` over ℚ(i), `V[:, k]` an eigenvector of the realised
    state matrix for `lam`, `lam` a simple eigenvalue of `A` with eigenvector `w`: column `k` of the
    model's `shapesOf` (`ac2mp`) is `normalise (C·w)`. -/
theorem shape_exact {n l : ℕ} (A T Tinv : Matrix (Fin n) (Fin n) (Cpx ℚ))
    (C : ℕ → Fin n → Cpx ℚ) (Ahat Chat V : Mat (Cpx ℚ)) (hCr : Chat.r = l) (hCc : Chat.c = n)
    (hT : T * Tinv = 1) (hA : toMx n n Ahat.e = Tinv * A * T)
    (hC : toMx l n Chat.e = outMx l C * T)
    (k : ℕ) (hk : k < V.c) (lam : Cpx ℚ) (w : Fin n → Cpx ℚ)
    (hv : (toMx n n Ahat.e).mulVec (fun t : Fin n => V.e t.1 k) = lam • (fun t : Fin n => V.e t.1 k))
    (hvne : (fun t : Fin n => V.e t.1 k) ≠ 0)
    (hsimple : ∀ u, A.mulVec u = lam • u → ∃ c : Cpx ℚ, u = c • w) :
    (shapesOf Chat V).getD k [] = normalise ((List.range l).map fun a => ∑ t, C a t * w t) := by
  obtain ⟨c, hc0, hc⟩ := shape_of_similar A T Tinv (toMx n n Ahat.e) (outMx l C) (toMx l n Chat.e) 1
    hT hA (by rw [one_smul]; exact hC) _ w lam hv hvne hsimple
  rw [shapesOf_getD Chat V k hk, hCr, hCc]
  have hlist : ((List.range l).map fun i => sumTo n (fun t => Chat.e i t * V.e t k))
      = ((List.range l).map fun a => ∑ t, C a t * w t).map ((1 * c) * ·) := by
    rw [List.map_map]
    apply List.map_congr_left
    intro i hi
    have hi' : i < l := List.mem_range.mp hi
    have := congrFun hc ⟨i, hi'⟩
    simp only [Matrix.mulVec, dotProduct, toMx, outMx, Matrix.of_apply, Pi.smul_apply, smul_eq_mul,
      Finset.mul_sum] at this
    rw [sumTo_eq, Finset.sum_range]
    simpa [Function.comp, Finset.mul_sum] using this
  rw [hlist, normalise_scale _ (mul_ne_zero one_ne_zero hc0)]

/-! ### the pole map of `ac2mp` over ℂ -/

/-- `lam_c = np.log(lam_d) * (1 / dt)` -/
noncomputable def lamC (lamd : ℂ) (dt : ℝ) : ℂ := Complex.log lamd * ((1 / dt : ℝ) : ℂ)
/-- `fn = abs(lam_c) / (2π)` -/
noncomputable def fnR (lc : ℂ) : ℝ := ‖lc‖ / (2 * Real.pi)
/-- `xi = -(real(lam_c) / abs(lam_c))` -/
noncomputable def xiR (lc : ℂ) : ℝ := -(lc.re / ‖lc‖)

/-- the model's `fnOf`/`xiOf` are these two formulas on the recorded (rational) `lam_c`, `|lam_c|`,
    `2π` -/
theorem fnOf_cast (absLam twoPi : ℚ) : ((fnOf absLam twoPi : ℚ) : ℝ) = (absLam : ℝ) / (twoPi : ℝ) := by
  simp [fnOf]
theorem xiOf_cast (lam : Cpx ℚ) (absLam : ℚ) :
    ((xiOf lam absLam : ℚ) : ℝ) = -((toC lam).re / (absLam : ℝ)) := by
  simp [xiOf, toC]

/-- **exact pole map** (`pole_recovery` in the form of the code): below Nyquist the continuous pole
    is recovered exactly from its discrete image. -/
theorem lamC_exp (mu : ℂ) (dt : ℝ) (hdt : 0 < dt) (hN : |mu.im| * dt < Real.pi) :
    lamC (Complex.exp (mu * dt)) dt = mu := by
  have h := C01.pole_recovery mu dt hdt hN
  unfold lamC
  have e : ((1 / dt : ℝ) : ℂ) = (dt : ℂ)⁻¹ := by push_cast; rw [one_div]
  rw [e, ← div_eq_mul_inv]
  exact h

/-- a pole `μ = −ξ·ω + i·ω·√(1−ξ²)` (`ω > 0`, `|ξ| ≤ 1`: natural circular frequency and damping
    ratio) has `fn = ω/2π`, `xi = ξ` -/
theorem fn_xi_of_modal (om xi : ℝ) (hom : 0 < om) (hxi : xi ^ 2 ≤ 1) (sgn : ℝ) (hs : sgn ^ 2 = 1) :
    let mu : ℂ := ⟨-xi * om, sgn * om * Real.sqrt (1 - xi ^ 2)⟩
    fnR mu = om / (2 * Real.pi) ∧ xiR mu = xi := by
  intro mu
  have hnorm : ‖mu‖ = om := by
    rw [Complex.norm_eq_sqrt_sq_add_sq]
    have h1 : (Real.sqrt (1 - xi ^ 2)) ^ 2 = 1 - xi ^ 2 := Real.sq_sqrt (by linarith)
    have : mu.re ^ 2 + mu.im ^ 2 = om ^ 2 := by
      show (-xi * om) ^ 2 + (sgn * om * Real.sqrt (1 - xi ^ 2)) ^ 2 = om ^ 2
      rw [mul_pow, mul_pow, mul_pow, h1, hs]; ring
    rw [this, Real.sqrt_sq hom.le]
  constructor
  · unfold fnR; rw [hnorm]
  · unfold xiR; rw [hnorm]
    show -(-xi * om / om) = xi
    field_simp

/-- the two poles of a conjugate pair have the same `fn` and `xi` -/
theorem fn_xi_conj (mu : ℂ) : fnR ((starRingEnd ℂ) mu) = fnR mu ∧ xiR ((starRingEnd ℂ) mu) = xiR mu := by
  unfold fnR xiR
  rw [Complex.norm_conj, Complex.conj_re]
  exact ⟨rfl, rfl⟩

/-! ### conjugate pairs of a real system -/

/-- eigenpairs of a real matrix come in conjugate pairs -/
theorem eig_conj {n : ℕ} (A : Matrix (Fin n) (Fin n) ℚ) (lam : Cpx ℚ) (w : Fin n → Cpx ℚ)
    (h : (A.map ofR).mulVec w = lam • w) :
    (A.map ofR).mulVec (fun t => Cpx.conj (w t)) = Cpx.conj lam • (fun t => Cpx.conj (w t)) := by
  funext i
  have := congrArg conjR (congrFun h i)
  simp only [Matrix.mulVec, dotProduct, Matrix.map_apply, Pi.smul_apply, smul_eq_mul, map_sum, map_mul,
    conjR_ofR] at this ⊢
  exact this

theorem conj_conj (z : Cpx ℚ) : Cpx.conj (Cpx.conj z) = z := by
  apply Cpx.ext' <;> simp [Cpx.conj]

/-- … and simple eigenvalues stay simple -/
theorem simple_conj {n : ℕ} (A : Matrix (Fin n) (Fin n) ℚ) (lam : Cpx ℚ) (w : Fin n → Cpx ℚ)
    (hsimple : ∀ u, (A.map ofR).mulVec u = lam • u → ∃ c : Cpx ℚ, u = c • w) :
    ∀ u, (A.map ofR).mulVec u = Cpx.conj lam • u → ∃ c : Cpx ℚ, u = c • (fun t => Cpx.conj (w t)) := by
  intro u hu
  have h1 := eig_conj A (Cpx.conj lam) u hu
  rw [conj_conj] at h1
  obtain ⟨c, hc⟩ := hsimple _ h1
  refine ⟨Cpx.conj c, ?_⟩
  funext i
  have := congrArg Cpx.conj (congrFun hc i)
  rw [conj_conj] at this
  rw [this]
  show conjR (c * w i) = conjR c * conjR (w i)
  exact map_mul conjR _ _

theorem normSq_conj (z : Cpx ℚ) : normSq (Cpx.conj z) = normSq z := by
  simp [normSq, Cpx.conj]

theorem argmax_go_conj (l : List (Cpx ℚ)) (i best : ℕ) (bv : ℚ) :
    argmaxNormSq.go (l.map Cpx.conj) i best bv = argmaxNormSq.go l i best bv := by
  induction l generalizing i best bv with
  | nil => rfl
  | cons x xs ih =>
    simp only [List.map_cons, argmaxNormSq.go, normSq_conj, ih]

theorem argmaxNormSq_conj (v : List (Cpx ℚ)) : argmaxNormSq (v.map Cpx.conj) = argmaxNormSq v := by
  cases v with
  | nil => rfl
  | cons x xs => simp only [List.map_cons, argmaxNormSq, normSq_conj, argmax_go_conj]

/-- the unity normalisation commutes with conjugation -/
theorem normalise_conj (v : List (Cpx ℚ)) : normalise (v.map Cpx.conj) = (normalise v).map Cpx.conj := by
  unfold normalise
  rw [argmaxNormSq_conj, List.map_map, List.map_map]
  apply List.map_congr_left
  intro x _
  have hp : (v.map Cpx.conj).getD (argmaxNormSq v) 0 = Cpx.conj (v.getD (argmaxNormSq v) 0) := by
    simp only [List.getD_eq_getElem?_getD, List.getElem?_map]
    cases v[argmaxNormSq v]? with
    | none => apply Cpx.ext' <;> simp [Cpx.conj]
    | some y => rfl
  simp only [Function.comp, hp]
  show conjR x / conjR _ = conjR (x / _)
  rw [map_div₀]

end modal

/-! ## eigenvalues are roots of the characteristic polynomial; the pole table of `SSI_poles` -/
section tables

/-- an eigenvalue (with a non-zero eigenvector) is a root of the characteristic polynomial -/
theorem eig_isRoot {R : Type} [Field R] {n : ℕ} (M : Matrix (Fin n) (Fin n) R) (lam : R)
    (v : Fin n → R) (hv : v ≠ 0) (h : M.mulVec v = lam • v) : Polynomial.eval lam M.charpoly = 0 := by
  rw [Matrix.eval_charpoly]
  apply Matrix.exists_mulVec_eq_zero_iff.mp
  refine ⟨v, hv, ?_⟩
  rw [Matrix.sub_mulVec, h]
  simp [Matrix.scalar_apply]

/-- a root of `∏_k (X − lams k)` is one of the `lams k` -/
theorem root_of_prod {R : Type} [Field R] {n : ℕ} (lams : ℕ → R) (lam : R)
    (h : Polynomial.eval lam (∏ k : Fin n, (Polynomial.X - Polynomial.C (lams k.1))) = 0) :
    ∃ k, k < n ∧ lams k = lam := by
  rw [Polynomial.eval_prod, Finset.prod_eq_zero_iff] at h
  obtain ⟨k, _, hk⟩ := h
  simp only [Polynomial.eval_sub, Polynomial.eval_X, Polynomial.eval_C] at hk
  exact ⟨k.1, k.2, (sub_eq_zero.mp hk).symm⟩

/-- the frequency table of `SSI_poles` as the `Mat NR` the extraction model reads: `ordmax` rows,
    `ordmax + 1` columns, column `c` holding the values of order `c` (`polesTable`) -/
def tableMat (ordmax : ℕ) (perOrder : ℕ → List ℚ) : Mat NR :=
  ⟨ordmax, ordmax + 1, fun r c => ((polesTable ordmax perOrder).getD r []).getD c none⟩

theorem tableMat_cell (ordmax : ℕ) (perOrder : ℕ → List ℚ) (r c : ℕ) (hr : r < ordmax)
    (hc1 : 1 ≤ c) (hc : c ≤ ordmax) : (tableMat ordmax perOrder).e r c = (perOrder c)[r]? := by
  have hc' : c < ordmax + 1 := by omega
  simp [tableMat, polesTable, List.getD_eq_getElem?_getD, List.getElem?_map, List.getElem?_range hr,
    List.getElem?_range hc', hc1]

end tables

end PV.FreeVib
