import PyomaVerif.Model.HcProg
/-! Soundness of the abstract interpreter of `Model/HcProg.lean` (no Mathlib needed). -/
namespace PV.Hc

variable {Idx Val : Type}

/-- criterion `c` evaluated on the *unfiltered* tables -/
def critOrig (S : Sem Idx Val) (c : Crit) (i : Idx) : Bool :=
  if c = Crit.conj then S.conjT (S.orig .lam) i else S.cell c (S.orig (critTbl c) i)

def allCrit (S : Sem Idx Val) (cs : List Crit) (i : Idx) : Bool := cs.all (fun c => critOrig S c i)

/-- table `o` of the unfiltered solution, blanked wherever one of `cs` fails -/
def denoteTbl (S : Sem Idx Val) (o : Tbl) (cs : List Crit) : Idx → Option Val :=
  fun i => if allCrit S cs i then S.orig o i else none

def denoteO (S : Sem Idx Val) : Option (Tbl × List Crit) → Option (Idx → Option Val)
  | some (o, cs) => some (denoteTbl S o cs)
  | none => none

def denote (S : Sem Idx Val) : AVal → CVal Idx Val
  | .tbl o cs => .tbl (denoteTbl S o cs)
  | .mask cs => .mask (allCrit S cs)
  | .none => .none
  | .lst l => .lst (l.map (denoteO S))

/-- every variable the abstract environment knows holds the denotation of its abstract value -/
def Rel (S : Sem Idx Val) (a : AEnv) (e : CEnv Idx Val) : Prop :=
  ∀ x v, a.get x = some v → e x = some (denote S v)

theorem get_set_eq (a : AEnv) (x : Var) (v : AVal) : (a.set x v).get x = some v := by
  simp [AEnv.get, AEnv.set]

theorem get_set_ne (a : AEnv) (x y : Var) (v : AVal) (h : y ≠ x) : (a.set x v).get y = a.get y := by
  simp [AEnv.get, AEnv.set, Ne.symm h]

theorem Rel.set {S : Sem Idx Val} {a : AEnv} {e : CEnv Idx Val} (h : Rel S a e) (x : Var)
    (av : AVal) (cv : CVal Idx Val) (hv : cv = denote S av) : Rel S (a.set x av) (e.set x cv) := by
  intro y v hy
  by_cases hxy : y = x
  · subst hxy
    rw [get_set_eq] at hy
    cases hy
    simp [CEnv.set, hv]
  · rw [get_set_ne _ _ _ _ hxy] at hy
    simp [CEnv.set, hxy, h y v hy]

theorem maskTbl_denote (S : Sem Idx Val) (o : Tbl) (cs ms : List Crit) :
    maskTbl (allCrit S ms) (denoteTbl S o cs) = denoteTbl S o (ms ++ cs) := by
  funext i
  simp only [maskTbl, denoteTbl, allCrit, List.all_append]
  by_cases h1 : (ms.all fun c => critOrig S c i) = true <;>
    by_cases h2 : (cs.all fun c => critOrig S c i) = true <;> simp [h1, h2]

theorem allCrit_cons (S : Sem Idx Val) (c : Crit) (cs : List Crit) (i : Idx) :
    allCrit S (c :: cs) i = (critOrig S c i && allCrit S cs i) := by
  simp [allCrit]

theorem cell_denote (S : Sem Idx Val) (c : Crit) (hc : c ≠ Crit.conj) (o : Tbl) (ho : o = critTbl c)
    (cs : List Crit) (i : Idx) :
    S.cell c (denoteTbl S o cs i) = allCrit S (c :: cs) i := by
  subst ho
  rw [allCrit_cons]
  unfold denoteTbl
  by_cases h2 : allCrit S cs i = true
  · simp [h2, critOrig, hc]
  · have h3 : allCrit S cs i = false := by simpa using h2
    simp [h3, S.cell_none c hc]

theorem conj_denote (S : Sem Idx Val) : S.conjT (denoteTbl S .lam []) = allCrit S [.conj] := by
  funext i
  have : denoteTbl S .lam [] = S.orig .lam := by funext j; simp [denoteTbl, allCrit]
  rw [this]
  simp [allCrit, critOrig]

theorem aLookList_rel {S : Sem Idx Val} {a : AEnv} {e : CEnv Idx Val} (h : Rel S a e) :
    ∀ (xs : List Var) (r : List (Option (Tbl × List Crit))), aLookList a xs = some r →
      lookList e xs = some (r.map (denoteO S)) := by
  intro xs
  induction xs with
  | nil => intro r hr; simp [aLookList] at hr; subst hr; simp [lookList]
  | cons x xs ih =>
    intro r hr
    simp only [aLookList] at hr
    split at hr
    · rename_i o cs r' hx hxs
      cases hr
      have h1 := h x _ hx
      simp [lookList, h1, denote, ih r' hxs, denoteO]
    · rename_i r' hx hxs
      cases hr
      have h1 := h x _ hx
      simp [lookList, h1, denote, ih r' hxs, denoteO]
    · cases hr

theorem maskO_denote (S : Sem Idx Val) (ms : List Crit) (t : Option (Tbl × List Crit)) :
    maskO (allCrit S ms) (denoteO S t) = denote S (amaskO ms t) := by
  cases t with
  | none => rfl
  | some p =>
    obtain ⟨o, cs⟩ := p
    simp [maskO, denoteO, amaskO, denote, maskTbl_denote]

theorem rel_setMany {S : Sem Idx Val} :
    ∀ (xs : List Var) (avs : List AVal) (a : AEnv) (e : CEnv Idx Val), Rel S a e →
      Rel S (aSetMany a xs avs) (setMany e xs (avs.map (denote S))) := by
  intro xs
  induction xs with
  | nil => intro avs a e h; cases avs <;> simpa [aSetMany, setMany] using h
  | cons x xs ih =>
    intro avs a e h
    cases avs with
    | nil => simpa [aSetMany, setMany] using h
    | cons av avs =>
      simp only [aSetMany, setMany, List.map_cons]
      exact ih _ _ _ (h.set x av _ rfl)

/-- one statement: if the abstract step succeeds, the concrete step succeeds and the
    relation is preserved -/
theorem step_sound (S : Sem Idx Val) (a a' : AEnv) (e : CEnv Idx Val) (st : Stmt)
    (h : Rel S a e) (ha : aexec a st = some a') :
    ∃ e', cexec S e st = some e' ∧ Rel S a' e' := by
  cases st with
  | hc1 c dT dM src =>
    simp only [aexec] at ha
    split at ha
    · rename_i o cs hsrc
      split at ha
      · rename_i hcond
        cases ha
        have h1 := h src _ hsrc
        simp only [denote] at h1
        obtain ⟨ho, hcj⟩ := hcond
        refine ⟨_, by simp only [cexec, h1]; rfl, ?_⟩
        by_cases hc : c = Crit.conj
        · subst hc
          have hcs := hcj rfl
          subst hcs
          have ho' : o = Tbl.lam := ho
          subst ho'
          simp only [if_true]
          rw [conj_denote]
          apply Rel.set
          · apply Rel.set h
            simp only [denote]
            rw [maskTbl_denote]; rfl
          · rfl
        · simp only [if_neg hc]
          have hm : (fun i => S.cell c (denoteTbl S o cs i)) = allCrit S (c :: cs) := by
            funext i; exact cell_denote S c hc o ho cs i
          rw [hm]
          apply Rel.set
          · apply Rel.set h
            simp only [denote]
            rw [maskTbl_denote]
            -- (c :: cs) ++ cs and c :: cs denote the same table
            congr 1
            funext i
            simp only [denoteTbl, allCrit, List.all_append, List.all_cons]
            by_cases hcs : (cs.all fun c => critOrig S c i) = true <;> simp [hcs]
          · rfl
      · cases ha
    · cases ha
  | hcPhi d3 d4 src tMpc tMpd =>
    simp only [aexec] at ha
    split at ha
    · rename_i o cs hsrc
      split at ha
      · rename_i ho
        cases ha
        have h1 := h src _ hsrc
        simp only [denote] at h1
        refine ⟨_, by simp only [cexec, h1]; rfl, ?_⟩
        have hm3 : (fun i => S.cell (.mpd tMpd) (denoteTbl S o cs i)) = allCrit S (.mpd tMpd :: cs) := by
          funext i; exact cell_denote S (.mpd tMpd) (by simp) o ho cs i
        have hm4 : (fun i => S.cell (.mpc tMpc) (denoteTbl S o cs i)) = allCrit S (.mpc tMpc :: cs) := by
          funext i; exact cell_denote S (.mpc tMpc) (by simp) o ho cs i
        rw [hm3, hm4]
        apply Rel.set
        · apply Rel.set h; rfl
        · rfl
      · cases ha
    · cases ha
  | bind l vs =>
    simp only [aexec] at ha
    split at ha
    · rename_i ts hts
      cases ha
      refine ⟨_, by simp only [cexec, aLookList_rel h vs ts hts]; rfl, ?_⟩
      apply Rel.set h; rfl
    · cases ha
  | apply dsts l m =>
    simp only [aexec] at ha
    split at ha
    · rename_i ms ts hm hl
      split at ha
      · rename_i hlen
        cases ha
        have h1 := h m _ hm
        have h2 := h l _ hl
        simp only [denote] at h1 h2
        refine ⟨_, by simp only [cexec, h1, h2, List.length_map, hlen, if_true]; rfl, ?_⟩
        have : (ts.map (denoteO S)).map (maskO (allCrit S ms)) = (ts.map (amaskO ms)).map (denote S) := by
          simp only [List.map_map]
          apply List.map_congr_left
          intro t _
          exact maskO_denote S ms t
        rw [this]
        exact rel_setMany _ _ _ _ h
      · cases ha
    · cases ha
  | blank x m =>
    simp only [aexec] at ha
    split at ha
    · rename_i o cs ms hx hm
      cases ha
      have h1 := h x _ hx
      have h2 := h m _ hm
      simp only [denote] at h1 h2
      refine ⟨_, by simp only [cexec, h1, h2]; rfl, ?_⟩
      apply Rel.set h
      simp only [denote]
      rw [maskTbl_denote]
    · cases ha

/-- **Soundness of the abstract interpreter**, for every program, all tables and thresholds. -/
theorem arun_sound (S : Sem Idx Val) : ∀ (prog : List Stmt) (a a' : AEnv) (e : CEnv Idx Val),
    Rel S a e → arun a prog = some a' → ∃ e', crun S e prog = some e' ∧ Rel S a' e' := by
  intro prog
  induction prog with
  | nil => intro a a' e h ha; simp [arun] at ha; subst ha; exact ⟨e, rfl, h⟩
  | cons st prog ih =>
    intro a a' e h ha
    simp only [arun] at ha
    split at ha
    · rename_i a1 h1
      obtain ⟨e1, he1, hr1⟩ := step_sound S a a1 e st h h1
      obtain ⟨e2, he2, hr2⟩ := ih a1 a' e1 hr1 ha
      exact ⟨e2, by simp [crun, he1, he2], hr2⟩
    · cases ha

theorem sameSet_allCrit (S : Sem Idx Val) (cs want : List Crit) (h : sameSet cs want = true) (i : Idx) :
    allCrit S cs i = allCrit S want i := by
  simp only [sameSet, Bool.and_eq_true, List.all_eq_true, decide_eq_true_eq] at h
  obtain ⟨h1, h2⟩ := h
  simp only [allCrit]
  by_cases hw : (want.all fun c => critOrig S c i) = true
  · rw [hw]
    simp only [List.all_eq_true] at hw ⊢
    intro c hc; exact hw c (h1 c hc)
  · have hw' : (want.all fun c => critOrig S c i) = false := by simpa using hw
    rw [hw']
    simp only [List.all_eq_false] at hw' ⊢
    obtain ⟨c, hc, hcf⟩ := hw'
    exact ⟨c, h2 c hc, hcf⟩

end PV.Hc
