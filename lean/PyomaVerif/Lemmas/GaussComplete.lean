import PyomaVerif.Lemmas.PlscfChain
import Std.Tactic.Do
/-!
# Completeness of the exact elimination `gaussJordan` (model of `np.linalg.solve`)

`Lemmas/Plscf.lean` proves soundness (`solveChecked` returns only exact solutions).  Here the other
direction needed for "orders above the true one": **if `gaussJordan n c A B` returns, `A` has a left
inverse** (hence is injective) — numpy's `LinAlgError: Singular matrix` is the model's `none`.

The imperative model is verified as written (`Std.Do`, `mvcgen`) with the row-operation invariant
`rows[:, :n] = E·A`, unit columns left of the current pivot column.
-/
open Finset Std.Do
namespace PV.Plscf

variable {K : Type}

/-! ## arrays -/
section arrays
variable [Inhabited K]

/-- entry `(i, j)` of the working array -/
def R (rows : Array (Array K)) (i j : Nat) : K := (rows[i]!)[j]!

/-- `n` rows of width `w` -/
def Sized (n w : Nat) (rows : Array (Array K)) : Prop :=
  rows.size = n ∧ ∀ i < n, (rows[i]!).size = w

theorem get_set! {α : Type} [Inhabited α] (a : Array α) (i k : Nat) (v : α) (hi : i < a.size) :
    (a.set! i v)[k]! = if i = k then v else a[k]! := by
  by_cases h : i = k
  · subst h; simp [hi]
  · simp [h, Array.getElem!_eq_getD, Array.getD]
    split <;> simp_all

theorem get_ofFn! {α : Type} [Inhabited α] (n : Nat) (f : Fin n → α) (i : Nat) (hi : i < n) :
    (Array.ofFn f)[i]! = f ⟨i, hi⟩ := by
  simp [hi]

theorem get_map! {α : Type} [Inhabited α] (g : α → α) (a : Array α) (i : Nat) (hi : i < a.size) :
    (a.map g)[i]! = g a[i]! := by
  simp [hi]

theorem sized_init (n c : Nat) (A B : Nat → Nat → K) :
    Sized n (n + c) (Array.ofFn (n := n) fun i => Array.ofFn (n := n + c) fun j =>
      if j.1 < n then A i.1 j.1 else B i.1 (j.1 - n))
    ∧ ∀ i < n, ∀ j < n, R (Array.ofFn (n := n) fun i => Array.ofFn (n := n + c) fun j =>
      if j.1 < n then A i.1 j.1 else B i.1 (j.1 - n)) i j = A i j := by
  refine ⟨⟨by simp, ?_⟩, ?_⟩
  · intro i hi
    rw [get_ofFn! n _ i hi]; simp
  · intro i hi j hj
    unfold R
    rw [get_ofFn! n _ i hi, get_ofFn! (n + c) _ j (by omega)]
    simp [hj]

theorem swapnorm (n w : Nat) (rows : Array (Array K)) (pr col : Nat) (g : K → K)
    (hs : Sized n w rows) (hpr : pr < n) (hcol : col < n) :
    Sized n w (((rows.set! pr rows[col]!).set! col rows[pr]!).set! col (rows[pr]!.map g))
    ∧ ∀ i < n, ∀ j < w,
        R (((rows.set! pr rows[col]!).set! col rows[pr]!).set! col (rows[pr]!.map g)) i j
          = if i = col then g (R rows pr j) else if i = pr then R rows col j else R rows i j := by
  obtain ⟨h1, h2⟩ := hs
  have s1 : (rows.set! pr rows[col]!).size = n := by simp [h1]
  have s2 : ((rows.set! pr rows[col]!).set! col rows[pr]!).size = n := by simp [h1]
  have key : ∀ i < n, (((rows.set! pr rows[col]!).set! col rows[pr]!).set! col (rows[pr]!.map g))[i]!
      = if i = col then rows[pr]!.map g else if i = pr then rows[col]! else rows[i]! := by
    intro i _
    rw [get_set! _ col i _ (by omega)]
    by_cases hic : col = i
    · subst hic; simp
    · rw [if_neg hic, get_set! _ col i _ (by omega), if_neg hic, get_set! _ pr i _ (by omega)]
      have : ¬ i = col := fun h => hic h.symm
      rw [if_neg this]
      by_cases hip : pr = i
      · subst hip; simp
      · have : ¬ i = pr := fun h => hip h.symm
        rw [if_neg hip, if_neg this]
  refine ⟨⟨by simp [h1], ?_⟩, ?_⟩
  · intro i hi
    rw [key i hi]
    split
    · simp [h2 pr hpr]
    · split
      · exact h2 col hcol
      · exact h2 i hi
  · intro i hi j hj
    unfold R
    rw [key i hi]
    split
    · rw [get_map! g _ j (by rw [h2 pr hpr]; exact hj)]
    · split <;> rfl

theorem elimrow (n w : Nat) (rows : Array (Array K)) (r : Nat) (v : Fin w → K)
    (hs : Sized n w rows) (hr : r < n) :
    Sized n w (rows.set! r (Array.ofFn v))
    ∧ ∀ i < n, ∀ j, (hj : j < w) →
        R (rows.set! r (Array.ofFn v)) i j = if i = r then v ⟨j, hj⟩ else R rows i j := by
  obtain ⟨h1, h2⟩ := hs
  have key : ∀ i < n, (rows.set! r (Array.ofFn v))[i]! = if i = r then Array.ofFn v else rows[i]! := by
    intro i _
    rw [get_set! _ r i _ (by omega)]
    by_cases h : r = i
    · subst h; simp
    · have : ¬ i = r := fun h' => h h'.symm
      rw [if_neg h, if_neg this]
  refine ⟨⟨by simp [h1], ?_⟩, ?_⟩
  · intro i hi
    rw [key i hi]
    split
    · simp
    · exact h2 i hi
  · intro i hi j hj
    unfold R
    rw [key i hi]
    split
    · rw [get_ofFn! w v j hj]
    · rfl

end arrays

/-! ## the invariants, on entry functions -/
section inv
variable [Field K]

/-- the left `n × n` block is `E·A` for some `E` -/
def LeftOf (n : Nat) (A ρ : Nat → Nat → K) : Prop :=
  ∃ E : Nat → Nat → K, ∀ i < n, ∀ j < n, ρ i j = ∑ t ∈ range n, E i t * A t j

/-- the first `col` columns are unit vectors -/
def UnitCols (n col : Nat) (ρ : Nat → Nat → K) : Prop :=
  ∀ j < col, ∀ i < n, ρ i j = if i = j then 1 else 0

theorem LeftOf_init (n : Nat) (A ρ : Nat → Nat → K) (h : ∀ i < n, ∀ j < n, ρ i j = A i j) :
    LeftOf n A ρ := by
  refine ⟨fun i t => if i = t then 1 else 0, ?_⟩
  intro i hi j hj
  rw [h i hi j hj]
  simp [Finset.sum_ite_eq, hi]

theorem LeftOf_swapnorm (n : Nat) (A ρ ρ' : Nat → Nat → K) (pr col : Nat) (d : K)
    (hpr : pr < n) (hcol : col < n)
    (h' : ∀ i < n, ∀ j < n, ρ' i j = if i = col then ρ pr j / d else if i = pr then ρ col j else ρ i j)
    (h : LeftOf n A ρ) : LeftOf n A ρ' := by
  obtain ⟨E, hE⟩ := h
  refine ⟨fun i t => if i = col then E pr t / d else if i = pr then E col t else E i t, ?_⟩
  intro i hi j hj
  rw [h' i hi j hj]
  by_cases h1 : i = col
  · simp only [if_pos h1]
    rw [hE pr hpr j hj, div_eq_mul_inv, Finset.sum_mul]
    apply Finset.sum_congr rfl
    intro t _; ring
  · simp only [if_neg h1]
    by_cases h2 : i = pr
    · simp only [if_pos h2]; exact hE col hcol j hj
    · simp only [if_neg h2]; exact hE i hi j hj

theorem LeftOf_elim (n : Nat) (A ρ ρ' : Nat → Nat → K) (r col : Nat) (f : K)
    (hr : r < n) (hcol : col < n)
    (h' : ∀ i < n, ∀ j < n, ρ' i j = if i = r then ρ r j - f * ρ col j else ρ i j)
    (h : LeftOf n A ρ) : LeftOf n A ρ' := by
  obtain ⟨E, hE⟩ := h
  refine ⟨fun i t => if i = r then E r t - f * E col t else E i t, ?_⟩
  intro i hi j hj
  rw [h' i hi j hj]
  by_cases h1 : i = r
  · simp only [if_pos h1]
    rw [hE r hr j hj, hE col hcol j hj, Finset.mul_sum, ← Finset.sum_sub_distrib]
    apply Finset.sum_congr rfl
    intro t _; ring
  · simp only [if_neg h1]; exact hE i hi j hj

/-- all `n` columns unit and `ρ = E·A` on the block: `E` is a left inverse of `A` -/
theorem leftInv_of_inv (n : Nat) (A ρ : Nat → Nat → K) (h1 : LeftOf n A ρ) (h2 : UnitCols n n ρ) :
    ∃ E : Nat → Nat → K, ∀ i < n, ∀ j < n,
      ∑ t ∈ range n, E i t * A t j = if i = j then 1 else 0 := by
  obtain ⟨E, hE⟩ := h1
  exact ⟨E, fun i hi j hj => by rw [← hE i hi j hj, h2 j hj i hi]⟩

end inv

theorem range'_split {a k cur : Nat} {pref suff : List Nat}
    (h : List.range' a k = pref ++ cur :: suff) : cur = a + pref.length ∧ pref.length < k := by
  have hl : (List.range' a k).length = (pref ++ cur :: suff).length := by rw [h]
  simp at hl
  have hg : (List.range' a k)[pref.length]? = some cur := by rw [h]; simp
  rw [List.getElem?_range' (by omega)] at hg
  simp at hg
  omega

/-! ## the elimination, verified as written -/

theorem legacy_split {a n cur : Nat} {pref suff : List Nat}
    (h : ([a:n] : Std.Legacy.Range).toList = pref ++ cur :: suff) :
    cur = a + pref.length ∧ cur < n := by
  unfold Std.Legacy.Range.toList at h
  simp at h
  have := range'_split h
  omega

theorem legacy_mem {n i : Nat} (h : i < n) : i ∈ ([:n] : Std.Legacy.Range).toList := by
  unfold Std.Legacy.Range.toList
  simp [List.mem_range']
  omega

section main
variable [Field K] [DecidableEq K] [Inhabited K]

set_option mvcgen.warning false in
/-- **Completeness of `gaussJordan`**: a returned elimination certifies a left inverse of `A`. -/
theorem gaussJordan_leftInv (n c : Nat) (A B : Nat → Nat → K) (rows : Array (Array K))
    (h : gaussJordan n c A B = some rows) :
    ∃ E : Nat → Nat → K, ∀ i < n, ∀ j < n,
      ∑ t ∈ range n, E i t * A t j = if i = j then 1 else 0 := by
  generalize hr : gaussJordan n c A B = r at h
  unfold gaussJordan at hr
  revert h
  apply Id.of_wp_run_eq hr
  clear hr
  mvcgen
  case inv1 =>
    exact ⇓⟨xs, b⟩ => ⌜(b.1 = some none ∧ xs.suffix = []) ∨ (b.1 = none ∧ Sized n (n + c) b.2
      ∧ LeftOf n A (R b.2) ∧ UnitCols n xs.prefix.length (R b.2))⌝
  case inv2 =>
    rename_i pref cur suff hsplit b rws piv hinv
    exact ⇓⟨xs, piv⟩ => ⌜∀ pr, piv = some pr → cur ≤ pr ∧ pr < n ∧ R b.2 pr cur ≠ 0⌝
  case inv3 =>
    rename_i pref cur suff hsplit b rws0 piv0 hinv r0 pr hr0 rowP rowC rws1 d rowN rws2 hpiv
    exact ⇓⟨xs, rws⟩ => ⌜Sized n (n + c) rws ∧ LeftOf n A (R rws) ∧ UnitCols n cur (R rws)
      ∧ (∀ j < n + c, R rws cur j = rowN[j]!) ∧ R rws cur cur = 1
      ∧ (∀ i < n, i ∈ xs.prefix → i ≠ cur → R rws i cur = 0)⌝
  case vc1 =>
    rename_i pref cur suff hsplit b rws piv hinv pref' cur' suff' hsplit' piv' hcond hinv'
    obtain ⟨hc1, hc2⟩ := legacy_split hsplit'
    simp only [Bool.and_eq_true, decide_eq_true_eq] at hcond
    intro pr hpr
    injection hpr with hpr
    subst hpr
    exact ⟨by omega, hc2, hcond.2⟩
  case vc2 =>
    rename_i pref cur suff hsplit b rws piv hinv pref' cur' suff' hsplit' piv' hcond hinv'
    exact hinv'
  case vc3 =>
    intro pr hpr
    exact absurd hpr (by simp)
  case vc4 =>
    left
    exact ⟨rfl, rfl⟩
  case vc5 =>
    rename_i pref cur suff hsplit b rws0 piv0 hinv r0 pr hr0 rowP rowC rws1 d rowN rws2 hpiv
      pref' cur' suff' hsplit' b' hne f hf hinv'
    obtain ⟨hS, hL, hU, hN, h1, hZ⟩ := hinv'
    have hcur : cur < n := (legacy_split hsplit).2
    have hcur' : cur' < n := (legacy_split hsplit').2
    obtain ⟨hS', hR'⟩ := elimrow n (n + c) b' cur'
      (fun j => (b'[cur']!)[j.1]! - f * rowN[j.1]!) hS hcur'
    have hR'' : ∀ i < n, ∀ j < n + c,
        R (b'.set! cur' (Array.ofFn fun j : Fin (n + c) => (b'[cur']!)[j.1]! - f * rowN[j.1]!)) i j
          = if i = cur' then R b' cur' j - R b' cur' cur * R b' cur j else R b' i j := by
      intro i hi j hj
      rw [hR' i hi j hj]
      split
      · rw [hN j hj]; rfl
      · rfl
    refine ⟨hS', ?_, ?_, ?_, ?_, ?_⟩
    · exact LeftOf_elim n A (R b') _ cur' cur (R b' cur' cur) hcur' hcur
        (fun i hi j hj => hR'' i hi j (by omega)) hL
    · intro j hj i hi
      rw [hR'' i hi j (by omega)]
      split
      · rename_i hic
        rw [hU j hj cur hcur, if_neg (by omega), mul_zero, sub_zero, hU j hj cur' hcur', hic]
      · exact hU j hj i hi
    · intro j hj
      rw [hR'' cur hcur j hj, if_neg (fun h => hne h.symm)]
      exact hN j hj
    · rw [hR'' cur hcur cur (by omega), if_neg (fun h => hne h.symm)]
      exact h1
    · intro i hi hmem hic
      rw [hR'' i hi cur (by omega)]
      split
      · rw [h1, mul_one, sub_self]
      · rename_i hne'
        rcases List.mem_append.mp hmem with hm | hm
        · exact hZ i hi hm hic
        · exact absurd (List.mem_singleton.mp hm) hne'
  case vc6 =>
    rename_i pref cur suff hsplit b rws0 piv0 hinv r0 pr hr0 rowP rowC rws1 d rowN rws2 hpiv
      pref' cur' suff' hsplit' b' hne f hf hinv'
    obtain ⟨hS, hL, hU, hN, h1, hZ⟩ := hinv'
    refine ⟨hS, hL, hU, hN, h1, ?_⟩
    intro i hi hmem hic
    rcases List.mem_append.mp hmem with hm | hm
    · exact hZ i hi hm hic
    · rw [List.mem_singleton.mp hm]
      exact not_not.mp hf
  case vc7 =>
    rename_i pref cur suff hsplit b rws0 piv0 hinv r0 pr hr0 rowP rowC rws1 d rowN rws2 hpiv
      pref' cur' suff' hsplit' b' heq hinv'
    obtain ⟨hS, hL, hU, hN, h1, hZ⟩ := hinv'
    refine ⟨hS, hL, hU, hN, h1, ?_⟩
    intro i hi hmem hic
    rcases List.mem_append.mp hmem with hm | hm
    · exact hZ i hi hm hic
    · exact absurd ((List.mem_singleton.mp hm).trans (not_not.mp heq)) hic
  case vc8 =>
    rename_i pref cur suff hsplit b rws0 piv0 hinv r0 pr hr0 rowP rowC rws1 d rowN rws2 hpiv
    have hcur : cur < n := (legacy_split hsplit).2
    have hlen : pref.length = cur := by have := (legacy_split hsplit).1; omega
    rcases hinv with ⟨-, hbad⟩ | ⟨-, hS, hL, hU⟩
    · exact absurd hbad (by simp)
    obtain ⟨hp1, hp2, hp3⟩ := hpiv pr rfl
    obtain ⟨hS', hR'⟩ := swapnorm n (n + c) b.2 pr cur (fun x => x / d) hS hp2 hcur
    have hd : d = R b.2 pr cur := rfl
    rw [hlen] at hU
    refine ⟨hS', ?_, ?_, ?_, ?_, ?_⟩
    · exact LeftOf_swapnorm n A (R b.2) _ pr cur d hp2 hcur
        (fun i hi j hj => hR' i hi j (by omega)) hL
    · intro j hj i hi
      rw [hR' i hi j (by omega)]
      split
      · rename_i hic
        rw [hU j hj pr hp2, if_neg (by omega), zero_div, hic, if_neg (by omega)]
      · split
        · rename_i hip
          rw [hU j hj cur hcur, if_neg (by omega), hip, if_neg (by omega)]
        · exact hU j hj i hi
    · intro j hj
      rw [hR' cur hcur j hj, if_pos rfl]
      show R b.2 pr j / d = (Array.map (fun x => x / d) (b.2[pr]!))[j]!
      rw [get_map! _ _ j (by rw [hS.2 pr hp2]; exact hj)]
      rfl
    · rw [hR' cur hcur cur (by omega), if_pos rfl, ← hd]
      exact div_self (by rw [hd]; exact hp3)
    · intro i _ hmem
      exact absurd hmem (by simp)
  case vc9 =>
    rename_i pref cur suff hsplit b rws0 piv0 hinv r0 pr hr0 rowP rowC rws1 d rowN rws2 hpiv
      rfin hfin
    have hlen : pref.length = cur := by have := (legacy_split hsplit).1; omega
    obtain ⟨hS, hL, hU, hN, h1, hZ⟩ := hfin
    right
    refine ⟨rfl, hS, hL, ?_⟩
    intro j hj i hi
    have hj' : j < cur + 1 := by simpa [hlen] using hj
    by_cases hjc : j = cur
    · subst hjc
      by_cases hic : i = j
      · subst hic; rw [h1, if_pos rfl]
      · rw [hZ i hi (legacy_mem hi) hic, if_neg hic]
    · exact hU j (by omega) i hi
  case vc10 =>
    right
    obtain ⟨hS, hR⟩ := sized_init n c A B
    exact ⟨rfl, hS, LeftOf_init n A _ hR, fun j hj => absurd hj (by simp)⟩
  case vc11 =>
    rename_i b a ha hinv
    intro hres
    rcases hinv with ⟨hb, -⟩ | ⟨hb, -⟩
    · rw [hb] at ha
      injection ha with ha
      rw [← ha] at hres
      exact absurd hres (by simp)
    · rw [hb] at ha
      exact absurd ha (by simp)
  case vc12 =>
    rename_i b hb hinv
    intro _
    rcases hinv with ⟨hb', -⟩ | ⟨-, -, hL, hU⟩
    · rw [hb] at hb'
      exact absurd hb' (by simp)
    · have hlen : ([:n] : Std.Legacy.Range).toList.length = n := by
        simp [Std.Legacy.Range.toList]
      rw [hlen] at hU
      exact leftInv_of_inv n A _ hL hU

/-- **Completeness of `solveChecked`** (model of `np.linalg.solve`): it returns only for an
    injective matrix — an exactly singular matrix gives `none` (numpy: `LinAlgError`). -/
theorem solveChecked_injective (d c : Nat) (M Rhs X : Nat → Nat → K)
    (h : solveChecked d c M Rhs = some X) (y : Nat → K)
    (hy : ∀ I < d, ∑ J ∈ range d, M I J * y J = 0) : ∀ J < d, y J = 0 := by
  unfold solveChecked at h
  split at h
  · exact absurd h (by simp)
  · rename_i rows hrows
    obtain ⟨E, hE⟩ := gaussJordan_leftInv d c M Rhs rows hrows
    exact inj_of_leftInv d M E hE y hy

end main

end PV.Plscf
