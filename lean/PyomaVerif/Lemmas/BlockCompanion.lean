import PyomaVerif.Model.Plscf
import PyomaVerif.Lemmas.Realise
import Mathlib.LinearAlgebra.Matrix.SchurComplement
import Mathlib.LinearAlgebra.Matrix.Charpoly.Basic
import Mathlib.Tactic.NoncommRing
import Mathlib.Algebra.BigOperators.Fin
/-!
# Determinant of a block companion pencil (helper lemmas for `Props/C05Charpoly.lean`)

* `det_rot`, `det_peel`: an abstract block step.  For a selector pair `Y·Y' = 1` the block matrix
  `[[A, B], [-Y', D]]` with `Y·D = x•Y` has the determinant of `D` with its `Y`-rows replaced by
  `B + x•A·Y` (a product of block-unitriangular matrices; no permutation signs).
* `Mn n T x`: the `n`-block pencil with top block row `T 0 … T (n-1)`, `x` on the other diagonal
  blocks and `-I` on the block sub-diagonal; `det_Mn`: its determinant is
  `det (Σ_j x^(n-1-j) • T j)`, for every `n ≥ 1` and every block size, by induction on `n`.
* bridge: `X·I − toMx (companionA (n+1) m cnt P)` re-indexed by `finProdFinEquiv` *is* `Mn` with top row
  `X·I + P 0, P 1, …` (`charmatrix_companionA`), hence `charpoly_companionA`, `charpoly_pure`,
  `charpoly_code`; `polyMx_eq_mul`: `A(X) = A_p · (monic polynomial of the solves)`.
-/
open Matrix

namespace PV.BlockCompanion
section abstract
variable {R : Type*} [CommRing R] {p q : Type*} [Fintype p] [DecidableEq p] [Fintype q] [DecidableEq q]

theorem det_rot (Y : Matrix p q R) (Y' : Matrix q p R) (h : Y * Y' = 1) :
    (fromBlocks (0 : Matrix p p R) (-Y) Y' (1 - Y' * Y)).det = 1 := by
  have e : fromBlocks (0 : Matrix p p R) (-Y) Y' (1 - Y' * Y)
      = fromBlocks 1 (-Y) 0 1 * fromBlocks 1 0 Y' 1 * fromBlocks 1 (-Y) 0 1 := by
    simp only [fromBlocks_multiply]
    congr 1
    · simp [h]
    · simp [h]
    · simp
    · simp [sub_eq_neg_add]
  rw [e, det_mul, det_mul, det_fromBlocks_zero₂₁, det_fromBlocks_zero₁₂]
  simp

theorem det_peel (Y : Matrix p q R) (Y' : Matrix q p R) (h : Y * Y' = 1) (x : R)
    (A : Matrix p p R) (B : Matrix p q R) (D : Matrix q q R) (hD : Y * D = x • Y) :
    (fromBlocks A B (-Y') D).det = (D - x • (Y' * Y) + Y' * (B + x • (A * Y))).det := by
  have hQ : (fromBlocks (1 : Matrix p p R) (x • Y) 0 (1 : Matrix q q R)).det = 1 := by
    rw [det_fromBlocks_zero₂₁]; simp
  have h3 : Y' * Y * Y' = Y' := by rw [Matrix.mul_assoc, h, Matrix.mul_one]
  have h4 : Y' * Y * D = x • (Y' * Y) := by rw [Matrix.mul_assoc, hD, Matrix.mul_smul]
  have key : fromBlocks (0 : Matrix p p R) (-Y) Y' (1 - Y' * Y)
        * (fromBlocks A B (-Y') D * fromBlocks (1 : Matrix p p R) (x • Y) 0 (1 : Matrix q q R))
      = fromBlocks 1 0 (Y' * A) (D - x • (Y' * Y) + Y' * (B + x • (A * Y))) := by
    simp only [fromBlocks_multiply]
    congr 1
    · simp [h]
    · simp only [Matrix.zero_mul, Matrix.mul_one, Matrix.neg_mul, Matrix.mul_neg,
        Matrix.mul_smul, Matrix.mul_add, neg_neg]
      rw [hD, ← Matrix.mul_assoc, h, Matrix.one_mul]
      simp
    · simp only [Matrix.mul_one, Matrix.mul_zero, add_zero, Matrix.sub_mul, Matrix.one_mul,
        Matrix.mul_neg, h3]
      simp
    · simp only [Matrix.mul_one, Matrix.sub_mul, Matrix.one_mul, Matrix.mul_add, Matrix.mul_neg,
        Matrix.neg_mul, Matrix.mul_smul, ← Matrix.mul_assoc, h3, h4]
      simp only [Matrix.mul_assoc]
      abel_nf
      simp
  calc (fromBlocks A B (-Y') D).det
      = (fromBlocks (0 : Matrix p p R) (-Y) Y' (1 - Y' * Y)).det
          * ((fromBlocks A B (-Y') D).det * (fromBlocks (1 : Matrix p p R) (x • Y) 0 (1 : Matrix q q R)).det) := by
        rw [det_rot Y Y' h, hQ]; ring
    _ = _ := by
        rw [← det_mul, ← det_mul, key, det_fromBlocks_zero₁₂]; simp
end abstract

variable {R : Type*} [CommRing R]

/-- first-block selector `[I 0 … 0]` -/
def Yp (R : Type*) [CommRing R] (n m : ℕ) : Matrix (Fin m) (Fin (n + 1) × Fin m) R :=
  of fun a jb => if jb.1 = 0 ∧ jb.2 = a then 1 else 0
/-- its transpose `[I; 0; …; 0]` -/
def Yq (R : Type*) [CommRing R] (n m : ℕ) : Matrix (Fin (n + 1) × Fin m) (Fin m) R :=
  of fun ia b => if ia.1 = 0 ∧ ia.2 = b then 1 else 0

theorem Yq_mul_apply {c : Type*} (n m : ℕ) (Z : Matrix (Fin m) c R) (i : Fin (n + 1)) (a : Fin m) (k : c) :
    (Yq R n m * Z) (i, a) k = if i = 0 then Z a k else 0 := by
  simp only [Matrix.mul_apply, Yq, of_apply]
  by_cases hi : i = 0
  · simp [hi]
  · simp [hi]

theorem mul_Yp_apply {c : Type*} (n m : ℕ) (W : Matrix c (Fin m) R) (k : c) (j : Fin (n + 1)) (b : Fin m) :
    (W * Yp R n m) k (j, b) = if j = 0 then W k b else 0 := by
  simp only [Matrix.mul_apply, Yp, of_apply]
  by_cases hj : j = 0
  · simp [hj]
  · simp [hj]

theorem Yp_mul_Yq (n m : ℕ) : Yp R n m * Yq R n m = 1 := by
  ext a b
  rw [Matrix.mul_apply]
  simp only [Yp, Yq, of_apply, Matrix.one_apply]
  rw [Fintype.sum_prod_type]
  simp [Fin.sum_univ_succ, eq_comm]

/-- the `n`-block pencil: top block row `T 0 … T (n-1)`; below it `x` on the block diagonal and
    `-I` on the block sub-diagonal -/
def Mn (n m : ℕ) (T : ℕ → Matrix (Fin m) (Fin m) R) (x : R) :
    Matrix (Fin n × Fin m) (Fin n × Fin m) R :=
  of fun ia jb =>
    if ia.1.val = 0 then T jb.1.val ia.2 jb.2
    else (if jb.1.val + 1 = ia.1.val ∧ jb.2 = ia.2 then -1 else 0) + (if jb = ia then x else 0)

/-- the lower-right part after removing the first block row and column -/
def Ln (n m : ℕ) (x : R) : Matrix (Fin n × Fin m) (Fin n × Fin m) R :=
  of fun ia jb =>
    (if jb.1.val + 1 = ia.1.val ∧ jb.2 = ia.2 then -1 else 0) + (if jb = ia then x else 0)

/-- top block row without its first block -/
def Bn (n m : ℕ) (T : ℕ → Matrix (Fin m) (Fin m) R) : Matrix (Fin m) (Fin n × Fin m) R :=
  of fun a jb => T (jb.1.val + 1) a jb.2

/-- split off the first block -/
def splitE (n m : ℕ) : Fin (n + 1) × Fin m ≃ Fin m ⊕ (Fin n × Fin m) where
  toFun ia := Fin.cases (Sum.inl ia.2) (fun i => Sum.inr (i, ia.2)) ia.1
  invFun s := Sum.elim (fun a => (0, a)) (fun ia => (ia.1.succ, ia.2)) s
  left_inv := by
    rintro ⟨i, a⟩
    refine Fin.cases ?_ (fun i => ?_) i <;> simp
  right_inv := by
    rintro (a | ⟨i, a⟩) <;> simp

theorem Mn_split (n m : ℕ) (T : ℕ → Matrix (Fin m) (Fin m) R) (x : R) :
    (Mn (n + 2) m T x).submatrix (splitE (n + 1) m).symm (splitE (n + 1) m).symm
      = fromBlocks (T 0) (Bn (n + 1) m T) (-Yq R n m) (Ln (n + 1) m x) := by
  ext (a | ⟨i, a⟩) (b | ⟨j, b⟩)
  · simp [Mn, splitE]
  · simp [Mn, splitE, Bn]
  · simp [Mn, splitE, Yq]
    have h0 : ¬ (0 = i.succ) := (Fin.succ_ne_zero i).symm
    simp only [h0, false_and, if_false, add_zero, eq_comm (a := b)]
    split_ifs <;> simp
  · simp [Mn, splitE, Ln]

theorem Yp_mul_Ln (n m : ℕ) (x : R) : Yp R n m * Ln (n + 1) m x = x • Yp R n m := by
  ext a ⟨j, b⟩
  rw [Matrix.mul_apply]
  simp only [Yp, Ln, of_apply, Matrix.smul_apply, smul_eq_mul]
  rw [Fintype.sum_prod_type, Fin.sum_univ_succ]
  have hz : ∀ i : Fin n, ¬ (i.succ = (0 : Fin (n + 1))) := fun i => Fin.succ_ne_zero i
  simp [hz, Prod.ext_iff, eq_comm]
  by_cases hj : j = 0
  · simp [hj]
  · simp [hj]

/-- the top row after one peeling step -/
def Tstep (m : ℕ) (T : ℕ → Matrix (Fin m) (Fin m) R) (x : R) : ℕ → Matrix (Fin m) (Fin m) R :=
  fun j => if j = 0 then x • T 0 + T 1 else T (j + 1)

theorem peel_eq (n m : ℕ) (T : ℕ → Matrix (Fin m) (Fin m) R) (x : R) :
    Ln (n + 1) m x - x • (Yq R n m * Yp R n m)
        + Yq R n m * (Bn (n + 1) m T + x • (T 0 * Yp R n m))
      = Mn (n + 1) m (Tstep m T x) x := by
  ext ⟨i, a⟩ ⟨j, b⟩
  simp only [Matrix.add_apply, Matrix.sub_apply, Matrix.smul_apply, Yq_mul_apply, mul_Yp_apply,
    smul_eq_mul]
  simp only [Ln, Bn, Mn, Tstep, Yq, of_apply, Prod.mk.injEq]
  by_cases hi : i = 0
  · subst hi
    by_cases hj : j = 0
    · subst hj
      by_cases hab : b = a
      · subst hab; simp [add_comm]
      · simp [hab, Ne.symm hab, add_comm]
    · have hj' : (j : ℕ) ≠ 0 := fun h => hj (Fin.ext h)
      simp [hj, hj']
  · have hi' : (i : ℕ) ≠ 0 := fun h => hi (Fin.ext h)
    simp [hi, hi']

/-- the matrix polynomial value `Σ_{j<n} x^(n-1-j) • T j` -/
def polyT (n m : ℕ) (T : ℕ → Matrix (Fin m) (Fin m) R) (x : R) : Matrix (Fin m) (Fin m) R :=
  ∑ j ∈ Finset.range n, x ^ (n - 1 - j) • T j

theorem polyT_step (n m : ℕ) (T : ℕ → Matrix (Fin m) (Fin m) R) (x : R) :
    polyT (n + 1) m (Tstep m T x) x = polyT (n + 2) m T x := by
  unfold polyT
  rw [Finset.sum_range_succ', Finset.sum_range_succ' _ (n + 1), Finset.sum_range_succ' _ n]
  simp only [Tstep, Nat.add_eq_zero_iff, one_ne_zero, and_false, if_false, if_true]
  rw [add_assoc]
  congr 1
  · apply Finset.sum_congr rfl
    intro j _
    congr 2
    omega
  · simp only [Nat.add_sub_cancel, Nat.sub_zero, zero_add, smul_add, smul_smul, ← pow_succ]
    rw [add_comm]
    congr 2

theorem det_Mn (m : ℕ) (x : R) : ∀ (n : ℕ) (T : ℕ → Matrix (Fin m) (Fin m) R),
    (Mn (n + 1) m T x).det = (polyT (n + 1) m T x).det := by
  intro n
  induction n with
  | zero =>
    intro T
    have e : (Mn 1 m T x).submatrix (Equiv.uniqueProd (Fin m) (Fin 1)).symm
        (Equiv.uniqueProd (Fin m) (Fin 1)).symm = T 0 := by
      ext a b
      simp [Mn]
    rw [← det_submatrix_equiv_self (Equiv.uniqueProd (Fin m) (Fin 1)).symm, e]
    simp [polyT]
  | succ n ih =>
    intro T
    rw [← polyT_step, ← ih, ← peel_eq, ← det_peel (Yp R n m) (Yq R n m) (Yp_mul_Yq n m) x _ _ _
      (Yp_mul_Ln n m x), ← Mn_split, det_submatrix_equiv_self]

/-! ## bridge to the model of `rmfd2ac` -/
section bridge
open Polynomial
open PV PV.Plscf
variable {K : Type} [CommRing K]

/-- coefficient block `j` of the model's stack as a Mathlib matrix -/
def blkMx (m : ℕ) (P : ℕ → ℕ → ℕ → K) (j : ℕ) : Matrix (Fin m) (Fin m) K :=
  of fun a b => P j a.1 b.1

/-- top block row of `X·I − companionA`: `X·I + P 0, P 1, …, P (cnt-1), 0, …` -/
noncomputable def Ttop (m cnt : ℕ) (P : ℕ → ℕ → ℕ → K) (j : ℕ) : Matrix (Fin m) (Fin m) K[X] :=
  (if j = 0 then (X : K[X]) • (1 : Matrix (Fin m) (Fin m) K[X]) else 0)
    + (if j < cnt then (blkMx m P j).map C else 0)

theorem idx_div {m : ℕ} (i : ℕ) (a : Fin m) : (a.1 + m * i) / m = i := by
  have hm : 0 < m := a.pos
  rw [Nat.add_mul_div_left _ _ hm, Nat.div_eq_of_lt a.2, Nat.zero_add]

theorem idx_mod {m : ℕ} (i : ℕ) (a : Fin m) : (a.1 + m * i) % m = a.1 := by
  rw [Nat.add_mul_mod_self_left, Nat.mod_eq_of_lt a.2]

theorem charmatrix_companionA (n m cnt : ℕ) (P : ℕ → ℕ → ℕ → K) :
    (charmatrix (toMx ((n + 1) * m) ((n + 1) * m) (companionA (n + 1) m cnt P).e)).submatrix
        finProdFinEquiv finProdFinEquiv
      = Mn (n + 1) m (Ttop m cnt P) X := by
  apply Matrix.ext
  rintro ⟨i, a⟩ ⟨j, b⟩
  simp only [submatrix_apply, charmatrix_apply, toMx, companionA, Mn, of_apply, diagonal_apply,
    EmbeddingLike.apply_eq_iff_eq, finProdFinEquiv_apply_val, idx_div, idx_mod]
  by_cases hi : (i : ℕ) = 0
  · have h1 : a.1 + m * i.1 < m := by rw [hi]; simp
    rw [if_pos h1, if_pos hi]
    have hi0 : i = 0 := Fin.ext hi
    subst hi0
    have e1 : (((0 : Fin (n + 1)), a) = (j, b)) ↔ (j = 0 ∧ a = b) := by
      rw [Prod.mk.injEq]; constructor
      · rintro ⟨h, h'⟩; exact ⟨h.symm, h'⟩
      · rintro ⟨h, h'⟩; exact ⟨h.symm, h'⟩
    have e2 : (j : ℕ) = 0 ↔ j = 0 := by
      constructor
      · intro h; exact Fin.ext h
      · intro h; rw [h]; rfl
    simp only [Ttop, blkMx, e1, e2, Fin.val_zero, Nat.mul_zero, Nat.add_zero]
    by_cases hc : (j : ℕ) < cnt
    · simp only [if_pos hc]
      by_cases hj : j = 0 <;> by_cases hab : a = b <;>
        simp [hj, hab, sub_eq_add_neg]
    · simp only [if_neg hc]
      by_cases hj : j = 0 <;> by_cases hab : a = b <;>
        simp [hj, hab]
  · have h1 : ¬ (a.1 + m * i.1 < m) := by
      have : m * 1 ≤ m * i.1 := Nat.mul_le_mul_left m (by omega)
      omega
    rw [if_neg h1, if_neg hi]
    have e3 : (b.1 + m * j.1 + m = a.1 + m * i.1) ↔ (j.1 + 1 = i.1 ∧ b = a) := by
      constructor
      · intro h
        have h2 : b.1 + m * (j.1 + 1) = a.1 + m * i.1 := by rw [Nat.mul_add, Nat.mul_one]; omega
        have hd := congrArg (· / m) h2
        have hm := congrArg (· % m) h2
        simp only [idx_div, idx_mod] at hd hm
        exact ⟨hd, Fin.ext hm⟩
      · rintro ⟨h, h'⟩
        rw [← h, h', Nat.mul_add, Nat.mul_one]; omega
    have e4 : ((i, a) = (j, b)) ↔ ((j, b) = (i, a)) := eq_comm
    simp only [e4]
    by_cases h : (j.1 + 1 = i.1 ∧ b = a)
    · rw [if_pos (e3.mpr h), if_pos h]; simp [sub_eq_neg_add]
    · rw [if_neg (fun h' => h (e3.mp h')), if_neg h]; simp

theorem charpoly_companionA (n m cnt : ℕ) (P : ℕ → ℕ → ℕ → K) :
    (toMx ((n + 1) * m) ((n + 1) * m) (companionA (n + 1) m cnt P).e).charpoly
      = (polyT (n + 1) m (Ttop m cnt P) X).det := by
  unfold Matrix.charpoly
  rw [← det_submatrix_equiv_self finProdFinEquiv, charmatrix_companionA, det_Mn]

/-- `X^p·I + Σ_{j<p} X^(p-1-j)·P_j` over `K[X]` -/
noncomputable def monicMx (p m : ℕ) (P : ℕ → ℕ → ℕ → K) : Matrix (Fin m) (Fin m) K[X] :=
  (X : K[X]) ^ p • (1 : Matrix (Fin m) (Fin m) K[X])
    + ∑ j ∈ Finset.range p, (X : K[X]) ^ (p - 1 - j) • (blkMx m P j).map C

/-- `A(X) = Σ_{k≤p} X^k·A_k` over `K[X]` -/
noncomputable def polyMx (p m : ℕ) (A : ℕ → ℕ → ℕ → K) : Matrix (Fin m) (Fin m) K[X] :=
  ∑ k ∈ Finset.range (p + 1), (X : K[X]) ^ k • (blkMx m A k).map C

/-- `A(λ) = Σ_{k≤p} λ^k·A_k` -/
def evalMx (p m : ℕ) (A : ℕ → ℕ → ℕ → K) (lam : K) : Matrix (Fin m) (Fin m) K :=
  ∑ k ∈ Finset.range (p + 1), lam ^ k • blkMx m A k

theorem polyT_Ttop (n m cnt : ℕ) (hc : cnt ≤ n + 1) (P : ℕ → ℕ → ℕ → K) :
    polyT (n + 1) m (Ttop m cnt P) X
      = (X : K[X]) ^ (n + 1) • (1 : Matrix (Fin m) (Fin m) K[X])
        + ∑ j ∈ Finset.range cnt, (X : K[X]) ^ (n - j) • (blkMx m P j).map C := by
  unfold polyT Ttop
  simp only [smul_add, Finset.sum_add_distrib]
  congr 1
  · rw [Finset.sum_eq_single 0]
    · simp [smul_smul, ← pow_succ]
    · intro j _ hj; simp [hj]
    · intro h; simp at h
  · have hsub : Finset.range cnt ⊆ Finset.range (n + 1) := Finset.range_subset_range.mpr hc
    rw [← Finset.sum_subset hsub]
    · apply Finset.sum_congr rfl
      intro j hj
      rw [if_pos (Finset.mem_range.mp hj)]
      congr 2
    · intro j _ hj
      rw [if_neg (by simpa using hj), smul_zero]

theorem charpoly_pure (n m : ℕ) (P : ℕ → ℕ → ℕ → K) :
    (toMx ((n + 1) * m) ((n + 1) * m) (companionA (n + 1) m (n + 1) P).e).charpoly
      = (monicMx (n + 1) m P).det := by
  rw [charpoly_companionA, polyT_Ttop n m (n + 1) (le_refl _)]
  rfl

theorem charpoly_code (p m : ℕ) (P : ℕ → ℕ → ℕ → K) :
    (toMx ((p + 1) * m) ((p + 1) * m) (companionA (p + 1) m p P).e).charpoly
      = (X : K[X]) ^ m * (monicMx p m P).det := by
  rw [charpoly_companionA, polyT_Ttop p m p (Nat.le_succ p)]
  have e : (X : K[X]) ^ (p + 1) • (1 : Matrix (Fin m) (Fin m) K[X])
        + ∑ j ∈ Finset.range p, (X : K[X]) ^ (p - j) • (blkMx m P j).map C
      = (X : K[X]) • monicMx p m P := by
    unfold monicMx
    rw [smul_add, smul_smul, ← pow_succ', Finset.smul_sum]
    congr 1
    apply Finset.sum_congr rfl
    intro j hj
    have hj' := Finset.mem_range.mp hj
    rw [smul_smul, ← pow_succ']
    congr 2
    omega
  rw [e, Matrix.det_smul, Fintype.card_fin]

/-- the solves of `rmfd2ac` in matrix form -/
theorem blk_solve (p m : ℕ) (A P : ℕ → ℕ → ℕ → K)
    (hsolve : ∀ i < p, ∀ a < m, ∀ b < m,
      ∑ t ∈ Finset.range m, A p a t * P i t b = A (p - 1 - i) a b) (i : ℕ) (hi : i < p) :
    blkMx m A p * blkMx m P i = blkMx m A (p - 1 - i) := by
  ext a b
  rw [Matrix.mul_apply]
  simp only [blkMx, of_apply]
  rw [← hsolve i hi a a.2 b b.2, Finset.sum_range]

theorem polyMx_eq_mul (p m : ℕ) (A P : ℕ → ℕ → ℕ → K)
    (hsolve : ∀ i < p, ∀ a < m, ∀ b < m,
      ∑ t ∈ Finset.range m, A p a t * P i t b = A (p - 1 - i) a b) :
    polyMx p m A = (blkMx m A p).map C * monicMx p m P := by
  unfold polyMx monicMx
  rw [Finset.sum_range_succ, ← Finset.sum_range_reflect, Matrix.mul_add, Finset.mul_sum, add_comm]
  congr 1
  · simp
  · apply Finset.sum_congr rfl
    intro j hj
    have hj' := Finset.mem_range.mp hj
    rw [← blk_solve p m A P hsolve j hj', Matrix.mul_smul]
    congr 1
    ext a b
    simp [Matrix.mul_apply, Matrix.map_apply]

theorem det_polyMx (p m : ℕ) (A P : ℕ → ℕ → ℕ → K)
    (hsolve : ∀ i < p, ∀ a < m, ∀ b < m,
      ∑ t ∈ Finset.range m, A p a t * P i t b = A (p - 1 - i) a b) :
    (polyMx p m A).det = C (blkMx m A p).det * (monicMx p m P).det := by
  rw [polyMx_eq_mul p m A P hsolve, Matrix.det_mul]
  congr 1
  exact (RingHom.map_det C (blkMx m A p)).symm

theorem eval_det_polyMx (p m : ℕ) (A : ℕ → ℕ → ℕ → K) (lam : K) :
    ((polyMx p m A).det).eval lam = (evalMx p m A lam).det := by
  have h := RingHom.map_det (evalRingHom lam) (polyMx p m A)
  rw [coe_evalRingHom] at h
  rw [h]
  congr 1
  unfold polyMx evalMx
  ext a b
  simp [Matrix.sum_apply, blkMx]
  apply Finset.sum_congr rfl
  intro c _
  ring
end bridge

end PV.BlockCompanion
