import PyomaVerif.Model.Hankel
import PyomaVerif.Lemmas.Realise
import Mathlib.LinearAlgebra.Matrix.Rank
/-!
Matrix core of the data-driven (LQ) Hankel matrix for a QR factor of ANY height: `Ysᵀ = Q·R`, `Q` with
`k` orthonormal columns (`k` = number of rows of `R`, whatever it is), `R` upper trapezoidal.  The block
the code returns is `L₂₁`; `a'` = number of its columns (`min(a, k)`), `b' = k − a'`.
-/
namespace PV.DatGram
open Matrix

variable {K : Type} [Field K] {a a' b b' n : ℕ}

/-- `L₂₁ = Yf·Q₁`: orthonormality only. -/
theorem L21_eq (L21 : Matrix (Fin b) (Fin a') K) (L22 : Matrix (Fin b) (Fin b') K)
    (Q1 : Matrix (Fin n) (Fin a') K) (Q2 : Matrix (Fin n) (Fin b') K) (Yf : Matrix (Fin b) (Fin n) K)
    (h11 : Q1ᵀ * Q1 = 1) (h21 : Q2ᵀ * Q1 = 0) (hYf : Yf = L21 * Q1ᵀ + L22 * Q2ᵀ) :
    L21 = Yf * Q1 := by
  rw [hYf, Matrix.add_mul, Matrix.mul_assoc, h11, Matrix.mul_one, Matrix.mul_assoc, h21,
    Matrix.mul_zero, add_zero]

/-- **no rank condition**: the Gram matrix of the returned block is that of the future outputs
    projected on the span of the first `a'` columns of `Q` (`Q₁·Q₁ᵀ` is that projector). -/
theorem gram_span (L21 : Matrix (Fin b) (Fin a') K) (L22 : Matrix (Fin b) (Fin b') K)
    (Q1 : Matrix (Fin n) (Fin a') K) (Q2 : Matrix (Fin n) (Fin b') K) (Yf : Matrix (Fin b) (Fin n) K)
    (h11 : Q1ᵀ * Q1 = 1) (h21 : Q2ᵀ * Q1 = 0) (hYf : Yf = L21 * Q1ᵀ + L22 * Q2ᵀ) :
    L21 * L21ᵀ = Yf * (Q1 * Q1ᵀ) * Yfᵀ := by
  have h := L21_eq L21 L22 Q1 Q2 Yf h11 h21 hYf
  conv_lhs => rw [h]
  rw [Matrix.transpose_mul]
  simp only [Matrix.mul_assoc]

/-- a right inverse of an `a × a'` matrix with `a' ≤ a` forces `a' = a` -/
theorem width_eq_of_right_inv (L : Matrix (Fin a) (Fin a') K) (N : Matrix (Fin a') (Fin a) K)
    (h : L * N = 1) (hle : a' ≤ a) : a' = a := by
  have h1 : (1 : Matrix (Fin a) (Fin a) K).rank = a := by simp
  have h2 : (L * N).rank ≤ L.rank := Matrix.rank_mul_le_left L N
  have h3 : L.rank ≤ a' := by simpa using Matrix.rank_le_card_width L
  rw [h, h1] at h2
  omega

/-- **generalised-inverse form.**  `W` any generalised inverse of the past Gram matrix
    (`PP·W·PP = PP`; `PP⁻¹` when it exists, the Moore–Penrose inverse otherwise) and `Yp` of FULL rank,
    given by a one-sided inverse `Z` (right inverse: independent rows, the long-record case; left inverse:
    independent columns, the short-record case).  Then `Ypᵀ·W·Yp = Q₁·Q₁ᵀ` is the orthogonal projector
    on the row space of `Yp` and `L₂₁·L₂₁ᵀ` is the Gram matrix of the projected future outputs. -/
theorem gram_ginv (L11 : Matrix (Fin a) (Fin a') K) (L21 : Matrix (Fin b) (Fin a') K)
    (L22 : Matrix (Fin b) (Fin b') K)
    (Q1 : Matrix (Fin n) (Fin a') K) (Q2 : Matrix (Fin n) (Fin b') K)
    (Yp : Matrix (Fin a) (Fin n) K) (Yf : Matrix (Fin b) (Fin n) K) (hle : a' ≤ a)
    (h11 : Q1ᵀ * Q1 = 1) (h21 : Q2ᵀ * Q1 = 0)
    (hYp : Yp = L11 * Q1ᵀ) (hYf : Yf = L21 * Q1ᵀ + L22 * Q2ᵀ)
    (W : Matrix (Fin a) (Fin a) K) (hW : (Yp * Ypᵀ) * W * (Yp * Ypᵀ) = Yp * Ypᵀ)
    (Z : Matrix (Fin n) (Fin a) K) (hZ : Yp * Z = 1 ∨ Z * Yp = 1) :
    Q1 * Q1ᵀ = Ypᵀ * W * Yp ∧ L21 * L21ᵀ = Yf * Ypᵀ * W * (Yp * Yfᵀ) := by
  have hPP : Yp * Ypᵀ = L11 * L11ᵀ := by
    rw [hYp, Matrix.transpose_mul, Matrix.transpose_transpose, Matrix.mul_assoc,
      ← Matrix.mul_assoc Q1ᵀ, h11, Matrix.one_mul]
  have hL21 := L21_eq L21 L22 Q1 Q2 Yf h11 h21 hYf
  -- a left inverse of `L11`
  obtain ⟨M, hM⟩ : ∃ M : Matrix (Fin a') (Fin a) K, M * L11 = 1 := by
    rcases hZ with hZ | hZ
    · have hr : L11 * (Q1ᵀ * Z) = 1 := by rw [← Matrix.mul_assoc, ← hYp, hZ]
      have e := width_eq_of_right_inv L11 (Q1ᵀ * Z) hr hle
      subst e
      exact ⟨Q1ᵀ * Z, mul_eq_one_comm.mp hr⟩
    · refine ⟨Q1ᵀ * Z, ?_⟩
      have : Q1ᵀ * (Z * Yp) * Q1 = Q1ᵀ * Z * L11 * (Q1ᵀ * Q1) := by
        rw [hYp]; simp only [Matrix.mul_assoc]
      rw [hZ, Matrix.mul_one, h11, Matrix.mul_one] at this
      exact this.symm
  have hMt : L11ᵀ * Mᵀ = 1 := by
    have := congrArg Matrix.transpose hM
    simpa [Matrix.transpose_mul] using this
  -- `L11ᵀ·W·L11 = 1`
  have hcore : L11ᵀ * W * L11 = 1 := by
    rw [hPP] at hW
    have h1 : M * (L11 * L11ᵀ * W * (L11 * L11ᵀ)) * Mᵀ = M * (L11 * L11ᵀ) * Mᵀ := by rw [hW]
    have e1 : M * (L11 * L11ᵀ * W * (L11 * L11ᵀ)) * Mᵀ
        = (M * L11) * (L11ᵀ * W * L11) * (L11ᵀ * Mᵀ) := by simp only [Matrix.mul_assoc]
    have e2 : M * (L11 * L11ᵀ) * Mᵀ = (M * L11) * (L11ᵀ * Mᵀ) := by simp only [Matrix.mul_assoc]
    rw [e1, e2, hM, hMt, Matrix.one_mul, Matrix.mul_one, Matrix.one_mul] at h1
    exact h1
  have hproj : Q1 * Q1ᵀ = Ypᵀ * W * Yp := by
    rw [hYp, Matrix.transpose_mul, Matrix.transpose_transpose]
    calc Q1 * Q1ᵀ = Q1 * (L11ᵀ * W * L11) * Q1ᵀ := by rw [hcore, Matrix.mul_one]
      _ = Q1 * L11ᵀ * W * (L11 * Q1ᵀ) := by simp only [Matrix.mul_assoc]
  refine ⟨hproj, ?_⟩
  rw [gram_span L21 L22 Q1 Q2 Yf h11 h21 hYf, hproj]
  simp only [Matrix.mul_assoc]

end PV.DatGram

namespace PV.C12
open PV PV.Mat Matrix Finset

variable {K : Type} [Field K]

/-- **Contract of `np.linalg.qr(Ys.T, mode="r")`** for the recorded factor `R`, of ANY height `k = R.r`
    (numpy returns `k = min(N-1, (r+l)(p+1))`; the Gram theorems below do not need that):
    `R` has one column per row of `Ys`, is upper trapezoidal, and `Ysᵀ = Q·R` for a `Q` with `k`
    orthonormal columns (`Q` is never computed by the code). -/
structure QrRec (Ys Q R : Mat K) : Prop where
  cols : R.c = Ys.r
  dec : ∀ i, i < Ys.r → ∀ c, c < Ys.c → Ys.e i c = sumTo R.r (fun t => Q.e c t * R.e t i)
  orth : ∀ u, u < R.r → ∀ t, t < R.r →
    sumTo Ys.c (fun c => Q.e c u * Q.e c t) = if u = t then 1 else 0
  tri : ∀ i, i < R.r → ∀ j, j < i → R.e i j = 0

variable (Y Yref : Mat K) (p : ℕ) (s : K) (Q R : Mat K)

/-- the matrix blocks of a recorded factor -/
theorem qr_blocks (hqr : QrRec (hankYs Y Yref p s) Q R) :
    let a := (p + 1) * Yref.r
    let b := (p + 1) * Y.r
    let n := Y.c - p - (p + 1) - 1
    let a' := min a R.r
    let b' := R.r - a'
    let L11 : Matrix (Fin a) (Fin a') K := Matrix.of fun i t => R.e t.1 i.1
    let L21 : Matrix (Fin b) (Fin a') K := toMx b a' (hankDat R Yref.r p).e
    let L22 : Matrix (Fin b) (Fin b') K := Matrix.of fun i t => R.e (a' + t.1) (a + i.1)
    let Q1 : Matrix (Fin n) (Fin a') K := toMx n a' Q.e
    let Q2 : Matrix (Fin n) (Fin b') K := Matrix.of fun c t => Q.e c.1 (a' + t.1)
    Q1ᵀ * Q1 = 1 ∧ Q2ᵀ * Q1 = 0 ∧
      toMx a n (hankYp Y.c Yref p s).e = L11 * Q1ᵀ ∧
      toMx b n (hankYf Y p s).e = L21 * Q1ᵀ + L22 * Q2ᵀ := by
  intro a b n a' b' L11 L21 L22 Q1 Q2
  have hYsr : (hankYs Y Yref p s).r = a + b := rfl
  have hYsc : (hankYs Y Yref p s).c = n := rfl
  have hYpr : (hankYp Y.c Yref p s).r = a := rfl
  have ha'a : a' ≤ a := Nat.min_le_left _ _
  have ha'k : a' ≤ R.r := Nat.min_le_right _ _
  have hk : R.r = a' + b' := by omega
  have hYs_rows : ∀ i c, (hankYs Y Yref p s).e i c =
      if i < (hankYp Y.c Yref p s).r then (hankYp Y.c Yref p s).e i c
      else (hankYf Y p s).e (i - (hankYp Y.c Yref p s).r) c := fun _ _ => rfl
  refine ⟨?_, ?_, ?_, ?_⟩
  · ext u t
    have := hqr.orth u.1 (by have := u.2; omega) t.1 (by have := t.2; omega)
    rw [hYsc, sumTo_eq, Finset.sum_range] at this
    simp only [Matrix.mul_apply, Matrix.transpose_apply, Matrix.one_apply, Q1, toMx]
    rw [this]; simp [Fin.ext_iff]
  · ext u t
    have := hqr.orth (a' + u.1) (by have := u.2; omega) t.1 (by have := t.2; omega)
    rw [hYsc, sumTo_eq, Finset.sum_range] at this
    simp only [Matrix.mul_apply, Matrix.transpose_apply, Matrix.zero_apply, Q1, Q2, toMx,
      Matrix.of_apply]
    rw [this, if_neg (by have := t.2; omega)]
  · ext i c
    have h1 := hqr.dec i.1 (by have := i.2; omega) c.1 (by rw [hYsc]; exact c.2)
    rw [hYs_rows, hYpr, if_pos i.2, sumTo_eq, hk, Finset.sum_range_add] at h1
    have hz : ∑ x ∈ Finset.range b', Q.e c.1 (a' + x) * R.e (a' + x) i.1 = 0 := by
      apply Finset.sum_eq_zero; intro x hx
      have hx := Finset.mem_range.mp hx
      rw [hqr.tri (a' + x) (by omega) i.1 (by have := i.2; omega), mul_zero]
    rw [hz, add_zero, Finset.sum_range] at h1
    simp only [toMx, Matrix.mul_apply, Matrix.transpose_apply, L11, Q1, Matrix.of_apply]
    rw [h1]
    apply Finset.sum_congr rfl; intro t _; ring
  · ext i c
    have h1 := hqr.dec (a + i.1) (by have := i.2; omega) c.1 (by rw [hYsc]; exact c.2)
    rw [hYs_rows, hYpr, if_neg (by omega), Nat.add_sub_cancel_left, sumTo_eq, hk,
      Finset.sum_range_add, Finset.sum_range, Finset.sum_range] at h1
    have hcomm : Yref.r * (p + 1) = a := Nat.mul_comm _ _
    simp only [toMx, Matrix.add_apply, Matrix.mul_apply, Matrix.transpose_apply, L21, L22, Q1, Q2,
      Matrix.of_apply, hankDat, Mat.transpose, hcomm]
    rw [h1]
    congr 1
    · apply Finset.sum_congr rfl; intro t _; ring
    · apply Finset.sum_congr rfl; intro t _; ring

end PV.C12
