import PyomaVerif.Lemmas.Poles
import PyomaVerif.Model.SsiArgs
/-!
# Lemmas about `Model/SsiArgs.lean`: the loop of `fastSSI`, the argument loop of the legacy routine
-/
namespace PV
namespace Poles
open Mat

section
variable {K : Type}

/-- inside the array both slices of `M[:n, :n]` are exact -/
theorem clipBlock_lead (M : Mat K) (n : Nat) (hr : n ≤ M.r) (hc : n ≤ M.c) :
    clipBlock M n n = leadBlock M n := by
  unfold clipBlock leadBlock
  rw [Nat.min_eq_left hr, Nat.min_eq_left hc]

theorem clipBlock_outC (M : Mat K) (l n : Nat) (hr : l ≤ M.r) (hc : n ≤ M.c) :
    clipBlock M l n = outC M l n := by
  unfold clipBlock outC
  rw [Nat.min_eq_left hr, Nat.min_eq_left hc]

variable [Zero K] [Add K] [Mul K]

/-- the loop of `SSI_fast` over orders that all lie inside `R`, `S` and `Obs` returns; position `j` of the
    lists holds `A`, `C` of order `rest[j]` (built with the inverse recorded in pass `k + j`) and the block
    `R[:ii, :ii]` that was handed to `np.linalg.inv` -/
theorem fastLoop_spec (Rinv : Nat → Mat K) (R S Obs : Mat K) (l : Nat) (hl : l ≤ Obs.r) :
    ∀ (rest : List Nat) (k : Nat),
      (∀ ii, ii ∈ rest → ii ≤ R.r ∧ ii ≤ R.c ∧ ii ≤ S.r ∧ ii ≤ S.c ∧ ii ≤ Obs.c) →
      ∃ As Cs Is, fastLoop Rinv R S Obs l rest k = .ok (As, Cs, Is)
        ∧ As.length = rest.length ∧ Cs.length = rest.length ∧ Is.length = rest.length
        ∧ ∀ j ii, rest[j]? = some ii →
            As[j]? = some (Mat.mul (Rinv (k + j)) (leadBlock S ii))
            ∧ Cs[j]? = some (outC Obs l ii) ∧ Is[j]? = some (leadBlock R ii) := by
  intro rest
  induction rest with
  | nil => intro k _; exact ⟨[], [], [], rfl, rfl, rfl, rfl, fun j ii h => by simp at h⟩
  | cons i0 rest ih =>
    intro k hall
    obtain ⟨hRr, hRc, hSr, hSc, hOc⟩ := hall i0 (by simp)
    obtain ⟨As, Cs, Is, hok, hAl, hCl, hIl, hget⟩ := ih (k + 1) (fun ii hi => hall ii (by simp [hi]))
    have hsq : ¬ (clipBlock R i0 i0).r ≠ (clipBlock R i0 i0).c := by
      rw [clipBlock_lead R i0 hRr hRc]; simp [leadBlock]
    refine ⟨_, _, _, by unfold fastLoop; simp only [if_neg hsq]; rw [hok], by simp [hAl], by simp [hCl],
      by simp [hIl], ?_⟩
    intro j ii hj
    cases j with
    | zero =>
      simp only [List.getElem?_cons_zero, Option.some.injEq] at hj
      subst hj
      simp only [List.getElem?_cons_zero, Nat.add_zero]
      rw [clipBlock_lead S i0 hSr hSc, clipBlock_outC Obs l i0 hl hOc, clipBlock_lead R i0 hRr hRc]
      exact ⟨rfl, rfl, rfl⟩
    | succ j =>
      simp only [List.getElem?_cons_succ] at hj ⊢
      have hk : k + (j + 1) = k + 1 + j := by omega
      rw [hk]
      exact hget j ii hj

omit [Add K] in
/-- the argument loop of the legacy routine over orders inside the recorded factors -/
theorem legacyArgLoop_spec (U : Mat K) (sq : List K) (l : Nat) :
    ∀ (rest : List Nat), (∀ ii, ii ∈ rest → ii ≤ U.c ∧ ii ≤ sq.length) →
      ∃ Ps, legacyArgLoop U sq l rest = .ok Ps ∧ Ps.length = rest.length
        ∧ ∀ (j ii : Nat), rest[j]? = some ii →
            Ps[j]? = some (upPart (obsOf U (fun t => sq.getD t 0) ii) l) := by
  intro rest
  induction rest with
  | nil => intro _; exact ⟨[], rfl, rfl, fun j ii h => by simp at h⟩
  | cons i0 rest ih =>
    intro hall
    obtain ⟨h0U, h0s⟩ := hall i0 (by simp)
    obtain ⟨Ps, hok, hPl, hget⟩ := ih (fun ii hi => hall ii (by simp [hi]))
    refine ⟨_, by unfold legacyArgLoop; rw [legacyObs_ok U sq i0 h0U h0s, hok], by simp [hPl], ?_⟩
    intro j ii hj
    cases j with
    | zero =>
      simp only [List.getElem?_cons_zero, Option.some.injEq] at hj
      subst hj
      rfl
    | succ j =>
      simp only [List.getElem?_cons_succ] at hj ⊢
      exact hget j ii hj

end
end Poles
end PV
