import PyomaVerif.Lemmas.FreeVib
import PyomaVerif.Lemmas.MsExtract
import PyomaVerif.Props.C03
import PyomaVerif.Model.MultiSetup
/-!
# Helpers for `Props/C03E2E.lean` — from the per-setup free-vibration records to `Obs_all`

1. `selRows`, `msObsAll`: the part of `ssi.SSI_multi_setup` between the per-setup SVD and the global
   realisation, composed from the model functions of `Model/Multi.lean` (`refRows`, `movRows`, `rebase`,
   `allRows`): `O_ref = Obs[ref_id, :]`, `O_mov = Obs[mov_id, :]`, `O_movs = O_mov·pinv(O_ref)·O1_ref`, the
   interleaving loop.
2. `emb`, `rebase_deficient`: the per-setup factor the code re-bases has `ordmax = N` columns of which only
   the leading `n` are non-zero on exact data (`sq t = 0` beyond the rank), so the reference block is RANK
   DEFICIENT for `N > n` and `pinv` is not a left inverse.  The first Penrose identity `M·P·M = M` — true of
   every pseudo-inverse, no rank condition — is enough: `E·P` is a left inverse of the leading columns and
   `C03_rebase` applies.
3. `setup_parts`: one setup, from the factorising Hankel matrix and its recorded SVD to its reference and
   roving observability parts `O(A, C_ref)·M_i·E`, `O(A, C_mov,i)·M_i·E` (`M_i = g_i·T_i` invertible),
   with "exactly `n` non-zero singular values" derived (`svd_rank_count`).
4. `ms_obs_all`: all setups ⟶ `Obs_all = O_br(A, C_g[order])·M₁` row by row.
5. `ms_realised`: `Obs_all` ⟶ realised pair `(M₁⁻¹·A·M₁, C_g[order]·M₁)`.
-/
set_option linter.unusedSectionVars false
namespace PV.MsFreeVib
open PV PV.Mat PV.Cov PV.FreeVib PV.Multi Matrix Finset

/-! ## model composition: `selRows`, `oRef`, `oMov`, `msObsAll` now live in `Model/MultiSetup.lean` (same namespace, same
    text) so that the compiled driver runs them inside `ssiMultiSetup`. -/

section general
variable {K : Type} [Field K]

/-- contract of `np.linalg.pinv(O_ref)` as `SSI_multi_setup` uses it: the shape and the first Penrose
    identity `M·M⁺·M = M`, which holds for EVERY matrix — in particular for the rank-deficient
    `ordmax`-column reference block of exact data. -/
structure PinvMS (Oref P : Mat K) (a N : ℕ) : Prop where
  hPc : P.c = a
  pen : toMx a N Oref.e * toMx N a P.e * toMx a N Oref.e = toMx a N Oref.e

/-- `[I_n | 0]`: the leading `n` of `N` columns -/
def emb (n N : ℕ) : Matrix (Fin n) (Fin N) K := Matrix.of fun k t => if k.1 = t.1 then 1 else 0

local notation "E[" n "," N "]" => (emb n N : Matrix (Fin n) (Fin N) K)

theorem mul_emb {m n N : ℕ} (X : Matrix (Fin m) (Fin n) K) (i : Fin m) (t : Fin N) :
    (X * E[n,N]) i t = if h : t.1 < n then X i ⟨t.1, h⟩ else 0 := by
  simp only [Matrix.mul_apply, emb, Matrix.of_apply, mul_ite, mul_one, mul_zero]
  split
  · rename_i h
    rw [Finset.sum_eq_single ⟨t.1, h⟩]
    · simp
    · intro b _ hb
      rw [if_neg]
      intro hbt
      exact hb (Fin.ext hbt)
    · intro h'
      exact absurd (Finset.mem_univ _) h'
  · rename_i h
    apply Finset.sum_eq_zero
    intro b _
    rw [if_neg]
    intro hbt
    exact h (hbt ▸ b.2)

theorem emb_cancel {m n N : ℕ} (hn : n ≤ N) (Z W : Matrix (Fin m) (Fin n) K)
    (h : Z * E[n,N] = W * E[n,N]) : Z = W := by
  ext i j
  have := congrFun (congrFun h i) ⟨j.1, lt_of_lt_of_le j.2 hn⟩
  rw [mul_emb, mul_emb, dif_pos j.2, dif_pos j.2] at this
  exact this

/-- "leading `n` columns are `X`, the others vanish" as a matrix identity -/
theorem toMx_eq_mul_emb {m n N : ℕ} (X : Matrix (Fin m) (Fin n) K) (f : ℕ → ℕ → K)
    (h1 : ∀ (i : Fin m) (j : Fin n), f i.1 j.1 = X i j)
    (h0 : ∀ (i : Fin m) t, n ≤ t → t < N → f i.1 t = 0) : toMx m N f = X * E[n,N] := by
  ext i t
  rw [mul_emb]
  split
  · rename_i h
    exact h1 i ⟨t.1, h⟩
  · rename_i h
    exact h0 i t.1 (by omega) t.2

/-- **re-basing with a rank-deficient reference block.**  Setup `i`'s reference part is
    `[Oref·Mi | 0]`, its roving part `[Omov·Mi | 0]`, the first setup's reference part `[Oref·M1 | 0]`
    (`n` leading of `N` columns), `Oref` left invertible (every mode in the references within `br` block
    rows), `Mi` invertible.  For ANY `P` with `M·P·M = M` (`M` setup `i`'s reference part) the re-based
    roving part is `[Omov·M1 | 0]`.  (`C03_rebase` with the left inverse `E·P`.) -/
theorem rebase_deficient {a b n N : ℕ} (hn : n ≤ N) (Oref : Matrix (Fin a) (Fin n) K)
    (Omov : Matrix (Fin b) (Fin n) K) (Lr : Matrix (Fin n) (Fin a) K) (hLr : Lr * Oref = 1)
    (Mi Miinv M1 : Matrix (Fin n) (Fin n) K) (hMi : Mi * Miinv = 1) (P : Matrix (Fin N) (Fin a) K)
    (hP : (Oref * Mi * E[n,N]) * P * (Oref * Mi * E[n,N]) = Oref * Mi * E[n,N]) :
    (Omov * Mi * E[n,N]) * P * (Oref * M1 * E[n,N]) = Omov * M1 * E[n,N] := by
  have hMi' : Miinv * Mi = 1 := mul_eq_one_comm.mp hMi
  have e1 : E[n,N] * P * (Oref * Mi * E[n,N]) = (E[n,N] : Matrix (Fin n) (Fin N) K) := by
    calc E[n,N] * P * (Oref * Mi * E[n,N])
        = (Miinv * (Lr * Oref) * Mi) * E[n,N] * P * (Oref * Mi * E[n,N]) := by
          rw [hLr, Matrix.mul_one, hMi', Matrix.one_mul]
      _ = Miinv * Lr * ((Oref * Mi * E[n,N]) * P * (Oref * Mi * E[n,N])) := by
          simp only [Matrix.mul_assoc]
      _ = Miinv * Lr * (Oref * Mi * E[n,N]) := by rw [hP]
      _ = (Miinv * (Lr * Oref) * Mi) * E[n,N] := by simp only [Matrix.mul_assoc]
      _ = E[n,N] := by rw [hLr, Matrix.mul_one, hMi', Matrix.one_mul]
  have e2 : (E[n,N] * P) * (Oref * Mi) = 1 := by
    apply emb_cancel hn
    calc (E[n,N] * P) * (Oref * Mi) * E[n,N] = E[n,N] * P * (Oref * Mi * E[n,N]) := by
          simp only [Matrix.mul_assoc]
      _ = E[n,N] := e1
      _ = 1 * E[n,N] := (Matrix.one_mul _).symm
  have e3 := PV.C03.C03_rebase Oref Omov Mi M1 Miinv hMi (E[n,N] * P) e2
  calc (Omov * Mi * E[n,N]) * P * (Oref * M1 * E[n,N])
      = ((Omov * Mi) * (E[n,N] * P) * (Oref * M1)) * E[n,N] := by simp only [Matrix.mul_assoc]
    _ = Omov * M1 * E[n,N] := by rw [e3]

/-- a block row of the observability matrix -/
theorem obsFn_blk {n : ℕ} (l : ℕ) (A : Matrix (Fin n) (Fin n) K) (C : ℕ → Fin n → K) (b a : ℕ)
    (ha : a < l) (k : Fin n) : obsFn l A C (b * l + a) k = ∑ k', C a k' * (A ^ b) k' k := by
  unfold obsFn
  rw [blk_mod b ha, blk_div b ha]

/-- if a selection of rows of `O` (scaled by `g ≠ 0`) is left invertible, so is `O` -/
theorem left_inv_of_rows {m a n : ℕ} (O : Matrix (Fin m) (Fin n) K) (O' : Matrix (Fin a) (Fin n) K)
    (f : Fin a → Fin m) (g : K) (hg : g ≠ 0) (hsel : ∀ q k, O (f q) k = g * O' q k)
    (L : Matrix (Fin n) (Fin a) K) (hL : L * O' = 1) : ∃ L' : Matrix (Fin n) (Fin m) K, L' * O = 1 := by
  classical
  refine ⟨Matrix.of fun k I => ∑ q, if f q = I then g⁻¹ * L k q else 0, ?_⟩
  ext k j
  rw [← hL]
  simp only [Matrix.mul_apply, Matrix.of_apply, Finset.sum_mul]
  rw [Finset.sum_comm]
  apply Finset.sum_congr rfl
  intro q _
  simp only [ite_mul, zero_mul, Finset.sum_ite_eq, Finset.mem_univ, if_true]
  rw [hsel]
  field_simp

theorem block_lt {br w b j : ℕ} (hb : b < br) (hj : j < w) : b * w + j < br * w := by
  calc b * w + j < b * w + w := by omega
    _ = (b + 1) * w := by rw [Nat.succ_mul]
    _ ≤ br * w := Nat.mul_le_mul_right w hb

theorem refRows_getD (br nref nm q : ℕ) (hq : q < br * nref) :
    (refRows br nref nm).getD q 0 = q / nref * (nref + nm) + q % nref := by
  have hpos : 0 < nref := by
    rcases Nat.eq_zero_or_pos nref with h | h
    · rw [h, Nat.mul_zero] at hq; omega
    · exact h
  have hb : q / nref < br := Nat.div_lt_of_lt_mul (by rw [Nat.mul_comm]; exact hq)
  have := (PV.C03.C03_rows br nref nm (q / nref) (q % nref) hb).1 (Nat.mod_lt _ hpos)
  rw [Nat.div_add_mod' q nref] at this
  simp [List.getD_eq_getElem?_getD, this]

theorem movRows_getD (br nref nm q : ℕ) (hq : q < br * nm) :
    (movRows br nref nm).getD q 0 = q / nm * (nref + nm) + (nref + q % nm) := by
  have hpos : 0 < nm := by
    rcases Nat.eq_zero_or_pos nm with h | h
    · rw [h, Nat.mul_zero] at hq; omega
    · exact h
  have hb : q / nm < br := Nat.div_lt_of_lt_mul (by rw [Nat.mul_comm]; exact hq)
  have := (PV.C03.C03_rows br nref nm (q / nm) (q % nm) hb).2 (Nat.mod_lt _ hpos)
  rw [Nat.div_add_mod' q nm] at this
  simp [List.getD_eq_getElem?_getD, this]

end general

/-! ## one setup: from the factorising Hankel matrix to its reference and roving parts -/
section setup
variable {K : Type} [Field K] [LinearOrder K] [IsStrictOrderedRing K]

/-- **One setup.**  `C'` the unit-gain output rows of the setup (`nref` references first, then `nm` roving),
    `g ≠ 0` its gain; `H` (`(br+1)·(nref+nm)` rows) factorises as `O(A, g·C')·Γ` with `Γ` right invertible; the
    references see every mode within `br` block rows (`Olr`).  Then every recorded SVD of `H` on `N` triples has
    exactly `n` non-zero singular values, and there is an invertible `M` (`= g·T`, gain times the setup's own
    state basis) such that the `N`-column parts the code cuts out of `Obs = U[:, :N]·√S` are
    `O_ref = [O_br(A, C'_ref)·M | 0]`, `O_mov = [O_br(A, C'_mov)·M | 0]`. -/
theorem setup_parts {n : ℕ} (A : Matrix (Fin n) (Fin n) K) (C' : ℕ → Fin n → K) (g : K) (hg : g ≠ 0)
    (nref nm br N : ℕ) (H U V : Mat K) (S sq : ℕ → K) (hHr : H.r = (br + 1) * (nref + nm))
    (Γ : Matrix (Fin n) (Fin H.c) K) (Γr : Matrix (Fin H.c) (Fin n) K) (hΓ : Γ * Γr = 1)
    (hfac : toMx H.r H.c H.e = obsMx H.r (nref + nm) A (fun a t => g * C' a t) * Γ)
    (Olr : Matrix (Fin n) (Fin (br * nref)) K) (hObs : Olr * obsMx (br * nref) nref A C' = 1)
    (hsvd : SvdOf H U V S N) (hsq : SqrtOf sq S N) :
    (n ≤ N ∧ (∀ t, t < n → S t ≠ 0) ∧ (∀ t, n ≤ t → t < N → S t = 0)) ∧
    ∃ M Minv : Matrix (Fin n) (Fin n) K, M * Minv = 1 ∧
      (∀ i, i < H.r → ∀ j : Fin n, U.e i j.1 * sq j.1 = ∑ k, obsFn (nref + nm) A C' i k * M k j) ∧
      toMx (br * nref) N (oRef br nref nm (obsOf U sq N)).e
        = obsMx (br * nref) nref A C' * M * (emb n N : Matrix (Fin n) (Fin N) K) ∧
      toMx (br * nm) N (oMov br nref nm (obsOf U sq N)).e
        = obsMx (br * nm) nm A (fun a => C' (nref + a)) * M * (emb n N : Matrix (Fin n) (Fin N) K) := by
  set l := nref + nm with hl
  -- rows of the setup's observability matrix
  have hrowR : ∀ q, q < br * nref → q / nref * l + q % nref < H.r ∧ q % nref < nref ∧ q / nref < br := by
    intro q hq
    have hpos : 0 < nref := by
      rcases Nat.eq_zero_or_pos nref with h | h
      · rw [h, Nat.mul_zero] at hq; omega
      · exact h
    have hb : q / nref < br := Nat.div_lt_of_lt_mul (by rw [Nat.mul_comm]; exact hq)
    have hj : q % nref < nref := Nat.mod_lt _ hpos
    refine ⟨?_, hj, hb⟩
    rw [hHr]
    exact block_lt (by omega) (by omega)
  have hrowM : ∀ q, q < br * nm → q / nm * l + (nref + q % nm) < H.r ∧ q % nm < nm ∧ q / nm < br := by
    intro q hq
    have hpos : 0 < nm := by
      rcases Nat.eq_zero_or_pos nm with h | h
      · rw [h, Nat.mul_zero] at hq; omega
      · exact h
    have hb : q / nm < br := Nat.div_lt_of_lt_mul (by rw [Nat.mul_comm]; exact hq)
    have hj : q % nm < nm := Nat.mod_lt _ hpos
    refine ⟨?_, hj, hb⟩
    rw [hHr]
    exact block_lt (by omega) (by omega)
  have hselR : ∀ q, q < br * nref → ∀ k, obsFn l A (fun a t => g * C' a t) (q / nref * l + q % nref) k
      = g * obsFn nref A C' q k := by
    intro q hq k
    obtain ⟨_, hj, _⟩ := hrowR q hq
    rw [obsFn_blk l A _ _ _ (by omega) k]
    conv_rhs => rw [← Nat.div_add_mod' q nref, obsFn_blk nref A C' _ _ hj k]
    rw [Finset.mul_sum]
    apply Finset.sum_congr rfl; intro x _; ring
  have hselM : ∀ q, q < br * nm → ∀ k,
      obsFn l A (fun a t => g * C' a t) (q / nm * l + (nref + q % nm)) k
      = g * obsFn nm A (fun a => C' (nref + a)) q k := by
    intro q hq k
    obtain ⟨_, hj, _⟩ := hrowM q hq
    rw [obsFn_blk l A _ _ _ (by omega) k]
    conv_rhs => rw [← Nat.div_add_mod' q nm, obsFn_blk nm A _ _ _ hj k]
    rw [Finset.mul_sum]
    apply Finset.sum_congr rfl; intro x _; ring
  -- the setup's observability matrix is left invertible
  obtain ⟨Ol, hOl⟩ := left_inv_of_rows (obsMx H.r l A (fun a t => g * C' a t)) (obsMx (br * nref) nref A C')
    (fun q => ⟨q.1 / nref * l + q.1 % nref, (hrowR q.1 q.2).1⟩) g hg
    (fun q k => by simp only [obsMx, Matrix.of_apply]; exact hselR q.1 q.2 k) Olr hObs
  obtain ⟨hn, hpos, hzero⟩ := svd_rank_count H U V S N hsvd _ Γ Ol Γr hOl hΓ hfac
  obtain ⟨W, L, Wr, hHW, hL, hW⟩ := svd_split H U V S sq N n hn hsvd hsq hpos hzero
  obtain ⟨T, Tinv, h1, h2, h3⟩ := rank_factor_unique_lr (obsMx H.r l A (fun a t => g * C' a t))
    (toMx H.r n (obsOf U sq n).e) Γ W L Γr Wr hL hΓ hW (by rw [← hfac, hHW])
  have hE : ∀ i, i < H.r → ∀ j : Fin n,
      U.e i j.1 * sq j.1 = ∑ k, obsFn l A (fun a t => g * C' a t) i k * T k j := by
    intro i hi j
    have := congrFun (congrFun h3 ⟨i, hi⟩) j
    simpa [toMx, obsOf, obsMx, Matrix.mul_apply] using this
  have hsq0 : ∀ t, n ≤ t → t < N → sq t = 0 := by
    intro t h1 h2
    have := (hsq t h2).2
    rw [hzero t h1 h2] at this
    exact mul_self_eq_zero.mp this
  have hgl : ∀ i k, obsFn l A (fun a t => g * C' a t) i k = g * obsFn l A C' i k := by
    intro i k
    unfold obsFn
    rw [Finset.mul_sum]
    apply Finset.sum_congr rfl; intro x _; ring
  refine ⟨⟨hn, hpos, hzero⟩, g • T, g⁻¹ • Tinv, ?_, ?_, ?_, ?_⟩
  · rw [Matrix.smul_mul, Matrix.mul_smul, smul_smul, mul_inv_cancel₀ hg, one_smul, h1]
  · intro i hi j
    rw [hE i hi j]
    apply Finset.sum_congr rfl; intro k _
    rw [hgl, Matrix.smul_apply, smul_eq_mul]; ring
  · apply toMx_eq_mul_emb
    · intro q j
      obtain ⟨hr, _, _⟩ := hrowR q.1 q.2
      show (obsOf U sq N).e ((refRows br nref nm).getD q.1 0) j.1 = _
      rw [refRows_getD br nref nm q.1 q.2]
      show U.e _ j.1 * sq j.1 = _
      rw [hE _ hr j]
      simp only [Matrix.mul_apply, obsMx, Matrix.of_apply, Matrix.smul_apply, smul_eq_mul]
      apply Finset.sum_congr rfl; intro k _
      rw [hselR q.1 q.2 k]; ring
    · intro q t h1 h2
      show U.e _ t * sq t = 0
      rw [hsq0 t h1 h2, mul_zero]
  · apply toMx_eq_mul_emb
    · intro q j
      obtain ⟨hr, _, _⟩ := hrowM q.1 q.2
      show (obsOf U sq N).e ((movRows br nref nm).getD q.1 0) j.1 = _
      rw [movRows_getD br nref nm q.1 q.2]
      show U.e _ j.1 * sq j.1 = _
      rw [hE _ hr j]
      simp only [Matrix.mul_apply, obsMx, Matrix.of_apply, Matrix.smul_apply, smul_eq_mul]
      apply Finset.sum_congr rfl; intro k _
      rw [hselM q.1 q.2 k]; ring
    · intro q t h1 h2
      show U.e _ t * sq t = 0
      rw [hsq0 t h1 h2, mul_zero]

end setup

/-! ## all setups: `Obs_all` -/
section assemble
variable {K : Type} [Field K] [LinearOrder K] [IsStrictOrderedRing K]

/-- output rows at the structure's DOFs `rows` (unit gain): row `a` is `C_g[rows[a], :]` -/
def msC {n : ℕ} (Cg : ℕ → Fin n → K) (rows : List ℕ) : ℕ → Fin n → K := fun a => Cg (rows.getD a 0)

omit [LinearOrder K] [IsStrictOrderedRing K] in
theorem obsMx_congr {n : ℕ} (b l : ℕ) (A : Matrix (Fin n) (Fin n) K) (C C' : ℕ → Fin n → K)
    (h : ∀ a, a < l → C a = C' a) : obsMx (b * l) l A C = obsMx (b * l) l A C' := by
  ext i k
  have hpos : 0 < l := by
    rcases Nat.eq_zero_or_pos l with h0 | h0
    · subst h0; have := i.2; simp at this
    · exact h0
  simp only [obsMx, Matrix.of_apply, obsFn]
  rw [h _ (Nat.mod_lt _ hpos)]

omit [LinearOrder K] [IsStrictOrderedRing K] in
theorem row_transfer {a b n N : ℕ} (X : Matrix (Fin a) (Fin n) K) (Y : Matrix (Fin b) (Fin n) K)
    (M : Matrix (Fin n) (Fin n) K) (i : Fin a) (i' : Fin b) (h : ∀ k, X i k = Y i' k) (t : Fin N) :
    (X * M * (emb n N : Matrix (Fin n) (Fin N) K)) i t = (Y * M * (emb n N : Matrix (Fin n) (Fin N) K)) i' t := by
  simp only [Matrix.mul_apply, h]

/-- everything `C03_e2e_*` assumes about ONE setup (`mi` its roving DOFs, `g` its gain, `H` its Hankel
    matrix, `(U, V, S)`, `sq`, `P` the recorded SVD, square roots and `pinv(O_ref)`):
    gain non-zero; `H` has `(br+1)` block rows and factorises as `O(A, g·C_g[refs ++ mi])·Γ` with `Γ` right
    invertible (data model + "every mode excited and present in the references of this setup"); the
    recorded-factor contracts. -/
structure SetupOK {n : ℕ} (A : Matrix (Fin n) (Fin n) K) (Cg : ℕ → Fin n → K) (br N : ℕ)
    (refIds mi : List ℕ) (g : K) (H U V : Mat K) (S sq : ℕ → K) (P : Mat K) : Prop where
  hg : g ≠ 0
  hHr : H.r = (br + 1) * (refIds.length + mi.length)
  fac : ∃ (Γ : Matrix (Fin n) (Fin H.c) K) (Γr : Matrix (Fin H.c) (Fin n) K), Γ * Γr = 1 ∧
    toMx H.r H.c H.e
      = obsMx H.r (refIds.length + mi.length) A (fun a t => g * msC Cg (refIds ++ mi) a t) * Γ
  svd : SvdOf H U V S N
  sqrt : SqrtOf sq S N
  pinv : PinvMS (oRef br refIds.length mi.length (obsOf U sq N)) P (br * refIds.length) N

/-- **All setups ⟶ `Obs_all`.**  Every setup satisfies `SetupOK`; the references see every mode within `br`
    block rows (`Olr`).  Then every per-setup Hankel matrix has exactly `n` non-zero singular values, and there
    is ONE invertible `M₁` — the gain-times-basis of the FIRST setup: its factor is `O(A, C_g[refs ++ mov₀])·M₁` —
    such that row `r` of the model's `Obs_all` is `[O_br(A, C_g[refs ++ mov₀ ++ mov₁ ++ …])[r, :]·M₁ | 0]`:
    no `g_i`, `T_i` of any later setup. -/
theorem ms_obs_all {n : ℕ} (A : Matrix (Fin n) (Fin n) K) (Cg : ℕ → Fin n → K) (br N : ℕ)
    (refIds : List ℕ) (movIds : List (List ℕ)) (hne : movIds ≠ [])
    (g : ℕ → K) (H U V P : ℕ → Mat K) (S sq : ℕ → ℕ → K)
    (Olr : Matrix (Fin n) (Fin (br * refIds.length)) K)
    (hObs : Olr * obsMx (br * refIds.length) refIds.length A (msC Cg refIds) = 1)
    (hset : ∀ i mi, movIds[i]? = some mi →
      SetupOK A Cg br N refIds mi (g i) (H i) (U i) (V i) (S i) (sq i) (P i)) :
    (∀ i mi, movIds[i]? = some mi →
      n ≤ N ∧ (∀ t, t < n → S i t ≠ 0) ∧ (∀ t, n ≤ t → t < N → S i t = 0)) ∧
    ∃ M1 M1inv : Matrix (Fin n) (Fin n) K, M1 * M1inv = 1 ∧
      (∀ m0, movIds[0]? = some m0 → ∀ r, r < (H 0).r → ∀ j : Fin n,
        (U 0).e r j.1 * sq 0 j.1
          = ∑ k, obsFn (refIds.length + m0.length) A (msC Cg (refIds ++ m0)) r k * M1 k j) ∧
      ∀ r, r < br * (refIds.length + (movIds.map List.length).sum) →
        (∀ j : Fin n,
          (msObsAll br N refIds.length (movIds.map List.length) (fun i => obsOf (U i) (sq i) N) P).e r j.1
          = ∑ k, obsFn (refIds.length + (movIds.map List.length).sum) A
              (msC Cg (refIds ++ movIds.flatten)) r k * M1 k j) ∧
        (∀ t, n ≤ t → t < N →
          (msObsAll br N refIds.length (movIds.map List.length) (fun i => obsOf (U i) (sq i) N) P).e r t
            = 0) := by
  set nmov := movIds.map List.length with hnmov
  set nD := refIds.length + nmov.sum with hnD
  -- one setup
  have hone : ∀ i mi, movIds[i]? = some mi →
      (n ≤ N ∧ (∀ t, t < n → S i t ≠ 0) ∧ (∀ t, n ≤ t → t < N → S i t = 0)) ∧
      ∃ M Minv : Matrix (Fin n) (Fin n) K, M * Minv = 1 ∧
        (∀ r, r < (H i).r → ∀ j : Fin n, (U i).e r j.1 * sq i j.1
          = ∑ k, obsFn (refIds.length + mi.length) A (msC Cg (refIds ++ mi)) r k * M k j) ∧
        toMx (br * refIds.length) N (oRef br refIds.length mi.length (obsOf (U i) (sq i) N)).e
          = obsMx (br * refIds.length) refIds.length A (msC Cg refIds) * M * (emb n N : Matrix (Fin n) (Fin N) K) ∧
        toMx (br * mi.length) N (oMov br refIds.length mi.length (obsOf (U i) (sq i) N)).e
          = obsMx (br * mi.length) mi.length A (msC Cg mi) * M * (emb n N : Matrix (Fin n) (Fin N) K) := by
    intro i mi hmi
    obtain ⟨hg, hHr, ⟨Γ, Γr, hΓ, hfac⟩, hsvd, hsq, _⟩ := hset i mi hmi
    have hcr : obsMx (br * refIds.length) refIds.length A (msC Cg (refIds ++ mi)) = obsMx (br * refIds.length) refIds.length A (msC Cg refIds) :=
      obsMx_congr br refIds.length A _ _ (fun a ha => by
        funext t; simp only [msC]; rw [append_getD_left _ _ a ha])
    have hcm : (fun a => msC Cg (refIds ++ mi) (refIds.length + a)) = msC Cg mi := by
      funext a t; simp only [msC]; rw [append_getD_right]
    have := setup_parts A (msC Cg (refIds ++ mi)) (g i) hg refIds.length mi.length br N (H i) (U i) (V i) (S i) (sq i)
      hHr Γ Γr hΓ hfac Olr (by rw [hcr]; exact hObs) hsvd hsq
    rw [hcr, hcm] at this
    exact this
  obtain ⟨m0, rest, hm⟩ : ∃ m0 rest, movIds = m0 :: rest := by
    cases hmov : movIds with
    | nil => exact absurd hmov hne
    | cons x xs => exact ⟨x, xs, rfl⟩
  have h0 : movIds[0]? = some m0 := by rw [hm]; rfl
  have hget0 : nmov.getD 0 0 = m0.length := by simp [hnmov, hm]
  obtain ⟨_, M1, M1inv, hM1, hfac0, href0, _⟩ := hone 0 m0 h0
  rw [← hget0] at href0
  refine ⟨fun i mi hmi => (hone i mi hmi).1, M1, M1inv, hM1, ?_, ?_⟩
  · intro m0' hm0' r hr j
    rw [h0] at hm0'
    cases hm0'
    exact hfac0 r hr j
  -- the rows of `Obs_all`
  have hmain : ∀ r (hr : r < br * nD) (t : Fin N),
      (msObsAll br N refIds.length nmov (fun i => obsOf (U i) (sq i) N) P).e r t.1
        = (obsMx (br * nD) nD A (msC Cg (refIds ++ movIds.flatten)) * M1
            * (emb n N : Matrix (Fin n) (Fin N) K)) ⟨r, hr⟩ t := by
    intro r hr t
    have hnDpos : 0 < nD := by
      rcases Nat.eq_zero_or_pos nD with h | h
      · rw [h, Nat.mul_zero] at hr; omega
      · exact h
    have hii : r / nD < br := Nat.div_lt_of_lt_mul (by rw [Nat.mul_comm]; exact hr)
    have hs : r % nD < nD := Nat.mod_lt _ hnDpos
    have hdec : r / nD * nD + r % nD = r := Nat.div_add_mod' r nD
    have hget : (allRows br refIds.length nmov)[r]? = (blockRow refIds.length nmov (r / nD))[r % nD]? := by
      have := flatMap_blocks_get br nD (blockRow refIds.length nmov) (blockRow_length refIds.length nmov) (r / nD) (r % nD) hii hs
      rw [hdec] at this
      rw [allRows_eq]; exact this
    by_cases hsr : r % nD < refIds.length
    · -- a reference row
      have hsrc := PV.C03.blockRow_ref refIds.length nmov (r / nD) (r % nD) hsr
      have hq : r / nD * refIds.length + r % nD < br * refIds.length := block_lt hii hsr
      have hentry : (msObsAll br N refIds.length nmov (fun i => obsOf (U i) (sq i) N) P).e r t.1
          = (oRef br refIds.length (nmov.getD 0 0) (obsOf (U 0) (sq 0) N)).e (r / nD * refIds.length + r % nD) t.1 := by
        simp only [msObsAll, hget, hsrc]
      rw [hentry]
      have := congrFun (congrFun href0 ⟨_, hq⟩) t
      simp only [toMx] at this
      rw [this]
      apply row_transfer
      intro k
      simp only [obsMx, Matrix.of_apply]
      rw [obsFn_blk refIds.length A _ _ _ hsr k]
      conv_rhs => rw [← hdec, obsFn_blk nD A _ _ _ hs k]
      apply Finset.sum_congr rfl; intro x _
      simp only [msC]
      rw [append_getD_left _ _ _ hsr]
    · -- a roving row
      obtain ⟨jj, nm, k, hjj, hk, ht⟩ := roving_cover nmov (r % nD - refIds.length) (by omega)
      have hidx : r % nD = refIds.length + ((nmov.take jj).sum + k) := by omega
      obtain ⟨mi, hmi, hlen⟩ : ∃ mi : List ℕ, movIds[jj]? = some mi ∧ mi.length = nm := by
        simp only [hnmov, List.getElem?_map, Option.map_eq_some_iff] at hjj
        exact hjj
      subst hlen
      have hgetj : nmov.getD jj 0 = mi.length := by
        simp [List.getD_eq_getElem?_getD, hjj]
      have hsrc := PV.C03.blockRow_mov refIds.length nmov (r / nD) jj mi.length k hjj hk
      rw [← hidx] at hsrc
      have hq : r / nD * mi.length + k < br * mi.length := block_lt hii hk
      have hentry : (msObsAll br N refIds.length nmov (fun i => obsOf (U i) (sq i) N) P).e r t.1
          = (rebase (oMov br refIds.length (nmov.getD jj 0) (obsOf (U jj) (sq jj) N)) (P jj)
              (oRef br refIds.length (nmov.getD 0 0) (obsOf (U 0) (sq 0) N))).e (r / nD * mi.length + k) t.1 := by
        simp only [msObsAll, hget, hsrc]
      rw [hentry, hgetj]
      obtain ⟨_, Mi, Miinv, hMi, _, hrefj, hmovj⟩ := hone jj mi hmi
      obtain ⟨hPc, hpen⟩ := (hset jj mi hmi).pinv
      rw [hrefj] at hpen
      have hreb := PV.C03.rebase_toMx (br * mi.length) (br * refIds.length) N
        (oMov br refIds.length mi.length (obsOf (U jj) (sq jj) N)) (P jj)
        (oRef br refIds.length (nmov.getD 0 0) (obsOf (U 0) (sq 0) N)) rfl hPc
      rw [hmovj, href0, rebase_deficient (hone 0 m0 h0).1.1 _ _ Olr hObs Mi Miinv M1 hMi _ hpen] at hreb
      have := congrFun (congrFun hreb ⟨_, hq⟩) t
      simp only [toMx] at this
      rw [this]
      apply row_transfer
      intro k'
      simp only [obsMx, Matrix.of_apply]
      rw [obsFn_blk mi.length A _ _ _ hk k']
      conv_rhs => rw [← hdec, obsFn_blk nD A _ _ _ hs k', hidx]
      apply Finset.sum_congr rfl; intro x _
      simp only [msC]
      rw [append_getD_right, flatten_getD movIds jj mi k hmi hk]
  intro r hr
  constructor
  · intro j
    have := hmain r hr ⟨j.1, lt_of_lt_of_le j.2 (hone 0 m0 h0).1.1⟩
    rw [mul_emb, dif_pos j.2] at this
    rw [this]
    simp only [Matrix.mul_apply, obsMx, Matrix.of_apply]
  · intro t h1 h2
    have := hmain r hr ⟨t, h2⟩
    rw [mul_emb, dif_neg (by simpa using h1)] at this
    exact this

end assemble

/-! ## `Obs_all` ⟶ the realised pair -/
section realise
variable {K : Type} [Field K] [LinearOrder K] [IsStrictOrderedRing K]

/-- **The global realisation.**  `Obs_all` (`br` block rows of `nD` sensors) is row by row `O_br(A, C)·M₁` in its
    leading `n` columns; `(A, C)` observable by `br − 1` block rows.  For every recorded `(Q, R, R⁻¹)` of
    `Obs_all[:-nD]` (`QrC`: the inverse of the leading block **if** it is invertible — derived here)
    the order-`n` pair of `SSI_multi_setup` is `(M₁⁻¹·A·M₁, C·M₁)`. -/
theorem ms_realised {n : ℕ} (A : Matrix (Fin n) (Fin n) K) (C : ℕ → Fin n → K) (br N nD : ℕ)
    (hbr : 1 ≤ br) (hD : 0 < nD) (ObsAll : Mat K) (hn : n ≤ N)
    (M1 M1inv : Matrix (Fin n) (Fin n) K) (hM : M1 * M1inv = 1)
    (hrows : ∀ r, r < br * nD → ∀ j : Fin n, ObsAll.e r j.1 = ∑ k, obsFn nD A C r k * M1 k j)
    (Olg : Matrix (Fin n) (Fin ((br - 1) * nD)) K) (hObs : Olg * obsMx ((br - 1) * nD) nD A C = 1)
    (Q R Rinv : Mat K) (hqr : QrC (upPart ObsAll nD) Q R Rinv ((br - 1) * nD) N n) :
    toMx n n (fastA Rinv Q (dnPart ObsAll nD) n).e = M1inv * A * M1 ∧
    toMx nD n (outC ObsAll nD n).e = outMx nD C * M1 := by
  have hM' : M1inv * M1 = 1 := mul_eq_one_comm.mp hM
  have hsplit : (br - 1) * nD + nD = br * nD := by
    obtain ⟨b, rfl⟩ : ∃ b, br = b + 1 := ⟨br - 1, by omega⟩
    rw [Nat.add_sub_cancel, Nat.succ_mul]
  have hUp : toMx ((br - 1) * nD) n (upPart ObsAll nD).e = obsMx ((br - 1) * nD) nD A C * M1 := by
    ext i j
    simp only [toMx, Matrix.mul_apply, obsMx, Matrix.of_apply, C01.upPart_e]
    exact hrows i.1 (by have := i.2; omega) j
  have hDn : toMx ((br - 1) * nD) n (dnPart ObsAll nD).e = obsMx ((br - 1) * nD) nD A C * A * M1 := by
    ext i j
    simp only [toMx, Matrix.mul_apply, obsMx, Matrix.of_apply, C01.dnPart_e]
    rw [hrows (nD + i.1) (by have := i.2; omega) j]
    apply Finset.sum_congr rfl
    intro k _
    rw [Nat.add_comm, obs_shift nD hD A C i.1 k]
  have hOut : toMx nD n (outC ObsAll nD n).e = outMx nD C * M1 := by
    ext a j
    simp only [toMx, Matrix.mul_apply, outMx, Matrix.of_apply, C01.C01_outC]
    rw [hrows a.1 (by have := a.2; omega) j]
    apply Finset.sum_congr rfl
    intro k _
    rw [obsFn_first nD A C a.1 a.2 k]
  have hlead := qr_leading_block hn (upPart ObsAll nD).e Q.e R.e hqr.dec hqr.tri
  have hRinv := hqr.inv ⟨M1inv * Olg * toMx ((br - 1) * nD) n Q.e, by
    rw [Matrix.mul_assoc, ← hlead, hUp, Matrix.mul_assoc, ← Matrix.mul_assoc Olg, hObs,
      Matrix.one_mul, hM']⟩
  exact ⟨C01.C01_realisation_fast hn _ _ Q R Rinv hqr.hRc hqr.hQr hqr.dec hqr.orth hqr.tri hRinv
    (obsMx ((br - 1) * nD) nD A C) A M1 M1inv hM hUp hDn, hOut⟩

end realise

end PV.MsFreeVib
