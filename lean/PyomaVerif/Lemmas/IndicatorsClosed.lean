import PyomaVerif.Lemmas.Indicators
/-!
Helper lemmas for `Props/C18Contracts.lean`: the closed forms of the symmetric 2×2
eigen-problem (`Sym2.disc`, `Sym2.eigvals`, `Sym2.minorDir`, `gram2`) and `mpd?` over `ℝ`.
-/
namespace PV
open Finset
set_option linter.unusedSectionVars false

section field
variable {K : Type} [Field K] [LinearOrder K] [IsStrictOrderedRing K]

theorem Sym2.disc_eq (S : Sym2 K) : S.disc = (S.a - S.d) * (S.a - S.d) + 4 * (S.b * S.b) := by
  unfold Sym2.disc; ring

theorem Sym2.disc_nonneg (S : Sym2 K) : 0 ≤ S.disc := by
  rw [Sym2.disc_eq]
  have h1 := mul_self_nonneg (S.a - S.d)
  have h2 := mul_self_nonneg S.b
  linarith

/-- the discriminant vanishes exactly for a multiple of the identity -/
theorem Sym2.disc_eq_zero_iff (S : Sym2 K) : S.disc = 0 ↔ S.a = S.d ∧ S.b = 0 := by
  rw [Sym2.disc_eq]
  constructor
  · intro h
    have h1 := mul_self_nonneg (S.a - S.d)
    have h2 := mul_self_nonneg S.b
    have e1 : (S.a - S.d) * (S.a - S.d) = 0 := by linarith
    have e2 : S.b * S.b = 0 := by linarith
    exact ⟨sub_eq_zero.mp (mul_self_eq_zero.mp e1), mul_self_eq_zero.mp e2⟩
  · rintro ⟨h1, h2⟩; rw [h1, h2]; ring

theorem Sym2.eigvals_fst (sqrt : K → K) (S : Sym2 K) :
    (S.eigvals sqrt).1 = (S.a + S.d + sqrt S.disc) / 2 := by
  simp only [Sym2.eigvals, one_add_one_eq_two]

theorem Sym2.eigvals_snd (sqrt : K → K) (S : Sym2 K) :
    (S.eigvals sqrt).2 = (S.a + S.d - sqrt S.disc) / 2 := by
  simp only [Sym2.eigvals, one_add_one_eq_two]

/-- `(b, μ − a)` is an eigenvector for `μ = (a + d − s)/2` when `s² = disc` -/
theorem sym2_minor_closed_gt {a b d s : K} (hs : s * s = (a - d) * (a - d) + 4 * (b * b)) :
    a * b + b * ((d - a - s) / 2) = (a + d - s) / 2 * b ∧
    b * b + d * ((d - a - s) / 2) = (a + d - s) / 2 * ((d - a - s) / 2) := by
  constructor
  · ring
  · field_simp
    linear_combination (-1 : K) * hs

/-- `(μ − d, b)` is an eigenvector for `μ = (a + d − s)/2` when `s² = disc` -/
theorem sym2_minor_closed_le {a b d s : K} (hs : s * s = (a - d) * (a - d) + 4 * (b * b)) :
    a * ((a - d - s) / 2) + b * b = (a + d - s) / 2 * ((a - d - s) / 2) ∧
    b * ((a - d - s) / 2) + d * b = (a + d - s) / 2 * b := by
  constructor
  · field_simp
    linear_combination (-1 : K) * hs
  · ring

theorem gram2_a (n : Nat) (φ : Nat → Cx K) : (gram2 n φ).a = ∑ k ∈ range n, (φ k).re * (φ k).re := by
  simp only [gram2, sumTo_eq]
theorem gram2_b (n : Nat) (φ : Nat → Cx K) : (gram2 n φ).b = ∑ k ∈ range n, (φ k).re * (φ k).im := by
  simp only [gram2, sumTo_eq]
theorem gram2_d (n : Nat) (φ : Nat → Cx K) : (gram2 n φ).d = ∑ k ∈ range n, (φ k).im * (φ k).im := by
  simp only [gram2, sumTo_eq]

/-- the discriminant of the Gram matrix scales with `|c|⁴` -/
theorem gram2_disc_cscale (n : Nat) (c : Cx K) (φ : Nat → Cx K) :
    (gram2 n (cscale c φ)).disc
      = ((c.re * c.re + c.im * c.im) * (c.re * c.re + c.im * c.im)) * (gram2 n φ).disc := by
  rw [Sym2.disc_eq, Sym2.disc_eq, gram2_a, gram2_b, gram2_d, gram2_a, gram2_b, gram2_d]
  simp only [cscale_re, cscale_im, rot_a, rot_b, rot_d]
  ring

end field

/-! ### over the real numbers -/
section real

theorem Sym2.minorDir_real (S : Sym2 ℝ) :
    S.minorDir =
      if S.d < S.a then (S.b, (S.d - S.a - Real.sqrt S.disc) / 2)
      else if 0 < Real.sqrt S.disc then ((S.a - S.d - Real.sqrt S.disc) / 2, S.b)
      else (0, 1) := by
  simp only [Sym2.minorDir, real_sqrt, real_lt, decide_eq_true_eq, one_add_one_eq_two]

theorem Sym2.sqrt_disc_sq (S : Sym2 ℝ) :
    Real.sqrt S.disc * Real.sqrt S.disc = (S.a - S.d) * (S.a - S.d) + 4 * (S.b * S.b) := by
  rw [Real.mul_self_sqrt S.disc_nonneg, Sym2.disc_eq]

/-- the closed-form direction is never the zero vector -/
theorem Sym2.minorDir_ne (S : Sym2 ℝ) : S.minorDir.1 ≠ 0 ∨ S.minorDir.2 ≠ 0 := by
  rw [Sym2.minorDir_real]
  have hs := Real.sqrt_nonneg S.disc
  split_ifs with h1 h2
  · right
    show (S.d - S.a - Real.sqrt S.disc) / 2 ≠ 0
    have : (S.d - S.a - Real.sqrt S.disc) / 2 < 0 := by linarith
    exact this.ne
  · left
    show (S.a - S.d - Real.sqrt S.disc) / 2 ≠ 0
    have : (S.a - S.d - Real.sqrt S.disc) / 2 < 0 := by linarith
    exact this.ne
  · right; exact one_ne_zero

/-- the closed-form direction satisfies the eigen-equations for the smaller eigenvalue -/
theorem Sym2.minorDir_eig (S : Sym2 ℝ) :
    S.a * S.minorDir.1 + S.b * S.minorDir.2 = (S.eigvals Real.sqrt).2 * S.minorDir.1 ∧
    S.b * S.minorDir.1 + S.d * S.minorDir.2 = (S.eigvals Real.sqrt).2 * S.minorDir.2 := by
  rw [Sym2.minorDir_real, Sym2.eigvals_snd]
  have hs := S.sqrt_disc_sq
  split_ifs with h1 h2
  · exact sym2_minor_closed_gt hs
  · exact sym2_minor_closed_le hs
  · have h0 : Real.sqrt S.disc = 0 := le_antisymm (not_lt.mp h2) (Real.sqrt_nonneg _)
    have hd : S.disc = 0 := by
      have := Real.mul_self_sqrt S.disc_nonneg
      rw [h0, mul_zero] at this; exact this.symm
    obtain ⟨e1, e2⟩ := (Sym2.disc_eq_zero_iff S).mp hd
    rw [h0, e1, e2]
    constructor <;> ring

/-- `mpd?` over `ℝ`, spelled with `Finset` sums -/
theorem mpd?_real (n : Nat) (φ : Nat → Cx ℝ) (v01 v11 : ℝ) :
    mpd? n φ v01 v11 =
      if 0 < ∑ k ∈ range n,
          (if 0 < Real.sqrt (v01 * v01 + v11 * v11) * Real.sqrt ((φ k).re * (φ k).re + (φ k).im * (φ k).im) then
            Real.sqrt ((φ k).re * (φ k).re + (φ k).im * (φ k).im) else 0)
      then some (mpd n φ v01 v11) else none := by
  simp only [mpd?, sumTo_eq, real_sqrt, real_lt, Cx.normSq, decide_eq_true_eq]

end real

end PV
