import PyomaVerif.Model.Efdd
import PyomaVerif.Lemmas.Fdd
import PyomaVerif.Lemmas.Sum
/-! Lemmas for C07: sums over the pair-complex numbers, real scaling, list interleaving. -/
set_option linter.unusedSectionVars false
set_option linter.unnecessarySeqFocus false
namespace PV.Efdd
open PV PV.Fdd

theorem sumTo_succ {A : Type} [Zero A] [Add A] (n : Nat) (f : Nat → A) :
    sumTo (n + 1) f = sumTo n f + f n := by
  unfold sumTo
  rw [List.range_succ, List.foldl_append]
  rfl

theorem sumTo_zero {A : Type} [Zero A] [Add A] (f : Nat → A) : sumTo 0 f = 0 := rfl

/-- an additive map commutes with `sumTo` -/
theorem sumTo_map {A B : Type} [Zero A] [Add A] [Zero B] [Add B] (φ : A → B) (h0 : φ 0 = 0)
    (hadd : ∀ a b, φ (a + b) = φ a + φ b) (n : Nat) (g : Nat → A) :
    sumTo n (fun i => φ (g i)) = φ (sumTo n g) := by
  induction n with
  | zero => rw [sumTo_zero, sumTo_zero, h0]
  | succ n ih => rw [sumTo_succ, sumTo_succ, hadd, ih]

section field
variable {K : Type} [Field K] [LinearOrder K] [IsStrictOrderedRing K]

namespace CxL
open Cx

theorem smul_zero (c : K) : Cx.smul c (0 : Cx K) = 0 := by
  apply Cx.ext' <;> simp only [smul_re, smul_im, zero_re, zero_im, mul_zero]
theorem smul_add (c : K) (a b : Cx K) : Cx.smul c (a + b) = Cx.smul c a + Cx.smul c b := by
  apply Cx.ext' <;> simp <;> ring
theorem mul_smul (c : K) (a b : Cx K) : a * Cx.smul c b = Cx.smul c (a * b) := by
  apply Cx.ext' <;> simp <;> ring
theorem smul_mul (c : K) (a b : Cx K) : Cx.smul c a * b = Cx.smul c (a * b) := by
  apply Cx.ext' <;> simp <;> ring
theorem ofReal_mul_mul (r x : K) : (Cx.ofReal (r * x * (r * x)) : Cx K) = Cx.smul (r * r) (Cx.ofReal (x * x)) := by
  apply Cx.ext' <;> simp <;> ring

end CxL

theorem sumTo_smul (c : K) (n : Nat) (g : Nat → Cx K) :
    sumTo n (fun i => Cx.smul c (g i)) = Cx.smul c (sumTo n g) :=
  sumTo_map (Cx.smul c) (CxL.smul_zero c) (CxL.smul_add c) n g

end field

section lists
variable {α : Type}

theorem interleave_length : ∀ (a b : List α), a.length = b.length →
    (interleave a b).length = 2 * a.length
  | [], [], _ => rfl
  | [], _ :: _, h => by simp at h
  | _ :: _, [], h => by simp at h
  | x :: as, y :: bs, h => by
    have := interleave_length as bs (by simpa using h)
    simp only [interleave, List.length_cons, this]; omega

theorem interleave_getElem? : ∀ (a b : List α), a.length = b.length → ∀ j,
    (interleave a b)[2 * j]? = a[j]? ∧ (interleave a b)[2 * j + 1]? = b[j]?
  | [], [], _, j => by simp [interleave]
  | [], _ :: _, h, _ => by simp at h
  | _ :: _, [], h, _ => by simp at h
  | x :: as, y :: bs, h, j => by
    cases j with
    | zero => simp [interleave]
    | succ j =>
      have := interleave_getElem? as bs (by simpa using h) j
      have e1 : 2 * (j + 1) = (2 * j) + 1 + 1 := by omega
      rw [e1]
      simp only [interleave, List.getElem?_cons_succ]
      exact this

end lists
end PV.Efdd
