import PyomaVerif.Model.Mpe
import PyomaVerif.Lemmas.NanTable
import PyomaVerif.Lemmas.Mpe
import Mathlib.Tactic.Linarith
/-!
# Extraction of a pole that is in the table (`SSI_mpe` / `pLSCF_mpe`, `int` and `list` branches)

When the frequency requested at an order column is the frequency of a retained pole of that column,
`np.nanargmin(np.abs(Fn_pol[:, o] - f))` designates the FIRST row of the column holding exactly `f`,
and `np.isclose(f, f, rtol)` accepts it for every `rtol ≥ 0`.  Used by C16 (the dialog hands over
frequencies read from the table) and C20 (the abscissa of a marker is a table entry).
-/
namespace PV

/-- `r` is the first row of column `o` whose retained pole has frequency exactly `f` -/
def FirstRowOf (Fn : Mat NR) (f : Rat) (o r : Nat) : Prop :=
  r < Fn.r ∧ Fn.e r o = some f ∧ ∀ j, j < r → Fn.e j o ≠ some f

theorem FirstRowOf.unique {Fn : Mat NR} {f : Rat} {o r r' : Nat}
    (h : FirstRowOf Fn f o r) (h' : FirstRowOf Fn f o r') : r = r' := by
  rcases Nat.lt_trichotomy r r' with hlt | heq | hgt
  · exact absurd h.2.1 (h'.2.2 r hlt)
  · exact heq
  · exact absurd h'.2.1 (h.2.2 r' hgt)

/-- the row `np.nanargmin(np.abs(Fn_pol[:, o] - f))` designates (`0` stands for the `ValueError` of an
    all-NaN column; never used in that case) -/
def hitRow (Fn : Mat NR) (f : Rat) (o : Nat) : Nat :=
  (nanargminAbs (fun r => Fn.e r o) Fn.r (some f)).getD 0

theorem isclose_self (f rtol : Rat) (hr : 0 ≤ rtol) : isclose (some f) (some f) rtol = true := by
  rw [isclose_some, sub_self, abs_zero]
  have hat : (0 : Rat) ≤ iscloseAtol := by unfold iscloseAtol; norm_num
  have : 0 ≤ rtol * |f| := mul_nonneg hr (abs_nonneg f)
  linarith

/-- looking up a frequency that occurs in the column: the first row holding it, and `hitRow` is that row. -/
theorem hitRow_of_mem (Fn : Mat NR) (f : Rat) (o : Nat) (h : ∃ r, r < Fn.r ∧ Fn.e r o = some f) :
    nanargminAbs (fun r => Fn.e r o) Fn.r (some f) = some (hitRow Fn f o) ∧ FirstRowOf Fn f o (hitRow Fn f o) := by
  obtain ⟨r, hr, hlt, hval, hfirst⟩ := nanargminAbs_of_mem (fun r => Fn.e r o) Fn.r f h
  have : hitRow Fn f o = r := by simp [hitRow, hr]
  rw [this]
  exact ⟨hr, hlt, hval, hfirst⟩

/-- any row holding `f` lies at or below the designated one -/
theorem hitRow_le (Fn : Mat NR) (f : Rat) (o r : Nat) (hr : r < Fn.r) (hv : Fn.e r o = some f) :
    hitRow Fn f o ≤ r := by
  obtain ⟨_, _, _, hfirst⟩ := hitRow_of_mem Fn f o ⟨r, hr, hv⟩
  by_contra hc
  exact hfirst r (Nat.lt_of_not_le hc) hv

/-- the request `f` at column `o` contributes the cell `(hitRow, o)` -/
theorem selCell_of_mem (Fn : Mat NR) (rtol : Rat) (hr : 0 ≤ rtol) (f : Rat) (o : Nat)
    (h : ∃ r, r < Fn.r ∧ Fn.e r o = some f) :
    selCell Fn (chkOwn rtol) f o = some (hitRow Fn f o, o) := by
  obtain ⟨hsel, _, hval, _⟩ := hitRow_of_mem Fn f o h
  simp [selCell, hsel, chkOwn, hval, isclose_self f rtol hr]

/-- a (frequency, order) pair designating an existing column and a retained pole of it -/
def PoleAt (Fn : Mat NR) (q : Rat × Nat) : Prop := q.2 < Fn.c ∧ ∃ r, r < Fn.r ∧ Fn.e r q.2 = some q.1

theorem mpePass_of_pole (Fn Xi : Mat NR) (Phi : Ten3 (Option CQ)) (cov : Option MpeCov) (rtol : Rat) (hr : 0 ≤ rtol)
    (cells0 : List (Nat × Nat)) (q : Rat × Nat) (hq : PoleAt Fn q) :
    mpePass Fn Xi Phi cov (chkOwn rtol) (accOfCells Fn Xi Phi cov cells0) q.1 (some q.2)
      = .ok (accOfCells Fn Xi Phi cov (cells0 ++ [(hitRow Fn q.1 q.2, q.2)])) := by
  obtain ⟨hc, hex⟩ := hq
  obtain ⟨hsel, _, hval, _⟩ := hitRow_of_mem Fn q.1 q.2 hex
  have hchk : chkOwn rtol q.1 (Fn.e (hitRow Fn q.1 q.2) q.2) = true := by
    rw [chkOwn, hval]; exact isclose_self q.1 rtol hr
  unfold mpePass
  simp only [Nat.not_le.mpr hc, if_false, hsel, hchk, if_true, pure, Except.pure]
  rw [accPush_accOfCells]

/-- the request loop on pairs that are all poles of the table: every request returns its own pole. -/
theorem mpeLoop_of_poles (Fn Xi : Mat NR) (Phi : Ten3 (Option CQ)) (cov : Option MpeCov) (rtol : Rat) (hr : 0 ≤ rtol) :
    ∀ (ps : List (Rat × Nat)) (cells0 : List (Nat × Nat)), (∀ q ∈ ps, PoleAt Fn q) →
      mpeLoop Fn Xi Phi cov (chkOwn rtol) (ps.map fun q => (q.1, some q.2)) (accOfCells Fn Xi Phi cov cells0)
        = .ok (accOfCells Fn Xi Phi cov (cells0 ++ ps.map fun q => (hitRow Fn q.1 q.2, q.2))) := by
  intro ps
  induction ps with
  | nil => intro cells0 _; simp [mpeLoop, pure, Except.pure]
  | cons q rest ih =>
    intro cells0 h
    simp only [List.map_cons, mpeLoop]
    rw [mpePass_of_pole Fn Xi Phi cov rtol hr cells0 q (h q List.mem_cons_self)]
    simp only
    rw [ih _ (fun q' hq' => h q' (List.mem_cons_of_mem _ hq'))]
    simp

theorem listReqs_cons (f : Rat) (fs : List Rat) (o : Nat) (os : List Nat) :
    listReqs (f :: fs) (o :: os) = (f, some o) :: listReqs fs os := by
  unfold listReqs
  simp only [List.length_cons, List.range_succ_eq_map, List.filterMap_cons, List.getElem?_cons_zero,
    List.filterMap_map]
  congr 1

/-- `enumerate(freq)` with `order[ii]`, for equally long lists: the zipped pairs. -/
theorem listReqs_zip : ∀ (freq : List Rat) (os : List Nat), freq.length = os.length →
    listReqs freq os = (freq.zip os).map fun q => (q.1, some q.2)
  | [], [], _ => rfl
  | [], _ :: _, h => by simp at h
  | _ :: _, [], h => by simp at h
  | f :: fs, o :: os, h => by
    rw [listReqs_cons, listReqs_zip fs os (by simpa using h)]
    rfl

/-- **`SSI_mpe`, `order` a list.** Handing over frequencies that are retained poles of their order
    columns returns, mode by mode, the first row of that column holding that frequency (frequency, damping,
    shape, covariances of that one cell) and echoes the orders. -/
theorem ssiMpe_list_of_poles (Fn Xi : Mat NR) (Phi : Ten3 (Option CQ)) (Lab : Option (Mat Int)) (rtol : Rat)
    (hr : 0 ≤ rtol) (cov : Option MpeCov) (freq : List Rat) (os : List Nat) (hlen : freq.length = os.length)
    (hp : ∀ q ∈ freq.zip os, PoleAt Fn q) :
    ssiMpe freq Fn Xi Phi (.list os) Lab rtol cov
      = .ok ⟨accOfCells Fn Xi Phi cov ((freq.zip os).map fun q => (hitRow Fn q.1 q.2, q.2)),
             .arr (os.map Int.ofNat)⟩ := by
  unfold ssiMpe ssiMpeWith
  simp only
  rw [listReqs_zip freq os hlen, ← accOfCells_nil Fn Xi Phi cov,
    mpeLoop_of_poles Fn Xi Phi cov rtol hr _ [] hp]
  simp [pure, Except.pure]

/-- **`pLSCF_mpe`, `order` a list** (no covariances). -/
theorem plscfMpe_list_of_poles (Fn Xi : Mat NR) (Phi : Ten3 (Option CQ)) (Lab : Option (Mat Int)) (deltaf rtol : Rat)
    (hr : 0 ≤ rtol) (freq : List Rat) (os : List Nat) (hlen : freq.length = os.length)
    (hp : ∀ q ∈ freq.zip os, PoleAt Fn q) :
    plscfMpe freq Fn Xi Phi (.list os) Lab deltaf rtol
      = .ok ⟨accOfCells Fn Xi Phi none ((freq.zip os).map fun q => (hitRow Fn q.1 q.2, q.2)),
             .arr (os.map Int.ofNat)⟩ := by
  unfold plscfMpe plscfMpeWith
  simp only
  rw [listReqs_zip freq os hlen, ← accOfCells_nil Fn Xi Phi none,
    mpeLoop_of_poles Fn Xi Phi none rtol hr _ [] hp]
  simp [pure, Except.pure, hlen]

/-- **`SSI_mpe`, `order` an int, one request** that is a retained pole of that column. -/
theorem ssiMpe_int_of_pole (Fn Xi : Mat NR) (Phi : Ten3 (Option CQ)) (Lab : Option (Mat Int)) (rtol : Rat)
    (hr : 0 ≤ rtol) (cov : Option MpeCov) (x : Rat) (o : Nat) (hp : PoleAt Fn (x, o)) :
    ssiMpe [x] Fn Xi Phi (.int o) Lab rtol cov
      = .ok ⟨accOfCells Fn Xi Phi cov [(hitRow Fn x o, o)], .int o⟩ := by
  unfold ssiMpe ssiMpeWith
  simp only
  have := mpeLoop_of_poles Fn Xi Phi cov rtol hr [(x, o)] [] (by simpa using hp)
  rw [accOfCells_nil] at this
  simp only [List.map_cons, List.map_nil, List.nil_append] at this ⊢
  rw [this]
  simp [pure, Except.pure]

theorem plscfMpe_int_of_pole (Fn Xi : Mat NR) (Phi : Ten3 (Option CQ)) (Lab : Option (Mat Int)) (deltaf rtol : Rat)
    (hr : 0 ≤ rtol) (x : Rat) (o : Nat) (hp : PoleAt Fn (x, o)) :
    plscfMpe [x] Fn Xi Phi (.int o) Lab deltaf rtol
      = .ok ⟨accOfCells Fn Xi Phi none [(hitRow Fn x o, o)], .int o⟩ := by
  unfold plscfMpe plscfMpeWith
  simp only
  have := mpeLoop_of_poles Fn Xi Phi none rtol hr [(x, o)] [] (by simpa using hp)
  rw [accOfCells_nil] at this
  simp only [List.map_cons, List.map_nil, List.nil_append] at this ⊢
  rw [this]
  simp [pure, Except.pure]

end PV
