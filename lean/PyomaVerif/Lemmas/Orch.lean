import PyomaVerif.Model.Orch
/-!
Specification vocabulary and helper lemmas for C15 (core Lean only).
-/
namespace PV.Orch
variable {C P D R A Q : Type} {α : Type}

/-! ### dict lemmas -/

theorem get_dictSet_self (n : String) (v : α) (l : List (String × α)) :
    get n (dictSet n v l) = some v := by
  induction l with
  | nil => simp [dictSet, get]
  | cons h t ih =>
    obtain ⟨k, w⟩ := h
    by_cases hk : k = n
    · simp [dictSet, get, hk]
    · simp [dictSet, get, hk, ih]

theorem get_dictSet_ne {m n : String} (h : m ≠ n) (v : α) (l : List (String × α)) :
    get m (dictSet n v l) = get m l := by
  have hnm : ¬ n = m := fun e => h e.symm
  induction l with
  | nil => simp [dictSet, get, hnm]
  | cons hd t ih =>
    obtain ⟨k, w⟩ := hd
    by_cases hk : k = n
    · subst hk
      simp [dictSet, get, hnm]
    · by_cases hm : k = m
      · subst hm
        simp [dictSet, get, hk]
      · simp [dictSet, get, hk, hm, ih]

theorem dictSet_get_self {n : String} {v : α} {l : List (String × α)} (h : get n l = some v) :
    dictSet n v l = l := by
  induction l with
  | nil => simp [get] at h
  | cons hd t ih =>
    obtain ⟨k, w⟩ := hd
    by_cases hk : k = n
    · simp [get, hk] at h
      simp [dictSet, hk, h]
    · simp [get, hk] at h
      simp [dictSet, hk, ih h]

theorem dictSet_dictSet (n : String) (v w : α) (l : List (String × α)) :
    dictSet n v (dictSet n w l) = dictSet n v l := by
  induction l with
  | nil => simp [dictSet]
  | cons hd t ih =>
    obtain ⟨k, u⟩ := hd
    by_cases hk : k = n
    · simp [dictSet, hk]
    · simp [dictSet, hk, ih]

/-- keys of the dict -/
def keys (l : List (String × α)) : List String := l.map (·.1)

theorem get_none_iff (n : String) (l : List (String × α)) : get n l = none ↔ n ∉ keys l := by
  induction l with
  | nil => simp [get, keys]
  | cons hd t ih =>
    obtain ⟨k, u⟩ := hd
    by_cases hk : k = n
    · simp [get, keys, hk]
    · have : ¬ n = k := fun e => hk e.symm
      simp [get, hk, keys, this] at ih ⊢
      exact ih

theorem keys_dictSet_mem {n : String} (v : α) {l : List (String × α)} (h : n ∈ keys l) :
    keys (dictSet n v l) = keys l := by
  induction l with
  | nil => simp [keys] at h
  | cons hd t ih =>
    obtain ⟨k, u⟩ := hd
    by_cases hk : k = n
    · simp [dictSet, keys, hk]
    · have hn : ¬ n = k := fun e => hk e.symm
      simp [keys, hn] at h
      have := ih (by simpa [keys] using h)
      simp [dictSet, keys, hk] at this ⊢
      exact this

theorem keys_dictSet_not_mem {n : String} (v : α) {l : List (String × α)} (h : n ∉ keys l) :
    keys (dictSet n v l) = keys l ++ [n] := by
  induction l with
  | nil => simp [keys, dictSet]
  | cons hd t ih =>
    obtain ⟨k, u⟩ := hd
    have hk : ¬ k = n := by
      intro e; apply h; simp [keys, e]
    have ht : n ∉ keys t := by
      intro e; apply h; simp [keys] at e ⊢; exact Or.inr e
    have := ih ht
    simp [dictSet, keys, hk] at this ⊢
    exact this

/-! ### one run -/

/-- the instance after `run_by_name` was attempted on it: the new result if the pre-run
    checks pass, the same instance otherwise. -/
def ranEntry (sem : Sem C P D R A Q) (e : Entry C P D R) : Entry C P D R :=
  match runEntry sem e with
  | .ok e' => e'
  | .error _ => e

theorem runEntry_ok {sem : Sem C P D R A Q} {e e' : Entry C P D R} (h : runEntry sem e = .ok e') :
    ∃ p d, e.params = some p ∧ e.bound = .set d ∧ e' = { e with result := some (sem.run e.cls p d) } := by
  unfold runEntry preRun at h
  split at h
  · exact absurd h (by simp)
  · rename_i p d hpre
    split at hpre
    · exact absurd hpre (by simp)
    · exact absurd hpre (by simp)
    · rename_i d' hb
      split at hpre
      · exact absurd hpre (by simp)
      · rename_i p' hp
        simp only [Except.ok.injEq, Prod.mk.injEq] at hpre h
        obtain ⟨rfl, rfl⟩ := hpre
        exact ⟨p', d', hp, hb, h.symm⟩

theorem runEntry_of {sem : Sem C P D R A Q} {e : Entry C P D R} {p : P} {d : D}
    (hp : e.params = some p) (hb : e.bound = .set d) :
    runEntry sem e = .ok { e with result := some (sem.run e.cls p d) } := by
  simp [runEntry, preRun, hp, hb]

/-- running a second time gives the same instance -/
theorem runEntry_idem {sem : Sem C P D R A Q} {e e' : Entry C P D R} (h : runEntry sem e = .ok e') :
    runEntry sem e' = .ok e' := by
  obtain ⟨p, d, hp, hb, rfl⟩ := runEntry_ok h
  simp [runEntry, preRun, hp, hb]

theorem runEntry_error_cases {sem : Sem C P D R A Q} {e : Entry C P D R} {x : Exc}
    (h : runEntry sem e = .error x) :
    (e.bound = .missing ∧ x = .attributeError) ∨ (e.bound = .unset ∧ x = .valueError)
      ∨ (∃ d, e.bound = .set d ∧ e.params = none ∧ x = .valueError) := by
  unfold runEntry preRun at h
  cases hb : e.bound with
  | missing => simp [hb] at h; exact Or.inl ⟨rfl, h.symm⟩
  | unset => simp [hb] at h; exact Or.inr (Or.inl ⟨rfl, h.symm⟩)
  | set d =>
    cases hp : e.params with
    | none => simp [hb, hp] at h; exact Or.inr (Or.inr ⟨d, rfl, rfl, h.symm⟩)
    | some p => simp [hb, hp] at h

/-! ### `run_all` -/

theorem runAllAux_keys (sem : Sem C P D R A Q) (l : List (String × Entry C P D R)) :
    keys (runAllAux sem l).2 = keys l := by
  induction l with
  | nil => simp [runAllAux, keys]
  | cons hd t ih =>
    obtain ⟨k, e⟩ := hd
    unfold runAllAux
    split
    · rfl
    · simp [keys] at ih ⊢; exact ih

/-- every instance after `run_all` is the one before, or the one before with *its own* run stored. -/
theorem runAllAux_get (sem : Sem C P D R A Q) (m : String) (l : List (String × Entry C P D R)) :
    (get m l = none ∧ get m (runAllAux sem l).2 = none) ∨
    (∃ e, get m l = some e ∧
      (get m (runAllAux sem l).2 = some e ∨ get m (runAllAux sem l).2 = some (ranEntry sem e))) := by
  induction l with
  | nil => simp [runAllAux, get]
  | cons hd t ih =>
    obtain ⟨k, e⟩ := hd
    unfold runAllAux
    split
    · cases hg : get m ((k, e) :: t) with
      | none => exact Or.inl ⟨rfl, rfl⟩
      | some e0 => exact Or.inr ⟨e0, rfl, Or.inl rfl⟩
    · rename_i e' he
      by_cases hk : k = m
      · right
        refine ⟨e, by simp [get, hk], Or.inr ?_⟩
        simp [get, hk, ranEntry, he]
      · simp only [get, hk, if_false]
        exact ih

theorem runAllAux_raised (sem : Sem C P D R A Q) (l : List (String × Entry C P D R)) (x : Exc)
    (h : (runAllAux sem l).1 = .raised x) :
    ∃ pre k e post, l = pre ++ (k, e) :: post ∧ (∀ ke ∈ pre, ∃ e', runEntry sem ke.2 = .ok e') ∧
      runEntry sem e = .error x ∧
      (runAllAux sem l).2 = pre.map (fun ke => (ke.1, ranEntry sem ke.2)) ++ (k, e) :: post := by
  induction l with
  | nil => simp [runAllAux] at h
  | cons hd t ih =>
    obtain ⟨k, e⟩ := hd
    unfold runAllAux at h ⊢
    split at h
    · rename_i y hy
      simp only [Outcome.raised.injEq] at h
      subst h
      refine ⟨[], k, e, t, rfl, by simp, hy, ?_⟩
      simp
    · rename_i e' he
      obtain ⟨pre, k', e0, post, hl, hpre, herr, hres⟩ := ih h
      refine ⟨(k, e) :: pre, k', e0, post, by simp [hl], ?_, herr, ?_⟩
      · intro ke hke
        simp only [List.mem_cons] at hke
        rcases hke with rfl | hke
        · exact ⟨e', he⟩
        · exact hpre ke hke
      · simp [he, ranEntry, hres]

theorem runAllAux_ok (sem : Sem C P D R A Q) (l : List (String × Entry C P D R))
    (h : (runAllAux sem l).1 = .ok) :
    (∀ ke ∈ l, ∃ e', runEntry sem ke.2 = .ok e') ∧
      (runAllAux sem l).2 = l.map (fun ke => (ke.1, ranEntry sem ke.2)) := by
  induction l with
  | nil => simp [runAllAux]
  | cons hd t ih =>
    obtain ⟨k, e⟩ := hd
    unfold runAllAux at h ⊢
    split at h
    · simp at h
    · rename_i e' he
      obtain ⟨hall, hres⟩ := ih h
      constructor
      · intro ke hke
        simp only [List.mem_cons] at hke
        rcases hke with rfl | hke
        · exact ⟨e', he⟩
        · exact hall ke hke
      · simp [he, ranEntry, hres]

/-- does the loop of `run_all` get as far as `n`? (every instance before it passes its checks) -/
def reaches (sem : Sem C P D R A Q) (n : String) : List (String × Entry C P D R) → Bool
  | [] => false
  | (k, e) :: t =>
    if k = n then true
    else match runEntry sem e with
      | .ok _ => reaches sem n t
      | .error _ => false

theorem runAllAux_get_reaches (sem : Sem C P D R A Q) (n : String) (l : List (String × Entry C P D R)) :
    get n (runAllAux sem l).2 =
      if reaches sem n l then (get n l).map (ranEntry sem) else get n l := by
  induction l with
  | nil => simp [runAllAux, get, reaches]
  | cons hd t ih =>
    obtain ⟨k, e⟩ := hd
    by_cases hk : k = n
    · unfold runAllAux
      split
      · rename_i x hx
        simp [get, hk, reaches, ranEntry, hx]
      · rename_i e' he
        simp [get, hk, reaches, ranEntry, he]
    · unfold runAllAux
      split
      · rename_i x hx
        simp [reaches, hk, hx]
      · rename_i e' he
        simp only [get, hk, if_false, reaches, he]
        exact ih

/-! ### what explains a stored result -/

/-- `Derived sem c d p r`: the instance of class `c` bound to `d` holds parameters `p` and result
    `r` that come from **one run of its own** — `run c p₀ d` — followed by its own `mpe` calls. -/
inductive Derived (sem : Sem C P D R A Q) (c : C) (d : D) : P → R → Prop where
  | run (p : P) : Derived sem c d p (sem.run c p d)
  | mpe {p : P} {r : R} (a : A) : Derived sem c d p r →
      Derived sem c d (sem.mpeParams c p a) (sem.mpeRes c (sem.mpeParams c p a) (.set d) r a)

def Entry.Explained (sem : Sem C P D R A Q) (e : Entry C P D R) : Prop :=
  ∀ r, e.result = some r → ∃ p d, e.params = some p ∧ e.bound = .set d ∧ Derived sem e.cls d p r

def State.Explained (sem : Sem C P D R A Q) (s : State C P D R) : Prop :=
  ∀ n e, get n s.algs = some e → e.Explained sem

theorem explained_ranEntry {sem : Sem C P D R A Q} {e : Entry C P D R} (h : e.Explained sem) :
    (ranEntry sem e).Explained sem := by
  unfold ranEntry
  split
  · rename_i e' he
    obtain ⟨p, d, hp, hb, rfl⟩ := runEntry_ok he
    intro r hr
    simp only [Option.some.injEq] at hr
    subst hr
    exact ⟨p, d, hp, hb, Derived.run p⟩
  · exact h

theorem explained_mpeEntry {sem : Sem C P D R A Q} {e : Entry C P D R} (a : A) (h : e.Explained sem) :
    (mpeEntry sem e a).2.Explained sem := by
  unfold mpeEntry
  split
  · cases hr : e.result with
    | none => simpa using h
    | some r =>
      cases hp : e.params with
      | none => simpa using h
      | some p =>
        obtain ⟨p0, d, hp0, hb, hd⟩ := h r hr
        rw [hp] at hp0
        simp only [Option.some.injEq] at hp0
        subst hp0
        intro r' hr'
        simp only [Option.some.injEq] at hr'
        subst hr'
        refine ⟨_, d, rfl, hb, ?_⟩
        simp only [hb]
        exact Derived.mpe a hd
  · cases hp : e.params with
    | none => simpa using h
    | some p =>
      cases hr : e.result with
      | none =>
        intro r' hr'
        simp at hr'
      | some r =>
        obtain ⟨p0, d, hp0, hb, hd⟩ := h r hr
        rw [hp] at hp0
        simp only [Option.some.injEq] at hp0
        subst hp0
        intro r' hr'
        simp only [Option.some.injEq] at hr'
        subst hr'
        refine ⟨_, d, rfl, hb, ?_⟩
        simp only [hb]
        exact Derived.mpe a hd

theorem explained_dictSet {sem : Sem C P D R A Q} {l : List (String × Entry C P D R)}
    (n : String) {e' : Entry C P D R}
    (hl : ∀ m e, get m l = some e → e.Explained sem) (he : e'.Explained sem) :
    ∀ m e, get m (dictSet n e' l) = some e → e.Explained sem := by
  intro m e hg
  by_cases hm : m = n
  · subst hm
    rw [get_dictSet_self] at hg
    simp only [Option.some.injEq] at hg
    subst hg
    exact he
  · rw [get_dictSet_ne hm] at hg
    exact hl m e hg

theorem explained_step (sem : Sem C P D R A Q) (op : Op C P A Q) (s : State C P D R)
    (h : s.Explained sem) : (step sem op s).2.Explained sem := by
  cases op with
  | add n c p =>
    exact explained_dictSet n h (by intro r hr; simp at hr)
  | inject n c p b =>
    exact explained_dictSet n h (by intro r hr; simp at hr)
  | runByName n =>
    simp only [step, runByName]
    cases hg : get n s.algs with
    | none => exact h
    | some e =>
      simp only
      cases hr : runEntry sem e with
      | error x => exact h
      | ok e' =>
        have : e' = ranEntry sem e := by simp [ranEntry, hr]
        exact explained_dictSet n h (this ▸ explained_ranEntry (h n e hg))
  | runAll =>
    intro m e' hg
    simp only [step] at hg
    rcases runAllAux_get sem m s.algs with ⟨_, hnone⟩ | ⟨e, hge, hsame | hran⟩
    · rw [hnone] at hg; simp at hg
    · rw [hsame] at hg
      simp only [Option.some.injEq] at hg
      subst hg
      exact h m e hge
    · rw [hran] at hg
      simp only [Option.some.injEq] at hg
      subst hg
      exact explained_ranEntry (h m e hge)
  | mpe n a =>
    simp only [step]
    cases hg : get n s.algs with
    | none => exact h
    | some e => exact explained_dictSet n h (explained_mpeEntry a (h n e hg))
  | pre q => exact h
  | rollback =>
    intro m e hg
    simp [step, get] at hg

theorem explained_exec (sem : Sem C P D R A Q) (ops : List (Op C P A Q)) (s : State C P D R)
    (h : s.Explained sem) : (exec sem ops s).Explained sem := by
  induction ops generalizing s with
  | nil => exact h
  | cons op t ih => exact ih _ (explained_step sem op s h)

/-! ### projection of a history onto one algorithm -/

/-- the name an operation addresses -/
def Op.target : Op C P A Q → Option String
  | .add n _ _ => some n
  | .inject n _ _ _ => some n
  | .runByName n => some n
  | .mpe n _ => some n
  | .runAll => none
  | .pre _ => none
  | .rollback => none

/-- operations that matter to algorithm `n` (besides `run_all`): the calls naming it and the
    preprocessing of the setup's data (which decides what a later `add` binds). -/
def relevant (n : String) : Op C P A Q → Bool
  | .add m _ _ => m = n
  | .inject m _ _ _ => m = n
  | .runByName m => m = n
  | .mpe m _ => m = n
  | .pre _ => true
  | .rollback => true
  | .runAll => false

/-- the history as algorithm `n` sees it: calls naming other algorithms are dropped, a `run_all`
    becomes `run_by_name n` when its loop reaches `n` and is dropped otherwise. -/
def proj (sem : Sem C P D R A Q) (n : String) : List (Op C P A Q) → State C P D R → List (Op C P A Q)
  | [], _ => []
  | .runAll :: t, s =>
    (if reaches sem n s.algs then [.runByName n] else []) ++ proj sem n t (step sem .runAll s).2
  | op :: t, s =>
    (if relevant n op then [op] else []) ++ proj sem n t (step sem op s).2

/-- two setups agree on algorithm `n` and on the data -/
def Agree (n : String) (s s2 : State C P D R) : Prop :=
  get n s.algs = get n s2.algs ∧ s.data = s2.data ∧ s.initial = s2.initial

theorem step_frame (sem : Sem C P D R A Q) (op : Op C P A Q) (s : State C P D R) (n m : String)
    (ht : op.target = some n) (hm : m ≠ n) : get m (step sem op s).2.algs = get m s.algs := by
  cases op with
  | add n' c p => simp [Op.target] at ht; subst ht; simp [step, get_dictSet_ne hm]
  | inject n' c p b => simp [Op.target] at ht; subst ht; simp [step, get_dictSet_ne hm]
  | runByName n' =>
    simp [Op.target] at ht; subst ht
    simp only [step, runByName]
    cases hg : get n' s.algs with
    | none => rfl
    | some e =>
      simp only
      cases hr : runEntry sem e with
      | error x => rfl
      | ok e' => simp [get_dictSet_ne hm]
  | mpe n' a =>
    simp [Op.target] at ht; subst ht
    simp only [step]
    cases hg : get n' s.algs with
    | none => rfl
    | some e => simp [get_dictSet_ne hm]
  | runAll => simp [Op.target] at ht
  | pre q => simp [Op.target] at ht
  | rollback => simp [Op.target] at ht

theorem step_data (sem : Sem C P D R A Q) (op : Op C P A Q) (s : State C P D R) (n : String)
    (ht : op.target = some n ∨ op = .runAll) :
    (step sem op s).2.data = s.data ∧ (step sem op s).2.initial = s.initial := by
  cases op with
  | add n' c p => simp [step]
  | inject n' c p b => simp [step]
  | runByName n' =>
    simp only [step, runByName]
    cases hg : get n' s.algs with
    | none => simp
    | some e =>
      simp only
      cases hr : runEntry sem e with
      | error x => simp
      | ok e' => simp
  | mpe n' a =>
    simp only [step]
    cases hg : get n' s.algs with
    | none => simp
    | some e => simp
  | runAll => simp [step]
  | pre q => rcases ht with ht | ht <;> simp [Op.target] at ht
  | rollback => rcases ht with ht | ht <;> simp [Op.target] at ht

theorem agree_step_same (sem : Sem C P D R A Q) (op : Op C P A Q) (n : String) (s s2 : State C P D R)
    (hrel : relevant n op = true) (h : Agree n s s2) :
    Agree n (step sem op s).2 (step sem op s2).2 := by
  obtain ⟨hg, hd, hi⟩ := h
  cases op with
  | add m c p =>
    simp [relevant] at hrel; subst hrel
    exact ⟨by simp [step, get_dictSet_self, hd], hd, hi⟩
  | inject m c p b =>
    simp [relevant] at hrel; subst hrel
    exact ⟨by simp [step, get_dictSet_self], hd, hi⟩
  | runByName m =>
    simp [relevant] at hrel; subst hrel
    simp only [step, runByName, ← hg]
    cases hge : get m s.algs with
    | none => exact ⟨by simpa [hge] using hg, hd, hi⟩
    | some e =>
      simp only
      cases hr : runEntry sem e with
      | error x => exact ⟨by simpa [hge] using hg, hd, hi⟩
      | ok e' => exact ⟨by simp [get_dictSet_self], hd, hi⟩
  | mpe m a =>
    simp [relevant] at hrel; subst hrel
    simp only [step, ← hg]
    cases hge : get m s.algs with
    | none => exact ⟨by simpa [hge] using hg, hd, hi⟩
    | some e => exact ⟨by simp [get_dictSet_self], hd, hi⟩
  | runAll => simp [relevant] at hrel
  | pre q => exact ⟨hg, by simp [step, hd], hi⟩
  | rollback => exact ⟨by simp [step, get], by simp [step, hi], hi⟩

theorem agree_step_left (sem : Sem C P D R A Q) (op : Op C P A Q) (n : String) (s s2 : State C P D R)
    (hrel : relevant n op = false) (hra : op ≠ .runAll) (h : Agree n s s2) :
    Agree n (step sem op s).2 s2 := by
  obtain ⟨hg, hd, hi⟩ := h
  have key : ∀ m, op.target = some m → m ≠ n → Agree n (step sem op s).2 s2 := by
    intro m ht hmn
    have hf := step_frame sem op s m n ht (fun e => hmn e.symm)
    have hdd := step_data sem op s m (Or.inl ht)
    exact ⟨hf.trans hg, hdd.1.trans hd, hdd.2.trans hi⟩
  cases op with
  | add m c p => exact key m rfl (by simpa [relevant] using hrel)
  | inject m c p b => exact key m rfl (by simpa [relevant] using hrel)
  | runByName m => exact key m rfl (by simpa [relevant] using hrel)
  | mpe m a => exact key m rfl (by simpa [relevant] using hrel)
  | runAll => exact absurd rfl hra
  | pre q => simp [relevant] at hrel
  | rollback => simp [relevant] at hrel

theorem get_runByName (sem : Sem C P D R A Q) (n : String) (s : State C P D R) :
    get n (step sem (.runByName n) s).2.algs = (get n s.algs).map (ranEntry sem) := by
  simp only [step, runByName]
  cases hg : get n s.algs with
  | none => simp [hg]
  | some e =>
    simp only
    cases hr : runEntry sem e with
    | error x => simp [hg, ranEntry, hr]
    | ok e' => simp [get_dictSet_self, ranEntry, hr]

theorem agree_exec_proj (sem : Sem C P D R A Q) (n : String) (ops : List (Op C P A Q))
    (s s2 : State C P D R) (h : Agree n s s2) :
    Agree n (exec sem ops s) (exec sem (proj sem n ops s) s2) := by
  induction ops generalizing s s2 with
  | nil => exact h
  | cons op t ih =>
    have exec_append : ∀ (a b : List (Op C P A Q)) (u : State C P D R),
        exec sem (a ++ b) u = exec sem b (exec sem a u) := by
      intro a
      induction a with
      | nil => intro b u; rfl
      | cons x xs ihx => intro b u; exact ihx b _
    by_cases hra : op = .runAll
    · subst hra
      simp only [proj, exec, exec_append]
      apply ih
      obtain ⟨hg, hd, hi⟩ := h
      by_cases hre : reaches sem n s.algs = true
      · simp only [hre, if_true]
        show Agree n (step sem .runAll s).2 (step sem (.runByName n) s2).2
        have hdd := step_data sem (.runByName n) s2 n (Or.inl rfl)
        refine ⟨?_, ?_, ?_⟩
        · rw [get_runByName, ← hg]
          simp [step, runAllAux_get_reaches, hre]
        · rw [hdd.1]; simpa [step] using hd
        · rw [hdd.2]; simpa [step] using hi
      · simp only [hre]
        show Agree n (step sem .runAll s).2 s2
        refine ⟨?_, by simpa [step] using hd, by simpa [step] using hi⟩
        simp [step, runAllAux_get_reaches, hre, hg]
    · have hproj : proj sem n (op :: t) s =
          (if relevant n op then [op] else []) ++ proj sem n t (step sem op s).2 := by
        cases op with
        | runAll => exact absurd rfl hra
        | add m c p => rfl
        | inject m c p b => rfl
        | runByName m => rfl
        | mpe m a => rfl
        | pre q => rfl
        | rollback => rfl
      rw [hproj]
      simp only [exec, exec_append]
      apply ih
      cases hrel : relevant n op with
      | true => simpa [exec] using agree_step_same sem op n s s2 hrel h
      | false => simpa [exec] using agree_step_left sem op n s s2 hrel hra h

end PV.Orch
