import PyomaVerif.Model.Pick
import Mathlib.Algebra.Order.Ring.Rat
import Mathlib.Algebra.Order.Ring.Abs
import Mathlib.Data.List.Induction
import Mathlib.Data.List.Nodup
import Mathlib.Tactic.Linarith
/-! Helper lemmas for C16 (interactive picking). -/
namespace PV.Pick

theorem absR_eq_abs (q : Rat) : absR q = |q| := by
  unfold absR
  by_cases h : q < 0
  · simp [h, abs_of_neg h]
  · simp [h, abs_of_nonneg (not_lt.mp h)]

theorem absR_nonneg (q : Rat) : 0 ≤ absR q := by rw [absR_eq_abs]; exact abs_nonneg q

theorem absR_eq_zero {q : Rat} (h : absR q = 0) : q = 0 := by
  rw [absR_eq_abs] at h; exact abs_eq_zero.mp h

/-! ### first minimum -/

theorem argminV_spec : ∀ (l : List Rat) (i : Nat) (v : Rat), argminV l = some (i, v) →
    l[i]? = some v ∧ (∀ (j : Nat) w, l[j]? = some w → v ≤ w) ∧ (∀ (j : Nat) w, j < i → l[j]? = some w → v < w)
  | [], i, v, h => by simp [argminV] at h
  | x :: xs, i, v, h => by
    unfold argminV at h
    cases hr : argminV xs with
    | none =>
      rw [hr] at h
      simp only [Option.some.injEq, Prod.mk.injEq] at h
      obtain ⟨rfl, rfl⟩ := h
      have hx : xs = [] := by
        cases xs with
        | nil => rfl
        | cons a t =>
          unfold argminV at hr
          cases h2 : argminV t with
          | none => rw [h2] at hr; simp at hr
          | some p => obtain ⟨j, w⟩ := p; rw [h2] at hr; simp only at hr; split at hr <;> simp at hr
      subst hx
      refine ⟨by simp, ?_, ?_⟩
      · intro j w hj
        cases j with
        | zero => simp at hj; rw [hj]
        | succ j => simp at hj
      · intro j w hj; omega
    | some p =>
      obtain ⟨j0, v0⟩ := p
      rw [hr] at h
      simp only at h
      obtain ⟨h1, h2, h3⟩ := argminV_spec xs j0 v0 hr
      by_cases hlt : v0 < x
      · rw [if_pos hlt] at h
        simp only [Option.some.injEq, Prod.mk.injEq] at h
        obtain ⟨rfl, rfl⟩ := h
        refine ⟨by simpa using h1, ?_, ?_⟩
        · intro j w hj
          cases j with
          | zero => simp at hj; rw [← hj]; exact le_of_lt hlt
          | succ j => simp at hj; exact h2 j w hj
        · intro j w hji hj
          cases j with
          | zero => simp at hj; rw [← hj]; exact hlt
          | succ j => simp at hj; exact h3 j w (by omega) hj
      · rw [if_neg hlt] at h
        simp only [Option.some.injEq, Prod.mk.injEq] at h
        obtain ⟨rfl, rfl⟩ := h
        refine ⟨by simp, ?_, ?_⟩
        · intro j w hj
          cases j with
          | zero => simp at hj; rw [hj]
          | succ j => simp at hj; exact le_trans (not_lt.mp hlt) (h2 j w hj)
        · intro j w hj; omega

theorem argminV_isSome_of_ne_nil : ∀ (l : List Rat), l ≠ [] → ∃ p, argminV l = some p
  | [], h => absurd rfl h
  | x :: xs, _ => by
    unfold argminV
    cases argminV xs with
    | none => exact ⟨_, rfl⟩
    | some p => obtain ⟨j, v⟩ := p; simp only; split <;> exact ⟨_, rfl⟩

theorem argminV_eq_none : ∀ (l : List Rat), argminV l = none → l = []
  | [], _ => rfl
  | x :: xs, h => by
    obtain ⟨p, hp⟩ := argminV_isSome_of_ne_nil (x :: xs) (by simp)
    rw [hp] at h; simp at h

theorem nanargminV_spec : ∀ (l : List (Option Rat)) (i : Nat) (v : Rat), nanargminV l = some (i, v) →
    l[i]? = some (some v) ∧ (∀ (j : Nat) w, l[j]? = some (some w) → v ≤ w)
      ∧ (∀ (j : Nat) w, j < i → l[j]? = some (some w) → v < w)
  | [], i, v, h => by simp [nanargminV] at h
  | x :: xs, i, v, h => by
    unfold nanargminV at h
    cases x with
    | none =>
      cases hr : nanargminV xs with
      | none => rw [hr] at h; simp at h
      | some p =>
        obtain ⟨j0, v0⟩ := p
        rw [hr] at h
        simp only [Option.some.injEq, Prod.mk.injEq] at h
        obtain ⟨rfl, rfl⟩ := h
        obtain ⟨h1, h2, h3⟩ := nanargminV_spec xs j0 v0 hr
        refine ⟨by simpa using h1, ?_, ?_⟩
        · intro j w hj
          cases j with
          | zero => simp at hj
          | succ j => simp at hj; exact h2 j w hj
        · intro j w hji hj
          cases j with
          | zero => simp at hj
          | succ j => simp at hj; exact h3 j w (by omega) hj
    | some a =>
      cases hr : nanargminV xs with
      | none =>
        rw [hr] at h
        simp only [Option.some.injEq, Prod.mk.injEq] at h
        obtain ⟨rfl, rfl⟩ := h
        have hnone : ∀ j w, xs[j]? ≠ some (some w) := nanargminV_none xs hr
        refine ⟨by simp, ?_, ?_⟩
        · intro j w hj
          cases j with
          | zero => simp at hj; rw [hj]
          | succ j => simp at hj; exact absurd hj (hnone j w)
        · intro j w hj; omega
      | some p =>
        obtain ⟨j0, v0⟩ := p
        rw [hr] at h
        simp only at h
        obtain ⟨h1, h2, h3⟩ := nanargminV_spec xs j0 v0 hr
        by_cases hlt : v0 < a
        · rw [if_pos hlt] at h
          simp only [Option.some.injEq, Prod.mk.injEq] at h
          obtain ⟨rfl, rfl⟩ := h
          refine ⟨by simpa using h1, ?_, ?_⟩
          · intro j w hj
            cases j with
            | zero => simp at hj; rw [← hj]; exact le_of_lt hlt
            | succ j => simp at hj; exact h2 j w hj
          · intro j w hji hj
            cases j with
            | zero => simp at hj; rw [← hj]; exact hlt
            | succ j => simp at hj; exact h3 j w (by omega) hj
        · rw [if_neg hlt] at h
          simp only [Option.some.injEq, Prod.mk.injEq] at h
          obtain ⟨rfl, rfl⟩ := h
          refine ⟨by simp, ?_, ?_⟩
          · intro j w hj
            cases j with
            | zero => simp at hj; rw [hj]
            | succ j => simp at hj; exact le_trans (not_lt.mp hlt) (h2 j w hj)
          · intro j w hj; omega
where
  nanargminV_none : ∀ (l : List (Option Rat)), nanargminV l = none → ∀ (j : Nat) w, l[j]? ≠ some (some w)
    | [], _, j, w => by simp
    | x :: xs, h, j, w => by
      unfold nanargminV at h
      cases x with
      | none =>
        cases hr : nanargminV xs with
        | none =>
          cases j with
          | zero => simp
          | succ j => simpa using nanargminV_none xs hr j w
        | some p => rw [hr] at h; simp at h
      | some a =>
        cases hr : nanargminV xs with
        | none => rw [hr] at h; simp at h
        | some p => obtain ⟨j0, v0⟩ := p; rw [hr] at h; simp only at h; split at h <;> simp at h

/-! ### stable insertion sort -/

section SortSec
variable {α β : Type}

theorem sortByKey_append_singleton (key : α → Rat) (l : List α) (a : α) :
    sortByKey key (l ++ [a]) = insertByKey key a (sortByKey key l) := by
  simp [sortByKey, List.foldl_append]

theorem insertByKey_map (key : β → Rat) (f : α → β) (a : α) (l : List α) :
    insertByKey key (f a) (l.map f) = (insertByKey (fun x => key (f x)) a l).map f := by
  induction l with
  | nil => rfl
  | cons b l ih =>
    simp only [List.map_cons, insertByKey]
    split
    · simp [ih]
    · simp

theorem sortByKey_map (key : β → Rat) (f : α → β) (l : List α) :
    sortByKey key (l.map f) = (sortByKey (fun x => key (f x)) l).map f := by
  induction l using List.reverseRec with
  | nil => rfl
  | append_singleton l a ih =>
    rw [List.map_append, List.map_singleton, sortByKey_append_singleton,
      sortByKey_append_singleton, ih, insertByKey_map]

/-- sortedness by key -/
def SortedK (key : α → Rat) (l : List α) : Prop := l.Pairwise (fun a b => key a ≤ key b)

theorem insertByKey_perm (key : α → Rat) (a : α) (l : List α) :
    (insertByKey key a l).Perm (a :: l) := by
  induction l with
  | nil => exact List.Perm.refl _
  | cons b l ih =>
    simp only [insertByKey]
    split
    · exact (List.Perm.cons b ih).trans (List.Perm.swap a b l)
    · exact List.Perm.refl _

theorem insertByKey_sorted (key : α → Rat) (a : α) (l : List α) (h : SortedK key l) :
    SortedK key (insertByKey key a l) := by
  induction l with
  | nil => simp [insertByKey, SortedK]
  | cons b l ih =>
    simp only [insertByKey]
    have hb := List.pairwise_cons.mp h
    split
    · rename_i hle
      refine List.pairwise_cons.mpr ⟨?_, ih hb.2⟩
      intro c hc
      have := (insertByKey_perm key a l).mem_iff.mp hc
      rcases List.mem_cons.mp this with rfl | hc'
      · exact hle
      · exact hb.1 c hc'
    · rename_i hnle
      have hab : key a ≤ key b := le_of_lt (not_le.mp hnle)
      refine List.pairwise_cons.mpr ⟨?_, h⟩
      intro c hc
      rcases List.mem_cons.mp hc with rfl | hc'
      · exact hab
      · exact le_trans hab (hb.1 c hc')

theorem sortByKey_perm (key : α → Rat) (l : List α) : (sortByKey key l).Perm l := by
  induction l using List.reverseRec with
  | nil => exact List.Perm.refl _
  | append_singleton l a ih =>
    rw [sortByKey_append_singleton]
    refine (insertByKey_perm key a _).trans ?_
    refine (List.Perm.cons a ih).trans ?_
    exact (List.perm_append_singleton a l).symm

theorem sortByKey_sorted (key : α → Rat) (l : List α) : SortedK key (sortByKey key l) := by
  induction l using List.reverseRec with
  | nil => simp [sortByKey, SortedK]
  | append_singleton l a ih =>
    rw [sortByKey_append_singleton]; exact insertByKey_sorted key a _ ih

/-- inserting behind a list all of whose keys are `≤` appends -/
theorem insertByKey_of_all_le (key : α → Rat) (a : α) (l : List α) (h : ∀ b ∈ l, key b ≤ key a) :
    insertByKey key a l = l ++ [a] := by
  induction l with
  | nil => rfl
  | cons b l ih =>
    simp only [insertByKey]
    rw [if_pos (h b (by simp)), ih (fun c hc => h c (by simp [hc]))]
    rfl

theorem sortByKey_of_sorted (key : α → Rat) (l : List α) (h : SortedK key l) : sortByKey key l = l := by
  induction l using List.reverseRec with
  | nil => rfl
  | append_singleton l a ih =>
    have hp := List.pairwise_append.mp h
    rw [sortByKey_append_singleton, ih hp.1]
    exact insertByKey_of_all_le key a l (fun b hb => hp.2.2 b hb a (by simp))

theorem insertByKey_eq_specInsert (p : Rat × Nat) (l : List (Rat × Nat)) :
    insertByKey Prod.fst p l = specInsert p l := by
  induction l with
  | nil => simp [insertByKey, specInsert]
  | cons b l ih =>
    simp only [insertByKey, specInsert, List.takeWhile_cons, List.dropWhile_cons]
    by_cases h : b.1 ≤ p.1
    · simp only [h, if_true, decide_true]
      rw [ih]; simp [specInsert]
    · simp [h]

end SortSec

/-! ### gathering two parallel lists through the argsort of the first -/

theorem zip_eq_range_map (xs : List Rat) (ys : List Nat) (h : xs.length = ys.length) :
    xs.zip ys = (List.range xs.length).map (fun i => (xs.getD i 0, ys.getD i 0)) := by
  apply List.ext_getElem
  · simp [h]
  · intro i h1 h2
    simp at h1 h2
    simp [List.getD_eq_getElem?_getD, h1.1, h1.2]

theorem zip_gather (xs : List Rat) (ys : List Nat) (h : xs.length = ys.length) :
    ((argsort xs).map (fun i => xs.getD i 0)).zip ((argsort xs).map (fun i => ys.getD i 0))
      = sortByKey Prod.fst (xs.zip ys) := by
  rw [List.zip_map', zip_eq_range_map xs ys h, sortByKey_map]
  rfl

theorem sortSelected_zip (s : State) (h : s.selFreq.length = s.ind.length) :
    (sortSelected s).selFreq.zip (sortSelected s).ind = sortByKey Prod.fst (s.selFreq.zip s.ind) :=
  zip_gather s.selFreq s.ind h

theorem sortSelected_length (s : State) :
    (sortSelected s).selFreq.length = (sortSelected s).ind.length := by
  simp [sortSelected]

theorem sortSelected_shift (s : State) : (sortSelected s).shift = s.shift := rfl

/-! ### the invariant of the dialog and the step refinement -/

/-- abstraction map: the (frequency, order) pairs handed over -/
def pairs (s : State) : List (Rat × Nat) := s.selFreq.zip s.ind

/-- a pair designates an entry of the data the dialog shows -/
def IsPole : Plot → Rat × Nat → Prop
  | .stab t, q => ∃ r, r < t.r ∧ t.e r q.2 = some q.1
  | .fdd freq, q => freq[q.2]? = some q.1

structure Inv (p : Plot) (s : State) : Prop where
  len : s.selFreq.length = s.ind.length
  sorted : SortedK Prod.fst (pairs s)
  pole : ∀ q ∈ pairs s, IsPole p q

theorem inv_init (p : Plot) : Inv p State.init :=
  ⟨rfl, by simp [pairs, State.init, SortedK], by simp [pairs, State.init]⟩

theorem zip_dropLast {α β : Type} : ∀ (xs : List α) (ys : List β), xs.length = ys.length →
    xs.dropLast.zip ys.dropLast = (xs.zip ys).dropLast
  | [], _, _ => by simp
  | _ :: _, [], h => by simp at h
  | [a], [b], _ => by simp
  | a :: a' :: xs, b :: b' :: ys, h => by
    have := zip_dropLast (a' :: xs) (b' :: ys) (by simpa using h)
    simp only [List.dropLast_cons_cons, List.zip_cons_cons] at this ⊢
    rw [this]

theorem zip_eraseIdx {α β : Type} : ∀ (xs : List α) (ys : List β) (i : Nat),
    (xs.eraseIdx i).zip (ys.eraseIdx i) = (xs.zip ys).eraseIdx i
  | [], _, _ => by simp
  | _ :: _, [], _ => by simp
  | a :: xs, b :: ys, 0 => by simp
  | a :: xs, b :: ys, i + 1 => by simp [zip_eraseIdx xs ys i]

theorem map_abs_zip (xs : List Rat) (ys : List Nat) (h : xs.length = ys.length) (x : Rat) :
    (xs.zip ys).map (fun q => absR (q.1 - x)) = xs.map (fun f => absR (f - x)) := by
  have : (xs.zip ys).map (fun q => absR (q.1 - x)) = ((xs.zip ys).map Prod.fst).map (fun f => absR (f - x)) := by
    simp [List.map_map]
  rw [this, List.map_fst_zip (by omega)]

/-- what a select does to the two lists -/
theorem select_pairs (s : State) (f : Rat) (o : Nat) (hl : s.selFreq.length = s.ind.length)
    (hs : SortedK Prod.fst (pairs s)) :
    pairs (sortSelected { s with ind := s.ind ++ [o], selFreq := s.selFreq ++ [f] })
      = specInsert (f, o) (pairs s) := by
  unfold pairs at hs ⊢
  rw [sortSelected_zip _ (by simp [hl])]
  simp only
  rw [List.zip_append hl, List.zip_cons_cons, List.zip_nil_right, sortByKey_append_singleton,
    sortByKey_of_sorted _ _ hs, insertByKey_eq_specInsert]

theorem specInsert_perm (q : Rat × Nat) (l : List (Rat × Nat)) : (specInsert q l).Perm (q :: l) := by
  rw [← insertByKey_eq_specInsert]; exact insertByKey_perm _ _ _

theorem inv_select (p : Plot) (s : State) (f : Rat) (o : Nat) (h : Inv p s) (hp : IsPole p (f, o)) :
    Inv p (sortSelected { s with ind := s.ind ++ [o], selFreq := s.selFreq ++ [f] }) := by
  refine ⟨sortSelected_length _, ?_, ?_⟩
  · rw [select_pairs s f o h.len h.sorted, ← insertByKey_eq_specInsert]
    exact insertByKey_sorted _ _ _ h.sorted
  · intro q hq
    rw [select_pairs s f o h.len h.sorted] at hq
    rcases List.mem_cons.mp ((specInsert_perm _ _).mem_iff.mp hq) with rfl | hq'
    · exact hp
    · exact h.pole q hq'

theorem inv_of_sublist (p : Plot) (s s' : State) (h : Inv p s)
    (hl : s'.selFreq.length = s'.ind.length) (hsub : (pairs s').Sublist (pairs s)) : Inv p s' :=
  ⟨hl, List.Pairwise.sublist hsub h.sorted, fun q hq => h.pole q (hsub.subset hq)⟩

theorem closestRow_spec (t : Mat (Option Rat)) (o : Nat) (x : Rat) (sel : Nat) (v : Rat)
    (h : closestRow t o x = some (sel, v)) :
    sel < t.r ∧ ∃ f, t.e sel o = some f ∧ v = absR (f - x)
      ∧ (∀ r g, r < t.r → t.e r o = some g → absR (f - x) ≤ absR (g - x))
      ∧ (∀ r g, r < sel → t.e r o = some g → absR (f - x) < absR (g - x)) := by
  obtain ⟨h1, h2, h3⟩ := nanargminV_spec _ _ _ h
  have hlt : sel < t.r := by
    by_contra hc
    rw [List.getElem?_eq_none (by simpa using Nat.le_of_not_lt hc)] at h1
    simp at h1
  simp only [List.getElem?_map, List.getElem?_range hlt, Option.map_some, Option.some.injEq] at h1
  cases hf : t.e sel o with
  | none => rw [hf] at h1; simp at h1
  | some f =>
    rw [hf] at h1
    simp only [Option.map_some, Option.some.injEq] at h1
    refine ⟨hlt, f, rfl, h1.symm, ?_, ?_⟩
    · intro r g hr hg
      rw [h1]
      apply h2 r
      simp [List.getElem?_range hr, hg]
    · intro r g hr hg
      rw [h1]
      apply h3 r _ hr
      simp [List.getElem?_range (Nat.lt_trans hr hlt), hg]

theorem pick_isPole (t : Mat (Option Rat)) (x y f : Rat) (o : Nat) (h : pick t x y = some (f, o)) :
    IsPole (.stab t) (f, o) := by
  unfold pick at h
  split at h
  · simp at h
  · rename_i yInd v hco
    split at h
    · simp at h
    · rename_i sel w hcr
      obtain ⟨hlt, g, hg, -⟩ := closestRow_spec t yInd x sel w hcr
      rw [hg] at h
      simp only [Option.some.injEq, Prod.mk.injEq] at h
      obtain ⟨rfl, rfl⟩ := h
      exact ⟨sel, hlt, hg⟩

theorem getClosestPole_eq (t : Mat (Option Rat)) (s : State) (x y : Rat) :
    (pick t x y = none ∧ ∃ m, getClosestPole t s x y = .error m) ∨
    (∃ f o, pick t x y = some (f, o) ∧ getClosestPole t s x y
        = .ok (sortSelected { s with ind := s.ind ++ [o], selFreq := s.selFreq ++ [f] })) := by
  unfold pick getClosestPole
  split
  · exact Or.inl ⟨rfl, _, rfl⟩
  · split
    · exact Or.inl ⟨rfl, _, rfl⟩
    · split
      · exact Or.inl ⟨rfl, _, rfl⟩
      · exact Or.inr ⟨_, _, rfl, rfl⟩

theorem specPick_fdd_isPole (freq : List Rat) (x y : Rat) (q : Rat × Nat)
    (h : specPick (.fdd freq) x y = some q) : IsPole (.fdd freq) q := by
  simp only [specPick] at h
  cases ha : argminV (freq.map fun f => absR (f - x)) with
  | none => rw [ha] at h; simp at h
  | some p =>
    obtain ⟨i, v⟩ := p
    rw [ha] at h
    simp only [Option.map_some, Option.some.injEq] at h
    subst h
    obtain ⟨h1, -, -⟩ := argminV_spec _ _ _ ha
    have hlt : i < freq.length := by
      by_contra hc
      rw [List.getElem?_eq_none (by simpa using Nat.le_of_not_lt hc)] at h1
      simp at h1
    simp [IsPole, List.getD_eq_getElem?_getD, List.getElem?_eq_getElem hlt]

theorem getClosestFreq_eq (freq : List Rat) (s : State) (x y : Rat) :
    (specPick (.fdd freq) x y = none ∧ ∃ m, getClosestFreq freq s x = .error m) ∨
    (∃ f o, specPick (.fdd freq) x y = some (f, o) ∧ getClosestFreq freq s x
        = .ok (sortSelected { s with ind := s.ind ++ [o], selFreq := s.selFreq ++ [f] })) := by
  simp only [specPick, getClosestFreq]
  cases argminV (freq.map fun f => absR (f - x)) with
  | none => exact Or.inl ⟨rfl, _, rfl⟩
  | some p => obtain ⟨i, v⟩ := p; exact Or.inr ⟨_, _, rfl, rfl⟩

theorem isEmpty_zip_len (s : State) (h : s.selFreq.length = s.ind.length) :
    (!s.selFreq.isEmpty && !s.ind.isEmpty) = !(pairs s).isEmpty := by
  unfold pairs
  cases hx : s.selFreq <;> cases hy : s.ind <;> simp_all

theorem deselect3 (p : Plot) (s : State) (pos) (h : Inv p s) (hsh : s.shift = true) :
    ∃ s', deselect s 3 pos = .ok s' ∧ Inv p s' ∧ s'.shift = true ∧ pairs s' = (pairs s).dropLast := by
  unfold deselect
  simp only [hsh, beq_self_eq_true, Bool.and_self, if_true]
  split
  · refine ⟨_, rfl, ?_, rfl, ?_⟩
    · apply inv_of_sublist p s _ h
      · simp [h.len]
      · simp only [pairs]; rw [zip_dropLast _ _ h.len]; exact List.dropLast_sublist _
    · simp only [pairs]; rw [zip_dropLast _ _ h.len]
  · rename_i hne
    refine ⟨s, rfl, h, hsh, ?_⟩
    rw [isEmpty_zip_len s h.len] at hne
    simp at hne
    simp [hne]

theorem specNearest_pairs (s : State) (h : s.selFreq.length = s.ind.length) (x : Rat) :
    specNearest x (pairs s) = (argminV (s.selFreq.map fun f => absR (f - x))).map Prod.fst := by
  unfold specNearest pairs
  rw [map_abs_zip _ _ h]

theorem deselect2 (p : Plot) (s : State) (x y : Rat) (h : Inv p s) (hsh : s.shift = true) :
    ∃ s', deselect s 2 (some (x, y)) = .ok s' ∧ Inv p s' ∧ s'.shift = true ∧
      pairs s' = (match specNearest x (pairs s) with
                  | some i => (pairs s).eraseIdx i
                  | none => pairs s) := by
  rw [specNearest_pairs s h.len]
  unfold deselect
  simp only [hsh, Bool.and_true, show ((2 : Nat) == 3) = false from rfl, beq_self_eq_true, if_true,
    Bool.false_eq_true, if_false]
  split
  · rename_i hne
    cases ha : argminV (s.selFreq.map fun f => absR (f - x)) with
    | none =>
      exfalso
      have := argminV_eq_none _ ha
      simp at this
      simp [this] at hne
    | some q =>
      obtain ⟨i, v⟩ := q
      refine ⟨_, rfl, ?_, rfl, ?_⟩
      · apply inv_of_sublist p s _ h
        · simp [List.length_eraseIdx, h.len]
        · simp only [pairs]; rw [zip_eraseIdx]; exact List.eraseIdx_sublist _ _
      · simp only [pairs, Option.map_some]; rw [zip_eraseIdx]
  · rename_i hne
    refine ⟨s, rfl, h, hsh, ?_⟩
    rw [isEmpty_zip_len s h.len] at hne
    have hp : pairs s = [] := by simpa using hne
    have hs : s.selFreq = [] := by
      have := h.len
      unfold pairs at hp
      cases hx : s.selFreq with
      | nil => rfl
      | cons a l =>
        cases hy : s.ind with
        | nil => rw [hx, hy] at this; simp at this
        | cons b l' => rw [hx, hy] at hp; simp at hp
    simp [hs, argminV, hp]

theorem deselect_other (s : State) (b : Nat) (pos) (h2 : b ≠ 2) (h3 : b ≠ 3) : deselect s b pos = .ok s := by
  unfold deselect
  simp [h2, h3]

theorem deselect_noshift (s : State) (b : Nat) (pos) (h : s.shift = false) : deselect s b pos = .ok s := by
  unfold deselect
  simp [h]

/-- every handler refines the abstract step and keeps the invariant -/
theorem step_refine (p : Plot) (s : State) (e : Event) (h : Inv p s) :
    Inv p (stepKeep p s e) ∧
      ((stepKeep p s e).shift, pairs (stepKeep p s e)) = specStep p (s.shift, pairs s) e := by
  cases e with
  | keyPress k =>
    simp only [stepKeep, step, specStep]
    split
    · exact ⟨⟨h.len, h.sorted, h.pole⟩, rfl⟩
    · exact ⟨h, rfl⟩
  | keyRelease k =>
    simp only [stepKeep, step, specStep]
    split
    · exact ⟨⟨h.len, h.sorted, h.pole⟩, rfl⟩
    · exact ⟨h, rfl⟩
  | click b pos =>
    cases hsh : s.shift with
    | false =>
      have : stepKeep p s (.click b pos) = s := by
        cases p <;> simp [stepKeep, step, onClickSSI, onClickFDD, hsh, deselect_noshift s b pos hsh]
      rw [this]
      exact ⟨h, by simp [specStep, hsh]⟩
    | true =>
      rcases b with _ | _ | _ | _ | b
      · -- button 0
        have : stepKeep p s (.click 0 pos) = s := by
          cases p <;> simp [stepKeep, step, onClickSSI, onClickFDD, deselect_other s 0 pos]
        rw [this]; exact ⟨h, by simp [specStep, hsh]⟩
      · -- button 1: select
        cases pos with
        | none =>
          have : stepKeep p s (.click 1 none) = s := by
            cases p <;> simp [stepKeep, step, onClickSSI, onClickFDD, hsh]
          rw [this]; exact ⟨h, by simp [specStep, hsh]⟩
        | some xy =>
          obtain ⟨x, y⟩ := xy
          have key : ∀ (r : Except String State),
              ((specPick p x y = none ∧ ∃ m, r = .error m) ∨
               (∃ f o, specPick p x y = some (f, o) ∧ r
                  = .ok (sortSelected { s with ind := s.ind ++ [o], selFreq := s.selFreq ++ [f] }))) →
              step p s (.click 1 (some (x, y))) = r →
              Inv p (stepKeep p s (.click 1 (some (x, y)))) ∧
                ((stepKeep p s (.click 1 (some (x, y)))).shift, pairs (stepKeep p s (.click 1 (some (x, y)))))
                  = specStep p (true, pairs s) (.click 1 (some (x, y))) := by
            intro r hr hstep
            rcases hr with ⟨hp, m, rfl⟩ | ⟨f, o, hp, rfl⟩
            · simp only [stepKeep, hstep]
              exact ⟨h, by simp [specStep, hp, hsh]⟩
            · simp only [stepKeep, hstep]
              have hpole : IsPole p (f, o) := by
                cases p with
                | stab t => exact pick_isPole t x y f o hp
                | fdd freq => exact specPick_fdd_isPole freq x y (f, o) hp
              refine ⟨inv_select p s f o h hpole, ?_⟩
              have hspec : specStep p (true, pairs s) (.click 1 (some (x, y)))
                  = (true, specInsert (f, o) (pairs s)) := by simp [specStep, hp]
              rw [hspec, select_pairs s f o h.len h.sorted, sortSelected_shift]
              simp [hsh]
          cases p with
          | stab t =>
            exact key _ (getClosestPole_eq t s x y) (by simp [step, onClickSSI, hsh])
          | fdd freq =>
            exact key _ (getClosestFreq_eq freq s x y) (by simp [step, onClickFDD, hsh])
      · -- button 2: deselect-nearest
        cases pos with
        | none =>
          have : stepKeep p s (.click 2 none) = s := by
            cases p <;> simp only [stepKeep, step, onClickSSI, onClickFDD, deselect, hsh] <;>
              (by_cases hne : (!s.selFreq.isEmpty && !s.ind.isEmpty) = true <;> simp [hne])
          rw [this]; exact ⟨h, by simp [specStep, hsh]⟩
        | some xy =>
          obtain ⟨x, y⟩ := xy
          obtain ⟨s', hd, hinv, hs', hp'⟩ := deselect2 p s x y h hsh
          have : stepKeep p s (.click 2 (some (x, y))) = s' := by
            cases p <;> simp [stepKeep, step, onClickSSI, onClickFDD, hd]
          rw [this]
          refine ⟨hinv, ?_⟩
          rw [hs', hp']
          simp only [specStep]
          cases specNearest x (pairs s) <;> simp
      · -- button 3: deselect-one
        obtain ⟨s', hd, hinv, hs', hp'⟩ := deselect3 p s pos h hsh
        have : stepKeep p s (.click 3 pos) = s' := by
          cases p <;> simp [stepKeep, step, onClickSSI, onClickFDD, hd]
        rw [this]
        refine ⟨hinv, ?_⟩
        rw [hs', hp']
        simp [specStep]
      · -- other buttons
        have : stepKeep p s (.click (b + 4) pos) = s := by
          cases p <;> simp [stepKeep, step, onClickSSI, onClickFDD, deselect_other s (b + 4) pos]
        rw [this]; exact ⟨h, by simp [specStep, hsh]⟩

theorem run_refine (p : Plot) : ∀ (evs : List Event) (s : State), Inv p s →
    Inv p (run p s evs) ∧
      ((run p s evs).shift, pairs (run p s evs)) = evs.foldl (specStep p) (s.shift, pairs s)
  | [], s, h => ⟨h, rfl⟩
  | e :: evs, s, h => by
    obtain ⟨hi, hr⟩ := step_refine p s e h
    have := run_refine p evs (stepKeep p s e) hi
    simp only [run, List.foldl_cons] at this ⊢
    rw [← hr]
    exact this

theorem run_init_refine (p : Plot) (evs : List Event) :
    Inv p (run p State.init evs) ∧
      ((run p State.init evs).shift, pairs (run p State.init evs)) = specRun p evs :=
  run_refine p evs State.init (inv_init p)

theorem run_append (p : Plot) (s : State) (e1 e2 : List Event) :
    run p s (e1 ++ e2) = run p (run p s e1) e2 := by simp [run, List.foldl_append]

/-! ### independence of the click order -/

theorem sortByKey_eq_of_perm {α : Type} (key : α → Rat) (l₁ l₂ : List α) (hp : l₁.Perm l₂)
    (hn : (l₁.map key).Nodup) : sortByKey key l₁ = sortByKey key l₂ := by
  have hinj : ∀ a b, a ∈ l₁ → b ∈ l₁ → key a = key b → a = b :=
    fun a b ha hb hab => List.inj_on_of_nodup_map hn ha hb hab
  apply List.Perm.eq_of_pairwise (le := fun a b => key a ≤ key b)
  · intro a b ha hb h1 h2
    have ha' : a ∈ l₁ := (sortByKey_perm key l₁).mem_iff.mp ha
    have hb' : b ∈ l₁ := hp.mem_iff.mpr ((sortByKey_perm key l₂).mem_iff.mp hb)
    exact hinj a b ha' hb' (le_antisymm h1 h2)
  · exact sortByKey_sorted key l₁
  · exact sortByKey_sorted key l₂
  · exact (sortByKey_perm key l₁).trans (hp.trans (sortByKey_perm key l₂).symm)

/-- a history made of select clicks only, the modifier held -/
def clicksOf (cs : List (Rat × Rat)) : List Event := cs.map fun c => Event.click 1 (some c)

theorem spec_clicks (p : Plot) (cs : List (Rat × Rat)) :
    (clicksOf cs).foldl (specStep p) (true, [])
      = (true, sortByKey Prod.fst (cs.filterMap fun c => specPick p c.1 c.2)) := by
  induction cs using List.reverseRec with
  | nil => rfl
  | append_singleton cs c ih =>
    obtain ⟨x, y⟩ := c
    simp only [clicksOf, List.map_append, List.map_cons, List.map_nil, List.foldl_append,
      List.foldl_cons, List.foldl_nil, List.filterMap_append] at ih ⊢
    rw [ih]
    cases hp : specPick p x y with
    | none => simp [specStep, hp, List.filterMap]
    | some q =>
      simp only [specStep, hp, List.filterMap_cons, List.filterMap_nil, Bool.not_true,
        Bool.false_eq_true, if_false]
      rw [sortByKey_append_singleton, insertByKey_eq_specInsert]

/-! ### hand-over to the extraction -/

theorem closestRow_isSome (t : Mat (Option Rat)) (o : Nat) (x : Rat) (r : Nat) (g : Rat)
    (hr : r < t.r) (hg : t.e r o = some g) : ∃ sel v, closestRow t o x = some (sel, v) := by
  cases h : closestRow t o x with
  | some p => exact ⟨p.1, p.2, rfl⟩
  | none =>
    exfalso
    refine nanargminV_spec.nanargminV_none _ h r (absR (g - x)) ?_
    simp [List.getElem?_range hr, hg]

end PV.Pick
