import PyomaVerif.Lemmas.PlscfPerm
import Mathlib.LinearAlgebra.Matrix.NonsingularInverse
/-!
# pLSCF under an orthogonal mixing of the channels (helpers of `Props/C08MixPlscf.lean`)

`Sy'[o, c, f] = Σ_p Σ_q R[o, p]·Q[c, q]·Sy[p, q, f]` — `Q` a real orthogonal `Nch × Nch` matrix acting on the
columns of the spectral array, `R` a real `Nref × Nref` matrix with orthonormal columns acting on its rows
(`R = Q` for the square single-setup array `Q·Sy·Qᵀ`).  The regressor `Yo = -kron(Xo, Sy[o])` is mixed by
the block-diagonal `I ⊗ Q`: component `J` of `(I⊗Q)·g` is `bmix Nch Q g J = Σ_q Q[J % Nch, q]·g[(J / Nch)·Nch + q]`.

1. the operators `bmix` (`(I⊗Q)·g`), `bmix2` (`(I⊗Q)·G·(I⊗Q)ᵀ`), `rmix` (`Q·g`): linearity, shifts, isometry;
2. `Yo`, `So`, `To`, `Mmat` under the mixing (`Mmat_mix`: `M' = (I⊗Q)·M·(I⊗Q)ᵀ`, the sum over the mixed rows
   uses `Σ_o R[o,p]·R[o,p'] = δ`);
3. `OrderCert.mix`: transport of what a returned order certifies (`alpha' = (I⊗Q)·alpha·Qᵀ`);
4. `rmfd2ac`: the recorded solves conjugated by `Q`, the state matrix conjugated by `I⊗Q`, `C' = R·C·(I⊗Q)ᵀ`;
5. eigen-records, raw shapes (`C'·(I⊗Q)q = R·(C·q)`), the characteristic polynomial.
-/
open Finset
namespace PV.Cov
open PV PV.Plscf

/-! ## 1. the operators -/
section ops
variable {K : Type} [Field K]

/-- component `J` of `(I⊗Q)·g` -/
def bmix (m : Nat) (Q : Nat → Nat → K) (g : Nat → K) (J : Nat) : K :=
  sumTo m (fun q => Q (J % m) q * g (J / m * m + q))

/-- entry `(I, J)` of `(I⊗Q)·G·(I⊗Q)ᵀ` -/
def bmix2 (m : Nat) (Q : Nat → Nat → K) (G : Nat → Nat → K) (I J : Nat) : K :=
  sumTo m (fun a => sumTo m (fun b => Q (I % m) a * Q (J % m) b * G (I / m * m + a) (J / m * m + b)))

/-- component `c` of `Q·g` -/
def rmix (m : Nat) (Q : Nat → Nat → K) (g : Nat → K) (c : Nat) : K :=
  sumTo m (fun b => Q c b * g b)

/-- the transpose -/
def trQ (Q : Nat → Nat → K) : Nat → Nat → K := fun a b => Q b a

/-- `QᵀQ = I` and `QQᵀ = I` on the first `m` indices -/
structure Orth2 (m : Nat) (Q : Nat → Nat → K) : Prop where
  cols : OrthoOn m Q
  rows : OrthoOn m (trQ Q)

/-- for a square array orthonormal columns give orthonormal rows -/
theorem Orth2.of_cols {m : Nat} {Q : Nat → Nat → K} (h : OrthoOn m Q) : Orth2 m Q := by
  refine ⟨h, ?_⟩
  have h1 : (toMx m m Q).transpose * toMx m m Q = 1 := toMx_orth_of m m Q h
  have h2 : toMx m m Q * (toMx m m Q).transpose = 1 := mul_eq_one_comm.mp h1
  intro a ha b hb
  have := congrFun (congrFun h2 ⟨a, ha⟩) ⟨b, hb⟩
  simp only [toMx, Matrix.mul_apply, Matrix.transpose_apply, Matrix.one_apply, Fin.mk.injEq] at this
  rw [← this, ← Finset.sum_range (fun i => Q a i * Q b i)]
  rfl

theorem bmix_eq (m : Nat) (Q : Nat → Nat → K) (g : Nat → K) (J : Nat) :
    bmix m Q g J = ∑ q ∈ range m, Q (J % m) q * g (J / m * m + q) := by
  rw [bmix, sumTo_eq]

theorem bmix2_eq (m : Nat) (Q : Nat → Nat → K) (G : Nat → Nat → K) (I J : Nat) :
    bmix2 m Q G I J = ∑ a ∈ range m, Q (I % m) a * bmix m Q (G (I / m * m + a)) J := by
  simp only [bmix2, bmix, sumTo_eq, Finset.mul_sum]
  apply Finset.sum_congr rfl; intro a _
  apply Finset.sum_congr rfl; intro b _; ring

theorem bmix2_eq' (m : Nat) (Q : Nat → Nat → K) (G : Nat → Nat → K) (I J : Nat) :
    bmix2 m Q G I J = bmix m Q (fun I' => bmix m Q (G I') J) I := by
  rw [bmix2_eq, bmix_eq]

theorem bmix2_mul (m : Nat) (Q : Nat → Nat → K) (g h : Nat → K) (I J : Nat) :
    bmix2 m Q (fun I J => g I * h J) I J = bmix m Q g I * bmix m Q h J := by
  simp only [bmix2, bmix, sumTo_eq]
  rw [Finset.sum_mul_sum]
  apply Finset.sum_congr rfl; intro a _
  apply Finset.sum_congr rfl; intro b _; ring

theorem bmix2_sum (m : Nat) (Q : Nat → Nat → K) (N : Nat) (G : Nat → Nat → Nat → K) (I J : Nat) :
    bmix2 m Q (fun I J => ∑ k ∈ range N, G k I J) I J = ∑ k ∈ range N, bmix2 m Q (G k) I J := by
  simp only [bmix2, sumTo_eq, Finset.mul_sum]
  symm
  rw [Finset.sum_comm]
  apply Finset.sum_congr rfl; intro a _
  rw [Finset.sum_comm]

theorem bmix2_add (m : Nat) (Q : Nat → Nat → K) (G H : Nat → Nat → K) (I J : Nat) :
    bmix2 m Q (fun I J => G I J + H I J) I J = bmix2 m Q G I J + bmix2 m Q H I J := by
  simp only [bmix2, sumTo_eq, mul_add, Finset.sum_add_distrib]

theorem bmix2_sub (m : Nat) (Q : Nat → Nat → K) (G H : Nat → Nat → K) (I J : Nat) :
    bmix2 m Q (fun I J => G I J - H I J) I J = bmix2 m Q G I J - bmix2 m Q H I J := by
  simp only [bmix2, sumTo_eq, mul_sub, Finset.sum_sub_distrib]

theorem bmix2_neg (m : Nat) (Q : Nat → Nat → K) (G : Nat → Nat → K) (I J : Nat) :
    bmix2 m Q (fun I J => - G I J) I J = - bmix2 m Q G I J := by
  simp only [bmix2, sumTo_eq, mul_neg, Finset.sum_neg_distrib]

theorem bmix_sum (m : Nat) (Q : Nat → Nat → K) (N : Nat) (g : Nat → Nat → K) (J : Nat) :
    bmix m Q (fun J => ∑ k ∈ range N, g k J) J = ∑ k ∈ range N, bmix m Q (g k) J := by
  simp only [bmix, sumTo_eq, Finset.mul_sum]
  rw [Finset.sum_comm]

theorem bmix_add (m : Nat) (Q : Nat → Nat → K) (g h : Nat → K) (J : Nat) :
    bmix m Q (fun J => g J + h J) J = bmix m Q g J + bmix m Q h J := by
  simp only [bmix, sumTo_eq, mul_add, Finset.sum_add_distrib]

theorem bmix_smul (m : Nat) (Q : Nat → Nat → K) (c : K) (g : Nat → K) (J : Nat) :
    bmix m Q (fun J => c * g J) J = c * bmix m Q g J := by
  simp only [bmix, sumTo_eq, Finset.mul_sum]
  apply Finset.sum_congr rfl; intro q _; ring

theorem bmix_neg (m : Nat) (Q : Nat → Nat → K) (g : Nat → K) (J : Nat) :
    bmix m Q (fun J => - g J) J = - bmix m Q g J := by
  simp only [bmix, sumTo_eq, mul_neg, Finset.sum_neg_distrib]

/-- `bmix` reads `g` only inside the block of `J` -/
theorem bmix_congr {m : Nat} (Q : Nat → Nat → K) (g h : Nat → K) (J : Nat)
    (e : ∀ q, q < m → g (J / m * m + q) = h (J / m * m + q)) : bmix m Q g J = bmix m Q h J := by
  unfold bmix
  apply sumTo_congr; intro q hq; rw [e q hq]

theorem bmix2_congr {m : Nat} (Q : Nat → Nat → K) (G H : Nat → Nat → K) (I J : Nat)
    (e : ∀ a, a < m → ∀ b, b < m → G (I / m * m + a) (J / m * m + b) = H (I / m * m + a) (J / m * m + b)) :
    bmix2 m Q G I J = bmix2 m Q H I J := by
  unfold bmix2
  apply sumTo_congr; intro a ha
  apply sumTo_congr; intro b hb; rw [e a ha b hb]

/-- whole blocks shift through the mixing -/
theorem bmix_shift {m : Nat} (hm : 0 < m) (Q : Nat → Nat → K) (g : Nat → K) (k J : Nat) :
    bmix m Q g (k * m + J) = bmix m Q (fun J' => g (k * m + J')) J := by
  unfold bmix
  have h1 : (k * m + J) % m = J % m := by rw [Nat.add_comm, Nat.add_mul_mod_self_right]
  have h2 : (k * m + J) / m * m = k * m + J / m * m := by
    rw [Nat.add_comm, Nat.add_mul_div_right _ _ hm, Nat.add_mul, Nat.add_comm]
  rw [h1, h2]
  apply sumTo_congr; intro q _; rw [Nat.add_assoc]

theorem bmix_shift1 {m : Nat} (hm : 0 < m) (Q : Nat → Nat → K) (g : Nat → K) (J : Nat) :
    bmix m Q g (m + J) = bmix m Q (fun J' => g (m + J')) J := by
  have := bmix_shift hm Q g 1 J
  simpa only [Nat.one_mul] using this

/-- inside the first block `(I⊗Q)·g` is `Q·g` -/
theorem bmix_low {m : Nat} (Q : Nat → Nat → K) (g : Nat → K) (c : Nat) (hc : c < m) :
    bmix m Q g c = rmix m Q g c := by
  unfold bmix rmix
  rw [Nat.mod_eq_of_lt hc, Nat.div_eq_of_lt hc, Nat.zero_mul]
  apply sumTo_congr; intro q _; rw [Nat.zero_add]

theorem rmix_eq (m : Nat) (Q : Nat → Nat → K) (g : Nat → K) (c : Nat) :
    rmix m Q g c = ∑ b ∈ range m, Q c b * g b := by
  rw [rmix, sumTo_eq]

/-- **isometry**: `⟨(I⊗Q)g, (I⊗Q)h⟩ = ⟨g, h⟩` over whole blocks -/
theorem bmix_isometry (nb m : Nat) (Q : Nat → Nat → K) (hQ : OrthoOn m Q) (g h : Nat → K) :
    ∑ J ∈ range (nb * m), bmix m Q g J * bmix m Q h J = ∑ J ∈ range (nb * m), g J * h J := by
  simp only [bmix_eq]
  exact block_isometry nb m Q hQ g h

/-- the same for one block: `⟨R·u, R·v⟩ = ⟨u, v⟩` -/
theorem rmix_isometry (m : Nat) (R : Nat → Nat → K) (hR : OrthoOn m R) (u v : Nat → K) :
    ∑ o ∈ range m, rmix m R u o * rmix m R v o = ∑ p ∈ range m, u p * v p := by
  have := bmix_isometry 1 m R hR u v
  rw [Nat.one_mul] at this
  rw [← this]
  apply Finset.sum_congr rfl
  intro o ho
  rw [bmix_low R u o (mem_range.mp ho), bmix_low R v o (mem_range.mp ho)]

/-- `Σ_b δ_{ab}·F b = F a` -/
theorem sum_delta {m a : Nat} (ha : a < m) (F : Nat → K) :
    ∑ b ∈ range m, (if a = b then (1 : K) else 0) * F b = F a := by
  rw [Finset.sum_eq_single a]
  · simp
  · intro b _ hne; rw [if_neg (Ne.symm hne), zero_mul]
  · intro h; exact absurd (mem_range.mpr ha) h

/-- `Q·δ·Qᵀ = δ` (rows of `Q` orthonormal) -/
theorem rmix_delta {m : Nat} (Q : Nat → Nat → K) (hQ : OrthoOn m (trQ Q)) (a c : Nat) (ha : a < m) (hc : c < m) :
    rmix m Q (fun b => rmix m Q (fun a' => if a' = b then (1 : K) else 0) a) c = if a = c then 1 else 0 := by
  simp only [rmix_eq]
  have e : ∀ b ∈ range m, Q c b * ∑ a' ∈ range m, Q a a' * (if a' = b then (1 : K) else 0) = Q c b * Q a b := by
    intro b hb
    congr 1
    rw [Finset.sum_eq_single b]
    · simp
    · intro a' _ hne; rw [if_neg hne, mul_zero]
    · intro h; exact absurd hb h
  rw [Finset.sum_congr rfl e, ← hQ a ha c hc]
  apply Finset.sum_congr rfl; intro b _; simp only [trQ]; ring

end ops

/-! ## 2. the normal equations -/
section normal
variable {K : Type} [Field K]

/-- a real combination of complex pairs -/
def clin (n : Nat) (c : Nat → K) (u : Nat → Plscf.Cx K) : Plscf.Cx K :=
  ⟨sumTo n (fun k => c k * (u k).re), sumTo n (fun k => c k * (u k).im)⟩

/-- one row of the spectral array with its columns mixed: `Syo'[c, f] = Σ_q Q[c, q]·Syo[q, f]` -/
def colSy (Nch : Nat) (Q : Nat → Nat → K) (S : Nat → Nat → Plscf.Cx K) : Nat → Nat → Plscf.Cx K :=
  fun c f => clin Nch (Q c) (fun q => S q f)

/-- the rows mixed: `Sy'[o] = Σ_p R[o, p]·Sy[p]` -/
def rowSy (Nref : Nat) (R : Nat → Nat → K) (Sy : Nat → Nat → Nat → Plscf.Cx K) : Nat → Nat → Nat → Plscf.Cx K :=
  fun o c f => clin Nref (R o) (fun p => Sy p c f)

/-- **the mixed spectral array** `Sy'[o, c, f] = Σ_p Σ_q R[o, p]·Q[c, q]·Sy[p, q, f]` (`R·Sy[:, :, f]·Qᵀ`) -/
def mixSy (Nref Nch : Nat) (R Q : Nat → Nat → K) (Sy : Nat → Nat → Nat → Plscf.Cx K) :
    Nat → Nat → Nat → Plscf.Cx K :=
  rowSy Nref R (fun p => colSy Nch Q (Sy p))

theorem clin_congr (n : Nat) (c : Nat → K) (u v : Nat → Plscf.Cx K) (h : ∀ k, k < n → u k = v k) :
    clin n c u = clin n c v := by
  unfold clin
  congr 1 <;> (apply sumTo_congr; intro k hk; rw [h k hk])

theorem neg_mul_clin (x : Plscf.Cx K) (n : Nat) (c : Nat → K) (u : Nat → Plscf.Cx K) :
    Cx.neg (Cx.mul x (clin n c u)) = clin n c (fun k => Cx.neg (Cx.mul x (u k))) := by
  simp only [clin, Cx.neg, Cx.mul, sumTo_eq]
  congr 1
  · rw [Finset.mul_sum, Finset.mul_sum, ← Finset.sum_sub_distrib, ← Finset.sum_neg_distrib]
    apply Finset.sum_congr rfl; intro k _; ring
  · rw [Finset.mul_sum, Finset.mul_sum, ← Finset.sum_add_distrib, ← Finset.sum_neg_distrib]
    apply Finset.sum_congr rfl; intro k _; ring

theorem Yo_col {Nch : Nat} (_hN : 0 < Nch) (Q : Nat → Nat → K) (Om : Nat → Plscf.Cx K)
    (S : Nat → Nat → Plscf.Cx K) (f J : Nat) :
    Yo Nch Om (colSy Nch Q S) f J
      = clin Nch (Q (J % Nch)) (fun q => Yo Nch Om S f (J / Nch * Nch + q)) := by
  have : Yo Nch Om (colSy Nch Q S) f J
      = Cx.neg (Cx.mul (Xo Om f (J / Nch)) (clin Nch (Q (J % Nch)) (fun q => S q f))) := rfl
  rw [this, neg_mul_clin]
  apply clin_congr
  intro q hq
  simp only [Yo, blk_div (J / Nch) hq, blk_mod (J / Nch) hq]

theorem Yo_row (Nch Nref : Nat) (R : Nat → Nat → K) (Om : Nat → Plscf.Cx K)
    (Sy : Nat → Nat → Nat → Plscf.Cx K) (o f J : Nat) :
    Yo Nch Om (rowSy Nref R Sy o) f J = clin Nref (R o) (fun p => Yo Nch Om (Sy p) f J) := by
  have : Yo Nch Om (rowSy Nref R Sy o) f J
      = Cx.neg (Cx.mul (Xo Om f (J / Nch)) (clin Nref (R o) (fun p => Sy p (J % Nch) f))) := rfl
  rw [this, neg_mul_clin]
  rfl

theorem So_col {Nch : Nat} (hN : 0 < Nch) (Q : Nat → Nat → K) (Nf : Nat) (Om : Nat → Plscf.Cx K)
    (S : Nat → Nat → Plscf.Cx K) (i J : Nat) :
    So Nch Nf Om (colSy Nch Q S) i J = bmix Nch Q (So Nch Nf Om S i) J := by
  simp only [So, Yo_col hN, Cx.reConjMul, clin, bmix, sumTo_eq, Finset.mul_sum, ← Finset.sum_add_distrib]
  rw [Finset.sum_comm]
  apply Finset.sum_congr rfl; intro q _
  apply Finset.sum_congr rfl; intro f _; ring

theorem So_row (Nch Nref Nf : Nat) (R : Nat → Nat → K) (Om : Nat → Plscf.Cx K)
    (Sy : Nat → Nat → Nat → Plscf.Cx K) (o i J : Nat) :
    So Nch Nf Om (rowSy Nref R Sy o) i J = rmix Nref R (fun p => So Nch Nf Om (Sy p) i J) o := by
  simp only [So, Yo_row, Cx.reConjMul, clin, rmix, sumTo_eq, Finset.mul_sum, ← Finset.sum_add_distrib]
  rw [Finset.sum_comm]
  apply Finset.sum_congr rfl; intro q _
  apply Finset.sum_congr rfl; intro f _; ring

theorem To_expand (Nch Nf : Nat) (Om : Nat → Plscf.Cx K) (S : Nat → Nat → Plscf.Cx K) :
    To Nch Nf Om S = fun I J => ∑ f ∈ range Nf,
      ((fun I => (Yo Nch Om S f I).re) I * (fun J => (Yo Nch Om S f J).re) J
        + (fun I => (Yo Nch Om S f I).im) I * (fun J => (Yo Nch Om S f J).im) J) := by
  funext I J; simp only [To, Cx.reConjMul, sumTo_eq]

theorem To_col {Nch : Nat} (hN : 0 < Nch) (Q : Nat → Nat → K) (Nf : Nat) (Om : Nat → Plscf.Cx K)
    (S : Nat → Nat → Plscf.Cx K) (I J : Nat) :
    To Nch Nf Om (colSy Nch Q S) I J = bmix2 Nch Q (To Nch Nf Om S) I J := by
  rw [To_expand Nch Nf Om S, bmix2_sum, To_expand]
  apply Finset.sum_congr rfl; intro f _
  rw [bmix2_add, bmix2_mul, bmix2_mul]
  simp only [Yo_col hN]
  rfl

/-- **column mixing**: with the inner solves mixed the same way, `M' = (I⊗Q)·M·(I⊗Q)ᵀ` (any `Q`) -/
theorem Mmat_col {Nch : Nat} (hN : 0 < Nch) (Q : Nat → Nat → K) (Nref Nf n : Nat) (Om : Nat → Plscf.Cx K)
    (Sy : Nat → Nat → Nat → Plscf.Cx K) (X : Nat → Nat → Nat → K) (I J : Nat) :
    Mmat Nch Nref Nf n Om (fun o => colSy Nch Q (Sy o)) (fun o t J => bmix Nch Q (X o t) J) I J
      = bmix2 Nch Q (Mmat Nch Nref Nf n Om Sy X) I J := by
  have e : Mmat Nch Nref Nf n Om Sy X = fun I J => ∑ o ∈ range Nref,
      ((fun I J => To Nch Nf Om (Sy o) I J) I J
        - (fun I J => ∑ t ∈ range (n + 1),
            (fun I => So Nch Nf Om (Sy o) t I) I * (fun J => X o t J) J) I J) := by
    funext I J; simp only [Mmat, sumTo_eq]
  rw [e, bmix2_sum]
  simp only [Mmat, sumTo_eq]
  apply Finset.sum_congr rfl; intro o _
  rw [bmix2_sub, bmix2_sum, To_col hN]
  congr 1
  apply Finset.sum_congr rfl; intro t _
  rw [bmix2_mul, So_col hN]

/-- **row mixing**: with the inner solves mixed the same way, `M' = M` — the sum over the mixed rows uses
    `Σ_o R[o, p]·R[o, p'] = δ_{pp'}` -/
theorem Mmat_row (Nch Nref Nf n : Nat) (R : Nat → Nat → K) (hR : OrthoOn Nref R) (Om : Nat → Plscf.Cx K)
    (Sy : Nat → Nat → Nat → Plscf.Cx K) (X : Nat → Nat → Nat → K) (I J : Nat) :
    Mmat Nch Nref Nf n Om (rowSy Nref R Sy) (fun o t J => rmix Nref R (fun p => X p t J) o) I J
      = Mmat Nch Nref Nf n Om Sy X I J := by
  simp only [Mmat, sumTo_eq, Finset.sum_sub_distrib]
  congr 1
  · simp only [To, Cx.reConjMul, sumTo_eq, Yo_row]
    rw [Finset.sum_comm]
    conv_rhs => rw [Finset.sum_comm]
    apply Finset.sum_congr rfl; intro f _
    rw [Finset.sum_add_distrib, Finset.sum_add_distrib]
    congr 1
    · exact rmix_isometry Nref R hR (fun p => (Yo Nch Om (Sy p) f I).re) (fun p => (Yo Nch Om (Sy p) f J).re)
    · exact rmix_isometry Nref R hR (fun p => (Yo Nch Om (Sy p) f I).im) (fun p => (Yo Nch Om (Sy p) f J).im)
  · rw [Finset.sum_comm]
    conv_rhs => rw [Finset.sum_comm]
    apply Finset.sum_congr rfl; intro t _
    simp only [So_row]
    exact rmix_isometry Nref R hR (fun p => So Nch Nf Om (Sy p) t I) (fun p => X p t J)

/-- the inner solves of the mixed run: `X'[o] = Σ_p R[o, p]·X[p]·(I⊗Q)ᵀ` -/
def mixX (Nref Nch : Nat) (R Q : Nat → Nat → K) (X : Nat → Nat → Nat → K) : Nat → Nat → Nat → K :=
  fun o t J => rmix Nref R (fun p => bmix Nch Q (X p t) J) o

theorem So_mix {Nch : Nat} (hN : 0 < Nch) (Nref Nf : Nat) (R Q : Nat → Nat → K) (Om : Nat → Plscf.Cx K)
    (Sy : Nat → Nat → Nat → Plscf.Cx K) (o i J : Nat) :
    So Nch Nf Om (mixSy Nref Nch R Q Sy o) i J
      = rmix Nref R (fun p => bmix Nch Q (So Nch Nf Om (Sy p) i) J) o := by
  unfold mixSy
  rw [So_row]
  simp only [So_col hN]

/-- **`M` under the mixing**: `M' = (I⊗Q)·M·(I⊗Q)ᵀ` -/
theorem Mmat_mix {Nch : Nat} (hN : 0 < Nch) (Nref Nf n : Nat) (R Q : Nat → Nat → K) (hR : OrthoOn Nref R)
    (Om : Nat → Plscf.Cx K) (Sy : Nat → Nat → Nat → Plscf.Cx K) (X : Nat → Nat → Nat → K) (I J : Nat) :
    Mmat Nch Nref Nf n Om (mixSy Nref Nch R Q Sy) (mixX Nref Nch R Q X) I J
      = bmix2 Nch Q (Mmat Nch Nref Nf n Om Sy X) I J := by
  unfold mixSy mixX
  rw [Mmat_row Nch Nref Nf n R hR Om (fun p => colSy Nch Q (Sy p)) (fun p t J => bmix Nch Q (X p t) J)]
  exact Mmat_col hN Q Nref Nf n Om Sy X I J

end normal

/-! ## 3. transport of the order certificate -/
section cert
variable {K : Type} [Field K]

theorem rmix_congr {m : Nat} (Q : Nat → Nat → K) (g h : Nat → K) (c : Nat) (e : ∀ b, b < m → g b = h b) :
    rmix m Q g c = rmix m Q h c := by
  unfold rmix
  apply sumTo_congr; intro b hb; rw [e b hb]

theorem rmix_sum (m : Nat) (Q : Nat → Nat → K) (N : Nat) (g : Nat → Nat → K) (c : Nat) :
    rmix m Q (fun b => ∑ k ∈ range N, g k b) c = ∑ k ∈ range N, rmix m Q (g k) c := by
  simp only [rmix, sumTo_eq, Finset.mul_sum]
  rw [Finset.sum_comm]

theorem rmix_smul (m : Nat) (Q : Nat → Nat → K) (x : K) (g : Nat → K) (c : Nat) :
    rmix m Q (fun b => x * g b) c = x * rmix m Q g c := by
  simp only [rmix, sumTo_eq, Finset.mul_sum]
  apply Finset.sum_congr rfl; intro q _; ring

/-- `Σ_J (Σ_p u_p·f_p J)·(Σ_b v_b·g_b J) = Σ_p Σ_b u_p·v_b·Σ_J f_p J·g_b J` -/
theorem sum_mul_pair (N A B : Nat) (u v : Nat → K) (f g : Nat → Nat → K) :
    ∑ J ∈ range N, (∑ p ∈ range A, u p * f p J) * (∑ b ∈ range B, v b * g b J)
      = ∑ p ∈ range A, ∑ b ∈ range B, (u p * v b) * ∑ J ∈ range N, f p J * g b J := by
  have e : ∀ J ∈ range N, (∑ p ∈ range A, u p * f p J) * (∑ b ∈ range B, v b * g b J)
      = ∑ p ∈ range A, ∑ b ∈ range B, (u p * v b) * (f p J * g b J) := by
    intro J _
    rw [Finset.sum_mul_sum]
    apply Finset.sum_congr rfl; intro p _
    apply Finset.sum_congr rfl; intro b _; ring
  rw [Finset.sum_congr rfl e, Finset.sum_comm]
  apply Finset.sum_congr rfl; intro p _
  rw [Finset.sum_comm]
  apply Finset.sum_congr rfl; intro b _
  rw [Finset.mul_sum]

/-- `(I⊗Q)·α·Qᵀ` — an array of `Nch` columns: rows mixed inside every block, columns mixed by `Q` -/
def mixAlpha (m : Nat) (Q : Nat → Nat → K) (α : Nat → Nat → K) : Nat → Nat → K :=
  fun I c => rmix m Q (fun b => bmix m Q (fun I' => α I' b) I) c

theorem mixAlpha_comm (m : Nat) (Q : Nat → Nat → K) (H : Nat → Nat → K) (I c : Nat) :
    mixAlpha m Q H I c = bmix m Q (fun I' => rmix m Q (H I') c) I := by
  simp only [mixAlpha, rmix, bmix, sumTo_eq, Finset.mul_sum]
  rw [Finset.sum_comm]
  apply Finset.sum_congr rfl; intro a _
  apply Finset.sum_congr rfl; intro b _; ring

theorem bmix2_shift {m : Nat} (hm : 0 < m) (Q : Nat → Nat → K) (G : Nat → Nat → K) (k k' I J : Nat) :
    bmix2 m Q G (k * m + I) (k' * m + J) = bmix2 m Q (fun I J => G (k * m + I) (k' * m + J)) I J := by
  rw [bmix2_eq', bmix_shift hm, bmix2_eq']
  simp only [bmix_shift hm]

theorem bmix2_shift1 {m : Nat} (hm : 0 < m) (Q : Nat → Nat → K) (G : Nat → Nat → K) (I J : Nat) :
    bmix2 m Q G (m + I) (m + J) = bmix2 m Q (fun I J => G (m + I) (m + J)) I J := by
  have := bmix2_shift hm Q G 1 1 I J
  simpa only [Nat.one_mul] using this

/-- entry `(I, k'·m + c)`, `c < m`, of `(I⊗Q)·G·(I⊗Q)ᵀ` -/
theorem bmix2_col {m : Nat} (hm : 0 < m) (Q : Nat → Nat → K) (G : Nat → Nat → K) (k' I c : Nat) (hc : c < m) :
    bmix2 m Q G I (k' * m + c) = mixAlpha m Q (fun I c => G I (k' * m + c)) I c := by
  rw [bmix2_eq', mixAlpha_comm]
  apply bmix_congr; intro a _
  rw [bmix_shift hm, bmix_low Q _ c hc]

/-- **a solve transported**: `G·Z = H` gives `((I⊗Q)G(I⊗Q)ᵀ)·((I⊗Q)ZQᵀ) = (I⊗Q)HQᵀ` (`QᵀQ = I`) -/
theorem solve_mix {m : Nat} (nb : Nat) (Q : Nat → Nat → K) (hQ : OrthoOn m Q) (G Z H : Nat → Nat → K)
    (h : ∀ I, I < nb * m → ∀ c, c < m → ∑ J ∈ range (nb * m), G I J * Z J c = H I c) :
    ∀ I, I < nb * m → ∀ c, c < m →
      ∑ J ∈ range (nb * m), bmix2 m Q G I J * mixAlpha m Q Z J c = mixAlpha m Q H I c := by
  intro I hI c hc
  rw [mixAlpha_comm m Q H]
  simp only [bmix2_eq, mixAlpha, rmix_eq]
  rw [sum_mul_pair, bmix_eq]
  apply Finset.sum_congr rfl; intro a ha
  rw [Finset.mul_sum]
  apply Finset.sum_congr rfl; intro b hb
  rw [bmix_isometry nb m Q hQ, h _ (Cov.blk_lt hI (mem_range.mp ha)) b (mem_range.mp hb)]
  ring

theorem alphaLO_mix {Nch : Nat} (hN : 0 < Nch) (Q : Nat → Nat → K) (hQ : OrthoOn Nch (trQ Q)) (Z : Nat → Nat → K)
    (I c : Nat) (hc : c < Nch) :
    alphaLO Nch (mixAlpha Nch Q Z) I c = mixAlpha Nch Q (alphaLO Nch Z) I c := by
  by_cases h : I < Nch
  · have e : mixAlpha Nch Q (alphaLO Nch Z) I c
        = rmix Nch Q (fun b => rmix Nch Q (fun a' => if a' = b then (1 : K) else 0) I) c := by
      unfold mixAlpha
      apply rmix_congr; intro b _
      rw [bmix_low Q _ I h]
      apply rmix_congr; intro a ha
      simp only [alphaLO, if_pos ha]
    rw [e, rmix_delta Q hQ I c h hc]
    simp only [alphaLO, if_pos h]
  · have e : I = Nch + (I - Nch) := by omega
    have e1 : alphaLO Nch (mixAlpha Nch Q Z) I c = mixAlpha Nch Q Z (I - Nch) c := by
      simp only [alphaLO, if_neg h]
    rw [e1]
    unfold mixAlpha
    apply rmix_congr; intro b _
    conv_rhs => rw [e, bmix_shift1 hN]
    apply bmix_congr; intro q _
    simp [alphaLO]

theorem alphaHI_mix {Nch : Nat} (hN : 0 < Nch) (Q : Nat → Nat → K) (hQ : OrthoOn Nch (trQ Q)) (n : Nat)
    (Z : Nat → Nat → K) (I c : Nat) (hI : I < (n + 1) * Nch) (hc : c < Nch) :
    alphaHI Nch n (mixAlpha Nch Q Z) I c = mixAlpha Nch Q (alphaHI Nch n Z) I c := by
  by_cases h : I < n * Nch
  · have e1 : alphaHI Nch n (mixAlpha Nch Q Z) I c = mixAlpha Nch Q Z I c := by
      simp only [alphaHI, if_pos h]
    rw [e1]
    unfold mixAlpha
    apply rmix_congr; intro b _
    apply bmix_congr; intro q hq
    simp only [alphaHI, if_pos (Cov.blk_lt h hq)]
  · have ha : I - n * Nch < Nch := by rw [Nat.succ_mul] at hI; omega
    have e : I = n * Nch + (I - n * Nch) := by omega
    have e1 : alphaHI Nch n (mixAlpha Nch Q Z) I c = if I - n * Nch = c then 1 else 0 := by
      simp only [alphaHI, if_neg h]
    have e2 : mixAlpha Nch Q (alphaHI Nch n Z) I c
        = rmix Nch Q (fun b => rmix Nch Q (fun a' => if a' = b then (1 : K) else 0) (I - n * Nch)) c := by
      unfold mixAlpha
      apply rmix_congr; intro b _
      conv_lhs => rw [e, bmix_shift hN, bmix_low Q _ _ ha]
      apply rmix_congr; intro a _
      simp [alphaHI]
    rw [e1, e2, rmix_delta Q hQ _ c ha hc]

/-- the numerator coefficients of the mixed run: `beta'[o, t, :] = Σ_p R[o, p]·beta[p, t, :]·Qᵀ` -/
def mixBeta (Nref Nch : Nat) (R Q : Nat → Nat → K) (β : Nat → Nat → Nat → K) : Nat → Nat → Nat → K :=
  fun o t c => rmix Nref R (fun p => rmix Nch Q (fun b => β p t b) c) o

/-- what the mixed run returns for one order, in terms of the original run: `M' = (I⊗Q)·M·(I⊗Q)ᵀ`, `alpha'`
    built — as the code does — from the solve `Z' = (I⊗Q)·Z·Qᵀ` and an identity block, `beta'` -/
def mixOut (Nch Nref n : Nat) (hi : Bool) (R Q : Nat → Nat → K) (out : OrderOut K) (Z : Nat → Nat → K) :
    OrderOut K :=
  { M := bmix2 Nch Q out.M,
    alpha := if hi then alphaHI Nch n (mixAlpha Nch Q Z) else alphaLO Nch (mixAlpha Nch Q Z),
    beta := mixBeta Nref Nch R Q out.beta }

/-- **certificate transport**: what a returned order certifies for `Sy`, it certifies — with
    `M' = (I⊗Q)·M·(I⊗Q)ᵀ`, `alpha' = (I⊗Q)·alpha·Qᵀ`, `beta'[o] = Σ_p R[o,p]·beta[p]·Qᵀ` and the solves
    mixed — for the mixed array `R·Sy·Qᵀ`. -/
theorem OrderCert.mix {Nch Nref Nf n : Nat} {hi : Bool} {Om : Nat → Plscf.Cx K}
    {Sy : Nat → Nat → Nat → Plscf.Cx K} {out : OrderOut K} {X : Nat → Nat → Nat → K} {Z : Nat → Nat → K}
    (h : OrderCert Nch Nref Nf n hi Om Sy out X Z) (hN : 0 < Nch) {R Q : Nat → Nat → K}
    (hQ : Orth2 Nch Q) (hR : OrthoOn Nref R) :
    OrderCert Nch Nref Nf n hi Om (mixSy Nref Nch R Q Sy) (mixOut Nch Nref n hi R Q out Z)
      (mixX Nref Nch R Q X) (mixAlpha Nch Q Z)
    ∧ ∀ I, I < (n + 1) * Nch → ∀ c, c < Nch →
        (mixOut Nch Nref n hi R Q out Z).alpha I c = mixAlpha Nch Q out.alpha I c := by
  have hα : ∀ I, I < (n + 1) * Nch → ∀ c, c < Nch →
      (mixOut Nch Nref n hi R Q out Z).alpha I c = mixAlpha Nch Q out.alpha I c := by
    intro I hI c hc
    have hz := h.hZ
    cases hi
    · simp only [Bool.false_eq_true, ↓reduceIte] at hz
      simp only [mixOut, Bool.false_eq_true, ↓reduceIte]
      rw [hz.2]; exact alphaLO_mix hN Q hQ.rows Z I c hc
    · simp only [↓reduceIte] at hz
      simp only [mixOut, ↓reduceIte]
      rw [hz.2]; exact alphaHI_mix hN Q hQ.rows n Z I c hI hc
  have hd : (n + 1) * Nch = n * Nch + Nch := Nat.succ_mul n Nch
  refine ⟨⟨?_, ?_, ?_, ?_⟩, hα⟩
  · intro o ho i hi' J hJ
    rw [So_mix hN, sumTo_eq]
    have e : ∀ p, p < Nref → bmix Nch Q (So Nch Nf Om (Sy p) i) J
        = ∑ t ∈ range (n + 1), Ro Nf Om i t * bmix Nch Q (X p t) J := by
      intro p hp
      have : bmix Nch Q (So Nch Nf Om (Sy p) i) J
          = bmix Nch Q (fun J' => ∑ t ∈ range (n + 1), Ro Nf Om i t * X p t J') J := by
        apply bmix_congr; intro q hq
        rw [← h.hX p hp i hi' _ (Cov.blk_lt hJ hq), sumTo_eq]
      rw [this, bmix_sum]
      apply Finset.sum_congr rfl; intro t _
      rw [bmix_smul]
    rw [rmix_congr R _ _ o e, rmix_sum]
    apply Finset.sum_congr rfl; intro t _
    rw [rmix_smul]
    rfl
  · intro I hI J hJ
    show bmix2 Nch Q out.M I J = _
    rw [Mmat_mix hN Nref Nf n R Q hR]
    apply bmix2_congr; intro a ha b hb
    exact h.hM _ (Cov.blk_lt hI ha) _ (Cov.blk_lt hJ hb)
  · have hz := h.hZ
    cases hi
    · simp only [Bool.false_eq_true, ↓reduceIte] at hz ⊢
      refine ⟨?_, by simp [mixOut]⟩
      intro I hI c hc
      have hs := solve_mix n Q hQ.cols (fun I J => - out.M (Nch + I) (Nch + J)) Z (fun I c => out.M (Nch + I) c)
        (by intro I hI c hc; have := hz.1 I hI c hc; rwa [sumTo_eq] at this) I hI c hc
      rw [sumTo_eq]
      show ∑ J ∈ range (n * Nch), -bmix2 Nch Q out.M (Nch + I) (Nch + J) * mixAlpha Nch Q Z J c
        = bmix2 Nch Q out.M (Nch + I) c
      have e2 : bmix2 Nch Q out.M (Nch + I) c = mixAlpha Nch Q (fun I c => out.M (Nch + I) c) I c := by
        have := bmix2_col hN Q out.M 0 (Nch + I) c hc
        simp only [Nat.zero_mul, Nat.zero_add] at this
        rw [this, mixAlpha_comm, mixAlpha_comm, bmix_shift1 hN]
      rw [e2, ← hs]
      apply Finset.sum_congr rfl; intro J _
      rw [bmix2_shift1 hN, ← bmix2_neg]
    · simp only [↓reduceIte] at hz ⊢
      refine ⟨?_, by simp [mixOut]⟩
      intro I hI c hc
      have hs := solve_mix n Q hQ.cols (fun I J => - out.M I J) Z (fun I c => out.M I (n * Nch + c))
        (by intro I hI c hc; have := hz.1 I hI c hc; rwa [sumTo_eq] at this) I hI c hc
      rw [sumTo_eq]
      show ∑ J ∈ range (n * Nch), -bmix2 Nch Q out.M I J * mixAlpha Nch Q Z J c
        = bmix2 Nch Q out.M I (n * Nch + c)
      rw [bmix2_col hN Q out.M n I c hc, ← hs]
      apply Finset.sum_congr rfl; intro J _
      rw [← bmix2_neg]
  · intro o ho i hi' c hc
    rw [sumTo_eq, sumTo_eq]
    have e1 : ∀ J ∈ range ((n + 1) * Nch),
        So Nch Nf Om (mixSy Nref Nch R Q Sy o) i J * (mixOut Nch Nref n hi R Q out Z).alpha J c
        = (∑ p ∈ range Nref, R o p * bmix Nch Q (So Nch Nf Om (Sy p) i) J)
          * (∑ b ∈ range Nch, Q c b * bmix Nch Q (fun I' => out.alpha I' b) J) := by
      intro J hJ
      rw [So_mix hN, hα J (mem_range.mp hJ) c hc]
      simp only [mixAlpha, rmix_eq]
    rw [Finset.sum_congr rfl e1, sum_mul_pair]
    show ∑ t ∈ range (n + 1), -Ro Nf Om i t * mixBeta Nref Nch R Q out.beta o t c = _
    simp only [mixBeta, rmix_eq, Finset.mul_sum]
    rw [Finset.sum_comm]
    apply Finset.sum_congr rfl; intro p hp
    rw [Finset.sum_comm]
    apply Finset.sum_congr rfl; intro b hb
    rw [← Finset.mul_sum, bmix_isometry (n + 1) Nch Q hQ.cols]
    have := h.hbeta p (mem_range.mp hp) i hi' b (mem_range.mp hb)
    rw [sumTo_eq, sumTo_eq] at this
    rw [← this, Finset.mul_sum]
    apply Finset.sum_congr rfl; intro t _; ring

end cert

/-! ## 4. `rmfd2ac` -/
section rmfd
variable {K : Type} [Field K]

/-- the recorded solves conjugated by `Q`: `P_k' = Q·P_k·Qᵀ` -/
def mixP (Nch : Nat) (Q : Nat → Nat → K) (P : Nat → Nat → Nat → K) : Nat → Nat → Nat → K :=
  fun k => mixAlpha Nch Q (P k)

theorem mixAlpha_shift {m : Nat} (hm : 0 < m) (Q : Nat → Nat → K) (α : Nat → Nat → K) (k I c : Nat) :
    mixAlpha m Q α (k * m + I) c = mixAlpha m Q (fun I c => α (k * m + I) c) I c := by
  unfold mixAlpha
  apply rmix_congr; intro b _
  rw [bmix_shift hm]

/-- inside the first block: `(Q·α·Qᵀ)[a, c] = Σ_a' Σ_b' Q[a,a']·Q[c,b']·α[a',b']` -/
theorem mixAlpha_low {m : Nat} (Q : Nat → Nat → K) (α : Nat → Nat → K) (a c : Nat) (ha : a < m) :
    mixAlpha m Q α a c = ∑ a' ∈ range m, ∑ b' ∈ range m, Q a a' * Q c b' * α a' b' := by
  rw [mixAlpha_comm, bmix_low Q _ a ha]
  simp only [rmix_eq, Finset.mul_sum]
  apply Finset.sum_congr rfl; intro a' _
  apply Finset.sum_congr rfl; intro b' _; ring

theorem bmix2_low {m : Nat} (Q : Nat → Nat → K) (G : Nat → Nat → K) (a c : Nat) (ha : a < m) (hc : c < m) :
    bmix2 m Q G a c = mixAlpha m Q G a c := by
  rw [mixAlpha_low Q G a c ha]
  simp only [bmix2, sumTo_eq, Nat.mod_eq_of_lt ha, Nat.mod_eq_of_lt hc, Nat.div_eq_of_lt ha, Nat.div_eq_of_lt hc,
    Nat.zero_mul, Nat.zero_add]

/-- the state matrix of the mixed run is `(I⊗Q)·A·(I⊗Q)ᵀ` -/
theorem companionA_mix {m : Nat} (hm : 0 < m) (Q : Nat → Nat → K) (hQ : OrthoOn m (trQ Q)) (p cnt : Nat)
    (P : Nat → Nat → Nat → K) (i j : Nat) :
    (companionA p m cnt (mixP m Q P)).e i j = bmix2 m Q (companionA p m cnt P).e i j := by
  have hjm : j % m < m := Nat.mod_lt _ hm
  have him : i % m < m := Nat.mod_lt _ hm
  by_cases h1 : i < m
  · -- the top block row: `-Q·P_k·Qᵀ`
    have e : bmix2 m Q (companionA p m cnt P).e i j
        = bmix2 m Q (fun I J => if j / m < cnt then - P (j / m) (I % m) (J % m) else 0) i j := by
      apply bmix2_congr; intro a ha b hb
      simp only [companionA, Nat.div_eq_of_lt h1, Nat.zero_mul, Nat.zero_add, if_pos ha, blk_div (j / m) hb,
        blk_mod (j / m) hb, Nat.mod_eq_of_lt ha]
    rw [e]
    simp only [companionA, if_pos h1]
    by_cases h2 : j / m < cnt
    · simp only [if_pos h2]
      rw [bmix2_neg, mixP, mixAlpha_low Q _ i _ h1]
      congr 1
      simp only [bmix2, sumTo_eq, Nat.mod_eq_of_lt h1, Nat.div_eq_of_lt h1, Nat.zero_mul, Nat.zero_add]
      apply Finset.sum_congr rfl; intro a ha
      apply Finset.sum_congr rfl; intro b hb
      rw [Nat.mod_eq_of_lt (mem_range.mp ha), blk_mod (j / m) (mem_range.mp hb)]
    · simp only [if_neg h2, bmix2, sumTo_eq, mul_zero, Finset.sum_const_zero]
  · -- the shifted identity: `Q·I·Qᵀ = I`
    have hi1 : 1 ≤ i / m := (Nat.one_le_div_iff hm).mpr (Nat.le_of_not_lt h1)
    have e : bmix2 m Q (companionA p m cnt P).e i j
        = bmix2 m Q (fun I J => if j / m + 1 = i / m then (if I % m = J % m then 1 else 0) else 0) i j := by
      apply bmix2_congr; intro a ha b hb
      have hge : ¬ i / m * m + a < m := by
        have : m ≤ i / m * m := Nat.le_mul_of_pos_left m hi1
        omega
      simp only [companionA, if_neg hge, blk_mod (i / m) ha, blk_mod (j / m) hb]
      have e1 : j / m * m + b + m = (j / m + 1) * m + b := by rw [Nat.add_mul, Nat.one_mul]; omega
      rw [e1]
      by_cases hk : j / m + 1 = i / m
      · rw [if_pos hk, hk]
        by_cases hab : a = b
        · rw [if_pos hab, if_pos (by rw [hab])]
        · rw [if_neg hab, if_neg (by omega)]
      · rw [if_neg hk, if_neg]
        intro e2
        apply hk
        have := congrArg (· / m) e2
        simpa only [blk_div _ hb, blk_div _ ha] using this
    rw [e]
    simp only [companionA, if_neg h1]
    have hdec : (j + m = i) ↔ (j / m + 1 = i / m ∧ i % m = j % m) := by
      constructor
      · intro e2
        rw [← e2]
        exact ⟨(Nat.add_div_right j hm).symm, Nat.add_mod_right j m⟩
      · intro ⟨e2, e3⟩
        rw [← Nat.div_add_mod' j m, ← Nat.div_add_mod' i m, ← e2, e3, Nat.add_mul, Nat.one_mul]
        omega
    by_cases hk : j / m + 1 = i / m
    · simp only [if_pos hk]
      have e4 : bmix2 m Q (fun I J => if I % m = J % m then (1 : K) else 0) i j
          = rmix m Q (fun b => rmix m Q (fun a' => if a' = b then (1 : K) else 0) (i % m)) (j % m) := by
        simp only [bmix2, rmix, sumTo_eq, Finset.mul_sum]
        rw [Finset.sum_comm]
        apply Finset.sum_congr rfl; intro b hb
        apply Finset.sum_congr rfl; intro a ha
        rw [blk_mod (i / m) (mem_range.mp ha), blk_mod (j / m) (mem_range.mp hb)]
        ring
      rw [e4, rmix_delta Q hQ _ _ him hjm]
      by_cases e5 : i % m = j % m
      · rw [if_pos e5, if_pos (hdec.mpr ⟨hk, e5⟩)]
      · rw [if_neg e5, if_neg (fun e6 => e5 (hdec.mp e6).2)]
    · simp only [if_neg hk, bmix2, sumTo_eq, mul_zero, Finset.sum_const_zero]
      rw [if_neg (fun e6 => hk (hdec.mp e6).1)]

/-- the output matrix of the mixed run is `R·C·(I⊗Q)ᵀ` -/
theorem companionC_mix {m : Nat} (hm : 0 < m) (Q : Nat → Nat → K) (hQ : OrthoOn m Q) (p l cnt : Nat)
    (R : Nat → Nat → K) (Bn : Nat → Nat → Nat → K) (P : Nat → Nat → Nat → K) (o j : Nat) :
    (companionC p l m cnt (fun k o c => rmix l R (fun p' => rmix m Q (fun b => Bn k p' b) c) o) (mixP m Q P)).e o j
      = rmix l R (fun p' => bmix m Q ((companionC p l m cnt Bn P).e p') j) o := by
  have hjm : j % m < m := Nat.mod_lt _ hm
  simp only [companionC]
  by_cases h2 : j / m < cnt
  · simp only [if_pos h2]
    have e : ∀ p', bmix m Q (fun J => if J / m < cnt
          then Bn (p - 2 - J / m) p' (J % m) - sumTo m (fun t => Bn (p - 1) p' t * P (J / m) t (J % m)) else 0) j
        = rmix m Q (fun b => Bn (p - 2 - j / m) p' b) (j % m)
          - ∑ t ∈ range m, Bn (p - 1) p' t * rmix m Q (P (j / m) t) (j % m) := by
      intro p'
      simp only [bmix, rmix, sumTo_eq]
      have e1 : ∀ q ∈ range m, Q (j % m) q * (if (j / m * m + q) / m < cnt
            then Bn (p - 2 - (j / m * m + q) / m) p' ((j / m * m + q) % m)
              - ∑ t ∈ range m, Bn (p - 1) p' t * P ((j / m * m + q) / m) t ((j / m * m + q) % m) else 0)
          = Q (j % m) q * Bn (p - 2 - j / m) p' q - ∑ t ∈ range m, Q (j % m) q * (Bn (p - 1) p' t * P (j / m) t q) := by
        intro q hq
        rw [blk_div (j / m) (mem_range.mp hq), blk_mod (j / m) (mem_range.mp hq), if_pos h2, mul_sub, Finset.mul_sum]
      rw [Finset.sum_congr rfl e1, Finset.sum_sub_distrib]
      congr 1
      rw [Finset.sum_comm]
      apply Finset.sum_congr rfl; intro t _
      rw [Finset.mul_sum]
      apply Finset.sum_congr rfl; intro q _; ring
    simp only [e]
    simp only [rmix_eq, Finset.mul_sum, mul_sub, Finset.sum_sub_distrib]
    congr 1
    -- `Σ_t (R·B_n·Qᵀ)[o,t]·(Q·P·Qᵀ)[t, c] = (R·(B_n·P)·Qᵀ)[o, c]`
    have e3 : ∀ t ∈ range m, (∑ p' ∈ range l, ∑ b ∈ range m, R o p' * (Q t b * Bn (p - 1) p' b))
          * mixP m Q P (j / m) t (j % m)
        = ∑ p' ∈ range l, R o p' * (rmix m Q (fun b => Bn (p - 1) p' b) t
            * rmix m Q (fun a' => rmix m Q (P (j / m) a') (j % m)) t) := by
      intro t ht
      rw [mixP, mixAlpha_comm, bmix_low Q _ t (mem_range.mp ht), Finset.sum_mul]
      apply Finset.sum_congr rfl; intro p' _
      rw [rmix_eq m Q (fun b => Bn (p - 1) p' b) t, ← Finset.mul_sum, mul_assoc]
    rw [sumTo_eq, Finset.sum_congr rfl e3, Finset.sum_comm]
    apply Finset.sum_congr rfl; intro p' _
    rw [← Finset.mul_sum, rmix_isometry m Q hQ]
    simp only [rmix_eq, Finset.mul_sum]
  · simp only [if_neg h2]
    have e : ∀ p', bmix m Q (fun J => if J / m < cnt
          then Bn (p - 2 - J / m) p' (J % m) - sumTo m (fun t => Bn (p - 1) p' t * P (J / m) t (J % m)) else 0) j
        = 0 := by
      intro p'
      simp only [bmix, sumTo_eq]
      apply Finset.sum_eq_zero; intro q hq
      rw [blk_div (j / m) (mem_range.mp hq), if_neg h2, mul_zero]
    simp only [e, rmix_eq, mul_zero, Finset.sum_const_zero]

/-- **`rmfd2ac` under `A_k' = Q·A_k·Qᵀ`, `B_k' = R·B_k·Qᵀ`**: the conjugated solves `Q·P_k·Qᵀ` are exact solves of the
    mixed systems, the state matrix is `(I⊗Q)·A·(I⊗Q)ᵀ`, the output matrix is `R·C·(I⊗Q)ᵀ`. -/
theorem RmfdCert.mix {Nch Nref n : Nat} {α α' : Nat → Nat → K} {β β' : Nat → Nat → Nat → K}
    {P : Nat → Nat → Nat → K} {A C : Mat K} (h : RmfdCert Nch Nref n α β P A C)
    (hN : 0 < Nch) {Q : Nat → Nat → K} (R : Nat → Nat → K) (hQ : Orth2 Nch Q)
    (hα : ∀ I, I < (n + 1) * Nch → ∀ c, c < Nch → α' I c = mixAlpha Nch Q α I c)
    (hβ : ∀ o, o < Nref → ∀ t, t < n + 1 → ∀ c, c < Nch → β' o t c = mixBeta Nref Nch R Q β o t c) :
    RmfdCert Nch Nref n α' β' (mixP Nch Q P) (companionA (n + 1) Nch n (mixP Nch Q P))
      (companionC (n + 1) Nref Nch n (fun k o c => β' o k c) (mixP Nch Q P)) ∧
    (∀ i j, (companionA (n + 1) Nch n (mixP Nch Q P)).e i j = bmix2 Nch Q A.e i j) ∧
    (∀ o, o < Nref → ∀ j,
      (companionC (n + 1) Nref Nch n (fun k o c => β' o k c) (mixP Nch Q P)).e o j
        = rmix Nref R (fun p => bmix Nch Q (C.e p) j) o) := by
  refine ⟨⟨?_, rfl, rfl⟩, ?_, ?_⟩
  · intro k hk a ha b hb
    have hk1 : n + 1 - 2 - k < n + 1 := by omega
    rw [hα _ (Plscf.blk_lt hk1 ha) b hb, mixAlpha_shift hN, sumTo_eq]
    have hs := solve_mix 1 Q hQ.cols (fun I J => α (n * Nch + I) J) (P k) (fun I c => α ((n + 1 - 2 - k) * Nch + I) c)
      (by
        intro I hI c hc
        rw [Nat.one_mul] at hI ⊢
        have := h.hP k hk I hI c hc
        rwa [sumTo_eq] at this) a (by rw [Nat.one_mul]; exact ha) b hb
    rw [← hs, Nat.one_mul]
    apply Finset.sum_congr rfl; intro t ht
    rw [hα _ (Plscf.blk_lt (Nat.lt_succ_self n) ha) t (mem_range.mp ht), mixAlpha_shift hN,
      bmix2_low Q _ a t ha (mem_range.mp ht)]
    rfl
  · intro i j
    rw [h.hA]
    exact companionA_mix hN Q hQ.rows (n + 1) n P i j
  · intro o ho j
    rw [h.hC, ← companionC_mix hN Q hQ.cols (n + 1) Nref n R (fun k o c => β o k c) P o j]
    simp only [companionC]
    by_cases h2 : j / Nch < n
    · have hk1 : n + 1 - 2 - j / Nch < n + 1 := by
        have := Nat.sub_le (n + 1 - 2) (j / Nch); omega
      simp only [if_pos h2]
      rw [hβ o ho _ hk1 _ (Nat.mod_lt _ hN)]
      congr 1
      apply sumTo_congr; intro t ht
      rw [hβ o ho (n + 1 - 1) (by omega) t ht]
      rfl
    · simp only [if_neg h2]

end rmfd

/-! ## 5. eigen-records, raw shapes, the characteristic polynomial -/
section eig
variable {K : Type} [Field K]

theorem bmix_lin2 (m : Nat) (Q : Nat → Nat → K) (x y : K) (g h : Nat → K) (J : Nat) :
    bmix m Q (fun J => x * g J + y * h J) J = x * bmix m Q g J + y * bmix m Q h J := by
  simp only [bmix, sumTo_eq, Finset.mul_sum, ← Finset.sum_add_distrib]
  apply Finset.sum_congr rfl; intro q _; ring

/-- `((I⊗Q)·A·(I⊗Q)ᵀ)·((I⊗Q)·g) = (I⊗Q)·(A·g)` -/
theorem bmix2_mulVec (nb m : Nat) (Q : Nat → Nat → K) (hQ : OrthoOn m Q) (A : Nat → Nat → K) (g : Nat → K) (i : Nat) :
    ∑ j ∈ range (nb * m), bmix2 m Q A i j * bmix m Q g j
      = bmix m Q (fun I => ∑ j ∈ range (nb * m), A I j * g j) i := by
  simp only [bmix2_eq, Finset.sum_mul]
  rw [Finset.sum_comm, bmix_eq]
  apply Finset.sum_congr rfl; intro a _
  rw [← bmix_isometry nb m Q hQ (A (i / m * m + a)) g, Finset.mul_sum]
  apply Finset.sum_congr rfl; intro j _; ring

/-- the list `(I⊗Q)·v` (`d` components) -/
def bmixL (m d : Nat) (Q : Nat → Nat → K) (v : List (Plscf.Cx K)) : List (Plscf.Cx K) :=
  (List.range d).map fun J =>
    ⟨bmix m Q (fun J' => (v.getD J' ⟨0, 0⟩).re) J, bmix m Q (fun J' => (v.getD J' ⟨0, 0⟩).im) J⟩

/-- the list `R·v` (`l` components) -/
def rmixL (l : Nat) (R : Nat → Nat → K) (v : List (Plscf.Cx K)) : List (Plscf.Cx K) :=
  (List.range l).map fun o =>
    ⟨rmix l R (fun p => (v.getD p ⟨0, 0⟩).re) o, rmix l R (fun p => (v.getD p ⟨0, 0⟩).im) o⟩

theorem bmixL_getD (m d : Nat) (Q : Nat → Nat → K) (v : List (Plscf.Cx K)) (J : Nat) (hJ : J < d) :
    (bmixL m d Q v).getD J ⟨0, 0⟩
      = ⟨bmix m Q (fun J' => (v.getD J' ⟨0, 0⟩).re) J, bmix m Q (fun J' => (v.getD J' ⟨0, 0⟩).im) J⟩ := by
  simp [bmixL, List.getD_eq_getElem?_getD, List.getElem?_map, List.getElem?_range hJ]

/-- the recorded eigenpair with the eigenvector multiplied by `I⊗Q` -/
def mixEig (m d : Nat) (Q : Nat → Nat → K) (e : EigIn K) : EigIn K :=
  { lamd := e.lamd, logv := e.logv, q := bmixL m d Q e.q }

/-- **eigen-record transport**: `(λ, q)` recorded for `A` gives `(λ, (I⊗Q)·q)` for `(I⊗Q)·A·(I⊗Q)ᵀ` -/
theorem EigPair.mix {nb m : Nat} {A A' : Nat → Nat → K} {e : EigIn K} (h : EigPair (nb * m) A e)
    (Q : Nat → Nat → K) (hQ : OrthoOn m Q)
    (hA : ∀ i, i < nb * m → ∀ j, j < nb * m → A' i j = bmix2 m Q A i j) :
    EigPair (nb * m) A' (mixEig m (nb * m) Q e) := by
  refine ⟨by simp [mixEig, bmixL], ?_⟩
  intro i hi
  have hre : ∀ I, I < nb * m → ∑ j ∈ range (nb * m), A I j * (e.q.getD j ⟨0, 0⟩).re
      = e.lamd.re * (e.q.getD I ⟨0, 0⟩).re + (- e.lamd.im) * (e.q.getD I ⟨0, 0⟩).im := by
    intro I hI
    have := congrArg Plscf.Cx.re (h.2 I hI)
    simp only [Cx.mul, sumTo_eq] at this
    rw [this]; ring
  have him : ∀ I, I < nb * m → ∑ j ∈ range (nb * m), A I j * (e.q.getD j ⟨0, 0⟩).im
      = e.lamd.re * (e.q.getD I ⟨0, 0⟩).im + e.lamd.im * (e.q.getD I ⟨0, 0⟩).re := by
    intro I hI
    have := congrArg Plscf.Cx.im (h.2 I hI)
    simp only [Cx.mul, sumTo_eq] at this
    rw [this]
  show (⟨sumTo (nb * m) (fun j => A' i j * ((bmixL m (nb * m) Q e.q).getD j ⟨0, 0⟩).re),
      sumTo (nb * m) (fun j => A' i j * ((bmixL m (nb * m) Q e.q).getD j ⟨0, 0⟩).im)⟩ : Plscf.Cx K)
      = Cx.mul e.lamd ((bmixL m (nb * m) Q e.q).getD i ⟨0, 0⟩)
  rw [bmixL_getD m _ Q e.q i hi]
  simp only [sumTo_eq, Cx.mul]
  congr 1
  · have e1 : ∀ j ∈ range (nb * m), A' i j * ((bmixL m (nb * m) Q e.q).getD j ⟨0, 0⟩).re
        = bmix2 m Q A i j * bmix m Q (fun J' => (e.q.getD J' ⟨0, 0⟩).re) j := by
      intro j hj; rw [hA i hi j (mem_range.mp hj), bmixL_getD m _ Q e.q j (mem_range.mp hj)]
    rw [Finset.sum_congr rfl e1, bmix2_mulVec nb m Q hQ]
    rw [bmix_congr Q _ (fun I => e.lamd.re * (e.q.getD I ⟨0, 0⟩).re + (- e.lamd.im) * (e.q.getD I ⟨0, 0⟩).im) i
      (fun q hq => hre _ (Cov.blk_lt hi hq)), bmix_lin2]
    ring
  · have e1 : ∀ j ∈ range (nb * m), A' i j * ((bmixL m (nb * m) Q e.q).getD j ⟨0, 0⟩).im
        = bmix2 m Q A i j * bmix m Q (fun J' => (e.q.getD J' ⟨0, 0⟩).im) j := by
      intro j hj; rw [hA i hi j (mem_range.mp hj), bmixL_getD m _ Q e.q j (mem_range.mp hj)]
    rw [Finset.sum_congr rfl e1, bmix2_mulVec nb m Q hQ]
    rw [bmix_congr Q _ (fun I => e.lamd.re * (e.q.getD I ⟨0, 0⟩).im + e.lamd.im * (e.q.getD I ⟨0, 0⟩).re) i
      (fun q hq => him _ (Cov.blk_lt hi hq)), bmix_lin2]

/-- **the raw shapes before normalisation**: `C'·((I⊗Q)·q) = R·(C·q)` for `C' = R·C·(I⊗Q)ᵀ` -/
theorem phiRaw_mix {nb m l : Nat} (Q R : Nat → Nat → K) (hQ : OrthoOn m Q) (C C' : Mat K) (hr : C.r = l)
    (hr' : C'.r = l) (hc : C.c = nb * m) (hc' : C'.c = nb * m)
    (he : ∀ o, o < l → ∀ j, j < nb * m → C'.e o j = rmix l R (fun p => bmix m Q (C.e p) j) o)
    (q : List (Plscf.Cx K)) :
    phiRaw C' (bmixL m (nb * m) Q q) = rmixL l R (phiRaw C q) := by
  unfold rmixL
  conv_lhs => unfold phiRaw
  rw [hr']
  apply List.map_congr_left
  intro o ho
  have ho' := List.mem_range.mp ho
  have key : ∀ (g : Nat → K), ∑ t ∈ range (nb * m), C'.e o t * bmix m Q g t
      = rmix l R (fun p => ∑ t ∈ range (nb * m), C.e p t * g t) o := by
    intro g
    have e1 : ∀ t ∈ range (nb * m), C'.e o t * bmix m Q g t
        = ∑ p ∈ range l, R o p * (bmix m Q (C.e p) t * bmix m Q g t) := by
      intro t ht
      rw [he o ho' t (mem_range.mp ht), rmix_eq, Finset.sum_mul]
      apply Finset.sum_congr rfl; intro p _; ring
    rw [Finset.sum_congr rfl e1, Finset.sum_comm, rmix_eq]
    apply Finset.sum_congr rfl; intro p _
    rw [← Finset.mul_sum, bmix_isometry nb m Q hQ]
  rw [hc']
  simp only [sumTo_eq]
  congr 1
  · have e2 : ∀ t ∈ range (nb * m), C'.e o t * ((bmixL m (nb * m) Q q).getD t ⟨0, 0⟩).re
        = C'.e o t * bmix m Q (fun J' => (q.getD J' ⟨0, 0⟩).re) t := by
      intro t ht; rw [bmixL_getD m _ Q q t (mem_range.mp ht)]
    rw [Finset.sum_congr rfl e2, key]
    apply rmix_congr; intro p hp
    rw [phiRaw_getD C q p (by rw [hr]; exact hp), hc]
    simp only [sumTo_eq]
  · have e2 : ∀ t ∈ range (nb * m), C'.e o t * ((bmixL m (nb * m) Q q).getD t ⟨0, 0⟩).im
        = C'.e o t * bmix m Q (fun J' => (q.getD J' ⟨0, 0⟩).im) t := by
      intro t ht; rw [bmixL_getD m _ Q q t (mem_range.mp ht)]
    rw [Finset.sum_congr rfl e2, key]
    apply rmix_congr; intro p hp
    rw [phiRaw_getD C q p (by rw [hr]; exact hp), hc]
    simp only [sumTo_eq]

/-- entry `(I, J)` of the block-diagonal `I⊗Q` -/
def bdiag (m : Nat) (Q : Nat → Nat → K) (I J : Nat) : K := if I / m = J / m then Q (I % m) (J % m) else 0

theorem bdiag_sum {nb m : Nat} (Q : Nat → Nat → K) (g : Nat → K) (I : Nat) (hI : I < nb * m) :
    ∑ J ∈ range (nb * m), bdiag m Q I J * g J = bmix m Q g I := by
  have hm : 0 < m := by
    rcases Nat.eq_zero_or_pos m with h | h
    · subst h; simp at hI
    · exact h
  rw [sum_blocks, Finset.sum_eq_single (I / m), bmix_eq]
  · apply Finset.sum_congr rfl; intro b hb
    simp only [bdiag, blk_div (I / m) (mem_range.mp hb), blk_mod (I / m) (mem_range.mp hb), if_true]
  · intro k _ hk
    apply Finset.sum_eq_zero; intro b hb
    simp only [bdiag, blk_div k (mem_range.mp hb), if_neg (Ne.symm hk), zero_mul]
  · intro hn
    exact absurd (mem_range.mpr ((Nat.div_lt_iff_lt_mul hm).mpr hI)) hn

/-- **the same characteristic polynomial**: conjugation by the orthogonal `I⊗Q` is a similarity -/
theorem charpoly_mix {nb m : Nat} (Q : Nat → Nat → K) (hQ : OrthoOn m (trQ Q)) (A A' : Nat → Nat → K)
    (hA : ∀ i, i < nb * m → ∀ j, j < nb * m → A' i j = bmix2 m Q A i j) :
    (toMx (nb * m) (nb * m) A').charpoly = (toMx (nb * m) (nb * m) A).charpoly := by
  set d := nb * m with hd
  let U : Matrix (Fin d) (Fin d) K := toMx d d (bdiag m Q)
  have hUU : U * U.transpose = 1 := by
    ext i j
    simp only [U, toMx, Matrix.mul_apply, Matrix.transpose_apply, Matrix.one_apply]
    rw [Fin.sum_univ_eq_sum_range (fun x => bdiag m Q i.1 x * bdiag m Q j.1 x) d, bdiag_sum Q _ i.1 i.2, bmix_eq]
    have hm : 0 < m := by
      rcases Nat.eq_zero_or_pos m with h | h
      · have := i.2; subst h; simp [hd] at this
      · exact h
    by_cases hk : j.1 / m = i.1 / m
    · have e1 : ∀ q ∈ range m, Q (i.1 % m) q * bdiag m Q j.1 (i.1 / m * m + q) = trQ Q q (i.1 % m) * trQ Q q (j.1 % m) := by
        intro q hq
        simp only [bdiag, blk_div (i.1 / m) (mem_range.mp hq), blk_mod (i.1 / m) (mem_range.mp hq), if_pos hk, trQ]
      rw [Finset.sum_congr rfl e1, hQ _ (Nat.mod_lt _ hm) _ (Nat.mod_lt _ hm)]
      by_cases e2 : i.1 % m = j.1 % m
      · have : i = j := Fin.ext (by rw [← Nat.div_add_mod' i.1 m, ← Nat.div_add_mod' j.1 m, hk, e2])
        rw [if_pos e2, if_pos this]
      · rw [if_neg e2, if_neg (fun e3 => e2 (by rw [e3]))]
    · have e1 : ∀ q ∈ range m, Q (i.1 % m) q * bdiag m Q j.1 (i.1 / m * m + q) = 0 := by
        intro q hq
        simp only [bdiag, blk_div (i.1 / m) (mem_range.mp hq), if_neg hk, mul_zero]
      rw [Finset.sum_congr rfl e1, Finset.sum_const_zero, if_neg (fun e3 => hk (by rw [e3]))]
  have hUU' : U.transpose * U = 1 := mul_eq_one_comm.mp hUU
  have e : toMx d d A' = U * (toMx d d A * U.transpose) := by
    ext i j
    simp only [U, toMx, Matrix.mul_apply, Matrix.transpose_apply]
    rw [hA i.1 i.2 j.1 j.2, bmix2_eq', Fin.sum_univ_eq_sum_range
      (fun x => bdiag m Q i.1 x * ∑ y : Fin d, A x y.1 * bdiag m Q j.1 y.1) d, bdiag_sum Q _ i.1 i.2]
    apply bmix_congr; intro a ha
    rw [Fin.sum_univ_eq_sum_range (fun y => A (i.1 / m * m + a) y * bdiag m Q j.1 y) d, ← bdiag_sum Q _ j.1 j.2]
    apply Finset.sum_congr rfl; intro y _; ring
  rw [e, Matrix.charpoly_mul_comm, Matrix.mul_assoc, hUU', Matrix.mul_one]

end eig

/-! ## 6. injectivity under the conjugation (for two runs of the model) -/
section inj
variable {K : Type} [Field K]

/-- `(I⊗Q)ᵀ·(I⊗Q)·g = g` -/
theorem bmix_inv {m : Nat} (Q : Nat → Nat → K) (hQ : OrthoOn m Q) (g : Nat → K) (J : Nat) (hm : 0 < m) :
    bmix m (trQ Q) (bmix m Q g) J = g J := by
  have hjm : J % m < m := Nat.mod_lt _ hm
  simp only [bmix_eq, trQ]
  have e : ∀ c ∈ range m, Q c (J % m) * ∑ q ∈ range m, Q ((J / m * m + c) % m) q * g ((J / m * m + c) / m * m + q)
      = ∑ q ∈ range m, (Q c (J % m) * Q c q) * g (J / m * m + q) := by
    intro c hc
    rw [blk_div (J / m) (mem_range.mp hc), blk_mod (J / m) (mem_range.mp hc), Finset.mul_sum]
    apply Finset.sum_congr rfl; intro q _; ring
  rw [Finset.sum_congr rfl e, Finset.sum_comm]
  have e2 : ∀ q ∈ range m, ∑ c ∈ range m, (Q c (J % m) * Q c q) * g (J / m * m + q)
      = (if J % m = q then 1 else 0) * g (J / m * m + q) := by
    intro q hq
    rw [← Finset.sum_mul, hQ _ hjm q (mem_range.mp hq)]
  rw [Finset.sum_congr rfl e2, sum_delta hjm, Nat.div_add_mod']

/-- injectivity of a square block is preserved by the conjugation with `I⊗Q` -/
theorem inj_mix {nb m : Nat} (hm : 0 < m) (Q : Nat → Nat → K) (hQ : Orth2 m Q) (G : Nat → Nat → K)
    (hinj : ∀ y : Nat → K, (∀ I < nb * m, ∑ J ∈ range (nb * m), G I J * y J = 0) → ∀ J < nb * m, y J = 0) :
    ∀ y : Nat → K, (∀ I < nb * m, ∑ J ∈ range (nb * m), bmix2 m Q G I J * y J = 0) → ∀ J < nb * m, y J = 0 := by
  intro y hy
  have hyz : ∀ J, y J = bmix m Q (bmix m (trQ Q) y) J := by
    intro J
    have := bmix_inv (trQ Q) hQ.rows y J hm
    exact this.symm
  have hw : ∀ I, I < nb * m → bmix m Q (fun I' => ∑ J ∈ range (nb * m), G I' J * bmix m (trQ Q) y J) I = 0 := by
    intro I hI
    rw [← bmix2_mulVec nb m Q hQ.cols, ← hy I hI]
    apply Finset.sum_congr rfl; intro J _
    rw [← hyz J]
  have hz := hinj (bmix m (trQ Q) y) (by
    intro I hI
    rw [← bmix_inv Q hQ.cols (fun I' => ∑ J ∈ range (nb * m), G I' J * bmix m (trQ Q) y J) I hm, bmix_eq]
    apply Finset.sum_eq_zero; intro c hc
    rw [hw _ (Cov.blk_lt hI (mem_range.mp hc)), mul_zero])
  intro J hJ
  rw [hyz J, bmix_eq]
  apply Finset.sum_eq_zero; intro q hq
  rw [hz _ (Cov.blk_lt hJ (mem_range.mp hq)), mul_zero]

end inj

end PV.Cov
