import PyomaVerif.Lemmas.PlscfPerm
import Mathlib.LinearAlgebra.Matrix.NonsingularInverse
/-!
# pLSCF under an orthogonal mixing of the channels (helpers of `Props/C08MixPlscf.lean`)

`Sy'[o, c, f] = Σ_p Σ_q R[o, p]·Q[c, q]·Sy[p, q, f]` — `Q` a real orthogonal `Nch × Nch` matrix acting on the
columns of the spectral array, `R` a real `Nref × Nref` matrix with orthonormal columns acting on its rows
(`R = Q` for the square single-setup array `Q·Sy·Qᵀ`).  The regressor `Yo = -kron(Xo, Sy[o])` is mixed by
the block-diagonal `I ⊗ Q`: component `J` of `(I⊗Q)·g` is `bmix Nch Q g J = Σ_q Q[J % Nch, q]·g[(J / Nch)·Nch + q]`.

1. the operators `bmix` (`(I⊗Q)·g`), `bmix2` (`(I⊗Q)·G·(I⊗Q)ᵀ`), `rmix` (`Q·g`): linearity, shifts, isometry;
2. `Yo`, `So`, `To`, `Mmat` under the mixing (`Mmat_mix`: `M' = (I⊗Q)·M·(I⊗Q)ᵀ`, the sum over the mixed rows
   uses `Σ_o R[o,p]·R[o,p'] = δ`);
3. `OrderCert.mix`: transport of what a returned order certifies (`alpha' = (I⊗Q)·alpha·Qᵀ`);
4. `rmfd2ac`: the recorded solves conjugated by `Q`, the state matrix conjugated by `I⊗Q`, `C' = R·C·(I⊗Q)ᵀ`;
5. eigen-records, raw shapes (`C'·(I⊗Q)q = R·(C·q)`), the characteristic polynomial.
-/
open Finset
namespace PV.Cov
open PV PV.Plscf

/-! ## 1. the operators -/
section ops
variable {K : Type} [Field K]

/-- component `J` of `(I⊗Q)·g` -/
def bmix (m : Nat) (Q : Nat → Nat → K) (g : Nat → K) (J : Nat) : K :=
  sumTo m (fun q => Q (J % m) q * g (J / m * m + q))

/-- entry `(I, J)` of `(I⊗Q)·G·(I⊗Q)ᵀ` -/
def bmix2 (m : Nat) (Q : Nat → Nat → K) (G : Nat → Nat → K) (I J : Nat) : K :=
  sumTo m (fun a => sumTo m (fun b => Q (I % m) a * Q (J % m) b * G (I / m * m + a) (J / m * m + b)))

/-- component `c` of `Q·g` -/
def rmix (m : Nat) (Q : Nat → Nat → K) (g : Nat → K) (c : Nat) : K :=
  sumTo m (fun b => Q c b * g b)

/-- the transpose -/
def trQ (Q : Nat → Nat → K) : Nat → Nat → K := fun a b => Q b a

/-- `QᵀQ = I` and `QQᵀ = I` on the first `m` indices -/
structure Orth2 (m : Nat) (Q : Nat → Nat → K) : Prop where
  cols : OrthoOn m Q
  rows : OrthoOn m (trQ Q)

/-- for a square array orthonormal columns give orthonormal rows -/
theorem Orth2.of_cols {m : Nat} {Q : Nat → Nat → K} (h : OrthoOn m Q) : Orth2 m Q := by
  refine ⟨h, ?_⟩
  have h1 : (toMx m m Q).transpose * toMx m m Q = 1 := toMx_orth_of m m Q h
  have h2 : toMx m m Q * (toMx m m Q).transpose = 1 := mul_eq_one_comm.mp h1
  intro a ha b hb
  have := congrFun (congrFun h2 ⟨a, ha⟩) ⟨b, hb⟩
  simp only [toMx, Matrix.mul_apply, Matrix.transpose_apply, Matrix.one_apply, Fin.mk.injEq] at this
  rw [← this, ← Finset.sum_range (fun i => Q a i * Q b i)]
  rfl

theorem bmix_eq (m : Nat) (Q : Nat → Nat → K) (g : Nat → K) (J : Nat) :
    bmix m Q g J = ∑ q ∈ range m, Q (J % m) q * g (J / m * m + q) := by
  rw [bmix, sumTo_eq]

theorem bmix2_eq (m : Nat) (Q : Nat → Nat → K) (G : Nat → Nat → K) (I J : Nat) :
    bmix2 m Q G I J = ∑ a ∈ range m, Q (I % m) a * bmix m Q (G (I / m * m + a)) J := by
  simp only [bmix2, bmix, sumTo_eq, Finset.mul_sum]
  apply Finset.sum_congr rfl; intro a _
  apply Finset.sum_congr rfl; intro b _; ring

theorem bmix2_eq' (m : Nat) (Q : Nat → Nat → K) (G : Nat → Nat → K) (I J : Nat) :
    bmix2 m Q G I J = bmix m Q (fun I' => bmix m Q (G I') J) I := by
  rw [bmix2_eq, bmix_eq]

theorem bmix2_mul (m : Nat) (Q : Nat → Nat → K) (g h : Nat → K) (I J : Nat) :
    bmix2 m Q (fun I J => g I * h J) I J = bmix m Q g I * bmix m Q h J := by
  simp only [bmix2, bmix, sumTo_eq]
  rw [Finset.sum_mul_sum]
  apply Finset.sum_congr rfl; intro a _
  apply Finset.sum_congr rfl; intro b _; ring

theorem bmix2_sum (m : Nat) (Q : Nat → Nat → K) (N : Nat) (G : Nat → Nat → Nat → K) (I J : Nat) :
    bmix2 m Q (fun I J => ∑ k ∈ range N, G k I J) I J = ∑ k ∈ range N, bmix2 m Q (G k) I J := by
  simp only [bmix2, sumTo_eq, Finset.mul_sum]
  symm
  rw [Finset.sum_comm]
  apply Finset.sum_congr rfl; intro a _
  rw [Finset.sum_comm]

theorem bmix2_add (m : Nat) (Q : Nat → Nat → K) (G H : Nat → Nat → K) (I J : Nat) :
    bmix2 m Q (fun I J => G I J + H I J) I J = bmix2 m Q G I J + bmix2 m Q H I J := by
  simp only [bmix2, sumTo_eq, mul_add, Finset.sum_add_distrib]

theorem bmix2_sub (m : Nat) (Q : Nat → Nat → K) (G H : Nat → Nat → K) (I J : Nat) :
    bmix2 m Q (fun I J => G I J - H I J) I J = bmix2 m Q G I J - bmix2 m Q H I J := by
  simp only [bmix2, sumTo_eq, mul_sub, Finset.sum_sub_distrib]

theorem bmix2_neg (m : Nat) (Q : Nat → Nat → K) (G : Nat → Nat → K) (I J : Nat) :
    bmix2 m Q (fun I J => - G I J) I J = - bmix2 m Q G I J := by
  simp only [bmix2, sumTo_eq, mul_neg, Finset.sum_neg_distrib]

theorem bmix_sum (m : Nat) (Q : Nat → Nat → K) (N : Nat) (g : Nat → Nat → K) (J : Nat) :
    bmix m Q (fun J => ∑ k ∈ range N, g k J) J = ∑ k ∈ range N, bmix m Q (g k) J := by
  simp only [bmix, sumTo_eq, Finset.mul_sum]
  rw [Finset.sum_comm]

theorem bmix_add (m : Nat) (Q : Nat → Nat → K) (g h : Nat → K) (J : Nat) :
    bmix m Q (fun J => g J + h J) J = bmix m Q g J + bmix m Q h J := by
  simp only [bmix, sumTo_eq, mul_add, Finset.sum_add_distrib]

theorem bmix_smul (m : Nat) (Q : Nat → Nat → K) (c : K) (g : Nat → K) (J : Nat) :
    bmix m Q (fun J => c * g J) J = c * bmix m Q g J := by
  simp only [bmix, sumTo_eq, Finset.mul_sum]
  apply Finset.sum_congr rfl; intro q _; ring

theorem bmix_neg (m : Nat) (Q : Nat → Nat → K) (g : Nat → K) (J : Nat) :
    bmix m Q (fun J => - g J) J = - bmix m Q g J := by
  simp only [bmix, sumTo_eq, mul_neg, Finset.sum_neg_distrib]

/-- `bmix` reads `g` only inside the block of `J` -/
theorem bmix_congr {m : Nat} (Q : Nat → Nat → K) (g h : Nat → K) (J : Nat)
    (e : ∀ q, q < m → g (J / m * m + q) = h (J / m * m + q)) : bmix m Q g J = bmix m Q h J := by
  unfold bmix
  apply sumTo_congr; intro q hq; rw [e q hq]

theorem bmix2_congr {m : Nat} (Q : Nat → Nat → K) (G H : Nat → Nat → K) (I J : Nat)
    (e : ∀ a, a < m → ∀ b, b < m → G (I / m * m + a) (J / m * m + b) = H (I / m * m + a) (J / m * m + b)) :
    bmix2 m Q G I J = bmix2 m Q H I J := by
  unfold bmix2
  apply sumTo_congr; intro a ha
  apply sumTo_congr; intro b hb; rw [e a ha b hb]

/-- whole blocks shift through the mixing -/
theorem bmix_shift {m : Nat} (hm : 0 < m) (Q : Nat → Nat → K) (g : Nat → K) (k J : Nat) :
    bmix m Q g (k * m + J) = bmix m Q (fun J' => g (k * m + J')) J := by
  unfold bmix
  have h1 : (k * m + J) % m = J % m := by rw [Nat.add_comm, Nat.add_mul_mod_self_right]
  have h2 : (k * m + J) / m * m = k * m + J / m * m := by
    rw [Nat.add_comm, Nat.add_mul_div_right _ _ hm, Nat.add_mul, Nat.add_comm]
  rw [h1, h2]
  apply sumTo_congr; intro q _; rw [Nat.add_assoc]

theorem bmix_shift1 {m : Nat} (hm : 0 < m) (Q : Nat → Nat → K) (g : Nat → K) (J : Nat) :
    bmix m Q g (m + J) = bmix m Q (fun J' => g (m + J')) J := by
  have := bmix_shift hm Q g 1 J
  simpa only [Nat.one_mul] using this

/-- inside the first block `(I⊗Q)·g` is `Q·g` -/
theorem bmix_low {m : Nat} (Q : Nat → Nat → K) (g : Nat → K) (c : Nat) (hc : c < m) :
    bmix m Q g c = rmix m Q g c := by
  unfold bmix rmix
  rw [Nat.mod_eq_of_lt hc, Nat.div_eq_of_lt hc, Nat.zero_mul]
  apply sumTo_congr; intro q _; rw [Nat.zero_add]

theorem rmix_eq (m : Nat) (Q : Nat → Nat → K) (g : Nat → K) (c : Nat) :
    rmix m Q g c = ∑ b ∈ range m, Q c b * g b := by
  rw [rmix, sumTo_eq]

/-- **isometry**: `⟨(I⊗Q)g, (I⊗Q)h⟩ = ⟨g, h⟩` over whole blocks -/
theorem bmix_isometry (nb m : Nat) (Q : Nat → Nat → K) (hQ : OrthoOn m Q) (g h : Nat → K) :
    ∑ J ∈ range (nb * m), bmix m Q g J * bmix m Q h J = ∑ J ∈ range (nb * m), g J * h J := by
  simp only [bmix_eq]
  exact block_isometry nb m Q hQ g h

/-- the same for one block: `⟨R·u, R·v⟩ = ⟨u, v⟩` -/
theorem rmix_isometry (m : Nat) (R : Nat → Nat → K) (hR : OrthoOn m R) (u v : Nat → K) :
    ∑ o ∈ range m, rmix m R u o * rmix m R v o = ∑ p ∈ range m, u p * v p := by
  have := bmix_isometry 1 m R hR u v
  rw [Nat.one_mul] at this
  rw [← this]
  apply Finset.sum_congr rfl
  intro o ho
  rw [bmix_low R u o (mem_range.mp ho), bmix_low R v o (mem_range.mp ho)]

/-- `Σ_b δ_{ab}·F b = F a` -/
theorem sum_delta {m a : Nat} (ha : a < m) (F : Nat → K) :
    ∑ b ∈ range m, (if a = b then (1 : K) else 0) * F b = F a := by
  rw [Finset.sum_eq_single a]
  · simp
  · intro b _ hne; rw [if_neg (Ne.symm hne), zero_mul]
  · intro h; exact absurd (mem_range.mpr ha) h

/-- `Q·δ·Qᵀ = δ` (rows of `Q` orthonormal) -/
theorem rmix_delta {m : Nat} (Q : Nat → Nat → K) (hQ : OrthoOn m (trQ Q)) (a c : Nat) (ha : a < m) (hc : c < m) :
    rmix m Q (fun b => rmix m Q (fun a' => if a' = b then (1 : K) else 0) a) c = if a = c then 1 else 0 := by
  simp only [rmix_eq]
  have e : ∀ b ∈ range m, Q c b * ∑ a' ∈ range m, Q a a' * (if a' = b then (1 : K) else 0) = Q c b * Q a b := by
    intro b hb
    congr 1
    rw [Finset.sum_eq_single b]
    · simp
    · intro a' _ hne; rw [if_neg hne, mul_zero]
    · intro h; exact absurd hb h
  rw [Finset.sum_congr rfl e, ← hQ a ha c hc]
  apply Finset.sum_congr rfl; intro b _; simp only [trQ]; ring

end ops

/-! ## 2. the normal equations -/
section normal
variable {K : Type} [Field K]

/-- a real combination of complex pairs -/
def clin (n : Nat) (c : Nat → K) (u : Nat → Plscf.Cx K) : Plscf.Cx K :=
  ⟨sumTo n (fun k => c k * (u k).re), sumTo n (fun k => c k * (u k).im)⟩

/-- one row of the spectral array with its columns mixed: `Syo'[c, f] = Σ_q Q[c, q]·Syo[q, f]` -/
def colSy (Nch : Nat) (Q : Nat → Nat → K) (S : Nat → Nat → Plscf.Cx K) : Nat → Nat → Plscf.Cx K :=
  fun c f => clin Nch (Q c) (fun q => S q f)

/-- the rows mixed: `Sy'[o] = Σ_p R[o, p]·Sy[p]` -/
def rowSy (Nref : Nat) (R : Nat → Nat → K) (Sy : Nat → Nat → Nat → Plscf.Cx K) : Nat → Nat → Nat → Plscf.Cx K :=
  fun o c f => clin Nref (R o) (fun p => Sy p c f)

/-- **the mixed spectral array** `Sy'[o, c, f] = Σ_p Σ_q R[o, p]·Q[c, q]·Sy[p, q, f]` (`R·Sy[:, :, f]·Qᵀ`) -/
def mixSy (Nref Nch : Nat) (R Q : Nat → Nat → K) (Sy : Nat → Nat → Nat → Plscf.Cx K) :
    Nat → Nat → Nat → Plscf.Cx K :=
  rowSy Nref R (fun p => colSy Nch Q (Sy p))

theorem clin_congr (n : Nat) (c : Nat → K) (u v : Nat → Plscf.Cx K) (h : ∀ k, k < n → u k = v k) :
    clin n c u = clin n c v := by
  unfold clin
  congr 1 <;> (apply sumTo_congr; intro k hk; rw [h k hk])

theorem neg_mul_clin (x : Plscf.Cx K) (n : Nat) (c : Nat → K) (u : Nat → Plscf.Cx K) :
    Cx.neg (Cx.mul x (clin n c u)) = clin n c (fun k => Cx.neg (Cx.mul x (u k))) := by
  simp only [clin, Cx.neg, Cx.mul, sumTo_eq]
  congr 1
  · rw [Finset.mul_sum, Finset.mul_sum, ← Finset.sum_sub_distrib, ← Finset.sum_neg_distrib]
    apply Finset.sum_congr rfl; intro k _; ring
  · rw [Finset.mul_sum, Finset.mul_sum, ← Finset.sum_add_distrib, ← Finset.sum_neg_distrib]
    apply Finset.sum_congr rfl; intro k _; ring

theorem Yo_col {Nch : Nat} (hN : 0 < Nch) (Q : Nat → Nat → K) (Om : Nat → Plscf.Cx K)
    (S : Nat → Nat → Plscf.Cx K) (f J : Nat) :
    Yo Nch Om (colSy Nch Q S) f J
      = clin Nch (Q (J % Nch)) (fun q => Yo Nch Om S f (J / Nch * Nch + q)) := by
  have : Yo Nch Om (colSy Nch Q S) f J
      = Cx.neg (Cx.mul (Xo Om f (J / Nch)) (clin Nch (Q (J % Nch)) (fun q => S q f))) := rfl
  rw [this, neg_mul_clin]
  apply clin_congr
  intro q hq
  simp only [Yo, blk_div (J / Nch) hq, blk_mod (J / Nch) hq]

theorem Yo_row (Nch Nref : Nat) (R : Nat → Nat → K) (Om : Nat → Plscf.Cx K)
    (Sy : Nat → Nat → Nat → Plscf.Cx K) (o f J : Nat) :
    Yo Nch Om (rowSy Nref R Sy o) f J = clin Nref (R o) (fun p => Yo Nch Om (Sy p) f J) := by
  have : Yo Nch Om (rowSy Nref R Sy o) f J
      = Cx.neg (Cx.mul (Xo Om f (J / Nch)) (clin Nref (R o) (fun p => Sy p (J % Nch) f))) := rfl
  rw [this, neg_mul_clin]
  rfl

theorem So_col {Nch : Nat} (hN : 0 < Nch) (Q : Nat → Nat → K) (Nf : Nat) (Om : Nat → Plscf.Cx K)
    (S : Nat → Nat → Plscf.Cx K) (i J : Nat) :
    So Nch Nf Om (colSy Nch Q S) i J = bmix Nch Q (So Nch Nf Om S i) J := by
  simp only [So, Yo_col hN, Cx.reConjMul, clin, bmix, sumTo_eq, Finset.mul_sum, ← Finset.sum_add_distrib]
  rw [Finset.sum_comm]
  apply Finset.sum_congr rfl; intro q _
  apply Finset.sum_congr rfl; intro f _; ring

theorem So_row (Nch Nref Nf : Nat) (R : Nat → Nat → K) (Om : Nat → Plscf.Cx K)
    (Sy : Nat → Nat → Nat → Plscf.Cx K) (o i J : Nat) :
    So Nch Nf Om (rowSy Nref R Sy o) i J = rmix Nref R (fun p => So Nch Nf Om (Sy p) i J) o := by
  simp only [So, Yo_row, Cx.reConjMul, clin, rmix, sumTo_eq, Finset.mul_sum, ← Finset.sum_add_distrib]
  rw [Finset.sum_comm]
  apply Finset.sum_congr rfl; intro q _
  apply Finset.sum_congr rfl; intro f _; ring

theorem To_expand (Nch Nf : Nat) (Om : Nat → Plscf.Cx K) (S : Nat → Nat → Plscf.Cx K) :
    To Nch Nf Om S = fun I J => ∑ f ∈ range Nf,
      ((fun I => (Yo Nch Om S f I).re) I * (fun J => (Yo Nch Om S f J).re) J
        + (fun I => (Yo Nch Om S f I).im) I * (fun J => (Yo Nch Om S f J).im) J) := by
  funext I J; simp only [To, Cx.reConjMul, sumTo_eq]

theorem To_col {Nch : Nat} (hN : 0 < Nch) (Q : Nat → Nat → K) (Nf : Nat) (Om : Nat → Plscf.Cx K)
    (S : Nat → Nat → Plscf.Cx K) (I J : Nat) :
    To Nch Nf Om (colSy Nch Q S) I J = bmix2 Nch Q (To Nch Nf Om S) I J := by
  rw [To_expand Nch Nf Om S, bmix2_sum, To_expand]
  apply Finset.sum_congr rfl; intro f _
  rw [bmix2_add, bmix2_mul, bmix2_mul]
  simp only [Yo_col hN]
  rfl

/-- **column mixing**: with the inner solves mixed the same way, `M' = (I⊗Q)·M·(I⊗Q)ᵀ` (any `Q`) -/
theorem Mmat_col {Nch : Nat} (hN : 0 < Nch) (Q : Nat → Nat → K) (Nref Nf n : Nat) (Om : Nat → Plscf.Cx K)
    (Sy : Nat → Nat → Nat → Plscf.Cx K) (X : Nat → Nat → Nat → K) (I J : Nat) :
    Mmat Nch Nref Nf n Om (fun o => colSy Nch Q (Sy o)) (fun o t J => bmix Nch Q (X o t) J) I J
      = bmix2 Nch Q (Mmat Nch Nref Nf n Om Sy X) I J := by
  have e : Mmat Nch Nref Nf n Om Sy X = fun I J => ∑ o ∈ range Nref,
      ((fun I J => To Nch Nf Om (Sy o) I J) I J
        - (fun I J => ∑ t ∈ range (n + 1),
            (fun I => So Nch Nf Om (Sy o) t I) I * (fun J => X o t J) J) I J) := by
    funext I J; simp only [Mmat, sumTo_eq]
  rw [e, bmix2_sum]
  simp only [Mmat, sumTo_eq]
  apply Finset.sum_congr rfl; intro o _
  rw [bmix2_sub, bmix2_sum, To_col hN]
  congr 1
  apply Finset.sum_congr rfl; intro t _
  rw [bmix2_mul, So_col hN]

/-- **row mixing**: with the inner solves mixed the same way, `M' = M` — the sum over the mixed rows uses
    `Σ_o R[o, p]·R[o, p'] = δ_{pp'}` -/
theorem Mmat_row (Nch Nref Nf n : Nat) (R : Nat → Nat → K) (hR : OrthoOn Nref R) (Om : Nat → Plscf.Cx K)
    (Sy : Nat → Nat → Nat → Plscf.Cx K) (X : Nat → Nat → Nat → K) (I J : Nat) :
    Mmat Nch Nref Nf n Om (rowSy Nref R Sy) (fun o t J => rmix Nref R (fun p => X p t J) o) I J
      = Mmat Nch Nref Nf n Om Sy X I J := by
  simp only [Mmat, sumTo_eq, Finset.sum_sub_distrib]
  congr 1
  · simp only [To, Cx.reConjMul, sumTo_eq, Yo_row]
    rw [Finset.sum_comm]
    conv_rhs => rw [Finset.sum_comm]
    apply Finset.sum_congr rfl; intro f _
    rw [Finset.sum_add_distrib, Finset.sum_add_distrib]
    congr 1
    · exact rmix_isometry Nref R hR (fun p => (Yo Nch Om (Sy p) f I).re) (fun p => (Yo Nch Om (Sy p) f J).re)
    · exact rmix_isometry Nref R hR (fun p => (Yo Nch Om (Sy p) f I).im) (fun p => (Yo Nch Om (Sy p) f J).im)
  · rw [Finset.sum_comm]
    conv_rhs => rw [Finset.sum_comm]
    apply Finset.sum_congr rfl; intro t _
    simp only [So_row]
    exact rmix_isometry Nref R hR (fun p => So Nch Nf Om (Sy p) t I) (fun p => X p t J)

/-- the inner solves of the mixed run: `X'[o] = Σ_p R[o, p]·X[p]·(I⊗Q)ᵀ` -/
def mixX (Nref Nch : Nat) (R Q : Nat → Nat → K) (X : Nat → Nat → Nat → K) : Nat → Nat → Nat → K :=
  fun o t J => rmix Nref R (fun p => bmix Nch Q (X p t) J) o

theorem So_mix {Nch : Nat} (hN : 0 < Nch) (Nref Nf : Nat) (R Q : Nat → Nat → K) (Om : Nat → Plscf.Cx K)
    (Sy : Nat → Nat → Nat → Plscf.Cx K) (o i J : Nat) :
    So Nch Nf Om (mixSy Nref Nch R Q Sy o) i J
      = rmix Nref R (fun p => bmix Nch Q (So Nch Nf Om (Sy p) i) J) o := by
  unfold mixSy
  rw [So_row]
  simp only [So_col hN]

/-- **`M` under the mixing**: `M' = (I⊗Q)·M·(I⊗Q)ᵀ` -/
theorem Mmat_mix {Nch : Nat} (hN : 0 < Nch) (Nref Nf n : Nat) (R Q : Nat → Nat → K) (hR : OrthoOn Nref R)
    (Om : Nat → Plscf.Cx K) (Sy : Nat → Nat → Nat → Plscf.Cx K) (X : Nat → Nat → Nat → K) (I J : Nat) :
    Mmat Nch Nref Nf n Om (mixSy Nref Nch R Q Sy) (mixX Nref Nch R Q X) I J
      = bmix2 Nch Q (Mmat Nch Nref Nf n Om Sy X) I J := by
  unfold mixSy mixX
  rw [Mmat_row Nch Nref Nf n R hR Om (fun p => colSy Nch Q (Sy p)) (fun p t J => bmix Nch Q (X p t) J)]
  exact Mmat_col hN Q Nref Nf n Om Sy X I J

end normal

end PV.Cov
