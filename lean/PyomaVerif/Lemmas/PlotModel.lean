import PyomaVerif.Model.PlotModel
import Mathlib.Data.List.Basic
import Mathlib.Algebra.Order.Ring.Rat
/-! Helper lemmas for C20 (flatten order, first maximum). -/
namespace PV.Plot

theorem blk_mod' {c R r : Nat} (h : r < R) : (c * R + r) % R = r := by
  rw [Nat.add_comm, Nat.add_mul_mod_self_right, Nat.mod_eq_of_lt h]

theorem blk_div' {c R r : Nat} (h : r < R) : (c * R + r) / R = c := by
  have hp : 0 < R := Nat.lt_of_le_of_lt (Nat.zero_le _) h
  rw [Nat.add_comm, Nat.add_mul_div_right _ _ hp, Nat.div_eq_of_lt h, Nat.zero_add]

/-- a map over `range (C·R)` is the concatenation over `c < C` of the maps over `r < R`
    at index `c·R + r`. -/
theorem range_mul_map {β : Type} (C R : Nat) (f : Nat → β) :
    (List.range (C * R)).map f
      = (List.range C).flatMap fun c => (List.range R).map fun r => f (c * R + r) := by
  induction C with
  | zero => simp
  | succ C ih =>
    rw [Nat.succ_mul, List.range_add, List.map_append, ih, List.range_succ, List.flatMap_append]
    simp [List.map_map, Function.comp_def]

theorem flattenF_eq_map {α : Type} (m : Mat α) :
    flattenF m = (List.range (m.c * m.r)).map fun i => m.e (i % m.r) (i / m.r) := by
  rw [range_mul_map]
  unfold flattenF
  apply List.flatMap_congr
  intro c _
  apply List.map_congr_left
  intro r hr
  have h := List.mem_range.mp hr
  rw [blk_mod' h, blk_div' h]

theorem flattenF_length {α : Type} (m : Mat α) : (flattenF m).length = m.c * m.r := by
  rw [flattenF_eq_map]; simp

/-- fold state of `argmaxFirst` after the first `n` indices: an index in range whose value
    bounds all the others. -/
theorem argmaxFirst_spec (n : Nat) (f : Nat → Rat) :
    argmaxFirst n f ≤ n - 1 ∧ ∀ i, i < n → f i ≤ f (argmaxFirst n f) := by
  unfold argmaxFirst
  induction n with
  | zero => simp
  | succ n ih =>
    rw [List.range_succ, List.foldl_append]
    simp only [List.foldl_cons, List.foldl_nil]
    obtain ⟨h1, h2⟩ := ih
    generalize (List.range n).foldl (fun best i => if f best < f i then i else best) 0 = b at *
    by_cases hlt : f b < f n
    · simp only [hlt, if_true]
      refine ⟨by omega, ?_⟩
      intro i hi
      rcases Nat.lt_succ_iff_lt_or_eq.mp hi with h | h
      · exact le_trans (h2 i h) (le_of_lt hlt)
      · subst h; exact le_refl _
    · simp only [hlt, if_false]
      refine ⟨by omega, ?_⟩
      intro i hi
      rcases Nat.lt_succ_iff_lt_or_eq.mp hi with h | h
      · exact h2 i h
      · subst h; exact not_lt.mp hlt

theorem argmaxFirst_lt {n : Nat} (f : Nat → Rat) (h : 0 < n) : argmaxFirst n f < n := by
  have := (argmaxFirst_spec n f).1; omega

end PV.Plot
