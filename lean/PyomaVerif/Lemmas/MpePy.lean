import PyomaVerif.Model.MpePy
import PyomaVerif.Lemmas.Mpe
/-! Lemmas on `Model/MpePy.lean`: Python indices, congruence of the request loop, shapes. -/
namespace PV

/-! ### Python indices -/

theorem pyIdx_lt {n : Nat} {i : Int} {k : Nat} (h : pyIdx n i = some k) : k < n := by
  unfold pyIdx at h
  split at h
  · split at h
    · simp only [Option.some.injEq] at h; omega
    · cases h
  · split at h
    · simp only [Option.some.injEq] at h; omega
    · cases h

theorem pyIdx_nat (n o : Nat) : pyIdx n (o : Int) = if o < n then some o else none := by
  unfold pyIdx
  by_cases h : o < n
  · have : (o : Int) < (n : Int) := by omega
    simp [h, this]
  · have : ¬ (o : Int) < (n : Int) := by omega
    simp [h, this]

theorem pyIdx_neg {n : Nat} {i : Int} (h0 : i < 0) (h1 : -(n : Int) ≤ i) :
    pyIdx n i = some ((n : Int) + i).toNat := by
  unfold pyIdx
  have : ¬ 0 ≤ i := by omega
  simp [this, h1]

theorem pyIdx_below {n : Nat} {i : Int} (h1 : i < -(n : Int)) : pyIdx n i = none := by
  unfold pyIdx
  have h0 : ¬ 0 ≤ i := by omega
  have h2 : ¬ -(n : Int) ≤ i := by omega
  simp [h0, h2]

theorem resolveCol_of_some {n : Nat} {i : Int} {k : Nat} (h : pyIdx n i = some k) : resolveCol n i = k := by
  simp [resolveCol, h]

theorem resolveCol_nat_lt {n o : Nat} (h : o < n) : resolveCol n (o : Int) = o := by
  simp [resolveCol, pyIdx_nat, h]

/-! ### the request loop does not distinguish "no column" from "column past the end" -/

variable (Fn Xi : Mat NR) (Phi : Ten3 (Option CQ)) (cov : Option MpeCov) (chk : Rat → NR → Bool)

theorem mpePass_none_eq_oob (acc : MpeAcc) (fj : Rat) {o : Nat} (h : Fn.c ≤ o) :
    mpePass Fn Xi Phi cov chk acc fj none = mpePass Fn Xi Phi cov chk acc fj (some o) := by
  simp [mpePass, h]

theorem mpePass_pyIdx (acc : MpeAcc) (fj : Rat) (i : Int) :
    mpePass Fn Xi Phi cov chk acc fj (pyIdx Fn.c i) = mpePass Fn Xi Phi cov chk acc fj (some (resolveCol Fn.c i)) := by
  unfold resolveCol
  cases h : pyIdx Fn.c i with
  | none => exact mpePass_none_eq_oob Fn Xi Phi cov chk acc fj (Nat.le_refl _)
  | some k => rfl

theorem mpePass_pyIdx_nat (acc : MpeAcc) (fj : Rat) (o : Nat) :
    mpePass Fn Xi Phi cov chk acc fj (pyIdx Fn.c (o : Int)) = mpePass Fn Xi Phi cov chk acc fj (some o) := by
  rw [pyIdx_nat]
  by_cases h : o < Fn.c
  · simp [h]
  · simp only [h, if_false]
    exact mpePass_none_eq_oob Fn Xi Phi cov chk acc fj (by omega)

theorem mpeLoop_map_congr (g g' : Option Nat)
    (h : ∀ acc f, mpePass Fn Xi Phi cov chk acc f g = mpePass Fn Xi Phi cov chk acc f g') :
    ∀ (freq : List Rat) (acc : MpeAcc),
      mpeLoop Fn Xi Phi cov chk (freq.map fun f => (f, g)) acc
        = mpeLoop Fn Xi Phi cov chk (freq.map fun f => (f, g')) acc := by
  intro freq
  induction freq with
  | nil => intro acc; rfl
  | cons f rest ih =>
    intro acc
    simp only [List.map_cons, mpeLoop]
    rw [h acc f]
    cases mpePass Fn Xi Phi cov chk acc f g' with
    | error e => rfl
    | ok acc' => exact ih acc'

theorem mpeLoop_filterMap_congr (freq : List Rat) (a a' : Nat → Option Nat)
    (h : ∀ acc f ii, mpePass Fn Xi Phi cov chk acc f (a ii) = mpePass Fn Xi Phi cov chk acc f (a' ii)) :
    ∀ (L : List Nat) (acc : MpeAcc),
      mpeLoop Fn Xi Phi cov chk
          (L.filterMap fun ii => match freq[ii]? with | some f => some (f, a ii) | none => none) acc
        = mpeLoop Fn Xi Phi cov chk
          (L.filterMap fun ii => match freq[ii]? with | some f => some (f, a' ii) | none => none) acc := by
  intro L
  induction L with
  | nil => intro acc; rfl
  | cons ii rest ih =>
    intro acc
    simp only [List.filterMap_cons]
    cases hf : freq[ii]? with
    | none => simp only; exact ih acc
    | some f =>
      simp only [mpeLoop]
      rw [h acc f ii]
      cases mpePass Fn Xi Phi cov chk acc f (a' ii) with
      | error e => rfl
      | ok acc' => exact ih acc'

/-- the `list` loop over Python ints = the `list` loop over the resolved columns -/
theorem mpeLoop_listReqsI (freq : List Rat) (os : List Int) (acc : MpeAcc) :
    mpeLoop Fn Xi Phi cov chk (listReqsI Fn.c freq os) acc
      = mpeLoop Fn Xi Phi cov chk (listReqs freq (os.map (resolveCol Fn.c))) acc := by
  unfold listReqsI listReqs
  apply mpeLoop_filterMap_congr
  intro acc f ii
  rw [List.getElem?_map]
  cases os[ii]? with
  | none => rfl
  | some i => exact mpePass_pyIdx Fn Xi Phi cov chk acc f i

/-- … and for non-negative entries it is the loop of `Model/Mpe.lean` itself -/
theorem mpeLoop_listReqsI_nat (freq : List Rat) (os : List Nat) (acc : MpeAcc) :
    mpeLoop Fn Xi Phi cov chk (listReqsI Fn.c freq (os.map Int.ofNat)) acc
      = mpeLoop Fn Xi Phi cov chk (listReqs freq os) acc := by
  unfold listReqsI listReqs
  apply mpeLoop_filterMap_congr
  intro acc f ii
  rw [List.getElem?_map]
  cases os[ii]? with
  | none => rfl
  | some o => exact mpePass_pyIdx_nat Fn Xi Phi cov chk acc f o

theorem boolFirst_not_ok (f : Rat) (b : Bool) (out : MpeOut) : boolFirst Fn f b ≠ .ok out := by
  unfold boolFirst
  intro h
  split at h
  · cases h
  · split at h
    · cases h
    · split at h <;> cases h

/-! ### shapes -/

theorem npArrayShape_scalar {α} (l : List α) : npArrayShape (scalarItems l) = [l.length] := by
  cases l with
  | nil => rfl
  | cons a t => simp [npArrayShape, scalarItems]

theorem shapeFlat_single (k : Nat) : shapeFlat [k] = [k] := by simp [shapeFlat]

theorem shapeFlat_one (k : Nat) : shapeFlat [1, k] = [k] := by simp [shapeFlat]

theorem npArrayShape_vector {α} (l : List (List α)) (d : Nat) (h : ∀ r ∈ l, r.length = d) :
    shapeT (npArrayShape (vectorItems l)) = if l.length = 0 then [0] else [d, l.length] := by
  cases l with
  | nil => rfl
  | cons a t =>
    have ha : a.length = d := h a List.mem_cons_self
    simp [npArrayShape, vectorItems, shapeT, ha]

theorem ten3Row_length {K} (T : Ten3 K) (sel ord : Nat) : (ten3Row T sel ord).length = T.d := by
  simp [ten3Row]

/-- the six lists of one cell list are parallel, every shape has `Phi.d` components -/
theorem accOfCells_lengths (cells : List (Nat × Nat)) :
    (accOfCells Fn Xi Phi cov cells).fn.length = cells.length ∧
    (accOfCells Fn Xi Phi cov cells).xi.length = cells.length ∧
    (accOfCells Fn Xi Phi cov cells).phi.length = cells.length ∧
    (∀ r ∈ (accOfCells Fn Xi Phi cov cells).phi, r.length = Phi.d) ∧
    (∀ c, cov = some c →
      (accOfCells Fn Xi Phi cov cells).fnCov.length = cells.length ∧
      (accOfCells Fn Xi Phi cov cells).xiCov.length = cells.length ∧
      (accOfCells Fn Xi Phi cov cells).phiCov.length = cells.length ∧
      (∀ r ∈ (accOfCells Fn Xi Phi cov cells).phiCov, r.length = c.phi.d)) := by
  refine ⟨by simp [accOfCells], by simp [accOfCells], by simp [accOfCells], ?_, ?_⟩
  · intro r hr
    simp only [accOfCells, List.mem_map] at hr
    obtain ⟨c, _, rfl⟩ := hr
    exact ten3Row_length _ _ _
  · intro c hc
    subst hc
    refine ⟨by simp [accOfCells], by simp [accOfCells], by simp [accOfCells], ?_⟩
    intro r hr
    simp only [accOfCells, List.mem_map] at hr
    obtain ⟨c', _, rfl⟩ := hr
    exact ten3Row_length _ _ _

/-- the parameter loop of `pLSCF_mpe`'s `find_min` branch appends one damping and one `Phi.d`-component shape per
    entry of `sel_freq1` and leaves the frequencies alone -/
theorem plscfPick_shape (aa : Mat NR) (col : Nat) :
    ∀ (us : List Rat) (acc acc' : MpeAcc), plscfPick aa Xi Phi col us acc = .ok acc' →
      acc'.fn = acc.fn ∧ acc'.xi.length = acc.xi.length + us.length ∧
      acc'.phi.length = acc.phi.length + us.length ∧ ∀ r ∈ acc'.phi, r ∈ acc.phi ∨ r.length = Phi.d := by
  intro us
  induction us with
  | nil =>
    intro acc acc' h
    simp only [plscfPick, pure, Except.pure, Except.ok.injEq] at h
    subst h
    exact ⟨rfl, rfl, rfl, fun r hr => Or.inl hr⟩
  | cons f rest ih =>
    intro acc acc' h
    unfold plscfPick at h
    cases hidx : nanargminAbs (fun r => aa.e r col) aa.r (some f) with
    | none => rw [hidx] at h; simp [throw, throwThe, MonadExceptOf.throw] at h
    | some r0 =>
      rw [hidx] at h
      obtain ⟨h1, h2, h3, h4⟩ := ih _ acc' h
      refine ⟨h1, ?_, ?_, ?_⟩
      · rw [h2]; simp only [List.length_append, List.length_cons, List.length_nil]; omega
      · rw [h3]; simp only [List.length_append, List.length_cons, List.length_nil]; omega
      · intro r hr
        rcases h4 r hr with hm | hl
        · simp only [List.mem_append, List.mem_singleton] at hm
          rcases hm with hm | rfl
          · exact Or.inl hm
          · exact Or.inr (ten3Row_length _ _ _)
        · exact Or.inr hl

end PV
