import PyomaVerif.Model.Hankel
import PyomaVerif.Model.Realise
import PyomaVerif.Lemmas.Realise
import PyomaVerif.Lemmas.Sum
import PyomaVerif.Lemmas.Fdd
import PyomaVerif.Lemmas.Plscf
import PyomaVerif.Lemmas.Efdd
import PyomaVerif.Props.C12
import PyomaVerif.Lemmas.RankOneSpec
import PyomaVerif.Props.C13
import Mathlib.Algebra.Order.Field.Basic
import Mathlib.Algebra.Order.Ring.Rat
import Mathlib.Algebra.Field.Rat
import Mathlib.Tactic.Ring
import Mathlib.Tactic.Linarith
import Mathlib.Tactic.FieldSimp
/-!
# Helpers for the pipeline-level covariance theorems of C08 (`Props/C08Pipe.lean`)

0. `Mat` extensionality; whole-`Mat` homogeneity of the Hankel builders and of the slicing helpers;
   `fastA`/`legacyA` do not see a common factor.
1. the recorded-factor contracts in the form C01 uses them (`SvdOf`, `SqrtOf`, `QrOf`, `PinvOf`)
   and their transport under a gain.
2. `Cpx K` as a commutative ring; the unity normalisation of `ac2mp` (`PV.normalise`, `shapesOf`)
   removes a common non-zero factor.
3. block-diagonal orthogonal mixing `(I⊗Q)` of the channels: Hankel builders, contracts, `fastA`,
   `legacyA`, output matrix; channel permutations as a special mixing.
4./5. the FDD pick under a gain and under a change of the time unit; `SD_est` under `dt ↦ dt/k`.
6. pLSCF: normal equations (`OrderCert` transport and uniqueness), `rmfd2ac`, `ac2mp_poly` under a
   gain and under a change of the time unit.
7./8. the recorded SVD of one spectral line (`SvdLineOf`): gain, orthogonal mixing, permutation;
   `Fdd.normalise` under a permutation.
9. `PV.normalise`/`shapesOf` under a permutation (unique largest component).
10. EFDD/FSDD (`sdofBell`, `postFft`) under a change of the time unit.
-/
set_option linter.unusedSectionVars false
namespace PV.Cov
open PV PV.Mat Matrix Finset

/-! ## 0. `Mat` extensionality and scaling of the slicing helpers -/
section mat
variable {K : Type}

theorem mat_ext {A B : Mat K} (hr : A.r = B.r) (hc : A.c = B.c) (he : ∀ i j, A.e i j = B.e i j) :
    A = B := by
  cases A; cases B
  simp only at hr hc he
  subst hr; subst hc
  congr
  funext i j; exact he i j

variable [Field K]

theorem hankMM_smul (Y Yref : Mat K) (p : Nat) (s g h : K) :
    hankMM (scale g Y) (scale h Yref) p s = scale (g * h) (hankMM Y Yref p s) :=
  mat_ext rfl rfl (fun i k => PV.C12.C12_mm_smul Y Yref p s g h i k)

theorem hankR_smul (Y Yref : Mat K) (p : Nat) (w : Nat → K) (g h : K) :
    hankR (scale g Y) (scale h Yref) p w = scale (g * h) (hankR Y Yref p w) :=
  mat_ext rfl rfl (fun i k => PV.C12.C12_R_smul Y Yref p w g h i k)

/-- the stacked past/future matrix of the data-driven method is homogeneous of degree one -/
theorem hankYs_smul (Y Yref : Mat K) (p : Nat) (s g : K) :
    hankYs (scale g Y) (scale g Yref) p s = scale g (hankYs Y Yref p s) := by
  refine mat_ext (by rfl) (by rfl) ?_
  intro i j
  have hp : ∀ a b, (hankYp Y.c (scale g Yref) p s).e a b = g * (hankYp Y.c Yref p s).e a b := by
    intro a b; simp only [hankYp, vstackN, scale, colSlice]; ring
  have hf : ∀ a b, (hankYf (scale g Y) p s).e a b = g * (hankYf Y p s).e a b := by
    intro a b; simp only [hankYf, vstackN, scale, colSlice]; ring
  show _ = g * _
  by_cases h : i < (hankYp Y.c Yref p s).r
  · have e1 : (hankYs (scale g Y) (scale g Yref) p s).e i j
        = (hankYp Y.c (scale g Yref) p s).e i j := if_pos h
    have e2 : (hankYs Y Yref p s).e i j = (hankYp Y.c Yref p s).e i j := if_pos h
    rw [e1, e2, hp]
  · have e1 : (hankYs (scale g Y) (scale g Yref) p s).e i j
        = (hankYf (scale g Y) p s).e (i - (hankYp Y.c Yref p s).r) j := if_neg h
    have e2 : (hankYs Y Yref p s).e i j = (hankYf Y p s).e (i - (hankYp Y.c Yref p s).r) j := if_neg h
    rw [e1, e2, hf]

omit [Field K] in
theorem hankDatOfR_smul [Mul K] (R : Mat K) (nref p : Nat) (g : K) :
    hankDatOfR (scale g R) nref p = scale g (hankDatOfR R nref p) := rfl

omit [Field K] in
theorem upPart_smul [Mul K] (O : Mat K) (l : Nat) (r : K) : upPart (scale r O) l = scale r (upPart O l) := rfl
omit [Field K] in
theorem dnPart_smul [Mul K] (O : Mat K) (l : Nat) (r : K) : dnPart (scale r O) l = scale r (dnPart O l) := rfl
omit [Field K] in
theorem outC_smul [Mul K] (O : Mat K) (l n : Nat) (r : K) : outC (scale r O) l n = scale r (outC O l n) := rfl

/-- `Obs = U[:, :n]·diag(sq)`: multiplying every recorded square root by `r` multiplies `Obs` by `r` -/
theorem obsOf_smul (U : Mat K) (sq : Nat → K) (n : Nat) (r : K) :
    obsOf U (fun j => r * sq j) n = scale r (obsOf U sq n) :=
  mat_ext rfl rfl (fun i j => by simp only [obsOf, scale]; ring)

theorem toMx_smul (m n : Nat) (c : K) (f : Nat → Nat → K) :
    toMx m n (fun i j => c * f i j) = c • toMx m n f := by
  ext i j; simp [toMx]

/-- entry form of "orthonormal columns" (for concrete instances) -/
theorem toMx_orth_of (M N : Nat) (f : Nat → Nat → K)
    (h : ∀ a, a < N → ∀ b, b < N → ∑ i ∈ range M, f i a * f i b = if a = b then 1 else 0) :
    (toMx M N f)ᵀ * toMx M N f = 1 := by
  ext a b
  simp only [toMx, Matrix.mul_apply, Matrix.transpose_apply, Matrix.one_apply]
  rw [← Finset.sum_range (fun i => f i a.1 * f i b.1), h a.1 a.2 b.1 b.2]
  simp [Fin.ext_iff]

/-- entry form of a matrix product (for concrete instances) -/
theorem toMx_mul_of (M N P : Nat) (f g h : Nat → Nat → K)
    (H : ∀ i, i < M → ∀ j, j < P → h i j = ∑ t ∈ range N, f i t * g t j) :
    toMx M P h = toMx M N f * toMx N P g := by
  ext i j
  simp only [toMx, Matrix.mul_apply]
  rw [← Finset.sum_range (fun t => f i.1 t * g t j.1)]
  exact H i.1 i.2 j.1 j.2

/-- the state matrix of `SSI_fast` does not see a common factor of `O↑`, `O↓`:
    `(r⁻¹·R⁻¹)·(Qᵀ·(r·O↓)) = R⁻¹·(Qᵀ·O↓)`, as an identity between the model's values -/
theorem fastA_smul (Rinv Q Om : Mat K) (n : Nat) (r : K) (hr : r ≠ 0) :
    fastA (scale r⁻¹ Rinv) Q (scale r Om) n = fastA Rinv Q Om n := by
  refine mat_ext (by rfl) (by rfl) ?_
  intro i j
  simp only [fastA, Mat.mul, leadBlock, Mat.transpose, scale, sumTo_eq]
  apply Finset.sum_congr rfl
  intro t _
  have : ∑ x ∈ range Q.r, Q.e x t * (r * Om.e x j) = r * ∑ x ∈ range Q.r, Q.e x t * Om.e x j := by
    rw [Finset.mul_sum]; apply Finset.sum_congr rfl; intro x _; ring
  rw [this]
  field_simp

/-- likewise the legacy routine: `(r⁻¹·pinv)·(r·O↓ₙ)` -/
theorem legacyA_smul (Pinv Obsn : Mat K) (l : Nat) (r : K) (hr : r ≠ 0) :
    legacyA (scale r⁻¹ Pinv) (scale r Obsn) l = legacyA Pinv Obsn l := by
  refine mat_ext (by rfl) (by rfl) ?_
  intro i j
  simp only [legacyA, Mat.mul, dnPart, rowSlice, scale, sumTo_eq]
  apply Finset.sum_congr rfl
  intro t _
  field_simp

end mat

/-! ## 1. recorded-factor contracts -/
section contracts
variable {K : Type} [Field K] [LinearOrder K] [IsStrictOrderedRing K]

/-- contract of `np.linalg.svd(H)` restricted to the `N` leading triples: `H = U·diag(S)·Vᵀ`,
    orthonormal columns, singular values non-negative and non-increasing. -/
structure SvdOf (H U V : Mat K) (S : Nat → K) (N : Nat) : Prop where
  dec : ∀ i j, i < H.r → j < H.c → H.e i j = ∑ t ∈ range N, U.e i t * S t * V.e j t
  orthU : (toMx H.r N U.e)ᵀ * toMx H.r N U.e = 1
  orthV : (toMx H.c N V.e)ᵀ * toMx H.c N V.e = 1
  nonneg : ∀ t, t < N → 0 ≤ S t
  ordered : ∀ t, t + 1 < N → S (t + 1) ≤ S t

/-- contract of `np.sqrt` on the singular values -/
def SqrtOf (sq S : Nat → K) (N : Nat) : Prop := ∀ t, t < N → 0 ≤ sq t ∧ sq t * sq t = S t

/-- **gain**: the same vectors with `c·S` are an admissible recorded SVD of `c·H` (`c ≥ 0`) -/
theorem SvdOf.smul {H U V : Mat K} {S : Nat → K} {N : Nat} (h : SvdOf H U V S N) (c : K)
    (hc : 0 ≤ c) : SvdOf (scale c H) U V (fun t => c * S t) N where
  dec := fun i j hi hj => by
    show c * H.e i j = _
    rw [h.dec i j hi hj, Finset.mul_sum]
    apply Finset.sum_congr rfl; intro t _; ring
  orthU := h.orthU
  orthV := h.orthV
  nonneg := fun t ht => mul_nonneg hc (h.nonneg t ht)
  ordered := fun t ht => mul_le_mul_of_nonneg_left (h.ordered t ht) hc

/-- **gain of either sign** (data-driven method: `H ↦ g·H`): `(U, c·S, ε·V)` is an admissible
    recorded SVD of `(ε·c)·H` for `c ≥ 0`, `ε = ±1` -/
theorem SvdOf.smul_sign {H U V : Mat K} {S : Nat → K} {N : Nat} (h : SvdOf H U V S N) (c ε : K)
    (hc : 0 ≤ c) (hε : ε * ε = 1) :
    SvdOf (scale (ε * c) H) U (scale ε V) (fun t => c * S t) N where
  dec := fun i j hi hj => by
    show ε * c * H.e i j = ∑ t ∈ range N, U.e i t * (c * S t) * (ε * V.e j t)
    rw [h.dec i j hi hj, Finset.mul_sum]
    apply Finset.sum_congr rfl; intro t _; ring
  orthU := h.orthU
  orthV := by
    show (toMx H.c N (fun i j => ε * V.e i j))ᵀ * toMx H.c N (fun i j => ε * V.e i j) = 1
    rw [toMx_smul, Matrix.transpose_smul, Matrix.smul_mul, Matrix.mul_smul, smul_smul, hε, one_smul]
    exact h.orthV
  nonneg := fun t ht => mul_nonneg hc (h.nonneg t ht)
  ordered := fun t ht => mul_le_mul_of_nonneg_left (h.ordered t ht) hc

theorem SqrtOf.smul {sq S : Nat → K} {N : Nat} (h : SqrtOf sq S N) (r c : K) (hr : 0 ≤ r)
    (hrc : r * r = c) : SqrtOf (fun t => r * sq t) (fun t => c * S t) N := fun t ht => by
  obtain ⟨h1, h2⟩ := h t ht
  refine ⟨mul_nonneg hr h1, ?_⟩
  show (r * sq t) * (r * sq t) = c * S t
  rw [← h2, ← hrc]; ring

/-- contract of `np.linalg.qr(O↑)` as C01 uses it, with the recorded inverse of the leading block -/
structure QrOf (Op Q R Rinv : Mat K) (M N n : Nat) : Prop where
  hRc : Rinv.c = n
  hQr : Q.r = M
  dec : toMx M N Op.e = toMx M N Q.e * toMx N N R.e
  orth : (toMx M N Q.e)ᵀ * toMx M N Q.e = 1
  tri : ∀ i j, j < i → R.e i j = 0
  inv : toMx n n Rinv.e * toMx n n R.e = 1

omit [LinearOrder K] [IsStrictOrderedRing K] in
/-- **gain**: `(Q, r·R, r⁻¹·R⁻¹)` are admissible recorded factors of `r·O↑` -/
theorem QrOf.smul {Op Q R Rinv : Mat K} {M N n : Nat} (h : QrOf Op Q R Rinv M N n) (r : K)
    (hr : r ≠ 0) : QrOf (scale r Op) Q (scale r R) (scale r⁻¹ Rinv) M N n where
  hRc := h.hRc
  hQr := h.hQr
  dec := by
    show toMx M N (fun i j => r * Op.e i j) = toMx M N Q.e * toMx N N (fun i j => r * R.e i j)
    rw [toMx_smul, toMx_smul, h.dec, Matrix.mul_smul]
  orth := h.orth
  tri := fun i j hij => by show r * R.e i j = 0; rw [h.tri i j hij, mul_zero]
  inv := by
    show toMx n n (fun i j => r⁻¹ * Rinv.e i j) * toMx n n (fun i j => r * R.e i j) = 1
    rw [toMx_smul, toMx_smul, Matrix.smul_mul, Matrix.mul_smul, smul_smul, inv_mul_cancel₀ hr,
      one_smul, h.inv]

/-- contract of `np.linalg.pinv(O↑ₙ)` as C01 uses it: a left inverse -/
structure PinvOf (Obsn Pinv : Mat K) (M n l : Nat) : Prop where
  hPc : Pinv.c = M
  inv : toMx n M Pinv.e * toMx M n (upPart Obsn l).e = 1

omit [LinearOrder K] [IsStrictOrderedRing K] in
theorem PinvOf.smul {Obsn Pinv : Mat K} {M n l : Nat} (h : PinvOf Obsn Pinv M n l) (r : K)
    (hr : r ≠ 0) : PinvOf (scale r Obsn) (scale r⁻¹ Pinv) M n l where
  hPc := h.hPc
  inv := by
    show toMx n M (fun i j => r⁻¹ * Pinv.e i j) * toMx M n (fun i j => r * (upPart Obsn l).e i j) = 1
    rw [toMx_smul, toMx_smul, Matrix.smul_mul, Matrix.mul_smul, smul_smul, inv_mul_cancel₀ hr,
      one_smul, h.inv]

end contracts

/-! ## 2. `Cpx K` (the complex pairs of `Model/Realise`) and the unity normalisation of `ac2mp` -/
namespace CpxL
variable {K : Type}

@[ext] theorem ext {a b : Cpx K} (h1 : a.re = b.re) (h2 : a.im = b.im) : a = b := by
  cases a; cases b; simp_all

section ring
variable [CommRing K]
scoped instance : One (Cpx K) := ⟨⟨1, 0⟩⟩
@[simp] theorem zero_re : (0 : Cpx K).re = 0 := rfl
@[simp] theorem zero_im : (0 : Cpx K).im = 0 := rfl
@[simp] theorem one_re : (1 : Cpx K).re = 1 := rfl
@[simp] theorem one_im : (1 : Cpx K).im = 0 := rfl
@[simp] theorem add_re (a b : Cpx K) : (a + b).re = a.re + b.re := rfl
@[simp] theorem add_im (a b : Cpx K) : (a + b).im = a.im + b.im := rfl
@[simp] theorem neg_re (a : Cpx K) : (-a).re = -a.re := rfl
@[simp] theorem neg_im (a : Cpx K) : (-a).im = -a.im := rfl
@[simp] theorem sub_re (a b : Cpx K) : (a - b).re = a.re - b.re := rfl
@[simp] theorem sub_im (a b : Cpx K) : (a - b).im = a.im - b.im := rfl
@[simp] theorem mul_re (a b : Cpx K) : (a * b).re = a.re * b.re - a.im * b.im := rfl
@[simp] theorem mul_im (a b : Cpx K) : (a * b).im = a.re * b.im + a.im * b.re := rfl

scoped instance instCommRing : CommRing (Cpx K) where
  add := (· + ·)
  zero := 0
  mul := (· * ·)
  one := 1
  neg := Neg.neg
  sub := (· - ·)
  sub_eq_add_neg a b := by ext <;> simp [sub_eq_add_neg]
  add_assoc a b c := by ext <;> simp [add_assoc]
  zero_add a := by ext <;> simp
  add_zero a := by ext <;> simp
  add_comm a b := by ext <;> simp [add_comm]
  neg_add_cancel a := by ext <;> simp
  mul_assoc a b c := by ext <;> simp <;> ring
  one_mul a := by ext <;> simp
  mul_one a := by ext <;> simp
  left_distrib a b c := by ext <;> simp <;> ring
  right_distrib a b c := by ext <;> simp <;> ring
  mul_comm a b := by ext <;> simp <;> ring
  zero_mul a := by ext <;> simp
  mul_zero a := by ext <;> simp
  nsmul := nsmulRec
  zsmul := zsmulRec

theorem normSq_mul (a b : Cpx K) : Cpx.normSq (a * b) = Cpx.normSq a * Cpx.normSq b := by
  simp only [Cpx.normSq, mul_re, mul_im]; ring
end ring

section field
variable [Field K]
@[simp] theorem div_re (a b : Cpx K) :
    (a / b).re = (a.re * b.re + a.im * b.im) / (b.re * b.re + b.im * b.im) := rfl
@[simp] theorem div_im (a b : Cpx K) :
    (a / b).im = (a.im * b.re - a.re * b.im) / (b.re * b.re + b.im * b.im) := rfl

/-- a common non-zero factor cancels in the model's complex division (also when the divisor is 0) -/
theorem mul_div_mul_left (w x p : Cpx K) (hw : Cpx.normSq w ≠ 0) : (w * x) / (w * p) = x / p := by
  have hd : (w * p).re * (w * p).re + (w * p).im * (w * p).im
      = Cpx.normSq w * (p.re * p.re + p.im * p.im) := by
    simp only [mul_re, mul_im, Cpx.normSq]; ring
  ext
  · have hn : (w * x).re * (w * p).re + (w * x).im * (w * p).im
        = Cpx.normSq w * (x.re * p.re + x.im * p.im) := by
      simp only [mul_re, mul_im, Cpx.normSq]; ring
    rw [div_re, div_re, hn, hd, _root_.mul_div_mul_left _ _ hw]
  · have hn : (w * x).im * (w * p).re - (w * x).re * (w * p).im
        = Cpx.normSq w * (x.im * p.re - x.re * p.im) := by
      simp only [mul_re, mul_im, Cpx.normSq]; ring
    rw [div_im, div_im, hn, hd, _root_.mul_div_mul_left _ _ hw]
end field
end CpxL

section normalise
open scoped CpxL

theorem normSq_pos_of_ne {w : Cpx Rat} (hw : w ≠ 0) : 0 < Cpx.normSq w := by
  have h0 : 0 ≤ Cpx.normSq w := by
    unfold Cpx.normSq; nlinarith [mul_self_nonneg w.re, mul_self_nonneg w.im]
  rcases lt_or_eq_of_le h0 with h | h
  · exact h
  · exfalso; apply hw
    unfold Cpx.normSq at h
    have h1 : w.re * w.re = 0 := by nlinarith [mul_self_nonneg w.re, mul_self_nonneg w.im]
    have h2 : w.im * w.im = 0 := by nlinarith [mul_self_nonneg w.re, mul_self_nonneg w.im]
    ext
    · simpa using mul_self_eq_zero.mp h1
    · simpa using mul_self_eq_zero.mp h2

theorem argmax_go_smul (w : Cpx Rat) (hw : 0 < Cpx.normSq w) :
    ∀ (l : List (Cpx Rat)) (i best : Nat) (bv : Rat),
      argmaxNormSq.go (l.map (w * ·)) i best (Cpx.normSq w * bv) = argmaxNormSq.go l i best bv := by
  intro l
  induction l with
  | nil => intro i best bv; rfl
  | cons x xs ih =>
    intro i best bv
    simp only [List.map_cons, argmaxNormSq.go, CpxL.normSq_mul]
    have : (Cpx.normSq w * Cpx.normSq x > Cpx.normSq w * bv) ↔ (Cpx.normSq x > bv) :=
      mul_lt_mul_iff_right₀ hw
    by_cases h : Cpx.normSq x > bv
    · rw [if_pos (this.mpr h), if_pos h]; exact ih _ _ _
    · rw [if_neg (fun h' => h (this.mp h')), if_neg h]; exact ih _ _ _

/-- `np.argmax(abs(w·v)) = np.argmax(abs(v))` for `w ≠ 0` -/
theorem argmaxNormSq_smul (w : Cpx Rat) (hw : w ≠ 0) (v : List (Cpx Rat)) :
    argmaxNormSq (v.map (w * ·)) = argmaxNormSq v := by
  cases v with
  | nil => rfl
  | cons x xs =>
    simp only [List.map_cons, argmaxNormSq, CpxL.normSq_mul]
    exact argmax_go_smul w (normSq_pos_of_ne hw) xs 1 0 _

/-- **the unity normalisation of `ac2mp` removes any common non-zero complex factor** -/
theorem normalise_smul (w : Cpx Rat) (hw : w ≠ 0) (v : List (Cpx Rat)) :
    normalise (v.map (w * ·)) = normalise v := by
  unfold normalise
  rw [argmaxNormSq_smul w hw v]
  have hp : (v.map (w * ·)).getD (argmaxNormSq v) 0 = w * v.getD (argmaxNormSq v) 0 := by
    simp only [List.getD_eq_getElem?_getD, List.getElem?_map]
    cases v[argmaxNormSq v]? with
    | none => simp
    | some y => simp
  rw [hp, List.map_map]
  apply List.map_congr_left
  intro x _
  exact CpxL.mul_div_mul_left w x _ (ne_of_gt (normSq_pos_of_ne hw))

/-- a real output matrix read as a complex one (`np.dot(C, r_eigvt)` with complex eigenvectors) -/
def cplx (C : Mat Rat) : Mat (Cpx Rat) := ⟨C.r, C.c, fun i j => ⟨C.e i j, 0⟩⟩

theorem cplx_smul (r : Rat) (C : Mat Rat) : cplx (scale r C) = scale (⟨r, 0⟩ : Cpx Rat) (cplx C) := by
  refine mat_ext (by rfl) (by rfl) ?_
  intro i j
  apply CpxL.ext <;> simp [cplx, scale]

/-- `shapesOf (w·C) V = shapesOf C V`: the normalised shapes of `ac2mp` do not see a common
    factor of the output matrix -/
theorem shapesOf_smul (C V : Mat (Cpx Rat)) (w : Cpx Rat) (hw : w ≠ 0) :
    shapesOf (scale w C) V = shapesOf C V := by
  unfold shapesOf
  apply List.map_congr_left
  intro k _
  conv_rhs => rw [← normalise_smul w hw, List.map_map]
  congr 1
  apply List.map_congr_left
  intro i _
  simp only [scale, Function.comp, sumTo_eq, Finset.mul_sum]
  apply Finset.sum_congr rfl
  intro t _; ring
end normalise

/-! ## 3. block-diagonal mixing `(I ⊗ Q)` of the channels inside every block row -/
section mix
variable {K : Type} [Field K]

/-- `(I ⊗ Q)·M`: every block of `l` consecutive rows of `M` is mixed by the `l × l` matrix `Q` -/
def blockMix (l : Nat) (Q : Nat → Nat → K) (M : Mat K) : Mat K :=
  ⟨M.r, M.c, fun i j => sumTo l (fun a => Q (i % l) a * M.e (i / l * l + a) j)⟩

/-- `M·(I ⊗ Q)ᵀ`: the same on the columns -/
def blockMixCols (l : Nat) (Q : Nat → Nat → K) (M : Mat K) : Mat K :=
  ⟨M.r, M.c, fun i k => sumTo l (fun b => Q (k % l) b * M.e i (k / l * l + b))⟩

/-- `QᵀQ = I` on the first `l` indices -/
def OrthoOn (l : Nat) (Q : Nat → Nat → K) : Prop :=
  ∀ a, a < l → ∀ b, b < l → ∑ c ∈ range l, Q c a * Q c b = if a = b then 1 else 0

theorem blk_idx {l a : Nat} (i : Nat) (ha : a < l) :
    (i / l * l + a) / l = i / l ∧ (i / l * l + a) % l = a :=
  ⟨blk_div (i / l) ha, blk_mod (i / l) ha⟩

theorem blk_lt {nb l i a : Nat} (hi : i < nb * l) (ha : a < l) : i / l * l + a < nb * l := by
  have hl : 0 < l := by omega
  have h1 : i / l < nb := (Nat.div_lt_iff_lt_mul hl).mpr hi
  calc i / l * l + a < i / l * l + l := by omega
    _ = (i / l + 1) * l := by rw [Nat.succ_mul]
    _ ≤ nb * l := Nat.mul_le_mul_right l h1

/-- a block-diagonal orthogonal mixing preserves every inner product of columns -/
theorem block_isometry (nb l : Nat) (Q : Nat → Nat → K) (hQ : OrthoOn l Q) (f g : Nat → K) :
    ∑ i ∈ range (nb * l), (∑ a ∈ range l, Q (i % l) a * f (i / l * l + a))
        * (∑ b ∈ range l, Q (i % l) b * g (i / l * l + b))
      = ∑ i ∈ range (nb * l), f i * g i := by
  rw [PV.Plscf.sum_blocks, PV.Plscf.sum_blocks]
  apply Finset.sum_congr rfl
  intro j _
  have e : ∀ c ∈ range l, (∑ a ∈ range l, Q ((j * l + c) % l) a * f ((j * l + c) / l * l + a))
        * (∑ b ∈ range l, Q ((j * l + c) % l) b * g ((j * l + c) / l * l + b))
      = ∑ a ∈ range l, ∑ b ∈ range l, (Q c a * Q c b) * (f (j * l + a) * g (j * l + b)) := by
    intro c hc
    rw [blk_div j (mem_range.mp hc), blk_mod j (mem_range.mp hc), Finset.sum_mul_sum]
    apply Finset.sum_congr rfl; intro a _
    apply Finset.sum_congr rfl; intro b _; ring
  rw [Finset.sum_congr rfl e, Finset.sum_comm]
  apply Finset.sum_congr rfl
  intro a ha
  rw [Finset.sum_comm]
  have : ∀ b ∈ range l, ∑ c ∈ range l, Q c a * Q c b * (f (j * l + a) * g (j * l + b))
      = (if a = b then 1 else 0) * (f (j * l + a) * g (j * l + b)) := by
    intro b hb
    rw [← Finset.sum_mul, hQ a (mem_range.mp ha) b (mem_range.mp hb)]
  rw [Finset.sum_congr rfl this, Finset.sum_eq_single a]
  · simp
  · intro b _ hne; rw [if_neg (Ne.symm hne), zero_mul]
  · intro h; exact absurd ha h

theorem obsOf_blockMix (l : Nat) (Q : Nat → Nat → K) (U : Mat K) (sq : Nat → K) (n : Nat) :
    obsOf (blockMix l Q U) sq n = blockMix l Q (obsOf U sq n) := by
  refine mat_ext (by rfl) (by rfl) ?_
  intro i j
  simp only [obsOf, blockMix, sumTo_eq, Finset.sum_mul]
  apply Finset.sum_congr rfl; intro a _; ring

theorem upPart_blockMix (l : Nat) (Q : Nat → Nat → K) (O : Mat K) (l' : Nat) :
    upPart (blockMix l Q O) l' = blockMix l Q (upPart O l') := by
  refine mat_ext (by rfl) (by rfl) ?_
  intro i j
  simp only [upPart, rowSlice, blockMix, Nat.zero_add]

/-- dropping the first block row commutes with the mixing (the block size is the channel count) -/
theorem dnPart_blockMix (l : Nat) (Q : Nat → Nat → K) (O : Mat K) :
    dnPart (blockMix l Q O) l = blockMix l Q (dnPart O l) := by
  refine mat_ext (by rfl) (by rfl) ?_
  intro i j
  simp only [dnPart, rowSlice, blockMix]
  rcases Nat.eq_zero_or_pos l with h0 | hl
  · subst h0; rfl
  · have h1 : (l + i) % l = i % l := by rw [Nat.add_comm, Nat.add_mod_right]
    have h2 : (l + i) / l * l = l + i / l * l := by
      rw [Nat.add_comm, Nat.add_div_right i hl, Nat.succ_mul, Nat.add_comm]
    rw [h1, h2]
    apply PV.Plscf.sumTo_congr
    intro a _
    rw [Nat.add_assoc]

/-- the output matrix (first block row) is mixed by `Q` itself: `C' = Q·C` -/
theorem outC_blockMix (l : Nat) (Q : Nat → Nat → K) (O : Mat K) (n i j : Nat) (hi : i < l) :
    (outC (blockMix l Q O) l n).e i j = sumTo l (fun a => Q i a * (outC O l n).e a j) := by
  simp only [outC, blockMix, Nat.mod_eq_of_lt hi, Nat.div_eq_of_lt hi, Nat.zero_mul, Nat.zero_add]

/-- **the state matrix of `SSI_fast` does not see the mixing**: with `Q_qr' = (I⊗Q)·Q_qr`,
    `O↓' = (I⊗Q)·O↓` (`Q_qr.r` a multiple of the block size), `Q_qr'ᵀ·O↓' = Q_qrᵀ·O↓` -/
theorem fastA_blockMix (nb l : Nat) (Q : Nat → Nat → K) (hQ : OrthoOn l Q) (Rinv Qq Om : Mat K)
    (n : Nat) (hr : Qq.r = nb * l) :
    fastA Rinv (blockMix l Q Qq) (blockMix l Q Om) n = fastA Rinv Qq Om n := by
  refine mat_ext (by rfl) (by rfl) ?_
  intro i j
  simp only [fastA, Mat.mul, leadBlock, Mat.transpose, blockMix, sumTo_eq, hr]
  apply Finset.sum_congr rfl
  intro t _
  rw [block_isometry nb l Q hQ (fun x => Qq.e x t) (fun x => Om.e x j)]

/-- orthonormal columns stay orthonormal under a block-diagonal orthogonal mixing of the rows -/
theorem orth_blockMix (M N nb l : Nat) (Q : Nat → Nat → K) (hQ : OrthoOn l Q) (U : Mat K)
    (hM : M = nb * l) (h : (toMx M N U.e)ᵀ * toMx M N U.e = 1) :
    (toMx M N (blockMix l Q U).e)ᵀ * toMx M N (blockMix l Q U).e = 1 := by
  ext a b
  have ho := congrFun (congrFun h a) b
  simp only [toMx, Matrix.mul_apply, Matrix.transpose_apply] at ho ⊢
  rw [← ho]
  simp only [Cov.blockMix, sumTo_eq]
  rw [← Finset.sum_range (fun i => (∑ x ∈ range l, Q (i % l) x * U.e (i / l * l + x) a.1)
      * (∑ x ∈ range l, Q (i % l) x * U.e (i / l * l + x) b.1)),
    ← Finset.sum_range (fun i => U.e i a.1 * U.e i b.1), hM]
  exact block_isometry nb l Q hQ (fun x => U.e x a.1) (fun x => U.e x b.1)

/-- the mixed recorded QR factors are admissible for the mixed `O↑` (same `R`, same `R⁻¹`) -/
theorem QrOf.blockMix [LinearOrder K] [IsStrictOrderedRing K] {Op Qq R Rinv : Mat K} {M N n : Nat}
    (h : QrOf Op Qq R Rinv M N n) (nb l : Nat) (Q : Nat → Nat → K) (hQ : OrthoOn l Q)
    (hM : M = nb * l) : QrOf (blockMix l Q Op) (blockMix l Q Qq) R Rinv M N n where
  hRc := h.hRc
  hQr := h.hQr
  dec := by
    ext i j
    have hd : ∀ x, x < M → ∀ y, y < N → Op.e x y = ∑ t : Fin N, Qq.e x t.1 * R.e t.1 y := by
      intro x hx y hy
      have := congrFun (congrFun h.dec ⟨x, hx⟩) ⟨y, hy⟩
      simpa [toMx, Matrix.mul_apply] using this
    simp only [toMx, Matrix.mul_apply, Cov.blockMix, sumTo_eq, Finset.sum_mul]
    rw [Finset.sum_comm]
    apply Finset.sum_congr rfl
    intro a ha
    have hlt : i.1 / l * l + a < M := by
      have h1 : i.1 < nb * l := lt_of_lt_of_eq i.2 hM
      exact lt_of_lt_of_eq (blk_lt h1 (mem_range.mp ha)) hM.symm
    rw [hd _ hlt j.1 j.2, Finset.mul_sum]
    apply Finset.sum_congr rfl; intro t _; ring
  orth := orth_blockMix M N nb l Q hQ Qq hM h.orth
  tri := h.tri
  inv := h.inv

theorem bilin_mix0 (l r T : Nat) (qa qb : Nat → K) (F G : Nat → Nat → K) :
    ∑ t ∈ range T, (∑ a ∈ range l, qa a * F a t) * (∑ b ∈ range r, qb b * G b t)
      = ∑ a ∈ range l, qa a * ∑ b ∈ range r, qb b * ∑ t ∈ range T, F a t * G b t := by
  have h1 : ∀ t ∈ range T, (∑ a ∈ range l, qa a * F a t) * (∑ b ∈ range r, qb b * G b t)
      = ∑ a ∈ range l, ∑ b ∈ range r, qa a * (qb b * (F a t * G b t)) := by
    intro t _
    rw [Finset.sum_mul_sum]
    apply Finset.sum_congr rfl; intro a _
    apply Finset.sum_congr rfl; intro b _; ring
  rw [Finset.sum_congr rfl h1, Finset.sum_comm]
  apply Finset.sum_congr rfl; intro a _
  rw [Finset.sum_comm, Finset.mul_sum]
  apply Finset.sum_congr rfl; intro b _
  rw [← Finset.mul_sum, ← Finset.mul_sum]

theorem bilin_mix (l r T : Nat) (qa qb : Nat → K) (F G : Nat → Nat → K) (s s' : K) :
    ∑ t ∈ range T, (s * ∑ a ∈ range l, qa a * F a t) * (s' * ∑ b ∈ range r, qb b * G b t)
      = ∑ a ∈ range l, qa a * ∑ b ∈ range r, qb b * ∑ t ∈ range T, s * F a t * (s' * G b t) := by
  rw [← bilin_mix0 l r T qa qb (fun a t => s * F a t) (fun b t => s' * G b t)]
  apply Finset.sum_congr rfl; intro t _
  rw [Finset.mul_sum, Finset.mul_sum]
  congr 1 <;> (apply Finset.sum_congr rfl; intro x _; ring)

theorem hankMM_mix (Y Yref Q Qr : Mat K) (p : Nat) (s : K)
    (hQc : Q.c = Y.r) (hQr : Q.r = Y.r) (hRc : Qr.c = Yref.r) (hRr : Qr.r = Yref.r) :
    hankMM (Mat.mul Q Y) (Mat.mul Qr Yref) p s
      = blockMix Y.r Q.e (blockMixCols Yref.r Qr.e (hankMM Y Yref p s)) := by
  refine mat_ext ?_ ?_ ?_
  · simp [hankMM, hankYf, hankYp, mulT, vstackN, Mat.mul, blockMix, blockMixCols, hQr]
  · simp [hankMM, hankYf, hankYp, mulT, vstackN, Mat.mul, blockMix, blockMixCols, hRr]
  intro i k
  simp only [hankMM, hankYf, hankYp, mulT, vstackN, scale, colSlice, Mat.mul, blockMix,
    blockMixCols, sumTo_eq, hQc, hQr, hRc, hRr]
  rw [bilin_mix]
  apply Finset.sum_congr rfl; intro a ha
  congr 1
  apply Finset.sum_congr rfl; intro b hb
  rw [(blk_idx i (mem_range.mp ha)).1, (blk_idx i (mem_range.mp ha)).2,
    (blk_idx k (mem_range.mp hb)).1, (blk_idx k (mem_range.mp hb)).2]

theorem hankR_mix (Y Yref Q Qr : Mat K) (p : Nat) (w : Nat → K)
    (hQc : Q.c = Y.r) (hQr : Q.r = Y.r) (hRc : Qr.c = Yref.r) (hRr : Qr.r = Yref.r) :
    hankR (Mat.mul Q Y) (Mat.mul Qr Yref) p w
      = blockMix Y.r Q.e (blockMixCols Yref.r Qr.e (hankR Y Yref p w)) := by
  refine mat_ext ?_ ?_ ?_
  · simp [hankR, vstackN, Mat.mul, blockMix, blockMixCols, hQr]
  · simp [hankR, vstackN, Mat.mul, blockMix, blockMixCols, hRr]
  intro i k
  simp only [hankR, corrR, mulT, vstackN, hstackN, scale, colSlice, Mat.mul, blockMix,
    blockMixCols, sumTo_eq, hQc, hQr, hRc, hRr]
  rw [bilin_mix0, Finset.mul_sum]
  apply Finset.sum_congr rfl; intro a ha
  rw [Finset.mul_sum, Finset.mul_sum, Finset.mul_sum]
  apply Finset.sum_congr rfl; intro b hb
  rw [(blk_idx i (mem_range.mp ha)).1, (blk_idx i (mem_range.mp ha)).2,
    (blk_idx k (mem_range.mp hb)).1, (blk_idx k (mem_range.mp hb)).2]
  ring

/-- the mixed recorded SVD factors are admissible for the mixed Hankel matrix (same singular values) -/
theorem SvdOf.mix [LinearOrder K] [IsStrictOrderedRing K] {H U V : Mat K} {S : Nat → K} {N : Nat}
    (h : SvdOf H U V S N) (nb l nb' r : Nat) (Q Qr : Nat → Nat → K) (hQ : OrthoOn l Q)
    (hQr : OrthoOn r Qr) (hr : H.r = nb * l) (hc : H.c = nb' * r) :
    SvdOf (blockMix l Q (blockMixCols r Qr H)) (blockMix l Q U) (blockMix r Qr V) S N where
  dec := by
    intro i j hi hj
    have hi' : i < nb * l := lt_of_lt_of_eq hi hr
    have hj' : j < nb' * r := lt_of_lt_of_eq hj hc
    simp only [Cov.blockMix, blockMixCols, sumTo_eq]
    have e : ∀ t ∈ range N, (∑ a ∈ range l, Q (i % l) a * U.e (i / l * l + a) t) * S t
          * (∑ b ∈ range r, Qr (j % r) b * V.e (j / r * r + b) t)
        = (∑ a ∈ range l, Q (i % l) a * (U.e (i / l * l + a) t * S t))
          * (∑ b ∈ range r, Qr (j % r) b * V.e (j / r * r + b) t) := by
      intro t _
      rw [Finset.sum_mul]
      congr 1
      apply Finset.sum_congr rfl; intro a _; ring
    rw [Finset.sum_congr rfl e,
      bilin_mix0 l r N _ _ (fun a t => U.e (i / l * l + a) t * S t) (fun b t => V.e (j / r * r + b) t)]
    apply Finset.sum_congr rfl; intro a ha
    congr 1
    apply Finset.sum_congr rfl; intro b hb
    congr 1
    exact h.dec _ _ (lt_of_lt_of_eq (blk_lt hi' (mem_range.mp ha)) hr.symm)
      (lt_of_lt_of_eq (blk_lt hj' (mem_range.mp hb)) hc.symm)
  orthU := orth_blockMix H.r N nb l Q hQ U hr h.orthU
  orthV := orth_blockMix H.c N nb' r Qr hQr V hc h.orthV
  nonneg := h.nonneg
  ordered := h.ordered

/-- the legacy routine: with `pinv' = pinv·(I⊗Q)ᵀ` and `Obsₙ' = (I⊗Q)·Obsₙ` the state matrix is the same -/
theorem legacyA_blockMix (nb l : Nat) (Q : Nat → Nat → K) (hQ : OrthoOn l Q) (Pinv Obsn : Mat K)
    (hc : Pinv.c = nb * l) :
    legacyA (blockMixCols l Q Pinv) (blockMix l Q Obsn) l = legacyA Pinv Obsn l := by
  refine mat_ext (by rfl) (by rfl) ?_
  intro i j
  rw [show legacyA (blockMixCols l Q Pinv) (blockMix l Q Obsn) l
      = Mat.mul (blockMixCols l Q Pinv) (blockMix l Q (dnPart Obsn l)) by
    unfold legacyA; rw [dnPart_blockMix]]
  simp only [legacyA, Mat.mul, blockMix, blockMixCols, sumTo_eq, hc]
  exact block_isometry nb l Q hQ (fun x => Pinv.e i x) (fun x => (dnPart Obsn l).e x j)

/-- … and `pinv·(I⊗Q)ᵀ` is an admissible recorded left inverse of `(I⊗Q)·O↑ₙ` -/
theorem PinvOf.blockMix [LinearOrder K] [IsStrictOrderedRing K] {Obsn Pinv : Mat K} {M n l' : Nat}
    (h : PinvOf Obsn Pinv M n l') (nb l : Nat) (Q : Nat → Nat → K) (hQ : OrthoOn l Q)
    (hM : M = nb * l) : PinvOf (blockMix l Q Obsn) (blockMixCols l Q Pinv) M n l' where
  hPc := h.hPc
  inv := by
    rw [← h.inv, upPart_blockMix]
    ext a b
    simp only [toMx, Matrix.mul_apply, Cov.blockMix, blockMixCols, sumTo_eq]
    rw [← Finset.sum_range (fun i => (∑ x ∈ range l, Q (i % l) x * Pinv.e a.1 (i / l * l + x))
        * (∑ x ∈ range l, Q (i % l) x * (upPart Obsn l').e (i / l * l + x) b.1)),
      ← Finset.sum_range (fun i => Pinv.e a.1 i * (upPart Obsn l').e i b.1), hM]
    exact block_isometry nb l Q hQ (fun x => Pinv.e a.1 x) (fun x => (upPart Obsn l').e x b.1)

/-! ### channel permutations as a special mixing -/

/-- the rows of `Y` in the order `σ 0, σ 1, …` (the permuted channel list) -/
def permRows (σ : Nat → Nat) (Y : Mat K) : Mat K := ⟨Y.r, Y.c, fun a t => Y.e (σ a) t⟩

/-- its matrix: `P[a, b] = 1` iff `b = σ a` -/
def permQ (σ : Nat → Nat) (a b : Nat) : K := if b = σ a then 1 else 0

/-- `σ` is a permutation of `0 … l-1` with inverse `τ` -/
structure PermOn (l : Nat) (σ τ : Nat → Nat) : Prop where
  lt : ∀ a, a < l → σ a < l
  lt' : ∀ a, a < l → τ a < l
  left : ∀ a, a < l → τ (σ a) = a
  right : ∀ a, a < l → σ (τ a) = a

theorem permQ_ortho {l : Nat} {σ τ : Nat → Nat} (h : PermOn l σ τ) : OrthoOn l (permQ (K := K) σ) := by
  intro a ha b hb
  simp only [permQ]
  by_cases hab : a = b
  · subst hab
    rw [if_pos rfl, Finset.sum_eq_single (τ a)]
    · rw [h.right a ha]; simp
    · intro c hc hne
      have : a ≠ σ c := fun e => hne (by rw [e, h.left c (mem_range.mp hc)])
      rw [if_neg this, zero_mul]
    · intro hn; exact absurd (mem_range.mpr (h.lt' a ha)) hn
  · rw [if_neg hab]
    apply Finset.sum_eq_zero
    intro c _
    by_cases h1 : a = σ c
    · have : b ≠ σ c := fun e => hab (h1.trans e.symm)
      rw [if_neg this, mul_zero]
    · rw [if_neg h1, zero_mul]

theorem sum_permQ (l : Nat) (σ : Nat → Nat) (a : Nat) (hσ : σ a < l) (f : Nat → K) :
    ∑ x ∈ range l, permQ σ a x * f x = f (σ a) := by
  rw [Finset.sum_eq_single (σ a)]
  · simp [permQ]
  · intro x _ hne; simp [permQ, hne]
  · intro hn; exact absurd (mem_range.mpr hσ) hn

/-- `(I ⊗ P_σ)·M` permutes the rows inside every block -/
theorem blockMix_perm (l : Nat) (σ : Nat → Nat) (hσ : ∀ a, a < l → σ a < l) (M : Mat K) (i j : Nat)
    (hl : 0 < l) :
    (blockMix l (permQ σ) M).e i j = M.e (i / l * l + σ (i % l)) j := by
  simp only [blockMix, sumTo_eq]
  exact sum_permQ l σ (i % l) (hσ _ (Nat.mod_lt _ hl)) (fun x => M.e (i / l * l + x) j)

theorem blockMixCols_perm (l : Nat) (σ : Nat → Nat) (hσ : ∀ a, a < l → σ a < l) (M : Mat K)
    (i j : Nat) (hl : 0 < l) :
    (blockMixCols l (permQ σ) M).e i j = M.e i (j / l * l + σ (j % l)) := by
  simp only [blockMixCols, sumTo_eq]
  exact sum_permQ l σ (j % l) (hσ _ (Nat.mod_lt _ hl)) (fun x => M.e i (j / l * l + x))

/-- permuted data give the same Hankel matrix as the data multiplied by the permutation matrix -/
theorem hankMM_permRows (Y Yref : Mat K) (p : Nat) (s : K) (σ τ : Nat → Nat)
    (hσ : ∀ a, a < Y.r → σ a < Y.r) (hτ : ∀ a, a < Yref.r → τ a < Yref.r)
    (hl : 0 < Y.r) (hr : 0 < Yref.r) :
    hankMM (permRows σ Y) (permRows τ Yref) p s
      = hankMM (Mat.mul ⟨Y.r, Y.r, permQ σ⟩ Y) (Mat.mul ⟨Yref.r, Yref.r, permQ τ⟩ Yref) p s := by
  refine mat_ext (by rfl) (by rfl) ?_
  intro i k
  simp only [hankMM, hankYf, hankYp, mulT, vstackN, scale, colSlice, Mat.mul, permRows, sumTo_eq]
  apply Finset.sum_congr rfl; intro t _
  rw [sum_permQ Y.r σ (i % Y.r) (hσ _ (Nat.mod_lt _ hl)) (fun x => Y.e x _),
    sum_permQ Yref.r τ (k % Yref.r) (hτ _ (Nat.mod_lt _ hr)) (fun x => Yref.e x _)]

theorem hankR_permRows (Y Yref : Mat K) (p : Nat) (w : Nat → K) (σ τ : Nat → Nat)
    (hσ : ∀ a, a < Y.r → σ a < Y.r) (hτ : ∀ a, a < Yref.r → τ a < Yref.r)
    (hl : 0 < Y.r) (hr : 0 < Yref.r) :
    hankR (permRows σ Y) (permRows τ Yref) p w
      = hankR (Mat.mul ⟨Y.r, Y.r, permQ σ⟩ Y) (Mat.mul ⟨Yref.r, Yref.r, permQ τ⟩ Yref) p w := by
  refine mat_ext (by rfl) (by rfl) ?_
  intro i k
  simp only [hankR, corrR, mulT, vstackN, hstackN, scale, colSlice, Mat.mul, permRows, sumTo_eq]
  congr 1
  apply Finset.sum_congr rfl; intro t _
  rw [sum_permQ Y.r σ (i % Y.r) (hσ _ (Nat.mod_lt _ hl)) (fun x => Y.e x _),
    sum_permQ Yref.r τ (k % Yref.r) (hτ _ (Nat.mod_lt _ hr)) (fun x => Yref.e x _)]

end mix

/-! ## 4. the FDD pick under a gain and under a change of the time unit -/
section fdd
open PV.Fdd
variable {K : Type} [Field K] [LinearOrder K] [IsStrictOrderedRing K]

theorem argminTo_scale {c : K} (hc : 0 < c) (n : Nat) (f : Nat → K) :
    argminTo n (fun i => c * f i) = argminTo n f := by
  induction n with
  | zero => rfl
  | succ n ih =>
    unfold argminTo
    rw [ih]
    have : (c * f n < c * f (argminTo n f)) ↔ (f n < f (argminTo n f)) := mul_lt_mul_iff_right₀ hc
    by_cases h : f n < f (argminTo n f)
    · rw [if_pos (this.mpr h), if_pos h]
    · rw [if_neg (fun h' => h (this.mp h')), if_neg h]

theorem ratioAt_smul (r : K) (hr : r ≠ 0) (s1 s2 : Nat → K) (lo : Nat) :
    ratioAt (fun k => r * s1 k) (fun k => r * s2 k) lo = ratioAt s1 s2 lo := by
  funext i; simp only [ratioAt]; exact mul_div_mul_left _ _ hr

/-- the line selection of `FDD_mpe` does not see a common factor of the two singular-value curves -/
theorem fddPick_smul (nch nref nf : Nat) (freq s1 s2 : Nat → K) (sel DF r : K) (hr : r ≠ 0) :
    fddPick nch nref nf freq (fun k => r * s1 k) (fun k => r * s2 k) sel DF
      = fddPick nch nref nf freq s1 s2 sel DF := by
  simp only [fddPick, pickIdx, ratioAt_smul r hr]

theorem fddOne_smul [DecidableEq K] (nch nref nf : Nat) (freq : Nat → K) (Sval : Nat → Nat → Nat → K)
    (Svec : Nat → Nat → Nat → Cx K) (DF sel r : K) (hr : r ≠ 0) :
    fddOne nch nref nf freq (fun i j k => r * Sval i j k) Svec DF sel
      = fddOne nch nref nf freq Sval Svec DF sel := by
  unfold fddOne
  rw [show (fun i j k => r * Sval i j k) 0 0 = fun k => r * Sval 0 0 k from rfl,
    show (fun i j k => r * Sval i j k) 1 1 = fun k => r * Sval 1 1 k from rfl,
    fddPick_smul nch nref nf freq (Sval 0 0) (Sval 1 1) sel DF r hr]

theorem fddMpe_smul [DecidableEq K] (nch nref nf : Nat) (freq : Nat → K) (Sval : Nat → Nat → Nat → K)
    (Svec : Nat → Nat → Nat → Cx K) (sel : List K) (DF r : K) (hr : r ≠ 0) :
    fddMpe nch nref nf freq (fun i j k => r * Sval i j k) Svec sel DF
      = fddMpe nch nref nf freq Sval Svec sel DF := by
  unfold fddMpe
  congr 1
  funext s
  exact fddOne_smul nch nref nf freq Sval Svec DF s r hr

theorem svalPlace_smul (r : K) (sq : Nat → Nat → K) :
    svalPlace (fun k i => r * sq k i) = fun i j k => r * svalPlace sq i j k := by
  funext i j k
  simp only [svalPlace]
  split_ifs <;> simp

/-! ### time unit -/

theorem band_scale (nf : Nat) (freq : Nat → K) (sel DF k : K) (hk : 0 < k) :
    bandLo nf (fun i => k * freq i) (k * sel) (k * DF) = bandLo nf freq sel DF ∧
    bandHi nf (fun i => k * freq i) (k * sel) (k * DF) = bandHi nf freq sel DF := by
  constructor
  · unfold bandLo
    rw [← argminTo_scale hk nf (fun i => absK (freq i - (sel - DF)))]
    congr 1; funext i
    rw [absK_eq_abs, absK_eq_abs, ← abs_of_pos hk, ← abs_mul, abs_of_pos hk]; congr 1; ring
  · unfold bandHi
    rw [← argminTo_scale hk nf (fun i => absK (freq i - (sel + DF)))]
    congr 1; funext i
    rw [absK_eq_abs, absK_eq_abs, ← abs_of_pos hk, ← abs_mul, abs_of_pos hk]; congr 1; ring

/-- declaring `k` times the sampling frequency multiplies grid, requested frequency and
    half-band by `k`: the same band, the same picked line -/
theorem fddPick_time (nch nref nf : Nat) (freq s1 s2 : Nat → K) (sel DF k : K) (hk : 0 < k) :
    fddPick nch nref nf (fun i => k * freq i) s1 s2 (k * sel) (k * DF)
      = fddPick nch nref nf freq s1 s2 sel DF := by
  simp only [fddPick, (band_scale nf freq sel DF k hk).1, (band_scale nf freq sel DF k hk).2]

/-- the record of one mode with the frequency multiplied by `k` -/
def scaleFn (k : K) (m : ModeOut K) : ModeOut K := ⟨m.pick, k * m.fn, m.phi⟩

theorem fddOne_time [DecidableEq K] (nch nref nf : Nat) (freq : Nat → K) (Sval : Nat → Nat → Nat → K)
    (Svec : Nat → Nat → Nat → Cx K) (DF sel k : K) (hk : 0 < k) :
    fddOne nch nref nf (fun i => k * freq i) Sval Svec (k * DF) (k * sel)
      = (fddOne nch nref nf freq Sval Svec DF sel).map (scaleFn k) := by
  unfold fddOne
  rw [fddPick_time nch nref nf freq (Sval 0 0) (Sval 1 1) sel DF k hk]
  cases fddPick nch nref nf freq (Sval 0 0) (Sval 1 1) sel DF with
  | error e => rfl
  | ok p => rfl

theorem mapM_map_except {α β ε : Type} (f f' : α → Except ε β) (g : β → β) (u : α → α)
    (h : ∀ a, f' (u a) = (f a).map g) :
    ∀ l : List α, (l.map u).mapM f' = (l.mapM f).map (List.map g) := by
  intro l
  induction l with
  | nil => rfl
  | cons a as ih =>
    simp only [List.map_cons, List.mapM_cons, h a, ih]
    cases f a with
    | error e => rfl
    | ok b =>
      cases as.mapM f with
      | error e => rfl
      | ok bs => rfl

theorem fddMpe_time [DecidableEq K] (nch nref nf : Nat) (freq : Nat → K) (Sval : Nat → Nat → Nat → K)
    (Svec : Nat → Nat → Nat → Cx K) (sel : List K) (DF k : K) (hk : 0 < k) :
    fddMpe nch nref nf (fun i => k * freq i) Sval Svec (sel.map (k * ·)) (k * DF)
      = (fddMpe nch nref nf freq Sval Svec sel DF).map (List.map (scaleFn k)) := by
  unfold fddMpe
  exact mapM_map_except _ _ (scaleFn k) (k * ·)
    (fun s => fddOne_time nch nref nf freq Sval Svec DF s k hk) sel

end fdd

/-! ## 5. the spectral estimators under a change of the time unit -/
section sdtime
variable {K : Type} [Field K]

theorem csdCoef_time (fs k : K) (w : Nat → K) (n np nov nfft q : Nat) :
    csdCoef (k * fs) w n np nov nfft q = k⁻¹ * csdCoef fs w n np nov nfft q := by
  unfold csdCoef
  rw [one_div, one_div, mul_assoc k, mul_inv k]
  ring

/-- `SD_est(…, dt/k, "per")`: the density is divided by `k`, the grid multiplied by `k` -/
theorem sdEstPer_time (Y Yref : Mat K) (dt k : K) (nxseg nov : Nat) (tw : Nat → CxS K) :
    (∀ i j q, (sdEstPer Y Yref (dt / k) nxseg nov tw).e i j q
      = CxS.smul k⁻¹ ((sdEstPer Y Yref dt nxseg nov tw).e i j q)) ∧
    (∀ q, (sdEstPer Y Yref (dt / k) nxseg nov tw).freq q = k * (sdEstPer Y Yref dt nxseg nov tw).freq q) ∧
    (sdEstPer Y Yref (dt / k) nxseg nov tw).nf = (sdEstPer Y Yref dt nxseg nov tw).nf := by
  have hfs : 1 / (dt / k) = k * (1 / dt) := by rw [one_div_div, div_eq_mul_one_div]
  refine ⟨?_, ?_, rfl⟩
  · intro i j q
    rw [PV.C13.sd_pairing_per_entry, PV.C13.sd_pairing_per_entry, welchCsd_val, welchCsd_val, hfs,
      csdCoef_time, CxS.smul_eq, CxS.ofReal_mul, mul_assoc]
  · intro q
    have h1 := (PV.C13.sd_grid_per Y Yref (dt / k) nxseg nov tw).2.2.2 q
    have h2 := (PV.C13.sd_grid_per Y Yref dt nxseg nov tw).2.2.2 q
    rw [h1, h2, hfs]; ring

/-- `SD_est(…, dt/k, "cor")`: the matrix does not depend on `dt`, the grid is multiplied by `k` -/
theorem sdEstCor_time (Y Yref : Mat K) (dt k : K) (nxseg : Nat) (tw tw2 : Nat → CxS K) (ew : Nat → K) :
    (∀ i j q, (sdEstCor Y Yref (dt / k) nxseg tw tw2 ew).e i j q
      = (sdEstCor Y Yref dt nxseg tw tw2 ew).e i j q) ∧
    (∀ q, (sdEstCor Y Yref (dt / k) nxseg tw tw2 ew).freq q
      = k * (sdEstCor Y Yref dt nxseg tw tw2 ew).freq q) ∧
    (sdEstCor Y Yref (dt / k) nxseg tw tw2 ew).nf = (sdEstCor Y Yref dt nxseg tw tw2 ew).nf := by
  have hfs : 1 / (dt / k) = k * (1 / dt) := by rw [one_div_div, div_eq_mul_one_div]
  refine ⟨fun i j q => rfl, ?_, rfl⟩
  intro q
  have h1 := (PV.C13.sd_grid_cor Y Yref (dt / k) nxseg tw tw2 ew).2.2.2 q
  have h2 := (PV.C13.sd_grid_cor Y Yref dt nxseg tw tw2 ew).2.2.2 q
  rw [h1, h2, hfs]; ring

end sdtime

/-! ## 6. pLSCF: normal equations, companion matrices and `ac2mp_poly` under a gain -/
section plscf
open PV.Plscf
variable {K : Type} [Field K]

/-- real multiple of a complex pair of the pLSCF model (`Sy ↦ c·Sy`) -/
def csm (c : K) (z : Plscf.Cx K) : Plscf.Cx K := ⟨c * z.re, c * z.im⟩

theorem Yo_smul (Nch : Nat) (Om : Nat → Plscf.Cx K) (Syo : Nat → Nat → Plscf.Cx K) (c : K) (f J : Nat) :
    Yo Nch Om (fun ch f => csm c (Syo ch f)) f J = csm c (Yo Nch Om Syo f J) := by
  simp only [Yo, csm, Cx.neg, Cx.mul]
  congr 1 <;> ring

theorem So_smul (Nch Nf : Nat) (Om : Nat → Plscf.Cx K) (Syo : Nat → Nat → Plscf.Cx K) (c : K) (i J : Nat) :
    So Nch Nf Om (fun ch f => csm c (Syo ch f)) i J = c * So Nch Nf Om Syo i J := by
  simp only [So, Yo_smul, sumTo_eq, Cx.reConjMul, Finset.mul_sum]
  apply Finset.sum_congr rfl; intro f _; simp only [csm]; ring

theorem To_smul (Nch Nf : Nat) (Om : Nat → Plscf.Cx K) (Syo : Nat → Nat → Plscf.Cx K) (c : K) (I J : Nat) :
    To Nch Nf Om (fun ch f => csm c (Syo ch f)) I J = c * c * To Nch Nf Om Syo I J := by
  simp only [To, Yo_smul, sumTo_eq, Cx.reConjMul, Finset.mul_sum]
  apply Finset.sum_congr rfl; intro f _; simp only [csm]; ring

theorem Mmat_smul (Nch Nref Nf n : Nat) (Om : Nat → Plscf.Cx K) (Sy : Nat → Nat → Nat → Plscf.Cx K)
    (X : Nat → Nat → Nat → K) (c : K) (I J : Nat) :
    Mmat Nch Nref Nf n Om (fun o ch f => csm c (Sy o ch f)) (fun o t J => c * X o t J) I J
      = c * c * Mmat Nch Nref Nf n Om Sy X I J := by
  simp only [Mmat, To_smul, So_smul, sumTo_eq, Finset.mul_sum]
  apply Finset.sum_congr rfl; intro o _
  rw [mul_sub, Finset.mul_sum]
  congr 1
  apply Finset.sum_congr rfl; intro t _; ring

/-- **certificate transport**: what a returned order certifies for `Sy`, it certifies — with `M`
    multiplied by `c²`, the same `alpha`, `beta` multiplied by `c`, the inner solves multiplied by
    `c` — for `c·Sy`. -/
theorem OrderCert.gain {Nch Nref Nf n : Nat} {hi : Bool} {Om : Nat → Plscf.Cx K}
    {Sy : Nat → Nat → Nat → Plscf.Cx K} {out : OrderOut K} {X : Nat → Nat → Nat → K} {Z : Nat → Nat → K}
    (h : OrderCert Nch Nref Nf n hi Om Sy out X Z) (c : K) :
    OrderCert Nch Nref Nf n hi Om (fun o ch f => csm c (Sy o ch f))
      ⟨fun I J => c * c * out.M I J, out.alpha, fun o t j => c * out.beta o t j⟩
      (fun o t J => c * X o t J) Z where
  hX := by
    intro o ho i hi' J hJ
    rw [So_smul, ← h.hX o ho i hi' J hJ, sumTo_eq, sumTo_eq, Finset.mul_sum]
    apply Finset.sum_congr rfl; intro t _; ring
  hM := by
    intro I hI J hJ
    show c * c * out.M I J = _
    rw [Mmat_smul, h.hM I hI J hJ]
  hZ := by
    have hz := h.hZ
    cases hi
    · simp only [Bool.false_eq_true, ↓reduceIte] at hz ⊢
      refine ⟨?_, hz.2⟩
      intro I hI c' hc'
      have := hz.1 I hI c' hc'
      rw [sumTo_eq] at this ⊢
      rw [← this, Finset.mul_sum]
      apply Finset.sum_congr rfl; intro J _; ring
    · simp only [↓reduceIte] at hz ⊢
      refine ⟨?_, hz.2⟩
      intro I hI c' hc'
      have := hz.1 I hI c' hc'
      rw [sumTo_eq] at this ⊢
      rw [← this, Finset.mul_sum]
      apply Finset.sum_congr rfl; intro J _; ring
  hbeta := by
    intro o ho i hi' c' hc'
    have := h.hbeta o ho i hi' c' hc'
    rw [sumTo_eq, sumTo_eq] at this ⊢
    show ∑ t ∈ range (n + 1), -Ro Nf Om i t * (c * out.beta o t c')
      = ∑ J ∈ range ((n + 1) * Nch), So Nch Nf Om (fun ch f => csm c (Sy o ch f)) i J * out.alpha J c'
    have e : ∀ J ∈ range ((n + 1) * Nch),
        So Nch Nf Om (fun ch f => csm c (Sy o ch f)) i J * out.alpha J c'
          = c * (So Nch Nf Om (Sy o) i J * out.alpha J c') := by
      intro J _; rw [So_smul]; ring
    rw [Finset.sum_congr rfl e, ← Finset.mul_sum, ← this, Finset.mul_sum]
    apply Finset.sum_congr rfl; intro t _; ring

/-- a square system with an injective matrix has at most one solution -/
theorem inj_unique (d : Nat) (G : Nat → Nat → K) (z z' : Nat → K)
    (h : ∀ I, I < d → ∑ J ∈ range d, G I J * z J = ∑ J ∈ range d, G I J * z' J)
    (hinj : ∀ y : Nat → K, (∀ I < d, ∑ J ∈ range d, G I J * y J = 0) → ∀ J < d, y J = 0) :
    ∀ J, J < d → z J = z' J := by
  have := hinj (fun J => z J - z' J) (by
    intro I hI
    have e : ∑ J ∈ range d, G I J * (z J - z' J)
        = ∑ J ∈ range d, G I J * z J - ∑ J ∈ range d, G I J * z' J := by
      rw [← Finset.sum_sub_distrib]; apply Finset.sum_congr rfl; intro J _; ring
    rw [e, h I hI, sub_self])
  intro J hJ
  exact sub_eq_zero.mp (this J hJ)

/-- **two runs of one order, `Sy` and `c·Sy`**: under C05's injectivity hypotheses (`Ro`, and the
    constrained block of `M`) the certificates force `M' = c²·M`, `alpha' = alpha`,
    `beta' = c·beta` on the index ranges of the arrays. -/
theorem cert_gain_unique {Nch Nref Nf n : Nat} {hi : Bool} {Om : Nat → Plscf.Cx K}
    {Sy : Nat → Nat → Nat → Plscf.Cx K} {out out' : OrderOut K} {X X' : Nat → Nat → Nat → K}
    {Z Z' : Nat → Nat → K} (c : K) (hc : c ≠ 0)
    (h : OrderCert Nch Nref Nf n hi Om Sy out X Z)
    (h' : OrderCert Nch Nref Nf n hi Om (fun o ch f => csm c (Sy o ch f)) out' X' Z')
    (hRinj : ∀ y : Nat → K,
      (∀ i < n + 1, ∑ t ∈ range (n + 1), Ro Nf Om i t * y t = 0) → ∀ t < n + 1, y t = 0)
    (hinj : ∀ y : Nat → K,
      (∀ I < n * Nch, ∑ J ∈ range (n * Nch),
        (if hi then out.M I J else out.M (Nch + I) (Nch + J)) * y J = 0) → ∀ J < n * Nch, y J = 0) :
    (∀ I, I < (n + 1) * Nch → ∀ J, J < (n + 1) * Nch → out'.M I J = c * c * out.M I J) ∧
    (∀ I, I < (n + 1) * Nch → ∀ c', c' < Nch → out'.alpha I c' = out.alpha I c') ∧
    (∀ o, o < Nref → ∀ t, t < n + 1 → ∀ c', c' < Nch → out'.beta o t c' = c * out.beta o t c') := by
  have hc2 : c * c ≠ 0 := mul_ne_zero hc hc
  -- 1. inner solves
  have hXX : ∀ o, o < Nref → ∀ J, J < (n + 1) * Nch → ∀ t, t < n + 1 → X' o t J = c * X o t J := by
    intro o ho J hJ
    apply inj_unique (n + 1) (Ro Nf Om) (fun t => X' o t J) (fun t => c * X o t J) _ hRinj
    intro i hi'
    have e1 := h'.hX o ho i hi' J hJ
    have e2 := h.hX o ho i hi' J hJ
    rw [sumTo_eq] at e1 e2
    rw [e1, So_smul, ← e2, Finset.mul_sum]
    apply Finset.sum_congr rfl; intro t _; ring
  -- 2. M
  have hMM : ∀ I, I < (n + 1) * Nch → ∀ J, J < (n + 1) * Nch → out'.M I J = c * c * out.M I J := by
    intro I hI J hJ
    rw [h'.hM I hI J hJ, h.hM I hI J hJ, ← Mmat_smul]
    unfold Mmat
    apply sumTo_congr; intro o ho
    congr 1
    apply sumTo_congr; intro t ht
    rw [hXX o ho J hJ t ht]
  have hd : (n + 1) * Nch = n * Nch + Nch := Nat.succ_mul n Nch
  -- 3./4. alpha
  have hAA : ∀ I, I < (n + 1) * Nch → ∀ c', c' < Nch → out'.alpha I c' = out.alpha I c' := by
    have hz := h.hZ
    have hz' := h'.hZ
    cases hi
    · simp only [Bool.false_eq_true, ↓reduceIte] at hz hz' hinj
      have hZZ : ∀ c', c' < Nch → ∀ J, J < n * Nch → Z' J c' = Z J c' := by
        intro c' hc'
        apply inj_unique (n * Nch) (fun I J => out.M (Nch + I) (Nch + J)) (fun J => Z' J c')
          (fun J => Z J c') _ hinj
        intro I hI
        have e1 := hz'.1 I hI c' hc'
        have e2 := hz.1 I hI c' hc'
        rw [sumTo_eq] at e1 e2
        have e3 : ∑ J ∈ range (n * Nch), -out'.M (Nch + I) (Nch + J) * Z' J c'
            = c * c * ∑ J ∈ range (n * Nch), -out.M (Nch + I) (Nch + J) * Z' J c' := by
          rw [Finset.mul_sum]; apply Finset.sum_congr rfl; intro J hJ
          rw [hMM (Nch + I) (by omega) (Nch + J) (by have := mem_range.mp hJ; omega)]; ring
        rw [e3, hMM (Nch + I) (by omega) c' (by omega), ← e2] at e1
        have e4 := mul_left_cancel₀ hc2 e1
        have : ∀ (z : Nat → K), ∑ J ∈ range (n * Nch), out.M (Nch + I) (Nch + J) * z J
            = - ∑ J ∈ range (n * Nch), -out.M (Nch + I) (Nch + J) * z J := by
          intro z; rw [← Finset.sum_neg_distrib]; apply Finset.sum_congr rfl; intro J _; ring
        rw [this, this, e4]
      intro I hI c' hc'
      rw [hz'.2, hz.2]
      unfold alphaLO
      by_cases hlt : I < Nch
      · rw [if_pos hlt, if_pos hlt]
      · rw [if_neg hlt, if_neg hlt]
        exact hZZ c' hc' (I - Nch) (by omega)
    · simp only [↓reduceIte] at hz hz' hinj
      have hZZ : ∀ c', c' < Nch → ∀ J, J < n * Nch → Z' J c' = Z J c' := by
        intro c' hc'
        apply inj_unique (n * Nch) (fun I J => out.M I J) (fun J => Z' J c')
          (fun J => Z J c') _ hinj
        intro I hI
        have e1 := hz'.1 I hI c' hc'
        have e2 := hz.1 I hI c' hc'
        rw [sumTo_eq] at e1 e2
        have e3 : ∑ J ∈ range (n * Nch), -out'.M I J * Z' J c'
            = c * c * ∑ J ∈ range (n * Nch), -out.M I J * Z' J c' := by
          rw [Finset.mul_sum]; apply Finset.sum_congr rfl; intro J hJ
          rw [hMM I (by omega) J (by have := mem_range.mp hJ; omega)]; ring
        rw [e3, hMM I (by omega) (n * Nch + c') (by omega), ← e2] at e1
        have e4 := mul_left_cancel₀ hc2 e1
        have : ∀ (z : Nat → K), ∑ J ∈ range (n * Nch), out.M I J * z J
            = - ∑ J ∈ range (n * Nch), -out.M I J * z J := by
          intro z; rw [← Finset.sum_neg_distrib]; apply Finset.sum_congr rfl; intro J _; ring
        rw [this, this, e4]
      intro I hI c' hc'
      rw [hz'.2, hz.2]
      unfold alphaHI
      by_cases hlt : I < n * Nch
      · rw [if_pos hlt, if_pos hlt]
        exact hZZ c' hc' I hlt
      · rw [if_neg hlt, if_neg hlt]
  refine ⟨hMM, hAA, ?_⟩
  -- 5. beta
  intro o ho t ht c' hc'
  refine inj_unique (n + 1) (Ro Nf Om) (fun t => out'.beta o t c') (fun t => c * out.beta o t c') ?_
    hRinj t ht
  intro i hi'
  have e1 := h'.hbeta o ho i hi' c' hc'
  have e2 := h.hbeta o ho i hi' c' hc'
  rw [sumTo_eq, sumTo_eq] at e1 e2
  have n1 : ∑ J ∈ range (n + 1), Ro Nf Om i J * out'.beta o J c'
      = - ∑ t ∈ range (n + 1), -Ro Nf Om i t * out'.beta o t c' := by
    rw [← Finset.sum_neg_distrib]; apply Finset.sum_congr rfl; intro J _; ring
  have n2 : ∑ J ∈ range (n + 1), Ro Nf Om i J * (c * out.beta o J c')
      = - (c * ∑ t ∈ range (n + 1), -Ro Nf Om i t * out.beta o t c') := by
    rw [Finset.mul_sum, ← Finset.sum_neg_distrib]; apply Finset.sum_congr rfl; intro J _; ring
  rw [n1, n2, e1, e2, Finset.mul_sum]
  congr 1
  apply Finset.sum_congr rfl; intro J hJ
  rw [So_smul, hAA J (mem_range.mp hJ) c' hc']; ring

end plscf

section plscf2
open PV.Plscf
variable {K : Type} [Field K] [DecidableEq K] [Inhabited K]

theorem gaussJordan_congr (n c : Nat) (A B A' B' : Nat → Nat → K)
    (hA : ∀ i, i < n → ∀ j, j < n → A i j = A' i j) (hB : ∀ i, i < n → ∀ j, j < c → B i j = B' i j) :
    gaussJordan n c A B = gaussJordan n c A' B' := by
  have h0 : (Array.ofFn (n := n) fun i => Array.ofFn (n := n + c) fun j =>
        if j.1 < n then A i.1 j.1 else B i.1 (j.1 - n))
      = (Array.ofFn (n := n) fun i => Array.ofFn (n := n + c) fun j =>
        if j.1 < n then A' i.1 j.1 else B' i.1 (j.1 - n)) := by
    congr 1; funext i; congr 1; funext j
    by_cases h : j.1 < n
    · rw [if_pos h, if_pos h, hA i.1 i.2 j.1 h]
    · rw [if_neg h, if_neg h, hB i.1 i.2 (j.1 - n) (by have := j.2; omega)]
  unfold gaussJordan
  rw [h0]

theorem checkSolve_congr (n c : Nat) (A B A' B' X : Nat → Nat → K)
    (hA : ∀ i, i < n → ∀ j, j < n → A i j = A' i j) (hB : ∀ i, i < n → ∀ j, j < c → B i j = B' i j) :
    checkSolve n c A B X = checkSolve n c A' B' X := by
  unfold checkSolve
  rw [Bool.eq_iff_iff]
  simp only [List.all_eq_true, List.mem_range, decide_eq_true_eq]
  constructor
  · intro h i hi j hj
    rw [← hB i hi j hj, ← h i hi j hj]
    apply sumTo_congr; intro t ht; rw [hA i hi t ht]
  · intro h i hi j hj
    rw [hB i hi j hj, ← h i hi j hj]
    apply sumTo_congr; intro t ht; rw [hA i hi t ht]

/-- `np.linalg.solve` as modelled reads only the entries inside the shapes -/
theorem solveChecked_congr (n c : Nat) (A B A' B' : Nat → Nat → K)
    (hA : ∀ i, i < n → ∀ j, j < n → A i j = A' i j) (hB : ∀ i, i < n → ∀ j, j < c → B i j = B' i j) :
    solveChecked n c A B = solveChecked n c A' B' := by
  unfold solveChecked
  rw [gaussJordan_congr n c A B A' B' hA hB]
  cases gaussJordan n c A' B' with
  | none => rfl
  | some rows => simp only [checkSolve_congr n c A B A' B' _ hA hB]

theorem solveAll_congr (m : Nat) (Al Al' : Nat → Nat → K) (rhs rhs' : Nat → Nat → Nat → K)
    (hA : ∀ i, i < m → ∀ j, j < m → Al i j = Al' i j)
    (hr : ∀ k i, i < m → ∀ j, j < m → rhs k i j = rhs' k i j) :
    ∀ cnt, solveAll m Al rhs cnt = solveAll m Al' rhs' cnt := by
  intro cnt
  induction cnt with
  | zero => rfl
  | succ k ih =>
    unfold solveAll
    rw [ih, solveChecked_congr m m Al (rhs k) Al' (rhs' k) hA (hr k)]

/-- `A_den = alpha.reshape((-1, Nch, Nch))` -/
def adOf (Nch n : Nat) (alpha : Nat → Nat → K) : Coefs K :=
  ⟨n + 1, Nch, Nch, fun k a b => alpha (k * Nch + a) b⟩
/-- `B_num = np.moveaxis(beta, 1, 0)` -/
def bnOf (Nch Nref n : Nat) (beta : Nat → Nat → Nat → K) : Coefs K :=
  ⟨n + 1, Nref, Nch, fun k o c => beta o k c⟩

/-- **`rmfd2ac` under `alpha' = alpha`, `beta' = c·beta`** (on the index ranges): the solves see the
    same input, the state matrix is the same matrix, the output matrix is multiplied by `c`. -/
theorem rmfd2ac_gain (Nch Nref n : Nat) (α α' : Nat → Nat → K) (β β' : Nat → Nat → Nat → K) (c : K)
    (hα : ∀ I, I < (n + 1) * Nch → ∀ c', c' < Nch → α' I c' = α I c')
    (hβ : ∀ o, o < Nref → ∀ t, t < n + 1 → ∀ c', c' < Nch → β' o t c' = c * β o t c')
    (A C : Mat K) (h : rmfd2ac (adOf Nch n α) (bnOf Nch Nref n β) = some (A, C)) :
    ∃ C', rmfd2ac (adOf Nch n α') (bnOf Nch Nref n β') = some (A, C') ∧ C'.r = C.r ∧ C'.c = C.c ∧
      ∀ i, i < Nref → ∀ j, j < (n + 1) * Nch → C'.e i j = c * C.e i j := by
  have hidx : ∀ k, k ≤ n → ∀ a, a < Nch → k * Nch + a < (n + 1) * Nch := by
    intro k hk a ha
    calc k * Nch + a < k * Nch + Nch := by omega
      _ = (k + 1) * Nch := (Nat.succ_mul k Nch).symm
      _ ≤ (n + 1) * Nch := Nat.mul_le_mul_right Nch (by omega)
  have hs : ∀ cnt, solveAll Nch ((adOf Nch n α').blk ((adOf Nch n α').len - 1))
        (fun i => (adOf Nch n α').blk ((adOf Nch n α').len - 2 - i)) cnt
      = solveAll Nch ((adOf Nch n α).blk ((adOf Nch n α).len - 1))
        (fun i => (adOf Nch n α).blk ((adOf Nch n α).len - 2 - i)) cnt := by
    apply solveAll_congr
    · intro i hi j hj
      exact hα _ (hidx _ (by simp [adOf]) i hi) j hj
    · intro k i hi j hj
      exact hα _ (hidx _ (by simp [adOf]; omega) i hi) j hj
  unfold rmfd2ac at h ⊢
  simp only [adOf, bnOf, Nat.min_self, Nat.add_sub_cancel] at h hs ⊢
  rw [hs]
  split at h
  · exact absurd h (by simp)
  · rename_i P hP
    injection h with h
    injection h with h1 h2
    refine ⟨companionC (n + 1) Nref Nch n (fun k o c => β' o k c) P, ?_, ?_, ?_, ?_⟩
    · rw [h1]
    · rw [← h2]; rfl
    · rw [← h2]; rfl
    · intro i hi j hj
      rw [← h2]
      have hm : 0 < Nch := by
        rcases Nat.eq_zero_or_pos Nch with h0 | h0
        · subst h0; simp at hj
        · exact h0
      have hjm : j % Nch < Nch := Nat.mod_lt _ hm
      simp only [companionC]
      by_cases hq : j / Nch < n
      · have hk1 : n + 1 - 2 - j / Nch < n + 1 := by
          have := Nat.sub_le (n + 1 - 2) (j / Nch); omega
        rw [if_pos hq, if_pos hq, hβ i hi _ hk1 _ hjm, mul_sub]
        congr 1
        rw [sumTo_eq, sumTo_eq, Finset.mul_sum]
        apply Finset.sum_congr rfl; intro t ht
        rw [hβ i hi _ (by omega) t (mem_range.mp ht)]; ring
      · rw [if_neg hq, if_neg hq, mul_zero]

end plscf2

section plscf3
open PV.Plscf
variable {K : Type} [Field K] [LinearOrder K] [IsStrictOrderedRing K]

theorem pnormSq_csm (c : K) (z : Plscf.Cx K) : Cx.normSq (csm c z) = c * c * Cx.normSq z := by
  simp only [Cx.normSq, csm]; ring

theorem argmaxAbs_go_csm (c : K) (hc : 0 < c * c) :
    ∀ (l : List (Plscf.Cx K)) (i best : Nat) (bv : K),
      argmaxAbs.go (l.map (csm c)) i best (c * c * bv) = argmaxAbs.go l i best bv := by
  intro l
  induction l with
  | nil => intro i best bv; rfl
  | cons x xs ih =>
    intro i best bv
    simp only [List.map_cons, argmaxAbs.go, pnormSq_csm]
    have : (c * c * bv < c * c * Cx.normSq x) ↔ (bv < Cx.normSq x) := mul_lt_mul_iff_right₀ hc
    by_cases h : bv < Cx.normSq x
    · rw [if_pos (this.mpr h), if_pos h]; exact ih _ _ _
    · rw [if_neg (fun h' => h (this.mp h')), if_neg h]; exact ih _ _ _

theorem argmaxAbs_csm (c : K) (hc : c ≠ 0) (v : List (Plscf.Cx K)) :
    argmaxAbs (v.map (csm c)) = argmaxAbs v := by
  cases v with
  | nil => rfl
  | cons x xs =>
    simp only [List.map_cons, argmaxAbs, pnormSq_csm]
    exact argmaxAbs_go_csm c (mul_self_pos.mpr hc) xs 1 0 _

theorem pdiv_csm (c : K) (hc : c ≠ 0) (x p : Plscf.Cx K) : Cx.div (csm c x) (csm c p) = Cx.div x p := by
  have hc2 : c * c ≠ 0 := mul_ne_zero hc hc
  have h1 : (csm c x).re * (csm c p).re + (csm c x).im * (csm c p).im
      = c * c * (x.re * p.re + x.im * p.im) := by simp only [csm]; ring
  have h2 : (csm c x).im * (csm c p).re - (csm c x).re * (csm c p).im
      = c * c * (x.im * p.re - x.re * p.im) := by simp only [csm]; ring
  simp only [Cx.div, pnormSq_csm, h1, h2, mul_div_mul_left _ _ hc2]

theorem phiRaw_gain (C C' : Mat K) (c : K) (hr : C'.r = C.r) (hcc : C'.c = C.c)
    (he : ∀ i, i < C.r → ∀ j, j < C.c → C'.e i j = c * C.e i j) (q : List (Plscf.Cx K)) :
    phiRaw C' q = (phiRaw C q).map (csm c) := by
  unfold phiRaw
  rw [List.map_map, hr, hcc]
  apply List.map_congr_left
  intro a ha
  have ha' := List.mem_range.mp ha
  simp only [Function.comp, csm, sumTo_eq, Finset.mul_sum]
  congr 1 <;> (apply Finset.sum_congr rfl; intro t ht; rw [he a ha' t (mem_range.mp ht)]; ring)

/-- the mode-shape cell of `ac2mp_poly` does not see a non-zero real factor of the output matrix -/
theorem phiCell_gain (C C' : Mat K) (c : K) (hc : c ≠ 0) (hr : C'.r = C.r) (hcc : C'.c = C.c)
    (he : ∀ i, i < C.r → ∀ j, j < C.c → C'.e i j = c * C.e i j)
    (lambd : Option (Plscf.Cx K)) (q : List (Plscf.Cx K)) :
    phiCell C' lambd q = phiCell C lambd q := by
  unfold phiCell
  by_cases hb : blanked lambd
  · rw [if_pos hb, if_pos hb]
  · rw [if_neg hb, if_neg hb]
    simp only [phiRaw_gain C C' c hr hcc he q, argmaxAbs_csm c hc]
    have hp : ((phiRaw C q).map (csm c)).getD (argmaxAbs (phiRaw C q)) ⟨0, 0⟩
        = csm c ((phiRaw C q).getD (argmaxAbs (phiRaw C q)) ⟨0, 0⟩) := by
      simp only [List.getD_eq_getElem?_getD, List.getElem?_map]
      cases (phiRaw C q)[argmaxAbs (phiRaw C q)]? with
      | none => simp [csm]
      | some y => simp
    rw [hp]
    set p := (phiRaw C q).getD (argmaxAbs (phiRaw C q)) ⟨0, 0⟩ with hpdef
    have hz : ((csm c p).re = 0 ∧ (csm c p).im = 0) ↔ (p.re = 0 ∧ p.im = 0) := by
      simp only [csm, mul_eq_zero, hc, false_or]
    by_cases h0 : p.re = 0 ∧ p.im = 0
    · rw [if_pos (hz.mpr h0), if_pos h0]
    · rw [if_neg (fun h => h0 (hz.mp h)), if_neg h0, List.map_map]
      congr 1
      apply List.map_congr_left
      intro x _
      exact pdiv_csm c hc x p

theorem ac2mpPoly_gain (sqrt : K → K) (twoPi invdt : K) (cor : Bool) (invTau : K) (C C' : Mat K)
    (c : K) (hc : c ≠ 0) (hr : C'.r = C.r) (hcc : C'.c = C.c)
    (he : ∀ i, i < C.r → ∀ j, j < C.c → C'.e i j = c * C.e i j) (eigs : List (EigIn K)) :
    ac2mpPoly sqrt twoPi invdt cor invTau C' eigs = ac2mpPoly sqrt twoPi invdt cor invTau C eigs := by
  unfold ac2mpPoly
  simp only [phiCell_gain C C' c hc hr hcc he]

/-! ### time unit -/

/-- contract of `np.sqrt`/`abs` on non-negative reals -/
def IsSqrt (sqrt : K → K) : Prop := ∀ x, 0 ≤ x → 0 ≤ sqrt x ∧ sqrt x * sqrt x = x

theorem sqrt_scale {sqrt : K → K} (hs : IsSqrt sqrt) (k x : K) (hk : 0 ≤ k) (hx : 0 ≤ x) :
    sqrt (k * k * x) = k * sqrt x := by
  obtain ⟨h1, h2⟩ := hs x hx
  obtain ⟨h3, h4⟩ := hs (k * k * x) (mul_nonneg (mul_self_nonneg k) hx)
  have h5 : 0 ≤ k * sqrt x := mul_nonneg hk h1
  have h6 : sqrt (k * k * x) * sqrt (k * k * x) = (k * sqrt x) * (k * sqrt x) := by
    rw [h4]
    calc k * k * x = k * k * (sqrt x * sqrt x) := by rw [h2]
      _ = (k * sqrt x) * (k * sqrt x) := by ring
  exact (mul_self_inj_of_nonneg h3 h5).mp h6

theorem pnormSq_nonneg (z : Plscf.Cx K) : 0 ≤ Cx.normSq z := by
  unfold Cx.normSq; nlinarith [mul_self_nonneg z.re, mul_self_nonneg z.im]

theorem lambdOf_time (invdt k : K) (e : EigIn K) :
    lambdOf (k * invdt) e = (lambdOf invdt e).map (csm k) := by
  unfold lambdOf
  split_ifs
  · rfl
  · simp only [Option.map_some, csm]; congr 2 <;> ring

theorem blanked_time (k : K) (hk : 0 < k) (l : Option (Plscf.Cx K)) :
    blanked (l.map (csm k)) = blanked l := by
  cases l with
  | none => rfl
  | some z =>
    simp only [Option.map_some, blanked, csm]
    rw [decide_eq_decide]
    exact mul_pos_iff_of_pos_left hk

theorem toContinuousBlank_time (cor : Bool) (invTau k : K) (hk : 0 < k) (l : Option (Plscf.Cx K)) :
    toContinuousBlank cor (k * invTau) (l.map (csm k)) = (toContinuousBlank cor invTau l).map (csm k) := by
  cases l with
  | none => rfl
  | some z =>
    have hb := blanked_time k hk (some z)
    simp only [Option.map_some] at hb
    simp only [Option.map_some, toContinuousBlank, hb]
    by_cases h : blanked (some z)
    · simp [h]
    · simp only [h, Bool.false_eq_true, ↓reduceIte, Option.map_some]
      cases cor
      · simp
      · simp only [↓reduceIte, csm]; congr 2; ring

theorem fnCell_time {sqrt : K → K} (hs : IsSqrt sqrt) (twoPi k : K) (hk : 0 < k)
    (l : Option (Plscf.Cx K)) :
    fnCell sqrt twoPi (l.map (csm k)) = (fnCell sqrt twoPi l).map (k * ·) := by
  cases l with
  | none => rfl
  | some z =>
    simp only [Option.map_some, fnCell, Plscf.fnOf, pnormSq_csm]
    rw [sqrt_scale hs k _ hk.le (pnormSq_nonneg z), mul_div_assoc]

theorem xiCell_time {sqrt : K → K} (hs : IsSqrt sqrt) (k : K) (hk : 0 < k) (l : Option (Plscf.Cx K)) :
    xiCell sqrt (l.map (csm k)) = xiCell sqrt l := by
  cases l with
  | none => rfl
  | some z =>
    simp only [Option.map_some, xiCell]
    have hz : ((csm k z).re = 0 ∧ (csm k z).im = 0) ↔ (z.re = 0 ∧ z.im = 0) := by
      simp only [csm, mul_eq_zero, hk.ne', false_or]
    by_cases h0 : z.re = 0 ∧ z.im = 0
    · rw [if_pos (hz.mpr h0), if_pos h0]
    · rw [if_neg (fun h => h0 (hz.mp h)), if_neg h0]
      simp only [Plscf.xiOf, pnormSq_csm]
      rw [sqrt_scale hs k _ hk.le (pnormSq_nonneg z)]
      simp only [csm]
      rw [mul_div_mul_left _ _ hk.ne']

/-- the column of one order with the time unit changed: `fn` and the poles multiplied by `k` -/
def scaleColumn (k : K) (col : Column K) : Column K :=
  { fn := col.fn.map (Option.map (k * ·)), xi := col.xi, phi := col.phi,
    lam := col.lam.map (Option.map (csm k)) }

/-- **`ac2mp_poly` under a change of the time unit** (`1/dt ↦ k/dt`, window shift
    `1/(τ·dt) ↦ k/(τ·dt)` — the code after the repair of F3): every finite pole is multiplied by
    `k`, the NaN pattern is unchanged, `fn ↦ k·fn`, `xi` and the shapes are unchanged. -/
theorem ac2mpPoly_time {sqrt : K → K} (hs : IsSqrt sqrt) (twoPi invdt : K) (cor : Bool) (invTau k : K)
    (hk : 0 < k) (C : Mat K) (eigs : List (EigIn K)) :
    ac2mpPoly sqrt twoPi (k * invdt) cor (k * invTau) C eigs
      = scaleColumn k (ac2mpPoly sqrt twoPi invdt cor invTau C eigs) := by
  unfold ac2mpPoly scaleColumn
  simp only [List.map_map]
  have hl : ∀ e : EigIn K, toContinuousBlank cor (k * invTau) (lambdOf (k * invdt) e)
      = (toContinuousBlank cor invTau (lambdOf invdt e)).map (csm k) := by
    intro e; rw [lambdOf_time, toContinuousBlank_time cor invTau k hk]
  congr 1
  · apply List.map_congr_left; intro e _
    simp only [Function.comp, hl, fnCell_time hs twoPi k hk]
  · apply List.map_congr_left; intro e _
    simp only [Function.comp, hl, xiCell_time hs k hk]
  · apply List.map_congr_left; intro e _
    unfold phiCell
    rw [lambdOf_time, blanked_time k hk]
  · apply List.map_congr_left; intro e _
    simp only [Function.comp, hl]

end plscf3

/-! ## 7. the recorded SVD of one spectral line -/
section fddsvd
open PV.Fdd
variable {K : Type} [Field K] [LinearOrder K] [IsStrictOrderedRing K]

/-- contract of `np.linalg.svd(Sy[:, :, k])` for one line (`n × n` complex matrix `G`):
    `G = U·diag(S)·Vᴴ`, orthonormal columns, `S` non-negative and non-increasing -/
structure SvdLineOf (n : Nat) (G U V : Nat → Nat → Fdd.Cx K) (S : Nat → K) : Prop where
  dec : ∀ i j, i < n → j < n → G i j = ∑ r ∈ range n, Cx.ofReal (S r) * U i r * Cx.conj (V j r)
  orthU : ∀ a b, a < n → b < n → ∑ i ∈ range n, Cx.conj (U i a) * U i b = if a = b then 1 else 0
  orthV : ∀ a b, a < n → b < n → ∑ i ∈ range n, Cx.conj (V i a) * V i b = if a = b then 1 else 0
  nonneg : ∀ t, t < n → 0 ≤ S t
  ordered : ∀ t, t + 1 < n → S (t + 1) ≤ S t

theorem fsmul_eq (c : K) (z : Fdd.Cx K) : Cx.smul c z = Cx.ofReal c * z := by
  ext <;> simp

/-- **gain**: the same vectors with `c·S` are an admissible recorded SVD of `c·G` (`c ≥ 0`) -/
theorem SvdLineOf.smul {n : Nat} {G U V : Nat → Nat → Fdd.Cx K} {S : Nat → K}
    (h : SvdLineOf n G U V S) (c : K) (hc : 0 ≤ c) :
    SvdLineOf n (fun i j => Cx.smul c (G i j)) U V (fun r => c * S r) where
  dec := fun i j hi hj => by
    show Cx.smul c (G i j) = _
    rw [fsmul_eq, h.dec i j hi hj, Finset.mul_sum]
    apply Finset.sum_congr rfl; intro r _
    rw [Cx.ofReal_mul]; ring
  orthU := h.orthU
  orthV := h.orthV
  nonneg := fun t ht => mul_nonneg hc (h.nonneg t ht)
  ordered := fun t ht => mul_le_mul_of_nonneg_left (h.ordered t ht) hc

end fddsvd

/-! ## 8. FDD family: orthogonal mixing and permutation of the channels -/
section fddmix
open PV.Fdd
variable {K : Type} [Field K] [LinearOrder K] [IsStrictOrderedRing K]

theorem fofReal_add (x y : K) : (Fdd.Cx.ofReal (x + y) : Fdd.Cx K) = Fdd.Cx.ofReal x + Fdd.Cx.ofReal y := by
  ext <;> simp
theorem fofReal_one : (Fdd.Cx.ofReal 1 : Fdd.Cx K) = 1 := by ext <;> simp
theorem fofReal_sum (n : Nat) (f : Nat → K) :
    (Fdd.Cx.ofReal (∑ i ∈ range n, f i) : Fdd.Cx K) = ∑ i ∈ range n, Fdd.Cx.ofReal (f i) := by
  induction n with
  | zero => simp [Fdd.Cx.ofReal_zero]
  | succ n ih => rw [Finset.sum_range_succ, Finset.sum_range_succ, fofReal_add, ih]
theorem fconj_add (a b : Fdd.Cx K) : Fdd.Cx.conj (a + b) = Fdd.Cx.conj a + Fdd.Cx.conj b := by
  ext
  · simp
  · simp; ring
theorem fconj_zero : Fdd.Cx.conj (0 : Fdd.Cx K) = 0 := by ext <;> simp
theorem fconj_sum (n : Nat) (f : Nat → Fdd.Cx K) :
    Fdd.Cx.conj (∑ i ∈ range n, f i) = ∑ i ∈ range n, Fdd.Cx.conj (f i) := by
  induction n with
  | zero => simp [fconj_zero]
  | succ n ih => rw [Finset.sum_range_succ, Finset.sum_range_succ, fconj_add, ih]

/-- `Q·U` for a real `n × n` matrix `Q` and complex columns -/
def cmix (n : Nat) (Q : Nat → Nat → K) (U : Nat → Nat → Fdd.Cx K) (i r : Nat) : Fdd.Cx K :=
  ∑ a ∈ range n, Fdd.Cx.ofReal (Q i a) * U a r

/-- `Q·G·Qᵀ` -/
def cconj (n : Nat) (Q : Nat → Nat → K) (G : Nat → Nat → Fdd.Cx K) (i j : Nat) : Fdd.Cx K :=
  ∑ μ ∈ range n, ∑ ν ∈ range n, Fdd.Cx.ofReal (Q i μ) * G μ ν * Fdd.Cx.ofReal (Q j ν)

theorem conj_cmix (n : Nat) (Q : Nat → Nat → K) (U : Nat → Nat → Fdd.Cx K) (i r : Nat) :
    Fdd.Cx.conj (cmix n Q U i r) = ∑ a ∈ range n, Fdd.Cx.ofReal (Q i a) * Fdd.Cx.conj (U a r) := by
  unfold cmix
  rw [fconj_sum]
  apply Finset.sum_congr rfl; intro a _
  rw [Fdd.Cx.conj_mul, Fdd.Cx.conj_ofReal]

theorem cx_isometry (n : Nat) (Q : Nat → Nat → K) (hQ : OrthoOn n Q) (f g : Nat → Fdd.Cx K) :
    ∑ i ∈ range n, (∑ a ∈ range n, Fdd.Cx.ofReal (Q i a) * f a) * (∑ b ∈ range n, Fdd.Cx.ofReal (Q i b) * g b)
      = ∑ a ∈ range n, f a * g a := by
  have e : ∀ i ∈ range n, (∑ a ∈ range n, Fdd.Cx.ofReal (Q i a) * f a) * (∑ b ∈ range n, Fdd.Cx.ofReal (Q i b) * g b)
      = ∑ a ∈ range n, ∑ b ∈ range n, Fdd.Cx.ofReal (Q i a * Q i b) * (f a * g b) := by
    intro i _
    rw [Finset.sum_mul_sum]
    apply Finset.sum_congr rfl; intro a _
    apply Finset.sum_congr rfl; intro b _
    rw [Fdd.Cx.ofReal_mul]; ring
  rw [Finset.sum_congr rfl e, Finset.sum_comm]
  apply Finset.sum_congr rfl; intro a ha
  rw [Finset.sum_comm]
  have : ∀ b ∈ range n, ∑ i ∈ range n, Fdd.Cx.ofReal (Q i a * Q i b) * (f a * g b)
      = (if a = b then 1 else 0) * (f a * g b) := by
    intro b hb
    rw [← Finset.sum_mul, ← fofReal_sum, hQ a (mem_range.mp ha) b (mem_range.mp hb)]
    split_ifs
    · rw [fofReal_one]
    · rw [Fdd.Cx.ofReal_zero]
  rw [Finset.sum_congr rfl this, Finset.sum_eq_single a]
  · simp
  · intro b _ hne; rw [if_neg (Ne.symm hne), zero_mul]
  · intro h; exact absurd ha h

/-- **mixing**: `(Q·U, S, Q·V)` is an admissible recorded SVD of `Q·G·Qᵀ` (`Q` real orthogonal) -/
theorem SvdLineOf.mix {n : Nat} {G U V : Nat → Nat → Fdd.Cx K} {S : Nat → K}
    (h : SvdLineOf n G U V S) (Q : Nat → Nat → K) (hQ : OrthoOn n Q) :
    SvdLineOf n (cconj n Q G) (cmix n Q U) (cmix n Q V) S where
  dec := by
    intro i j _ _
    unfold cconj
    have e : ∀ μ ∈ range n, ∀ ν ∈ range n, Fdd.Cx.ofReal (Q i μ) * G μ ν * Fdd.Cx.ofReal (Q j ν)
        = ∑ r ∈ range n, Fdd.Cx.ofReal (S r) * (Fdd.Cx.ofReal (Q i μ) * U μ r)
            * (Fdd.Cx.ofReal (Q j ν) * Fdd.Cx.conj (V ν r)) := by
      intro μ hμ ν hν
      rw [h.dec μ ν (mem_range.mp hμ) (mem_range.mp hν), Finset.mul_sum, Finset.sum_mul]
      apply Finset.sum_congr rfl; intro r _; ring
    rw [Finset.sum_congr rfl (fun μ hμ => Finset.sum_congr rfl (e μ hμ))]
    rw [Finset.sum_comm]
    have e2 : ∀ μ ∈ range n, ∑ ν ∈ range n, ∑ r ∈ range n,
          Fdd.Cx.ofReal (S r) * (Fdd.Cx.ofReal (Q i μ) * U μ r) * (Fdd.Cx.ofReal (Q j ν) * Fdd.Cx.conj (V ν r))
        = ∑ r ∈ range n, ∑ ν ∈ range n,
          Fdd.Cx.ofReal (S r) * (Fdd.Cx.ofReal (Q i μ) * U μ r) * (Fdd.Cx.ofReal (Q j ν) * Fdd.Cx.conj (V ν r)) :=
      fun μ _ => Finset.sum_comm
    rw [Finset.sum_comm, Finset.sum_congr rfl e2, Finset.sum_comm]
    apply Finset.sum_congr rfl; intro r _
    rw [conj_cmix]
    unfold cmix
    rw [mul_assoc, Finset.sum_mul_sum, Finset.mul_sum]
    apply Finset.sum_congr rfl; intro μ _
    rw [Finset.mul_sum]
    apply Finset.sum_congr rfl; intro ν _; ring
  orthU := by
    intro a b ha hb
    rw [← h.orthU a b ha hb]
    simp only [conj_cmix]
    unfold cmix
    exact cx_isometry n Q hQ (fun x => Fdd.Cx.conj (U x a)) (fun x => U x b)
  orthV := by
    intro a b ha hb
    rw [← h.orthV a b ha hb]
    simp only [conj_cmix]
    unfold cmix
    exact cx_isometry n Q hQ (fun x => Fdd.Cx.conj (V x a)) (fun x => V x b)
  nonneg := h.nonneg
  ordered := h.ordered

/-- the stored row `Svec[0, :, k] = conj(U_k[:, 0])` of the mixed factors is `Q` times the stored row -/
theorem svecPlace_cmix (n : Nat) (Q : Nat → Nat → K) (U : Nat → Nat → Nat → Fdd.Cx K) (c i k : Nat) :
    svecPlace (fun k => cmix n Q (U k)) c i k
      = ∑ a ∈ range n, Fdd.Cx.ofReal (Q i a) * svecPlace U c a k := by
  simp only [svecPlace, conj_cmix]

/-- the line selection and the frequency of one pass of `FDD_mpe` do not depend on the stored vectors -/
theorem fddOne_pick_indep [DecidableEq K] (nch nref nf : Nat) (freq : Nat → K) (Sval : Nat → Nat → Nat → K)
    (Svec Svec' : Nat → Nat → Nat → Fdd.Cx K) (DF sel : K) :
    (fddOne nch nref nf freq Sval Svec' DF sel).map (fun m => (m.pick, m.fn))
      = (fddOne nch nref nf freq Sval Svec DF sel).map (fun m => (m.pick, m.fn)) := by
  unfold fddOne
  cases fddPick nch nref nf freq (Sval 0 0) (Sval 1 1) sel DF with
  | error e => rfl
  | ok p => rfl

/-! ### permutation -/

theorem sum_perm {M : Type} [AddCommMonoid M] {n : Nat} {σ τ : Nat → Nat} (h : PermOn n σ τ) (f : Nat → M) :
    ∑ i ∈ range n, f (σ i) = ∑ i ∈ range n, f i := by
  apply Finset.sum_nbij' σ τ
  · intro i hi; exact mem_range.mpr (h.lt i (mem_range.mp hi))
  · intro i hi; exact mem_range.mpr (h.lt' i (mem_range.mp hi))
  · intro i hi; exact h.left i (mem_range.mp hi)
  · intro i hi; exact h.right i (mem_range.mp hi)
  · intro i _; rfl

/-- **permutation**: the factors with permuted rows are an admissible recorded SVD of the line with
    rows and columns permuted -/
theorem SvdLineOf.perm {n : Nat} {G U V : Nat → Nat → Fdd.Cx K} {S : Nat → K}
    (h : SvdLineOf n G U V S) {σ τ : Nat → Nat} (hσ : PermOn n σ τ) :
    SvdLineOf n (fun i j => G (σ i) (σ j)) (fun i r => U (σ i) r) (fun i r => V (σ i) r) S where
  dec := fun i j hi hj => h.dec (σ i) (σ j) (hσ.lt i hi) (hσ.lt j hj)
  orthU := fun a b ha hb => by
    rw [← h.orthU a b ha hb]
    exact sum_perm hσ (fun i => Fdd.Cx.conj (U i a) * U i b)
  orthV := fun a b ha hb => by
    rw [← h.orthV a b ha hb]
    exact sum_perm hσ (fun i => Fdd.Cx.conj (V i a) * V i b)
  nonneg := h.nonneg
  ordered := h.ordered

/-- `np.argmax` of a permuted array whose maximum is attained once: the position moves with it -/
theorem argmaxTo_perm {n : Nat} {σ τ : Nat → Nat} (hσ : PermOn n σ τ) (f : Nat → K) (m : Nat) (hm : m < n)
    (huniq : ∀ i, i < n → i ≠ m → f i < f m) :
    argmaxTo n (fun i => f (σ i)) = τ m := by
  have hn : 0 < n := by omega
  have hk := argmaxTo_lt hn (fun i => f (σ i))
  have hle := argmaxTo_le (fun i => f (σ i)) (τ m) (hσ.lt' m hm)
  simp only [hσ.right m hm] at hle
  by_contra hne
  have h1 : σ (argmaxTo n (fun i => f (σ i))) ≠ m := by
    intro e
    apply hne
    rw [← e, hσ.left _ hk]
  have := huniq _ (hσ.lt _ hk) h1
  exact absurd hle (not_le.mpr this)

/-- **the unit normalisation of `FDD_mpe` commutes with a permutation of the channels** when the
    component of largest magnitude is unique (ties are outside the property's domain) -/
theorem normalise_perm [DecidableEq K] {n : Nat} {σ τ : Nat → Nat} (hσ : PermOn n σ τ) (phi : Nat → Fdd.Cx K)
    (huniq : ∀ i, i < n → i ≠ argmaxTo n (fun i => (phi i).normSq) →
      (phi i).normSq < (phi (argmaxTo n (fun i => (phi i).normSq))).normSq) (hn : 0 < n) :
    Fdd.normalise n (fun i => phi (σ i)) = (Fdd.normalise n phi).map (fun v i => v (σ i)) := by
  have hm := argmaxTo_lt hn (fun i => (phi i).normSq)
  have hk := argmaxTo_perm hσ (fun i => (phi i).normSq) _ hm huniq
  unfold Fdd.normalise
  simp only [hk, hσ.right _ hm]
  split_ifs <;> rfl

end fddmix

section fddmix2
open PV.Fdd
variable {K : Type} [Field K] [LinearOrder K] [IsStrictOrderedRing K]

/-- the contract reads the line only inside its shape -/
theorem SvdLineOf.congr {n : Nat} {G G' U V : Nat → Nat → Fdd.Cx K} {S : Nat → K}
    (h : SvdLineOf n G U V S) (he : ∀ i, i < n → ∀ j, j < n → G' i j = G i j) :
    SvdLineOf n G' U V S :=
  ⟨fun i j hi hj => (he i hi j hj).trans (h.dec i j hi hj), h.orthU, h.orthV, h.nonneg, h.ordered⟩

theorem toCx_sum (n : Nat) (f : Nat → CxS K) : toCx (∑ i ∈ range n, f i) = ∑ i ∈ range n, toCx (f i) := by
  induction n with
  | zero => simp [toCx_zero]
  | succ n ih => rw [Finset.sum_range_succ, Finset.sum_range_succ, toCx_add, ih]

end fddmix2

/-! ## 9. the unity normalisation of `ac2mp` under a permutation of the channels -/
section normperm
open scoped CpxL

theorem argmax_go_spec (f : Nat → Rat) :
    ∀ (l : List (Cpx Rat)) (i best : Nat) (bv : Rat),
      (∀ j, (hj : j < l.length) → Cpx.normSq l[j] = f (i + j)) → f best = bv →
      (argmaxNormSq.go l i best bv = best ∨
        (i ≤ argmaxNormSq.go l i best bv ∧ argmaxNormSq.go l i best bv < i + l.length)) ∧
      bv ≤ f (argmaxNormSq.go l i best bv) ∧
      ∀ j, j < l.length → f (i + j) ≤ f (argmaxNormSq.go l i best bv) := by
  intro l
  induction l with
  | nil => intro i best bv _ hb; exact ⟨Or.inl rfl, by simp [argmaxNormSq.go, hb], fun j hj => by simp at hj⟩
  | cons x xs ih =>
    intro i best bv hl hb
    have hx : Cpx.normSq x = f i := by
      have h0 := hl 0 (by simp)
      rw [List.getElem_cons_zero, Nat.add_zero] at h0
      exact h0
    have hxs : ∀ j, (hj : j < xs.length) → Cpx.normSq xs[j] = f (i + 1 + j) := by
      intro j hj
      have := hl (j + 1) (by simp; omega)
      simpa [Nat.add_assoc, Nat.add_comm 1 j] using this
    simp only [argmaxNormSq.go]
    by_cases h : Cpx.normSq x > bv
    · rw [if_pos h]
      obtain ⟨h1, h2, h3⟩ := ih (i + 1) i (Cpx.normSq x) hxs hx.symm
      refine ⟨?_, ?_, ?_⟩
      · right
        rcases h1 with h1 | h1
        · rw [h1]; simp
        · simp only [List.length_cons]; omega
      · exact le_trans (le_of_lt h) h2
      · intro j hj
        rcases j with _ | j
        · rw [Nat.add_zero, ← hx]; exact h2
        · have := h3 j (by simpa using hj)
          rwa [Nat.add_assoc, Nat.add_comm 1 j] at this
    · rw [if_neg h]
      obtain ⟨h1, h2, h3⟩ := ih (i + 1) best bv hxs hb
      refine ⟨?_, h2, ?_⟩
      · rcases h1 with h1 | h1
        · left; exact h1
        · right; simp only [List.length_cons]; omega
      · intro j hj
        rcases j with _ | j
        · rw [Nat.add_zero, ← hx]; exact le_trans (not_lt.mp h) h2
        · have := h3 j (by simpa using hj)
          rwa [Nat.add_assoc, Nat.add_comm 1 j] at this

/-- `np.argmax(abs(v))` of a non-empty list: an index of the list at which `|·|²` is largest -/
theorem argmaxNormSq_spec (v : List (Cpx Rat)) (hv : 0 < v.length) :
    argmaxNormSq v < v.length ∧
      ∀ j, (hj : j < v.length) → Cpx.normSq v[j] ≤ Cpx.normSq (v.getD (argmaxNormSq v) 0) := by
  cases v with
  | nil => simp at hv
  | cons x xs =>
    have hspec := argmax_go_spec (fun j => Cpx.normSq ((x :: xs).getD j 0)) xs 1 0 (Cpx.normSq x)
      (by intro j hj; simp [Nat.add_comm 1 j, List.getD_eq_getElem?_getD, List.getElem?_eq_getElem hj])
      (by simp)
    simp only [argmaxNormSq]
    obtain ⟨h1, h2, h3⟩ := hspec
    refine ⟨?_, ?_⟩
    · rcases h1 with h1 | h1
      · rw [h1]; simp
      · simp only [List.length_cons]; omega
    · intro j hj
      rcases j with _ | j
      · simpa using h2
      · have := h3 j (by simpa using hj)
        simpa [Nat.add_comm 1 j, List.getD_eq_getElem?_getD, List.getElem?_eq_getElem (by simpa using hj : j < xs.length)] using this

/-- **the unity normalisation of `ac2mp` commutes with a permutation of the channels** when the
    component of largest magnitude is attained once -/
theorem normalise_perm_list {n : Nat} (hn : 0 < n) {σ τ : Nat → Nat} (hσ : PermOn n σ τ) (f : Nat → Cpx Rat)
    (huniq : ∀ i, i < n → i ≠ argmaxNormSq ((List.range n).map f) →
      Cpx.normSq (f i) < Cpx.normSq (f (argmaxNormSq ((List.range n).map f)))) :
    normalise ((List.range n).map (fun i => f (σ i)))
      = (List.range n).map (fun i => (normalise ((List.range n).map f)).getD (σ i) 0) := by
  have hget : ∀ (g : Nat → Cpx Rat) j, j < n → ((List.range n).map g).getD j 0 = g j := by
    intro g j hj
    simp [List.getD_eq_getElem?_getD, List.getElem?_map, List.getElem?_range hj]
  have hlen : ∀ (g : Nat → Cpx Rat), ((List.range n).map g).length = n := by intro g; simp
  set k := argmaxNormSq ((List.range n).map f) with hk
  obtain ⟨hkn, _⟩ := argmaxNormSq_spec ((List.range n).map f) (by rw [hlen]; exact hn)
  rw [hlen] at hkn
  obtain ⟨hk'n, hk'max⟩ := argmaxNormSq_spec ((List.range n).map (fun i => f (σ i))) (by rw [hlen]; exact hn)
  rw [hlen] at hk'n
  set k' := argmaxNormSq ((List.range n).map (fun i => f (σ i))) with hk'
  have hk'k : σ k' = k := by
    by_contra hne
    have h1 := huniq (σ k') (hσ.lt k' hk'n) hne
    have h2 := hk'max (τ k) (by rw [hlen]; exact hσ.lt' k hkn)
    rw [hget _ k' hk'n] at h2
    simp only [List.getElem_map, List.getElem_range, hσ.right k hkn] at h2
    exact absurd h2 (not_le.mpr h1)
  unfold normalise
  rw [← hk', ← hk, hget _ k' hk'n, hk'k, hget _ k hkn, List.map_map]
  apply List.map_congr_left
  intro i hi
  have hi' := List.mem_range.mp hi
  simp only [Function.comp]
  rw [List.getD_eq_getElem?_getD, List.getElem?_map, List.getElem?_map,
    List.getElem?_range (hσ.lt i hi')]
  rfl

/-- the shapes of `ac2mp` for an output matrix with permuted rows are the permuted shapes -/
theorem shapesOf_perm {l : Nat} (hl : 0 < l) {σ τ : Nat → Nat} (hσ : PermOn l σ τ) (C C' V : Mat (Cpx Rat))
    (hr : C.r = l) (hr' : C'.r = l) (hc : C'.c = C.c)
    (he : ∀ i, i < l → ∀ j, C'.e i j = C.e (σ i) j)
    (huniq : ∀ k, k < V.c → ∀ i, i < l →
      i ≠ argmaxNormSq ((List.range l).map fun i => sumTo C.c (fun t => C.e i t * V.e t k)) →
      Cpx.normSq (sumTo C.c (fun t => C.e i t * V.e t k))
        < Cpx.normSq (sumTo C.c (fun t => C.e
            (argmaxNormSq ((List.range l).map fun i => sumTo C.c (fun t => C.e i t * V.e t k))) t * V.e t k))) :
    shapesOf C' V
      = (shapesOf C V).map (fun w => (List.range l).map (fun i => w.getD (σ i) 0)) := by
  unfold shapesOf
  rw [List.map_map]
  apply List.map_congr_left
  intro k hk
  have hk' := List.mem_range.mp hk
  simp only [Function.comp, hr, hr', hc]
  rw [← normalise_perm_list hl hσ (fun i => sumTo C.c (fun t => C.e i t * V.e t k)) (huniq k hk')]
  congr 1
  apply List.map_congr_left
  intro i hi
  apply PV.Plscf.sumTo_congr
  intro t _
  rw [he i (List.mem_range.mp hi) t]

end normperm

/-! ## 10. EFDD/FSDD under a change of the time unit -/
section efddtime
open PV.Fdd PV.Efdd
variable {K : Type} [Field K] [LinearOrder K] [IsStrictOrderedRing K]

theorem bellFreq_time (nf : Nat) (dt k : K) :
    bellFreq nf (dt / k) = fun i => k * bellFreq nf dt i := by
  funext i
  simp only [bellFreq, div_eq_mul_inv, mul_inv, inv_inv]
  ring

/-- the SDOF bell of fixed arrays does not see the time unit: the routine's own grid, the
    requested frequency and the half-band are all multiplied by `k`, the band is the same -/
theorem sdofBell_time (m : Method) (nch cm nf : Nat) (dt k : K) (hk : 0 < k)
    (Sy : Nat → Nat → Nat → Fdd.Cx K) (Sval : Nat → Nat → Nat → K) (Svec : Nat → Nat → Nat → Fdd.Cx K)
    (phi : Nat → Fdd.Cx K) (sel DF MAClim : K) :
    sdofBell m nch cm nf (dt / k) Sy Sval Svec phi (k * sel) (k * DF) MAClim
      = sdofBell m nch cm nf dt Sy Sval Svec phi sel DF MAClim := by
  funext l
  simp only [sdofBell, bellFreq_time, (band_scale nf (bellFreq nf dt) sel DF k hk).1,
    (band_scale nf (bellFreq nf dt) sel DF k hk).2]

theorem timeAt_time (nf : Nat) (dt k : K) (i : Nat) : timeAt nf (dt / k) i = timeAt nf dt i / k := by
  simp only [timeAt, timeStep, div_eq_mul_inv]
  ring

theorem diffs2_div (k : K) (t : List K) : diffs2 (t.map (· / k)) = (diffs2 t).map (· / k) := by
  have ht : (t.map (· / k)).tail = t.tail.map (· / k) := by cases t <;> rfl
  simp only [diffs2]
  rw [ht, List.zipWith_map, List.map_zipWith]
  congr 1
  funext a b
  ring

theorem foldl_add_div (k : K) : ∀ (l : List K) (a : K),
    (l.map (· / k)).foldl (· + ·) (a / k) = (l.foldl (· + ·) a) / k := by
  intro l
  induction l with
  | nil => intro a; rfl
  | cons x xs ih =>
    intro a
    simp only [List.map_cons, List.foldl_cons]
    rw [← ih (a + x), add_div]

theorem meanL_div (k : K) (l : List K) : meanL (l.map (· / k)) = (meanL l).map (· / k) := by
  unfold meanL
  simp only [List.length_map]
  split_ifs
  · rfl
  · simp only [Option.map_some]
    congr 1
    have := foldl_add_div k l 0
    rw [zero_div] at this
    rw [this]
    ring

/-- the record of `postFft` with the time unit changed: periods divided by `k`, damped frequency
    multiplied by `k`; crossings, extrema, indices and decrement ratios unchanged -/
def scalePost (k : K) (P : Post K) : Post K :=
  { P with Td := P.Td.map (· / k), TdMean := P.TdMean.map (· / k), fd := P.fd.map (k * ·) }

theorem postFft_time (nf : Nat) (x : Nat → K) (dt k : K) (sppk npmax : Nat) :
    postFft nf x (dt / k) sppk npmax = (postFft nf x dt sppk npmax).map (scalePost k) := by
  unfold postFft
  simp only
  split
  · rfl
  · rfl
  · rename_i fitVals fitIdx h1 h2
    simp only [Except.map, scalePost]
    have ht : (fitIdx.map (timeAt nf (dt / k))) = (fitIdx.map (timeAt nf dt)).map (· / k) := by
      rw [List.map_map]; apply List.map_congr_left; intro i _; exact timeAt_time nf dt k i
    rw [ht, diffs2_div, meanL_div]
    congr 2
    cases meanL (diffs2 (fitIdx.map (timeAt nf dt))) with
    | none => rfl
    | some t =>
      simp only [Option.map_some]
      congr 1
      simp only [div_eq_mul_inv, mul_inv, inv_inv]; ring

end efddtime

end PV.Cov
