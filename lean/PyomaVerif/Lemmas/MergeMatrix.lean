import PyomaVerif.Lemmas.MergeResults
import Mathlib.Data.List.Perm.Basic
import Mathlib.Data.List.Nodup
import Mathlib.Algebra.Ring.Hom.Defs
/-!
Helper lemmas for the matrix-level model `Merge.mergeModeShapes` of `gen.merge_mode_shapes`:

* `np.delete` with pairwise distinct in-range positions removes exactly that many entries;
* the row count `M` the code pre-allocates equals the length of the merged column;
* the exception checks pass on well-formed layouts; the result is the matrix of the `mergedCol`
  columns (`mergeModeShapes_ok`);
* the unconjugated square sum of a vector with entries in (the image of) an ordered field
  vanishes only for the zero vector (`dot_self_ne_zero_of_real`).
-/
namespace PV.Merge

/-! ### `np.delete` removes `len(idx)` entries -/

theorem filter_range_perm (n : Nat) (idx : List Nat) (hnd : idx.Nodup) (hin : ∀ i ∈ idx, i < n) :
    ((List.range n).filter (fun i => idx.contains i)).Perm idx := by
  apply (List.perm_ext_iff_of_nodup (List.Nodup.filter _ List.nodup_range) hnd).mpr
  intro a
  simp only [List.mem_filter, List.mem_range, List.contains_iff_mem]
  exact ⟨fun h => h.2, fun h => ⟨hin a h, h⟩⟩

theorem delete_length {α : Type} (v : List α) (idx : List Nat) (hnd : idx.Nodup)
    (hin : ∀ i ∈ idx, i < v.length) : (delete v idx).length + idx.length = v.length := by
  unfold delete
  rw [List.length_map]
  have hsplit := List.length_eq_length_filter_add (l := v.zipIdx) (fun xi => idx.contains xi.2)
  have hcount : (v.zipIdx.filter (fun xi => idx.contains xi.2)).length = idx.length := by
    have h1 : (v.zipIdx.filter (fun xi => idx.contains xi.2)).length
        = ((v.zipIdx.map Prod.snd).filter (fun i => idx.contains i)).length := by
      rw [List.filter_map, List.length_map]; rfl
    rw [h1, List.zipIdx_map_snd, ← List.range_eq_range']
    exact (filter_range_perm v.length idx hnd hin).length_eq
  rw [List.length_zipIdx] at hsplit
  have : (v.zipIdx.filter (fun xi => !idx.contains xi.2)).length
      = (v.zipIdx.filter (fun x => !(fun xi : α × Nat => idx.contains xi.2) x)).length := rfl
  omega

/-! ### the row count `M` -/

theorem foldl_int_add (l : List Int) (a : Int) : l.foldl (· + ·) a = a + l.sum := by
  induction l generalizing a with
  | nil => simp
  | cons x xs ih => simp [ih, Int.add_assoc]

theorem totalRows_eq {α : Type} (nref : Nat) (pairs : List (List α × List Nat))
    (h : ∀ p ∈ pairs, p.2.Nodup ∧ (∀ i ∈ p.2, i < p.1.length) ∧ p.2.length = nref) :
    totalRows nref (pairs.map (fun p => p.1.length))
      = ((nref + (rovingConcat (pairs.map (·.1)) (pairs.map (·.2))).length : Nat) : Int) := by
  unfold totalRows
  rw [foldl_int_add, Int.zero_add]
  have : ((pairs.map (fun p => p.1.length)).map (fun (n : Nat) => (n : Int) - (nref : Int))).sum
      = (((rovingConcat (pairs.map (·.1)) (pairs.map (·.2))).length : Nat) : Int) := by
    induction pairs with
    | nil => simp [rovingConcat]
    | cons p ps ih =>
      obtain ⟨hnd, hin, hl⟩ := h p (by simp)
      have := delete_length p.1 p.2 hnd hin
      have ih' := ih (fun q hq => h q (by simp [hq]))
      simp only [List.map_cons, List.sum_cons, rovingConcat, List.zipWith_cons_cons,
        List.flatten_cons, List.length_append] at ih' ⊢
      rw [ih']
      omega
  rw [this]
  push_cast
  rfl

/-! ### the exception checks pass -/

theorem tailChecks_ok (nref : Nat) (pairs : List (Nat × List Nat))
    (h : ∀ p ∈ pairs, (∀ i ∈ p.2, i < p.1) ∧ p.2.length = nref) :
    tailChecks nref (pairs.map (·.1)) (pairs.map (·.2)) = .ok () := by
  induction pairs with
  | nil => rfl
  | cons p ps ih =>
    obtain ⟨hin, hl⟩ := h p (by simp)
    have hany : (p.2.any fun i => decide (p.1 ≤ i)) = false := by
      rw [List.any_eq_false]
      intro i hi
      have := hin i hi
      simp only [decide_eq_true_eq]; omega
    simp only [List.map_cons, tailChecks, hany, hl]
    simpa using ih (fun q hq => h q (by simp [hq]))

/-- `mergeModeShapes` on inputs that pass every check: the matrix (by rows) whose `k`-th column
    is `mergedCol` of the setups' `k`-th columns -/
theorem mergeModeShapes_ok {C : Type} [Zero C] [Add C] [Mul C] [Div C] [Inhabited C] (re : C → C)
    (p0 : List (List C)) (ps : List (List (List C))) (r0 : List Nat) (rs : List (List Nat))
    (nm m : Nat) (hw : width p0 = nm)
    (hrect : ∀ p ∈ p0 :: ps, ∀ row ∈ p, row.length = nm)
    (hM : totalRows r0.length ((p0 :: ps).map List.length) = (m : Int))
    (h0 : ∀ i ∈ r0, i < p0.length)
    (ht : tailChecks r0.length (ps.map List.length) rs = .ok ())
    (hcol : ∀ k, k < nm → (mergedCol re ((p0 :: ps).map (column · k)) (r0 :: rs)).length = m) :
    mergeModeShapes re (p0 :: ps) (r0 :: rs)
      = .ok ((List.range m).map fun r => (List.range nm).map fun k =>
          (mergedCol re ((p0 :: ps).map (column · k)) (r0 :: rs)).getD r default) := by
  have hany : ((p0 :: ps).any fun p => p.any fun row => row.length != nm) = false := by
    rw [List.any_eq_false]
    intro p hp
    rw [Bool.not_eq_true, List.any_eq_false]
    intro row hrow
    simp [hrect p hp row hrow]
  have h0any : (r0.any fun i => decide (p0.length ≤ i)) = false := by
    rw [List.any_eq_false]
    intro i hi
    have := h0 i hi
    simp only [decide_eq_true_eq]; omega
  unfold mergeModeShapes
  simp only [hw, hany, hM, h0any, ht]
  have hneg : ¬ ((m : Int) < 0) := by omega
  simp only [Bool.false_eq_true, if_false, hneg]
  rw [mapE_ok_of_forall _
    (fun k => mergedCol re ((p0 :: ps).map (column · k)) (r0 :: rs)) (List.range nm)]
  · simp only [Int.toNat_natCast, List.map_map]
    rfl
  · intro k hk
    have hk' := List.mem_range.mp hk
    have hc := hcol k hk'
    simp only [List.map_cons] at hc
    simp [hc]

/-- the matrix of columns `order.map (f k)` read by rows -/
theorem transpose_cols {β C : Type} [Inhabited C] (order : List β) (nm : Nat) (f : Nat → β → C) :
    ((List.range order.length).map fun r => (List.range nm).map fun k =>
        (order.map (f k)).getD r default)
      = order.map (fun b => (List.range nm).map fun k => f k b) := by
  apply List.ext_getElem
  · simp
  · intro i h1 h2
    have hi : i < order.length := by simpa using h2
    simp [List.getD, hi]

/-! ### real reference components: the square sum does not vanish -/

theorem dot_map_ringHom {K C : Type} [Field K] [Field C] (φ : K →+* C) (g : List K) :
    dot (g.map φ) (g.map φ) = φ (dot g g) := by
  rw [dot_eq_sum, dot_eq_sum]
  induction g with
  | nil => simp
  | cons x xs ih =>
    simp only [List.map_cons, List.zipWith_cons_cons, List.sum_cons, map_add, map_mul]
    rw [ih]

theorem sum_sq_nonneg {K : Type} [Field K] [LinearOrder K] [IsStrictOrderedRing K] (g : List K) :
    0 ≤ (List.zipWith (· * ·) g g).sum := by
  induction g with
  | nil => simp
  | cons x xs ih =>
    simp only [List.zipWith_cons_cons, List.sum_cons]
    exact add_nonneg (mul_self_nonneg x) ih

theorem dot_self_pos {K : Type} [Field K] [LinearOrder K] [IsStrictOrderedRing K] (g : List K)
    (h : ∃ x ∈ g, x ≠ 0) : 0 < dot g g := by
  rw [dot_eq_sum]
  induction g with
  | nil => simp at h
  | cons x xs ih =>
    simp only [List.zipWith_cons_cons, List.sum_cons]
    by_cases hx : x = 0
    · subst hx
      have : ∃ y ∈ xs, y ≠ 0 := by
        obtain ⟨y, hy, hy0⟩ := h
        rcases List.mem_cons.mp hy with rfl | hy'
        · exact absurd rfl hy0
        · exact ⟨y, hy', hy0⟩
      simpa using ih this
    · exact add_pos_of_pos_of_nonneg (mul_self_pos.mpr hx) (sum_sq_nonneg xs)

/-- a reference vector whose entries lie in the image of an ordered field (real-valued
    references inside a complex shape) and are not all zero has a non-zero unconjugated square sum -/
theorem dot_self_ne_zero_of_real {K C : Type} [Field K] [LinearOrder K] [IsStrictOrderedRing K]
    [Field C] (φ : K →+* C) (g : List K) (h : ∃ x ∈ g, x ≠ 0) :
    dot (g.map φ) (g.map φ) ≠ 0 := by
  rw [dot_map_ringHom]
  exact (map_ne_zero φ).mpr (ne_of_gt (dot_self_pos g h))

end PV.Merge
