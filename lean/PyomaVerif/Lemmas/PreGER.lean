import PyomaVerif.Model.PreGER
import PyomaVerif.Lemmas.Sum
import Mathlib.Tactic.Ring
import Mathlib.Tactic.FieldSimp
import Mathlib.Algebra.Field.Basic
import Mathlib.LinearAlgebra.Matrix.NonsingularInverse
/-!
# Lemmas about the model of `fdd.SD_PreGER`

* entry/shape lemmas for `vstack2`, `vstackFn` (blocks of any heights);
* the contracts assumed of the two parameters: the estimator (`SdShape`, `Pairwise`,
  `SdHomog`) and the inverse (`IsLeftInv`, `InvContract`);
* the algebra: `(A·W)·M = A` when `W·G = 1` and `M = G`; uniqueness of the inverse of a
  square block (through Mathlib's `Matrix`), hence `inv (s·G) = s⁻¹·inv G` on the block.
-/
namespace PV
open Finset

/-! ## stacking -/
namespace Mat
variable {K : Type}

theorem vstackFn_r (n : Nat) (blk : Nat → Mat K) :
    (vstackFn n blk).r = ∑ k ∈ range n, (blk k).r := by
  induction n with
  | zero => simp [vstackFn]
  | succ n ih => simp [vstackFn, vstack2, ih, Finset.sum_range_succ]

theorem vstackFn_c (n : Nat) (blk : Nat → Mat K) : (vstackFn n blk).c = (blk 0).c := by
  induction n with
  | zero => rfl
  | succ n ih => simp [vstackFn, vstack2, ih]

theorem off_le (h : Nat → Nat) {ii n : Nat} (hi : ii < n) :
    (∑ k ∈ range ii, h k) + h ii ≤ ∑ k ∈ range n, h k := by
  induction n with
  | zero => omega
  | succ n ih =>
    rw [Finset.sum_range_succ]
    rcases Nat.lt_succ_iff_lt_or_eq.mp hi with h' | h'
    · have := ih h'; omega
    · subst h'; omega

/-- row `a` of block `ii` sits at row `Σ_{k<ii} height k + a` of the stack -/
theorem vstackFn_e (blk : Nat → Mat K) : ∀ n ii a j, ii < n → a < (blk ii).r →
    (vstackFn n blk).e ((∑ k ∈ range ii, (blk k).r) + a) j = (blk ii).e a j := by
  intro n
  induction n with
  | zero => intro ii a j h; omega
  | succ n ih =>
    intro ii a j h ha
    simp only [vstackFn, vstack2]
    rcases Nat.lt_succ_iff_lt_or_eq.mp h with h' | h'
    · have := off_le (fun k => (blk k).r) h'
      rw [vstackFn_r, if_pos (by omega)]
      exact ih ii a j h' ha
    · subst h'
      rw [vstackFn_r, if_neg (by omega)]
      congr 1; omega

/-- every row of the stack is a row of exactly one block -/
theorem row_decomp (h : Nat → Nat) : ∀ n i, i < ∑ k ∈ range n, h k →
    ∃ ii a, ii < n ∧ a < h ii ∧ i = (∑ k ∈ range ii, h k) + a := by
  intro n
  induction n with
  | zero => intro i hi; simp at hi
  | succ n ih =>
    intro i hi
    rw [Finset.sum_range_succ] at hi
    by_cases hlt : i < ∑ k ∈ range n, h k
    · obtain ⟨ii, a, h1, h2, h3⟩ := ih i hlt
      exact ⟨ii, a, Nat.lt_succ_of_lt h1, h2, h3⟩
    · exact ⟨n, i - ∑ k ∈ range n, h k, Nat.lt_succ_self n, by omega, by omega⟩

theorem vstack2_scale [Mul K] (c : K) (a b : Mat K) :
    vstack2 (scale c a) (scale c b) = scale c (vstack2 a b) := by
  simp only [vstack2, scale]
  congr 1
  funext i j
  by_cases h : i < a.r <;> simp [h]

end Mat

/-! ## contracts of the parameters -/
section contracts
variable {T D F K : Type}

/-- shape contract of the estimator: rows of the first argument × rows of the second ×
    as many lines as frequencies -/
structure SdShape (sd : Estimator T D F K) : Prop where
  n0 : ∀ π A B, (sd π A B).S.n0 = A.r
  n1 : ∀ π A B, (sd π A B).S.n1 = B.r
  n2 : ∀ π A B, (sd π A B).S.n2 = (sd π A B).freq.length

/-- the estimator is *pairwise*: the grid depends on the parameters and the record
    lengths only, entry `(i, j)` only on channel `i` of the first and channel `j` of the
    second argument (C13's `sd_pairing`) -/
structure Pairwise (sd : Estimator T D F K) : Prop where
  grid : ∃ gf : SdArgs T → Nat → Nat → List F, ∀ π A B, (sd π A B).freq = gf π A.c B.c
  entry : ∃ g : SdArgs T → Nat → Nat → (Nat → D) → (Nat → D) → Nat → K,
    ∀ π A B i j f, (sd π A B).S.e i j f = g π A.c B.c (A.e i) (B.e j) f

/-- homogeneity (the part of bilinearity/sesquilinearity the gain statement needs):
    scaling the arguments by `c`, `d` scales every entry by `φ c * ψ d` and leaves shape
    and grid alone (for real records and `SD_est`, `φ = ψ =` the embedding) -/
structure SdHomog [Mul D] (sd : Estimator T D F K) [Mul K] (φ ψ : D → K) : Prop where
  freq : ∀ π A B c d, (sd π (Mat.scale c A) (Mat.scale d B)).freq = (sd π A B).freq
  n0 : ∀ π A B c d, (sd π (Mat.scale c A) (Mat.scale d B)).S.n0 = (sd π A B).S.n0
  n1 : ∀ π A B c d, (sd π (Mat.scale c A) (Mat.scale d B)).S.n1 = (sd π A B).S.n1
  n2 : ∀ π A B c d, (sd π (Mat.scale c A) (Mat.scale d B)).S.n2 = (sd π A B).S.n2
  entry : ∀ π A B c d i j f,
    (sd π (Mat.scale c A) (Mat.scale d B)).S.e i j f = φ c * ψ d * (sd π A B).S.e i j f

/-- `W·G = 1` on the `G.c × G.c` block (`W` is `G.c × G.r`) -/
def IsLeftInv [Zero K] [One K] [Add K] [Mul K] (W G : Mat K) : Prop :=
  W.r = G.c ∧ W.c = G.r ∧
    ∀ i j, i < G.c → j < G.c → (Mat.mul W G).e i j = if i = j then 1 else 0

/-- contract of `np.linalg.inv`: on a square matrix that has an inverse it returns one -/
def InvContract [Zero K] [One K] [Add K] [Mul K] (inv : Mat K → Mat K) : Prop :=
  ∀ G, G.r = G.c → (∃ W, IsLeftInv W G) → IsLeftInv (inv G) G

end contracts

/-! ## algebra -/
section algebra
variable {K : Type} [Field K]

/-- `(A·W)·M = A` on the columns of `G` when `W·G = 1` and `M` agrees with `G` -/
theorem mul_inv_mul_cancel {A W G M : Mat K} (hW : IsLeftInv W G) (hAc : A.c = G.c)
    (hM : ∀ s j, s < G.r → j < G.c → M.e s j = G.e s j) (a j : Nat) (hj : j < G.c) :
    (Mat.mul (Mat.mul A W) M).e a j = A.e a j := by
  obtain ⟨hr, hc, hI⟩ := hW
  simp only [Mat.mul, sumTo_eq, hc, hAc]
  have h1 : ∀ s ∈ range G.r, (∑ t ∈ range G.c, A.e a t * W.e t s) * M.e s j
      = ∑ t ∈ range G.c, A.e a t * (W.e t s * G.e s j) := by
    intro s hs
    rw [hM s j (mem_range.mp hs) hj, Finset.sum_mul]
    exact Finset.sum_congr rfl (fun t _ => by ring)
  rw [Finset.sum_congr rfl h1, Finset.sum_comm]
  have h2 : ∀ t ∈ range G.c, ∑ s ∈ range G.r, A.e a t * (W.e t s * G.e s j)
      = A.e a t * (if t = j then 1 else 0) := by
    intro t ht
    rw [← Finset.mul_sum]
    have := hI t j (mem_range.mp ht) hj
    simp only [Mat.mul, sumTo_eq, hc] at this
    rw [this]
  rw [Finset.sum_congr rfl h2]
  simp [Finset.sum_ite_eq', hj]

/-- the `n × n` corner of a `Mat` as a Mathlib matrix -/
def toMatrix (n m : Nat) (A : Mat K) : Matrix (Fin n) (Fin m) K := fun i j => A.e i j

theorem toMatrix_mul (n m p : Nat) (A B : Mat K) (h : A.c = m) :
    toMatrix n p (Mat.mul A B) = toMatrix n m A * toMatrix m p B := by
  ext i j
  simp only [toMatrix, Mat.mul, sumTo_eq, Matrix.mul_apply, h]
  rw [Finset.sum_range]

theorem isLeftInv_matrix {W G : Mat K} {n : Nat} (hr : G.r = n) (hc : G.c = n)
    (h : IsLeftInv W G) : toMatrix n n W * toMatrix n n G = 1 := by
  obtain ⟨_, hWc, hI⟩ := h
  rw [← toMatrix_mul n n n W G (by rw [hWc, hr])]
  ext i j
  have := hI i j (by rw [hc]; exact i.2) (by rw [hc]; exact j.2)
  simp only [toMatrix, this, Matrix.one_apply, Fin.ext_iff]

/-- **uniqueness of the inverse of a square block**: two left inverses agree on the block -/
theorem leftInv_unique {W W' G : Mat K} (hsq : G.r = G.c) (h : IsLeftInv W G)
    (h' : IsLeftInv W' G) (i j : Nat) (hi : i < G.c) (hj : j < G.c) : W.e i j = W'.e i j := by
  have e1 := isLeftInv_matrix hsq rfl h
  have e2 := isLeftInv_matrix hsq rfl h'
  have e3 : toMatrix G.c G.c G * toMatrix G.c G.c W = 1 := mul_eq_one_comm.mp e1
  have : toMatrix G.c G.c W' = toMatrix G.c G.c W := by
    calc toMatrix G.c G.c W' = toMatrix G.c G.c W' * (toMatrix G.c G.c G * toMatrix G.c G.c W) := by
          rw [e3, Matrix.mul_one]
      _ = toMatrix G.c G.c W := by rw [← Matrix.mul_assoc, e2, Matrix.one_mul]
  have := congrFun (congrFun this ⟨i, hi⟩) ⟨j, hj⟩
  simpa [toMatrix] using this.symm

/-- a left inverse of `s·G` is `s⁻¹` times a left inverse of `G` -/
theorem isLeftInv_scale {W G : Mat K} {s : K} (hs : s ≠ 0) (h : IsLeftInv W G) :
    IsLeftInv (Mat.scale s⁻¹ W) (Mat.scale s G) := by
  obtain ⟨hr, hc, hI⟩ := h
  refine ⟨hr, hc, ?_⟩
  intro i j hi hj
  have := hI i j hi hj
  simp only [Mat.mul, Mat.scale, sumTo_eq] at this ⊢
  rw [← this]
  apply Finset.sum_congr rfl
  intro t _
  field_simp

theorem isLeftInv_unscale {W G : Mat K} {s : K} (h : IsLeftInv W (Mat.scale s G)) :
    IsLeftInv (Mat.scale s W) G := by
  obtain ⟨hr, hc, hI⟩ := h
  refine ⟨hr, hc, ?_⟩
  intro i j hi hj
  have := hI i j hi hj
  simp only [Mat.mul, Mat.scale, sumTo_eq] at this ⊢
  rw [← this]
  apply Finset.sum_congr rfl
  intro t _
  ring

/-- `A'·inv(s·G) = A·inv(G)` on the block when `A' = s·A`: the transmissibility does not see
    a common gain -/
theorem transmissibility_scale {inv : Mat K → Mat K} (hinv : InvContract inv) {A G : Mat K}
    {s : K} (hs : s ≠ 0) (hsq : G.r = G.c) (hG : ∃ W, IsLeftInv W G) (hAc : A.c = G.c)
    (a j : Nat) (hj : j < G.c) :
    (Mat.mul (Mat.scale s A) (inv (Mat.scale s G))).e a j = (Mat.mul A (inv G)).e a j := by
  obtain ⟨W0, hW0⟩ := hG
  have h1 : IsLeftInv (inv G) G := hinv G hsq ⟨W0, hW0⟩
  have h2 : IsLeftInv (inv (Mat.scale s G)) (Mat.scale s G) :=
    hinv (Mat.scale s G) hsq ⟨_, isLeftInv_scale hs hW0⟩
  have h3 : IsLeftInv (Mat.scale s (inv (Mat.scale s G))) G := isLeftInv_unscale h2
  simp only [Mat.mul, Mat.scale, sumTo_eq, hAc]
  apply Finset.sum_congr rfl
  intro t ht
  have := leftInv_unique hsq h1 h3 t j (mem_range.mp ht) hj
  simp only [Mat.scale] at this
  rw [this]; ring

end algebra

/-! ## structure of `sdPreGER` -/
section preger
variable {T D F K : Type} [One T] [Div T]

/-- the argument record `SD_PreGER` hands to `SD_est` -/
def sdArgs (fs : T) (nxseg : Nat) (method : SdMethod) (pov : T) : SdArgs T := ⟨1 / fs, nxseg, method, pov⟩
/-- `np.vstack((Y[ii]["ref"], Y[ii]["mov"]))` -/
def yAll (Y : Nat → Setup D) (ii : Nat) : Mat D := Mat.vstack2 (Y ii).ref (Y ii).mov
/-- the all × ref estimate of setup `ii` -/
def estRef (sd : Estimator T D F K) (fs : T) (nxseg : Nat) (pov : T) (method : SdMethod)
    (Y : Nat → Setup D) (ii : Nat) : SdOut F K := sd (sdArgs fs nxseg method pov) (yAll Y ii) (Y ii).ref
/-- the all × mov estimate of setup `ii` -/
def estMov (sd : Estimator T D F K) (fs : T) (nxseg : Nat) (pov : T) (method : SdMethod)
    (Y : Nat → Setup D) (ii : Nat) : SdOut F K := sd (sdArgs fs nxseg method pov) (yAll Y ii) (Y ii).mov

variable (sd : Estimator T D F K) (fs : T) (nxseg : Nat) (pov : T) (method : SdMethod)
  (n : Nat) (Y : Nat → Setup D)

theorem gyy_eq (hm : method ≠ .other) (ii : Nat) :
    gyy sd fs nxseg pov method Y ii
      = TenG.hstack (estRef sd fs nxseg pov method Y ii).S (estMov sd fs nxseg pov method Y ii).S := by
  cases method <;> first | rfl | exact absurd rfl hm

variable {sd fs nxseg pov method n Y}

theorem gyy_n0 (hs : SdShape sd) (hm : method ≠ .other) (ii : Nat) :
    (gyy sd fs nxseg pov method Y ii).n0 = (Y ii).ref.r + (Y ii).mov.r := by
  rw [gyy_eq _ _ _ _ _ _ hm]; simp [TenG.hstack, estRef, hs.n0, yAll, Mat.vstack2]

theorem gyy_n1 (hs : SdShape sd) (hm : method ≠ .other) (ii : Nat) :
    (gyy sd fs nxseg pov method Y ii).n1 = (Y ii).ref.r + (Y ii).mov.r := by
  rw [gyy_eq _ _ _ _ _ _ hm]; simp [TenG.hstack, estRef, estMov, hs.n1]

/-- columns below the reference count come from the all × ref estimate -/
theorem gyy_e (hs : SdShape sd) (hm : method ≠ .other) (ii i j f : Nat) (hj : j < (Y ii).ref.r) :
    (gyy sd fs nxseg pov method Y ii).e i j f = (estRef sd fs nxseg pov method Y ii).S.e i j f := by
  rw [gyy_eq _ _ _ _ _ _ hm]
  simp only [TenG.hstack]
  rw [if_pos]
  simp only [estRef, hs.n1]; exact hj

theorem refBlock_r (hs : SdShape sd) (hm : method ≠ .other) (ii f : Nat) :
    (refBlock (Y ii).ref.r (gyy sd fs nxseg pov method Y) ii f).r = (Y ii).ref.r := by
  simp [refBlock, TenG.head01, TenG.line, gyy_n0 hs hm]

theorem refBlock_c (hs : SdShape sd) (hm : method ≠ .other) (ii f : Nat) :
    (refBlock (Y ii).ref.r (gyy sd fs nxseg pov method Y) ii f).c = (Y ii).ref.r := by
  simp [refBlock, TenG.head01, TenG.line, gyy_n1 hs hm]

theorem refBlock_e (hs : SdShape sd) (hm : method ≠ .other) (ii f i j : Nat) (hj : j < (Y ii).ref.r)
    (m : Nat) :
    (refBlock m (gyy sd fs nxseg pov method Y) ii f).e i j = (estRef sd fs nxseg pov method Y ii).S.e i j f := by
  simp only [refBlock, TenG.head01, TenG.line]; exact gyy_e hs hm ii i j f hj

theorem movBlock_r (hs : SdShape sd) (hm : method ≠ .other) (ii f : Nat) :
    (movBlock (Y ii).ref.r (gyy sd fs nxseg pov method Y) ii f).r = (Y ii).mov.r := by
  simp [movBlock, TenG.tail0head1, TenG.line, gyy_n0 hs hm]

theorem movBlock_c (hs : SdShape sd) (hm : method ≠ .other) (ii f : Nat) :
    (movBlock (Y ii).ref.r (gyy sd fs nxseg pov method Y) ii f).c = (Y ii).ref.r := by
  simp [movBlock, TenG.tail0head1, TenG.line, gyy_n1 hs hm]

theorem movBlock_e (hs : SdShape sd) (hm : method ≠ .other) (ii f a j : Nat) (hj : j < (Y ii).ref.r)
    (m : Nat) :
    (movBlock m (gyy sd fs nxseg pov method Y) ii f).e a j
      = (estRef sd fs nxseg pov method Y ii).S.e (m + a) j f := by
  simp only [movBlock, TenG.tail0head1, TenG.line]; exact gyy_e hs hm ii (m + a) j f hj

end preger

section preger2
variable {T D F K : Type} [One T] [Div T] [Field K]
variable {sd : Estimator T D F K} {fs : T} {nxseg : Nat} {pov : T} {method : SdMethod}
  {n : Nat} {Y : Nat → Setup D}

theorem mean_n0 (hs : SdShape sd) (hm : method ≠ .other) :
    (meanRefRef n (Y 0).ref.r (gyy sd fs nxseg pov method Y)).n0 = (Y 0).ref.r := by
  simp [meanRefRef, TenG.head01, gyy_n0 hs hm]

theorem mean_n1 (hs : SdShape sd) (hm : method ≠ .other) :
    (meanRefRef n (Y 0).ref.r (gyy sd fs nxseg pov method Y)).n1 = (Y 0).ref.r := by
  simp [meanRefRef, TenG.head01, gyy_n1 hs hm]

/-- every column `j < n_ref` of the mean block (any row) is the mean of the all × ref estimates -/
theorem mean_e (hs : SdShape sd) (hm : method ≠ .other)
    (href : ∀ ii, ii < n → (Y ii).ref.r = (Y 0).ref.r) (i j f : Nat) (hj : j < (Y 0).ref.r) :
    (meanRefRef n (Y 0).ref.r (gyy sd fs nxseg pov method Y)).e i j f
      = (1 / (n : K)) * ∑ ii ∈ range n, (estRef sd fs nxseg pov method Y ii).S.e i j f := by
  simp only [meanRefRef, TenG.head01, sumTo_eq]
  congr 1
  apply Finset.sum_congr rfl
  intro ii hii
  exact gyy_e hs hm ii i j f (by rw [href ii (mem_range.mp hii)]; exact hj)

theorem rovingLine_r (inv : Mat K → Mat K) (hs : SdShape sd) (hm : method ≠ .other)
    (Gm : TenG K) (f ii : Nat) :
    (rovingLine inv (Y ii).ref.r (gyy sd fs nxseg pov method Y) Gm f ii).r = (Y ii).mov.r := by
  simp only [rovingLine, Mat.mul]; exact movBlock_r hs hm ii f

/-- the merged matrix below the reference block is the stack of the roving lines -/
theorem sdPreGER_roving (inv : Mat K → Mat K) (hs : SdShape sd) (hm : method ≠ .other)
    (href : ∀ ii, ii < n → (Y ii).ref.r = (Y 0).ref.r) (ii a j f : Nat) (hii : ii < n)
    (ha : a < (Y ii).mov.r) :
    (sdPreGER sd inv fs nxseg pov method n Y).S.e
        ((Y 0).ref.r + (∑ k ∈ range ii, (Y k).mov.r) + a) j f
      = (rovingLine inv (Y 0).ref.r (gyy sd fs nxseg pov method Y)
          (meanRefRef n (Y 0).ref.r (gyy sd fs nxseg pov method Y)) f ii).e a j := by
  have hr : ∀ k, k < n → (rovingLine inv (Y 0).ref.r (gyy sd fs nxseg pov method Y)
          (meanRefRef n (Y 0).ref.r (gyy sd fs nxseg pov method Y)) f k).r = (Y k).mov.r := by
    intro k hk
    have := rovingLine_r (sd := sd) (fs := fs) (nxseg := nxseg) (pov := pov) (Y := Y) inv hs hm
      (meanRefRef n (Y 0).ref.r (gyy sd fs nxseg pov method Y)) f k
    rw [href k hk] at this; exact this
  show (mergedLine inv n (Y 0).ref.r (gyy sd fs nxseg pov method Y)
      (meanRefRef n (Y 0).ref.r (gyy sd fs nxseg pov method Y)) f).e _ j = _
  simp only [mergedLine, Mat.vstack2, TenG.line, mean_n0 hs hm]
  rw [if_neg (by omega)]
  have hsum : (∑ k ∈ range ii, (Y k).mov.r)
      = ∑ k ∈ range ii, (rovingLine inv (Y 0).ref.r (gyy sd fs nxseg pov method Y)
          (meanRefRef n (Y 0).ref.r (gyy sd fs nxseg pov method Y)) f k).r :=
    Finset.sum_congr rfl (fun k hk => (hr k (lt_trans (mem_range.mp hk) hii)).symm)
  have hidx : (Y 0).ref.r + (∑ k ∈ range ii, (Y k).mov.r) + a - (Y 0).ref.r
      = (∑ k ∈ range ii, (Y k).mov.r) + a := by omega
  rw [hidx, hsum]
  exact Mat.vstackFn_e _ n ii a j hii (by rw [hr ii hii]; exact ha)

theorem sdPreGER_ref (inv : Mat K → Mat K) (hs : SdShape sd) (hm : method ≠ .other)
    (i j f : Nat) (hi : i < (Y 0).ref.r) :
    (sdPreGER sd inv fs nxseg pov method n Y).S.e i j f
      = (meanRefRef n (Y 0).ref.r (gyy sd fs nxseg pov method Y)).e i j f := by
  show (mergedLine inv n (Y 0).ref.r (gyy sd fs nxseg pov method Y)
      (meanRefRef n (Y 0).ref.r (gyy sd fs nxseg pov method Y)) f).e i j = _
  simp only [mergedLine, Mat.vstack2, TenG.line, mean_n0 hs hm]
  rw [if_pos hi]

theorem sdPreGER_shape (inv : Mat K → Mat K) (hs : SdShape sd) (hm : method ≠ .other)
    (href : ∀ ii, ii < n → (Y ii).ref.r = (Y 0).ref.r) :
    (sdPreGER sd inv fs nxseg pov method n Y).S.n0 = (Y 0).ref.r + ∑ k ∈ range n, (Y k).mov.r
    ∧ (sdPreGER sd inv fs nxseg pov method n Y).S.n1 = (Y 0).ref.r
    ∧ (sdPreGER sd inv fs nxseg pov method n Y).S.n2
        = (sdPreGER sd inv fs nxseg pov method n Y).freq.length
    ∧ (sdPreGER sd inv fs nxseg pov method n Y).freq
        = (estRef sd fs nxseg pov method Y (n - 1)).freq := by
  refine ⟨?_, ?_, rfl, rfl⟩
  · show (mergedLine inv n (Y 0).ref.r (gyy sd fs nxseg pov method Y)
      (meanRefRef n (Y 0).ref.r (gyy sd fs nxseg pov method Y)) 0).r = _
    simp only [mergedLine, Mat.vstack2, TenG.line, mean_n0 hs hm, Mat.vstackFn_r]
    congr 1
    apply Finset.sum_congr rfl
    intro k hk
    have := rovingLine_r (sd := sd) (fs := fs) (nxseg := nxseg) (pov := pov) (Y := Y) inv hs hm
      (meanRefRef n (Y 0).ref.r (gyy sd fs nxseg pov method Y)) 0 k
    rw [href k (mem_range.mp hk)] at this; exact this
  · show (mergedLine inv n (Y 0).ref.r (gyy sd fs nxseg pov method Y)
      (meanRefRef n (Y 0).ref.r (gyy sd fs nxseg pov method Y)) 0).c = _
    simp only [mergedLine, Mat.vstack2, TenG.line, mean_n1 hs hm]

end preger2

/-! ## transfer of invertibility, scaled setups -/
section more
variable {K : Type} [Field K]

theorem isLeftInv_congr {W G G' : Mat K} (hr : G'.r = G.r) (hc : G'.c = G.c)
    (he : ∀ s j, s < G.r → j < G.c → G'.e s j = G.e s j) (h : IsLeftInv W G) : IsLeftInv W G' := by
  obtain ⟨h1, h2, h3⟩ := h
  refine ⟨by rw [hc]; exact h1, by rw [hr]; exact h2, ?_⟩
  intro i j hi hj
  rw [hc] at hi hj
  rw [← h3 i j hi hj]
  simp only [Mat.mul, sumTo_eq]
  apply Finset.sum_congr rfl
  intro t ht
  rw [he t j (by rw [← h2]; exact mem_range.mp ht) hj]

variable {T D F : Type} [One T] [Div T]

omit [Field K] in
theorem gyy_congr (sd : Estimator T D F K) (fs : T) (nxseg : Nat) (pov : T) (method : SdMethod)
    {Y Y' : Nat → Setup D} {ii : Nat} (h : Y' ii = Y ii) :
    gyy sd fs nxseg pov method Y' ii = gyy sd fs nxseg pov method Y ii := by
  cases method <;> simp [gyy, callArgs, h]

omit [Field K] in
theorem estRef_congr (sd : Estimator T D F K) (fs : T) (nxseg : Nat) (pov : T) (method : SdMethod)
    {Y Y' : Nat → Setup D} {ii : Nat} (h : Y' ii = Y ii) :
    estRef sd fs nxseg pov method Y' ii = estRef sd fs nxseg pov method Y ii := by
  simp [estRef, yAll, h]

/-- setup `k` with every channel multiplied by `c` -/
def scaleSetup [Mul D] (c : D) (k : Nat) (Y : Nat → Setup D) : Nat → Setup D :=
  fun ii => if ii = k then ⟨Mat.scale c (Y ii).ref, Mat.scale c (Y ii).mov⟩ else Y ii

theorem scaleSetup_ref_r [Mul D] (c : D) (k : Nat) (Y : Nat → Setup D) (ii : Nat) :
    (scaleSetup c k Y ii).ref.r = (Y ii).ref.r := by
  unfold scaleSetup; split <;> rfl

theorem scaleSetup_mov_r [Mul D] (c : D) (k : Nat) (Y : Nat → Setup D) (ii : Nat) :
    (scaleSetup c k Y ii).mov.r = (Y ii).mov.r := by
  unfold scaleSetup; split <;> rfl

theorem scaleSetup_ne [Mul D] (c : D) {k ii : Nat} (Y : Nat → Setup D) (h : ii ≠ k) :
    scaleSetup c k Y ii = Y ii := by
  unfold scaleSetup; rw [if_neg h]

/-- the per-setup matrix of the scaled setup is `φ c * ψ c` times the original one -/
theorem gyy_scaled [Mul D] {sd : Estimator T D F K} {φ ψ : D → K} (hh : SdHomog sd φ ψ)
    (fs : T) (nxseg : Nat) (pov : T) {method : SdMethod} (hm : method ≠ .other)
    (c : D) (k : Nat) (Y : Nat → Setup D) :
    (gyy sd fs nxseg pov method (scaleSetup c k Y) k).n0 = (gyy sd fs nxseg pov method Y k).n0
    ∧ (gyy sd fs nxseg pov method (scaleSetup c k Y) k).n1 = (gyy sd fs nxseg pov method Y k).n1
    ∧ ∀ i j f, (gyy sd fs nxseg pov method (scaleSetup c k Y) k).e i j f
        = φ c * ψ c * (gyy sd fs nxseg pov method Y k).e i j f := by
  rw [gyy_eq _ _ _ _ _ _ hm, gyy_eq _ _ _ _ _ _ hm]
  have hall : yAll (scaleSetup c k Y) k = Mat.scale c (yAll Y k) := by
    simp only [yAll, scaleSetup, if_true, Mat.vstack2_scale]
  have hr : (scaleSetup c k Y k).ref = Mat.scale c (Y k).ref := by simp [scaleSetup]
  have hv : (scaleSetup c k Y k).mov = Mat.scale c (Y k).mov := by simp [scaleSetup]
  simp only [TenG.hstack, estRef, estMov, hall, hr, hv, hh.n0, hh.n1, hh.entry]
  refine ⟨trivial, trivial, ?_⟩
  intro i j f
  by_cases h : j < (sd (sdArgs fs nxseg method pov) (yAll Y k) (Y k).ref).S.n1 <;> simp [h]

theorem estRef_scaled [Mul D] {sd : Estimator T D F K} {φ ψ : D → K} (hh : SdHomog sd φ ψ)
    (fs : T) (nxseg : Nat) (pov : T) (method : SdMethod)
    (c : D) (k : Nat) (Y : Nat → Setup D) (i j f : Nat) :
    (estRef sd fs nxseg pov method (scaleSetup c k Y) k).S.e i j f
      = φ c * ψ c * (estRef sd fs nxseg pov method Y k).S.e i j f := by
  have hall : yAll (scaleSetup c k Y) k = Mat.scale c (yAll Y k) := by
    simp only [yAll, scaleSetup, if_true, Mat.vstack2_scale]
  have hr : (scaleSetup c k Y k).ref = Mat.scale c (Y k).ref := by simp [scaleSetup]
  simp only [estRef, hall, hr, hh.entry]

end more
end PV
