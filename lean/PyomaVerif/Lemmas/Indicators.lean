import PyomaVerif.Model.Indicators
import PyomaVerif.Lemmas.Sum
import Mathlib.Algebra.Order.BigOperators.Ring.Finset
import Mathlib.Algebra.Order.Field.Basic
import Mathlib.Tactic.Ring
import Mathlib.Tactic.Linarith
import Mathlib.Tactic.LinearCombination
import Mathlib.Tactic.FieldSimp
import Mathlib.Tactic.Positivity
import Mathlib.Analysis.SpecialFunctions.Trigonometric.Inverse
import Mathlib.Analysis.Real.Sqrt
/-!
Helper lemmas for the mode-shape indicators: complex sums as pairs of real sums, the
complex Cauchy–Schwarz inequality over any linearly ordered field, the behaviour of
second moments under multiplication by a complex scalar.
-/
namespace PV
open Finset
set_option linter.unusedSectionVars false

/-! ### `Cx` componentwise -/
namespace Cx
variable {K : Type}
@[simp] theorem zero_re [Zero K] : (0 : Cx K).re = 0 := rfl
@[simp] theorem zero_im [Zero K] : (0 : Cx K).im = 0 := rfl
@[simp] theorem add_re [Add K] (z w : Cx K) : (z + w).re = z.re + w.re := rfl
@[simp] theorem add_im [Add K] (z w : Cx K) : (z + w).im = z.im + w.im := rfl
@[simp] theorem mul_re [Add K] [Sub K] [Mul K] (z w : Cx K) :
    (z * w).re = z.re * w.re - z.im * w.im := rfl
@[simp] theorem mul_im [Add K] [Sub K] [Mul K] (z w : Cx K) :
    (z * w).im = z.re * w.im + z.im * w.re := rfl
@[simp] theorem conj_re [Neg K] (z : Cx K) : (conj z).re = z.re := rfl
@[simp] theorem conj_im [Neg K] (z : Cx K) : (conj z).im = -z.im := rfl
@[simp] theorem ofReal_re [Zero K] (x : K) : (ofReal x).re = x := rfl
@[simp] theorem ofReal_im [Zero K] (x : K) : (ofReal x).im = 0 := rfl
end Cx

section transport
variable {K : Type} [Zero K] [Add K]

private theorem foldl_re (f : Nat → Cx K) (l : List Nat) (acc : Cx K) :
    (l.foldl (fun a i => a + f i) acc).re = l.foldl (fun a i => a + (f i).re) acc.re := by
  induction l generalizing acc with
  | nil => rfl
  | cons h t ih => simp only [List.foldl_cons]; rw [ih]; rfl

private theorem foldl_im (f : Nat → Cx K) (l : List Nat) (acc : Cx K) :
    (l.foldl (fun a i => a + f i) acc).im = l.foldl (fun a i => a + (f i).im) acc.im := by
  induction l generalizing acc with
  | nil => rfl
  | cons h t ih => simp only [List.foldl_cons]; rw [ih]; rfl

theorem sumTo_re (n : Nat) (f : Nat → Cx K) : (sumTo n f).re = sumTo n fun k => (f k).re := by
  unfold sumTo; rw [foldl_re]; rfl

theorem sumTo_im (n : Nat) (f : Nat → Cx K) : (sumTo n f).im = sumTo n fun k => (f k).im := by
  unfold sumTo; rw [foldl_im]; rfl
end transport

variable {K : Type} [Field K] [LinearOrder K] [IsStrictOrderedRing K]

/-! ### real sums behind the complex inner products -/

/-- `Σ |x_k|²` -/
def nrm (n : Nat) (x : Nat → Cx K) : K := ∑ k ∈ range n, ((x k).re * (x k).re + (x k).im * (x k).im)
/-- real part of `Σ conj(x_k)·a_k` -/
def pre (n : Nat) (x a : Nat → Cx K) : K := ∑ k ∈ range n, ((x k).re * (a k).re + (x k).im * (a k).im)
/-- imaginary part of `Σ conj(x_k)·a_k` -/
def pim (n : Nat) (x a : Nat → Cx K) : K := ∑ k ∈ range n, ((x k).re * (a k).im - (x k).im * (a k).re)

theorem dotc_re (n : Nat) (x a : Nat → Cx K) : (dotc n x a).re = pre n x a := by
  simp only [dotc, sumTo_re, sumTo_eq, pre, Cx.mul_re, Cx.conj_re, Cx.conj_im]
  exact Finset.sum_congr rfl fun _ _ => by ring

theorem dotc_im (n : Nat) (x a : Nat → Cx K) : (dotc n x a).im = pim n x a := by
  simp only [dotc, sumTo_im, sumTo_eq, pim, Cx.mul_im, Cx.conj_re, Cx.conj_im]
  exact Finset.sum_congr rfl fun _ _ => by ring

theorem pre_self (n : Nat) (x : Nat → Cx K) : pre n x x = nrm n x := rfl
theorem pim_self (n : Nat) (x : Nat → Cx K) : pim n x x = 0 := by
  simp only [pim]; exact Finset.sum_eq_zero fun _ _ => by ring

theorem pre_comm (n : Nat) (x a : Nat → Cx K) : pre n a x = pre n x a := by
  simp only [pre]; exact Finset.sum_congr rfl fun _ _ => by ring
theorem pim_comm (n : Nat) (x a : Nat → Cx K) : pim n a x = -pim n x a := by
  simp only [pim, ← Finset.sum_neg_distrib]; exact Finset.sum_congr rfl fun _ _ => by ring

theorem nrm_nonneg (n : Nat) (x : Nat → Cx K) : 0 ≤ nrm n x :=
  Finset.sum_nonneg fun _ _ => add_nonneg (mul_self_nonneg _) (mul_self_nonneg _)

theorem nrm_pos {n : Nat} {x : Nat → Cx K} {k : Nat} (hk : k < n)
    (hx : (x k).re ≠ 0 ∨ (x k).im ≠ 0) : 0 < nrm n x := by
  unfold nrm
  apply Finset.sum_pos' (fun _ _ => add_nonneg (mul_self_nonneg _) (mul_self_nonneg _))
  refine ⟨k, Finset.mem_range.mpr hk, ?_⟩
  rcases hx with h | h
  · have := mul_self_pos.mpr h; have := mul_self_nonneg (x k).im; linarith
  · have := mul_self_pos.mpr h; have := mul_self_nonneg (x k).re; linarith

/-- the sum-of-squares identity behind the complex Cauchy–Schwarz inequality, for
    arbitrary scalars `X P Q` in place of the sums -/
private theorem cs_identity (n : Nat) (x a : Nat → Cx K) (X P Q : K) :
    ∑ k ∈ range n, ((X * (a k).re - P * (x k).re + Q * (x k).im) ^ 2
        + (X * (a k).im - P * (x k).im - Q * (x k).re) ^ 2)
      = X ^ 2 * nrm n a + (P ^ 2 + Q ^ 2) * nrm n x - 2 * X * P * pre n x a - 2 * X * Q * pim n x a := by
  unfold nrm pre pim
  induction n with
  | zero => simp
  | succ n ih => simp only [Finset.sum_range_succ]; linear_combination ih

/-- **complex Cauchy–Schwarz**: `|Σ conj(x)·a|² ≤ (Σ|x|²)(Σ|a|²)` over any ordered field -/
theorem cauchy_schwarz (n : Nat) (x a : Nat → Cx K) :
    pre n x a ^ 2 + pim n x a ^ 2 ≤ nrm n x * nrm n a := by
  have hid := cs_identity n x a (nrm n x) (pre n x a) (pim n x a)
  have hnn : 0 ≤ ∑ k ∈ range n, ((nrm n x * (a k).re - pre n x a * (x k).re + pim n x a * (x k).im) ^ 2
        + (nrm n x * (a k).im - pre n x a * (x k).im - pim n x a * (x k).re) ^ 2) :=
    Finset.sum_nonneg fun _ _ => add_nonneg (sq_nonneg _) (sq_nonneg _)
  rw [hid] at hnn
  have hX := nrm_nonneg n x
  rcases hX.lt_or_eq with hpos | hzero
  · have h2 : 0 ≤ nrm n x * (nrm n x * nrm n a - (pre n x a ^ 2 + pim n x a ^ 2)) := by
      nlinarith [hnn]
    have := nonneg_of_mul_nonneg_right h2 hpos
    linarith
  · -- Σ|x|² = 0: every component of x vanishes, so both sums are 0
    have hz : ∀ k ∈ range n, (x k).re * (x k).re + (x k).im * (x k).im = 0 :=
      (Finset.sum_eq_zero_iff_of_nonneg
        (fun _ _ => add_nonneg (mul_self_nonneg _) (mul_self_nonneg _))).mp hzero.symm
    have hP : pre n x a = 0 := by
      unfold pre
      refine Finset.sum_eq_zero fun k hk => ?_
      obtain ⟨h1, h2⟩ := mul_self_add_mul_self_eq_zero.mp (hz k hk)
      rw [h1, h2]; ring
    have hQ : pim n x a = 0 := by
      unfold pim
      refine Finset.sum_eq_zero fun k hk => ?_
      obtain ⟨h1, h2⟩ := mul_self_add_mul_self_eq_zero.mp (hz k hk)
      rw [h1, h2]; ring
    rw [hP, hQ, ← hzero]; simp

/-! ### the MAC entry in closed form -/

theorem mac_den (n : Nat) (x a : Nat → Cx K) :
    (sumTo n fun k => (dotc n x x * Cx.conj (a k)) * a k) = ⟨nrm n x * nrm n a, 0⟩ := by
  have hre : (sumTo n fun k => (dotc n x x * Cx.conj (a k)) * a k).re = nrm n x * nrm n a := by
    simp only [sumTo_re, sumTo_eq, Cx.mul_re, Cx.mul_im, Cx.conj_re, Cx.conj_im, dotc_re, dotc_im,
      pre_self, pim_self]
    unfold nrm
    rw [Finset.mul_sum]
    exact Finset.sum_congr rfl fun _ _ => by ring
  have him : (sumTo n fun k => (dotc n x x * Cx.conj (a k)) * a k).im = 0 := by
    simp only [sumTo_im, sumTo_eq, Cx.mul_re, Cx.mul_im, Cx.conj_re, Cx.conj_im, dotc_re, dotc_im,
      pre_self, pim_self]
    exact Finset.sum_eq_zero fun _ _ => by ring
  cases h : (sumTo n fun k => (dotc n x x * Cx.conj (a k)) * a k) with
  | mk r i => rw [h] at hre him; simp only at hre him; rw [hre, him]

theorem macEntry?_eq (n : Nat) (x a : Nat → Cx K) :
    macEntry? n x a =
      if nrm n x * nrm n a = 0 then none
      else some ((pre n x a ^ 2 + pim n x a ^ 2) / (nrm n x * nrm n a)) := by
  simp only [macEntry?, mac_den, Cx.div?, Cx.normSq, dotc_re, dotc_im]
  by_cases h : nrm n x * nrm n a = 0
  · simp [h]
  · have h2 : ¬ (nrm n x * nrm n a * (nrm n x * nrm n a) + 0 * 0 = 0) := by
      simp [h]
    rw [if_neg h2, if_neg h]
    simp only [Option.map_some]
    congr 1
    rw [div_eq_div_iff h2 h]
    ring


/-! ### multiplication of a shape by a complex scalar -/

@[simp] theorem cscale_re (c : Cx K) (x : Nat → Cx K) (k : Nat) :
    (cscale c x k).re = c.re * (x k).re - c.im * (x k).im := rfl
@[simp] theorem cscale_im (c : Cx K) (x : Nat → Cx K) (k : Nat) :
    (cscale c x k).im = c.re * (x k).im + c.im * (x k).re := rfl
@[simp] theorem ofRealVec_re (v : Nat → K) (k : Nat) : (ofRealVec v k).re = v k := rfl
@[simp] theorem ofRealVec_im (v : Nat → K) (k : Nat) : (ofRealVec v k).im = 0 := rfl

theorem nrm_cscale (n : Nat) (c : Cx K) (x : Nat → Cx K) :
    nrm n (cscale c x) = (c.re * c.re + c.im * c.im) * nrm n x := by
  unfold nrm; rw [Finset.mul_sum]
  exact Finset.sum_congr rfl fun _ _ => by simp only [cscale_re, cscale_im]; ring

theorem pre_cscale_left (n : Nat) (c : Cx K) (x a : Nat → Cx K) :
    pre n (cscale c x) a = c.re * pre n x a + c.im * pim n x a := by
  unfold pre pim; rw [Finset.mul_sum, Finset.mul_sum, ← Finset.sum_add_distrib]
  exact Finset.sum_congr rfl fun _ _ => by simp only [cscale_re, cscale_im]; ring

theorem pim_cscale_left (n : Nat) (c : Cx K) (x a : Nat → Cx K) :
    pim n (cscale c x) a = c.re * pim n x a - c.im * pre n x a := by
  unfold pre pim; rw [Finset.mul_sum, Finset.mul_sum, ← Finset.sum_sub_distrib]
  exact Finset.sum_congr rfl fun _ _ => by simp only [cscale_re, cscale_im]; ring

theorem normSq_pos_of_ne {c : Cx K} (hc : c.re ≠ 0 ∨ c.im ≠ 0) : 0 < c.re * c.re + c.im * c.im := by
  rcases hc with h | h
  · have := mul_self_pos.mpr h; have := mul_self_nonneg c.im; linarith
  · have := mul_self_pos.mpr h; have := mul_self_nonneg c.re; linarith

theorem macEntry?_cscale_left (n : Nat) (c : Cx K) (hc : c.re ≠ 0 ∨ c.im ≠ 0) (x a : Nat → Cx K) :
    macEntry? n (cscale c x) a = macEntry? n x a := by
  have hs := normSq_pos_of_ne hc
  rw [macEntry?_eq, macEntry?_eq, nrm_cscale, pre_cscale_left, pim_cscale_left]
  by_cases h : nrm n x * nrm n a = 0
  · have : (c.re * c.re + c.im * c.im) * nrm n x * nrm n a = 0 := by rw [mul_assoc, h, mul_zero]
    rw [if_pos this, if_pos h]
  · have : ¬ ((c.re * c.re + c.im * c.im) * nrm n x * nrm n a = 0) := by
      rw [mul_assoc]; exact mul_ne_zero hs.ne' h
    rw [if_neg this, if_neg h]
    congr 1
    rw [div_eq_div_iff this h]; ring

theorem macEntry?_symm (n : Nat) (x a : Nat → Cx K) : macEntry? n a x = macEntry? n x a := by
  rw [macEntry?_eq, macEntry?_eq, pre_comm n x a, pim_comm n x a, mul_comm (nrm n a), neg_sq]

theorem macEntry?_cscale_right (n : Nat) (c : Cx K) (hc : c.re ≠ 0 ∨ c.im ≠ 0) (x a : Nat → Cx K) :
    macEntry? n x (cscale c a) = macEntry? n x a := by
  rw [macEntry?_symm, macEntry?_cscale_left n c hc, macEntry?_symm]

/-! ### MSF -/

theorem dotu_re (n : Nat) (x y : Nat → Cx K) :
    (dotu n x y).re = ∑ k ∈ range n, ((x k).re * (y k).re - (x k).im * (y k).im) := by
  simp only [dotu, sumTo_re, sumTo_eq, Cx.mul_re]
theorem dotu_im (n : Nat) (x y : Nat → Cx K) :
    (dotu n x y).im = ∑ k ∈ range n, ((x k).re * (y k).im + (x k).im * (y k).re) := by
  simp only [dotu, sumTo_im, sumTo_eq, Cx.mul_im]

theorem dotu_rscale_re (n : Nat) (c : K) (v : Nat → Cx K) :
    (dotu n (cscale (Cx.ofReal c) v) v).re = c * (dotu n v v).re := by
  rw [dotu_re, dotu_re, Finset.mul_sum]
  exact Finset.sum_congr rfl fun _ _ => by simp only [cscale_re, cscale_im, Cx.ofReal_re, Cx.ofReal_im]; ring
theorem dotu_rscale_im (n : Nat) (c : K) (v : Nat → Cx K) :
    (dotu n (cscale (Cx.ofReal c) v) v).im = c * (dotu n v v).im := by
  rw [dotu_im, dotu_im, Finset.mul_sum]
  exact Finset.sum_congr rfl fun _ _ => by simp only [cscale_re, cscale_im, Cx.ofReal_re, Cx.ofReal_im]; ring

/-! ### second moments, rotation, the closed form `collin?` -/

theorem rot_a (n : Nat) (f g : Nat → K) (cr ci : K) :
    ∑ k ∈ range n, (cr * f k - ci * g k) * (cr * f k - ci * g k)
      = cr * cr * (∑ k ∈ range n, f k * f k) - 2 * cr * ci * (∑ k ∈ range n, f k * g k)
        + ci * ci * (∑ k ∈ range n, g k * g k) := by
  induction n with
  | zero => simp
  | succ n ih => simp only [Finset.sum_range_succ]; linear_combination ih

theorem rot_b (n : Nat) (f g : Nat → K) (cr ci : K) :
    ∑ k ∈ range n, (cr * f k - ci * g k) * (cr * g k + ci * f k)
      = (cr * cr - ci * ci) * (∑ k ∈ range n, f k * g k)
        + cr * ci * ((∑ k ∈ range n, f k * f k) - (∑ k ∈ range n, g k * g k)) := by
  induction n with
  | zero => simp
  | succ n ih => simp only [Finset.sum_range_succ]; linear_combination ih

theorem rot_d (n : Nat) (f g : Nat → K) (cr ci : K) :
    ∑ k ∈ range n, (cr * g k + ci * f k) * (cr * g k + ci * f k)
      = cr * cr * (∑ k ∈ range n, g k * g k) + 2 * cr * ci * (∑ k ∈ range n, f k * g k)
        + ci * ci * (∑ k ∈ range n, f k * f k) := by
  induction n with
  | zero => simp
  | succ n ih => simp only [Finset.sum_range_succ]; linear_combination ih

/-- real Cauchy–Schwarz in the `x*x` spelling of the model -/
theorem cs_real (n : Nat) (f g : Nat → K) :
    (∑ k ∈ range n, f k * g k) * (∑ k ∈ range n, f k * g k)
      ≤ (∑ k ∈ range n, f k * f k) * (∑ k ∈ range n, g k * g k) := by
  have := Finset.sum_mul_sq_le_sq_mul_sq (range n) f g
  simpa only [pow_two] using this

theorem collin?_eq (a b d : K) :
    collin? a b d = if (a + d) * (a + d) = 0 then none
      else some (((a - d) * (a - d) + 4 * (b * b)) / ((a + d) * (a + d))) := by
  simp [collin?]

/-- the closed form is unchanged by the rotation–dilation of the second moments that a complex
    factor `cr + i·ci` induces -/
theorem collin?_rot (a b d cr ci : K) (hs : 0 < cr * cr + ci * ci) :
    collin? (cr * cr * a - 2 * cr * ci * b + ci * ci * d)
            ((cr * cr - ci * ci) * b + cr * ci * (a - d))
            (cr * cr * d + 2 * cr * ci * b + ci * ci * a) = collin? a b d := by
  rw [collin?_eq, collin?_eq]
  have hsum : (cr * cr * a - 2 * cr * ci * b + ci * ci * d) + (cr * cr * d + 2 * cr * ci * b + ci * ci * a)
      = (cr * cr + ci * ci) * (a + d) := by ring
  rw [hsum]
  by_cases h : (a + d) * (a + d) = 0
  · have h0 : a + d = 0 := mul_self_eq_zero.mp h
    rw [if_pos h, if_pos (by rw [h0]; ring)]
  · have h0 : a + d ≠ 0 := fun e => h (by rw [e]; ring)
    have h' : ¬ ((cr * cr + ci * ci) * (a + d) * ((cr * cr + ci * ci) * (a + d)) = 0) :=
      mul_ne_zero (mul_ne_zero hs.ne' h0) (mul_ne_zero hs.ne' h0)
    rw [if_neg h, if_neg h']
    congr 1
    rw [div_eq_div_iff h' h]; ring

theorem collin?_bounds {a b d r : K} (hcs : b * b ≤ a * d) (h : collin? a b d = some r) :
    0 ≤ r ∧ r ≤ 1 := by
  rw [collin?_eq] at h
  by_cases h0 : (a + d) * (a + d) = 0
  · rw [if_pos h0] at h; cases h
  · rw [if_neg h0] at h
    have hpos : 0 < (a + d) * (a + d) := lt_of_le_of_ne (mul_self_nonneg _) (Ne.symm h0)
    injection h with h
    subst h
    constructor
    · apply div_nonneg _ hpos.le
      nlinarith [mul_self_nonneg (a - d), mul_self_nonneg b]
    · rw [div_le_one hpos]; nlinarith

/-- rank one (`b² = a·d`) gives the value 1 -/
theorem collin?_rank_one {a b d : K} (hdet : b * b = a * d) (h0 : a + d ≠ 0) :
    collin? a b d = some 1 := by
  rw [collin?_eq, if_neg (mul_ne_zero h0 h0)]
  congr 1
  rw [div_eq_one_iff_eq (mul_ne_zero h0 h0)]
  linear_combination 4 * hdet

/-! ### MCF through real sums -/

theorem mcfEntry?_eq (n : Nat) (φ : Nat → Cx K) :
    mcfEntry? n φ = (collin? (∑ k ∈ range n, (φ k).re * (φ k).re)
        (∑ k ∈ range n, (φ k).re * (φ k).im) (∑ k ∈ range n, (φ k).im * (φ k).im)).map fun r => 1 - r := by
  simp only [mcfEntry?, sumTo_eq]

/-! ### the covariance of (Re, Im) -/

/-- deviation from the mean -/
def dev (n : Nat) (f : Nat → K) (k : Nat) : K := f k - (∑ j ∈ range n, f j) / (n : K)

theorem cov2_a (n : Nat) (φ : Nat → Cx K) : (cov2 n φ).a =
    (∑ k ∈ range n, dev n (fun j => (φ j).re) k * dev n (fun j => (φ j).re) k) * (1 / ((n - 1 : Nat) : K)) := by
  simp only [cov2, sumTo_eq, dev]
theorem cov2_b (n : Nat) (φ : Nat → Cx K) : (cov2 n φ).b =
    (∑ k ∈ range n, dev n (fun j => (φ j).re) k * dev n (fun j => (φ j).im) k) * (1 / ((n - 1 : Nat) : K)) := by
  simp only [cov2, sumTo_eq, dev]
theorem cov2_d (n : Nat) (φ : Nat → Cx K) : (cov2 n φ).d =
    (∑ k ∈ range n, dev n (fun j => (φ j).im) k * dev n (fun j => (φ j).im) k) * (1 / ((n - 1 : Nat) : K)) := by
  simp only [cov2, sumTo_eq, dev]

theorem dev_rot_re (n : Nat) (f g : Nat → K) (cr ci : K) (k : Nat) :
    dev n (fun j => cr * f j - ci * g j) k = cr * dev n f k - ci * dev n g k := by
  simp only [dev, Finset.sum_sub_distrib, ← Finset.mul_sum]; ring
theorem dev_rot_im (n : Nat) (f g : Nat → K) (cr ci : K) (k : Nat) :
    dev n (fun j => cr * g j + ci * f j) k = cr * dev n g k + ci * dev n f k := by
  simp only [dev, Finset.sum_add_distrib, ← Finset.mul_sum]; ring

theorem cov2_cscale (n : Nat) (c : Cx K) (φ : Nat → Cx K) :
    (cov2 n (cscale c φ)).a = c.re * c.re * (cov2 n φ).a - 2 * c.re * c.im * (cov2 n φ).b + c.im * c.im * (cov2 n φ).d
    ∧ (cov2 n (cscale c φ)).b = (c.re * c.re - c.im * c.im) * (cov2 n φ).b + c.re * c.im * ((cov2 n φ).a - (cov2 n φ).d)
    ∧ (cov2 n (cscale c φ)).d = c.re * c.re * (cov2 n φ).d + 2 * c.re * c.im * (cov2 n φ).b + c.im * c.im * (cov2 n φ).a := by
  simp only [cov2_a, cov2_b, cov2_d, cscale_re, cscale_im, dev_rot_re, dev_rot_im, rot_a, rot_b, rot_d]
  refine ⟨by ring, by ring, by ring⟩

theorem cov2_cs (n : Nat) (φ : Nat → Cx K) : (cov2 n φ).b * (cov2 n φ).b ≤ (cov2 n φ).a * (cov2 n φ).d := by
  rw [cov2_a, cov2_b, cov2_d]
  have := cs_real n (dev n fun j => (φ j).re) (dev n fun j => (φ j).im)
  have hf : 0 ≤ (1 / ((n - 1 : Nat) : K)) * (1 / ((n - 1 : Nat) : K)) := mul_self_nonneg _
  nlinarith [mul_le_mul_of_nonneg_right this hf]


/-! ### MPC: eigenvalue expression, closed form -/

theorem mpc?_eq_closed (n : Nat) (φ : Nat → Cx K) (l0 l1 : K)
    (htr : l0 + l1 = (cov2 n φ).a + (cov2 n φ).d)
    (hdet : l0 * l1 = (cov2 n φ).a * (cov2 n φ).d - (cov2 n φ).b * (cov2 n φ).b) :
    mpc? n φ l0 l1 = mpcClosed? n φ := by
  unfold mpc? mpcClosed?
  by_cases hn : n ≤ 1
  · rw [if_pos hn, if_pos hn]
  · rw [if_neg hn, if_neg hn]
    by_cases hg : (cov2 n φ).a + (cov2 n φ).d = 0
    · simp only [hg, if_true]
    · simp only [hg, if_false, collin?_eq, htr]
      by_cases h0 : ((cov2 n φ).a + (cov2 n φ).d) * ((cov2 n φ).a + (cov2 n φ).d) = 0
      · rw [if_pos h0, if_pos h0]
      · rw [if_neg h0, if_neg h0]
        congr 2
        linear_combination (l0 + l1 + (cov2 n φ).a + (cov2 n φ).d) * htr - 4 * hdet

theorem natPred_cast_pos {n : Nat} (hn : 2 ≤ n) : (0 : K) < ((n - 1 : Nat) : K) := by
  have : 0 < n - 1 := by omega
  exact_mod_cast this

theorem cov2_a_nonneg (n : Nat) (φ : Nat → Cx K) : 0 ≤ (cov2 n φ).a := by
  rw [cov2_a]
  by_cases hn : 2 ≤ n
  · exact mul_nonneg (Finset.sum_nonneg fun _ _ => mul_self_nonneg _)
      (div_nonneg zero_le_one (natPred_cast_pos hn).le)
  · have : n - 1 = 0 := by omega
    simp [this]

theorem cov2_d_nonneg (n : Nat) (φ : Nat → Cx K) : 0 ≤ (cov2 n φ).d := by
  rw [cov2_d]
  by_cases hn : 2 ≤ n
  · exact mul_nonneg (Finset.sum_nonneg fun _ _ => mul_self_nonneg _)
      (div_nonneg zero_le_one (natPred_cast_pos hn).le)
  · have : n - 1 = 0 := by omega
    simp [this]

theorem mpdArgSq?_eq (z : Cx K) (v01 v11 : K) :
    mpdArgSq? z v01 v11 =
      if (v01 * v01 + v11 * v11) * (z.re * z.re + z.im * z.im) = 0 then none
      else some ((z.re * v11 - z.im * v01) * (z.re * v11 - z.im * v01)
        / ((v01 * v01 + v11 * v11) * (z.re * z.re + z.im * z.im))) := rfl

/-! ### the MAC result as a function of indices -/
namespace MacOut
variable {α : Type}
/-- `M.T` (a scalar is its own transpose) -/
def transpose : MacOut α → MacOut α
  | scalar x => scalar x
  | matrix m => matrix m.transpose
def rows : MacOut α → Nat
  | scalar _ => 1
  | matrix m => m.r
def cols : MacOut α → Nat
  | scalar _ => 1
  | matrix m => m.c
def entry : MacOut α → Nat → Nat → Option α
  | scalar x, _, _ => x
  | matrix m, i, j => m.e i j
end MacOut


/-! ### eigenvectors of a symmetric 2×2 matrix for its smaller eigenvalue are parallel -/

/-- an eigenvalue with a non-zero eigenvector is a root of the characteristic polynomial -/
theorem sym2_char {a b d μ x y : K} (h1 : a * x + b * y = μ * x) (h2 : b * x + d * y = μ * y)
    (hne : x ≠ 0 ∨ y ≠ 0) : (a - μ) * (d - μ) - b * b = 0 := by
  have hx : ((a - μ) * (d - μ) - b * b) * x = 0 := by linear_combination (d - μ) * h1 - b * h2
  have hy : ((a - μ) * (d - μ) - b * b) * y = 0 := by linear_combination (a - μ) * h2 - b * h1
  rcases hne with h | h
  · exact (mul_eq_zero.mp hx).resolve_right h
  · exact (mul_eq_zero.mp hy).resolve_right h

theorem sym2_minor_parallel {a b d μ1 μ2 x1 y1 x2 y2 : K}
    (h1 : a * x1 + b * y1 = μ1 * x1) (h1' : b * x1 + d * y1 = μ1 * y1)
    (h2 : a * x2 + b * y2 = μ2 * x2) (h2' : b * x2 + d * y2 = μ2 * y2)
    (hne1 : x1 ≠ 0 ∨ y1 ≠ 0) (hne2 : x2 ≠ 0 ∨ y2 ≠ 0)
    (hm1 : 2 * μ1 ≤ a + d) (hm2 : 2 * μ2 < a + d) : x1 * y2 - y1 * x2 = 0 := by
  have c1 := sym2_char h1 h1' hne1
  have c2 := sym2_char h2 h2' hne2
  have hprod : (μ1 - μ2) * (μ1 + μ2 - (a + d)) = 0 := by linear_combination c1 - c2
  have hsum : μ1 + μ2 - (a + d) ≠ 0 := by
    have : μ1 + μ2 - (a + d) < 0 := by linarith
    exact this.ne
  have hμ : μ1 = μ2 := sub_eq_zero.mp ((mul_eq_zero.mp hprod).resolve_right hsum)
  subst hμ
  by_cases ha : a - μ1 = 0
  · have hd : d - μ1 ≠ 0 := by
      intro hd
      have : a + d = 2 * μ1 := by linear_combination ha + hd
      linarith
    have : (d - μ1) * (x1 * y2 - y1 * x2) = 0 := by linear_combination x1 * h2' - x2 * h1'
    exact (mul_eq_zero.mp this).resolve_left hd
  · have : (a - μ1) * (x1 * y2 - y1 * x2) = 0 := by linear_combination y2 * h1 - y1 * h2
    exact (mul_eq_zero.mp this).resolve_left ha

/-- parallel non-zero plane vectors are non-zero multiples of each other -/
theorem parallel_exists_smul {x1 y1 x2 y2 : K} (hpar : x1 * y2 - y1 * x2 = 0)
    (hne1 : x1 ≠ 0 ∨ y1 ≠ 0) (hne2 : x2 ≠ 0 ∨ y2 ≠ 0) : ∃ t : K, t ≠ 0 ∧ x2 = t * x1 ∧ y2 = t * y1 := by
  rcases hne1 with h | h
  · refine ⟨x2 / x1, ?_, by field_simp, ?_⟩
    · intro ht
      have hx2 : x2 = 0 := by
        rcases div_eq_zero_iff.mp ht with e | e
        · exact e
        · exact absurd e h
      have hy2 : y2 = 0 := by
        have : x1 * y2 = 0 := by linear_combination hpar + y1 * hx2
        exact (mul_eq_zero.mp this).resolve_left h
      rcases hne2 with e | e
      · exact e hx2
      · exact e hy2
    · field_simp; linear_combination hpar
  · refine ⟨y2 / y1, ?_, ?_, by field_simp⟩
    · intro ht
      have hy2 : y2 = 0 := by
        rcases div_eq_zero_iff.mp ht with e | e
        · exact e
        · exact absurd e h
      have hx2 : x2 = 0 := by
        have : y1 * x2 = 0 := by linear_combination x1 * hy2 - hpar
        exact (mul_eq_zero.mp this).resolve_left h
      rcases hne2 with e | e
      · exact e hx2
      · exact e hy2
    · field_simp; linear_combination -hpar

/-! ### `mpd` over the real numbers -/
section real

/-- the real-number reading of the transcendental steps of `gen.MPD`
    (`Real.arccos` is total: it is `0` above 1, so clipping is invisible over `ℝ`) -/
noncomputable instance realMpdOps : MpdOps ℝ :=
  ⟨Real.sqrt, Real.arccos, fun x => |x|, fun a b => decide (a < b)⟩

@[simp] theorem real_sqrt (x : ℝ) : (MpdOps.sqrt x : ℝ) = Real.sqrt x := rfl
@[simp] theorem real_arccos (x : ℝ) : (MpdOps.arccos x : ℝ) = Real.arccos x := rfl
@[simp] theorem real_abs (x : ℝ) : (MpdOps.abs x : ℝ) = |x| := rfl
@[simp] theorem real_lt (a b : ℝ) : (MpdOps.lt a b) = decide (a < b) := rfl

theorem clip01_real (x : ℝ) : clip01 x = if x < 0 then 0 else if 1 < x then 1 else x := by
  simp [clip01]

theorem clip01_mem (x : ℝ) : 0 ≤ clip01 x ∧ clip01 x ≤ 1 := by
  rw [clip01_real]
  split_ifs with h1 h2
  · exact ⟨le_refl _, zero_le_one⟩
  · exact ⟨zero_le_one, le_refl _⟩
  · exact ⟨not_lt.mp h1, not_lt.mp h2⟩

theorem clip01_of_one_le {x : ℝ} (h : 1 ≤ x) : clip01 x = 1 := by
  rw [clip01_real]
  split_ifs with h1 h2
  · linarith
  · rfl
  · linarith

/-- `mpd` over `ℝ`, spelled with `Finset` sums -/
theorem mpd_real (n : Nat) (φ : Nat → Cx ℝ) (v01 v11 : ℝ) :
    mpd n φ v01 v11 =
      (∑ k ∈ range n,
        if 0 < Real.sqrt (v01 * v01 + v11 * v11) * Real.sqrt ((φ k).re * (φ k).re + (φ k).im * (φ k).im) then
          Real.sqrt ((φ k).re * (φ k).re + (φ k).im * (φ k).im)
            * Real.arccos (clip01 |((φ k).re * v11 - (φ k).im * v01)
                / (Real.sqrt (v01 * v01 + v11 * v11) * Real.sqrt ((φ k).re * (φ k).re + (φ k).im * (φ k).im))|)
        else 0)
      / (∑ k ∈ range n,
        if 0 < Real.sqrt (v01 * v01 + v11 * v11) * Real.sqrt ((φ k).re * (φ k).re + (φ k).im * (φ k).im) then
          Real.sqrt ((φ k).re * (φ k).re + (φ k).im * (φ k).im) else 0) := by
  simp only [mpd, sumTo_eq, real_sqrt, real_arccos, real_abs, real_lt, Cx.normSq, decide_eq_true_eq]

end real

end PV
