import PyomaVerif.Model.HcRun
import PyomaVerif.Lemmas.HcLink
/-!
# `lrun` (list-of-rows execution of a `run()` body, `Model/HcRun.lean`) simulates `crun` (`Model/HcProg.lean`)

`semL L r c raw` — the meaning of the criteria on `LCell` cells: exactly the cell functions of `Model/Hc.lean`
(`dampMask`, `covMask`, `mpdMask`, `mpcMask` with the limit the statement names, `conjGrid` on an `r × c` grid).
`lexec_sound` / `lrun_sound`: if the list-of-rows execution succeeds from an environment whose tables fit the
grid, so does the cell-function execution under `semL`, and every variable of the list environment holds the
list-of-rows form (`cellAt` / `maskAt`) of what the cell-function environment holds.  No Mathlib.
-/
namespace PV.HcFn
open PV.Hc

/-- **the `Sem` instance of the executable run** -/
def semL (L : Lims) (r c : Nat) (raw : Tbl → T LCell) : Sem (Nat × Nat) LCell where
  orig := fun o => cellAt (raw o)
  cell := fun cr x => match cr with
    | .conj => true
    | .damp thr => dampMask (L.get thr) (x.bind LCell.real?)
    | .cov thr => covMask (L.get thr) (x.bind LCell.real?)
    | .mpd thr => mpdMask (L.get thr) (x.bind LCell.mpd?)
    | .mpc thr => mpcMask (L.get thr) (x.bind LCell.mpc?)
  cell_none := by
    intro cr hc
    cases cr <;> simp_all [dampMask, covMask, mpdMask, mpcMask]
  conjT := fun t x => conjGrid r c (fun y => (t y).bind LCell.cplx?) x

/-- the cell-function value a list value stands for -/
def den : LVal → CVal (Nat × Nat) LCell
  | .tbl t => .tbl (cellAt t)
  | .mask m => .mask (maskAt m)
  | .none => .none
  | .lst l => .lst (l.map (Option.map cellAt))

/-- every table of the value fits the `r × c` grid -/
def FitsV (r c : Nat) : LVal → Prop
  | .tbl t => Fits r c t
  | .lst l => ∀ t, some t ∈ l → Fits r c t
  | _ => True

/-- the simulation relation -/
def Sim (r c : Nat) (le : LEnv) (ce : CEnv (Nat × Nat) LCell) : Prop :=
  ∀ x v, le.get x = some v → ce x = some (den v) ∧ FitsV r c v

theorem lget_set_eq (e : LEnv) (x : Var) (v : LVal) : (e.set x v).get x = some v := by
  simp [LEnv.get, LEnv.set]

theorem lget_set_ne (e : LEnv) (x y : Var) (v : LVal) (h : y ≠ x) : (e.set x v).get y = e.get y := by
  simp [LEnv.get, LEnv.set, Ne.symm h]

theorem Sim.set {r c : Nat} {le : LEnv} {ce : CEnv (Nat × Nat) LCell} (h : Sim r c le ce) (x : Var)
    (lv : LVal) (cv : CVal (Nat × Nat) LCell) (hv : cv = den lv) (hf : FitsV r c lv) :
    Sim r c (le.set x lv) (ce.set x cv) := by
  intro y v hy
  by_cases hxy : y = x
  · subst hxy
    rw [lget_set_eq] at hy
    cases hy
    exact ⟨by simp [CEnv.set, hv], hf⟩
  · rw [lget_set_ne _ _ _ _ hxy] at hy
    obtain ⟨h1, h2⟩ := h y v hy
    exact ⟨by simp [CEnv.set, hxy, h1], h2⟩

/-! ### tables: projections, embeddings, sizes -/

theorem cellAt_projT {β : Type} (f : LCell → Option β) (t : T LCell) (x : Nat × Nat) :
    cellAt (projT f t) x = (cellAt t x).bind f := by
  unfold projT cellAt
  cases h : t[x.1]? with
  | none => simp [h]
  | some row =>
    cases h2 : row[x.2]? with
    | none => simp [h, h2]
    | some o => simp [h, h2]

theorem cellAt_embT {β : Type} (mk : β → LCell) (t : T β) (x : Nat × Nat) :
    cellAt (embT mk t) x = (cellAt t x).map mk := by
  unfold embT cellAt
  cases h : t[x.1]? with
  | none => simp [h]
  | some row =>
    cases h2 : row[x.2]? with
    | none => simp [h, h2]
    | some o => simp [h, h2]

theorem fits_map {α β : Type} (r c : Nat) (g : Option α → Option β) (t : T α) (h : Fits r c t) :
    Fits r c (t.map (·.map g)) := by
  constructor
  · simpa using h.1
  · intro row hrow
    simp only [List.mem_map] at hrow
    obtain ⟨row0, h0, rfl⟩ := hrow
    simpa using h.2 row0 h0

theorem fits_projT {β : Type} (r c : Nat) (f : LCell → Option β) (t : T LCell) (h : Fits r c t) :
    Fits r c (projT f t) := fits_map r c _ t h

theorem fits_embT {β : Type} (r c : Nat) (mk : β → LCell) (t : T β) (h : Fits r c t) :
    Fits r c (embT mk t) := fits_map r c _ t h

theorem fits_applymask {α : Type} (r c : Nat) (t : T α) (m : List (List Bool)) (h : Fits r c t) :
    Fits r c (applymask t m) := by
  unfold applymask
  constructor
  · rw [List.length_zipWith]
    exact Nat.le_trans (Nat.min_le_left _ _) h.1
  · intro row hrow
    obtain ⟨i, hi⟩ := List.mem_iff_getElem?.mp hrow
    rw [List.getElem?_zipWith] at hi
    cases hti : t[i]? with
    | none => rw [hti] at hi; simp at hi
    | some trow =>
      cases hmi : m[i]? with
      | none => rw [hti, hmi] at hi; simp at hi
      | some mrow =>
        rw [hti, hmi] at hi
        simp only [Option.some.injEq] at hi
        subst hi
        rw [List.length_zipWith]
        exact Nat.le_trans (Nat.min_le_left _ _) (h.2 trow (List.mem_of_getElem? hti))

/-- re-embedding a filtered projection gives back the original cells -/
theorem reembed {β : Type} (f : LCell → Option β) (mk : β → LCell) (hmk : ∀ cl b, f cl = some b → mk b = cl)
    (msk : Option β → Bool) (x : Option LCell) :
    ((if msk (x.bind f) then x.bind f else none).map mk = if msk (x.bind f) then x else none) ∨
      (x.bind f = none ∧ x ≠ none) := by
  cases x with
  | none => left; simp
  | some cl =>
    cases hf : f cl with
    | none => right; simp [hf]
    | some b =>
      left
      simp only [Option.bind_some, hf]
      split
      · simp [hmk cl b hf]
      · rfl

theorem real_mk : ∀ cl b, LCell.real? cl = some b → LCell.real b = cl := by
  intro cl b h; cases cl <;> simp_all [LCell.real?]
theorem cplx_mk : ∀ cl b, LCell.cplx? cl = some b → LCell.cplx b = cl := by
  intro cl b h; cases cl <;> simp_all [LCell.cplx?]

/-- a filtered table re-embedded is `maskTbl` of the original (criteria that are false on NaN) -/
theorem cellAt_filtered {β : Type} (f : LCell → Option β) (mk : β → LCell)
    (hmk : ∀ cl b, f cl = some b → mk b = cl) (msk : Option β → Bool) (hnone : msk none = false)
    (t : T LCell) (ft : T β)
    (hft : cellAt ft = maskTbl (fun x => msk (cellAt (projT f t) x)) (cellAt (projT f t))) :
    cellAt (embT mk ft) = maskTbl (fun x => msk ((cellAt t x).bind f)) (cellAt t) := by
  funext x
  rw [cellAt_embT, hft]
  unfold maskTbl
  simp only [cellAt_projT]
  rcases reembed f mk hmk msk (cellAt t x) with h | ⟨h1, _⟩
  · exact h
  · simp [h1, hnone]

/-! ### one statement -/

/-- the mask and the filtered table of a one-table criterion, cell-wise: what `cexec` computes under `semL` -/
theorem hc1Of_spec (L : Lims) (r c : Nat) (raw : Tbl → T LCell) (cr : Crit) (t : T LCell) (hf : Fits r c t) :
    let m : Nat × Nat → Bool :=
      if cr = Crit.conj then (semL L r c raw).conjT (cellAt t) else fun i => (semL L r c raw).cell cr (cellAt t i)
    maskAt (hc1Of L cr t).2 = m ∧ cellAt (hc1Of L cr t).1 = maskTbl m (cellAt t) := by
  intro m
  cases cr with
  | conj =>
    have hm : maskAt (hcConj (projT LCell.cplx? t)).2 = m := by
      funext x
      rw [maskAt_hcConj]
      show _ = conjGrid r c (fun y => (cellAt t y).bind LCell.cplx?) x
      have : (fun y => (cellAt t y).bind LCell.cplx?) = cellAt (projT LCell.cplx? t) := by
        funext y; rw [cellAt_projT]
      rw [this]
      exact (conjGrid_cellAt r c (projT LCell.cplx? t) (fits_projT r c _ t hf) x).symm
    refine ⟨hm, ?_⟩
    show cellAt (embT LCell.cplx (hcConj (projT LCell.cplx? t)).1) = _
    rw [cellAt_filtered LCell.cplx? LCell.cplx cplx_mk (conjMask (projT LCell.cplx? t)) rfl t _
      (cellAt_hcConj _)]
    congr 1
    funext x
    rw [← hm, maskAt_hcConj, cellAt_projT]
  | damp thr =>
    have hm : maskAt (hcDamp (projT LCell.real? t) (L.get thr)).2 = m := by
      funext x
      rw [maskAt_hcDamp, cellAt_projT]
      rfl
    refine ⟨hm, ?_⟩
    show cellAt (embT LCell.real (hcDamp (projT LCell.real? t) (L.get thr)).1) = _
    rw [cellAt_filtered LCell.real? LCell.real real_mk (dampMask (L.get thr)) rfl t _ (cellAt_hcDamp _ _)]
    rfl
  | cov thr =>
    have hm : maskAt (hcCov (projT LCell.real? t) (L.get thr)).2 = m := by
      funext x
      rw [maskAt_hcCov, cellAt_projT]
      rfl
    refine ⟨hm, ?_⟩
    show cellAt (embT LCell.real (hcCov (projT LCell.real? t) (L.get thr)).1) = _
    rw [cellAt_filtered LCell.real? LCell.real real_mk (covMask (L.get thr)) rfl t _ (cellAt_hcCov _ _)]
    rfl
  | mpd thr =>
    have hm : maskAt (hcPhiComp (projT LCell.mpd? t) (projT LCell.mpc? t) 0 (L.get thr)).1 = m := by
      funext x
      rw [(maskAt_hcPhiComp _ _ _ _ x).1, cellAt_projT]
      rfl
    refine ⟨hm, ?_⟩
    show cellAt (applymask t _) = _
    rw [cellAt_applymask, hm]
  | mpc thr =>
    have hm : maskAt (hcPhiComp (projT LCell.mpd? t) (projT LCell.mpc? t) (L.get thr) 0).2 = m := by
      funext x
      rw [(maskAt_hcPhiComp _ _ _ _ x).2, cellAt_projT]
      rfl
    refine ⟨hm, ?_⟩
    show cellAt (applymask t _) = _
    rw [cellAt_applymask, hm]

theorem fits_hc1Of (L : Lims) (r c : Nat) (cr : Crit) (t : T LCell) (hf : Fits r c t) :
    Fits r c (hc1Of L cr t).1 := by
  cases cr with
  | conj => exact fits_embT r c _ _ (fits_map r c _ _ (fits_projT r c _ t hf))
  | damp thr => exact fits_embT r c _ _ (fits_map r c _ _ (fits_projT r c _ t hf))
  | cov thr => exact fits_embT r c _ _ (fits_map r c _ _ (fits_projT r c _ t hf))
  | mpd thr => exact fits_applymask r c t _ hf
  | mpc thr => exact fits_applymask r c t _ hf

theorem lLookList_sim {r c : Nat} {le : LEnv} {ce : CEnv (Nat × Nat) LCell} (h : Sim r c le ce) :
    ∀ (xs : List Var) (ts : List (Option (T LCell))), lLookList le xs = some ts →
      lookList ce xs = some (ts.map (Option.map cellAt)) ∧ ∀ t, some t ∈ ts → Fits r c t := by
  intro xs
  induction xs with
  | nil => intro ts hts; simp [lLookList] at hts; subst hts; simp [lookList]
  | cons x xs ih =>
    intro ts hts
    simp only [lLookList] at hts
    split at hts
    · rename_i t ts' hx hxs
      cases hts
      obtain ⟨h1, h2⟩ := h x _ hx
      obtain ⟨i1, i2⟩ := ih ts' hxs
      refine ⟨by simp [lookList, h1, den, i1], ?_⟩
      intro t' ht'
      rcases List.mem_cons.mp ht' with e | e
      · cases e; exact h2
      · exact i2 t' e
    · rename_i ts' hx hxs
      cases hts
      obtain ⟨h1, _⟩ := h x _ hx
      obtain ⟨i1, i2⟩ := ih ts' hxs
      refine ⟨by simp [lookList, h1, den, i1], ?_⟩
      intro t' ht'
      rcases List.mem_cons.mp ht' with e | e
      · cases e
      · exact i2 t' e
    · cases hts

theorem den_lmaskO (m : List (List Bool)) (t : Option (T LCell)) :
    maskO (maskAt m) (t.map cellAt) = den (lmaskO m t) := by
  cases t with
  | none => rfl
  | some t => simp [maskO, lmaskO, den, cellAt_applymask]

theorem sim_setMany {r c : Nat} :
    ∀ (xs : List Var) (lvs : List LVal) (le : LEnv) (ce : CEnv (Nat × Nat) LCell), Sim r c le ce →
      (∀ v ∈ lvs, FitsV r c v) → Sim r c (lSetMany le xs lvs) (setMany ce xs (lvs.map den)) := by
  intro xs
  induction xs with
  | nil => intro lvs le ce h _; cases lvs <;> simpa [lSetMany, setMany] using h
  | cons x xs ih =>
    intro lvs le ce h hf
    cases lvs with
    | nil => simpa [lSetMany, setMany] using h
    | cons lv lvs =>
      simp only [lSetMany, setMany, List.map_cons]
      exact ih _ _ _ (h.set x lv _ rfl (hf lv (by simp))) (fun v hv => hf v (by simp [hv]))

/-- **one statement**: the list-of-rows step succeeds ⇒ the cell-function step succeeds, relation preserved -/
theorem lexec_sound (L : Lims) (r c : Nat) (raw : Tbl → T LCell) (le le' : LEnv)
    (ce : CEnv (Nat × Nat) LCell) (st : Stmt) (h : Sim r c le ce) (hl : lexec L le st = some le') :
    ∃ ce', cexec (semL L r c raw) ce st = some ce' ∧ Sim r c le' ce' := by
  cases st with
  | hc1 cr dT dM src =>
    simp only [lexec] at hl
    split at hl
    · rename_i t hsrc
      cases hl
      obtain ⟨h1, hf⟩ := h src _ hsrc
      obtain ⟨hm, ht⟩ := hc1Of_spec L r c raw cr t hf
      refine ⟨_, by simp only [cexec, h1, den]; rfl, ?_⟩
      apply Sim.set
      · apply Sim.set h
        · simp only [den]; rw [ht]
        · exact fits_hc1Of L r c cr t hf
      · simp only [den]; rw [hm]
      · trivial
    · cases hl
  | hcPhi d3 d4 src tMpc tMpd =>
    simp only [lexec] at hl
    split at hl
    · rename_i t hsrc
      cases hl
      obtain ⟨h1, _⟩ := h src _ hsrc
      refine ⟨_, by simp only [cexec, h1, den]; rfl, ?_⟩
      apply Sim.set
      · apply Sim.set h
        · simp only [den]
          congr 1
          funext x
          rw [(maskAt_hcPhiComp _ _ _ _ x).1, cellAt_projT]
          rfl
        · trivial
      · simp only [den]
        congr 1
        funext x
        rw [(maskAt_hcPhiComp _ _ _ _ x).2, cellAt_projT]
        rfl
      · trivial
    · cases hl
  | bind l vs =>
    simp only [lexec] at hl
    split at hl
    · rename_i ts hts
      cases hl
      obtain ⟨i1, i2⟩ := lLookList_sim h vs ts hts
      refine ⟨_, by simp only [cexec, i1]; rfl, ?_⟩
      exact h.set l _ _ rfl i2
    · cases hl
  | apply dsts l m =>
    simp only [lexec] at hl
    split at hl
    · rename_i mk ts hm hlst
      split at hl
      · rename_i hlen
        cases hl
        obtain ⟨h1, _⟩ := h m _ hm
        obtain ⟨h2, hf2⟩ := h l _ hlst
        simp only [den] at h1 h2
        refine ⟨_, by simp only [cexec, h1, h2, List.length_map, hlen, if_true]; rfl, ?_⟩
        have : (ts.map (Option.map cellAt)).map (maskO (maskAt mk)) = (ts.map (lmaskO mk)).map den := by
          simp only [List.map_map]
          apply List.map_congr_left
          intro t _
          exact den_lmaskO mk t
        rw [this]
        apply sim_setMany _ _ _ _ h
        intro v hv
        simp only [List.mem_map] at hv
        obtain ⟨t, ht, rfl⟩ := hv
        cases t with
        | none => trivial
        | some t => exact fits_applymask r c t mk (hf2 t ht)
      · cases hl
    · cases hl
  | blank x m =>
    simp only [lexec] at hl
    split at hl
    · rename_i t mk hx hm
      cases hl
      obtain ⟨h1, hf⟩ := h x _ hx
      obtain ⟨h2, _⟩ := h m _ hm
      simp only [den] at h1 h2
      refine ⟨_, by simp only [cexec, h1, h2]; rfl, ?_⟩
      apply Sim.set h
      · simp only [den, cellAt_applymask]
      · exact fits_applymask r c t mk hf
    · cases hl

/-- **the whole statement list** -/
theorem lrun_sound (L : Lims) (r c : Nat) (raw : Tbl → T LCell) : ∀ (prog : List Stmt) (le le' : LEnv)
    (ce : CEnv (Nat × Nat) LCell), Sim r c le ce → lrun L le prog = some le' →
    ∃ ce', crun (semL L r c raw) ce prog = some ce' ∧ Sim r c le' ce' := by
  intro prog
  induction prog with
  | nil => intro le le' ce h hl; simp [lrun] at hl; subst hl; exact ⟨ce, rfl, h⟩
  | cons st prog ih =>
    intro le le' ce h hl
    simp only [lrun] at hl
    split at hl
    · rename_i le1 h1
      obtain ⟨ce1, hc1, hs1⟩ := lexec_sound L r c raw le le1 ce st h h1
      obtain ⟨ce2, hc2, hs2⟩ := ih le1 le' ce1 hs1 hl
      exact ⟨ce2, by simp [crun, hc1, hc2], hs2⟩
    · cases hl

end PV.HcFn
