import PyomaVerif.Model.Poles
import PyomaVerif.Lemmas.Stab
/-!
# What `ssiPoles` (the model of `ssi.SSI_poles`) returns, cell by cell

`ssiPoles_spec`: if the call returns, then `step ≥ 1`, the four tables have `ordmax` rows and
`ordmax/step + 1` columns, pass `k` of the loop (order `ii = 1 + k·step ≤ ordmax`) found `AA[ii]`, `CC[ii]`,
its column index was inside the table, and column `ii` holds in rows `< len(fn)` what `ac2mp` made of
`CC[ii]` and the `k`-th recorded eigen-decomposition, NaN below; every other column is NaN.  With
`calc_unc` the cells `(jj, ii)`, `jj < len(lam_c)`, of `Fn_cov` / `Xi_cov` hold `|cov_fx[0,0]|`,
`|cov_fx[1,0]|` of the `jj`-th eigen-triple of that pass.
-/
namespace PV.Poles
open PV

/-- what pass `k` of the loop obtains from `ac2mp(A, C, dt)` -/
def passOut (inp : SsiIn) (k : Nat) (C : Mat Rat) : Ac2mpOut :=
  ac2mp C (inp.recs.getD k EigRec.empty) inp.twoPi

/-- cell of an optional table (`none` for a table that does not exist) -/
def ocell (M : Option (Mat NR)) (r c : Nat) : NR :=
  match M with
  | some m => m.e r c
  | none => none

/-- column `ii` of `T'` is column `ii` of `T` overwritten by the results `o` of one pass -/
structure ColIs (T' T : SsiTables) (ii : Nat) (o : Ac2mpOut) : Prop where
  fn : ∀ r, T'.fn.e r ii = if r < o.fn.length then o.fn[r]? else T.fn.e r ii
  xi : ∀ r, T'.xi.e r ii = if r < o.fn.length then o.xi[r]? else T.xi.e r ii
  lam : ∀ r, T'.lam.e r ii = if r < o.fn.length then (o.lamc[r]?).map toCQ else T.lam.e r ii
  phi : ∀ r k, T'.phi.e r ii k
    = if r < o.fn.length then ((o.phi.getD r [])[k]?).map toCQ else T.phi.e r ii k

/-- column `c` is the same in `T'` and `T` (all six tables) -/
structure SameCol (T' T : SsiTables) (c : Nat) : Prop where
  fn : ∀ r, T'.fn.e r c = T.fn.e r c
  xi : ∀ r, T'.xi.e r c = T.xi.e r c
  lam : ∀ r, T'.lam.e r c = T.lam.e r c
  phi : ∀ r k, T'.phi.e r c k = T.phi.e r c k
  fnCov : ∀ r, ocell T'.fnCov r c = ocell T.fnCov r c
  xiCov : ∀ r, ocell T'.xiCov r c = ocell T.xiCov r c

structure SameShape (T' T : SsiTables) : Prop where
  fnr : T'.fn.r = T.fn.r
  fnc : T'.fn.c = T.fn.c
  xir : T'.xi.r = T.xi.r
  xic : T'.xi.c = T.xi.c
  lamr : T'.lam.r = T.lam.r
  lamc : T'.lam.c = T.lam.c
  phir : T'.phi.r = T.phi.r
  phic : T'.phi.c = T.phi.c
  phid : T'.phi.d = T.phi.d
  fnCov : T'.fnCov.isSome = T.fnCov.isSome
  xiCov : T'.xiCov.isSome = T.xiCov.isSome
  phiCov : T'.phiCov = T.phiCov

theorem SameShape.refl (T : SsiTables) : SameShape T T :=
  ⟨rfl, rfl, rfl, rfl, rfl, rfl, rfl, rfl, rfl, rfl, rfl, rfl⟩

theorem SameShape.trans {A B C : SsiTables} (h1 : SameShape A B) (h2 : SameShape B C) :
    SameShape A C :=
  ⟨h1.fnr.trans h2.fnr, h1.fnc.trans h2.fnc, h1.xir.trans h2.xir, h1.xic.trans h2.xic,
   h1.lamr.trans h2.lamr, h1.lamc.trans h2.lamc, h1.phir.trans h2.phir, h1.phic.trans h2.phic,
   h1.phid.trans h2.phid, h1.fnCov.trans h2.fnCov, h1.xiCov.trans h2.xiCov, h1.phiCov.trans h2.phiCov⟩

theorem SameCol.refl (T : SsiTables) (c : Nat) : SameCol T T c :=
  ⟨fun _ => rfl, fun _ => rfl, fun _ => rfl, fun _ _ => rfl, fun _ => rfl, fun _ => rfl⟩

theorem SameCol.trans {A B C : SsiTables} {c : Nat} (h1 : SameCol A B c) (h2 : SameCol B C c) :
    SameCol A C c :=
  ⟨fun r => (h1.fn r).trans (h2.fn r), fun r => (h1.xi r).trans (h2.xi r),
   fun r => (h1.lam r).trans (h2.lam r), fun r k => (h1.phi r k).trans (h2.phi r k),
   fun r => (h1.fnCov r).trans (h2.fnCov r), fun r => (h1.xiCov r).trans (h2.xiCov r)⟩

/-! ## the inner loop over the poles of one order -/

/-- the two values the pass `(jj, ii)` stores -/
def covVals (u : UncIn) (ordmax ii : Nat) (OO : Mat Rat) (e : EigRec) (jj : Nat) : Rat × Rat :=
  (qabs (Unc.var00 (ufxAt u ordmax ii OO e jj)), qabs (var10 (ufxAt u ordmax ii OO e jj)))

theorem covLoop_cells (u : UncIn) (ordmax ii : Nat) (OO : Mat Rat) (e : EigRec) :
    ∀ (js : List Nat) (T : Mat NR × Mat NR),
      ((covLoop u ordmax ii OO e js T).1.r = T.1.r ∧ (covLoop u ordmax ii OO e js T).1.c = T.1.c
        ∧ (covLoop u ordmax ii OO e js T).2.r = T.2.r ∧ (covLoop u ordmax ii OO e js T).2.c = T.2.c)
      ∧ ∀ r c,
        (covLoop u ordmax ii OO e js T).1.e r c
          = (if c = ii ∧ r ∈ js then some (covVals u ordmax ii OO e r).1 else T.1.e r c)
        ∧ (covLoop u ordmax ii OO e js T).2.e r c
          = (if c = ii ∧ r ∈ js then some (covVals u ordmax ii OO e r).2 else T.2.e r c) := by
  intro js
  induction js with
  | nil => intro T; simp [covLoop]
  | cons jj rest ih =>
    intro T
    unfold covLoop
    obtain ⟨hs, hc⟩ := ih (setCell T.1 jj ii (qabs (Unc.var00 (ufxAt u ordmax ii OO e jj))),
      setCell T.2 jj ii (qabs (var10 (ufxAt u ordmax ii OO e jj))))
    refine ⟨hs, ?_⟩
    intro r c
    obtain ⟨h1, h2⟩ := hc r c
    simp only [] at h1 h2 ⊢
    rw [h1, h2]
    by_cases hci : c = ii
    · by_cases hr : r ∈ rest
      · simp [hci, hr]
      · by_cases hrj : r = jj
        · subst hrj; simp [hci, hr, setCell, covVals]
        · simp [hci, hr, hrj, setCell]
    · simp [hci, setCell]

/-! ## one pass -/

theorem ssiStep_ok {inp : SsiIn} {T T1 : SsiTables} {k ii : Nat}
    (h : ssiStep inp T k ii = .ok T1) :
    ∃ A C, inp.AA[ii]? = some A ∧ inp.CC[ii]? = some C ∧ ii < T.fn.c
      ∧ (passOut inp k C).fn.length ≤ T.fn.r ∧ C.r = T.phi.d
      ∧ T1 = { T with
          fn := setCol T.fn ii (passOut inp k C).fn.length (passOut inp k C).fn,
          xi := setCol T.xi ii (passOut inp k C).fn.length (passOut inp k C).xi,
          phi := setCol3 T.phi ii (passOut inp k C).fn.length (passOut inp k C).phi,
          lam := setCol T.lam ii (passOut inp k C).fn.length ((passOut inp k C).lamc.map toCQ),
          fnCov := (covStep inp.unc inp.ordmax k ii (inp.recs.getD k EigRec.empty)
            (passOut inp k C).lamc.length T.fnCov T.xiCov).1,
          xiCov := (covStep inp.unc inp.ordmax k ii (inp.recs.getD k EigRec.empty)
            (passOut inp k C).lamc.length T.fnCov T.xiCov).2 } := by
  unfold ssiStep at h
  split at h
  · cases h
  · cases h
  · rename_i A C hA hC
    simp only [] at h
    split at h
    · cases h
    · split at h
      · cases h
      · split at h
        · cases h
        · rename_i h1 h2 h3
          refine ⟨A, C, hA, hC, by omega, ?_, ?_, ?_⟩
          · unfold passOut; omega
          · exact Decidable.of_not_not h3
          · injection h with h
            exact h.symm

theorem covStep_isSome (unc : Option UncIn) (ordmax k ii : Nat) (e : EigRec) (n : Nat)
    (FC XC : Option (Mat NR)) :
    (covStep unc ordmax k ii e n FC XC).1.isSome = FC.isSome
      ∧ (covStep unc ordmax k ii e n FC XC).2.isSome = XC.isSome := by
  unfold covStep
  split <;> simp

theorem covStep_other (unc : Option UncIn) (ordmax k ii : Nat) (e : EigRec) (n : Nat)
    (FC XC : Option (Mat NR)) (c : Nat) (hc : c ≠ ii) (r : Nat) :
    ocell (covStep unc ordmax k ii e n FC XC).1 r c = ocell FC r c
      ∧ ocell (covStep unc ordmax k ii e n FC XC).2 r c = ocell XC r c := by
  unfold covStep
  split
  · rename_i u F X
    obtain ⟨_, hcell⟩ := covLoop_cells u ordmax ii (u.OO.getD k ⟨0, 0, fun _ _ => 0⟩) e
      (List.range n) (F, X)
    obtain ⟨h1, h2⟩ := hcell r c
    simp only [ocell]
    rw [h1, h2]
    simp [hc]
  · exact ⟨rfl, rfl⟩

/-- the cells of column `ii` after the uncertainty block of order `ii` -/
theorem covStep_cell (unc : Option UncIn) (ordmax k ii : Nat) (e : EigRec) (n : Nat)
    (FC XC : Option (Mat NR)) (r : Nat) :
    ocell (covStep unc ordmax k ii e n FC XC).1 r ii
      = (match unc, FC, XC with
         | some u, some F, some _ =>
           if r < n then some (covVals u ordmax ii (u.OO.getD k ⟨0, 0, fun _ _ => 0⟩) e r).1
           else F.e r ii
         | _, _, _ => ocell FC r ii)
    ∧ ocell (covStep unc ordmax k ii e n FC XC).2 r ii
      = (match unc, FC, XC with
         | some u, some _, some X =>
           if r < n then some (covVals u ordmax ii (u.OO.getD k ⟨0, 0, fun _ _ => 0⟩) e r).2
           else X.e r ii
         | _, _, _ => ocell XC r ii) := by
  unfold covStep
  split
  · rename_i u F X
    obtain ⟨_, hcell⟩ := covLoop_cells u ordmax ii (u.OO.getD k ⟨0, 0, fun _ _ => 0⟩) e
      (List.range n) (F, X)
    obtain ⟨h1, h2⟩ := hcell r ii
    simp only [ocell]
    rw [h1, h2]
    simp
  · rename_i hne
    constructor
    · split
      · rename_i u F X; exact (hne u F X rfl rfl rfl).elim
      · rfl
    · split
      · rename_i u F X; exact (hne u F X rfl rfl rfl).elim
      · rfl

/-- the cells of column `ii` after the block depend on the tables only through column `ii` and
    through which tables exist -/
theorem covStep_congr (unc : Option UncIn) (ordmax k ii : Nat) (e : EigRec) (n : Nat)
    (FC XC FC' XC' : Option (Mat NR)) (hF : FC.isSome = FC'.isSome) (hX : XC.isSome = XC'.isSome)
    (hFc : ∀ r, ocell FC r ii = ocell FC' r ii) (hXc : ∀ r, ocell XC r ii = ocell XC' r ii) (r : Nat) :
    ocell (covStep unc ordmax k ii e n FC XC).1 r ii = ocell (covStep unc ordmax k ii e n FC' XC').1 r ii
    ∧ ocell (covStep unc ordmax k ii e n FC XC).2 r ii
      = ocell (covStep unc ordmax k ii e n FC' XC').2 r ii := by
  obtain ⟨a1, a2⟩ := covStep_cell unc ordmax k ii e n FC XC r
  obtain ⟨b1, b2⟩ := covStep_cell unc ordmax k ii e n FC' XC' r
  rw [a1, a2, b1, b2]
  have hFr := hFc r
  have hXr := hXc r
  cases unc <;> cases FC <;> cases XC <;> cases FC' <;> cases XC' <;>
    simp_all [ocell]

theorem ssiStep_spec {inp : SsiIn} {T T1 : SsiTables} {k ii : Nat}
    (h : ssiStep inp T k ii = .ok T1) :
    SameShape T1 T ∧ (∀ c, c ≠ ii → SameCol T1 T c)
      ∧ ∃ A C, inp.AA[ii]? = some A ∧ inp.CC[ii]? = some C ∧ ii < T.fn.c
        ∧ (passOut inp k C).fn.length ≤ T.fn.r ∧ C.r = T.phi.d
        ∧ ColIs T1 T ii (passOut inp k C)
        ∧ T1.fnCov = (covStep inp.unc inp.ordmax k ii (inp.recs.getD k EigRec.empty)
            (passOut inp k C).lamc.length T.fnCov T.xiCov).1
        ∧ T1.xiCov = (covStep inp.unc inp.ordmax k ii (inp.recs.getD k EigRec.empty)
            (passOut inp k C).lamc.length T.fnCov T.xiCov).2 := by
  obtain ⟨A, C, hA, hC, h1, h2, h3, rfl⟩ := ssiStep_ok h
  have hs := covStep_isSome inp.unc inp.ordmax k ii (inp.recs.getD k EigRec.empty)
    (passOut inp k C).lamc.length T.fnCov T.xiCov
  refine ⟨⟨rfl, rfl, rfl, rfl, rfl, rfl, rfl, rfl, rfl, hs.1, hs.2, rfl⟩, ?_,
    A, C, hA, hC, h1, h2, h3, ?_, rfl, rfl⟩
  · intro c hc
    have ho := covStep_other inp.unc inp.ordmax k ii (inp.recs.getD k EigRec.empty)
      (passOut inp k C).lamc.length T.fnCov T.xiCov c hc
    refine ⟨?_, ?_, ?_, ?_, fun r => (ho r).1, fun r => (ho r).2⟩ <;> intros <;>
      simp [setCol, setCol3, hc]
  · refine ⟨?_, ?_, ?_, ?_⟩ <;> intros <;> simp [setCol, setCol3]

/-! ## the loop -/

theorem ColIs.of_same {T2 T1 T : SsiTables} {ii : Nat} {o : Ac2mpOut} (h : ColIs T1 T ii o)
    (hs : SameCol T2 T1 ii) : ColIs T2 T ii o :=
  ⟨fun r => (hs.fn r).trans (h.fn r), fun r => (hs.xi r).trans (h.xi r),
   fun r => (hs.lam r).trans (h.lam r), fun r k => (hs.phi r k).trans (h.phi r k)⟩

theorem ColIs.same_base {T2 T1 T : SsiTables} {ii : Nat} {o : Ac2mpOut} (h : ColIs T2 T1 ii o)
    (hs : SameCol T1 T ii) : ColIs T2 T ii o :=
  ⟨fun r => by rw [h.fn r, hs.fn r], fun r => by rw [h.xi r, hs.xi r],
   fun r => by rw [h.lam r, hs.lam r], fun r k => by rw [h.phi r k, hs.phi r k]⟩

/-- the loop over the orders `rest` (distinct), starting with pass number `k` on tables `T` -/
theorem ssiLoop_spec (inp : SsiIn) :
    ∀ (rest : List Nat) (k : Nat) (T T' : SsiTables), ssiLoop inp rest k T = .ok T' → rest.Nodup →
      SameShape T' T ∧ (∀ c, c ∉ rest → SameCol T' T c)
      ∧ ∀ j ii, rest[j]? = some ii →
          ∃ A C, inp.AA[ii]? = some A ∧ inp.CC[ii]? = some C ∧ ii < T.fn.c
            ∧ (passOut inp (k + j) C).fn.length ≤ T.fn.r ∧ C.r = T.phi.d
            ∧ ColIs T' T ii (passOut inp (k + j) C)
            ∧ (∀ r, ocell T'.fnCov r ii
                = ocell (covStep inp.unc inp.ordmax (k + j) ii (inp.recs.getD (k + j) EigRec.empty)
                    (passOut inp (k + j) C).lamc.length T.fnCov T.xiCov).1 r ii)
            ∧ (∀ r, ocell T'.xiCov r ii
                = ocell (covStep inp.unc inp.ordmax (k + j) ii (inp.recs.getD (k + j) EigRec.empty)
                    (passOut inp (k + j) C).lamc.length T.fnCov T.xiCov).2 r ii) := by
  intro rest
  induction rest with
  | nil =>
    intro k T T' h _
    simp only [ssiLoop] at h
    injection h with h
    subst h
    exact ⟨SameShape.refl _, fun c _ => SameCol.refl _ c, fun j ii hj => by simp at hj⟩
  | cons i0 rest ih =>
    intro k T T' h hnd
    unfold ssiLoop at h
    split at h
    · cases h
    · rename_i T1 hstep
      obtain ⟨hsh1, hoth1, A, C, hA, hC, hc1, hlen1, hd1, hcol1, hF1, hX1⟩ := ssiStep_spec hstep
      obtain ⟨hnot, hnd'⟩ := List.nodup_cons.mp hnd
      obtain ⟨hsh, hoth, hcells⟩ := ih (k + 1) T1 T' h hnd'
      refine ⟨hsh.trans hsh1, ?_, ?_⟩
      · intro c hc
        have hc0 : c ≠ i0 := fun e => hc (by simp [e])
        have hcr : c ∉ rest := fun e => hc (by simp [e])
        exact (hoth c hcr).trans (hoth1 c hc0)
      · intro j ii hj
        cases j with
        | zero =>
          simp only [List.getElem?_cons_zero, Option.some.injEq] at hj
          subst hj
          have hsame := hoth i0 hnot
          refine ⟨A, C, hA, hC, hc1, hlen1, hd1, hcol1.of_same hsame, ?_, ?_⟩
          · intro r; rw [Nat.add_zero, hsame.fnCov r, hF1]
          · intro r; rw [Nat.add_zero, hsame.xiCov r, hX1]
        | succ j =>
          simp only [List.getElem?_cons_succ] at hj
          have hii : ii ≠ i0 := by
            intro e
            apply hnot
            rw [← e]
            exact List.mem_of_getElem? hj
          obtain ⟨A2, C2, hA2, hC2, hc2, hlen2, hd2, hcol2, hF2, hX2⟩ := hcells j ii hj
          have hk : k + 1 + j = k + (j + 1) := by omega
          rw [hk] at hlen2 hcol2 hF2 hX2
          have hsame := hoth1 ii hii
          refine ⟨A2, C2, hA2, hC2, by rw [← hsh1.fnc]; exact hc2, by rw [← hsh1.fnr]; exact hlen2,
            by rw [← hsh1.phid]; exact hd2, hcol2.same_base hsame, ?_, ?_⟩
          · intro r
            rw [hF2 r, hF1, hX1]
            exact (covStep_congr inp.unc inp.ordmax (k + (j + 1)) ii _ _ _ _ _ _
              (covStep_isSome _ _ _ _ _ _ _ _).1 (covStep_isSome _ _ _ _ _ _ _ _).2
              (fun r => (covStep_other _ _ _ _ _ _ _ _ ii hii r).1)
              (fun r => (covStep_other _ _ _ _ _ _ _ _ ii hii r).2) r).1
          · intro r
            rw [hX2 r, hF1, hX1]
            exact (covStep_congr inp.unc inp.ordmax (k + (j + 1)) ii _ _ _ _ _ _
              (covStep_isSome _ _ _ _ _ _ _ _).1 (covStep_isSome _ _ _ _ _ _ _ _).2
              (fun r => (covStep_other _ _ _ _ _ _ _ _ ii hii r).1)
              (fun r => (covStep_other _ _ _ _ _ _ _ _ ii hii r).2) r).2

/-! ## the whole call -/

theorem ssiOrders_nodup (ordmax step : Nat) (hs : 0 < step) : (ssiOrders ordmax step).Nodup := by
  unfold ssiOrders scOrders
  refine List.Nodup.map ?_ List.nodup_range
  intro a b hab
  simp only [] at hab
  have : a * step = b * step := by omega
  exact Nat.eq_of_mul_eq_mul_right hs this

theorem ssiOrders_get (ordmax step : Nat) (hs : 0 < step) (k : Nat) (hk : 1 + k * step ≤ ordmax) :
    (ssiOrders ordmax step)[k]? = some (1 + k * step) := by
  unfold ssiOrders scOrders
  rw [List.getElem?_map, List.getElem?_range]
  · rfl
  · apply (Nat.le_div_iff_mul_le hs).mpr
    rw [Nat.succ_mul]
    omega

/-- **what `ssiPoles` returns** (the model of `ssi.SSI_poles`, any `step`, with or without
    `calc_unc`).  `ii = 1 + k·step` is the order of pass `k`. -/
theorem ssiPoles_spec (inp : SsiIn) (T : SsiTables) (h : ssiPoles inp = .ok T) :
    0 < inp.step
    ∧ (∃ C0, inp.CC[0]? = some C0 ∧ T.phi.d = C0.r)
    ∧ (T.fn.r = inp.ordmax ∧ T.fn.c = inp.ordmax / inp.step + 1
      ∧ T.xi.r = inp.ordmax ∧ T.xi.c = inp.ordmax / inp.step + 1
      ∧ T.lam.r = inp.ordmax ∧ T.lam.c = inp.ordmax / inp.step + 1
      ∧ T.phi.r = inp.ordmax ∧ T.phi.c = inp.ordmax / inp.step + 1)
    ∧ (T.fnCov.isSome = inp.unc.isSome ∧ T.xiCov.isSome = inp.unc.isSome
      ∧ T.phiCov.isSome = inp.unc.isSome)
    ∧ (∀ k, 1 + k * inp.step ≤ inp.ordmax →
        ∃ A C, inp.AA[1 + k * inp.step]? = some A ∧ inp.CC[1 + k * inp.step]? = some C
          ∧ 1 + k * inp.step < inp.ordmax / inp.step + 1
          ∧ (passOut inp k C).fn.length ≤ inp.ordmax ∧ C.r = T.phi.d
          ∧ (∀ r, T.fn.e r (1 + k * inp.step) = (passOut inp k C).fn[r]?)
          ∧ (∀ r, T.xi.e r (1 + k * inp.step)
              = if r < (passOut inp k C).fn.length then (passOut inp k C).xi[r]? else none)
          ∧ (∀ r, T.lam.e r (1 + k * inp.step)
              = if r < (passOut inp k C).fn.length then ((passOut inp k C).lamc[r]?).map toCQ
                else none)
          ∧ (∀ r t, T.phi.e r (1 + k * inp.step) t
              = if r < (passOut inp k C).fn.length
                then (((passOut inp k C).phi.getD r [])[t]?).map toCQ else none)
          ∧ ∀ u, inp.unc = some u → ∀ jj,
              ocell T.fnCov jj (1 + k * inp.step)
                = (if jj < (passOut inp k C).lamc.length
                   then some (covVals u inp.ordmax (1 + k * inp.step)
                     (u.OO.getD k ⟨0, 0, fun _ _ => 0⟩) (inp.recs.getD k EigRec.empty) jj).1
                   else none)
              ∧ ocell T.xiCov jj (1 + k * inp.step)
                = (if jj < (passOut inp k C).lamc.length
                   then some (covVals u inp.ordmax (1 + k * inp.step)
                     (u.OO.getD k ⟨0, 0, fun _ _ => 0⟩) (inp.recs.getD k EigRec.empty) jj).2
                   else none))
    ∧ (∀ c, (∀ k, c = 1 + k * inp.step → inp.ordmax < c) →
        (∀ r, T.fn.e r c = none ∧ T.xi.e r c = none ∧ T.lam.e r c = none
          ∧ ocell T.fnCov r c = none ∧ ocell T.xiCov r c = none)
        ∧ ∀ r t, T.phi.e r c t = none) := by
  unfold ssiPoles at h
  split at h
  · cases h
  · rename_i C0 hC0
    split at h
    · cases h
    · rename_i hstep
      have hs : 0 < inp.step := Nat.pos_of_ne_zero hstep
      simp only [] at h
      obtain ⟨hsh, hoth, hcells⟩ := ssiLoop_spec inp _ 0 _ T h (ssiOrders_nodup inp.ordmax inp.step hs)
      refine ⟨hs, ⟨C0, hC0, hsh.phid⟩, ⟨hsh.fnr, hsh.fnc, hsh.xir, hsh.xic, hsh.lamr, hsh.lamc,
        hsh.phir, hsh.phic⟩, ?_, ?_, ?_⟩
      · refine ⟨?_, ?_, ?_⟩
        · rw [hsh.fnCov]; cases inp.unc <;> rfl
        · rw [hsh.xiCov]; cases inp.unc <;> rfl
        · rw [hsh.phiCov]; cases inp.unc <;> rfl
      · intro k hk
        obtain ⟨A, C, hA, hC, hc, hlen, hd, hcol, hF, hX⟩ :=
          hcells k (1 + k * inp.step) (ssiOrders_get inp.ordmax inp.step hs k hk)
        rw [Nat.zero_add] at hlen hcol hF hX
        refine ⟨A, C, hA, hC, hc, hlen, by rw [hsh.phid]; exact hd, ?_, ?_, ?_, ?_, ?_⟩
        · intro r
          rw [hcol.fn r]
          by_cases hr : r < (passOut inp k C).fn.length
          · simp [hr]
          · rw [if_neg hr]
            exact (List.getElem?_eq_none_iff.mpr (by omega)).symm
        · intro r; exact hcol.xi r
        · intro r; exact hcol.lam r
        · intro r t; exact hcol.phi r t
        · intro u hu jj
          obtain ⟨c1, c2⟩ := covStep_cell inp.unc inp.ordmax k (1 + k * inp.step)
            (inp.recs.getD k EigRec.empty) (passOut inp k C).lamc.length
            (inp.unc.map fun _ => nanMat inp.ordmax (inp.ordmax / inp.step + 1))
            (inp.unc.map fun _ => nanMat inp.ordmax (inp.ordmax / inp.step + 1)) jj
          rw [hF jj, hX jj, c1, c2, hu]
          exact ⟨rfl, rfl⟩
      · intro c hc
        have hnot : c ∉ ssiOrders inp.ordmax inp.step := by
          intro hmem
          obtain ⟨k, hk1, hk2⟩ := (mem_scOrders 1 inp.ordmax inp.step hs c).mp hmem
          have := hc k hk1
          omega
        have hsame := hoth c hnot
        refine ⟨fun r => ⟨?_, ?_, ?_, ?_, ?_⟩, fun r t => ?_⟩
        · rw [hsame.fn r]; rfl
        · rw [hsame.xi r]; rfl
        · rw [hsame.lam r]; rfl
        · rw [hsame.fnCov r]; cases inp.unc <;> rfl
        · rw [hsame.xiCov r]; cases inp.unc <;> rfl
        · rw [hsame.phi r t]

/-! ## the call returns on well-formed input -/

theorem ssiLoop_ok (inp : SsiIn) (w nch : Nat) :
    ∀ (rest : List Nat) (k : Nat) (T : SsiTables), T.fn.c = w → T.fn.r = inp.ordmax → T.phi.d = nch →
      (∀ j ii, rest[j]? = some ii → ii < w ∧ (∃ A, inp.AA[ii]? = some A)
        ∧ ∃ C, inp.CC[ii]? = some C ∧ C.r = nch ∧ (passOut inp (k + j) C).fn.length ≤ inp.ordmax) →
      ∃ T', ssiLoop inp rest k T = .ok T' := by
  intro rest
  induction rest with
  | nil => intro k T _ _ _ _; exact ⟨T, rfl⟩
  | cons i0 rest ih =>
    intro k T hw hr hd hall
    obtain ⟨h1, ⟨A, hA⟩, C, hC, hCr, hlen⟩ := hall 0 i0 rfl
    rw [Nat.add_zero] at hlen
    have hstep : ∃ T1, ssiStep inp T k i0 = .ok T1 := by
      unfold ssiStep
      rw [hA, hC]
      simp only []
      rw [if_neg (by omega), if_neg (by unfold passOut at hlen; omega), if_neg (by rw [hCr, hd]; simp)]
      exact ⟨_, rfl⟩
    obtain ⟨T1, hT1⟩ := hstep
    obtain ⟨hsh, _, _⟩ := ssiStep_spec hT1
    obtain ⟨T', hT'⟩ := ih (k + 1) T1 (by rw [hsh.fnc]; exact hw) (by rw [hsh.fnr]; exact hr)
      (by rw [hsh.phid]; exact hd) (by
        intro j ii hj
        have := hall (j + 1) ii (by simpa using hj)
        have hk : k + 1 + j = k + (j + 1) := by omega
        rw [hk]; exact this)
    refine ⟨T', ?_⟩
    unfold ssiLoop
    rw [hT1]
    exact hT'

/-- **`ssiPoles` returns** for `step = 1` when the two lists reach position `ordmax`, every `C` has the
    row count of `CC[0]`, and no recorded eigen-decomposition has more than `ordmax` eigenvalues
    (the lists of `SSI_fast`: `AA[ii]` is `ii × ii`). -/
theorem ssiPoles_ok (inp : SsiIn) (hs : inp.step = 1) (hA : inp.ordmax < inp.AA.length)
    (hC : inp.ordmax < inp.CC.length)
    (hr : ∀ ii, (h : ii < inp.CC.length) → (inp.CC[ii]).r = (inp.CC[0]'(by omega)).r)
    (hrec : ∀ k, k < inp.ordmax → (inp.recs.getD k EigRec.empty).absc.length ≤ inp.ordmax) :
    ∃ T, ssiPoles inp = .ok T := by
  unfold ssiPoles
  have h0 : inp.CC[0]? = some (inp.CC[0]'(by omega)) := List.getElem?_eq_getElem (by omega)
  rw [h0]
  simp only []
  rw [if_neg (by omega)]
  apply ssiLoop_ok inp (inp.ordmax / inp.step + 1) (inp.CC[0]'(by omega)).r _ 0 _ rfl rfl rfl
  intro j ii hj
  have hmem : ii ∈ ssiOrders inp.ordmax inp.step := List.mem_of_getElem? hj
  obtain ⟨k, hk1, hk2⟩ := (mem_scOrders 1 inp.ordmax inp.step (by omega) ii).mp hmem
  have hjk : (ssiOrders inp.ordmax inp.step)[k]? = some ii := by
    rw [hk1]; exact ssiOrders_get inp.ordmax inp.step (by omega) k (by omega)
  have hjeq : j = k := by
    have hnd := ssiOrders_nodup inp.ordmax inp.step (by omega)
    have hj' := List.getElem?_eq_some_iff.mp hj
    have hk' := List.getElem?_eq_some_iff.mp hjk
    obtain ⟨hjl, hje⟩ := hj'
    obtain ⟨hkl, hke⟩ := hk'
    exact (List.Nodup.getElem_inj_iff hnd).mp (hje.trans hke.symm)
  subst hjeq
  rw [hs, Nat.mul_one] at hk1
  refine ⟨by rw [hs, Nat.div_one]; omega, ⟨_, List.getElem?_eq_getElem (by omega)⟩,
    inp.CC[ii]'(by omega), List.getElem?_eq_getElem (by omega), hr ii (by omega), ?_⟩
  rw [Nat.zero_add]
  unfold passOut ac2mp
  simp only [List.length_map]
  exact hrec j (by omega)

/-! ## the loop of the legacy `ssi.SSI` -/

section legacy
variable {K : Type} [Zero K] [Add K] [Mul K]

omit [Add K] in
/-- inside the recorded factors (`ii ≤ U1.shape[1]`, `ii ≤ len(S1)`) the pass forms the `ii`-column factor -/
theorem legacyObs_ok (U : Mat K) (sq : List K) (ii : Nat) (hU : ii ≤ U.c) (hs : ii ≤ sq.length) :
    legacyObs U sq ii = .ok (obsOf U (fun j => sq.getD j 0) ii) := by
  unfold legacyObs
  rw [Nat.min_eq_left hU, Nat.min_eq_left hs, if_neg (by simp)]

/-- the loop over orders that all lie inside the recorded factors returns; position `j` of the lists
    holds the pair of order `rest[j]`, built with the pseudo-inverse recorded in pass `k + j` -/
theorem legacyLoop_spec (Pinv : Nat → Mat K) (U : Mat K) (sq : List K) (l : Nat) :
    ∀ (rest : List Nat) (k : Nat), (∀ ii, ii ∈ rest → ii ≤ U.c ∧ ii ≤ sq.length) →
      ∃ As Cs, legacyLoop Pinv U sq l rest k = .ok (As, Cs)
        ∧ As.length = rest.length ∧ Cs.length = rest.length
        ∧ ∀ j ii, rest[j]? = some ii →
            As[j]? = some (legacyA (Pinv (k + j)) (obsOf U (fun j => sq.getD j 0) ii) l)
            ∧ Cs[j]? = some (outC (obsOf U (fun j => sq.getD j 0) ii) l ii) := by
  intro rest
  induction rest with
  | nil => intro k _; exact ⟨[], [], rfl, rfl, rfl, fun j ii h => by simp at h⟩
  | cons i0 rest ih =>
    intro k hall
    obtain ⟨h0U, h0s⟩ := hall i0 (by simp)
    obtain ⟨As, Cs, hok, hAl, hCl, hget⟩ := ih (k + 1) (fun ii hi => hall ii (by simp [hi]))
    refine ⟨_, _, by unfold legacyLoop; rw [legacyObs_ok U sq i0 h0U h0s, hok], by simp [hAl],
      by simp [hCl], ?_⟩
    intro j ii hj
    cases j with
    | zero =>
      simp only [List.getElem?_cons_zero, Option.some.injEq] at hj
      subst hj
      exact ⟨rfl, rfl⟩
    | succ j =>
      simp only [List.getElem?_cons_succ] at hj ⊢
      have hk : k + (j + 1) = k + 1 + j := by omega
      rw [hk]
      exact hget j ii hj

theorem scOrders_zero_get (ordmax step : Nat) (hs : 0 < step) (k : Nat) (hk : k * step ≤ ordmax) :
    (scOrders 0 ordmax step)[k]? = some (k * step) := by
  unfold scOrders
  rw [List.getElem?_map, List.getElem?_range]
  · simp
  · apply (Nat.le_div_iff_mul_le hs).mpr
    rw [Nat.succ_mul]
    omega

theorem scOrders_zero_length (ordmax step : Nat) (hs : 0 < step) :
    (scOrders 0 ordmax step).length = ordmax / step + 1 := by
  unfold scOrders
  rw [List.length_map, List.length_range]
  have : ordmax + 1 - 0 + step - 1 = ordmax + step := by omega
  rw [this, Nat.add_div_right _ hs]

/-- **what `legacyLists` returns** when `ordmax` lies inside the recorded factors: two lists of
    `ordmax/step + 1` entries, position `k` holding `A`, `C` of order `k·step`. -/
theorem legacyLists_spec (Pinv : Nat → Mat K) (U : Mat K) (sq : List K) (l ordmax step : Nat)
    (hs : 0 < step) (hU : ordmax ≤ U.c) (hq : ordmax ≤ sq.length) :
    ∃ As Cs, legacyLists Pinv U sq l ordmax step = .ok (As, Cs)
      ∧ As.length = ordmax / step + 1 ∧ Cs.length = ordmax / step + 1
      ∧ ∀ k, k * step ≤ ordmax →
          As[k]? = some (legacyA (Pinv k) (obsOf U (fun j => sq.getD j 0) (k * step)) l)
          ∧ Cs[k]? = some (outC (obsOf U (fun j => sq.getD j 0) (k * step)) l (k * step)) := by
  obtain ⟨As, Cs, hok, hAl, hCl, hget⟩ := legacyLoop_spec Pinv U sq l (scOrders 0 ordmax step) 0 (by
    intro ii hi
    obtain ⟨k, hk1, hk2⟩ := (mem_scOrders 0 ordmax step hs ii).mp hi
    omega)
  refine ⟨As, Cs, hok, by rw [hAl, scOrders_zero_length ordmax step hs],
    by rw [hCl, scOrders_zero_length ordmax step hs], ?_⟩
  intro k hk
  have := hget k (k * step) (scOrders_zero_get ordmax step hs k hk)
  rwa [Nat.zero_add] at this

end legacy

/-! ## `step ≠ 1`: the order lists are indexed by ORDER instead of by position -/

/-- the last order the loop of `SSI_poles` visits lies beyond the end of a list with one entry per
    multiple of `step` as soon as `step ≥ 2` and `ordmax > step` -/
theorem last_order_beyond (ordmax step : Nat) (hs : 2 ≤ step) (ho : step < ordmax) :
    1 + (ordmax - 1) / step * step ≤ ordmax ∧ ordmax / step + 1 ≤ 1 + (ordmax - 1) / step * step := by
  have h1 : (ordmax - 1) / step * step ≤ ordmax - 1 := Nat.div_mul_le_self _ _
  have ha : 1 ≤ (ordmax - 1) / step := (Nat.le_div_iff_mul_le (by omega)).mpr (by omega)
  have h2 : ordmax / step < (ordmax - 1) / step + 2 := by
    apply (Nat.div_lt_iff_lt_mul (by omega)).mpr
    have := Nat.lt_mul_div_succ (ordmax - 1) (show 0 < step by omega)
    have h3 : ((ordmax - 1) / step + 2) * step = step * ((ordmax - 1) / step + 1) + step := by
      rw [Nat.mul_comm]; simp [Nat.mul_add]; omega
    omega
  have h4 : (ordmax - 1) / step * 2 ≤ (ordmax - 1) / step * step := Nat.mul_le_mul_left _ hs
  omega

/-- **`SSI_poles` cannot return for `step ≥ 2`, `ordmax > step`** on lists with one entry per visited
    order of the list-building loops (`range(0, ordmax + 1, step)`: `ordmax/step + 1` entries, as
    `fastLists` / `legacyLists` build them): the model returns no tables, whatever the records. -/
theorem ssiPoles_step_never_ok (inp : SsiIn) (hs : 2 ≤ inp.step) (ho : inp.step < inp.ordmax)
    (hlen : inp.AA.length ≤ inp.ordmax / inp.step + 1 ∨ inp.CC.length ≤ inp.ordmax / inp.step + 1)
    (T : SsiTables) : ssiPoles inp ≠ .ok T := by
  intro h
  obtain ⟨_, _, _, _, hpass, _⟩ := ssiPoles_spec inp T h
  obtain ⟨h1, h2⟩ := last_order_beyond inp.ordmax inp.step hs ho
  obtain ⟨A, C, hA, hC, _⟩ := hpass ((inp.ordmax - 1) / inp.step) h1
  have hA' := (List.getElem?_eq_some_iff.mp hA).1
  have hC' := (List.getElem?_eq_some_iff.mp hC).1
  rcases hlen with hlen | hlen <;> omega

/-- a loop over orders one of which lies beyond the end of `AA` ends in `IndexError`, provided the passes
    before it succeed (well-formed entries below the end of the lists) -/
theorem ssiLoop_indexError (inp : SsiIn) (w nch : Nat) (hw : inp.AA.length ≤ w) :
    ∀ (rest : List Nat) (k : Nat) (T : SsiTables), T.fn.c = w → T.fn.r = inp.ordmax → T.phi.d = nch →
      (∀ j ii, rest[j]? = some ii → ii < inp.AA.length →
        ∃ C, inp.CC[ii]? = some C ∧ C.r = nch ∧ (passOut inp (k + j) C).fn.length ≤ inp.ordmax) →
      (∃ ii, ii ∈ rest ∧ inp.AA.length ≤ ii) →
      ssiLoop inp rest k T = .error "IndexError" := by
  intro rest
  induction rest with
  | nil => intro k T _ _ _ _ hex; obtain ⟨ii, hi, _⟩ := hex; simp at hi
  | cons i0 rest ih =>
    intro k T hwT hr hd hall hex
    by_cases h0 : i0 < inp.AA.length
    · obtain ⟨C, hC, hCr, hlen⟩ := hall 0 i0 rfl h0
      rw [Nat.add_zero] at hlen
      have hstep : ∃ T1, ssiStep inp T k i0 = .ok T1 := by
        unfold ssiStep
        rw [List.getElem?_eq_getElem h0, hC]
        simp only []
        rw [if_neg (by omega), if_neg (by unfold passOut at hlen; omega), if_neg (by rw [hCr, hd]; simp)]
        exact ⟨_, rfl⟩
      obtain ⟨T1, hT1⟩ := hstep
      obtain ⟨hsh, _, _⟩ := ssiStep_spec hT1
      unfold ssiLoop
      rw [hT1]
      apply ih (k + 1) T1 (by rw [hsh.fnc]; exact hwT) (by rw [hsh.fnr]; exact hr)
        (by rw [hsh.phid]; exact hd)
      · intro j ii hj hii
        have := hall (j + 1) ii (by simpa using hj) hii
        have hk : k + 1 + j = k + (j + 1) := by omega
        rw [hk]; exact this
      · obtain ⟨ii, hi, hge⟩ := hex
        rcases List.mem_cons.mp hi with rfl | hi'
        · omega
        · exact ⟨ii, hi', hge⟩
    · unfold ssiLoop ssiStep
      rw [List.getElem?_eq_none (by omega)]

/-- **the exception is `IndexError`, raised at `A = AA[ii]`**: `step ≥ 2`, `ordmax > step`, lists of
    `ordmax/step + 1` entries (what `SSI_fast` / `SSI` return for the same `step`), every `C` with the row
    count of `CC[0]`, no recorded eigen-decomposition with more than `ordmax` eigenvalues. -/
theorem ssiPoles_step_indexError (inp : SsiIn) (hs : 2 ≤ inp.step) (ho : inp.step < inp.ordmax)
    (hA : inp.AA.length = inp.ordmax / inp.step + 1) (hC : inp.CC.length = inp.ordmax / inp.step + 1)
    (hr : ∀ ii, (h : ii < inp.CC.length) →
      (inp.CC[ii]).r = (inp.CC[0]'(by rw [hC]; exact Nat.succ_pos _)).r)
    (hrec : ∀ k, (inp.recs.getD k EigRec.empty).absc.length ≤ inp.ordmax) :
    ssiPoles inp = .error "IndexError" := by
  have hpos : 0 < inp.CC.length := by rw [hC]; exact Nat.succ_pos _
  unfold ssiPoles
  have h0 : inp.CC[0]? = some (inp.CC[0]'hpos) := List.getElem?_eq_getElem hpos
  rw [h0]
  simp only []
  rw [if_neg (by omega)]
  apply ssiLoop_indexError inp (inp.ordmax / inp.step + 1) (inp.CC[0]'hpos).r (by omega) _ 0 _
    rfl rfl rfl
  · intro j ii _ hii
    refine ⟨inp.CC[ii]'(by omega), List.getElem?_eq_getElem (by omega), hr ii (by omega), ?_⟩
    unfold passOut ac2mp
    simp only [List.length_map]
    exact hrec _
  · obtain ⟨h1, h2⟩ := last_order_beyond inp.ordmax inp.step hs ho
    refine ⟨1 + (inp.ordmax - 1) / inp.step * inp.step, ?_, by omega⟩
    exact List.mem_of_getElem? (ssiOrders_get inp.ordmax inp.step (by omega) _ h1)

end PV.Poles
