import PyomaVerif.Lemmas.PolesPlscf
/-!
# The order loop of `plscf.pLSCF` (`plscfLoop`, `plscfAll` of `Model/Poles.lean`): failing and shorter runs

* `plscfLoop_error` / `plscfAll_error` — the only exception a call with `sgn_basf ∈ {−1, 1}` raises is
  `LinAlgError`.
* `plscfLoop_error_of_none` / `plscfAll_error_of_none` — if ONE pass of the loop body (`plscfOrder`) at
  some order `1 ≤ n ≤ ordmax` has no value (a `np.linalg.solve` met an exactly singular matrix), the whole
  call raises `LinAlgError`: there is no `try`, the lists built so far are lost.
* `plscfLoop_take` / `plscfAll_take` — a returning call with `ordmax` contains, as prefixes of its two
  lists, what the call with any smaller `ordmax' ≤ ordmax` returns: the entries of order `n` do not depend
  on how many higher orders follow.
-/
namespace PV.Plscf

variable {K : Type} [Zero K] [One K] [Add K] [Sub K] [Neg K] [Mul K] [Div K] [DecidableEq K]
  [Inhabited K]

theorem plscfLoop_error (Nch Nref Nf : Nat) (hi : Bool) (Om : Nat → Cx K)
    (Sy : Nat → Nat → Nat → Cx K) :
    ∀ (todo n0 : Nat) (e : String),
      plscfLoop Nch Nref Nf hi Om Sy todo n0 = .error e → e = "LinAlgError" := by
  intro todo
  induction todo with
  | zero => intro n0 e h; simp [plscfLoop] at h
  | succ t ih =>
    intro n0 e h
    unfold plscfLoop at h
    split at h
    · injection h with h; exact h.symm
    · split at h
      · rename_i e' hrest
        injection h with h
        subst h
        exact ih (n0 + 1) e' hrest
      · cases h

theorem plscfLoop_error_of_none (Nch Nref Nf : Nat) (hi : Bool) (Om : Nat → Cx K)
    (Sy : Nat → Nat → Nat → Cx K) :
    ∀ (todo n0 j : Nat), j < todo → plscfOrder Nch Nref Nf (n0 + j) hi Om Sy = none →
      plscfLoop Nch Nref Nf hi Om Sy todo n0 = .error "LinAlgError" := by
  intro todo
  induction todo with
  | zero => intro n0 j hj; omega
  | succ t ih =>
    intro n0 j hj hnone
    unfold plscfLoop
    cases j with
    | zero =>
      rw [Nat.add_zero] at hnone
      rw [hnone]
    | succ j =>
      have e : n0 + (j + 1) = n0 + 1 + j := by omega
      rw [e] at hnone
      have hrest := ih (n0 + 1) j (by omega) hnone
      rw [hrest]
      split <;> rfl

theorem plscfLoop_take (Nch Nref Nf : Nat) (hi : Bool) (Om : Nat → Cx K)
    (Sy : Nat → Nat → Nat → Cx K) :
    ∀ (todo n0 : Nat) (Ad Bn : List (Coefs K)),
      plscfLoop Nch Nref Nf hi Om Sy todo n0 = .ok (Ad, Bn) →
      ∀ k, k ≤ todo → plscfLoop Nch Nref Nf hi Om Sy k n0 = .ok (Ad.take k, Bn.take k) := by
  intro todo
  induction todo with
  | zero =>
    intro n0 Ad Bn h k hk
    obtain rfl : k = 0 := by omega
    simp [plscfLoop]
  | succ t ih =>
    intro n0 Ad Bn h k hk
    unfold plscfLoop at h
    split at h
    · cases h
    · rename_i out hout
      split at h
      · cases h
      · rename_i Ad' Bn' hrest
        injection h with h
        injection h with h1 h2
        subst h1; subst h2
        cases k with
        | zero => simp [plscfLoop]
        | succ k =>
          have := ih (n0 + 1) Ad' Bn' hrest k (by omega)
          unfold plscfLoop
          rw [hout, this]
          simp

/-- the only exception of `plscf.pLSCF` with `sgn_basf ∈ {−1, 1}` is `LinAlgError` -/
theorem plscfAll_error (Nch Nref Nf ordmax : Nat) (sgn : Int) (hs : sgn = -1 ∨ sgn = 1)
    (OmOf : Int → Nat → Cx K) (Sy : Nat → Nat → Nat → Cx K) (e : String)
    (h : plscfAll Nch Nref Nf ordmax sgn OmOf Sy = .error e) : e = "LinAlgError" := by
  unfold plscfAll at h
  rw [if_pos hs] at h
  exact plscfLoop_error Nch Nref Nf _ _ Sy ordmax 1 e h

/-- one order `1 ≤ n ≤ ordmax` whose loop body has no value makes the whole call raise -/
theorem plscfAll_error_of_none (Nch Nref Nf ordmax : Nat) (sgn : Int) (hs : sgn = -1 ∨ sgn = 1)
    (OmOf : Int → Nat → Cx K) (Sy : Nat → Nat → Nat → Cx K) (n : Nat) (h1 : 1 ≤ n) (hn : n ≤ ordmax)
    (hnone : plscfOrder Nch Nref Nf n (decide (sgn = 1)) (OmOf sgn) Sy = none) :
    plscfAll Nch Nref Nf ordmax sgn OmOf Sy = .error "LinAlgError" := by
  unfold plscfAll
  rw [if_pos hs]
  apply plscfLoop_error_of_none Nch Nref Nf _ _ Sy ordmax 1 (n - 1) (by omega)
  have e : 1 + (n - 1) = n := by omega
  rw [e]
  exact hnone

/-- a returning call contains the results of every call with a smaller `ordmax` as prefixes -/
theorem plscfAll_take (Nch Nref Nf ordmax : Nat) (sgn : Int) (hs : sgn = -1 ∨ sgn = 1)
    (OmOf : Int → Nat → Cx K) (Sy : Nat → Nat → Nat → Cx K) (Ad Bn : List (Coefs K))
    (h : plscfAll Nch Nref Nf ordmax sgn OmOf Sy = .ok (Ad, Bn)) (k : Nat) (hk : k ≤ ordmax) :
    plscfAll Nch Nref Nf k sgn OmOf Sy = .ok (Ad.take k, Bn.take k) := by
  unfold plscfAll at h ⊢
  rw [if_pos hs] at h ⊢
  exact plscfLoop_take Nch Nref Nf _ _ Sy ordmax 1 Ad Bn h k hk

end PV.Plscf
