import PyomaVerif.Props.C09All
import PyomaVerif.Lemmas.HcLink
/-!
# From the unfiltered pole tables to the tables a `run()` stores — helpers for `Props/C09Stored.lean`,
`Props/C01Stored.lean`, `Props/C03Stored.lean`, `Props/C05Stored.lean`

* `Raw` — the four tables `ssi.SSI_poles` / `plscf.pLSCF_poles` return without uncertainties, as the
  list-of-rows tables of the executable models (`polesTable`, `padTables`); `Raw.params` — the data of a
  `run()` (`C09C18.Params`) read off them, with the conjugate criterion INSTANTIATED by the model of
  `gen.HC_conj` (`conjTGrid` = `HcFn.conjGrid` = `HcFn.conjMask` of the grid);
* `Neutral`, `Regular`, `kept_neutral_iff` — limits that do not bite, and what the criteria still demand
  of a pole under them (`0 < ξ`, a non-zero shape with at least two components);
* `stored_tables` — the three pole tables (and the eigenvalue table where the class stores one) of a
  concrete run, each `FiltOf` the unfiltered one.
-/
namespace PV.Stored
open PV PV.Hc PV.HcFn PV.C09 PV.C09C18 PV.C09All

/-! ### the conjugate criterion, instantiated -/

/-- the eigenvalue of a cell as the pair `HcFn` works with -/
def cplx? : Cell → Option HcFn.C
  | .cplx z => some (z.re, z.im)
  | _ => none

/-- **`Params.conjT := conjMask`**: the whole-table conjugate criterion of a run on an `r × c` grid is
    the model of `gen.HC_conj` (`HcFn.conjGrid`, i.e. `HcFn.conjMask` on the list-of-rows table of the
    grid) applied to the eigenvalue table it is handed. -/
def conjTGrid (r c : Nat) (t : Nat × Nat → Option Cell) (x : Nat × Nat) : Bool :=
  conjGrid r c (fun y => (t y).bind cplx?) x

theorem cplx?_eq_some (cl : Cell) (z : HcFn.C) :
    cplx? cl = some z ↔ ∃ w : Cx Rat, cl = .cplx w ∧ w.re = z.1 ∧ w.im = z.2 := by
  cases cl with
  | real x => simp [cplx?]
  | shape n v => simp [cplx?]
  | cplx w =>
    obtain ⟨a, b⟩ := z
    simp only [cplx?, Option.some.injEq, Prod.mk.injEq, Cell.cplx.injEq]
    constructor
    · rintro ⟨h1, h2⟩; exact ⟨w, rfl, h1, h2⟩
    · rintro ⟨w', hw, h1, h2⟩; subst hw; exact ⟨h1, h2⟩

/-! ### the unfiltered solution as list-of-rows tables -/

/-- what the pole routine returns when no uncertainties are computed: frequency, damping, mode-shape
    and eigenvalue tables (rows = poles, columns = orders; NaN = `none`) -/
structure Raw where
  fn : T Rat
  xi : T Rat
  phi : T (List (Cx Rat))
  lam : T (Cx Rat)

def shapeCell (s : List (Cx Rat)) : Cell := .shape s.length (fun k => s.getD k ⟨0, 0⟩)

/-- the tables of cells the `run()` interpreter starts from -/
def Raw.orig (R : Raw) : Tbl → Nat × Nat → Option Cell
  | .fn, x => (cellAt R.fn x).map .real
  | .xi, x => (cellAt R.xi x).map .real
  | .phi, x => (cellAt R.phi x).map shapeCell
  | .lam, x => (cellAt R.lam x).map .cplx
  | _, _ => none

/-- the data of a run on an `r × c` grid: unfiltered tables, the four limits, the SVD direction
    `gen.MPD` uses (an arbitrary parameter, as in C09), and `gen.HC_conj`'s model as the conjugate test -/
noncomputable def Raw.params (R : Raw) (r c : Nat) (xiMax mpcLim mpdLim covMax : Rat)
    (dir : Nat → (Nat → Cx Rat) → ℝ × ℝ) : Params (Nat × Nat) where
  orig := R.orig
  xiMax := xiMax
  mpcLim := mpcLim
  mpdLim := mpdLim
  covMax := covMax
  dir := dir
  conjT := conjTGrid r c

/-- a mode shape passes `HC_phi_comp`: not the zero vector, `MPC ≥ mpc_lim`, `MPD ≤ mpd_lim` (MPD with the
    SVD direction `dir` the library's `gen.MPD` uses — any function, as in C09) -/
def ShapeOk (dir : Nat → (Nat → Cx Rat) → ℝ × ℝ) (mpcLim mpdLim : ℚ) (s : List (Cx Rat)) : Prop :=
  (∃ q, mpcClosed? s.length (fun k => s.getD k ⟨0, 0⟩) = some q ∧ mpcLim ≤ q) ∧
  shapeNonZero s.length (fun k => s.getD k ⟨0, 0⟩) = true ∧
  mpd s.length (castShape fun k => s.getD k ⟨0, 0⟩) (dir s.length fun k => s.getD k ⟨0, 0⟩).1
      (dir s.length fun k => s.getD k ⟨0, 0⟩).2 ≤ (mpdLim : ℝ)

variable {Idx : Type}

/-! ### neutral limits -/

/-- limits that do not bite on the tables of the run: every damping below `xi_max`, `mpc_lim ≤ 0`,
    `mpd_lim ≥ π/2` and (when covariances are computed) every frequency covariance below `cov_max` -/
structure Neutral (p : Params Idx) (covOn : Bool) : Prop where
  xi : ∀ i x, p.orig .xi i = some (.real x) → x < p.xiMax
  mpc : p.mpcLim ≤ 0
  mpd : Real.pi / 2 ≤ (p.mpdLim : ℝ)
  cov : covOn = true → ∀ i x, p.orig .fncov i = some (.real x) → x < p.covMax

/-- what `HC_damp`, `HC_phi_comp` (and `HC_cov`) demand of a pole whatever the limits: a positive
    damping, a non-zero shape with at least two components (else MPC / MPD are undefined), a
    covariance that is a number -/
def Regular (p : Params Idx) (covOn : Bool) (i : Idx) : Prop :=
  (∃ x, p.orig .xi i = some (.real x) ∧ 0 < x) ∧
  (∃ n v, p.orig .phi i = some (.shape n v) ∧ 2 ≤ n ∧ shapeNonZero n v = true) ∧
  (covOn = true → ∃ x, p.orig .fncov i = some (.real x))

theorem two_le_of_mpc {n : Nat} {v : Nat → Cx Rat} {q : Rat} (h : mpcClosed? n v = some q) : 2 ≤ n := by
  by_contra hlt
  have : n ≤ 1 := by omega
  simp [mpcClosed?, this] at h

theorem kept_neutral_iff {p : Params Idx} {covOn : Bool} (hN : Neutral p covOn) (i : Idx) :
    Kept p false covOn i ↔ Regular p covOn i := by
  constructor
  · rintro ⟨_, ⟨x, hx, h0, _⟩, ⟨n, v, hv, hnz, _⟩, ⟨n', v', q, hv', hq, _⟩, hcov⟩
    refine ⟨⟨x, hx, h0⟩, ⟨n, v, hv, ?_, hnz⟩, ?_⟩
    · rw [hv] at hv'
      cases hv'
      exact two_le_of_mpc hq
    · intro hc
      obtain ⟨y, hy, _⟩ := hcov hc
      exact ⟨y, hy⟩
  · rintro ⟨⟨x, hx, h0⟩, ⟨n, v, hv, hn, hnz⟩, hcov⟩
    refine ⟨fun h => (by cases h), ⟨x, hx, h0, hN.xi i x hx⟩, ⟨n, v, hv, hnz, ?_⟩, ?_, ?_⟩
    · have hb := (PV.C18.C18_mpd_bounds n (castShape v) (p.dir n v).1 (p.dir n v).2).2
      unfold mpdVal
      exact le_trans hb hN.mpd
    · obtain ⟨q, hq, h0q, _⟩ := PV.C18.C18_mpc_bounds (K := ℚ) n hn v
      exact ⟨n, v, q, hv, hq, le_trans hN.mpc h0q⟩
    · intro hc
      obtain ⟨y, hy⟩ := hcov hc
      exact ⟨y, hy, hN.cov hc i y hy⟩

/-! ### the stored tables of a concrete run -/

/-- the eigenvalue table is a required result field of the four SSI classes -/
theorem required_lambds : ∀ cl ∈ classes, cl.hasCov = true → "Lambds" ∈ cl.required := by decide

/-- the three pole tables every class stores, each the unfiltered one blanked exactly at the poles failing
    an enabled criterion -/
theorem stored_tables (cl : ClassSpec) (hcl : cl ∈ classes) (conjOn covOn : Bool)
    (hflag : flagOk cl.hasCov covOn = true) (p : Params Idx) :
    ∃ e' Tf Tx Tp, runOf cl conjOn covOn p = some e' ∧
      e' (retVar cl.prog "Fn_poles") = some (CVal.tbl Tf) ∧ FiltOf p conjOn covOn .fn Tf ∧
      e' (retVar cl.prog "Xi_poles") = some (CVal.tbl Tx) ∧ FiltOf p conjOn covOn .xi Tx ∧
      e' (retVar cl.prog "Phi_poles") = some (CVal.tbl Tp) ∧ FiltOf p conjOn covOn .phi Tp := by
  obtain ⟨e', he', hreq, hall⟩ := C09_kept_iff_all cl hcl conjOn covOn hflag p
  obtain ⟨r1, r2, r3⟩ := required_pole_fields cl hcl
  have hF := hall "Fn_poles" _ .fn (hreq _ r1) rfl
  have hX := hall "Xi_poles" _ .xi (hreq _ r2) rfl
  have hP := hall "Phi_poles" _ .phi (hreq _ r3) rfl
  rw [if_neg (by simp [isCovTbl])] at hF hX hP
  obtain ⟨Tf, hTf, fF⟩ := hF
  obtain ⟨Tx, hTx, fX⟩ := hX
  obtain ⟨Tp, hTp, fP⟩ := hP
  exact ⟨e', Tf, Tx, Tp, he', hTf, fF, hTx, fX, hTp, fP⟩

end PV.Stored
