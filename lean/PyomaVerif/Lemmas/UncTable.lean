import PyomaVerif.Model.Unc
import PyomaVerif.Lemmas.VecKron
import PyomaVerif.Lemmas.Sum
import PyomaVerif.Lemmas.Unc
import Mathlib.Data.List.Basic
import Mathlib.Data.List.Range
/-!
Helpers for `Props/C17Table.lean`: the two nested write loops of the uncertainty part of
`ssi.SSI_poles` (`covTables`, `orderPass` of `Model/Unc.lean`) in closed form.
-/
namespace PV.Unc
open PV.Mat

section Folds
variable {R : Type}

/-- the pole loop at one order: rows `a ∈ l` of column `ii` are written, nothing else changes. -/
theorem foldlM_write (ordmax ii : Nat) (f g : Nat → R) (l : List Nat) (hl : ∀ a ∈ l, a < ordmax) :
    ∀ t : CovTabs R, ∃ t' : CovTabs R,
      l.foldlM (fun t jj =>
        if jj < ordmax then some ⟨setCell t.fn jj ii (f jj), setCell t.xi jj ii (g jj)⟩ else none) t
        = some t' ∧
      (∀ a b, t'.fn a b = if b = ii ∧ a ∈ l then some (f a) else t.fn a b) ∧
      (∀ a b, t'.xi a b = if b = ii ∧ a ∈ l then some (g a) else t.xi a b) := by
  induction l with
  | nil => intro t; exact ⟨t, rfl, by simp, by simp⟩
  | cons x xs ih =>
    intro t
    have hx : x < ordmax := hl x (List.mem_cons_self ..)
    obtain ⟨t', h1, h2, h3⟩ := ih (fun a ha => hl a (List.mem_cons_of_mem _ ha))
      ⟨setCell t.fn x ii (f x), setCell t.xi x ii (g x)⟩
    refine ⟨t', ?_, ?_, ?_⟩
    · rw [List.foldlM_cons, if_pos hx]
      exact h1
    · intro a b
      rw [h2 a b]
      simp only [setCell, List.mem_cons]
      by_cases hb : b = ii
      · by_cases hxs : a ∈ xs
        · simp [hb, hxs]
        · by_cases hax : a = x
          · subst hax; simp [hb, hxs]
          · simp [hb, hxs, hax]
      · simp [hb]
    · intro a b
      rw [h3 a b]
      simp only [setCell, List.mem_cons]
      by_cases hb : b = ii
      · by_cases hxs : a ∈ xs
        · simp [hb, hxs]
        · by_cases hax : a = x
          · subst hax; simp [hb, hxs]
          · simp [hb, hxs, hax]
      · simp [hb]

/-- the order loop: every step writes the first `np ii` rows of its own column. -/
theorem foldlM_orders (L : List Nat) (step : Nat → CovTabs R → Option (CovTabs R))
    (F G : Nat → Nat → R) (np : Nat → Nat)
    (hstep : ∀ ii ∈ L, ∀ t : CovTabs R, ∃ t', step ii t = some t' ∧
      (∀ a b, t'.fn a b = if b = ii ∧ a < np ii then some (F ii a) else t.fn a b) ∧
      (∀ a b, t'.xi a b = if b = ii ∧ a < np ii then some (G ii a) else t.xi a b)) :
    ∀ t : CovTabs R, ∃ t' : CovTabs R, L.foldlM (fun t ii => step ii t) t = some t' ∧
      (∀ a b, t'.fn a b = if b ∈ L ∧ a < np b then some (F b a) else t.fn a b) ∧
      (∀ a b, t'.xi a b = if b ∈ L ∧ a < np b then some (G b a) else t.xi a b) := by
  induction L with
  | nil => intro t; exact ⟨t, rfl, by simp, by simp⟩
  | cons x xs ih =>
    intro t
    obtain ⟨t1, e1, f1, g1⟩ := hstep x (List.mem_cons_self ..) t
    obtain ⟨t', h1, h2, h3⟩ := ih (fun ii hi => hstep ii (List.mem_cons_of_mem _ hi)) t1
    refine ⟨t', ?_, ?_, ?_⟩
    · rw [List.foldlM_cons, e1]
      exact h1
    · intro a b
      rw [h2 a b, f1 a b]
      simp only [List.mem_cons]
      by_cases hbx : b = x
      · subst hbx
        by_cases ha : a < np b <;> simp [ha]
      · simp [hbx]
    · intro a b
      rw [h3 a b, g1 a b]
      simp only [List.mem_cons]
      by_cases hbx : b = x
      · subst hbx
        by_cases ha : a < np b <;> simp [ha]
      · simp [hbx]

end Folds

/-! ## The factor column as a matrix, and `FirstOrderIdent` without its two fields about `T` -/

/-- `unvec(T[:, k])` for the factor of `build_hank`: the scaled deviation `(H_k − H)·s` of block estimate
    `k` from the full estimate (`C17_factor_column_is_vec`). -/
def devMat {K : Type} [Zero K] [Add K] [Sub K] [Mul K] [Div K] [NatCast K]
    (Yf Yp : Mat K) (N nb : Nat) (s : K) (k : Nat) : Mat K :=
  ⟨Yf.r, Yp.r, fun i j => ((blockEst Yf Yp N (N / nb) k).e i j - (mulT Yf Yp).e i j) * s⟩

section Core
open Matrix TrivSqZeroExt
variable {R K : Type} [Field R] [Inhabited R] [Field K]

/-- the existential of `FirstOrderIdent`: SOME first-order identification of `H + ε·ΔH` at order `n` extends
    the recorded factors and has eigenvalue `lam`. -/
def IdentExists (ι : R →+* K) (H dH U V : Mat R) (l p n : Nat) (sq sig rs : Nat → R) (Ki : Nat → Mat R)
    (phi chi : Nat → K) (lam : DualNumber K) : Prop :=
  ∃ (ud vd : Nat → Nat → DualNumber R) (sd s : Nat → DualNumber R)
      (W A : Matrix (Fin n) (Fin n) (DualNumber K)) (φ χ : Fin n → DualNumber K),
    (∀ b, b < n → SvFirstOrder H dH (Ki b) (col U b) (col V b) (sig b) (rs b) (ud b) (vd b)
      (sd b) (s b)) ∧
    (∀ b, b < n → (s b).fst = sq b) ∧
    (∀ j : Fin n, (φ j).fst = phi j.1) ∧ (∀ j : Fin n, (χ j).fst = chi j.1) ∧
    W * ((dlift ι (obsD 0 (p * l) n s ud))ᵀ * dlift ι (obsD 0 (p * l) n s ud)) = 1 ∧
    A = W * ((dlift ι (obsD 0 (p * l) n s ud))ᵀ * dlift ι (obsD l (p * l) n s ud)) ∧
    A *ᵥ φ = lam • φ ∧ χ ᵥ* A = lam • χ ∧ (χ ⬝ᵥ φ).fst ≠ 0

/-- `FirstOrderIdent` minus `hk`, `hcol` (the two fields that mention the factor `T`): the contract for a
    perturbation direction `ΔH` given as a matrix. -/
structure FirstOrderCore (ι : R →+* K) (H dH U V : Mat R) (l r p N n : Nat)
    (sq sig rs : Nat → R) (Ki : Nat → Mat R) (OO : Mat R) (phi chi : Nat → K)
    (lam : DualNumber K) : Prop where
  hHr : H.r = dH.r
  hHc : H.c = dH.c
  hr : dH.r = (p + 1) * l
  hc : dH.c = (p + 1) * r
  h0 : 0 < dH.c
  h2 : (2 : R) ≠ 0
  hn : n ≤ N
  hUr : U.r = dH.r
  hOc : OO.c = n
  hOO : toMx n n OO.e * toMx n n (ooArg (obsOf U sq N) l n).e = 1
  ident : IdentExists ι H dH U V l p n sq sig rs Ki phi chi lam

theorem FirstOrderCore.toIdent {ι : R →+* K} {H dH U V : Mat R} {l r p N n : Nat}
    {sq sig rs : Nat → R} {Ki : Nat → Mat R} {OO : Mat R} {phi chi : Nat → K} {lam : DualNumber K}
    (h : FirstOrderCore ι H dH U V l r p N n sq sig rs Ki OO phi chi lam) (T : Mat R) (k : Nat)
    (hk : k < T.c) (hcol : ∀ m, m < dH.c * dH.r → T.e m k = vecC dH m) :
    FirstOrderIdent ι H dH T U V l r p N n sq sig rs Ki OO phi chi k lam :=
  ⟨hk, hcol, h.hHr, h.hHc, h.hr, h.hc, h.h0, h.h2, h.hn, h.hUr, h.hOc, h.hOO, h.ident⟩

theorem FirstOrderIdent.toCore {ι : R →+* K} {H dH T U V : Mat R} {l r p N n : Nat}
    {sq sig rs : Nat → R} {Ki : Nat → Mat R} {OO : Mat R} {phi chi : Nat → K} {k : Nat}
    {lam : DualNumber K}
    (h : FirstOrderIdent ι H dH T U V l r p N n sq sig rs Ki OO phi chi k lam) :
    FirstOrderCore ι H dH U V l r p N n sq sig rs Ki OO phi chi lam :=
  ⟨h.hHr, h.hHc, h.hr, h.hc, h.h0, h.h2, h.hn, h.hUr, h.hOc, h.hOO, h.ident⟩

end Core

/-! ## Clipped slices -/

section Clip
open Finset

/-- a sum over a window `[a, a+w)` clipped at `c` -/
theorem sum_clip {M : Type} [AddCommMonoid M] (f : Nat → M) (a c : Nat) : ∀ w,
    ∑ t ∈ range w, (if a + t < c then f (a + t) else 0) = ∑ t ∈ range (min (a + w) c - a), f (a + t) := by
  intro w
  induction w with
  | zero =>
    have : min (a + 0) c - a = 0 := by omega
    rw [this]; simp
  | succ w ih =>
    rw [Finset.sum_range_succ, ih]
    by_cases h : a + w < c
    · have e1 : min (a + w) c - a = w := by omega
      have e2 : min (a + (w + 1)) c - a = w + 1 := by omega
      rw [e1, e2, Finset.sum_range_succ, if_pos h]
    · have e1 : min (a + (w + 1)) c - a = min (a + w) c - a := by omega
      rw [e1, if_neg h, add_zero]

/-- the clipped windows of width `Nb` tile the clipped total -/
theorem sum_blocks_clip {M : Type} [AddCommMonoid M] (f : Nat → M) (nb Nb c : Nat) :
    ∑ k ∈ range nb, ∑ t ∈ range (min ((k + 1) * Nb) c - k * Nb), f (k * Nb + t)
      = ∑ m ∈ range (min (nb * Nb) c), f m := by
  have h1 : ∀ k, ∑ t ∈ range (min ((k + 1) * Nb) c - k * Nb), f (k * Nb + t)
      = ∑ t ∈ range Nb, (if k * Nb + t < c then f (k * Nb + t) else 0) := by
    intro k
    rw [sum_clip f (k * Nb) c Nb, Nat.succ_mul]
  simp only [h1]
  rw [← sum_range_mul nb Nb (fun m => if m < c then f m else 0)]
  have := sum_clip f 0 c (nb * Nb)
  simp only [Nat.zero_add, Nat.sub_zero] at this
  exact this

end Clip

end PV.Unc
