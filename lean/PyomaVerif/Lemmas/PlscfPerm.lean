import PyomaVerif.Lemmas.Covariance
import PyomaVerif.Lemmas.PlscfChain
import PyomaVerif.Lemmas.Unity
import Mathlib.Tactic.Ring
import Mathlib.Tactic.Linarith
import Mathlib.LinearAlgebra.Matrix.Charpoly.Basic
/-!
# pLSCF under a permutation of the channels (helpers of `Props/C08PermPlscf.lean`)

`Sy'[o, c, f] = Sy[ρ o, σ c, f]` — `σ` a permutation of the `Nch` channels (columns of the spectral
array), `ρ` a permutation of the `Nref` rows (`ρ = σ` for the square single-setup array
`P·Sy·Pᵀ`).  The regressor `Yo = -kron(Xo, Sy[o])` is conjugated by `I ⊗ P`, whose index map is
`blkPerm Nch σ : J ↦ (J / Nch)·Nch + σ (J % Nch)`.

1. `blkPerm` is a permutation of `0 … p·m-1` for every `p`;
2. `Yo`, `So`, `To`, `Mmat` under the permutation;
3. `OrderCert.perm`: transport of what a returned order certifies; `cert_perm_unique` for two runs;
4. `rmfd2ac`: the recorded solves (`RmfdCert`), transport, companion matrices conjugated;
5. `phiRaw`, `argmaxAbs`, `phiCell` under the permutation.
-/
open Finset
namespace PV.Cov
open PV PV.Plscf

/-! ## 1. the index map of `I ⊗ P` -/

/-- `J ↦ (J / m)·m + σ (J % m)`: the block stays, the position inside the block is permuted -/
def blkPerm (m : Nat) (σ : Nat → Nat) (J : Nat) : Nat := J / m * m + σ (J % m)

theorem blkPerm_div {m : Nat} (hm : 0 < m) {σ : Nat → Nat} (hσ : ∀ a, a < m → σ a < m) (J : Nat) :
    blkPerm m σ J / m = J / m := by
  unfold blkPerm
  have := hσ (J % m) (Nat.mod_lt J hm)
  rw [Nat.add_comm, Nat.add_mul_div_right _ _ hm, Nat.div_eq_of_lt this, Nat.zero_add]

theorem blkPerm_mod {m : Nat} (hm : 0 < m) {σ : Nat → Nat} (hσ : ∀ a, a < m → σ a < m) (J : Nat) :
    blkPerm m σ J % m = σ (J % m) := by
  unfold blkPerm
  have := hσ (J % m) (Nat.mod_lt J hm)
  rw [Nat.add_comm, Nat.add_mul_mod_self_right, Nat.mod_eq_of_lt this]

theorem blkPerm_lt {m : Nat} (hm : 0 < m) {σ : Nat → Nat} (hσ : ∀ a, a < m → σ a < m) (p J : Nat)
    (hJ : J < p * m) : blkPerm m σ J < p * m := by
  have h1 : J / m < p := (Nat.div_lt_iff_lt_mul hm).mpr hJ
  have h2 := hσ (J % m) (Nat.mod_lt J hm)
  unfold blkPerm
  calc J / m * m + σ (J % m) < J / m * m + m := by omega
    _ = (J / m + 1) * m := (Nat.succ_mul _ _).symm
    _ ≤ p * m := Nat.mul_le_mul_right m h1

theorem blkPerm_inv {m : Nat} (hm : 0 < m) {σ τ : Nat → Nat} (hσ : ∀ a, a < m → σ a < m)
    (hl : ∀ a, a < m → τ (σ a) = a) (J : Nat) : blkPerm m τ (blkPerm m σ J) = J := by
  show blkPerm m σ J / m * m + τ (blkPerm m σ J % m) = J
  rw [blkPerm_div hm hσ, blkPerm_mod hm hσ, hl _ (Nat.mod_lt J hm)]
  exact Nat.div_add_mod' J m

/-- `I ⊗ P` is a permutation of `0 … p·m-1` -/
theorem blkPerm_permOn {m : Nat} (hm : 0 < m) {σ τ : Nat → Nat} (h : PermOn m σ τ) (p : Nat) :
    PermOn (p * m) (blkPerm m σ) (blkPerm m τ) where
  lt := fun J hJ => blkPerm_lt hm h.lt p J hJ
  lt' := fun J hJ => blkPerm_lt hm h.lt' p J hJ
  left := fun J _ => blkPerm_inv hm h.lt h.left J
  right := fun J _ => blkPerm_inv hm h.lt' h.right J

/-- inside the first block -/
theorem blkPerm_low {m : Nat} {σ : Nat → Nat} (c : Nat) (hc : c < m) : blkPerm m σ c = σ c := by
  unfold blkPerm
  rw [Nat.div_eq_of_lt hc, Nat.mod_eq_of_lt hc, Nat.zero_mul, Nat.zero_add]

/-- shifting by whole blocks commutes with the map -/
theorem blkPerm_add_mul {m : Nat} (hm : 0 < m) {σ : Nat → Nat} (k J : Nat) :
    blkPerm m σ (k * m + J) = k * m + blkPerm m σ J := by
  unfold blkPerm
  rw [Nat.add_comm (k * m) J, Nat.add_mul_div_right _ _ hm, Nat.add_mul_mod_self_right, Nat.add_mul]
  omega

theorem blkPerm_add_one {m : Nat} (hm : 0 < m) {σ : Nat → Nat} (J : Nat) :
    blkPerm m σ (m + J) = m + blkPerm m σ J := by
  have := blkPerm_add_mul (σ := σ) hm 1 J
  rwa [Nat.one_mul] at this

theorem blkPerm_lt_iff {m : Nat} (hm : 0 < m) {σ : Nat → Nat} (hσ : ∀ a, a < m → σ a < m) (p J : Nat) :
    blkPerm m σ J < p * m ↔ J < p * m := by
  rw [← Nat.div_lt_iff_lt_mul hm, ← Nat.div_lt_iff_lt_mul hm, blkPerm_div hm hσ]

/-! ## 2. the normal equations -/
section normal
variable {K : Type} [Field K]

/-- the permuted spectral array: rows by `ρ`, columns by `σ` -/
def permSy (ρ σ : Nat → Nat) (Sy : Nat → Nat → Nat → Plscf.Cx K) : Nat → Nat → Nat → Plscf.Cx K :=
  fun o c f => Sy (ρ o) (σ c) f

theorem Yo_perm {Nch : Nat} (hN : 0 < Nch) {σ : Nat → Nat} (hσ : ∀ a, a < Nch → σ a < Nch)
    (Om : Nat → Plscf.Cx K) (Syo : Nat → Nat → Plscf.Cx K) (f J : Nat) :
    Yo Nch Om (fun c f => Syo (σ c) f) f J = Yo Nch Om Syo f (blkPerm Nch σ J) := by
  simp only [Yo, blkPerm_div hN hσ, blkPerm_mod hN hσ]

theorem So_perm {Nch : Nat} (hN : 0 < Nch) {σ : Nat → Nat} (hσ : ∀ a, a < Nch → σ a < Nch) (Nf : Nat)
    (Om : Nat → Plscf.Cx K) (Syo : Nat → Nat → Plscf.Cx K) (i J : Nat) :
    So Nch Nf Om (fun c f => Syo (σ c) f) i J = So Nch Nf Om Syo i (blkPerm Nch σ J) := by
  simp only [So, Yo_perm hN hσ]

theorem To_perm {Nch : Nat} (hN : 0 < Nch) {σ : Nat → Nat} (hσ : ∀ a, a < Nch → σ a < Nch) (Nf : Nat)
    (Om : Nat → Plscf.Cx K) (Syo : Nat → Nat → Plscf.Cx K) (I J : Nat) :
    To Nch Nf Om (fun c f => Syo (σ c) f) I J
      = To Nch Nf Om Syo (blkPerm Nch σ I) (blkPerm Nch σ J) := by
  simp only [To, Yo_perm hN hσ]

/-- **`M` under the permutation**: with the inner solves re-indexed the same way, `M' = (I⊗P)·M·(I⊗P)ᵀ`;
    the sum over the output rows `o` is re-indexed by `ρ`. -/
theorem Mmat_perm {Nch Nref : Nat} (hN : 0 < Nch) {σ τ ρ ρi : Nat → Nat} (hσ : PermOn Nch σ τ)
    (hρ : PermOn Nref ρ ρi) (Nf n : Nat) (Om : Nat → Plscf.Cx K) (Sy : Nat → Nat → Nat → Plscf.Cx K)
    (X : Nat → Nat → Nat → K) (I J : Nat) :
    Mmat Nch Nref Nf n Om (permSy ρ σ Sy) (fun o t J => X (ρ o) t (blkPerm Nch σ J)) I J
      = Mmat Nch Nref Nf n Om Sy X (blkPerm Nch σ I) (blkPerm Nch σ J) := by
  unfold Mmat permSy
  simp only [So_perm hN hσ.lt, To_perm hN hσ.lt]
  rw [sumTo_eq, sumTo_eq]
  exact sum_perm hρ (fun o => To Nch Nf Om (Sy o) (blkPerm Nch σ I) (blkPerm Nch σ J)
    - sumTo (n + 1) (fun t => So Nch Nf Om (Sy o) t (blkPerm Nch σ I) * X o t (blkPerm Nch σ J)))

/-- the constrained solve re-indexed: `Z'[J, c] = Z[(I⊗P) J, σ c]` -/
def permZ (Nch : Nat) (σ : Nat → Nat) (Z : Nat → Nat → K) : Nat → Nat → K :=
  fun J c => Z (blkPerm Nch σ J) (σ c)

/-- what the permuted run returns for one order, in terms of the original run: `M`, `alpha` (built, as
    the code does, from the solve `Z'` and an identity block) and `beta` -/
def permOut (Nch n : Nat) (hi : Bool) (ρ σ : Nat → Nat) (out : OrderOut K) (Z : Nat → Nat → K) : OrderOut K :=
  { M := fun I J => out.M (blkPerm Nch σ I) (blkPerm Nch σ J),
    alpha := if hi then alphaHI Nch n (permZ Nch σ Z) else alphaLO Nch (permZ Nch σ Z),
    beta := fun o t c => out.beta (ρ o) t (σ c) }

theorem alphaLO_perm {Nch : Nat} (hN : 0 < Nch) {σ τ : Nat → Nat} (hσ : PermOn Nch σ τ) (Z : Nat → Nat → K)
    (I c : Nat) (hc : c < Nch) :
    alphaLO Nch (permZ Nch σ Z) I c = alphaLO Nch Z (blkPerm Nch σ I) (σ c) := by
  unfold alphaLO permZ
  by_cases h : I < Nch
  · rw [if_pos h, blkPerm_low I h, if_pos (hσ.lt I h)]
    by_cases e : I = c
    · rw [if_pos e, if_pos (by rw [e])]
    · rw [if_neg e, if_neg (fun e' => e (by rw [← hσ.left I h, e', hσ.left c hc]))]
  · have h1 : ¬ blkPerm Nch σ I < Nch := by
      have := blkPerm_lt_iff hN hσ.lt 1 I
      rw [Nat.one_mul] at this
      exact fun h' => h (this.mp h')
    rw [if_neg h, if_neg h1]
    have e : I = Nch + (I - Nch) := by omega
    conv_rhs => rw [e, blkPerm_add_one hN, Nat.add_sub_cancel_left]

theorem alphaHI_perm {Nch : Nat} (hN : 0 < Nch) {σ τ : Nat → Nat} (hσ : PermOn Nch σ τ) (n : Nat)
    (Z : Nat → Nat → K) (I c : Nat) (hI : I < (n + 1) * Nch) (hc : c < Nch) :
    alphaHI Nch n (permZ Nch σ Z) I c = alphaHI Nch n Z (blkPerm Nch σ I) (σ c) := by
  unfold alphaHI permZ
  by_cases h : I < n * Nch
  · rw [if_pos h, if_pos ((blkPerm_lt_iff hN hσ.lt n I).mpr h)]
  · have h1 : ¬ blkPerm Nch σ I < n * Nch := fun h' => h ((blkPerm_lt_iff hN hσ.lt n I).mp h')
    rw [if_neg h, if_neg h1]
    have e : I = n * Nch + (I - n * Nch) := by omega
    have ha : I - n * Nch < Nch := by rw [Nat.succ_mul] at hI; omega
    have e2 : blkPerm Nch σ I - n * Nch = σ (I - n * Nch) := by
      conv_lhs => rw [e, blkPerm_add_mul hN, Nat.add_sub_cancel_left, blkPerm_low _ ha]
    rw [e2]
    by_cases e3 : I - n * Nch = c
    · rw [if_pos e3, if_pos (by rw [e3])]
    · rw [if_neg e3, if_neg (fun e' => e3 (by rw [← hσ.left _ ha, e', hσ.left c hc]))]

/-- **certificate transport**: what a returned order certifies for `Sy`, it certifies — with
    `M' = (I⊗P)·M·(I⊗P)ᵀ`, `alpha' = (I⊗P)·alpha·Pᵀ`, `beta'[o] = beta[ρ o]·Pᵀ` and the solves
    re-indexed — for the permuted array. -/
theorem OrderCert.perm {Nch Nref Nf n : Nat} {hi : Bool} {Om : Nat → Plscf.Cx K}
    {Sy : Nat → Nat → Nat → Plscf.Cx K} {out : OrderOut K} {X : Nat → Nat → Nat → K} {Z : Nat → Nat → K}
    (h : OrderCert Nch Nref Nf n hi Om Sy out X Z) (hN : 0 < Nch) {σ τ ρ ρi : Nat → Nat}
    (hσ : PermOn Nch σ τ) (hρ : PermOn Nref ρ ρi) :
    OrderCert Nch Nref Nf n hi Om (permSy ρ σ Sy) (permOut Nch n hi ρ σ out Z)
      (fun o t J => X (ρ o) t (blkPerm Nch σ J)) (permZ Nch σ Z)
    ∧ ∀ I, I < (n + 1) * Nch → ∀ c, c < Nch →
        (permOut Nch n hi ρ σ out Z).alpha I c = out.alpha (blkPerm Nch σ I) (σ c) := by
  have hπ := fun p => blkPerm_permOn hN hσ p
  have hα : ∀ I, I < (n + 1) * Nch → ∀ c, c < Nch →
      (permOut Nch n hi ρ σ out Z).alpha I c = out.alpha (blkPerm Nch σ I) (σ c) := by
    intro I hI c hc
    have hz := h.hZ
    cases hi
    · simp only [Bool.false_eq_true, ↓reduceIte] at hz
      simp only [permOut, Bool.false_eq_true, ↓reduceIte]
      rw [hz.2]; exact alphaLO_perm hN hσ Z I c hc
    · simp only [↓reduceIte] at hz
      simp only [permOut, ↓reduceIte]
      rw [hz.2]; exact alphaHI_perm hN hσ n Z I c hI hc
  refine ⟨⟨?_, ?_, ?_, ?_⟩, hα⟩
  · intro o ho i hi' J hJ
    show sumTo (n + 1) (fun t => Ro Nf Om i t * X (ρ o) t (blkPerm Nch σ J))
      = So Nch Nf Om (fun c f => Sy (ρ o) (σ c) f) i J
    rw [So_perm hN hσ.lt]
    exact h.hX (ρ o) (hρ.lt o ho) i hi' _ ((hπ (n + 1)).lt J hJ)
  · intro I hI J hJ
    rw [Mmat_perm hN hσ hρ]
    exact h.hM _ ((hπ (n + 1)).lt I hI) _ ((hπ (n + 1)).lt J hJ)
  · have hz := h.hZ
    cases hi
    · simp only [Bool.false_eq_true, ↓reduceIte] at hz ⊢
      refine ⟨?_, by simp [permOut]⟩
      intro I hI c hc
      have := hz.1 _ ((hπ n).lt I hI) (σ c) (hσ.lt c hc)
      rw [sumTo_eq] at this ⊢
      simp only [permOut, permZ, blkPerm_add_one hN]
      rw [blkPerm_low c hc, ← this]
      exact sum_perm (hπ n) (fun J => -out.M (Nch + blkPerm Nch σ I) (Nch + J) * Z J (σ c))
    · simp only [↓reduceIte] at hz ⊢
      refine ⟨?_, by simp [permOut]⟩
      intro I hI c hc
      have := hz.1 _ ((hπ n).lt I hI) (σ c) (hσ.lt c hc)
      rw [sumTo_eq] at this ⊢
      simp only [permOut, permZ, blkPerm_add_mul hN]
      rw [blkPerm_low c hc, ← this]
      exact sum_perm (hπ n) (fun J => -out.M (blkPerm Nch σ I) J * Z J (σ c))
  · intro o ho i hi' c hc
    have := h.hbeta (ρ o) (hρ.lt o ho) i hi' (σ c) (hσ.lt c hc)
    show sumTo (n + 1) (fun t => -Ro Nf Om i t * out.beta (ρ o) t (σ c))
      = sumTo ((n + 1) * Nch) (fun J => So Nch Nf Om (fun c f => Sy (ρ o) (σ c) f) i J
          * (permOut Nch n hi ρ σ out Z).alpha J c)
    rw [this, sumTo_eq, sumTo_eq, ← sum_perm (hπ (n + 1))]
    apply Finset.sum_congr rfl
    intro J hJ
    rw [So_perm hN hσ.lt, hα J (mem_range.mp hJ) c hc]

/-- injectivity of a square block is preserved by conjugation with a permutation -/
theorem inj_perm {d : Nat} {π πi : Nat → Nat} (hπ : PermOn d π πi) (G : Nat → Nat → K)
    (hinj : ∀ y : Nat → K, (∀ I < d, ∑ J ∈ range d, G I J * y J = 0) → ∀ J < d, y J = 0) :
    ∀ y : Nat → K, (∀ I < d, ∑ J ∈ range d, G (π I) (π J) * y J = 0) → ∀ J < d, y J = 0 := by
  intro y hy J hJ
  have := hinj (fun J => y (πi J)) (by
    intro I hI
    have h1 := hy (πi I) (hπ.lt' I hI)
    rw [hπ.right I hI] at h1
    rw [← h1, ← sum_perm hπ]
    apply Finset.sum_congr rfl
    intro J hJ
    simp only [hπ.left J (mem_range.mp hJ)]) (π J) (hπ.lt J hJ)
  simpa [hπ.left J hJ] using this

/-- two certificates of the same order for the same spectra agree (C05's injectivity hypotheses) -/
theorem cert_unique {Nch Nref Nf n : Nat} {hi : Bool} {Om : Nat → Plscf.Cx K}
    {Sy : Nat → Nat → Nat → Plscf.Cx K} {out out' : OrderOut K} {X X' : Nat → Nat → Nat → K}
    {Z Z' : Nat → Nat → K}
    (h : OrderCert Nch Nref Nf n hi Om Sy out X Z) (h' : OrderCert Nch Nref Nf n hi Om Sy out' X' Z')
    (hRinj : ∀ y : Nat → K,
      (∀ i < n + 1, ∑ t ∈ range (n + 1), Ro Nf Om i t * y t = 0) → ∀ t < n + 1, y t = 0)
    (hinj : ∀ y : Nat → K,
      (∀ I < n * Nch, ∑ J ∈ range (n * Nch),
        (if hi then out.M I J else out.M (Nch + I) (Nch + J)) * y J = 0) → ∀ J < n * Nch, y J = 0) :
    (∀ I, I < (n + 1) * Nch → ∀ J, J < (n + 1) * Nch → out'.M I J = out.M I J) ∧
    (∀ I, I < (n + 1) * Nch → ∀ c', c' < Nch → out'.alpha I c' = out.alpha I c') ∧
    (∀ o, o < Nref → ∀ t, t < n + 1 → ∀ c', c' < Nch → out'.beta o t c' = out.beta o t c') := by
  have e : (fun o ch f => csm (1 : K) (Sy o ch f)) = Sy := by
    funext o ch f; simp [csm]
  have h'' : OrderCert Nch Nref Nf n hi Om (fun o ch f => csm (1 : K) (Sy o ch f)) out' X' Z' := by
    rw [e]; exact h'
  have := cert_gain_unique (1 : K) one_ne_zero h h'' hRinj hinj
  simpa using this

end normal

end PV.Cov

namespace PV.Cov
open PV PV.Plscf

/-! ## 4. `rmfd2ac` -/
section rmfd
variable {K : Type} [Field K]

/-- what a returned `rmfd2ac(alpha.reshape, moveaxis(beta))` certifies: the recorded results `P k` of
    `np.linalg.solve(Ad_last, Adi)` solve their systems exactly and `A`, `C` are the companion
    matrices built from them -/
structure RmfdCert (Nch Nref n : Nat) (α : Nat → Nat → K) (β : Nat → Nat → Nat → K)
    (P : Nat → Nat → Nat → K) (A C : Mat K) : Prop where
  hP : ∀ k < n, ∀ a < Nch, ∀ b < Nch,
    sumTo Nch (fun t => α (n * Nch + a) t * P k t b) = α ((n + 1 - 2 - k) * Nch + a) b
  hA : A = companionA (n + 1) Nch n P
  hC : C = companionC (n + 1) Nref Nch n (fun k o c => β o k c) P

theorem rmfd2ac_cert [DecidableEq K] [Inhabited K] (Nch Nref n : Nat) (α : Nat → Nat → K)
    (β : Nat → Nat → Nat → K) (A C : Mat K)
    (h : rmfd2ac (adOf Nch n α) (bnOf Nch Nref n β) = some (A, C)) :
    ∃ P, RmfdCert Nch Nref n α β P A C := by
  unfold rmfd2ac at h
  simp only [adOf, bnOf, Nat.min_self, Nat.add_sub_cancel] at h
  split at h
  · exact absurd h (by simp)
  · rename_i P hP
    injection h with h
    injection h with h1 h2
    exact ⟨P, fun k hk a ha b hb => solveAll_sound Nch _ _ n P hP k hk a ha b hb, h1.symm, h2.symm⟩

/-- the recorded solves conjugated by `P` -/
def permP (σ : Nat → Nat) (P : Nat → Nat → Nat → K) : Nat → Nat → Nat → K :=
  fun k a b => P k (σ a) (σ b)

/-- **`rmfd2ac` under `A_k' = P·A_k·Pᵀ`, `B_k'[o] = B_k[ρ o]·Pᵀ`**: the conjugated solves are exact
    solves of the permuted systems, the state matrix is conjugated by the block-diagonal `I⊗P`
    and the output matrix has its rows permuted by `ρ` and its columns by `I⊗P`. -/
theorem RmfdCert.perm {Nch Nref n : Nat} {α α' : Nat → Nat → K} {β β' : Nat → Nat → Nat → K}
    {P : Nat → Nat → Nat → K} {A C : Mat K} (h : RmfdCert Nch Nref n α β P A C)
    (hN : 0 < Nch) {σ τ : Nat → Nat} (ρ : Nat → Nat) (hσ : PermOn Nch σ τ)
    (hα : ∀ I, I < (n + 1) * Nch → ∀ c, c < Nch → α' I c = α (blkPerm Nch σ I) (σ c))
    (hβ : ∀ o, o < Nref → ∀ t, t < n + 1 → ∀ c, c < Nch → β' o t c = β (ρ o) t (σ c)) :
    RmfdCert Nch Nref n α' β' (permP σ P) (companionA (n + 1) Nch n (permP σ P))
      (companionC (n + 1) Nref Nch n (fun k o c => β' o k c) (permP σ P)) ∧
    (∀ i, i < (n + 1) * Nch → ∀ j, j < (n + 1) * Nch →
      (companionA (n + 1) Nch n (permP σ P)).e i j = A.e (blkPerm Nch σ i) (blkPerm Nch σ j)) ∧
    (∀ o, o < Nref → ∀ j, j < (n + 1) * Nch →
      (companionC (n + 1) Nref Nch n (fun k o c => β' o k c) (permP σ P)).e o j
        = C.e (ρ o) (blkPerm Nch σ j)) := by
  refine ⟨⟨?_, rfl, rfl⟩, ?_, ?_⟩
  · intro k hk a ha b hb
    have h1 := h.hP k hk (σ a) (hσ.lt a ha) (σ b) (hσ.lt b hb)
    have hk1 : n + 1 - 2 - k < n + 1 := by omega
    rw [hα ((n + 1 - 2 - k) * Nch + a) (Plscf.blk_lt hk1 ha) b hb, blkPerm_add_mul hN, blkPerm_low a ha, ← h1,
      sumTo_eq, sumTo_eq]
    refine (Finset.sum_congr rfl ?_).trans (sum_perm hσ _)
    intro t ht
    have ht' := mem_range.mp ht
    rw [hα (n * Nch + a) (Plscf.blk_lt (Nat.lt_succ_self n) ha) t ht', blkPerm_add_mul hN, blkPerm_low a ha]
    rfl
  · intro i hi j hj
    rw [h.hA]
    simp only [companionA, permP]
    have hi1 : blkPerm Nch σ i < Nch ↔ i < Nch := by
      have := blkPerm_lt_iff hN hσ.lt 1 i
      rwa [Nat.one_mul] at this
    by_cases h1 : i < Nch
    · rw [if_pos h1, if_pos (hi1.mpr h1), blkPerm_div hN hσ.lt, blkPerm_mod hN hσ.lt, blkPerm_low i h1]
    · rw [if_neg h1, if_neg (fun h' => h1 (hi1.mp h'))]
      have e : blkPerm Nch σ j + Nch = blkPerm Nch σ (Nch + j) := by
        rw [blkPerm_add_one hN]; omega
      rw [e]
      by_cases h2 : j + Nch = i
      · rw [if_pos h2, if_pos (by rw [← h2, Nat.add_comm])]
      · rw [if_neg h2, if_neg]
        intro e'
        apply h2
        have := congrArg (blkPerm Nch τ) e'
        rw [blkPerm_inv hN hσ.lt hσ.left, blkPerm_inv hN hσ.lt hσ.left] at this
        omega
  · intro o ho j hj
    rw [h.hC]
    simp only [companionC, permP, blkPerm_div hN hσ.lt, blkPerm_mod hN hσ.lt]
    have hjm : j % Nch < Nch := Nat.mod_lt _ hN
    by_cases hq : j / Nch < n
    · have hk1 : n + 1 - 2 - j / Nch < n + 1 := by
        have := Nat.sub_le (n + 1 - 2) (j / Nch); omega
      rw [if_pos hq, if_pos hq, hβ o ho _ hk1 _ hjm]
      congr 1
      rw [sumTo_eq, sumTo_eq]
      refine (Finset.sum_congr rfl ?_).trans (sum_perm hσ _)
      intro t ht
      rw [hβ o ho (n + 1 - 1) (by omega) t (mem_range.mp ht)]
    · rw [if_neg hq, if_neg hq]

/-- two exact records of the same solves give the same companion matrices on the arrays when the
    leading coefficient `A_n` is injective -/
theorem RmfdCert.unique {Nch Nref n : Nat} {α : Nat → Nat → K} {β : Nat → Nat → Nat → K}
    {P P' : Nat → Nat → Nat → K} {A C A' C' : Mat K} (h : RmfdCert Nch Nref n α β P A C)
    (h' : RmfdCert Nch Nref n α β P' A' C') (hN : 0 < Nch)
    (hinj : ∀ y : Nat → K,
      (∀ a < Nch, ∑ t ∈ range Nch, α (n * Nch + a) t * y t = 0) → ∀ t < Nch, y t = 0) :
    (∀ i j, A'.e i j = A.e i j) ∧ (∀ o j, C'.e o j = C.e o j) := by
  have hPP : ∀ k, k < n → ∀ b, b < Nch → ∀ t, t < Nch → P' k t b = P k t b := by
    intro k hk b hb
    apply inj_unique Nch (fun a t => α (n * Nch + a) t) (fun t => P' k t b) (fun t => P k t b) _ hinj
    intro a ha
    have e1 := h.hP k hk a ha b hb
    have e2 := h'.hP k hk a ha b hb
    rw [sumTo_eq] at e1 e2
    rw [e1, e2]
  constructor
  · intro i j
    rw [h.hA, h'.hA]
    simp only [companionA]
    by_cases h1 : i < Nch
    · rw [if_pos h1, if_pos h1]
      by_cases h2 : j / Nch < n
      · rw [if_pos h2, if_pos h2, hPP _ h2 _ (Nat.mod_lt _ hN) _ h1]
      · rw [if_neg h2, if_neg h2]
    · rw [if_neg h1, if_neg h1]
  · intro o j
    rw [h.hC, h'.hC]
    simp only [companionC]
    by_cases h2 : j / Nch < n
    · rw [if_pos h2, if_pos h2]
      congr 1
      apply sumTo_congr
      intro t ht
      rw [hPP _ h2 _ (Nat.mod_lt _ hN) _ ht]
    · rw [if_neg h2, if_neg h2]

/-- for the `HI` constraint the leading coefficient is the identity: nothing to assume -/
theorem alphaHI_last_inj (Nch n : Nat) (Z : Nat → Nat → K) (y : Nat → K)
    (hy : ∀ a < Nch, ∑ t ∈ range Nch, alphaHI Nch n Z (n * Nch + a) t * y t = 0) :
    ∀ t < Nch, y t = 0 := by
  intro t ht
  have := hy t ht
  unfold alphaHI at this
  simp only [Nat.not_lt.mpr (Nat.le_add_right _ _), if_false, Nat.add_sub_cancel_left] at this
  rw [Finset.sum_eq_single t] at this
  · simpa using this
  · intro b _ hb; rw [if_neg (Ne.symm hb), zero_mul]
  · intro hn; exact absurd (mem_range.mpr ht) hn

end rmfd

/-! ## 5. the recorded eigenpairs and `ac2mp_poly` -/
section eig
variable {K : Type} [Field K]

/-- a list re-read through an index map: component `a` of the result is component `π a` -/
def permL (π : Nat → Nat) (d : Nat) (v : List (Plscf.Cx K)) : List (Plscf.Cx K) :=
  (List.range d).map fun a => v.getD (π a) ⟨0, 0⟩

theorem permL_getD (π : Nat → Nat) (d : Nat) (v : List (Plscf.Cx K)) (a : Nat) (ha : a < d) :
    (permL π d v).getD a ⟨0, 0⟩ = v.getD (π a) ⟨0, 0⟩ := by
  simp [permL, List.getD_eq_getElem?_getD, List.getElem?_map, List.getElem?_range ha]

/-- the recorded eigenpair with the eigenvector multiplied by `I⊗P` -/
def permEig (π : Nat → Nat) (d : Nat) (e : EigIn K) : EigIn K :=
  { lamd := e.lamd, logv := e.logv, q := permL π d e.q }

/-- what `np.linalg.eig` promises for one recorded pair, exactly: `d` components and `A·q = λ·q` -/
def EigPair (d : Nat) (A : Nat → Nat → K) (e : EigIn K) : Prop :=
  e.q.length = d ∧ ∀ i, i < d →
    (⟨sumTo d (fun j => A i j * (e.q.getD j ⟨0, 0⟩).re),
      sumTo d (fun j => A i j * (e.q.getD j ⟨0, 0⟩).im)⟩ : Plscf.Cx K)
      = Cx.mul e.lamd (e.q.getD i ⟨0, 0⟩)

/-- **eigen-record transport**: `(λ, q)` recorded for `A` gives `(λ, (I⊗P)·q)` for the conjugated matrix -/
theorem EigPair.perm {d : Nat} {A A' : Nat → Nat → K} {e : EigIn K} (h : EigPair d A e)
    {π πi : Nat → Nat} (hπ : PermOn d π πi)
    (hA : ∀ i, i < d → ∀ j, j < d → A' i j = A (π i) (π j)) : EigPair d A' (permEig π d e) := by
  refine ⟨by simp [permEig, permL], ?_⟩
  intro i hi
  have := h.2 (π i) (hπ.lt i hi)
  show (⟨sumTo d (fun j => A' i j * ((permL π d e.q).getD j ⟨0, 0⟩).re),
      sumTo d (fun j => A' i j * ((permL π d e.q).getD j ⟨0, 0⟩).im)⟩ : Plscf.Cx K)
      = Cx.mul e.lamd ((permL π d e.q).getD i ⟨0, 0⟩)
  rw [permL_getD π d e.q i hi, ← this]
  simp only [sumTo_eq]
  congr 1
  · rw [← sum_perm hπ (fun j => A (π i) j * (e.q.getD j ⟨0, 0⟩).re)]
    apply Finset.sum_congr rfl
    intro j hj
    rw [hA i hi j (mem_range.mp hj), permL_getD π d e.q j (mem_range.mp hj)]
  · rw [← sum_perm hπ (fun j => A (π i) j * (e.q.getD j ⟨0, 0⟩).im)]
    apply Finset.sum_congr rfl
    intro j hj
    rw [hA i hi j (mem_range.mp hj), permL_getD π d e.q j (mem_range.mp hj)]

theorem phiRaw_getD (C : Mat K) (q : List (Plscf.Cx K)) (a : Nat) (ha : a < C.r) :
    (phiRaw C q).getD a ⟨0, 0⟩
      = ⟨sumTo C.c (fun t => C.e a t * (q.getD t ⟨0, 0⟩).re),
         sumTo C.c (fun t => C.e a t * (q.getD t ⟨0, 0⟩).im)⟩ := by
  simp [phiRaw, List.getD_eq_getElem?_getD, List.getElem?_map, List.getElem?_range ha]

/-- `C'·((I⊗P)·q) = P_ρ·(C·q)` -/
theorem phiRaw_perm {l d : Nat} {ρ ρi π πi : Nat → Nat} (hρ : PermOn l ρ ρi) (hπ : PermOn d π πi)
    (C C' : Mat K) (hr : C.r = l) (hr' : C'.r = l) (hc : C.c = d) (hc' : C'.c = d)
    (he : ∀ o, o < l → ∀ j, j < d → C'.e o j = C.e (ρ o) (π j)) (q : List (Plscf.Cx K)) :
    phiRaw C' (permL π d q) = permL ρ l (phiRaw C q) := by
  unfold permL
  conv_lhs => unfold phiRaw
  rw [hr']
  apply List.map_congr_left
  intro a ha
  have ha' := List.mem_range.mp ha
  rw [phiRaw_getD C q (ρ a) (by rw [hr]; exact hρ.lt a ha'), hc, hc']
  simp only [sumTo_eq]
  congr 1
  · rw [← sum_perm hπ (fun t => C.e (ρ a) t * (q.getD t ⟨0, 0⟩).re)]
    apply Finset.sum_congr rfl
    intro t ht
    rw [he a ha' t (mem_range.mp ht)]
    congr 2
    exact permL_getD π d q t (mem_range.mp ht)
  · rw [← sum_perm hπ (fun t => C.e (ρ a) t * (q.getD t ⟨0, 0⟩).im)]
    apply Finset.sum_congr rfl
    intro t ht
    rw [he a ha' t (mem_range.mp ht)]
    congr 2
    exact permL_getD π d q t (mem_range.mp ht)

end eig

section norm
variable {K : Type} [Field K] [LinearOrder K]
open PV.Unity

/-- `np.argmax(abs(·))` of a permuted vector whose largest magnitude is attained once moves with it -/
theorem argmaxAbs_permL {l : Nat} (hl : 0 < l) {ρ ρi : Nat → Nat} (hρ : PermOn l ρ ρi)
    (v : List (Plscf.Cx K)) (hv : v.length = l)
    (huniq : ∀ i, i < l → i ≠ argmaxAbs v →
      Cx.normSq (v.getD i ⟨0, 0⟩) < Cx.normSq (v.getD (argmaxAbs v) ⟨0, 0⟩)) :
    ρ (argmaxAbs (permL ρ l v)) = argmaxAbs v ∧ argmaxAbs (permL ρ l v) < l := by
  have hvne : v ≠ [] := by intro e; rw [e] at hv; simp at hv; omega
  have hl' : (permL ρ l v).length = l := by simp [permL]
  have hv'ne : permL ρ l v ≠ [] := by intro e; rw [e] at hl'; simp at hl'; omega
  obtain ⟨hk, _, _⟩ := argmaxAbs_first v hvne
  obtain ⟨hk', _, hmax'⟩ := argmaxAbs_first (permL ρ l v) hv'ne
  rw [hv] at hk
  rw [hl'] at hk' hmax'
  refine ⟨?_, hk'⟩
  by_contra hne
  have h1 := huniq _ (hρ.lt _ hk') hne
  have h2 := hmax' (ρi (argmaxAbs v)) (hρ.lt' _ hk)
  rw [permL_getD ρ l v _ (hρ.lt' _ hk), permL_getD ρ l v _ hk', hρ.right _ hk] at h2
  exact absurd h2 (not_le.mpr h1)

/-- **the unit normalisation of `ac2mp_poly` commutes with the permutation** when the cell of the
    original run is NaN (blanked, or `C·q = 0`: then it is NaN in the permuted run as well) or the
    component of largest magnitude of `C·q` is attained once (ties are outside the property's domain) -/
theorem phiCell_perm [IsStrictOrderedRing K] {l d : Nat} (hl : 0 < l) {ρ ρi π πi : Nat → Nat}
    (hρ : PermOn l ρ ρi)
    (hπ : PermOn d π πi) (C C' : Mat K) (hr : C.r = l) (hr' : C'.r = l) (hc : C.c = d) (hc' : C'.c = d)
    (he : ∀ o, o < l → ∀ j, j < d → C'.e o j = C.e (ρ o) (π j))
    (lambd : Option (Plscf.Cx K)) (q : List (Plscf.Cx K))
    (huniq : phiCell C lambd q ≠ none → ∀ i, i < l → i ≠ argmaxAbs (phiRaw C q) →
      Cx.normSq ((phiRaw C q).getD i ⟨0, 0⟩)
        < Cx.normSq ((phiRaw C q).getD (argmaxAbs (phiRaw C q)) ⟨0, 0⟩)) :
    phiCell C' lambd (permL π d q) = (phiCell C lambd q).map (permL ρ l) := by
  by_cases hnone : phiCell C lambd q = none
  · rw [hnone]
    rcases (phiCell_eq_none_iff C lambd q).mp hnone with hb | hz
    · exact (phiCell_eq_none_iff C' lambd _).mpr (Or.inl hb)
    · refine (phiCell_eq_none_iff C' lambd _).mpr (Or.inr ?_)
      rw [phiRaw_perm hρ hπ C C' hr hr' hc hc' he q]
      intro y hy
      obtain ⟨a, _, rfl⟩ := List.mem_map.mp hy
      rw [List.getD_eq_getElem?_getD]
      cases hk : (phiRaw C q)[ρ a]? with
      | none => exact ⟨rfl, rfl⟩
      | some x => exact hz x (List.mem_of_getElem? hk)
  have huniq := huniq hnone
  unfold phiCell at hnone ⊢
  by_cases hb : blanked lambd
  · rw [if_pos hb] at hnone; exact absurd rfl hnone
  · rw [if_neg hb] at hnone
    rw [if_neg hb, if_neg hb]
    have hvl : (phiRaw C q).length = l := by simp [phiRaw, hr]
    simp only [phiRaw_perm hρ hπ C C' hr hr' hc hc' he q]
    obtain ⟨hk, hk'⟩ := argmaxAbs_permL hl hρ (phiRaw C q) hvl huniq
    rw [permL_getD ρ l _ _ hk', hk]
    set p := (phiRaw C q).getD (argmaxAbs (phiRaw C q)) ⟨0, 0⟩
    by_cases h0 : p.re = 0 ∧ p.im = 0
    · rw [if_pos h0, if_pos h0]; rfl
    · rw [if_neg h0, if_neg h0, Option.map_some]
      congr 1
      unfold permL
      rw [List.map_map]
      apply List.map_congr_left
      intro a ha
      have ha' : ρ a < (phiRaw C q).length := by rw [hvl]; exact hρ.lt a (List.mem_range.mp ha)
      simp [List.getD_eq_getElem?_getD, List.getElem?_map, List.getElem?_eq_getElem ha']

/-- the column of one order with every shape re-read through `ρ`; frequencies, dampings, poles kept -/
def permColumn (ρ : Nat → Nat) (l : Nat) (col : Column K) : Column K :=
  { fn := col.fn, xi := col.xi, phi := col.phi.map (Option.map (permL ρ l)), lam := col.lam }

theorem ac2mpPoly_perm [IsStrictOrderedRing K] {l d : Nat} (hl : 0 < l) {ρ ρi π πi : Nat → Nat} (hρ : PermOn l ρ ρi)
    (hπ : PermOn d π πi) (C C' : Mat K) (hr : C.r = l) (hr' : C'.r = l) (hc : C.c = d) (hc' : C'.c = d)
    (he : ∀ o, o < l → ∀ j, j < d → C'.e o j = C.e (ρ o) (π j))
    (sqrt : K → K) (twoPi invdt : K) (cor : Bool) (invTau : K) (eigs : List (EigIn K))
    (huniq : ∀ e ∈ eigs, phiCell C (lambdOf invdt e) e.q ≠ none →
      ∀ i, i < l → i ≠ argmaxAbs (phiRaw C e.q) →
      Cx.normSq ((phiRaw C e.q).getD i ⟨0, 0⟩)
        < Cx.normSq ((phiRaw C e.q).getD (argmaxAbs (phiRaw C e.q)) ⟨0, 0⟩)) :
    ac2mpPoly sqrt twoPi invdt cor invTau C' (eigs.map (permEig π d))
      = permColumn ρ l (ac2mpPoly sqrt twoPi invdt cor invTau C eigs) := by
  have hphi : (eigs.map (permEig π d)).map (fun e => phiCell C' (lambdOf invdt e) e.q)
      = (eigs.map fun e => phiCell C (lambdOf invdt e) e.q).map (Option.map (permL ρ l)) := by
    rw [List.map_map, List.map_map]
    apply List.map_congr_left
    intro e he'
    show phiCell C' (lambdOf invdt e) (permL π d e.q) = (phiCell C (lambdOf invdt e) e.q).map (permL ρ l)
    exact phiCell_perm hl hρ hπ C C' hr hr' hc hc' he _ _ (huniq e he')
  unfold ac2mpPoly permColumn
  simp only [hphi, List.map_map]
  rfl

end norm

/-! ## 6. the characteristic polynomial of the conjugated state matrix -/
section charpoly
variable {K : Type} [CommRing K]

/-- a permutation of `0 … d-1` as an equivalence of `Fin d` -/
def PermOn.equiv {d : Nat} {π πi : Nat → Nat} (h : PermOn d π πi) : Fin d ≃ Fin d where
  toFun i := ⟨π i.1, h.lt i.1 i.2⟩
  invFun i := ⟨πi i.1, h.lt' i.1 i.2⟩
  left_inv i := Fin.ext (h.left i.1 i.2)
  right_inv i := Fin.ext (h.right i.1 i.2)

/-- conjugation by a permutation matrix keeps the characteristic polynomial: the same eigenvalues with
    the same multiplicities -/
theorem charpoly_perm {d : Nat} {π πi : Nat → Nat} (hπ : PermOn d π πi) (A A' : Nat → Nat → K)
    (hA : ∀ i, i < d → ∀ j, j < d → A' i j = A (π i) (π j)) :
    (toMx d d A').charpoly = (toMx d d A).charpoly := by
  have e : toMx d d A' = Matrix.reindex hπ.equiv.symm hπ.equiv.symm (toMx d d A) := by
    ext i j
    simp only [toMx, Matrix.reindex_apply, Matrix.submatrix_apply, Equiv.symm_symm]
    exact hA i.1 i.2 j.1 j.2
  rw [e, Matrix.charpoly_reindex]

end charpoly

end PV.Cov
