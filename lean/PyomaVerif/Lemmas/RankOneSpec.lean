import PyomaVerif.Model.Spectral
import PyomaVerif.Model.Fdd
import PyomaVerif.Lemmas.Spectral
import PyomaVerif.Lemmas.Fdd
import Mathlib.Algebra.Star.Basic
/-!
Helper lemmas for `Props/C06C13.lean` (C06 ∘ C13).

* the estimator model of C13 on finite real combinations of scalar signals
  (`welchX`, `welchCsd`, `corFromPxy` are additive/real-homogeneous over `Finset` sums);
* the pair-complex numbers `Fdd.Cx K` of the FDD model are a field with the involution `conj`
  (so that `C06.C06_rank_one` applies to them), and `toCx` — the spectral matrix leaving
  `SD_est` is the array entering `SD_svalsvec` — is a ring homomorphism `CxS K → Fdd.Cx K`;
* a rank-one matrix `σ·a·aᵀ` (`a` real) and an SVD of it under the LAPACK contract: the first
  left singular vector is a non-zero multiple of `a`;
* `normalise` of a row `c·a` (`a` real) is exactly `a / a[first argmax |a|]`.
-/
set_option linter.unusedSectionVars false
set_option linter.unusedSimpArgs false
namespace PV
open Finset

/-! ### the estimator on finite combinations -/
section lin
variable {K : Type} [Field K]

theorem welchX_zero (w : Nat → K) (n step : Nat) (tw : Nat → CxS K) (s k : Nat) :
    welchX (fun _ => (0 : K)) w n step tw s k = 0 := by
  simp [welchX_eq, segMean_eq, CxS.ofReal_zero]

/-- segment transform of `Σ_μ c_μ·s_μ` -/
theorem welchX_lin (M : Nat) (c : Nat → K) (sg : Nat → Nat → K) (w : Nat → K) (n step : Nat)
    (tw : Nat → CxS K) (s k : Nat) :
    welchX (fun t => ∑ μ ∈ range M, c μ * sg μ t) w n step tw s k
      = ∑ μ ∈ range M, CxS.ofReal (c μ) * welchX (sg μ) w n step tw s k := by
  induction M with
  | zero => simp only [range_zero, sum_empty]; exact welchX_zero w n step tw s k
  | succ M ih =>
    simp only [sum_range_succ]
    rw [welchX_add (fun t => ∑ μ ∈ range M, c μ * sg μ t) (fun t => c M * sg M t), ih,
      welchX_smul]

/-- Welch cross estimate of two finite combinations: the double sum of the cross estimates -/
theorem welchCsd_lin (M M' : Nat) (c d : Nat → K) (sg sh : Nat → Nat → K) (n : Nat) (fs : K)
    (w : Nat → K) (np nov nfft : Nat) (tw : Nat → CxS K) (k : Nat) :
    (welchCsd (fun t => ∑ μ ∈ range M, c μ * sg μ t) (fun t => ∑ ν ∈ range M', d ν * sh ν t)
        n fs w np nov nfft tw).val k
      = ∑ μ ∈ range M, ∑ ν ∈ range M',
          CxS.ofReal (c μ * d ν) * (welchCsd (sg μ) (sh ν) n fs w np nov nfft tw).val k := by
  simp only [welchCsd_val, welchX_lin, CxS.conj_sum, CxS.conj_mul, CxS.conj_ofReal, CxS.ofReal_mul]
  simp only [sum_mul_sum]
  simp only [mul_sum]
  rw [sum_comm]
  apply sum_congr rfl; intro μ _
  rw [sum_comm]
  apply sum_congr rfl; intro ν _
  apply sum_congr rfl; intro s _
  ring

theorem corFromPxy_zero (m : Nat) (tw2 : Nat → CxS K) (ew : Nat → K) (k : Nat) :
    corFromPxy m tw2 ew (fun _ => 0) k = 0 := by
  have h := corFromPxy_smul (0 : K) m tw2 ew (fun _ => 0) k
  simp only [CxS.ofReal_zero, zero_mul] at h
  exact h

/-- the second stage of the correlogram chain is additive over finite sums -/
theorem corFromPxy_sum (m : Nat) (tw2 : Nat → CxS K) (ew : Nat → K) (M : Nat)
    (P : Nat → Nat → CxS K) (k : Nat) :
    corFromPxy m tw2 ew (fun q => ∑ μ ∈ range M, P μ q) k
      = ∑ μ ∈ range M, corFromPxy m tw2 ew (P μ) k := by
  induction M with
  | zero => simp only [range_zero, sum_empty]; exact corFromPxy_zero m tw2 ew k
  | succ M ih =>
    simp only [sum_range_succ]
    rw [corFromPxy_add m tw2 ew (fun q => ∑ μ ∈ range M, P μ q) (P M), ih]

end lin

/-! ### `Fdd.Cx K` is a field with involution -/
namespace Fdd.Cx
variable {K : Type} [Field K] [LinearOrder K] [IsStrictOrderedRing K]

instance {K : Type} [DecidableEq K] : DecidableEq (Cx K) := fun a b =>
  decidable_of_iff (a.re = b.re ∧ a.im = b.im)
    ⟨fun h => by cases a; cases b; simp_all, fun h => by subst h; exact ⟨rfl, rfl⟩⟩

instance : Neg (Cx K) := ⟨fun a => ⟨-a.re, -a.im⟩⟩
@[simp] theorem neg_re (a : Cx K) : (-a).re = -a.re := rfl
@[simp] theorem neg_im (a : Cx K) : (-a).im = -a.im := rfl

instance instCommRing : CommRing (Cx K) where
  add := (· + ·)
  zero := 0
  mul := (· * ·)
  one := 1
  neg := Neg.neg
  add_assoc a b c := by ext <;> simp [add_assoc]
  zero_add a := by ext <;> simp
  add_zero a := by ext <;> simp
  add_comm a b := by ext <;> simp [add_comm]
  neg_add_cancel a := by ext <;> simp
  mul_assoc a b c := by ext <;> simp <;> ring
  one_mul a := by ext <;> simp
  mul_one a := by ext <;> simp
  left_distrib a b c := by ext <;> simp <;> ring
  right_distrib a b c := by ext <;> simp <;> ring
  mul_comm a b := by ext <;> simp <;> ring
  zero_mul a := by ext <;> simp
  mul_zero a := by ext <;> simp
  nsmul := nsmulRec
  zsmul := zsmulRec

instance : Inv (Cx K) := ⟨Cx.inv⟩

theorem inv_def (a : Cx K) : a⁻¹ = Cx.inv a := rfl

instance instField : Field (Cx K) where
  toCommRing := instCommRing
  inv := Inv.inv
  div := fun a b => a / b
  div_eq_mul_inv a b := by
    show a / b = a * Cx.inv b
    rw [div_eq_inv_mul]; exact mul_comm _ _
  exists_pair_ne := ⟨0, 1, fun h => by
    have := congrArg Cx.re h
    simp at this⟩
  mul_inv_cancel a ha := by
    show a * Cx.inv a = 1
    rw [mul_comm, ← div_eq_inv_mul]; exact div_self ha
  inv_zero := by
    show Cx.inv (0 : Cx K) = 0
    ext <;> simp [Cx.inv]
  nnqsmul := _
  nnqsmul_def := fun _ _ => rfl
  qsmul := _
  qsmul_def := fun _ _ => rfl

instance : StarRing (Cx K) where
  star := Cx.conj
  star_involutive := conj_conj
  star_mul a b := by
    show conj (a * b) = conj b * conj a
    rw [conj_mul]; exact mul_comm _ _
  star_add a b := by
    show conj (a + b) = conj a + conj b
    ext <;> simp [add_comm]

theorem star_eq_conj (a : Cx K) : star a = Cx.conj a := rfl

theorem conj_ofReal (x : K) : Cx.conj (Cx.ofReal x : Cx K) = Cx.ofReal x := by ext <;> simp
theorem ofReal_mul (x y : K) : (Cx.ofReal (x * y) : Cx K) = Cx.ofReal x * Cx.ofReal y := by
  ext <;> simp
theorem ofReal_ne_zero {x : K} (hx : x ≠ 0) : (Cx.ofReal x : Cx K) ≠ 0 := fun h => by
  have := congrArg Cx.re h
  exact hx (by simpa using this)
theorem ofReal_zero : (Cx.ofReal 0 : Cx K) = 0 := rfl

theorem normSq_ofReal (x : K) : normSq (Cx.ofReal x : Cx K) = x * x := by simp [normSq]

theorem sum_re (n : Nat) (f : Nat → Cx K) : (∑ i ∈ range n, f i).re = ∑ i ∈ range n, (f i).re := by
  induction n with
  | zero => simp
  | succ n ih => rw [sum_range_succ, sum_range_succ, add_re, ih]

end Fdd.Cx

/-! ### from the estimator's numbers to the FDD model's numbers -/
section bridge
variable {K : Type} [Field K] [LinearOrder K] [IsStrictOrderedRing K]

/-- the complex array returned by `SD_est` is the array handed to `SD_svalsvec` -/
def toCx (z : CxS K) : Fdd.Cx K := ⟨z.re, z.im⟩

theorem toCx_mul (x y : CxS K) : toCx (x * y) = toCx x * toCx y := rfl
theorem toCx_add (x y : CxS K) : toCx (x + y) = toCx x + toCx y := rfl
theorem toCx_ofReal (x : K) : toCx (CxS.ofReal x) = Fdd.Cx.ofReal x := rfl
theorem toCx_zero : toCx (0 : CxS K) = 0 := rfl
theorem toCx_ne_zero {z : CxS K} (hz : z ≠ 0) : toCx z ≠ 0 := fun h => by
  apply hz
  have h1 := congrArg Fdd.Cx.re h
  have h2 := congrArg Fdd.Cx.im h
  exact CxS.ext' h1 h2

end bridge

/-! ### SVD contract on a rank-one matrix; normalisation of a collinear row -/
namespace Fdd
section rankone
variable {K : Type} [Field K] [LinearOrder K] [IsStrictOrderedRing K]

/-- **First left singular vector of `σ·a·aᵀ`.** `A = σ·a·aᵀ` (`σ ≠ 0` complex, `a ≠ 0` real) and
    `A = U·diag(S)·Vᴴ` with the first column of `V` orthogonal to the others and of unit norm,
    `S` non-negative with `S₀` the largest, the first column of `U` of unit norm (all part of
    the LAPACK contract for `np.linalg.svd`): then `U[:,0] = w·a = w·conj(a)` with `w ≠ 0`. -/
theorem svd_first_left_of_rank_one (n : Nat) (A : Nat → Nat → Cx K) (σ : Cx K) (a : Nat → K)
    (hA : ∀ i j, i < n → j < n → A i j = σ * Cx.ofReal (a i) * Cx.ofReal (a j))
    (S : Nat → K) (U V : Nat → Nat → Cx K)
    (hdec : ∀ i j, i < n → j < n →
      A i j = ∑ r ∈ range n, Cx.ofReal (S r) * U i r * Cx.conj (V j r))
    (hV : ∀ r, r < n → ∑ j ∈ range n, Cx.conj (V j r) * V j 0 = if r = 0 then 1 else 0)
    (hnn : ∀ r, r < n → 0 ≤ S r) (hord : ∀ r, r < n → S r ≤ S 0)
    (hU : ∑ i ∈ range n, Cx.normSq (U i 0) = 1)
    (hσ : σ ≠ 0) (i0 : Nat) (hi0 : i0 < n) (ha : a i0 ≠ 0) :
    ∃ w : Cx K, w ≠ 0 ∧ ∀ i, i < n → U i 0 = w * Cx.conj (Cx.ofReal (a i)) := by
  have hn : 0 < n := Nat.lt_of_le_of_lt (Nat.zero_le _) hi0
  have hS0 : S 0 ≠ 0 := by
    intro h0
    have hz : ∀ r, r < n → S r = 0 := fun r hr =>
      le_antisymm (h0 ▸ hord r hr) (hnn r hr)
    have h1 : A i0 i0 = 0 := by
      rw [hdec i0 i0 hi0 hi0]
      apply sum_eq_zero; intro r hr
      rw [hz r (mem_range.mp hr), Cx.ofReal_zero]; ring
    rw [hA i0 i0 hi0 hi0] at h1
    exact mul_ne_zero (mul_ne_zero hσ (Cx.ofReal_ne_zero ha)) (Cx.ofReal_ne_zero ha) h1
  set β : Cx K := ∑ j ∈ range n, Cx.ofReal (a j) * V j 0 with hβ
  have key : ∀ i, i < n → Cx.ofReal (S 0) * U i 0 = σ * β * Cx.ofReal (a i) := by
    intro i hi
    have e1 : ∑ j ∈ range n, A i j * V j 0 = Cx.ofReal (S 0) * U i 0 := by
      have : ∀ j ∈ range n, A i j * V j 0
          = ∑ r ∈ range n, Cx.ofReal (S r) * U i r * (Cx.conj (V j r) * V j 0) := by
        intro j hj
        rw [hdec i j hi (mem_range.mp hj), sum_mul]
        apply sum_congr rfl; intro r _; ring
      rw [sum_congr rfl this, sum_comm]
      have : ∀ r ∈ range n, ∑ j ∈ range n, Cx.ofReal (S r) * U i r * (Cx.conj (V j r) * V j 0)
          = if r = 0 then Cx.ofReal (S 0) * U i 0 else 0 := by
        intro r hr
        rw [← mul_sum, hV r (mem_range.mp hr)]
        split_ifs with h
        · subst h; ring
        · ring
      rw [sum_congr rfl this, sum_ite_eq' (range n) 0]
      simp [hn]
    have e2 : ∑ j ∈ range n, A i j * V j 0 = σ * β * Cx.ofReal (a i) := by
      rw [hβ, mul_sum, sum_mul]
      apply sum_congr rfl; intro j hj
      rw [hA i j hi (mem_range.mp hj)]; ring
    rw [← e1, e2]
  have hS0' : (Cx.ofReal (S 0) : Cx K) ≠ 0 := Cx.ofReal_ne_zero hS0
  have hUi : ∀ i, i < n → U i 0 = σ * β / Cx.ofReal (S 0) * Cx.conj (Cx.ofReal (a i)) := by
    intro i hi
    rw [Cx.conj_ofReal, div_mul_eq_mul_div, eq_div_iff hS0', mul_comm, key i hi]
  refine ⟨σ * β / Cx.ofReal (S 0), ?_, hUi⟩
  intro hw
  have hz : ∀ i ∈ range n, Cx.normSq (U i 0) = 0 := by
    intro i hi
    rw [hUi i (mem_range.mp hi), hw, zero_mul]
    simp [Cx.normSq]
  rw [sum_congr rfl hz, sum_const_zero] at hU
  exact zero_ne_one hU

/-- **Normalisation of a collinear row.** If the row handed to the normalisation is `c·a`
    (`c ≠ 0` complex, `a` real, not all zero), `phi / phi[argmax |phi|]` is exactly the real
    vector `a / a[k]`, `k` the first index of largest `|a|` — and it is never NaN. -/
theorem normalise_collinear (n : Nat) (phi : Nat → Cx K) (c : Cx K) (hc : c ≠ 0) (a : Nat → K)
    (h : ∀ j, j < n → phi j = c * Cx.ofReal (a j)) (i0 : Nat) (hi0 : i0 < n) (ha : a i0 ≠ 0) :
    a (argmaxTo n fun i => a i * a i) ≠ 0 ∧
    ∃ out, normalise n phi = some out ∧
      ∀ i, i < n → out i = Cx.ofReal (a i / a (argmaxTo n fun i => a i * a i)) := by
  have hn : 0 < n := Nat.lt_of_le_of_lt (Nat.zero_le _) hi0
  have hcpos : 0 < Cx.normSq c := lt_of_le_of_ne (Cx.normSq_nonneg _)
    (fun e => hc (Cx.normSq_eq_zero.mp e.symm))
  have harg : argmaxTo n (fun i => (phi i).normSq) = argmaxTo n (fun i => a i * a i) := by
    rw [← argmaxTo_scale hcpos n (fun i => a i * a i)]
    apply argmaxTo_congr
    intro i hi
    rw [h i hi, Cx.normSq_mul, Cx.normSq_ofReal]
  set k := argmaxTo n (fun i => a i * a i) with hk
  have hkn : k < n := argmaxTo_lt hn _
  have hak : a k ≠ 0 := by
    intro e
    have h1 := argmaxTo_le (fun i => a i * a i) i0 hi0
    simp only [← hk, e, mul_zero] at h1
    exact ha (mul_self_eq_zero.mp (le_antisymm h1 (mul_self_nonneg _)))
  have hnz : (phi k).normSq ≠ 0 := by
    rw [h k hkn, Cx.normSq_mul, Cx.normSq_ofReal]
    exact mul_ne_zero hcpos.ne' (mul_ne_zero hak hak)
  refine ⟨hak, fun i => phi i / phi k, ?_, ?_⟩
  · simp only [normalise, harg, ← hk, if_neg hnz]
  · intro i hi
    have hden : (c.re * a k) * (c.re * a k) + (c.im * a k) * (c.im * a k) ≠ 0 := by
      have : (c.re * a k) * (c.re * a k) + (c.im * a k) * (c.im * a k)
          = Cx.normSq c * (a k * a k) := by simp only [Cx.normSq]; ring
      rw [this]; exact mul_ne_zero hcpos.ne' (mul_ne_zero hak hak)
    show phi i / phi k = _
    rw [h i hi, h k hkn]
    ext
    · simp only [Cx.div_re, Cx.mul_re, Cx.mul_im, Cx.ofReal_re, Cx.ofReal_im, Cx.normSq, mul_zero,
        sub_zero, zero_add, add_zero]
      rw [div_eq_div_iff hden hak]; ring
    · simp only [Cx.div_im, Cx.mul_re, Cx.mul_im, Cx.ofReal_re, Cx.ofReal_im, Cx.normSq, mul_zero,
        sub_zero, zero_add, add_zero]
      rw [div_eq_zero_iff]; left; ring

end rankone
end Fdd
end PV
