import PyomaVerif.Model.Unc
import PyomaVerif.Lemmas.Sum
import Mathlib.Algebra.DualNumber
import Mathlib.Data.Matrix.Mul
import Mathlib.LinearAlgebra.Matrix.NonsingularInverse
import Mathlib.Tactic.Ring
import Mathlib.Tactic.FieldSimp
import Mathlib.Tactic.LinearCombination
/-!
Helper lemmas for C17: reindexing of a sum over a stacked index, first-order (dual-number)
parts of matrix products, the explicit first-order pair calculus.
-/
namespace PV.Unc
open Finset

/-- a sum over the stacked index `m = j·r + i` is the double sum over `(j, i)`. -/
theorem sum_range_mul {M : Type} [AddCommMonoid M] (c r : Nat) (f : Nat → M) :
    ∑ m ∈ range (c * r), f m = ∑ j ∈ range c, ∑ i ∈ range r, f (j * r + i) := by
  induction c with
  | zero => simp
  | succ c ih => rw [Nat.succ_mul, Finset.sum_range_add, ih, Finset.sum_range_succ]

section Centre
variable {K : Type} [Field K]

theorem sum_dev (n : Nat) (a b : Nat → K) (x y : K) :
    ∑ k ∈ range n, (a k - x) * (b k - y)
      = ∑ k ∈ range n, a k * b k - y * ∑ k ∈ range n, a k - x * ∑ k ∈ range n, b k
        + (n : K) * (x * y) := by
  induction n with
  | zero => simp
  | succ n ih => simp only [Finset.sum_range_succ, ih]; push_cast; ring

/-- deviations from `x`, `y` split into deviations from the means `p`, `q` plus a rank-one term -/
theorem gram_centered (n : Nat) (a b : Nat → K) (s x y p q : K)
    (hp : (n : K) * p = ∑ k ∈ range n, a k) (hq : (n : K) * q = ∑ k ∈ range n, b k) :
    ∑ k ∈ range n, (a k - x) * s * ((b k - y) * s)
      = s * s * (∑ k ∈ range n, (a k - p) * (b k - q) + (n : K) * ((p - x) * (q - y))) := by
  have : ∑ k ∈ range n, (a k - x) * s * ((b k - y) * s)
      = s * s * ∑ k ∈ range n, (a k - x) * (b k - y) := by
    rw [Finset.mul_sum]; apply Finset.sum_congr rfl; intro k _; ring
  rw [this, sum_dev, sum_dev, ← hp, ← hq]
  ring

end Centre

section Dual
set_option linter.unusedSectionVars false
open TrivSqZeroExt Matrix
variable {K : Type} [CommRing K] {l m n : Type} [Fintype l] [Fintype m] [Fintype n]

/-- value part of a dual-number matrix -/
def mfst (A : Matrix m n (DualNumber K)) : Matrix m n K := A.map fst
/-- first-order (ε) part of a dual-number matrix -/
def msnd (A : Matrix m n (DualNumber K)) : Matrix m n K := A.map snd
/-- value part of a dual-number vector -/
def vfst (x : n → DualNumber K) : n → K := fun i => (x i).fst
/-- first-order part of a dual-number vector -/
def vsnd (x : n → DualNumber K) : n → K := fun i => (x i).snd

theorem mfst_mul (A : Matrix l m (DualNumber K)) (B : Matrix m n (DualNumber K)) :
    mfst (A * B) = mfst A * mfst B := by
  ext i j; simp [mfst, Matrix.mul_apply, fst_sum]

theorem msnd_mul (A : Matrix l m (DualNumber K)) (B : Matrix m n (DualNumber K)) :
    msnd (A * B) = mfst A * msnd B + msnd A * mfst B := by
  ext i j
  simp [mfst, msnd, Matrix.mul_apply, snd_sum, Finset.sum_add_distrib]

theorem mfst_transpose (A : Matrix m n (DualNumber K)) : mfst Aᵀ = (mfst A)ᵀ := by
  ext i j; simp [mfst]
theorem msnd_transpose (A : Matrix m n (DualNumber K)) : msnd Aᵀ = (msnd A)ᵀ := by
  ext i j; simp [msnd]

theorem mfst_one [DecidableEq n] : mfst (1 : Matrix n n (DualNumber K)) = 1 := by
  ext i j; by_cases h : i = j <;> simp [mfst, Matrix.one_apply, h]
theorem msnd_one [DecidableEq n] : msnd (1 : Matrix n n (DualNumber K)) = 0 := by
  ext i j; by_cases h : i = j <;> simp [msnd, h]

theorem vfst_mulVec (A : Matrix m n (DualNumber K)) (x : n → DualNumber K) :
    vfst (A *ᵥ x) = mfst A *ᵥ vfst x := by
  ext i; simp [vfst, mfst, Matrix.mulVec, dotProduct, fst_sum]
theorem vsnd_mulVec (A : Matrix m n (DualNumber K)) (x : n → DualNumber K) :
    vsnd (A *ᵥ x) = mfst A *ᵥ vsnd x + msnd A *ᵥ vfst x := by
  ext i
  simp [vfst, vsnd, mfst, msnd, Matrix.mulVec, dotProduct, snd_sum, Finset.sum_add_distrib]
theorem vfst_vecMul (x : m → DualNumber K) (A : Matrix m n (DualNumber K)) :
    vfst (x ᵥ* A) = vfst x ᵥ* mfst A := by
  ext i; simp [vfst, mfst, Matrix.vecMul, dotProduct, fst_sum]
theorem vfst_smul (c : DualNumber K) (x : n → DualNumber K) : vfst (c • x) = c.fst • vfst x := by
  ext i; simp [vfst]
theorem vsnd_smul (c : DualNumber K) (x : n → DualNumber K) :
    vsnd (c • x) = c.fst • vsnd x + c.snd • vfst x := by
  ext i; simp [vfst, vsnd]
theorem fst_dotProduct (x y : n → DualNumber K) : (x ⬝ᵥ y).fst = vfst x ⬝ᵥ vfst y := by
  simp [vfst, dotProduct, fst_sum]

end Dual

section Pair
open Matrix
variable {K : Type} [Field K] {n : Nat}

/-- **Eigenvalue sensitivity, explicit first-order pair form.**  `h1` is the ε-part of
    `A·φ = λ·φ`; `hl` is the value part of `χ·A = λ·χ`. -/
theorem eig_sens_pair (A0 A1 : Matrix (Fin n) (Fin n) K) (φ0 φ1 χ0 : Fin n → K) (l0 l1 : K)
    (h1 : A0 *ᵥ φ1 + A1 *ᵥ φ0 = l0 • φ1 + l1 • φ0)
    (hl : χ0 ᵥ* A0 = l0 • χ0)
    (hne : χ0 ⬝ᵥ φ0 ≠ 0) :
    l1 = (χ0 ⬝ᵥ (A1 *ᵥ φ0)) / (χ0 ⬝ᵥ φ0) := by
  have h := congrArg (fun x => χ0 ⬝ᵥ x) h1
  simp only [dotProduct_add, dotProduct_mulVec, hl, smul_dotProduct, dotProduct_smul,
    smul_eq_mul] at h
  rw [eq_div_iff hne, dotProduct_mulVec]
  linear_combination -h

end Pair
end PV.Unc
