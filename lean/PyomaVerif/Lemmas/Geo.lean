import PyomaVerif.Model.Geo
/-! Helper lemmas for the C19 theorems (core Lean only). -/
namespace PV.Geo
-- (kept inside the namespace so that the instance name cannot clash with another module's)
deriving instance DecidableEq for Except

theorem filter_isSome_pad (r : List String) (n : Nat) :
    ((r.map some ++ List.replicate n (none : Name)).filter Option.isSome) = r.map some := by
  rw [List.filter_append, List.filter_replicate]
  simp [List.filter_eq_self]

/-- membership in the roving names: a position outside the reference positions -/
theorem mem_roving {row : List Name} {ref : List Nat} {x : Name} :
    x ∈ roving row ref ↔ ∃ j, row[j]? = some x ∧ j ∉ ref := by
  unfold roving
  simp only [List.mem_map, List.mem_filter, Prod.exists]
  constructor
  · rintro ⟨a, j, ⟨hm, hf⟩, rfl⟩
    have := List.mem_zipIdx hm
    refine ⟨j, ?_, by simpa using hf⟩
    have h2 : j < row.length := by omega
    simp [List.getElem?_eq_getElem h2, this.2.2]
  · rintro ⟨j, hj, hn⟩
    refine ⟨x, j, ⟨?_, by simpa using hn⟩, rfl⟩
    rw [List.mem_iff_getElem?]
    exact ⟨j, by simp [List.getElem?_zipIdx, hj]⟩

/-- `lookup` in a zipped table when the label is present -/
theorem lookup_zip_of_mem {β} (index : List String) (cells : List β) (s : String)
    (hl : cells.length = index.length) (hs : s ∈ index) :
    (index.zip cells).lookup s = cells[index.idxOf s]? ∧ index[index.idxOf s]? = some s := by
  induction index generalizing cells with
  | nil => cases hs
  | cons a t ih =>
    cases cells with
    | nil => simp at hl
    | cons c cs =>
      simp only [List.zip_cons_cons, List.lookup_cons, List.idxOf_cons]
      by_cases h : s = a
      · subst h; simp
      · have h' : (a == s) = false := by simpa using fun e => h e.symm
        have h'' : (s == a) = false := by simpa using h
        simp only [h', h'', cond_false]
        have hs' : s ∈ t := by
          cases hs with
          | head => exact absurd rfl h
          | tail _ m => exact m
        have := ih cs (by simpa using hl) hs'
        simpa using this

/-- with distinct labels, looking every label up gives the table back -/
theorem map_lookup_self {β} (index : List String) (cells : List β) (d : β)
    (hl : cells.length = index.length) (hn : index.Nodup) :
    index.map (fun s => ((index.zip cells).lookup s).getD d) = cells := by
  induction index generalizing cells with
  | nil => cases cells <;> simp_all
  | cons a t ih =>
    cases cells with
    | nil => simp at hl
    | cons c cs =>
      rw [List.nodup_cons] at hn
      simp only [List.zip_cons_cons, List.map_cons, List.lookup_cons, beq_self_eq_true, Option.getD_some,
        List.cons.injEq, true_and]
      rw [← ih cs (by simpa using hl) hn.2]
      apply List.map_congr_left
      intro s hs
      have : (s == a) = false := by
        simp only [beq_eq_false_iff_ne, ne_eq]
        rintro rfl; exact hn.1 hs
      simp [this, ih cs (by simpa using hl) hn.2]

/-- `lookup` only depends on the set of pairs when the keys are distinct -/
theorem lookup_perm {β} {l l' : List (String × β)} (h : l.Perm l') (hn : (l.map Prod.fst).Nodup) (s : String) :
    l.lookup s = l'.lookup s := by
  induction h with
  | nil => rfl
  | cons x _ ih =>
    obtain ⟨k, b⟩ := x
    simp only [List.map_cons, List.nodup_cons] at hn
    simp only [List.lookup_cons]
    rw [ih hn.2]
  | swap x y t =>
    obtain ⟨k1, b1⟩ := x
    obtain ⟨k2, b2⟩ := y
    simp only [List.map_cons, List.nodup_cons, List.mem_cons, not_or] at hn
    simp only [List.lookup_cons]
    by_cases h1 : s = k1 <;> by_cases h2 : s = k2
    · subst h1; subst h2; exact absurd rfl hn.1.1
    · subst h1
      have : (s == k2) = false := by simpa using h2
      simp [this]
    · subst h2
      have : (s == k1) = false := by simpa using h1
      simp [this]
    · have a1 : (s == k1) = false := by simpa using h1
      have a2 : (s == k2) = false := by simpa using h2
      simp [a1, a2]
  | trans h1 _ ih1 ih2 =>
    rw [ih1 hn, ih2 ((List.Perm.nodup_iff (h1.map Prod.fst)).1 hn)]

/-- `mapM` in `Except` of a function that succeeds exactly on `P`, where it equals `g` -/
theorem mapM_ok_iff {α β ε} (f : α → Except ε β) (g : α → β) (P : α → Prop)
    (hf : ∀ a b, f a = .ok b ↔ (P a ∧ b = g a)) (l : List α) (l' : List β) :
    l.mapM f = .ok l' ↔ l' = l.map g ∧ ∀ a ∈ l, P a := by
  induction l generalizing l' with
  | nil => simp [List.mapM_nil, pure, Except.pure, eq_comm]
  | cons a t ih =>
    rw [List.mapM_cons]
    cases ha : f a with
    | error e =>
      simp only [bind, Except.bind, reduceCtorEq, false_iff, not_and]
      intro _ hall
      have := (hf a (g a)).2 ⟨hall a List.mem_cons_self, rfl⟩
      rw [ha] at this; cases this
    | ok b =>
      have hb := (hf a b).1 ha
      cases ht : t.mapM f with
      | error e =>
        simp only [bind, Except.bind, reduceCtorEq, false_iff, not_and]
        intro hl hall
        cases l' with
        | nil => simp at hl
        | cons x xs =>
          simp only [List.map_cons, List.cons.injEq] at hl
          have := (ih xs).2 ⟨hl.2, fun a ha => hall a (List.mem_cons_of_mem _ ha)⟩
          rw [ht] at this; cases this
      | ok t' =>
        have := (ih t').1 ht
        simp only [bind, Except.bind, pure, Except.pure, Except.ok.injEq, List.map_cons, List.mem_cons,
          forall_eq_or_imp]
        constructor
        · rintro rfl
          exact ⟨by rw [hb.2, this.1], hb.1, this.2⟩
        · rintro ⟨rfl, _, _⟩
          rw [hb.2, this.1]

def shiftCell : Cell → Cell
  | .num q => .num (q - 1)
  | c => c

def isStr : Cell → Bool
  | .str _ => true
  | _ => false

theorem sub1Cell_ok (a b : Cell) : sub1Cell a = .ok b ↔ (isStr a = false ∧ b = shiftCell a) := by
  cases a <;> simp [sub1Cell, isStr, shiftCell, eq_comm]

theorem sub1Rows_ok (c c' : List (List Cell)) :
    sub1Rows c = .ok c' ↔ c' = c.map (fun r => r.map shiftCell) ∧ ∀ r ∈ c, ∀ x ∈ r, isStr x = false := by
  unfold sub1Rows
  exact mapM_ok_iff _ (fun r => r.map shiftCell) (fun r => ∀ x ∈ r, isStr x = false)
    (fun r r' => by
      rw [mapM_ok_iff sub1Cell shiftCell (fun x => isStr x = false) sub1Cell_ok]
      exact and_comm) c c'

theorem ite_some_none {α} {c : Prop} [Decidable c] {w : α} {rest : Option α} :
    (if c then some w else rest) = none ↔ ¬ c ∧ rest = none := by
  by_cases h : c <;> simp [h]

theorem geo1Pre_none_iff {d co di} : geo1Pre d co di = none ↔
    d.any (fun p => !geo1All.contains p.1) = false ∧ co.ncols = 3 ∧ co.shape = di.shape ∧
    colsBad d "BG nodes" 3 = false ∧ colsBad d "BG lines" 2 = false ∧ colsBad d "BG surfaces" 3 = false ∧
    co.index = di.index := by
  simp only [geo1Pre, ite_some_none, bne_iff_ne, ne_eq, Decidable.not_not, Bool.not_eq_true, and_true]

theorem geo2Pre_none_iff {d pt mp} : geo2Pre d pt mp = none ↔
    d.any (fun p => !geo2All.contains p.1) = false ∧ pt.ncols = 3 ∧ pt.shape = mp.shape ∧
    signBad d pt = false ∧
    colsBad d "BG nodes" 3 = false ∧ colsBad d "BG lines" 2 = false ∧ colsBad d "BG surfaces" 3 = false := by
  simp only [geo2Pre, ite_some_none, bne_iff_ne, ne_eq, Decidable.not_not, Bool.not_eq_true, and_true]

theorem geo2Names_none_iff {names mp cs} : geo2Names names mp cs = none ↔
    names.all (nameIn (mapStrs mp)) = true ∧ cs.cols.all (fun c => names.contains (some c)) = true ∧
    cs.index.all (fun i => (mapCstrs mp names).contains i) = true := by
  simp only [geo2Names, ite_some_none, Bool.not_eq_true', Bool.not_eq_false, and_true]


/-- the facts behind an accepted geometry-1 -/
structure Geo1Ok (fd : FileDict) (r : Option (List (List Nat))) (out : Out1) (nm : NamesArg) (co di : Tbl) : Prop where
  hnm : fd.names = some nm
  hco : (dropInfo fd.tbls).lookup "sensors coordinates" = some co
  hdi : (dropInfo fd.tbls).lookup "sensors directions" = some di
  hpre : geo1Pre (dropInfo fd.tbls) co di = none
  hflat : flattenNames nm r = .ok out.names
  hall : out.names.all (nameIn co.index) = true
  hcc : reindexRows co out.names = .ok out.coord
  hdd : reindexRows di out.names = .ok out.dir
  hsl : subIdx (dropInfo fd.tbls) "sensors lines" = .ok out.lines
  hbl : subIdx (dropInfo fd.tbls) "BG lines" = .ok out.bgLines
  hbs : subIdx (dropInfo fd.tbls) "BG surfaces" = .ok out.bgSurf
  hbn : out.bgNodes = plainArr (dropInfo fd.tbls) "BG nodes"
  hcols : out.coordCols = co.cols
  htab : isTable nm = true

theorem checkGeo1_ok {fd r out} (h : checkGeo1 fd r = .ok out) : ∃ nm co di, Geo1Ok fd r out nm co di := by
  unfold checkGeo1 at h
  simp only at h
  split at h
  · rename_i nm co di hn hc hd
    refine ⟨nm, co, di, ?_⟩
    split at h
    · cases h
    · rename_i hpre
      split at h
      · cases h
      · rename_i names hfl
        split at h
        · cases h
        · rename_i hall
          split at h
          · cases h
          · rename_i cc hcc
            split at h
            · cases h
            · rename_i dd hdd
              split at h
              · cases h
              · rename_i sl hsl
                split at h
                · cases h
                · rename_i bl hbl
                  split at h
                  · cases h
                  · rename_i bs hbs
                    split at h
                    · cases h
                    · rename_i htab
                      cases h
                      exact ⟨hn, hc, hd, hpre, hfl, by simpa using hall, hcc, hdd, hsl, hbl, hbs, rfl, rfl, by simpa using htab⟩
  · cases h

theorem checkGeo1_of {fd r out nm co di} (h : Geo1Ok fd r out nm co di) : checkGeo1 fd r = .ok out := by
  obtain ⟨hn, hc, hd, hpre, hfl, hall, hcc, hdd, hsl, hbl, hbs, hbn, hcols, htab⟩ := h
  unfold checkGeo1
  simp only [hn, hc, hd, hpre, hfl, hall, hcc, hdd, hsl, hbl, hbs, htab]
  cases out
  simp_all

/-- the facts behind an accepted geometry-2 (`mc` = what a missing `constraints` key gives) -/
structure Geo2Ok (mc : Option Tbl) (fd : FileDict) (r : Option (List (List Nat))) (out : Out2)
    (nm : NamesArg) (pt mp cs0 : Tbl) : Prop where
  hnm : fd.names = some nm
  hpt : (dropInfo fd.tbls).lookup "points coordinates" = some pt
  hmp : (dropInfo fd.tbls).lookup "mapping" = some mp
  hpre : geo2Pre (dropInfo fd.tbls) pt mp = none
  hflat : flattenNames nm r = .ok out.names
  hcs : cstrOf mc (dropInfo fd.tbls) = some cs0
  hnames : geo2Names out.names (fill0 mp) (fill0 cs0) = none
  hsl : subIdx (dropInfo fd.tbls) "sensors lines" = .ok out.lines
  hss : subIdx (dropInfo fd.tbls) "sensors surfaces" = .ok out.surf
  hbl : subIdx (dropInfo fd.tbls) "BG lines" = .ok out.bgLines
  hbs : subIdx (dropInfo fd.tbls) "BG surfaces" = .ok out.bgSurf
  hbn : out.bgNodes = plainArr (dropInfo fd.tbls) "BG nodes"
  hpts : out.pts = noneIfEmpty pt
  hmap : out.map = noneIfEmpty (fill0 mp)
  hcstr : out.cstr = noneIfEmpty (reorderCols (fill0 cs0) out.names)
  hsign : out.sign = noneIfEmpty (signOf (dropInfo fd.tbls) pt)
  htab : isTable nm = true

theorem checkGeo2With_ok {mc fd r out} (h : checkGeo2With mc fd r = .ok out) :
    ∃ nm pt mp cs0, Geo2Ok mc fd r out nm pt mp cs0 := by
  unfold checkGeo2With at h
  simp only at h
  split at h
  · rename_i nm pt mp hn hp hm
    split at h
    · cases h
    · rename_i hpre
      split at h
      · cases h
      · rename_i names hfl
        split at h
        · cases h
        · rename_i cs0 hcs
          refine ⟨nm, pt, mp, cs0, ?_⟩
          split at h
          · cases h
          · rename_i hnames
            split at h
            · cases h
            · rename_i sl hsl
              split at h
              · cases h
              · rename_i ss hss
                split at h
                · cases h
                · rename_i bl hbl
                  split at h
                  · cases h
                  · rename_i bs hbs
                    split at h
                    · cases h
                    · rename_i htab
                      cases h
                      exact ⟨hn, hp, hm, hpre, hfl, hcs, hnames, hsl, hss, hbl, hbs, rfl, rfl, rfl, rfl, rfl,
                        by simpa using htab⟩
  · cases h

theorem checkGeo2With_of {mc fd r out nm pt mp cs0} (h : Geo2Ok mc fd r out nm pt mp cs0) :
    checkGeo2With mc fd r = .ok out := by
  obtain ⟨hn, hp, hm, hpre, hfl, hcs, hnames, hsl, hss, hbl, hbs, hbn, hpts, hmap, hcstr, hsign, htab⟩ := h
  unfold checkGeo2With
  simp only [hn, hp, hm, hpre, hfl, hcs, hnames, hsl, hss, hbl, hbs, htab]
  cases out
  simp_all

/-- the only error of `reindex` is the duplicate-label `ValueError` -/
theorem reindexRows_error {t names e} (h : reindexRows t names = .error e) :
    e = .valueError .dupIndex ∧ ¬ t.index.Nodup ∧ t.index.map some ≠ names := by
  unfold reindexRows at h
  split at h
  · cases h
  · rename_i hne
    split at h
    · rename_i hd; cases h; exact ⟨rfl, hd, hne⟩
    · cases h

theorem reindexRows_isOk {t names} (h : t.index.Nodup ∨ t.index.map some = names) :
    ∃ c, reindexRows t names = .ok c := by
  unfold reindexRows
  split
  · exact ⟨_, rfl⟩
  · split
    · rename_i hne hd
      cases h with
      | inl h => exact absurd h hd
      | inr h => exact absurd h hne
    · exact ⟨_, rfl⟩

/-- no string cell in the sheet under key `k` (an index sheet holds numbers) -/
def NumericSheet (d : List (String × Tbl)) (k : String) : Prop :=
  ∀ t, d.lookup k = some t → ∀ r ∈ t.cells, ∀ x ∈ r, isStr x = false

/-- what an index sheet becomes: absent / empty → `None`, else every number minus one -/
def shifted (d : List (String × Tbl)) (k : String) : Option (List (List Cell)) :=
  match d.lookup k with
  | none => none
  | some t => if t.empty then none else some (t.cells.map fun r => r.map shiftCell)

theorem subIdx_ok_iff {d k o} : subIdx d k = .ok o ↔
    o = shifted d k ∧ (∀ t, d.lookup k = some t → t.empty = false → ∀ r ∈ t.cells, ∀ x ∈ r, isStr x = false) := by
  unfold subIdx shifted
  cases hl : d.lookup k with
  | none =>
    constructor
    · intro h; cases h; exact ⟨rfl, fun t ht => by cases ht⟩
    · rintro ⟨rfl, _⟩; rfl
  | some t =>
    by_cases he : t.empty = true
    · simp only [he, if_true]
      constructor
      · intro h; cases h; exact ⟨rfl, fun t' ht h2 => by cases ht; rw [he] at h2; cases h2⟩
      · rintro ⟨rfl, _⟩; rfl
    · simp only [he, Bool.false_eq_true, if_false]
      cases hs : sub1Rows t.cells with
      | error e =>
        simp only [reduceCtorEq, Option.some.injEq, forall_eq', false_iff, not_and]
        intro _ hall
        have := (sub1Rows_ok t.cells _).2 ⟨rfl, hall (by simpa using he)⟩
        rw [hs] at this; cases this
      | ok c =>
        have := (sub1Rows_ok t.cells c).1 hs
        simp only [Except.ok.injEq, Option.some.injEq, forall_eq']
        constructor
        · rintro rfl; exact ⟨by rw [this.1], fun _ => this.2⟩
        · rintro ⟨rfl, _⟩; rw [this.1]

theorem subIdx_error_typeError {d k e} (h : subIdx d k = .error e) : ¬ NumericSheet d k := by
  intro hn
  have : subIdx d k = .ok (shifted d k) := subIdx_ok_iff.2 ⟨rfl, fun t ht _ => hn t ht⟩
  rw [this] at h; cases h

/-- removing the sheets whose key is in `S` -/
def dropKeys (S : List String) (d : List (String × Tbl)) : List (String × Tbl) :=
  d.filter fun p => !S.contains p.1

theorem lookup_dropKeys (S : List String) (d : List (String × Tbl)) (k : String) :
    (dropKeys S d).lookup k = if S.contains k then none else d.lookup k := by
  induction d with
  | nil => simp [dropKeys]
  | cons p t ih =>
    obtain ⟨a, b⟩ := p
    unfold dropKeys at ih ⊢
    simp only [List.filter_cons]
    by_cases ha : S.contains a = true
    · simp only [ha, Bool.not_true, Bool.false_eq_true, if_false, ih, List.lookup_cons]
      by_cases hk : k = a
      · subst hk; simp only [ha, if_true]
      · have : (k == a) = false := by simpa using hk
        simp only [this]
    · simp only [ha, Bool.not_false, if_true, List.lookup_cons, ih]
      by_cases hk : k = a
      · subst hk; simp only [ha, beq_self_eq_true, Bool.false_eq_true, if_false]
      · have : (k == a) = false := by simpa using hk
        simp only [this]

theorem dropInfo_dropKeys (S : List String) (d : List (String × Tbl)) :
    dropInfo (dropKeys S d) = dropKeys S (dropInfo d) := by
  simp only [dropInfo, dropKeys, List.filter_filter]
  congr 1; funext p; exact Bool.and_comm _ _

theorem any_dropKeys {S d} {f : String × Tbl → Bool} (h : d.any f = false) : (dropKeys S d).any f = false := by
  simp only [List.any_eq_false, dropKeys, List.mem_filter] at h ⊢
  exact fun p hp => h p hp.1

theorem lookup_perm' {κ β} [BEq κ] [LawfulBEq κ] {l l' : List (κ × β)} (h : l.Perm l')
    (hn : (l.map Prod.fst).Nodup) (s : κ) : l.lookup s = l'.lookup s := by
  induction h with
  | nil => rfl
  | cons x _ ih =>
    obtain ⟨k, b⟩ := x
    simp only [List.map_cons, List.nodup_cons] at hn
    simp only [List.lookup_cons]
    rw [ih hn.2]
  | swap x y t =>
    obtain ⟨k1, b1⟩ := x
    obtain ⟨k2, b2⟩ := y
    simp only [List.map_cons, List.nodup_cons, List.mem_cons, not_or] at hn
    simp only [List.lookup_cons]
    by_cases h1 : s = k1 <;> by_cases h2 : s = k2
    · subst h1; subst h2; exact absurd rfl hn.1.1
    · subst h1
      have : (s == k2) = false := by simpa using h2
      simp [this]
    · subst h2
      have : (s == k1) = false := by simpa using h1
      simp [this]
    · have a1 : (s == k1) = false := by simpa using h1
      have a2 : (s == k2) = false := by simpa using h2
      simp [a1, a2]
  | trans h1 _ ih1 ih2 =>
    rw [ih1 hn, ih2 ((List.Perm.nodup_iff (h1.map Prod.fst)).1 hn)]

theorem lookup_zip_get {κ β} [BEq κ] [LawfulBEq κ] (keys : List κ) (vals : List β) (k : Nat) (key : κ)
    (hl : vals.length = keys.length) (hn : keys.Nodup) (hk : keys[k]? = some key) :
    (keys.zip vals).lookup key = vals[k]? := by
  induction keys generalizing vals k with
  | nil => simp at hk
  | cons a t ih =>
    cases vals with
    | nil => simp at hl
    | cons c cs =>
      rw [List.nodup_cons] at hn
      simp only [List.zip_cons_cons, List.lookup_cons]
      cases k with
      | zero => simp at hk; subst hk; simp
      | succ k =>
        simp only [List.getElem?_cons_succ] at hk ⊢
        have hmem : key ∈ t := List.mem_of_getElem? hk
        have : (key == a) = false := by
          simp only [beq_eq_false_iff_ne, ne_eq]; rintro rfl; exact hn.1 hmem
        simp only [this]
        exact ih cs k (by simpa using hl) hn.2 hk

/-- with distinct keys, `dict(zip(keys, vals))[keys[k]] = vals[k]` -/
theorem dictGet_zip {κ β} [BEq κ] [LawfulBEq κ] (keys : List κ) (vals : List β) (k : Nat) (key : κ)
    (hl : vals.length = keys.length) (hn : keys.Nodup) (hk : keys[k]? = some key) :
    dictGet (keys.zip vals) key = vals[k]? := by
  unfold dictGet
  rw [← lookup_perm' (List.reverse_perm (keys.zip vals)).symm
    (by rw [List.map_fst_zip (by omega)]; exact hn) key]
  exact lookup_zip_get keys vals k key hl hn hk

/-- `mapM` in `Except`: element-wise view of a success -/
theorem mapM_ok_get {α β ε} (f : α → Except ε β) (l : List α) (l' : List β) (h : l.mapM f = .ok l') :
    l'.length = l.length ∧ ∀ (i : Nat) (a : α), l[i]? = some a → ∃ b, l'[i]? = some b ∧ f a = .ok b := by
  induction l generalizing l' with
  | nil => simp [List.mapM_nil, pure, Except.pure] at h; subst h; simp
  | cons x t ih =>
    rw [List.mapM_cons] at h
    cases hx : f x with
    | error e => simp [hx, bind, Except.bind] at h
    | ok b =>
      cases ht : t.mapM f with
      | error e => simp [hx, ht, bind, Except.bind] at h
      | ok t' =>
        simp [hx, ht, bind, Except.bind, pure, Except.pure] at h
        subst h
        have := ih t' ht
        refine ⟨by simp [this.1], ?_⟩
        intro i a hi
        cases i with
        | zero => simp at hi; subst hi; exact ⟨b, by simp, hx⟩
        | succ i => simpa using this.2 i a (by simpa using hi)

theorem zipWith3_get {α β γ δ} (f : α → β → γ → δ) (as : List α) (bs : List β) (cs : List γ) (i : Nat)
    (a : α) (b : β) (c : γ) (ha : as[i]? = some a) (hb : bs[i]? = some b) (hc : cs[i]? = some c) :
    (zipWith3 f as bs cs)[i]? = some (f a b c) := by
  induction as generalizing bs cs i with
  | nil => simp at ha
  | cons x xs ih =>
    cases bs with
    | nil => simp at hb
    | cons y ys =>
      cases cs with
      | nil => simp at hc
      | cons z zs =>
        cases i with
        | zero => simp at ha hb hc; subst ha; subst hb; subst hc; simp [zipWith3]
        | succ i =>
          simp only [zipWith3, List.getElem?_cons_succ] at ha hb hc ⊢
          exact ih ys zs i ha hb hc

theorem colsBad_dropKeys {S d k n} (h : colsBad d k n = false) : colsBad (dropKeys S d) k n = false := by
  unfold colsBad at h ⊢
  rw [lookup_dropKeys]
  by_cases hc : S.contains k = true
  · simp only [hc, if_true]
  · simp only [hc, Bool.false_eq_true, if_false]; exact h

theorem subIdx_dropKeys (S d k) :
    subIdx (dropKeys S d) k = if S.contains k then .ok none else subIdx d k := by
  unfold subIdx
  rw [lookup_dropKeys]
  by_cases hc : S.contains k = true
  · simp only [hc, if_true]
  · simp only [hc, Bool.false_eq_true, if_false]

theorem plainArr_dropKeys (S d k) :
    plainArr (dropKeys S d) k = if S.contains k then none else plainArr d k := by
  unfold plainArr
  rw [lookup_dropKeys]
  by_cases hc : S.contains k = true
  · simp only [hc, if_true]
  · simp only [hc, Bool.false_eq_true, if_false]

/-- decidable form of `NumericSheet` (for concrete instances) -/
def numericSheetB (d : List (String × Tbl)) (k : String) : Bool :=
  match d.lookup k with
  | none => true
  | some t => t.cells.all fun r => r.all fun x => !isStr x

theorem numericSheet_of_b {d k} (h : numericSheetB d k = true) : NumericSheet d k := by
  intro t ht r hr x hx
  unfold numericSheetB at h
  rw [ht] at h
  simp only [List.all_eq_true] at h
  simpa using h r hr x hx

def isOk {ε α} : Except ε α → Bool
  | .ok _ => true
  | .error _ => false

theorem isOk_iff {ε α} {x : Except ε α} : isOk x = true ↔ ∃ o, x = .ok o := by
  cases x <;> simp [isOk]

/-- the optional sheet `k`, when present and not empty, has `n` columns -/
def ColsOk (d : List (String × Tbl)) (k : String) (n : Nat) : Prop :=
  ∀ t, d.lookup k = some t → t.empty = false → t.ncols = n

theorem colsBad_false_iff {d k n} : colsBad d k n = false ↔ ColsOk d k n := by
  unfold colsBad ColsOk
  cases d.lookup k with
  | none => simp
  | some t => cases h : t.empty <;> simp [h]

theorem nameIn_iff {l : List String} {n : Name} : nameIn l n = true ↔ ∃ s, n = some s ∧ s ∈ l := by
  cases n <;> simp [nameIn]

theorem cstrOf_nil (d : List (String × Tbl)) : cstrOf (some Tbl.nil) d = some ((d.lookup "constraints").getD Tbl.nil) := by
  unfold cstrOf; cases d.lookup "constraints" <;> rfl

/-- `sensors sign`, when present and not empty, has the shape of the points -/
def SignOk (d : List (String × Tbl)) (pt : Tbl) : Prop :=
  ∀ sg, d.lookup "sensors sign" = some sg → sg.empty = false → pt.shape = sg.shape

theorem signBad_false_iff {d pt} : signBad d pt = false ↔ SignOk d pt := by
  unfold signBad SignOk
  cases d.lookup "sensors sign" with
  | none => simp
  | some t => cases h : t.empty <;> simp [h]

/-! ## additions of the depth round (compositions for geometry 2, displayed coordinates) -/

/-- the number in a cell, 0 for NaN (and for a string, which `cstrVals` refuses) -/
def numOr0 : Cell → Rat
  | .num q => q
  | _ => 0

/-- the coefficient a constraint row (cells `row` under the column labels `cols`) gives to the
    sensor called `s`: the number under the column labelled `s`, 0 for NaN or when the sheet
    has no such column -/
def coefAt (cols : List String) (row : List Cell) (s : String) : Rat :=
  numOr0 (((cols.zip row).lookup s).getD (.num 0))

/-- … for a name as the code carries it (the NaN of an unfilled name cell has no column) -/
def coefName (cols : List String) (row : List Cell) : Name → Rat
  | some s => coefAt cols row s
  | none => 0

/-- the component of the mode shape that belongs to the sensor called `s`
    (`dict(zip(sens_names, phi))[s]`, 0 if there is no such sensor) -/
def phiAt (names : List Name) (phi : List Rat) (s : String) : Rat :=
  (dictGet (names.zip phi) (some s)).getD 0

theorem numOr0_fill0 (c : Cell) : numOr0 (fill0Cell c) = numOr0 c := by
  cases c <;> rfl

theorem lookup_zip_map {β γ} (f : β → γ) (keys : List String) (vals : List β) (s : String) :
    (keys.zip (vals.map f)).lookup s = ((keys.zip vals).lookup s).map f := by
  induction keys generalizing vals with
  | nil => simp
  | cons a t ih =>
    cases vals with
    | nil => simp
    | cons v vs =>
      simp only [List.map_cons, List.zip_cons_cons, List.lookup_cons]
      cases s == a <;> simp [ih]

theorem dot_cons (x : Rat) (xs : List Rat) (p : Rat) (ps : List Rat) :
    dot (x :: xs) (p :: ps) = x * p + dot xs ps := by
  simp [dot, List.zipWith, List.sum_cons]

theorem dot_nil_right (xs : List Rat) : dot xs [] = 0 := by
  cases xs <;> simp [dot]

theorem dot_nil_left (ps : List Rat) : dot [] ps = 0 := by
  simp [dot]

theorem dot_map_zero {α} (l : List α) (phi : List Rat) : dot (l.map fun _ => (0 : Rat)) phi = 0 := by
  induction l generalizing phi with
  | nil => exact dot_nil_left _
  | cons a t ih =>
    cases phi with
    | nil => exact dot_nil_right _
    | cons p ps => rw [List.map_cons, dot_cons, ih]; grind

/-- scaling the mode shape scales every constraint combination -/
theorem dot_scale (nums phi : List Rat) (c : Rat) : dot nums (phi.map (· * c)) = dot nums phi * c := by
  induction nums generalizing phi with
  | nil => simp [dot_nil_left]
  | cons x xs ih =>
    cases phi with
    | nil => simp [dot_nil_right]
    | cons p ps => rw [List.map_cons, dot_cons, dot_cons, ih]; grind

theorem dictGet_none_of_not_mem {κ β} [BEq κ] [LawfulBEq κ] (l : List (κ × β)) (k : κ)
    (h : ∀ p ∈ l, p.1 ≠ k) : dictGet l k = none := by
  unfold dictGet
  rw [List.lookup_eq_none_iff]
  intro p hp
  have := h p (List.mem_reverse.1 hp)
  simpa using fun e => this e.symm

/-- the keys of `cstrVals` are constraint names -/
theorem cstrVals_keys {cs : Tbl} {phi : List Rat} {cons : List (String × Rat)} (h : cstrVals cs phi = .ok cons) :
    ∀ p ∈ cons, p.1 ∈ cs.index := by
  unfold cstrVals at h
  split at h
  · cases h
  · split at h
    · cases h
    · cases h
      intro p hp
      exact (List.of_mem_zip hp).1

/-- changing the coefficient of one (present, unique) key changes the product by that
    coefficient times the key's component -/
theorem dot_update (names : List Name) (phi : List Rat) (key : Name) (a : Rat) (g : Name → Rat)
    (hl : phi.length = names.length) (hn : names.Nodup) (hk : key ∈ names) (hg : g key = 0) :
    dot (names.map fun n => if n = key then a else g n) phi =
      a * (dictGet (names.zip phi) key).getD 0 + dot (names.map g) phi := by
  induction names generalizing phi with
  | nil => cases hk
  | cons n0 ns ih =>
    cases phi with
    | nil => simp at hl
    | cons p0 ps =>
      rw [List.nodup_cons] at hn
      have hl' : ps.length = ns.length := by simpa using hl
      rw [List.map_cons, List.map_cons, dot_cons, dot_cons]
      by_cases h0 : n0 = key
      · subst h0
        have hd : dictGet ((n0 :: ns).zip (p0 :: ps)) n0 = some p0 := by
          have := dictGet_zip (n0 :: ns) (p0 :: ps) 0 n0 (by simpa using hl') (List.nodup_cons.2 hn) (by simp)
          simpa using this
        have hm : (ns.map fun n => if n = n0 then a else g n) = ns.map g := by
          apply List.map_congr_left
          intro n hn'
          have : n ≠ n0 := by rintro rfl; exact hn.1 hn'
          simp [this]
        rw [hd, hm, hg]
        simp only [if_true, Option.getD_some]
        grind
      · have hk' : key ∈ ns := by
          cases hk with
          | head => exact absurd rfl h0
          | tail _ m => exact m
        obtain ⟨k, hkk⟩ := List.mem_iff_getElem?.1 hk'
        have hd1 := dictGet_zip (n0 :: ns) (p0 :: ps) (k + 1) key (by simpa using hl') (List.nodup_cons.2 hn) (by simpa using hkk)
        have hd2 := dictGet_zip ns ps k key hl' hn.2 hkk
        rw [ih ps hl' hn.2 hk', hd1, hd2]
        simp only [h0, if_false, List.getElem?_cons_succ]
        grind

/-- **re-ordering to the order of the names, then multiplying position by position, is the
    label-wise linear combination**: the product of the row `names.map (coefficient under the
    column labelled like the name)` with the shape equals the sum, over the columns of the
    sheet, of the coefficient times the component of the sensor the column is labelled with. -/
theorem dot_reordered (names : List Name) (phi : List Rat) (cols : List String) (row : List Cell)
    (hl : phi.length = names.length) (hn : names.Nodup) (hc : cols.Nodup)
    (hsub : ∀ c ∈ cols, some c ∈ names) :
    dot (names.map (coefName cols row)) phi =
      ((cols.zip row).map fun p => numOr0 p.2 * phiAt names phi p.1).sum := by
  induction cols generalizing row with
  | nil =>
    have : coefName [] row = fun _ => (0 : Rat) := by
      funext n; cases n <;> simp [coefName, coefAt, numOr0]
    rw [this, dot_map_zero]; simp
  | cons c cs ih =>
    cases row with
    | nil =>
      have : coefName (c :: cs) [] = fun _ => (0 : Rat) := by
        funext n; cases n <;> simp [coefName, coefAt, numOr0]
      rw [this, dot_map_zero]; simp
    | cons x xs =>
      rw [List.nodup_cons] at hc
      have hf : coefName (c :: cs) (x :: xs) = fun n => if n = some c then numOr0 x else coefName cs xs n := by
        funext n
        cases n with
        | none => simp [coefName]
        | some s =>
          simp only [coefName, coefAt, List.zip_cons_cons, List.lookup_cons, Option.some.injEq]
          by_cases hs : s = c
          · subst hs; simp
          · have : (s == c) = false := by simpa using hs
            simp [this, hs]
      have hg : coefName cs xs (some c) = 0 := by
        simp only [coefName, coefAt]
        have : (cs.zip xs).lookup c = none := by
          rw [List.lookup_eq_none_iff]
          intro p hp
          have := (List.of_mem_zip hp).1
          simpa using fun e : c = p.1 => hc.1 (e ▸ this)
        rw [this]; rfl
      rw [hf, dot_update names phi (some c) (numOr0 x) (coefName cs xs) hl hn (hsub c List.mem_cons_self) hg,
        ih xs hc.2 (fun c' h' => hsub c' (List.mem_cons_of_mem _ h'))]
      simp [phiAt, List.sum_cons]

theorem arrowTip_get (b d : List Cell) (p sc : Rat) (j : Nat) (x y : Rat)
    (hb : b[j]? = some (.num x)) (hd : d[j]? = some (.num y)) :
    (arrowTip b d p sc)[j]? = some (some (x + (y * p) * sc)) := by
  simp [arrowTip, List.getElem?_zipWith, hb, hd, cellVal]

/-- with the columns labelled `x, y, z` in that order the selection keeps a 3-cell row -/
theorem selRow_xyz (a b c : Cell) : selRow ["x", "y", "z"] [a, b, c] = [a, b, c] := by
  simp [selRow, List.lookup]

end PV.Geo
