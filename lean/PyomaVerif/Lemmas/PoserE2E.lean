import PyomaVerif.Model.Realise
import PyomaVerif.Lemmas.Merge
import PyomaVerif.Lemmas.Realise
import Mathlib.Algebra.Order.Ring.Rat
import Mathlib.Algebra.Order.Field.Basic
import Mathlib.Algebra.Field.Rat
/-!
Helper lemmas for `Props/C02C01.lean` (C02 ∘ C01: PoSER merging of shapes that come out of SSI).

* the pair-complex numbers `Cpx K` of the realisation / merging models are a field (extending
  the core instances of `Model/Cpx.lean`, so that the theorems speak about the very operations
  the driver executes);
* `argmaxNormSq` (`np.argmax(abs(v))`) returns an index in range whose entry has the largest
  squared magnitude, and is unchanged by a non-zero complex factor;
* `normalise` (`phi / phi[argmax |phi|]`) is unchanged by a non-zero complex factor and *is* a
  multiplication by `1 / pivot`;
* the eigenvector of a realisation `(T⁻¹AT, a·C·T)` for a simple eigenvalue gives the output
  shape `a·c·(C w)`, `c ≠ 0`;
* the merging model for arbitrary non-zero complex factors (no realness hypothesis);
* mean / population variance of a constant list.
-/
set_option linter.unusedSectionVars false
set_option linter.unusedSimpArgs false
namespace PV

/-! ### `Cpx K` is a field -/
namespace Cpx
variable {K : Type} [Field K] [LinearOrder K] [IsStrictOrderedRing K]

theorem ext' {a b : Cpx K} (h1 : a.re = b.re) (h2 : a.im = b.im) : a = b := by
  cases a; cases b; simp_all

instance : One (Cpx K) := ⟨⟨1, 0⟩⟩

@[simp] theorem zero_re : (0 : Cpx K).re = 0 := rfl
@[simp] theorem zero_im : (0 : Cpx K).im = 0 := rfl
@[simp] theorem one_re : (1 : Cpx K).re = 1 := rfl
@[simp] theorem one_im : (1 : Cpx K).im = 0 := rfl
@[simp] theorem add_re (a b : Cpx K) : (a + b).re = a.re + b.re := rfl
@[simp] theorem add_im (a b : Cpx K) : (a + b).im = a.im + b.im := rfl
@[simp] theorem sub_re (a b : Cpx K) : (a - b).re = a.re - b.re := rfl
@[simp] theorem sub_im (a b : Cpx K) : (a - b).im = a.im - b.im := rfl
@[simp] theorem neg_re (a : Cpx K) : (-a).re = -a.re := rfl
@[simp] theorem neg_im (a : Cpx K) : (-a).im = -a.im := rfl
@[simp] theorem mul_re (a b : Cpx K) : (a * b).re = a.re * b.re - a.im * b.im := rfl
@[simp] theorem mul_im (a b : Cpx K) : (a * b).im = a.re * b.im + a.im * b.re := rfl
theorem div_re (a b : Cpx K) :
    (a / b).re = (a.re * b.re + a.im * b.im) / (b.re * b.re + b.im * b.im) := rfl
theorem div_im (a b : Cpx K) :
    (a / b).im = (a.im * b.re - a.re * b.im) / (b.re * b.re + b.im * b.im) := rfl

theorem normSq_pos {a : Cpx K} (ha : a ≠ 0) : 0 < a.re * a.re + a.im * a.im := by
  have hne : a.re ≠ 0 ∨ a.im ≠ 0 := by
    by_contra hc
    have hc' := not_or.mp hc
    exact ha (ext' (not_not.mp hc'.1) (not_not.mp hc'.2))
  rcases hne with h1 | h1
  · have := mul_self_pos.mpr h1; have := mul_self_nonneg a.im; linarith
  · have := mul_self_pos.mpr h1; have := mul_self_nonneg a.re; linarith

instance instCommRing : CommRing (Cpx K) where
  add := (· + ·)
  zero := 0
  mul := (· * ·)
  one := 1
  neg := Neg.neg
  sub := (· - ·)
  sub_eq_add_neg a b := by apply ext' <;> simp [sub_eq_add_neg]
  add_assoc a b c := by apply ext' <;> simp [add_assoc]
  zero_add a := by apply ext' <;> simp
  add_zero a := by apply ext' <;> simp
  add_comm a b := by apply ext' <;> simp [add_comm]
  neg_add_cancel a := by apply ext' <;> simp
  mul_assoc a b c := by apply ext' <;> simp <;> ring
  one_mul a := by apply ext' <;> simp
  mul_one a := by apply ext' <;> simp
  left_distrib a b c := by apply ext' <;> simp <;> ring
  right_distrib a b c := by apply ext' <;> simp <;> ring
  mul_comm a b := by apply ext' <;> simp <;> ring
  zero_mul a := by apply ext' <;> simp
  mul_zero a := by apply ext' <;> simp
  nsmul := nsmulRec
  zsmul := zsmulRec

instance : Inv (Cpx K) :=
  ⟨fun a => ⟨a.re / (a.re * a.re + a.im * a.im), -a.im / (a.re * a.re + a.im * a.im)⟩⟩

theorem inv_re (a : Cpx K) : (a⁻¹).re = a.re / (a.re * a.re + a.im * a.im) := rfl
theorem inv_im (a : Cpx K) : (a⁻¹).im = -a.im / (a.re * a.re + a.im * a.im) := rfl

instance instField : Field (Cpx K) where
  toCommRing := instCommRing
  inv := Inv.inv
  div := (· / ·)
  div_eq_mul_inv a b := by
    apply ext'
    · rw [div_re, mul_re, inv_re, inv_im]; ring
    · rw [div_im, mul_im, inv_re, inv_im]; ring
  exists_pair_ne := ⟨0, 1, fun h => by
    have := congrArg Cpx.re h
    simp at this⟩
  mul_inv_cancel a ha := by
    have hp := ne_of_gt (normSq_pos ha)
    apply ext'
    · rw [mul_re, inv_re, inv_im, one_re]
      rw [show a.re * (a.re / (a.re * a.re + a.im * a.im))
          - a.im * (-a.im / (a.re * a.re + a.im * a.im))
          = (a.re * a.re + a.im * a.im) / (a.re * a.re + a.im * a.im) from by ring]
      exact div_self hp
    · rw [mul_im, inv_re, inv_im, one_im]; ring
  inv_zero := by
    apply ext'
    · rw [inv_re]; simp
    · rw [inv_im]; simp
  nnqsmul := _
  nnqsmul_def := fun _ _ => rfl
  qsmul := _
  qsmul_def := fun _ _ => rfl

theorem normSq_mul (a b : Cpx K) : normSq (a * b) = normSq a * normSq b := by
  simp only [normSq, mul_re, mul_im]; ring

theorem normSq_nonneg (a : Cpx K) : 0 ≤ normSq a := by
  unfold normSq; have := mul_self_nonneg a.re; have := mul_self_nonneg a.im; linarith

theorem normSq_pos' {a : Cpx K} (ha : a ≠ 0) : 0 < normSq a := normSq_pos ha

theorem normSq_eq_zero {a : Cpx K} (h : normSq a = 0) : a = 0 := by
  by_contra hne
  exact (ne_of_gt (normSq_pos' hne)) h

theorem realPart_eq_self_iff (a : Cpx K) : realPart a = a ↔ a.im = 0 := by
  constructor
  · intro h; have := congrArg Cpx.im h; exact this.symm
  · intro h; apply ext'
    · rfl
    · exact h.symm

/-- a quotient of two numbers with zero imaginary part has zero imaginary part -/
theorem div_im_zero {a b : Cpx K} (ha : a.im = 0) (hb : b.im = 0) : (a / b).im = 0 := by
  rw [div_im, ha, hb]; simp

end Cpx

/-! ### `np.argmax(abs(v))` and the unity normalisation -/
section norm
open Cpx

theorem argmax_go_scale (c : Cpx Rat) (hc : c ≠ 0) (l : List (Cpx Rat)) (i best : Nat) (bv : Rat) :
    argmaxNormSq.go (l.map (c * ·)) i best (normSq c * bv) = argmaxNormSq.go l i best bv := by
  induction l generalizing i best bv with
  | nil => rfl
  | cons x xs ih =>
    simp only [List.map_cons, argmaxNormSq.go]
    have hk : 0 < normSq c := normSq_pos' hc
    have hiff : (normSq (c * x) > normSq c * bv) ↔ (normSq x > bv) := by
      rw [normSq_mul]; exact mul_lt_mul_iff_right₀ hk
    by_cases h : normSq x > bv
    · rw [if_pos h, if_pos (hiff.mpr h), normSq_mul, ih]
    · rw [if_neg h, if_neg (mt hiff.mp h), ih]

/-- the first index of largest magnitude does not move under a non-zero complex factor -/
theorem argmaxNormSq_scale (c : Cpx Rat) (hc : c ≠ 0) (v : List (Cpx Rat)) :
    argmaxNormSq (v.map (c * ·)) = argmaxNormSq v := by
  cases v with
  | nil => rfl
  | cons x xs =>
    simp only [List.map_cons, argmaxNormSq]
    rw [normSq_mul, argmax_go_scale c hc]

theorem argmax_go_spec (l pre : List (Cpx Rat)) (best : Nat) (bv : Rat)
    (hb : best < pre.length) (hbv : normSq (pre.getD best 0) = bv)
    (hmax : ∀ x ∈ pre, normSq x ≤ bv) :
    argmaxNormSq.go l pre.length best bv < (pre ++ l).length ∧
    ∀ x ∈ pre ++ l, normSq x ≤ normSq ((pre ++ l).getD (argmaxNormSq.go l pre.length best bv) 0) := by
  induction l generalizing pre best bv with
  | nil =>
    simp only [argmaxNormSq.go, List.append_nil]
    exact ⟨hb, fun x hx => by rw [hbv]; exact hmax x hx⟩
  | cons y ys ih =>
    simp only [argmaxNormSq.go]
    have hlen : (pre ++ [y]).length = pre.length + 1 := by simp
    have happ : pre ++ y :: ys = (pre ++ [y]) ++ ys := by simp
    by_cases h : normSq y > bv
    · rw [if_pos h, happ, ← hlen]
      apply ih (pre ++ [y]) pre.length (normSq y)
      · simp
      · simp [List.getD_eq_getElem?_getD]
      · intro x hx
        rcases List.mem_append.mp hx with hx | hx
        · exact le_trans (hmax x hx) (le_of_lt h)
        · simp at hx; rw [hx]
    · rw [if_neg h, happ, ← hlen]
      apply ih (pre ++ [y]) best bv
      · simp; omega
      · rw [← hbv]; simp [List.getD_eq_getElem?_getD, List.getElem?_append_left hb]
      · intro x hx
        rcases List.mem_append.mp hx with hx | hx
        · exact hmax x hx
        · simp at hx; rw [hx]; exact not_lt.mp h

/-- `np.argmax(abs(v))` of a non-empty vector is in range and its entry has the largest
    squared magnitude -/
theorem argmaxNormSq_spec (v : List (Cpx Rat)) (hv : v ≠ []) :
    argmaxNormSq v < v.length ∧ ∀ x ∈ v, normSq x ≤ normSq (v.getD (argmaxNormSq v) 0) := by
  cases v with
  | nil => exact absurd rfl hv
  | cons x xs =>
    have := argmax_go_spec xs [x] 0 (normSq x) (by simp) (by simp) (by simp)
    simpa [argmaxNormSq] using this

/-- the pivot of the unity normalisation: the (first) component of largest magnitude -/
def pivotOf (v : List (Cpx Rat)) : Cpx Rat := v.getD (argmaxNormSq v) 0

/-- the pivot vanishes only for the zero vector -/
theorem pivotOf_ne_zero (v : List (Cpx Rat)) (x : Cpx Rat) (hx : x ∈ v) (hx0 : x ≠ 0) :
    pivotOf v ≠ 0 := by
  intro h
  have hv : v ≠ [] := List.ne_nil_of_mem hx
  have h1 := (argmaxNormSq_spec v hv).2 x hx
  unfold pivotOf at h
  rw [h] at h1
  have h2 := normSq_pos' hx0
  have h3 : normSq (0 : Cpx Rat) = 0 := by simp [normSq]
  rw [h3] at h1
  exact absurd h2 (not_lt.mpr h1)

theorem getD_map_mul (c : Cpx Rat) (v : List (Cpx Rat)) (j : Nat) :
    (v.map (c * ·)).getD j 0 = c * v.getD j 0 := by
  simp only [List.getD_eq_getElem?_getD, List.getElem?_map]
  cases v[j]? with
  | none => simp
  | some x => simp

theorem pivotOf_scale (c : Cpx Rat) (hc : c ≠ 0) (v : List (Cpx Rat)) :
    pivotOf (v.map (c * ·)) = c * pivotOf v := by
  unfold pivotOf
  rw [argmaxNormSq_scale c hc, getD_map_mul]

/-- **normalise_scale.** The unity-normalised shape does not depend on a non-zero complex
    factor of the vector (recording amplitude, scaling of the eigenvector by `eig`, the
    similarity transformation of the realisation). -/
theorem normalise_scale (c : Cpx Rat) (hc : c ≠ 0) (v : List (Cpx Rat)) :
    normalise (v.map (c * ·)) = normalise v := by
  have h1 : normalise (v.map (c * ·)) = (v.map (c * ·)).map (· / pivotOf (v.map (c * ·))) := rfl
  have h2 : normalise v = v.map (· / pivotOf v) := rfl
  rw [h1, h2, pivotOf_scale c hc, List.map_map]
  apply List.map_congr_left
  intro x _
  simp only [Function.comp]
  exact mul_div_mul_left x (pivotOf v) hc

/-- **normalise_eq_scale.** The unity normalisation *is* the multiplication by the (complex)
    factor `1 / pivot`. -/
theorem normalise_eq_scale (v : List (Cpx Rat)) :
    normalise v = v.map (fun x => (1 / pivotOf v) * x) := by
  have h2 : normalise v = v.map (· / pivotOf v) := rfl
  rw [h2]
  apply List.map_congr_left
  intro x _
  show x / pivotOf v = 1 / pivotOf v * x
  rw [div_mul_eq_mul_div, one_mul]

end norm

/-! ### the output shape of a realisation for a simple eigenvalue -/
section eig
open Matrix
variable {K : Type} [Field K]

/-- **shape of a similar realisation.** If the realised pair is `(T⁻¹·A·T, (a·C)·T)` (C01's
    conclusion for a record of amplitude `a`), `v` is an eigenvector of the realised state
    matrix for `lam`, and `lam` is a *simple* eigenvalue of `A` (eigenspace spanned by `w`;
    distinct frequencies), then the output shape `Ĉ·v` is `(a·c)·(C·w)` with `c ≠ 0`. -/
theorem shape_of_similar {n l : ℕ} (A T Tinv Ah : Matrix (Fin n) (Fin n) K)
    (Crow Ch : Matrix (Fin l) (Fin n) K) (amp : K)
    (hT : T * Tinv = 1) (hA : Ah = Tinv * A * T) (hC : Ch = (amp • Crow) * T)
    (v w : Fin n → K) (lam : K) (hv : Ah.mulVec v = lam • v) (hvne : v ≠ 0)
    (hsimple : ∀ u, A.mulVec u = lam • u → ∃ c : K, u = c • w) :
    ∃ c : K, c ≠ 0 ∧ Ch.mulVec v = (amp * c) • Crow.mulVec w := by
  obtain ⟨h1, h2⟩ := eig_transfer A T Tinv Ah (amp • Crow) Ch hT hA hC v lam hv
  obtain ⟨c, hc⟩ := hsimple _ h1
  refine ⟨c, ?_, ?_⟩
  · intro h0
    rw [h0, zero_smul] at hc
    have hT' : Tinv * T = 1 := mul_eq_one_comm.mp hT
    have hvv : v = (Tinv * T).mulVec v := by rw [hT', Matrix.one_mulVec]
    rw [← Matrix.mulVec_mulVec, hc, Matrix.mulVec_zero] at hvv
    exact hvne hvv
  · rw [h2, hc, Matrix.mulVec_smul, Matrix.smul_mulVec, smul_smul, mul_comm c amp]

end eig

/-! ### the model's `shapesOf`, column by column -/
section shapes
open Cpx Matrix Finset

theorem shapesOf_getD (C V : Mat (Cpx Rat)) (k : Nat) (hk : k < V.c) :
    (shapesOf C V).getD k [] =
      normalise ((List.range C.r).map fun i => sumTo C.c (fun t => C.e i t * V.e t k)) := by
  unfold shapesOf
  simp [List.getD_eq_getElem?_getD, List.getElem?_map, List.getElem?_range hk]

theorem range_map_getD {α β} (d : α) (rows : List α) (f : α → β) :
    (List.range rows.length).map (fun i => f (rows.getD i d)) = rows.map f := by
  apply List.ext_getElem
  · simp
  · intro i h1 h2
    simp only [List.getElem_map, List.getElem_range]
    have hi : i < rows.length := by simpa using h2
    simp [List.getD_eq_getElem?_getD, List.getElem?_eq_getElem hi]

/-- the rows `rows` of the global output matrix `Cg`: the output matrix of a setup -/
def rowsMx {K : Type} {n : ℕ} (Cg : ℕ → Fin n → K) (rows : List Nat) :
    Matrix (Fin rows.length) (Fin n) K := fun a t => Cg (rows.getD a.1 0) t

/-- **The shape a setup extracts is the unity-normalised restriction of the global shape.**
    Model level: `Chat`, `V` are the output matrix of the realisation and the eigenvector matrix
    returned by `eig`, as handed to `shapesOf` (`ac2mp`); `(A, Cg)` is the global system, the
    setup measures the global rows `rows` with recording amplitude `amp ≠ 0`. -/
theorem setup_shape {n : ℕ} (A T Tinv : Matrix (Fin n) (Fin n) (Cpx Rat))
    (Cg : ℕ → Fin n → Cpx Rat) (rows : List Nat) (amp : Cpx Rat) (hamp : amp ≠ 0)
    (Ahat Chat V : Mat (Cpx Rat)) (hCr : Chat.r = rows.length) (hCc : Chat.c = n)
    (hT : T * Tinv = 1) (hA : toMx n n Ahat.e = Tinv * A * T)
    (hC : toMx rows.length n Chat.e
        = (amp • rowsMx Cg rows) * T)
    (k : Nat) (hk : k < V.c) (lam : Cpx Rat) (w : Fin n → Cpx Rat)
    (hv : (toMx n n Ahat.e).mulVec (fun t : Fin n => V.e t.1 k) = lam • (fun t : Fin n => V.e t.1 k))
    (hvne : (fun t : Fin n => V.e t.1 k) ≠ 0)
    (hsimple : ∀ u, A.mulVec u = lam • u → ∃ c : Cpx Rat, u = c • w) :
    (shapesOf Chat V).getD k [] = normalise (rows.map fun r => ∑ t, Cg r t * w t) := by
  obtain ⟨c, hc0, hc⟩ := shape_of_similar A T Tinv (toMx n n Ahat.e)
    (rowsMx Cg rows) (toMx rows.length n Chat.e) amp
    hT hA hC _ w lam hv hvne hsimple
  rw [shapesOf_getD Chat V k hk, hCr, hCc]
  have hlist : ((List.range rows.length).map fun i => sumTo n (fun t => Chat.e i t * V.e t k))
      = (rows.map fun r => ∑ t, Cg r t * w t).map ((amp * c) * ·) := by
    rw [List.map_map, ← range_map_getD 0 rows]
    apply List.map_congr_left
    intro i hi
    have hi' : i < rows.length := List.mem_range.mp hi
    have := congrFun hc ⟨i, hi'⟩
    simp only [Matrix.mulVec, dotProduct, toMx, rowsMx, Pi.smul_apply, smul_eq_mul] at this
    rw [sumTo_eq, Finset.sum_range]
    simpa [Function.comp] using this
  rw [hlist, normalise_scale _ (mul_ne_zero hamp hc0)]

end shapes

/-! ### the scale factor between two re-scaled copies, without realness; constant statistics -/
namespace Merge
variable {C : Type} [Field C]

theorem msf_scaled_general (re : C → C) (g : List C) (si s0 : C)
    (hsi : si ≠ 0) (hg : dot g g ≠ 0) :
    msf re (g.map (si * ·)) (g.map (s0 * ·)) = re (s0 / si) := by
  unfold msf
  rw [dot_scale, dot_scale]
  have : s0 * si * dot g g / (si * si * dot g g) = s0 / si := by
    field_simp
  rw [this]

theorem mean_const (xs : List C) (f : C) (h : ∀ x ∈ xs, x = f) (hS : (xs.length : C) ≠ 0) :
    mean xs = f := by
  unfold mean
  rw [foldl_add_eq_sum, zero_add, List.eq_replicate_iff.mpr ⟨rfl, h⟩, List.sum_replicate,
    List.length_replicate, nsmul_eq_mul]
  field_simp

theorem pvar_const (xs : List C) (f : C) (h : ∀ x ∈ xs, x = f) (hS : (xs.length : C) ≠ 0) :
    pvar xs = 0 := by
  unfold pvar
  apply mean_const
  · intro y hy
    obtain ⟨x, hx, rfl⟩ := List.mem_map.mp hy
    rw [mean_const xs f h hS, h x hx]; ring
  · simpa using hS

end Merge
end PV
