import PyomaVerif.Lemmas.Mpe
/-!
Lemmas on the `find_min` branch of `plscf.pLSCF_mpe` (`plscfMpeWith chk lab … .findMin`, `Model/Mpe.lean`):
the `while` loop (`plscfWhile`), the parameter loop (`plscfPick`), the open-band table `aggOpen`.
-/
namespace PV

/-- the test the `while` loop of `pLSCF_mpe` applies to column `i`:
    `fn_at_ord_ii.shape[0] == len(sel_freq)` and then `np.isclose(fn_at_ord_ii, sel_freq, rtol).any()`. -/
def plscfColTest (aa : Mat NR) (freq : List Rat) (rtol : Rat) (i : Nat) : Bool :=
  if (uniqueNonNan (fun r => aa.e r i) aa.r).length = freq.length
  then anycloseL (uniqueNonNan (fun r => aa.e r i) aa.r) freq rtol else false

/-- `c.any()` for `c = b[~np.isnan(b)]`, `b = aa[:, col]`. -/
def colAny (aa : Mat NR) (col : Nat) : Bool := (nonNan (fun r => aa.e r col) aa.r).any (fun v => v != 0)

theorem plscfWhile_step (aa : Mat NR) (freq : List Rat) (rtol : Rat) (fuel ii : Nat) :
    plscfWhile aa freq rtol (fuel + 1) ii =
      if ii + 1 = aa.c then (ii, uniqueNonNan (fun r => aa.e r ii) aa.r)
      else if plscfColTest aa freq rtol ii then (ii + 1, uniqueNonNan (fun r => aa.e r ii) aa.r)
      else plscfWhile aa freq rtol fuel (ii + 1) := rfl

/-- the loop stops one past the first column **below the last one** that passes the test. -/
theorem plscfWhile_found (aa : Mat NR) (freq : List Rat) (rtol : Rat) (i : Nat)
    (hi : i + 1 < aa.c) (ht : plscfColTest aa freq rtol i = true) :
    ∀ (fuel ii : Nat), ii + fuel = aa.c → ii ≤ i →
      (∀ i', ii ≤ i' → i' < i → plscfColTest aa freq rtol i' = false) →
      plscfWhile aa freq rtol fuel ii = (i + 1, uniqueNonNan (fun r => aa.e r i) aa.r) := by
  intro fuel
  induction fuel with
  | zero => intro ii h1 h2 _; omega
  | succ fuel ih =>
    intro ii hsum hle hlow
    rw [plscfWhile_step]
    have h1 : ¬ ii + 1 = aa.c := by omega
    rw [if_neg h1]
    rcases Nat.eq_or_lt_of_le hle with heq | hlt
    · subst heq; rw [if_pos ht]
    · rw [hlow ii (le_refl _) hlt]
      simp only [Bool.false_eq_true, if_false]
      exact ih (ii + 1) (by omega) (by omega) (fun i' a b => hlow i' (by omega) b)

/-- no column below the last one passes: the loop breaks at the last column (whose own test is never consulted)
    and leaves that column's distinct values in `fn_at_ord_ii`. -/
theorem plscfWhile_notfound (aa : Mat NR) (freq : List Rat) (rtol : Rat)
    (hno : ∀ i, i + 1 < aa.c → plscfColTest aa freq rtol i = false) :
    ∀ (fuel ii : Nat), 0 < fuel → ii + fuel = aa.c →
      plscfWhile aa freq rtol fuel ii = (aa.c - 1, uniqueNonNan (fun r => aa.e r (aa.c - 1)) aa.r) := by
  intro fuel
  induction fuel with
  | zero => intro ii h; omega
  | succ fuel ih =>
    intro ii _ hsum
    rw [plscfWhile_step]
    by_cases hlast : ii + 1 = aa.c
    · rw [if_pos hlast]
      have : aa.c - 1 = ii := by omega
      rw [this]
    · rw [if_neg hlast, hno ii (by omega)]
      simp only [Bool.false_eq_true, if_false]
      exact ih (ii + 1) (by omega) (by omega)

/-- the parameter loop cannot fail on a column holding a value; it appends the damping and the shape of the
    rows `np.nanargmin(np.abs(b - fj))` (`pickRows`). -/
theorem plscfPick_ok (aa Xi : Mat NR) (Phi : Ten3 (Option CQ)) (col : Nat)
    (hv : ∃ r, r < aa.r ∧ aa.e r col ≠ none) :
    ∀ (us : List Rat) (acc : MpeAcc), plscfPick aa Xi Phi col us acc =
      .ok { acc with xi := acc.xi ++ (pickRows aa col us).map (fun r => Xi.e r col)
                     phi := acc.phi ++ (pickRows aa col us).map (fun r => ten3Row Phi r col) } := by
  intro us
  induction us with
  | nil => intro acc; simp [plscfPick, pickRows, pure, Except.pure]
  | cons f rest ih =>
    intro acc
    unfold plscfPick
    cases hidx : nanargminAbs (fun r => aa.e r col) aa.r (some f) with
    | none =>
      obtain ⟨r, hr, hne⟩ := hv
      exact absurd ((nanargminAbs_none _ _ _).mp hidx r hr) hne
    | some r =>
      simp only
      rw [ih]
      simp [pickRows, hidx]

/-! ### the open-band table `aa` -/

/-- requests ascending with pairwise disjoint **open** bands of half-width `w` (touching bands allowed) -/
def OpenBandsDisjoint (freq : List Rat) (w : Rat) : Prop := freq.Pairwise (fun f g => f + w ≤ g - w)

/-- a value lies in the open band of some request -/
def InSomeOpenBand (freq : List Rat) (w : Rat) (v : Rat) : Prop := ∃ f ∈ freq, f - w < v ∧ v < f + w

theorem BandsDisjoint.toOpen {freq : List Rat} {w : Rat} (h : BandsDisjoint freq w) : OpenBandsDisjoint freq w :=
  List.Pairwise.imp (fun h => le_of_lt h) h

open Classical in
theorem bandSum_open (w v : Rat) : ∀ (freq : List Rat), OpenBandsDisjoint freq w →
    freq.foldl (fun acc f =>
      acc + (if nanLt (some v) (f + w) && nanGt (some v) (f - w) then (some v).getD 0 else 0)) 0
      = if InSomeOpenBand freq w v then v else 0 := by
  intro freq
  induction freq with
  | nil => intro _; simp [InSomeOpenBand]
  | cons f rest ih =>
    intro hd
    obtain ⟨hf, hrest⟩ := List.pairwise_cons.mp hd
    simp only [List.foldl_cons]
    rw [foldl_add_start, ih hrest]
    by_cases hin : f - w < v ∧ v < f + w
    · have hno : ¬ InSomeOpenBand rest w v := by
        rintro ⟨g, hg, h1, h2⟩
        have := hf g hg
        linarith [hin.2]
      have hyes : InSomeOpenBand (f :: rest) w v := ⟨f, List.mem_cons_self, hin⟩
      simp [hno, hyes, nanGt, nanLt, hin.1, hin.2]
    · have hiff : InSomeOpenBand (f :: rest) w v ↔ InSomeOpenBand rest w v := by
        constructor
        · rintro ⟨g, hg, h1, h2⟩
          rcases List.mem_cons.mp hg with rfl | hg
          · exact absurd ⟨h1, h2⟩ hin
          · exact ⟨g, hg, h1, h2⟩
        · rintro ⟨g, hg, h1, h2⟩
          exact ⟨g, List.mem_cons_of_mem _ hg, h1, h2⟩
      have hcond : (nanLt (some v) (f + w) && nanGt (some v) (f - w)) = false := by
        simp only [nanGt, nanLt, Bool.and_eq_false_iff, decide_eq_false_iff_not]
        by_contra hcon
        push Not at hcon
        exact hin ⟨hcon.2, hcon.1⟩
      simp only [hcond, Bool.false_eq_true, if_false, zero_add, hiff]

/-- value of one cell of `aa` as a function of the (masked) pole `x` -/
def aggValOpen (freq : List Rat) (w : Rat) (x : NR) : NR :=
  let s := freq.foldl (fun acc f =>
    acc + (if nanLt x (f + w) && nanGt x (f - w) then x.getD 0 else 0)) 0
  if s = 0 then none else some s

theorem aggValOpen_some (freq : List Rat) (w : Rat) (hd : OpenBandsDisjoint freq w) (x : NR) (v : Rat) :
    aggValOpen freq w x = some v ↔ x = some v ∧ v ≠ 0 ∧ InSomeOpenBand freq w v := by
  classical
  unfold aggValOpen
  cases x with
  | none => simp only []; rw [bandSumOpen_nan]; simp
  | some u =>
    simp only []
    rw [bandSum_open w u freq hd]
    by_cases hin : InSomeOpenBand freq w u
    · simp only [hin, if_true]
      by_cases hu : u = 0
      · simp only [hu, if_true, reduceCtorEq, false_iff]
        rintro ⟨h1, h2, _⟩
        exact h2 (Option.some.inj h1).symm
      · simp only [hu, if_false, Option.some.injEq]
        constructor
        · intro h; subst h; exact ⟨rfl, hu, hin⟩
        · intro h; exact h.1
    · simp only [hin, if_false, if_true, reduceCtorEq, false_iff]
      rintro ⟨h1, _, h3⟩
      cases h1; exact hin h3

/-- **what `aa` holds** (disjoint open bands): the pole itself where it is labelled `lab`, non-zero and strictly
    inside some band `(f − w, f + w)`; NaN elsewhere. -/
theorem aggOpen_some (Fn : Mat NR) (Lab : Mat Int) (lab : Int) (freq : List Rat) (w : Rat)
    (hd : OpenBandsDisjoint freq w) (r o : Nat) (v : Rat) :
    (aggOpen Fn Lab lab freq w).e r o = some v ↔
      Lab.e r o = lab ∧ Fn.e r o = some v ∧ v ≠ 0 ∧ InSomeOpenBand freq w v := by
  have : (aggOpen Fn Lab lab freq w).e r o
      = aggValOpen freq w (if Lab.e r o = lab then Fn.e r o else none) := rfl
  rw [this, aggValOpen_some freq w hd]
  by_cases hl : Lab.e r o = lab
  · simp [hl]
  · simp [hl]

/-- `0 → NaN`: no cell of `aa` is `0.0`, with or without disjoint bands. -/
theorem aggOpen_ne_zero (Fn : Mat NR) (Lab : Mat Int) (lab : Int) (freq : List Rat) (w : Rat) (r o : Nat) :
    (aggOpen Fn Lab lab freq w).e r o ≠ some 0 := by
  simp only [aggOpen]
  split
  · simp
  · rename_i h; intro h'; exact h (Option.some.inj h')

/-- on `aa`, `c.any()` says: the column holds a value. -/
theorem colAny_aggOpen (Fn : Mat NR) (Lab : Mat Int) (lab : Int) (freq : List Rat) (w : Rat) (col : Nat) :
    colAny (aggOpen Fn Lab lab freq w) col = true ↔
      ∃ r, r < Fn.r ∧ (aggOpen Fn Lab lab freq w).e r col ≠ none := by
  unfold colAny
  rw [List.any_eq_true]
  constructor
  · rintro ⟨v, hv, _⟩
    obtain ⟨r, hr, hval⟩ := (mem_nonNan _ _ _).mp hv
    exact ⟨r, hr, by rw [hval]; simp⟩
  · rintro ⟨r, hr, hne⟩
    cases hval : (aggOpen Fn Lab lab freq w).e r col with
    | none => exact absurd hval hne
    | some v =>
      refine ⟨v, (mem_nonNan _ _ _).mpr ⟨r, hr, hval⟩, ?_⟩
      have : v ≠ 0 := fun h => aggOpen_ne_zero Fn Lab lab freq w r col (by rw [hval, h])
      simpa using this

theorem anycloseL_iff (rtol : Rat) : ∀ (u freq : List Rat), u.length = freq.length →
    (anycloseL u freq rtol = true ↔ ∃ k, ∃ (h1 : k < u.length) (h2 : k < freq.length),
      isclose (some u[k]) (some freq[k]) rtol = true) := by
  intro u
  induction u with
  | nil => intro freq h; simp [anycloseL]
  | cons a t ih =>
    intro freq h
    cases freq with
    | nil => simp at h
    | cons b s =>
      simp only [List.length_cons, Nat.add_right_cancel_iff] at h
      have ih' := ih s h
      simp only [anycloseL, List.zipWith_cons_cons, List.any_cons, Bool.or_eq_true, id] at ih' ⊢
      rw [ih']
      constructor
      · rintro (h0 | ⟨k, h1, h2, hk⟩)
        · exact ⟨0, Nat.zero_lt_succ _, Nat.zero_lt_succ _, h0⟩
        · exact ⟨k + 1, Nat.succ_lt_succ h1, Nat.succ_lt_succ h2, hk⟩
      · rintro ⟨k, h1, h2, hk⟩
        cases k with
        | zero => exact Or.inl hk
        | succ k => exact Or.inr ⟨k, Nat.lt_of_succ_lt_succ h1, Nat.lt_of_succ_lt_succ h2, hk⟩

/-- the `find_min` branch, once the outcome of the `while` loop is known. -/
theorem plscfMpeWith_findMin_eq (chk : Rat → NR → Bool) (lab : Int) (freq : List Rat) (Fn Xi : Mat NR)
    (Phi : Ten3 (Option CQ)) (L : Mat Int) (deltaf rtol : Rat) (hne : freq ≠ []) (hc : 0 < Fn.c)
    (iiExit : Nat) (u : List Rat)
    (hw : plscfWhile (aggOpen Fn L lab freq deltaf) freq rtol Fn.c 0 = (iiExit, u)) :
    plscfMpeWith chk lab freq Fn Xi Phi .findMin (some L) deltaf rtol =
      if colAny (aggOpen Fn L lab freq deltaf) (if iiExit = 0 then Fn.c - 1 else iiExit - 1) then
        match plscfPick (aggOpen Fn L lab freq deltaf) Xi Phi (if iiExit = 0 then Fn.c - 1 else iiExit - 1) u
            { fn := u.map some } with
        | .error e => .error e
        | .ok acc => .ok ⟨acc, .int ((iiExit : Int) - 1)⟩
      else .ok ⟨{ fn := u.map some }, .int ((iiExit : Int) - 1)⟩ := by
  have hemp : freq.isEmpty = false := by
    cases freq with
    | nil => exact absurd rfl hne
    | cons a t => rfl
  have hcc : (aggOpen Fn L lab freq deltaf).c = Fn.c := rfl
  unfold plscfMpeWith
  simp only [hemp, Bool.false_eq_true, if_false, hcc, Nat.ne_of_gt hc, hw]
  rfl

end PV
