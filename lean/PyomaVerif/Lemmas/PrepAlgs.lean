import PyomaVerif.Model.PrepAlgs
import PyomaVerif.Lemmas.Prep
/-!
# Helper lemmas for the named `add_algorithms` machine (C14)
-/
namespace PV.Prep

/-! ## insertion-ordered dictionaries -/

theorem dictGet_cons {V : Type} (p : Nat × V) (d : List (Nat × V)) (k : Nat) :
    dictGet (p :: d) k = if p.1 = k then some p.2 else dictGet d k := by
  unfold dictGet
  rw [List.find?_cons]
  by_cases h : p.1 = k
  · simp [h]
  · have : (p.1 == k) = false := by simpa using h
    simp [h, this]

theorem dictGet_nil {V : Type} (k : Nat) : dictGet ([] : List (Nat × V)) k = none := rfl

theorem dictGet_append {V : Type} (a b : List (Nat × V)) (k : Nat) :
    dictGet (a ++ b) k = (dictGet a k).or (dictGet b k) := by
  induction a with
  | nil => simp [dictGet_nil]
  | cons p a ih =>
    rw [List.cons_append, dictGet_cons, dictGet_cons, ih]
    by_cases h : p.1 = k <;> simp [h]

theorem dictGet_none_of_not_any {V : Type} (d : List (Nat × V)) (k : Nat)
    (h : d.any (fun p => p.1 == k) = false) : dictGet d k = none := by
  induction d with
  | nil => rfl
  | cons p d ih =>
    rw [List.any_cons, Bool.or_eq_false_iff] at h
    rw [dictGet_cons, ih h.2, if_neg (by simpa using h.1)]

theorem dictGet_map_set {V : Type} (d : List (Nat × V)) (k k' : Nat) (v : V) :
    dictGet (d.map (fun p => if p.1 == k then (k, v) else p)) k' =
      if k' = k then (if d.any (fun p => p.1 == k) then some v else none) else dictGet d k' := by
  induction d with
  | nil => simp [dictGet]
  | cons p d ih =>
    rw [List.map_cons, dictGet_cons, ih, dictGet_cons, List.any_cons]
    by_cases hp : p.1 = k
    · have hb : (p.1 == k) = true := by simpa using hp
      by_cases hk : k' = k
      · subst hk; simp [hb]
      · have hk2 : ¬ k = k' := fun h => hk h.symm
        have hk3 : ¬ p.1 = k' := fun h => hk (h.symm.trans hp)
        simp [hb, hk, hk2, hk3]
    · have hb : (p.1 == k) = false := by simpa using hp
      by_cases hk : k' = k
      · subst hk; rw [hb, Bool.false_or]; simp [hp]
      · simp [hb, hk]

theorem dictGet_dictSet {V : Type} (d : List (Nat × V)) (k k' : Nat) (v : V) :
    dictGet (dictSet d k v) k' = if k' = k then some v else dictGet d k' := by
  unfold dictSet
  by_cases ha : d.any (fun p => p.1 == k) = true
  · rw [if_pos ha, dictGet_map_set, if_pos ha]
  · have ha' : d.any (fun p => p.1 == k) = false := Bool.eq_false_iff.mpr ha
    have hn := dictGet_none_of_not_any d k ha'
    rw [if_neg ha, dictGet_append, dictGet_cons, dictGet_nil]
    by_cases hk : k' = k
    · subst hk; simp [hn]
    · have : ¬ k = k' := fun h => hk h.symm
      simp [hk, this]

theorem dictGet_foldl_set {V A : Type} (key : A → Nat) (b : V) (l : List A) (d : List (Nat × V)) (k : Nat) :
    dictGet (l.foldl (fun h a => dictSet h (key a) b) d) k =
      if k ∈ l.map key then some b else dictGet d k := by
  induction l generalizing d with
  | nil => simp
  | cons a l ih =>
    rw [List.foldl_cons, ih, dictGet_dictSet]
    by_cases h1 : k ∈ l.map key
    · simp [h1]
    · by_cases h2 : k = key a
      · simp [h2]
      · simp [h1, h2]

/-- the last object of a call that carries the name `k`. -/
def lastNamed (algs : List Alg) (k : Nat) : Option Nat :=
  (algs.reverse.find? (fun a => a.name == k)).map (fun a => a.oid)

theorem dictGet_foldl_named (algs : List Alg) (d : List (Nat × Nat)) (k : Nat) :
    dictGet (algs.foldl (fun d a => dictSet d a.name a.oid) d) k = (lastNamed algs k).or (dictGet d k) := by
  induction algs generalizing d with
  | nil => simp [lastNamed]
  | cons a algs ih =>
    rw [List.foldl_cons, ih, dictGet_dictSet]
    simp only [lastNamed, List.reverse_cons, List.find?_append]
    cases h : algs.reverse.find? (fun a => a.name == k) with
    | some x => simp
    | none =>
      by_cases hk : k = a.name
      · simp [hk]
      · have : ¬ a.name = k := fun h => hk h.symm
        simp [hk, this]

theorem dictGet_merge_last {V : Type} (old new : List (Nat × V)) (k : Nat) :
    dictGet (dictMerge old new) k = (dictGet new.reverse k).or (dictGet old k) := by
  unfold dictMerge
  induction new generalizing old with
  | nil => simp [dictGet]
  | cons p new ih =>
    rw [List.foldl_cons, ih, dictGet_dictSet]
    simp only [dictGet, List.reverse_cons, List.find?_append]
    cases h : new.reverse.find? (fun p => p.1 == k) with
    | some x => simp
    | none =>
      by_cases hk : k = p.1
      · simp [hk]
      · have : ¬ p.1 = k := fun h => hk h.symm
        simp [hk, this]

theorem keys_dictSet {V : Type} (d : List (Nat × V)) (k : Nat) (v : V) :
    (dictSet d k v).map (fun p => p.1) =
      if k ∈ d.map (fun p => p.1) then d.map (fun p => p.1) else d.map (fun p => p.1) ++ [k] := by
  unfold dictSet
  by_cases ha : d.any (fun p => p.1 == k) = true
  · have hm : k ∈ d.map (fun p => p.1) := by
      simp only [List.any_eq_true, beq_iff_eq] at ha
      obtain ⟨p, hp, hk⟩ := ha
      exact List.mem_map.mpr ⟨p, hp, hk⟩
    rw [if_pos ha, if_pos hm, List.map_map]
    apply List.map_congr_left
    intro p _
    by_cases hp : p.1 = k <;> simp [hp]
  · have hm : k ∉ d.map (fun p => p.1) := by
      intro hm
      obtain ⟨p, hp, hk⟩ := List.mem_map.mp hm
      exact ha (List.any_eq_true.mpr ⟨p, hp, by simpa using hk⟩)
    rw [if_neg ha, if_neg hm]; simp

theorem nodup_keys_foldl_named (algs : List Alg) (d : List (Nat × Nat)) (h : (d.map (fun p => p.1)).Nodup) :
    ((algs.foldl (fun d a => dictSet d a.name a.oid) d).map (fun p => p.1)).Nodup := by
  induction algs generalizing d with
  | nil => exact h
  | cons a algs ih =>
    rw [List.foldl_cons]
    apply ih
    rw [keys_dictSet]
    by_cases hm : a.name ∈ d.map (fun p => p.1)
    · rw [if_pos hm]; exact h
    · rw [if_neg hm]; exact List.nodup_append.mpr ⟨h, List.nodup_cons.mpr ⟨List.not_mem_nil, List.nodup_nil⟩, by
        intro x hx y hy; rw [List.mem_singleton] at hy; subst hy; intro hxy; subst hxy; exact hm hx⟩

theorem dictGet_reverse_of_nodup {V : Type} (d : List (Nat × V)) (k : Nat) (h : (d.map (fun p => p.1)).Nodup) :
    dictGet d.reverse k = dictGet d k := by
  induction d with
  | nil => rfl
  | cons p d ih =>
    rw [List.map_cons, List.nodup_cons] at h
    rw [List.reverse_cons, dictGet_append, ih h.2, dictGet_cons, dictGet_cons, dictGet_nil]
    by_cases hp : p.1 = k
    · have hn : dictGet d k = none := by
        apply dictGet_none_of_not_any
        rw [List.any_eq_false]
        intro x hx hxk
        exact h.1 (List.mem_map.mpr ⟨x, hx, by rw [hp]; simpa using hxk⟩)
      simp [hp, hn]
    · simp [hp]

/-- `self.algorithms` after `add_algorithms(*algs)`: a name carried by one of the objects maps to the LAST such
    object of the call, every other name to what it mapped to before. -/
theorem addAlgorithms_dict {B : Type} (b : B) (dict : List (Nat × Nat)) (held : List (Nat × B)) (algs : List Alg)
    (k : Nat) :
    dictGet (addAlgorithms b dict held algs).1 k = (lastNamed algs k).or (dictGet dict k) := by
  simp only [addAlgorithms]
  rw [dictGet_merge_last, dictGet_reverse_of_nodup _ _ (nodup_keys_foldl_named algs [] (by simp)),
    dictGet_foldl_named]
  simp [dictGet]

/-- what the objects hold after `add_algorithms(*algs)`: exactly the objects passed are re-bound. -/
theorem addAlgorithms_held {B : Type} (b : B) (dict : List (Nat × Nat)) (held : List (Nat × B)) (algs : List Alg)
    (o : Nat) :
    dictGet (addAlgorithms b dict held algs).2 o =
      if o ∈ algs.map (fun a => a.oid) then some b else dictGet held o := by
  simp only [addAlgorithms]
  exact dictGet_foldl_set (fun a : Alg => a.oid) b algs held o

/-! ## the generic machine -/

section generic
variable {S B : Type} (step : S → Op → Except Err S) (bnd : S → B)

theorem runN_snoc (s0 : S) (ops : List NOp) (nop : NOp) :
    runN step bnd s0 (ops ++ [nop]) = stepN' step bnd (runN step bnd s0 ops) nop := by
  simp [runN, List.foldl_append]

/-- the `base` component is the underlying machine run on the projected history. -/
theorem stepN'_base (s : NState S B) (nop : NOp) :
    (stepN' step bnd s nop).base = (match step s.base nop.toOp with | .ok s' => s' | .error _ => s.base) := by
  unfold stepN' stepN
  cases hs : step s.base nop.toOp with
  | error e => simp [Bind.bind, Except.bind]
  | ok b =>
    cases nop with
    | addN algs => simp [Bind.bind, Except.bind, pure, Except.pure]
    | prep op => cases op <;> simp [Bind.bind, Except.bind, pure, Except.pure]

/-- a call that does not pass the object `o` leaves what `o` holds untouched. -/
theorem stepN'_held_other (s : NState S B) (nop : NOp) (o : Nat)
    (h : ∀ algs, nop = .addN algs → o ∉ algs.map (fun a => a.oid)) :
    dictGet (stepN' step bnd s nop).held o = dictGet s.held o := by
  unfold stepN' stepN
  cases hs : step s.base nop.toOp with
  | error e => simp [Bind.bind, Except.bind]
  | ok b =>
    cases nop with
    | addN algs =>
      simp only [Bind.bind, Except.bind, pure, Except.pure]
      rw [addAlgorithms_held, if_neg (h algs rfl)]
    | prep op => cases op <;> simp [Bind.bind, Except.bind, pure, Except.pure]

/-- `add_algorithms(*algs)` (which cannot fail) binds every object passed to the current payload. -/
theorem stepN'_held_added (hadd : ∀ s, ∃ s', step s .add = .ok s') (s : NState S B) (algs : List Alg) (o : Nat)
    (h : o ∈ algs.map (fun a => a.oid)) :
    dictGet (stepN' step bnd s (.addN algs)).held o = some (bnd s.base) := by
  obtain ⟨s', hs'⟩ := hadd s.base
  simp only [stepN', stepN, NOp.toOp, hs', Bind.bind, Except.bind, pure, Except.pure]
  rw [addAlgorithms_held, if_pos h]

theorem foldl_held_other (ops : List NOp) (s : NState S B) (o : Nat)
    (h : ∀ nop ∈ ops, ∀ algs, nop = .addN algs → o ∉ algs.map (fun a => a.oid)) :
    dictGet (ops.foldl (stepN' step bnd) s).held o = dictGet s.held o := by
  induction ops generalizing s with
  | nil => rfl
  | cons nop ops ih =>
    rw [List.foldl_cons, ih _ (fun n hn => h n (List.mem_cons_of_mem _ hn)),
      stepN'_held_other step bnd s nop o (h nop (List.mem_cons_self ..))]

/-- **each object holds the payload of the moment it was last passed to `add_algorithms`.** -/
theorem runN_held (hadd : ∀ s, ∃ s', step s .add = .ok s') (s0 : S) (pre post : List NOp) (algs : List Alg) (o : Nat)
    (h : o ∈ algs.map (fun a => a.oid))
    (hpost : ∀ nop ∈ post, ∀ algs', nop = .addN algs' → o ∉ algs'.map (fun a => a.oid)) :
    dictGet (runN step bnd s0 (pre ++ [.addN algs] ++ post)).held o = some (bnd (runN step bnd s0 pre).base) := by
  have : runN step bnd s0 (pre ++ [.addN algs] ++ post) =
      post.foldl (stepN' step bnd) (stepN' step bnd (runN step bnd s0 pre) (.addN algs)) := by
    simp [runN, List.foldl_append]
  rw [this, foldl_held_other step bnd post _ o hpost, stepN'_held_added step bnd hadd _ algs o h]

/-- an object never passed holds nothing. -/
theorem runN_held_none (s0 : S) (ops : List NOp) (o : Nat)
    (h : ∀ nop ∈ ops, ∀ algs, nop = .addN algs → o ∉ algs.map (fun a => a.oid)) :
    dictGet (runN step bnd s0 ops).held o = none := by
  unfold runN
  rw [foldl_held_other step bnd ops _ o h]; rfl

/-- `self.algorithms[name]` is untouched by a call that is neither a successful rollback nor an
    `add_algorithms` with an object of that name. -/
theorem stepN'_dict_other (s : NState S B) (nop : NOp) (k : Nat)
    (hr : nop ≠ .prep .rollback) (h : ∀ algs, nop = .addN algs → lastNamed algs k = none) :
    dictGet (stepN' step bnd s nop).algorithms k = dictGet s.algorithms k := by
  unfold stepN' stepN
  cases hs : step s.base nop.toOp with
  | error e => simp [Bind.bind, Except.bind]
  | ok b =>
    cases nop with
    | addN algs =>
      simp only [Bind.bind, Except.bind, pure, Except.pure]
      rw [addAlgorithms_dict, h algs rfl]; rfl
    | prep op => cases op <;> first | (exact absurd rfl hr) | simp [Bind.bind, Except.bind, pure, Except.pure]

theorem stepN'_dict_added (hadd : ∀ s, ∃ s', step s .add = .ok s') (s : NState S B) (algs : List Alg) (k o : Nat)
    (h : lastNamed algs k = some o) :
    dictGet (stepN' step bnd s (.addN algs)).algorithms k = some o := by
  obtain ⟨s', hs'⟩ := hadd s.base
  simp only [stepN', stepN, NOp.toOp, hs', Bind.bind, Except.bind, pure, Except.pure]
  rw [addAlgorithms_dict, h]; rfl

theorem foldl_dict_other (ops : List NOp) (s : NState S B) (k : Nat)
    (hr : ∀ nop ∈ ops, nop ≠ .prep .rollback)
    (h : ∀ nop ∈ ops, ∀ algs, nop = .addN algs → lastNamed algs k = none) :
    dictGet (ops.foldl (stepN' step bnd) s).algorithms k = dictGet s.algorithms k := by
  induction ops generalizing s with
  | nil => rfl
  | cons nop ops ih =>
    rw [List.foldl_cons, ih _ (fun n hn => hr n (List.mem_cons_of_mem _ hn)) (fun n hn => h n (List.mem_cons_of_mem _ hn)),
      stepN'_dict_other step bnd s nop k (hr nop (List.mem_cons_self ..)) (h nop (List.mem_cons_self ..))]

/-- **`self.algorithms[name]` is the last object of that name passed since**, as long as no rollback follows. -/
theorem runN_dict (hadd : ∀ s, ∃ s', step s .add = .ok s') (s0 : S) (pre post : List NOp) (algs : List Alg) (k o : Nat)
    (h : lastNamed algs k = some o)
    (hr : ∀ nop ∈ post, nop ≠ .prep .rollback)
    (hpost : ∀ nop ∈ post, ∀ algs', nop = .addN algs' → lastNamed algs' k = none) :
    dictGet (runN step bnd s0 (pre ++ [.addN algs] ++ post)).algorithms k = some o := by
  have : runN step bnd s0 (pre ++ [.addN algs] ++ post) =
      post.foldl (stepN' step bnd) (stepN' step bnd (runN step bnd s0 pre) (.addN algs)) := by
    simp [runN, List.foldl_append]
  rw [this, foldl_dict_other step bnd post _ k hr hpost, stepN'_dict_added step bnd hadd _ algs k o h]

/-- a successful rollback empties `self.algorithms` and leaves the objects alone. -/
theorem stepN'_rollback (hrb : ∀ s, ∃ s', step s .rollback = .ok s') (s : NState S B) :
    (stepN' step bnd s (.prep .rollback)).algorithms = [] ∧
    (stepN' step bnd s (.prep .rollback)).held = s.held := by
  obtain ⟨s', hs'⟩ := hrb s.base
  simp [stepN', stepN, NOp.toOp, hs', Bind.bind, Except.bind, pure, Except.pure]

theorem foldl_base (step' : S → Op → S) (hstep : ∀ s op, step' s op = match step s op with | .ok s' => s' | .error _ => s)
    (ops : List NOp) (s : NState S B) :
    (ops.foldl (stepN' step bnd) s).base = (ops.map NOp.toOp).foldl step' s.base := by
  induction ops generalizing s with
  | nil => rfl
  | cons nop ops ih => rw [List.foldl_cons, ih, stepN'_base, List.map_cons, List.foldl_cons, hstep]

theorem runN_base (step' : S → Op → S) (hstep : ∀ s op, step' s op = match step s op with | .ok s' => s' | .error _ => s)
    (s0 : S) (ops : List NOp) :
    (runN step bnd s0 ops).base = (ops.map NOp.toOp).foldl step' s0 :=
  foldl_base step bnd step' hstep ops _

end generic

theorem sStep_add_ok (v : Variant) (c : SCfg) (s : SState) : ∃ s', sStep v c s .add = .ok s' := ⟨_, rfl⟩
theorem mStep_add_ok (v : Variant) (c : MCfg) (s : MState) : ∃ s', mStep v c s .add = .ok s' := ⟨_, rfl⟩
theorem sStep_rollback_ok (v : Variant) (c : SCfg) (s : SState) : ∃ s', sStep v c s .rollback = .ok s' := ⟨_, rfl⟩
theorem mStep_rollback_ok (v : Variant) (c : MCfg) (s : MState) : ∃ s', mStep v c s .rollback = .ok s' := ⟨_, rfl⟩

theorem sRunN_base (v : Variant) (c : SCfg) (ops : List NOp) :
    (sRunN v c ops).base = sRun v c (ops.map NOp.toOp) :=
  runN_base (sStep v c) sBind (sStep' v c) (fun s op => by unfold sStep'; cases sStep v c s op <;> rfl) (sInit c) ops

theorem mRunN_base (v : Variant) (c : MCfg) (ops : List NOp) :
    (mRunN v c ops).base = mRun v c (ops.map NOp.toOp) :=
  runN_base (mStep v c) mBind (mStep' v c) (fun s op => by unfold mStep'; cases mStep v c s op <;> rfl) (mInit c) ops

end PV.Prep
