import PyomaVerif.Lemmas.DftParseval
/-!
Helper lemmas for `Props/C13Phase.lean`: twiddle arithmetic modulo the period, powers of the
half-period twiddle, the delay of a segment whose tail sits at the segment mean (zero-padded
transform), the three-term Hann kernel, and primitivity of the concrete twiddle `twR`.
-/
set_option linter.unnecessarySeqFocus false
namespace PV
open Finset

section twiddle
variable {K : Type} [CommRing K]

/-- `tw 0 = 1` from multiplicativity and periodicity alone. -/
theorem tw_zero' (tw : Nat → CxS K) (n : Nat) (hmul : ∀ a b, tw (a + b) = tw a * tw b)
    (hn : tw n = 1) : tw 0 = 1 := by
  have := tw_mul_period tw n hmul hn 0
  rwa [Nat.zero_mul] at this

/-- a multiplicative `n`-periodic twiddle only sees its argument modulo `n`. -/
theorem tw_mod (tw : Nat → CxS K) (n : Nat) (hmul : ∀ a b, tw (a + b) = tw a * tw b)
    (hn : tw n = 1) (a : Nat) : tw (a % n) = tw a := by
  conv_rhs => rw [← Nat.div_add_mod a n]
  rw [hmul, Nat.mul_comm, tw_mul_period tw n hmul hn, one_mul]

theorem tw_congr_mod (tw : Nat → CxS K) (n : Nat) (hmul : ∀ a b, tw (a + b) = tw a * tw b)
    (hn : tw n = 1) (a b : Nat) (h : a % n = b % n) : tw a = tw b := by
  rw [← tw_mod tw n hmul hn a, h, tw_mod tw n hmul hn b]

/-- powers of the half-period twiddle `tw h = −1`: `tw(h·d) = (−1)^d`. -/
theorem tw_half_mul (tw : Nat → CxS K) (n : Nat) (hmul : ∀ a b, tw (a + b) = tw a * tw b)
    (hn : tw n = 1) (h : Nat) (hh : tw h = -1) (d : Nat) :
    tw (h * d) = if d % 2 = 0 then 1 else -1 := by
  induction d with
  | zero => simp [tw_zero' tw n hmul hn]
  | succ d ih =>
    rw [Nat.mul_succ, hmul, ih, hh]
    rcases Nat.mod_two_eq_zero_or_one d with h0 | h1
    · have : (d + 1) % 2 ≠ 0 := by omega
      rw [if_pos h0, if_neg this, one_mul]
    · have h0 : d % 2 ≠ 0 := by omega
      have : (d + 1) % 2 = 0 := by omega
      rw [if_neg h0, if_pos this]; ring

/-- `(t' + d) ≡ t (mod n)` for the index `t' = (t + (n − d % n)) % n` of the circular delay. -/
theorem circ_index_add (n d t : Nat) (hpos : 0 < n) :
    ((t + (n - d % n)) % n + d) % n = t % n := by
  have h := circ_advance n d hpos
  rw [Nat.add_mod, Nat.mod_mod, ← Nat.add_mod, Nat.add_assoc, h, Nat.add_mul_mod_self_right]

end twiddle

section padded
variable {K : Type} [Field K]

/-- **Delay inside the zero padding.** Segment `s` of `y` is `g` times the circular delay by
    `d < nperseg` samples of segment `s` of `x`, the window is flat and the last `d` samples of the
    segment of `x` sit at the segment mean (so that, after mean removal, the circular delay is a
    LINEAR delay of a sequence that ends in `d` zeros): the transform of ANY length (`tw` only
    multiplicative: zero-padding `nfft ≥ nperseg`) picks up the factor `g·tw(k·d)`. -/
theorem welchX_delay_padded (x y : Nat → K) (w : Nat → K) (c : K) (np st : Nat)
    (tw : Nat → CxS K) (hmul : ∀ a b, tw (a + b) = tw a * tw b) (g : K) (d : Nat) (hd : d < np)
    (hw : ∀ t, t < np → w t = c) (s : Nat)
    (hy : ∀ t, t < np → y (s * st + t) = g * x (s * st + (t + (np - d % np)) % np))
    (hx : ∀ t, np - d ≤ t → t < np → x (s * st + t) = segMean x np st s) (k : Nat) :
    welchX y w np st tw s k = (CxS.ofReal g * tw (k * d)) * welchX x w np st tw s k := by
  have hdm : d % np = d := Nat.mod_eq_of_lt hd
  have hm : segMean y np st s = g * segMean x np st s := by
    rw [segMean_eq, segMean_eq, ← mul_div_assoc, mul_sum]
    congr 1
    rw [← sum_circDelay np d (fun t => g * x (s * st + t))]
    exact sum_congr rfl (fun t ht => by rw [hy t (mem_range.mp ht)]; rfl)
  let v : Nat → CxS K := fun t => CxS.ofReal (c * (x (s * st + t) - segMean x np st s))
  have hv0 : ∀ t, np - d ≤ t → t < np → v t = 0 := by
    intro t h1 h2
    simp only [v]; rw [hx t h1 h2, sub_self, mul_zero, CxS.ofReal_zero]
  have hsplitA : ∀ f : Nat → CxS K, ∑ t ∈ range np, f t
      = ∑ t ∈ range (np - d), f t + ∑ j ∈ range d, f (np - d + j) := by
    intro f; rw [← sum_range_add]; congr 2; omega
  have hsplitB : ∀ f : Nat → CxS K, ∑ t ∈ range np, f t
      = ∑ t ∈ range d, f t + ∑ u ∈ range (np - d), f (d + u) := by
    intro f; rw [← sum_range_add]; congr 2; omega
  have hx' : welchX x w np st tw s k = ∑ u ∈ range (np - d), v u * tw (k * u) := by
    rw [welchX_eq]
    have e : ∑ t ∈ range np, CxS.ofReal (w t * (x (s * st + t) - segMean x np st s)) * tw (k * t)
        = ∑ t ∈ range np, v t * tw (k * t) :=
      sum_congr rfl (fun t ht => by rw [hw t (mem_range.mp ht)])
    rw [e, hsplitA]
    have : ∑ j ∈ range d, v (np - d + j) * tw (k * (np - d + j)) = 0 := by
      apply sum_eq_zero; intro j hj
      have := mem_range.mp hj
      rw [hv0 _ (by omega) (by omega), zero_mul]
    rw [this, add_zero]
  have hy' : welchX y w np st tw s k
      = ∑ u ∈ range (np - d), CxS.ofReal g * v u * tw (k * (d + u)) := by
    rw [welchX_eq]
    have e : ∑ t ∈ range np, CxS.ofReal (w t * (y (s * st + t) - segMean y np st s)) * tw (k * t)
        = ∑ t ∈ range np, CxS.ofReal g * v ((t + (np - d)) % np) * tw (k * t) := by
      apply sum_congr rfl; intro t ht
      have ht' := mem_range.mp ht
      rw [hw t ht', hy t ht', hm, hdm]
      simp only [v]
      rw [← CxS.ofReal_mul]; congr 2; ring
    rw [e, hsplitB]
    have z : ∑ t ∈ range d, CxS.ofReal g * v ((t + (np - d)) % np) * tw (k * t) = 0 := by
      apply sum_eq_zero; intro t ht
      have := mem_range.mp ht
      have e1 : (t + (np - d)) % np = t + (np - d) := Nat.mod_eq_of_lt (by omega)
      rw [e1, hv0 _ (by omega) (by omega), mul_zero, zero_mul]
    rw [z, zero_add]
    apply sum_congr rfl; intro u hu
    have := mem_range.mp hu
    have e2 : (d + u + (np - d)) % np = u := by
      have : d + u + (np - d) = u + np := by omega
      rw [this, Nat.add_mod_right, Nat.mod_eq_of_lt (by omega)]
    rw [e2]
  rw [hx', hy', mul_sum]
  apply sum_congr rfl; intro u _
  rw [Nat.mul_add, hmul]; ring

end padded

section conjdelay
variable {K : Type} [Field K]

/-- `tw(q·(n − d % n)) = conj(tw(q·d))`: the phase of an advance is the conjugate of that of the delay. -/
theorem tw_conj_delay (tw : Nat → CxS K) (n : Nat) (hpos : 0 < n)
    (hmul : ∀ a b, tw (a + b) = tw a * tw b) (hn : tw n = 1)
    (hunit : ∀ m, CxS.conj (tw m) * tw m = 1) (q d : Nat) :
    tw (q * (n - d % n)) = CxS.conj (tw (q * d)) := by
  have h1 : tw (q * (n - d % n)) * tw (q * d) = 1 := by
    rw [← hmul, ← Nat.mul_add, circ_advance n d hpos, ← Nat.mul_assoc]
    exact tw_mul_period tw n hmul hn _
  calc tw (q * (n - d % n)) = tw (q * (n - d % n)) * (CxS.conj (tw (q * d)) * tw (q * d)) := by
        rw [hunit, mul_one]
    _ = (tw (q * (n - d % n)) * tw (q * d)) * CxS.conj (tw (q * d)) := by ring
    _ = _ := by rw [h1, one_mul]

end conjdelay

section hannk
variable {K : Type} [Field K] [LinearOrder K] [IsStrictOrderedRing K]

/-- the Hann weight as a complex number: `½ − ¼·tw(t) − ¼·conj(tw(t))` -/
theorem ofReal_hann (tw : Nat → CxS K) (t : Nat) :
    CxS.ofReal (hann tw t)
      = CxS.ofReal (1 / 2) - CxS.ofReal (1 / 4) * tw t - CxS.ofReal (1 / 4) * CxS.conj (tw t) := by
  have hh : (CxS.ofReal (1 / 2) : CxS K) * CxS.ofReal (1 / 2) = CxS.ofReal (1 / 4) := by
    rw [← CxS.ofReal_mul]; norm_num
  simp only [hann]
  rw [CxS.ofReal_sub, CxS.ofReal_mul, CxS.ofReal_re_eq, ← hh]
  norm_num
  ring

omit [LinearOrder K] [IsStrictOrderedRing K] in
/-- `tw((k + (n−1))·t) = tw(k·t)·conj(tw t)`: line `k − 1` written without subtraction. -/
theorem tw_pred_line (tw : Nat → CxS K) (n : Nat) (hpos : 0 < n)
    (hmul : ∀ a b, tw (a + b) = tw a * tw b) (hn : tw n = 1)
    (hunit : ∀ m, CxS.conj (tw m) * tw m = 1) (k t : Nat) :
    tw ((k + (n - 1)) * t) = tw (k * t) * CxS.conj (tw t) := by
  have h1 : tw ((k + (n - 1)) * t) * tw t = tw (k * t) := by
    rw [← hmul]
    have : (k + (n - 1)) * t + t = k * t + t * n := by
      have : n - 1 + 1 = n := by omega
      calc (k + (n - 1)) * t + t = k * t + (n - 1 + 1) * t := by ring
        _ = k * t + t * n := by rw [this]; ring
    rw [this, hmul, tw_mul_period tw n hmul hn, mul_one]
  calc tw ((k + (n - 1)) * t) = tw ((k + (n - 1)) * t) * (CxS.conj (tw t) * tw t) := by
        rw [hunit, mul_one]
    _ = (tw ((k + (n - 1)) * t) * tw t) * CxS.conj (tw t) := by ring
    _ = _ := by rw [h1]

/-- **Three-term Hann kernel, window advanced by `d`.**  For any sequence `v`, the transform of
    `hann((u+d) mod n)·v(u)` at line `k` is
    `½·V[k] − ¼·tw(d)·V[k+1] − ¼·conj(tw d)·V[k−1]` (`V` the plain transform, `k−1` written as
    `k + (n−1)`). -/
theorem hann_adv_kernel (tw : Nat → CxS K) (n : Nat) (hpos : 0 < n)
    (hmul : ∀ a b, tw (a + b) = tw a * tw b) (hn : tw n = 1)
    (hunit : ∀ m, CxS.conj (tw m) * tw m = 1) (d : Nat) (v : Nat → K) (k : Nat) :
    ∑ u ∈ range n, CxS.ofReal (hann tw ((u + d) % n) * v u) * tw (k * u)
      = CxS.ofReal (1 / 2) * ∑ u ∈ range n, CxS.ofReal (v u) * tw (k * u)
        - CxS.ofReal (1 / 4) * tw d * ∑ u ∈ range n, CxS.ofReal (v u) * tw ((k + 1) * u)
        - CxS.ofReal (1 / 4) * CxS.conj (tw d)
            * ∑ u ∈ range n, CxS.ofReal (v u) * tw ((k + (n - 1)) * u) := by
  rw [mul_sum, mul_sum, mul_sum, ← sum_sub_distrib, ← sum_sub_distrib]
  apply sum_congr rfl; intro u _
  have e1 : tw ((k + 1) * u) = tw (k * u) * tw u := by rw [← hmul]; congr 1; ring
  have e0 : tw ((u + d) % n) = tw u * tw d := by rw [tw_mod tw n hmul hn, hmul]
  rw [CxS.ofReal_mul, ofReal_hann, e0, CxS.conj_mul, e1, tw_pred_line tw n hpos hmul hn hunit]
  ring

/-- **The Hann window has no content on lines `2 … n−2`**: its transform vanishes at every line
    `k ≥ 1` with `tw(k−1), tw k, tw(k+1) ≠ 1`. -/
theorem hann_dft_zero (tw : Nat → CxS K) (n : Nat) (hmul : ∀ a b, tw (a + b) = tw a * tw b)
    (hn : tw n = 1) (hunit : ∀ m, CxS.conj (tw m) * tw m = 1) (k : Nat) (hk : 1 ≤ k)
    (h0 : tw k ≠ 1) (h1 : tw (k + 1) ≠ 1) (h2 : tw (k - 1) ≠ 1) :
    ∑ t ∈ range n, CxS.ofReal (hann tw t) * tw (k * t) = 0 := by
  have point : ∀ t, CxS.ofReal (hann tw t) * tw (k * t)
      = CxS.ofReal (1 / 2) * tw (k * t) - CxS.ofReal (1 / 4) * tw ((k + 1) * t)
        - CxS.ofReal (1 / 4) * tw ((k - 1) * t) := by
    intro t
    have e1 : tw ((k + 1) * t) = tw (k * t) * tw t := by rw [← hmul]; congr 1; ring
    have e2 : tw ((k - 1) * t) = tw (k * t) * CxS.conj (tw t) := by
      have : tw (k * t) = tw ((k - 1) * t) * tw t := by
        rw [← hmul]; congr 1
        have : k - 1 + 1 = k := by omega
        calc k * t = (k - 1 + 1) * t := by rw [this]
          _ = (k - 1) * t + t := by ring
      rw [this, mul_assoc, mul_comm (tw t), hunit, mul_one]
    rw [ofReal_hann, e1, e2]; ring
  simp only [point, sum_sub_distrib, ← mul_sum, geo_sum tw n hmul hn k h0,
    geo_sum tw n hmul hn (k + 1) h1, geo_sum tw n hmul hn (k - 1) h2, mul_zero, sub_zero]

/-- **Segment-mean removal is immaterial on those lines**: the Hann-windowed transform of the
    mean-removed segment equals that of the raw segment. -/
theorem welchX_hann_mean_free (x : Nat → K) (n step : Nat) (tw : Nat → CxS K)
    (hmul : ∀ a b, tw (a + b) = tw a * tw b) (hn : tw n = 1)
    (hunit : ∀ m, CxS.conj (tw m) * tw m = 1) (s k : Nat) (hk : 1 ≤ k)
    (h0 : tw k ≠ 1) (h1 : tw (k + 1) ≠ 1) (h2 : tw (k - 1) ≠ 1) :
    welchX x (hann tw) n step tw s k
      = ∑ t ∈ range n, CxS.ofReal (hann tw t * x (s * step + t)) * tw (k * t) := by
  rw [welchX_eq]
  have e : ∀ t, CxS.ofReal (hann tw t * (x (s * step + t) - segMean x n step s)) * tw (k * t)
      = CxS.ofReal (hann tw t * x (s * step + t)) * tw (k * t)
        - CxS.ofReal (segMean x n step s) * (CxS.ofReal (hann tw t) * tw (k * t)) := by
    intro t
    rw [mul_sub, CxS.ofReal_sub, CxS.ofReal_mul, CxS.ofReal_mul]; ring
  simp only [e, sum_sub_distrib, ← mul_sum, hann_dft_zero tw n hmul hn hunit k hk h0 h1 h2,
    mul_zero, sub_zero]

end hannk

section concrete2
open Real

/-- **Primitivity of the concrete twiddle**: `exp(−2πi·m/N) ≠ 1` for `0 < m < N`. -/
theorem twR_ne_one (N m : Nat) (h0 : 0 < m) (h1 : m < N) : twR N m ≠ 1 := by
  intro h
  have hprim : IsPrimitiveRoot (Complex.exp (2 * π * Complex.I / N))⁻¹ N :=
    (Complex.isPrimitiveRoot_exp N (by omega)).inv
  have h' := congrArg CxS.toC h
  rw [toC_twR] at h'
  exact hprim.pow_ne_one_of_pos_of_lt (by omega) h1 (h'.trans rfl)

/-- the half-period value: `exp(−πi) = −1`. -/
theorem twR_half (h : Nat) (hh : 0 < h) : twR (2 * h) h = -1 := by
  have hne : (h : ℝ) ≠ 0 := by exact_mod_cast (by omega : h ≠ 0)
  have e : 2 * π * (h : ℝ) / (2 * (h : ℝ)) = π := by field_simp
  ext
  · simp [twR, e]
  · simp [twR, e]

end concrete2

end PV
