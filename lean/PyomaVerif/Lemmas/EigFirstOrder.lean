import PyomaVerif.Lemmas.UncJac
import Mathlib.LinearAlgebra.Matrix.Rank
import Mathlib.LinearAlgebra.FiniteDimensional.Lemmas
import Mathlib.LinearAlgebra.FiniteDimensional.Basic
/-!
Existence of the first-order eigen-triple of a simple eigenvalue (helpers for `Props/C17Table.lean`):
`range(A₀ − λ₀) = ker(χ₀ᵀ·)` by rank–nullity.
-/
namespace PV.Unc
open Matrix Module

section Solve
variable {K : Type} [Field K] {n : Type} [Fintype n] [DecidableEq n]

/-- `x ↦ w ⬝ᵥ x` -/
def dotL (w : n → K) : (n → K) →ₗ[K] K where
  toFun x := w ⬝ᵥ x
  map_add' := dotProduct_add w
  map_smul' c x := by simp [dotProduct_smul]

theorem finrank_ker_dotL (w : n → K) (hw : w ≠ 0) :
    finrank K (LinearMap.ker (dotL w)) + 1 = Fintype.card n := by
  have hsurj : Function.Surjective (dotL w) := by
    obtain ⟨i, hi⟩ := Function.ne_iff.mp hw
    intro c
    refine ⟨(c / w i) • Pi.single i 1, ?_⟩
    have hi' : w i ≠ 0 := hi
    show w ⬝ᵥ ((c / w i) • Pi.single i 1) = c
    rw [dotProduct_smul, dotProduct_single, smul_eq_mul, mul_one, div_mul_cancel₀ _ hi']
  have h := LinearMap.finrank_range_add_finrank_ker (dotL w)
  rw [LinearMap.range_eq_top.mpr hsurj, finrank_top, Module.finrank_self,
    Module.finrank_fintype_fun_eq_card] at h
  omega

/-- a square system `M·x = b` of corank one is solvable as soon as `b` is annihilated by a non-zero
    functional that annihilates the range. -/
theorem solvable_of_rank (M : Matrix n n K) (w : n → K) (hw : w ≠ 0)
    (hle : ∀ y, w ⬝ᵥ (M *ᵥ y) = 0) (hrank : M.rank + 1 = Fintype.card n) (b : n → K)
    (hb : w ⬝ᵥ b = 0) : ∃ x, M *ᵥ x = b := by
  have hsub : LinearMap.range M.mulVecLin ≤ LinearMap.ker (dotL w) := by
    rintro _ ⟨y, rfl⟩
    exact hle y
  have hk := finrank_ker_dotL w hw
  have heq := Submodule.eq_of_le_of_finrank_eq hsub (by unfold Matrix.rank at hrank; omega)
  have hmem : b ∈ LinearMap.range M.mulVecLin := by
    rw [heq]
    exact hb
  obtain ⟨x, hx⟩ := hmem
  exact ⟨x, hx⟩

omit [DecidableEq n] in
theorem rank_of_ker_span (B : Matrix n n K) (φ : n → K) (hφ : φ ≠ 0) (hB : B *ᵥ φ = 0)
    (hs : ∀ u, B *ᵥ u = 0 → ∃ c : K, u = c • φ) : B.rank + 1 = Fintype.card n := by
  have hk : LinearMap.ker B.mulVecLin = K ∙ φ := by
    ext u
    rw [LinearMap.mem_ker, Submodule.mem_span_singleton]
    constructor
    · intro h
      obtain ⟨c, rfl⟩ := hs u h
      exact ⟨c, rfl⟩
    · rintro ⟨c, rfl⟩
      show B *ᵥ (c • φ) = 0
      rw [mulVec_smul, hB, smul_zero]
  have h := LinearMap.finrank_range_add_finrank_ker B.mulVecLin
  rw [hk, finrank_span_singleton hφ, Module.finrank_fintype_fun_eq_card] at h
  exact h

/-- **First-order eigen-triple of a simple eigenvalue, pair form.**  `A₀φ₀ = λ₀φ₀`, `χ₀ᵀA₀ = λ₀χ₀ᵀ`,
    `χ₀·φ₀ ≠ 0` and the eigenspace of `λ₀` is the line through `φ₀`: for EVERY `A₁` the ε-parts of
    `(A₀+εA₁)(φ₀+εφ₁) = (λ₀+ελ₁)(φ₀+εφ₁)` and of the left equation are solvable. -/
theorem eig_first_order_pair (A0 A1 : Matrix n n K) (φ0 χ0 : n → K) (l0 : K)
    (hr : A0 *ᵥ φ0 = l0 • φ0) (hl : χ0 ᵥ* A0 = l0 • χ0) (hne : χ0 ⬝ᵥ φ0 ≠ 0)
    (hs : ∀ u, A0 *ᵥ u = l0 • u → ∃ c : K, u = c • φ0) :
    ∃ (l1 : K) (φ1 χ1 : n → K),
      A0 *ᵥ φ1 + A1 *ᵥ φ0 = l0 • φ1 + l1 • φ0 ∧ χ1 ᵥ* A0 + χ0 ᵥ* A1 = l0 • χ1 + l1 • χ0 := by
  set B : Matrix n n K := A0 - l0 • (1 : Matrix n n K) with hBdef
  have hBv : ∀ u, B *ᵥ u = A0 *ᵥ u - l0 • u := by
    intro u; rw [hBdef, sub_mulVec, smul_mulVec, one_mulVec]
  have hvB : ∀ y, y ᵥ* B = y ᵥ* A0 - l0 • y := by
    intro y; rw [hBdef, vecMul_sub, vecMul_smul, vecMul_one]
  have hφ : φ0 ≠ 0 := by
    rintro rfl; exact hne (dotProduct_zero _)
  have hχ : χ0 ≠ 0 := by
    rintro rfl; exact hne (zero_dotProduct _)
  have hB0 : B *ᵥ φ0 = 0 := by rw [hBv, hr, sub_self]
  have h0B : χ0 ᵥ* B = 0 := by rw [hvB, hl, sub_self]
  have hrank : B.rank + 1 = Fintype.card n := by
    refine rank_of_ker_span B φ0 hφ hB0 fun u hu => hs u ?_
    rw [hBv] at hu
    exact sub_eq_zero.mp hu
  set l1 : K := (χ0 ⬝ᵥ (A1 *ᵥ φ0)) / (χ0 ⬝ᵥ φ0) with hl1
  have hl1' : l1 * (χ0 ⬝ᵥ φ0) = χ0 ⬝ᵥ (A1 *ᵥ φ0) := div_mul_cancel₀ _ hne
  -- right vector
  obtain ⟨φ1, hφ1⟩ := solvable_of_rank B χ0 hχ
    (fun y => by rw [dotProduct_mulVec, h0B, zero_dotProduct]) hrank (l1 • φ0 - A1 *ᵥ φ0)
    (by rw [dotProduct_sub, dotProduct_smul, smul_eq_mul, hl1', sub_self])
  -- left vector
  obtain ⟨χ1, hχ1⟩ := solvable_of_rank Bᵀ φ0 hφ
    (fun y => by rw [mulVec_transpose, dotProduct_comm, ← dotProduct_mulVec, hB0, dotProduct_zero])
    (by rw [rank_transpose]; exact hrank) (l1 • χ0 - χ0 ᵥ* A1)
    (by rw [dotProduct_sub, dotProduct_smul, smul_eq_mul, dotProduct_comm φ0 χ0, hl1',
      dotProduct_comm φ0 (χ0 ᵥ* A1), ← dotProduct_mulVec, sub_self])
  refine ⟨l1, φ1, χ1, ?_, ?_⟩
  · rw [hBv] at hφ1
    have : A0 *ᵥ φ1 = l0 • φ1 + (l1 • φ0 - A1 *ᵥ φ0) := by rw [← hφ1]; abel
    rw [this]; abel
  · rw [mulVec_transpose, hvB] at hχ1
    have : χ1 ᵥ* A0 = l0 • χ1 + (l1 • χ0 - χ0 ᵥ* A1) := by rw [← hχ1]; abel
    rw [this]; abel

end Solve

section DualForm
open TrivSqZeroExt
variable {K : Type} [Field K] {n : Type} [Fintype n] [DecidableEq n]

omit [DecidableEq n] [Fintype n] in
theorem dmat_mfst_msnd (A : Matrix n n (DualNumber K)) : dmat (mfst A) (msnd A) = A := by
  ext i j <;> simp [dmat, mfst, msnd]

/-- **First-order eigen-triple of a simple eigenvalue over the dual numbers.**  For ANY dual-number
    matrix `A = A₀ + ε·A₁` whose value part has the exact eigen-triple `(λ₀, φ₀, χ₀)` with `χ₀·φ₀ ≠ 0`
    and a one-dimensional eigenspace, there are `λ̃ = λ₀ + ε·λ₁`, `φ̃ = φ₀ + ε·φ₁`, `χ̃ = χ₀ + ε·χ₁` with
    `A·φ̃ = λ̃·φ̃`, `χ̃·A = λ̃·χ̃`. -/
theorem eig_first_order_exists (A : Matrix n n (DualNumber K)) (φ0 χ0 : n → K) (l0 : K)
    (hr : mfst A *ᵥ φ0 = l0 • φ0) (hl : χ0 ᵥ* mfst A = l0 • χ0) (hne : χ0 ⬝ᵥ φ0 ≠ 0)
    (hs : ∀ u, mfst A *ᵥ u = l0 • u → ∃ c : K, u = c • φ0) :
    ∃ (lam : DualNumber K) (φ χ : n → DualNumber K),
      lam.fst = l0 ∧ vfst φ = φ0 ∧ vfst χ = χ0 ∧
      A *ᵥ φ = lam • φ ∧ χ ᵥ* A = lam • χ ∧ (χ ⬝ᵥ φ).fst ≠ 0 := by
  obtain ⟨l1, φ1, χ1, e1, e2⟩ := eig_first_order_pair (mfst A) (msnd A) φ0 χ0 l0 hr hl hne hs
  refine ⟨inl l0 + inr l1, dvec φ0 φ1, dvec χ0 χ1, by simp, vfst_dvec _ _, vfst_dvec _ _, ?_, ?_, ?_⟩
  · apply dual_vec_ext
    · rw [vfst_mulVec, vfst_smul, vfst_dvec]; simpa using hr
    · rw [vsnd_mulVec, vsnd_smul, vfst_dvec, vsnd_dvec, e1]; simp
  · apply dual_vec_ext
    · rw [vfst_vecMul, vfst_smul, vfst_dvec]; simpa using hl
    · rw [vsnd_vecMul, vsnd_smul, vfst_dvec, vsnd_dvec, add_comm, e2]; simp
  · rw [fst_dotProduct, vfst_dvec, vfst_dvec]; exact hne

end DualForm

end PV.Unc
