import PyomaVerif.Model.Mpe
import PyomaVerif.Lemmas.NanTable
import Mathlib.Tactic.Ring
/-! Lemmas on `Model/Mpe.lean` (`SSI_mpe`, `pLSCF_mpe`). -/
namespace PV

/-- the cell the request `fj` at column `ord` contributes: the row `np.nanargmin` selects, kept if `chk` accepts it. -/
def selCell (Fn : Mat NR) (chk : Rat → NR → Bool) (fj : Rat) (ord : Nat) : Option (Nat × Nat) :=
  match nanargminAbs (fun r => Fn.e r ord) Fn.r (some fj) with
  | some sel => if chk fj (Fn.e sel ord) then some (sel, ord) else none
  | none => none

/-- all cells contributed by a request list -/
def mpeCells (Fn : Mat NR) (chk : Rat → NR → Bool) (reqs : List (Rat × Option Nat)) : List (Nat × Nat) :=
  reqs.filterMap fun q => q.2.bind (selCell Fn chk q.1)

/-- the six lists read off one common list of cells -/
def accOfCells (Fn Xi : Mat NR) (Phi : Ten3 (Option CQ)) (cov : Option MpeCov) (cells : List (Nat × Nat)) : MpeAcc :=
  { fn := cells.map fun c => Fn.e c.1 c.2
    xi := cells.map fun c => Xi.e c.1 c.2
    phi := cells.map fun c => ten3Row Phi c.1 c.2
    fnCov := match cov with | some cv => cells.map (fun c => cv.fn.e c.1 c.2) | none => []
    xiCov := match cov with | some cv => cells.map (fun c => cv.xi.e c.1 c.2) | none => []
    phiCov := match cov with | some cv => cells.map (fun c => ten3Row cv.phi c.1 c.2) | none => [] }

theorem accPush_accOfCells (Fn Xi : Mat NR) (Phi : Ten3 (Option CQ)) (cov : Option MpeCov)
    (cells : List (Nat × Nat)) (sel ord : Nat) :
    accPush Fn Xi Phi cov (accOfCells Fn Xi Phi cov cells) sel ord
      = accOfCells Fn Xi Phi cov (cells ++ [(sel, ord)]) := by
  cases cov <;> simp [accPush, accOfCells]

/-- a request is *servable*: its column exists and holds a retained pole -/
def Servable (Fn : Mat NR) (q : Rat × Option Nat) : Prop :=
  ∃ ord, q.2 = some ord ∧ ord < Fn.c ∧ ∃ r, r < Fn.r ∧ Fn.e r ord ≠ none

theorem mpePass_ok (Fn Xi : Mat NR) (Phi : Ten3 (Option CQ)) (cov : Option MpeCov) (chk : Rat → NR → Bool)
    (cells : List (Nat × Nat)) (fj : Rat) (ord? : Option Nat) (acc' : MpeAcc)
    (h : mpePass Fn Xi Phi cov chk (accOfCells Fn Xi Phi cov cells) fj ord? = .ok acc') :
    Servable Fn (fj, ord?) ∧
      acc' = accOfCells Fn Xi Phi cov (cells ++ (ord?.bind (selCell Fn chk fj)).toList) := by
  unfold mpePass at h
  cases ord? with
  | none => simp [throw, throwThe, MonadExceptOf.throw] at h
  | some ord =>
    simp only at h
    by_cases hc : Fn.c ≤ ord
    · simp [hc, throw, throwThe, MonadExceptOf.throw] at h
    · simp only [hc, if_false] at h
      cases hsel : nanargminAbs (fun r => Fn.e r ord) Fn.r (some fj) with
      | none => rw [hsel] at h; simp [throw, throwThe, MonadExceptOf.throw] at h
      | some sel =>
        rw [hsel] at h
        obtain ⟨v, hv⟩ := (nanargminAbs_some _ _ _ _).mp hsel
        refine ⟨⟨ord, rfl, by omega, sel, hv.1, ?_⟩, ?_⟩
        · have : Fn.e sel ord = some v := hv.2.1
          rw [this]; simp
        · simp only [Option.bind_some, selCell, hsel]
          by_cases hchk : chk fj (Fn.e sel ord) = true
          · simp only [hchk, if_true, pure, Except.pure, Except.ok.injEq] at h
            rw [← h, accPush_accOfCells]; simp [hchk]
          · simp only [hchk, pure, Except.pure, Bool.false_eq_true, if_false, Except.ok.injEq] at h
            rw [← h]; simp [hchk]

theorem mpePass_error (Fn Xi : Mat NR) (Phi : Ten3 (Option CQ)) (cov : Option MpeCov) (chk : Rat → NR → Bool)
    (acc : MpeAcc) (fj : Rat) (ord? : Option Nat) (e : String)
    (h : mpePass Fn Xi Phi cov chk acc fj ord? = .error e) : ¬ Servable Fn (fj, ord?) := by
  rintro ⟨ord, ho, hlt, r, hr, hne⟩
  simp only at ho
  subst ho
  unfold mpePass at h
  simp only [show ¬ Fn.c ≤ ord by omega, if_false] at h
  cases hsel : nanargminAbs (fun r => Fn.e r ord) Fn.r (some fj) with
  | none => exact hne ((nanargminAbs_none _ _ _).mp hsel r hr)
  | some sel =>
    rw [hsel] at h
    simp only at h
    split at h <;> simp [pure, Except.pure] at h

/-- the request loop, started on lists read off `cells0`, succeeds iff every request is servable, and then
    returns the lists read off `cells0 ++ mpeCells reqs`. -/
theorem mpeLoop_ok (Fn Xi : Mat NR) (Phi : Ten3 (Option CQ)) (cov : Option MpeCov) (chk : Rat → NR → Bool) :
    ∀ (reqs : List (Rat × Option Nat)) (cells0 : List (Nat × Nat)) (acc : MpeAcc),
      mpeLoop Fn Xi Phi cov chk reqs (accOfCells Fn Xi Phi cov cells0) = .ok acc →
        (∀ q ∈ reqs, Servable Fn q) ∧ acc = accOfCells Fn Xi Phi cov (cells0 ++ mpeCells Fn chk reqs) := by
  intro reqs
  induction reqs with
  | nil =>
    intro cells0 acc h
    simp only [mpeLoop, pure, Except.pure, Except.ok.injEq] at h
    simp [mpeCells, h]
  | cons q rest ih =>
    intro cells0 acc h
    obtain ⟨fj, ord?⟩ := q
    unfold mpeLoop at h
    cases hp : mpePass Fn Xi Phi cov chk (accOfCells Fn Xi Phi cov cells0) fj ord? with
    | error e => rw [hp] at h; cases h
    | ok acc' =>
      rw [hp] at h
      obtain ⟨hs, hacc'⟩ := mpePass_ok Fn Xi Phi cov chk cells0 fj ord? acc' hp
      subst hacc'
      obtain ⟨hall, hacc⟩ := ih _ acc h
      refine ⟨?_, ?_⟩
      · intro q hq
        rcases List.mem_cons.mp hq with rfl | hq
        · exact hs
        · exact hall q hq
      · rw [hacc]
        congr 1
        simp only [mpeCells, List.filterMap_cons, List.append_assoc]
        cases ord?.bind (selCell Fn chk fj) <;> simp

theorem mpeLoop_error (Fn Xi : Mat NR) (Phi : Ten3 (Option CQ)) (cov : Option MpeCov) (chk : Rat → NR → Bool) :
    ∀ (reqs : List (Rat × Option Nat)) (acc : MpeAcc) (e : String),
      mpeLoop Fn Xi Phi cov chk reqs acc = .error e → ∃ q ∈ reqs, ¬ Servable Fn q := by
  intro reqs
  induction reqs with
  | nil => intro acc e h; simp [mpeLoop, pure, Except.pure] at h
  | cons q rest ih =>
    intro acc e h
    obtain ⟨fj, ord?⟩ := q
    unfold mpeLoop at h
    cases hp : mpePass Fn Xi Phi cov chk acc fj ord? with
    | error e' => exact ⟨(fj, ord?), List.mem_cons_self, mpePass_error Fn Xi Phi cov chk acc fj ord? e' hp⟩
    | ok acc' =>
      rw [hp] at h
      obtain ⟨q, hq, hns⟩ := ih acc' e h
      exact ⟨q, List.mem_cons_of_mem _ hq, hns⟩

theorem accOfCells_nil (Fn Xi : Mat NR) (Phi : Ten3 (Option CQ)) (cov : Option MpeCov) :
    accOfCells Fn Xi Phi cov [] = {} := by
  cases cov <;> rfl

/-- the requests of the call -/
def reqsOf (freq : List Rat) : MpeOrder → List (Rat × Option Nat)
  | .findMin => []
  | .int o => freq.map fun f => (f, some o)
  | .list os => listReqs freq os

/-! ### `find_min` -/

theorem firstSome_some {α} (p : Nat → Option α) : ∀ (fuel start i : Nat) (a : α),
    firstSome p fuel start = some (i, a) ↔
      start ≤ i ∧ i < start + fuel ∧ p i = some a ∧ ∀ i', start ≤ i' → i' < i → p i' = none := by
  intro fuel
  induction fuel with
  | zero => intro start i a; simp [firstSome]; intro h1 h2; omega
  | succ fuel ih =>
    intro start i a
    unfold firstSome
    cases hp : p start with
    | some b =>
      simp only [Option.some.injEq, Prod.mk.injEq]
      constructor
      · rintro ⟨rfl, rfl⟩
        exact ⟨le_refl _, by omega, hp, fun i' h1 h2 => by omega⟩
      · rintro ⟨h1, h2, h3, h4⟩
        rcases Nat.eq_or_lt_of_le h1 with heq | hlt
        · subst heq; rw [hp] at h3; exact ⟨rfl, Option.some.inj h3⟩
        · have := h4 start (le_refl _) hlt; rw [hp] at this; cases this
    | none =>
      simp only
      rw [ih (start + 1) i a]
      constructor
      · rintro ⟨h1, h2, h3, h4⟩
        refine ⟨by omega, by omega, h3, ?_⟩
        intro i' hi1 hi2
        rcases Nat.eq_or_lt_of_le hi1 with heq | hlt
        · subst heq; exact hp
        · exact h4 i' hlt hi2
      · rintro ⟨h1, h2, h3, h4⟩
        have hne : start ≠ i := fun h => by subst h; rw [hp] at h3; cases h3
        exact ⟨by omega, by omega, h3, fun i' hi1 hi2 => h4 i' (by omega) hi2⟩

theorem firstSome_none {α} (p : Nat → Option α) : ∀ (fuel start : Nat),
    firstSome p fuel start = none ↔ ∀ i, start ≤ i → i < start + fuel → p i = none := by
  intro fuel
  induction fuel with
  | zero => intro start; simp [firstSome]; intro i h1 h2; omega
  | succ fuel ih =>
    intro start
    unfold firstSome
    cases hp : p start with
    | some b =>
      simp only [reduceCtorEq, false_iff]
      intro h
      have := h start (le_refl _) (by omega)
      rw [hp] at this; cases this
    | none =>
      simp only
      rw [ih (start + 1)]
      constructor
      · intro h i h1 h2
        rcases Nat.eq_or_lt_of_le h1 with heq | hlt
        · subst heq; exact hp
        · exact h i hlt (by omega)
      · intro h i h1 h2
        exact h i (by omega) (by omega)

theorem mem_insertUniq (x y : Rat) : ∀ l : List Rat, y ∈ insertUniq x l ↔ y = x ∨ y ∈ l := by
  intro l
  induction l with
  | nil => simp [insertUniq]
  | cons z t ih =>
    unfold insertUniq
    split
    · simp
    · split
      · rename_i h; subst h; simp
      · simp only [List.mem_cons, ih]
        constructor
        · rintro (h | h | h)
          · exact Or.inr (Or.inl h)
          · exact Or.inl h
          · exact Or.inr (Or.inr h)
        · rintro (h | h | h)
          · exact Or.inr (Or.inl h)
          · exact Or.inl h
          · exact Or.inr (Or.inr h)

theorem mem_uniqueSorted (y : Rat) : ∀ l : List Rat, y ∈ uniqueSorted l ↔ y ∈ l := by
  intro l
  induction l with
  | nil => simp [uniqueSorted]
  | cons z t ih =>
    have : uniqueSorted (z :: t) = insertUniq z (uniqueSorted t) := rfl
    rw [this, mem_insertUniq, ih]; simp

theorem mem_nonNan (col : Nat → NR) (n : Nat) (v : Rat) :
    v ∈ nonNan col n ↔ ∃ r, r < n ∧ col r = some v := by
  simp [nonNan, List.mem_filterMap]

theorem mem_uniqueNonNan (col : Nat → NR) (n : Nat) (v : Rat) :
    v ∈ uniqueNonNan col n ↔ ∃ r, r < n ∧ col r = some v := by
  unfold uniqueNonNan; rw [mem_uniqueSorted, mem_nonNan]

/-- looking up a value that occurs in the column returns the first row holding it. -/
theorem nanargminAbs_of_mem (col : Nat → NR) (n : Nat) (f : Rat) (h : ∃ r, r < n ∧ col r = some f) :
    ∃ r, nanargminAbs col n (some f) = some r ∧ r < n ∧ col r = some f ∧ ∀ j, j < r → col j ≠ some f := by
  cases hr : nanargminAbs col n (some f) with
  | none =>
    obtain ⟨r, hr1, hr2⟩ := h
    have := (nanargminAbs_none col n f).mp hr r hr1
    rw [hr2] at this; cases this
  | some r =>
    obtain ⟨v, hk, hc, hall, hfirst⟩ := (nanargminAbs_some col n f r).mp hr
    obtain ⟨r0, hr1, hr2⟩ := h
    have h0 : |v - f| ≤ |f - f| := hall r0 hr1 f hr2
    rw [sub_self, abs_zero] at h0
    have hv : v = f := by
      have := abs_nonneg (v - f)
      have h2 : |v - f| = 0 := le_antisymm h0 this
      linarith [abs_eq_zero.mp h2]
    subst hv
    refine ⟨r, rfl, hk, hc, ?_⟩
    intro j hj hcj
    have := hfirst j hj v hcj
    exact lt_irrefl _ this

theorem foldl_add_start (g : Rat → Rat) : ∀ (l : List Rat) (a : Rat),
    l.foldl (fun acc f => acc + g f) a = a + l.foldl (fun acc f => acc + g f) 0 := by
  intro l
  induction l with
  | nil => intro a; simp
  | cons x t ih =>
    intro a
    simp only [List.foldl_cons]
    rw [ih (a + g x), ih (0 + g x)]
    ring

/-- requests ascending with pairwise disjoint closed bands of half-width `w` -/
def BandsDisjoint (freq : List Rat) (w : Rat) : Prop := freq.Pairwise (fun f g => f + w < g - w)

/-- a value lies in the closed band of some request -/
def InSomeBand (freq : List Rat) (w : Rat) (v : Rat) : Prop := ∃ f ∈ freq, f - w ≤ v ∧ v ≤ f + w

open Classical in
theorem bandSum_closed (w v : Rat) : ∀ (freq : List Rat), BandsDisjoint freq w →
    freq.foldl (fun acc f =>
      acc + (if nanGe (some v) (f - w) && nanLe (some v) (f + w) then (some v).getD 0 else 0)) 0
      = if InSomeBand freq w v then v else 0 := by
  intro freq
  induction freq with
  | nil => intro _; simp [InSomeBand]
  | cons f rest ih =>
    intro hd
    obtain ⟨hf, hrest⟩ := List.pairwise_cons.mp hd
    simp only [List.foldl_cons]
    rw [foldl_add_start, ih hrest]
    by_cases hin : f - w ≤ v ∧ v ≤ f + w
    · have hno : ¬ InSomeBand rest w v := by
        rintro ⟨g, hg, h1, h2⟩
        have := hf g hg
        linarith [hin.2]
      have hyes : InSomeBand (f :: rest) w v := ⟨f, List.mem_cons_self, hin⟩
      simp [hno, hyes, nanGe, nanLe, hin.1, hin.2]
    · have hiff : InSomeBand (f :: rest) w v ↔ InSomeBand rest w v := by
        constructor
        · rintro ⟨g, hg, h1, h2⟩
          rcases List.mem_cons.mp hg with rfl | hg
          · exact absurd ⟨h1, h2⟩ hin
          · exact ⟨g, hg, h1, h2⟩
        · rintro ⟨g, hg, h1, h2⟩
          exact ⟨g, List.mem_cons_of_mem _ hg, h1, h2⟩
      have hcond : (nanGe (some v) (f - w) && nanLe (some v) (f + w)) = false := by
        simp only [nanGe, nanLe, Bool.and_eq_false_iff, decide_eq_false_iff_not]
        by_contra hcon
        push Not at hcon
        exact hin hcon
      simp only [hcond, Bool.false_eq_true, if_false, zero_add, hiff]

theorem bandSum_nan (w : Rat) : ∀ (freq : List Rat) (a : Rat),
    freq.foldl (fun acc f =>
      acc + (if nanGe (none : NR) (f - w) && nanLe (none : NR) (f + w) then (none : NR).getD 0 else 0)) a = a := by
  intro freq
  induction freq with
  | nil => intro a; rfl
  | cons f rest ih => intro a; simp only [List.foldl_cons]; rw [ih]; simp [nanGe]

/-- value of one aggregated cell as a function of the (masked) pole `x` -/
def aggValClosed (freq : List Rat) (w : Rat) (x : NR) : NR :=
  let s := freq.foldl (fun acc f =>
    acc + (if nanGe x (f - w) && nanLe x (f + w) then x.getD 0 else 0)) 0
  if s = 0 then none else some s

theorem aggValClosed_some (freq : List Rat) (w : Rat) (hd : BandsDisjoint freq w) (x : NR) (v : Rat) :
    aggValClosed freq w x = some v ↔ x = some v ∧ v ≠ 0 ∧ InSomeBand freq w v := by
  classical
  unfold aggValClosed
  cases x with
  | none => simp only []; rw [bandSum_nan]; simp
  | some u =>
    simp only []
    rw [bandSum_closed w u freq hd]
    by_cases hin : InSomeBand freq w u
    · simp only [hin, if_true]
      by_cases hu : u = 0
      · simp only [hu, if_true, reduceCtorEq, false_iff]
        rintro ⟨h1, h2, _⟩
        exact h2 (Option.some.inj h1).symm
      · simp only [hu, if_false, Option.some.injEq]
        constructor
        · intro h; subst h; exact ⟨rfl, hu, hin⟩
        · intro h; exact h.1
    · simp only [hin, if_false, if_true, reduceCtorEq, false_iff]
      rintro ⟨h1, _, h3⟩
      cases h1; exact hin h3

/-- **what `aggregated_poles` holds** (disjoint bands): the pole itself where it is labelled `lab`, non-zero and
    inside some band; NaN elsewhere. -/
theorem aggClosed_some (Fn : Mat NR) (Lab : Mat Int) (lab : Int) (freq : List Rat) (w : Rat)
    (hd : BandsDisjoint freq w) (r o : Nat) (v : Rat) :
    (aggClosed Fn Lab lab freq w).e r o = some v ↔
      Lab.e r o = lab ∧ Fn.e r o = some v ∧ v ≠ 0 ∧ InSomeBand freq w v := by
  have : (aggClosed Fn Lab lab freq w).e r o
      = aggValClosed freq w (if Lab.e r o = lab then Fn.e r o else none) := rfl
  rw [this, aggValClosed_some freq w hd]
  by_cases hl : Lab.e r o = lab
  · simp [hl]
  · simp [hl]

theorem aggClosed_shape (Fn : Mat NR) (Lab : Mat Int) (lab : Int) (freq : List Rat) (w : Rat) :
    (aggClosed Fn Lab lab freq w).r = Fn.r ∧ (aggClosed Fn Lab lab freq w).c = Fn.c := ⟨rfl, rfl⟩

/-- the rows `pickLoop` reads for the values `us` -/
def pickRows (agg : Mat NR) (i : Nat) (us : List Rat) : List Nat :=
  us.map fun f => (nanargminAbs (fun r => agg.e r i) agg.r (some f)).getD 0

theorem pickLoop_ok (agg Xi : Mat NR) (Phi : Ten3 (Option CQ)) (cov : Option MpeCov) (i : Nat) :
    ∀ (us : List Rat) (acc acc' : MpeAcc), pickLoop agg Xi Phi cov i us acc = .ok acc' →
      (∀ f ∈ us, ∃ r, nanargminAbs (fun r => agg.e r i) agg.r (some f) = some r) ∧
      acc'.fn = acc.fn ∧
      acc'.xi = acc.xi ++ (pickRows agg i us).map (fun r => Xi.e r i) ∧
      acc'.phi = acc.phi ++ (pickRows agg i us).map (fun r => ten3Row Phi r i) ∧
      acc'.fnCov = (match cov with | some c => acc.fnCov ++ (pickRows agg i us).map (fun r => c.fn.e r i) | none => acc.fnCov) ∧
      acc'.xiCov = (match cov with | some c => acc.xiCov ++ (pickRows agg i us).map (fun r => c.xi.e r i) | none => acc.xiCov) ∧
      acc'.phiCov = (match cov with | some c => acc.phiCov ++ (pickRows agg i us).map (fun r => ten3Row c.phi r i) | none => acc.phiCov) := by
  intro us
  induction us with
  | nil =>
    intro acc acc' h
    simp only [pickLoop, pure, Except.pure, Except.ok.injEq] at h
    subst h
    cases cov <;> simp [pickRows]
  | cons f rest ih =>
    intro acc acc' h
    unfold pickLoop at h
    cases hidx : nanargminAbs (fun r => agg.e r i) agg.r (some f) with
    | none => rw [hidx] at h; simp [throw, throwThe, MonadExceptOf.throw] at h
    | some index =>
      rw [hidx] at h
      obtain ⟨hall, h1, h2, h3, h4, h5, h6⟩ := ih _ acc' h
      refine ⟨?_, ?_, ?_, ?_, ?_, ?_, ?_⟩
      · intro g hg
        rcases List.mem_cons.mp hg with rfl | hg
        · exact ⟨index, hidx⟩
        · exact hall g hg
      · rw [h1]
      · rw [h2]; simp [pickRows, hidx]
      · rw [h3]; simp [pickRows, hidx]
      · rw [h4]; cases cov <;> simp [pickRows, hidx]
      · rw [h5]; cases cov <;> simp [pickRows, hidx]
      · rw [h6]; cases cov <;> simp [pickRows, hidx]

theorem allcloseL_iff (rtol : Rat) : ∀ (u freq : List Rat), u.length = freq.length →
    (allcloseL u freq rtol = true ↔ ∀ k (h1 : k < u.length) (h2 : k < freq.length),
      isclose (some u[k]) (some freq[k]) rtol = true) := by
  intro u
  induction u with
  | nil => intro freq h; simp [allcloseL]
  | cons a t ih =>
    intro freq h
    cases freq with
    | nil => simp at h
    | cons b s =>
      simp only [List.length_cons, Nat.add_right_cancel_iff] at h
      have ih' := ih s h
      simp only [allcloseL, List.zipWith_cons_cons, List.all_cons, Bool.and_eq_true, id] at ih' ⊢
      rw [ih']
      constructor
      · rintro ⟨h0, hk⟩ k h1 h2
        cases k with
        | zero => exact h0
        | succ k => exact hk k (Nat.lt_of_succ_lt_succ h1) (Nat.lt_of_succ_lt_succ h2)
      · intro hk
        refine ⟨hk 0 (Nat.zero_lt_succ _) (Nat.zero_lt_succ _), ?_⟩
        intro k h1 h2
        exact hk (k + 1) (Nat.succ_lt_succ h1) (Nat.succ_lt_succ h2)

/-! ### `np.unique` is strictly ascending; strictly ascending lists are determined by their members -/

theorem insertUniq_sorted (x : Rat) : ∀ l : List Rat, l.Pairwise (· < ·) → (insertUniq x l).Pairwise (· < ·) := by
  intro l
  induction l with
  | nil => intro _; simp [insertUniq]
  | cons y t ih =>
    intro h
    obtain ⟨hy, ht⟩ := List.pairwise_cons.mp h
    unfold insertUniq
    split
    · rename_i hxy
      refine List.pairwise_cons.mpr ⟨?_, h⟩
      intro z hz
      rcases List.mem_cons.mp hz with rfl | hz
      · exact hxy
      · exact lt_trans hxy (hy z hz)
    · split
      · exact h
      · rename_i hnlt hne
        refine List.pairwise_cons.mpr ⟨?_, ih ht⟩
        intro z hz
        rcases (mem_insertUniq x z t).mp hz with rfl | hz
        · exact lt_of_le_of_ne (not_lt.mp hnlt) (Ne.symm hne)
        · exact hy z hz

theorem uniqueSorted_sorted : ∀ l : List Rat, (uniqueSorted l).Pairwise (· < ·) := by
  intro l
  induction l with
  | nil => simp [uniqueSorted]
  | cons z t ih =>
    have : uniqueSorted (z :: t) = insertUniq z (uniqueSorted t) := rfl
    rw [this]; exact insertUniq_sorted z _ ih

theorem sorted_ext : ∀ (l1 l2 : List Rat), l1.Pairwise (· < ·) → l2.Pairwise (· < ·) →
    (∀ x, x ∈ l1 ↔ x ∈ l2) → l1 = l2 := by
  intro l1
  induction l1 with
  | nil =>
    intro l2 _ _ hm
    cases l2 with
    | nil => rfl
    | cons b t => exact absurd ((hm b).mpr List.mem_cons_self) (by simp)
  | cons a t1 ih =>
    intro l2 h1 h2 hm
    cases l2 with
    | nil => exact absurd ((hm a).mp List.mem_cons_self) (by simp)
    | cons b t2 =>
      obtain ⟨ha, ht1⟩ := List.pairwise_cons.mp h1
      obtain ⟨hb, ht2⟩ := List.pairwise_cons.mp h2
      have hab : a = b := by
        by_contra hne
        have h3 : a ∈ t2 := by
          rcases List.mem_cons.mp ((hm a).mp List.mem_cons_self) with h | h
          · exact absurd h hne
          · exact h
        have h4 : b ∈ t1 := by
          rcases List.mem_cons.mp ((hm b).mpr List.mem_cons_self) with h | h
          · exact absurd h.symm hne
          · exact h
        have := hb a h3
        have := ha b h4
        linarith
      subst hab
      congr 1
      apply ih t2 ht1 ht2
      intro x
      constructor
      · intro hx
        rcases List.mem_cons.mp ((hm x).mp (List.mem_cons_of_mem _ hx)) with h | h
        · have := ha x hx; rw [h] at this; exact absurd this (lt_irrefl _)
        · exact h
      · intro hx
        rcases List.mem_cons.mp ((hm x).mpr (List.mem_cons_of_mem _ hx)) with h | h
        · have := hb x hx; rw [h] at this; exact absurd this (lt_irrefl _)
        · exact h

/-! ### `pLSCF_mpe`, `find_min`: nothing carries the selected label -/

theorem bandSumOpen_nan (w : Rat) : ∀ (freq : List Rat) (a : Rat),
    freq.foldl (fun acc f =>
      acc + (if nanLt (none : NR) (f + w) && nanGt (none : NR) (f - w) then (none : NR).getD 0 else 0)) a = a := by
  intro freq
  induction freq with
  | nil => intro a; rfl
  | cons f rest ih => intro a; simp only [List.foldl_cons]; rw [ih]; simp [nanLt]

theorem aggOpen_none (Fn : Mat NR) (Lab : Mat Int) (lab : Int) (freq : List Rat) (w : Rat)
    (hl : ∀ r o, Lab.e r o ≠ lab) (r o : Nat) : (aggOpen Fn Lab lab freq w).e r o = none := by
  simp only [aggOpen, whereEq, hl r o, if_false]
  rw [bandSumOpen_nan]; simp

theorem uniqueNonNan_none (col : Nat → NR) (n : Nat) (h : ∀ r, col r = none) : uniqueNonNan col n = [] := by
  have : nonNan col n = [] := by
    unfold nonNan
    rw [List.filterMap_eq_nil_iff]
    intro a _; exact h a
  simp [uniqueNonNan, this, uniqueSorted]

theorem plscfWhile_allNan (aa : Mat NR) (freq : List Rat) (rtol : Rat) (hne : freq ≠ [])
    (hnan : ∀ r o, aa.e r o = none) :
    ∀ (fuel ii : Nat), 0 < fuel → ii + fuel = aa.c → plscfWhile aa freq rtol fuel ii = (aa.c - 1, []) := by
  intro fuel
  induction fuel with
  | zero => intro ii h; omega
  | succ fuel ih =>
    intro ii _ hsum
    unfold plscfWhile
    have hu : uniqueNonNan (fun r => aa.e r ii) aa.r = [] := uniqueNonNan_none _ _ (fun r => hnan r ii)
    have hlen : ¬ (([] : List Rat).length = freq.length) := by
      intro h; exact hne (List.length_eq_zero_iff.mp h.symm)
    simp only [hu, hlen, if_false]
    by_cases hlast : ii + 1 = aa.c
    · simp only [hlast, if_true]
      congr 1; omega
    · simp only [hlast, if_false, Bool.false_eq_true]
      exact ih (ii + 1) (by omega) (by omega)

end PV
