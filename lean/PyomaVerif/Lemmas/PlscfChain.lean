import PyomaVerif.Lemmas.Plscf
import PyomaVerif.Model.Poles
import PyomaVerif.Lemmas.BlockCompanion
import Mathlib.Algebra.Polynomial.Roots
import Mathlib.LinearAlgebra.Matrix.Charpoly.Coeff
import Mathlib.Algebra.Order.Field.Basic
import Mathlib.Tactic.Positivity
/-!
# Helpers for the end-to-end statements of C05 (`Props/C05E2E.lean`)

* the two reshapes that sit between `pLSCF` and `rmfd2ac` in the code
  (`A_den = alpha.reshape((-1, Nch, Nch))`, `B_num = np.moveaxis(beta, 1, 0)`);
* the exact right-matrix-fraction hypothesis in the "no division" form
  `Sy[o,:,f]·A(z_f) = B_o(z_f)` (real and imaginary parts, with the model's own powers `Xo`);
* matrix algebra for the normalisation `A_k ↦ A_k·A_c⁻¹` (determinants of the polynomial matrix);
* roots of a polynomial identity `C a · χ = X^m · d` over an extension field;
* the embedding of the recorded complex pairs `Cx K` into a field that contains `K` and `√-1`;
* multiset bookkeeping for the recorded eigenvalues.
-/
open Finset Polynomial Matrix
namespace PV.Plscf

variable {K : Type}

/-! ## glue between `pLSCF` and `rmfd2ac` -/

/-! `reshapeAd` (`alpha.reshape((-1, Nch, Nch))`) and `moveaxisBn` (`np.moveaxis(beta, 1, 0)`) are model
functions: `Model/Poles.lean`, run by the driver op `plscf_all`. -/

/-- the coefficient stack `A[k, a, b]` laid out as `pLSCF`'s `alpha` (`((n+1)·Nch) × Nch`) -/
def flatA (Nch : Nat) (A : Nat → Nat → Nat → K) (J c : Nat) : K := A (J / Nch) (J % Nch) c

/-- start of the unconstrained block of `M`: `0` for `HI` (`M[:n·Nch, :n·Nch]`), `Nch` for `LO`
    (`M[Nch:, Nch:]`). -/
def cOff (hi : Bool) (Nch : Nat) : Nat := if hi then 0 else Nch

/-- index of the constrained coefficient: `n` for `HI` (`sgn_basf = +1`), `0` for `LO`
    (`sgn_basf = -1`). -/
def cIdx (hi : Bool) (n : Nat) : Nat := if hi then n else 0

section field
variable [Field K]

/-- **The spectrum is exactly a right matrix fraction of order `n`** at the basis values:
    `Σ_{c'} Sy[o,c',f] · A(z_f)[c',c] = B_o(z_f)[c]` for every reference row `o`, line `f`, column
    `c`, with `A(z)[c',c] = Σ_{i≤n} z^i·A[i,c',c]`, `B_o(z)[c] = Σ_{i≤n} z^i·B[o,i,c]` real
    coefficients and `z_f^i = Xo Om f i` the model's (the code's) power.  Written in real and
    imaginary parts; where `A(z_f)` is invertible this is `Sy(z_f) = B(z_f)·A(z_f)⁻¹`. -/
def ExactRMFD (Nch Nref Nf n : Nat) (Om : Nat → Cx K) (Sy : Nat → Nat → Nat → Cx K)
    (A B : Nat → Nat → Nat → K) : Prop :=
  ∀ o < Nref, ∀ f < Nf, ∀ c < Nch,
    (∑ i ∈ range (n + 1), (Xo Om f i).re * B o i c
      = ∑ c' ∈ range Nch,
          ((Sy o c' f).re * ∑ i ∈ range (n + 1), (Xo Om f i).re * A i c' c
            - (Sy o c' f).im * ∑ i ∈ range (n + 1), (Xo Om f i).im * A i c' c))
    ∧ (∑ i ∈ range (n + 1), (Xo Om f i).im * B o i c
      = ∑ c' ∈ range Nch,
          ((Sy o c' f).re * ∑ i ∈ range (n + 1), (Xo Om f i).im * A i c' c
            + (Sy o c' f).im * ∑ i ∈ range (n + 1), (Xo Om f i).re * A i c' c))

omit [Field K] in
theorem flatA_blk (Nch : Nat) (A : Nat → Nat → Nat → K) (i c' c : Nat) (hc' : c' < Nch) :
    flatA Nch A (i * Nch + c') c = A i c' c := by
  unfold flatA
  rw [blk_div i hc', blk_mod i hc']

/-- the residual of the flattened stack, in the explicit form (copy of `C05_resid_is_fit`, which
    lives in `Props/C05.lean`) -/
theorem resid_flat (Nch n : Nat) (Om : Nat → Cx K) (Syo : Nat → Nat → Cx K)
    (A : Nat → Nat → Nat → K) (β : Nat → Nat → K) (f c : Nat) :
    residRe Nch n Om Syo (flatA Nch A) β f c
      = ∑ i ∈ range (n + 1), (Xo Om f i).re * β i c
        - ∑ c' ∈ range Nch,
            ((Syo c' f).re * ∑ i ∈ range (n + 1), (Xo Om f i).re * A i c' c
              - (Syo c' f).im * ∑ i ∈ range (n + 1), (Xo Om f i).im * A i c' c)
    ∧ residIm Nch n Om Syo (flatA Nch A) β f c
      = ∑ i ∈ range (n + 1), (Xo Om f i).im * β i c
        - ∑ c' ∈ range Nch,
            ((Syo c' f).re * ∑ i ∈ range (n + 1), (Xo Om f i).im * A i c' c
              + (Syo c' f).im * ∑ i ∈ range (n + 1), (Xo Om f i).re * A i c' c) := by
  constructor
  · unfold residRe
    rw [sum_blocks, sub_eq_add_neg]
    congr 1
    rw [Finset.sum_comm, ← Finset.sum_neg_distrib]
    apply Finset.sum_congr rfl
    intro c' hc'
    simp only [Finset.mul_sum, ← Finset.sum_sub_distrib, ← Finset.sum_neg_distrib]
    apply Finset.sum_congr rfl
    intro i _
    unfold Yo
    rw [blk_div i (mem_range.mp hc'), blk_mod i (mem_range.mp hc'),
      flatA_blk Nch A i c' c (mem_range.mp hc')]
    simp only [Cx.neg, Cx.mul]
    ring
  · unfold residIm
    rw [sum_blocks, sub_eq_add_neg]
    congr 1
    rw [Finset.sum_comm, ← Finset.sum_neg_distrib]
    apply Finset.sum_congr rfl
    intro c' hc'
    simp only [Finset.mul_sum, ← Finset.sum_add_distrib, ← Finset.sum_neg_distrib]
    apply Finset.sum_congr rfl
    intro i _
    unfold Yo
    rw [blk_div i (mem_range.mp hc'), blk_mod i (mem_range.mp hc'),
      flatA_blk Nch A i c' c (mem_range.mp hc')]
    simp only [Cx.neg, Cx.mul]
    ring

/-- an exact right matrix fraction has zero linearised residual -/
theorem exact_resid (Nch Nref Nf n : Nat) (Om : Nat → Cx K) (Sy : Nat → Nat → Nat → Cx K)
    (A B : Nat → Nat → Nat → K) (h : ExactRMFD Nch Nref Nf n Om Sy A B) :
    ∀ o < Nref, ∀ f < Nf, ∀ c < Nch,
      residRe Nch n Om (Sy o) (flatA Nch A) (B o) f c = 0
        ∧ residIm Nch n Om (Sy o) (flatA Nch A) (B o) f c = 0 := by
  intro o ho f hf c hc
  obtain ⟨h1, h2⟩ := h o ho f hf c hc
  obtain ⟨r1, r2⟩ := resid_flat Nch n Om (Sy o) A (B o) f c
  exact ⟨by rw [r1, h1, sub_self], by rw [r2, h2, sub_self]⟩


/-! ## orders above the true one: zero-padding and the shift `A(z) ↦ z·A(z)` -/
section above

/-- `A` padded with zero coefficients above degree `n` -/
def padStack (n : Nat) (A : Nat → Nat → Nat → K) : Nat → Nat → Nat → K :=
  fun k a b => if k < n + 1 then A k a b else 0
/-- the same for the numerator stack `B[o, k, c]` -/
def padStackB (n : Nat) (B : Nat → Nat → Nat → K) : Nat → Nat → Nat → K :=
  fun o k c => if k < n + 1 then B o k c else 0

/-- coefficients of `z·A(z)` -/
def shiftStack (A : Nat → Nat → Nat → K) : Nat → Nat → Nat → K :=
  fun k a b => if k = 0 then 0 else A (k - 1) a b
/-- coefficients of `z·B_o(z)` -/
def shiftStackB (B : Nat → Nat → Nat → K) : Nat → Nat → Nat → K :=
  fun o k c => if k = 0 then 0 else B o (k - 1) c

theorem sum_pad (n e : Nat) (x g : Nat → K) :
    ∑ i ∈ range (n + e + 1), x i * (if i < n + 1 then g i else 0) = ∑ i ∈ range (n + 1), x i * g i := by
  rw [← Finset.sum_subset (s₁ := range (n + 1)) (s₂ := range (n + e + 1))]
  · apply Finset.sum_congr rfl
    intro i hi
    rw [if_pos (mem_range.mp hi)]
  · intro i hi
    rw [mem_range] at hi ⊢
    omega
  · intro i _ hi
    rw [mem_range] at hi
    rw [if_neg hi, mul_zero]

/-- an exact fraction of order `n` is an exact fraction of every order `n + e` (zero padding) -/
theorem exact_pad (Nch Nref Nf n e : Nat) (Om : Nat → Cx K) (Sy : Nat → Nat → Nat → Cx K)
    (A B : Nat → Nat → Nat → K) (h : ExactRMFD Nch Nref Nf n Om Sy A B) :
    ExactRMFD Nch Nref Nf (n + e) Om Sy (padStack n A) (padStackB n B) := by
  intro o ho f hf c hc
  obtain ⟨h1, h2⟩ := h o ho f hf c hc
  unfold padStack padStackB
  simp only [sum_pad]
  exact ⟨h1, h2⟩

/-- `Sy·A = B` implies `Sy·(z·A) = z·B`: an exact fraction of order `n` gives one of order `n+1`
    whose lowest coefficient is zero -/
theorem exact_shift (Nch Nref Nf n : Nat) (Om : Nat → Cx K) (Sy : Nat → Nat → Nat → Cx K)
    (A B : Nat → Nat → Nat → K) (h : ExactRMFD Nch Nref Nf n Om Sy A B) :
    ExactRMFD Nch Nref Nf (n + 1) Om Sy (shiftStack A) (shiftStackB B) := by
  intro o ho f hf c hc
  obtain ⟨h1, h2⟩ := h o ho f hf c hc
  unfold shiftStack shiftStackB
  simp only [Finset.sum_range_succ' _ (n + 1), ↓reduceIte, mul_zero, add_zero, Nat.add_one_ne_zero,
    Nat.add_sub_cancel]
  have hre : ∀ i, (Xo Om f (i + 1)).re = (Xo Om f i).re * (Om f).re - (Xo Om f i).im * (Om f).im := by
    intro i; rfl
  have him : ∀ i, (Xo Om f (i + 1)).im = (Xo Om f i).re * (Om f).im + (Xo Om f i).im * (Om f).re := by
    intro i; rfl
  simp only [hre, him, sub_mul, add_mul, Finset.sum_sub_distrib, Finset.sum_add_distrib]
  have e1 : ∀ (u : Nat → K) (w : Nat → K) (z : K),
      ∑ i ∈ range (n + 1), u i * z * w i = z * ∑ i ∈ range (n + 1), u i * w i := by
    intro u w z
    rw [Finset.mul_sum]
    apply Finset.sum_congr rfl
    intro i _; ring
  simp only [e1]
  constructor
  · rw [h1, h2, Finset.mul_sum, Finset.mul_sum, ← Finset.sum_sub_distrib, ← Finset.sum_sub_distrib]
    apply Finset.sum_congr rfl
    intro c' _; ring
  · rw [h1, h2, Finset.mul_sum, Finset.mul_sum, ← Finset.sum_add_distrib, ← Finset.sum_add_distrib]
    apply Finset.sum_congr rfl
    intro c' _; ring

end above

/-! ## the normalisation `A_k ↦ A_k·G` in matrix form -/

open PV.BlockCompanion

/-- the `m × m` Mathlib matrix of `G` -/
def gMx (m : Nat) (G : Nat → Nat → K) : Matrix (Fin m) (Fin m) K := Matrix.of fun a b => G a.1 b.1

theorem blkMx_mul_right (m : Nat) (Ad A : Nat → Nat → Nat → K) (G : Nat → Nat → K) (k : Nat)
    (h : ∀ a < m, ∀ b < m, Ad k a b = ∑ t ∈ range m, A k a t * G t b) :
    blkMx m Ad k = blkMx m A k * gMx m G := by
  ext a b
  rw [Matrix.mul_apply]
  simp only [blkMx, gMx, of_apply]
  rw [h a a.2 b b.2, Finset.sum_range]

theorem polyMx_mul_right (p m : Nat) (Ad A : Nat → Nat → Nat → K) (G : Nat → Nat → K)
    (h : ∀ k < p + 1, ∀ a < m, ∀ b < m, Ad k a b = ∑ t ∈ range m, A k a t * G t b) :
    polyMx p m Ad = polyMx p m A * (gMx m G).map C := by
  unfold polyMx
  rw [Finset.sum_mul]
  apply Finset.sum_congr rfl
  intro k hk
  rw [blkMx_mul_right m Ad A G k (h k (mem_range.mp hk)), Matrix.map_mul, Matrix.smul_mul]

theorem det_polyMx_mul_right (p m : Nat) (Ad A : Nat → Nat → Nat → K) (G : Nat → Nat → K)
    (h : ∀ k < p + 1, ∀ a < m, ∀ b < m, Ad k a b = ∑ t ∈ range m, A k a t * G t b) :
    (polyMx p m Ad).det = (polyMx p m A).det * C (gMx m G).det := by
  rw [polyMx_mul_right p m Ad A G h, Matrix.det_mul]
  congr 1
  exact (RingHom.map_det C (gMx m G)).symm

/-- `A_c · G = 1` in matrix form -/
theorem blkMx_mul_gMx_one (m : Nat) (A : Nat → Nat → Nat → K) (G : Nat → Nat → K) (c : Nat)
    (hG : ∀ a < m, ∀ b < m, ∑ t ∈ range m, A c a t * G t b = if a = b then 1 else 0) :
    blkMx m A c * gMx m G = 1 := by
  ext a b
  rw [Matrix.mul_apply]
  simp only [blkMx, gMx, of_apply]
  rw [← Finset.sum_range (fun t => A c a.1 t * G t b.1), hG a a.2 b b.2, Matrix.one_apply]
  simp only [Fin.ext_iff]

theorem evalMx_zero (p m : Nat) (A : Nat → Nat → Nat → K) : evalMx p m A 0 = blkMx m A 0 := by
  unfold evalMx
  rw [Finset.sum_range_succ', Finset.sum_eq_zero]
  · simp
  · intro k _; simp

/-! ## roots of `C a · χ = X^m · d` over an extension field -/

theorem roots_of_scaled {L : Type} [Field L] (f : K →+* L) (a : K) (ha : a ≠ 0) (m : Nat)
    (χ d : K[X]) (hχ : χ ≠ 0) (h : C a * χ = (X : K[X]) ^ m * d) :
    d ≠ 0 ∧ (χ.map f).roots = Multiset.replicate m 0 + (d.map f).roots := by
  have hd : d ≠ 0 := by
    rintro rfl
    rw [mul_zero] at h
    exact (mul_ne_zero (C_ne_zero.mpr ha) hχ) h
  refine ⟨hd, ?_⟩
  have hfa : f a ≠ 0 := (map_ne_zero f).mpr ha
  have hdm : d.map f ≠ 0 := (Polynomial.map_ne_zero_iff f.injective).mpr hd
  have h2 := congrArg (Polynomial.map f) h
  rw [Polynomial.map_mul, Polynomial.map_mul, Polynomial.map_C, Polynomial.map_pow,
    Polynomial.map_X] at h2
  have h3 := congrArg Polynomial.roots h2
  rw [roots_C_mul _ hfa, roots_mul (mul_ne_zero (pow_ne_zero m X_ne_zero) hdm), roots_X_pow,
    Multiset.nsmul_singleton] at h3
  exact h3

theorem natDegree_of_scaled (a : K) (ha : a ≠ 0) (m N : Nat) (χ d : K[X]) (hχ : χ.Monic)
    (hN : χ.natDegree = m + N) (h : C a * χ = (X : K[X]) ^ m * d) : d.natDegree = N := by
  have hd : d ≠ 0 := by
    rintro rfl
    rw [mul_zero] at h
    exact (mul_ne_zero (C_ne_zero.mpr ha) hχ.ne_zero) h
  have h1 := congrArg Polynomial.natDegree h
  rw [natDegree_C_mul ha, (monic_X_pow m).natDegree_mul' hd, natDegree_X_pow, hN] at h1
  omega

end field

/-! ## recorded complex pairs inside a field with `√-1` -/
section emb
variable [Field K] [LinearOrder K] [IsStrictOrderedRing K] {L : Type} [Field L]

/-- the recorded pair `(re, im)` as an element of a field `L ⊇ K` with `I² = -1` -/
def emb (f : K →+* L) (I : L) (z : Cx K) : L := f z.re + I * f z.im

theorem emb_eq_zero (f : K →+* L) (I : L) (hI : I * I = -1) (z : Cx K) :
    emb f I z = 0 ↔ (z.re = 0 ∧ z.im = 0) := by
  constructor
  · intro h
    unfold emb at h
    have h2 : f (z.re * z.re + z.im * z.im) = 0 := by
      have : (f z.re + I * f z.im) * (f z.re - I * f z.im) = f (z.re * z.re + z.im * z.im) := by
        rw [map_add, map_mul, map_mul]
        have : (f z.re + I * f z.im) * (f z.re - I * f z.im)
            = f z.re * f z.re - (I * I) * (f z.im * f z.im) := by ring
        rw [this, hI]; ring
      rw [← this, h, zero_mul]
    have h3 : z.re * z.re + z.im * z.im = 0 := (map_eq_zero f).mp h2
    have hr : z.re * z.re ≥ 0 := mul_self_nonneg _
    have hm : z.im * z.im ≥ 0 := mul_self_nonneg _
    have hr0 : z.re * z.re = 0 := by linarith
    have hm0 : z.im * z.im = 0 := by linarith
    exact ⟨mul_self_eq_zero.mp hr0, mul_self_eq_zero.mp hm0⟩
  · rintro ⟨h1, h2⟩
    unfold emb
    rw [h1, h2]; simp

end emb

/-! ## multiset bookkeeping for the recorded eigenvalues -/
section record
variable {L : Type} [Field L] [DecidableEq L] {E : Type}

/-- if the recorded values are `m` zeros and the roots `R`, the non-zero records are exactly the
    non-zero roots, with multiplicity -/
theorem nonzero_records (g : E → L) (eigs : List E) (m : Nat) (R : Multiset L)
    (p : E → Bool) (hp : ∀ e, p e = true ↔ g e ≠ 0)
    (h : Multiset.map g (eigs : Multiset E) = Multiset.replicate m 0 + R) :
    Multiset.map g ((eigs.filter p : List E) : Multiset E) = R.filter (· ≠ 0) := by
  have h1 := congrArg (Multiset.filter (· ≠ 0)) h
  rw [Multiset.filter_add, Multiset.filter_map] at h1
  have hz : Multiset.filter (· ≠ 0) (Multiset.replicate m (0 : L)) = 0 := by
    rw [Multiset.filter_eq_nil]
    intro a ha
    rw [Multiset.eq_of_mem_replicate ha]
    simp
  rw [hz, zero_add] at h1
  have hf : eigs.filter p = eigs.filter (fun e => decide (g e ≠ 0)) := by
    apply List.filter_congr
    intro e _
    rw [Bool.eq_iff_iff, hp e]; simp
  rw [← h1, hf, ← Multiset.filter_coe]
  rfl

/-- … and the zero records are the `m` extra zeros plus the zero roots -/
theorem zero_records (g : E → L) (eigs : List E) (m : Nat) (R : Multiset L)
    (p : E → Bool) (hp : ∀ e, p e = true ↔ g e = 0)
    (h : Multiset.map g (eigs : Multiset E) = Multiset.replicate m 0 + R) :
    (eigs.filter p).length = m + R.count 0 := by
  have h1 := congrArg (Multiset.count 0) h
  rw [Multiset.count_add, Multiset.count_replicate_self] at h1
  rw [← h1, Multiset.count, Multiset.countP_map]
  have hf : eigs.filter p = eigs.filter (fun e => decide (0 = g e)) := by
    apply List.filter_congr
    intro e _
    rw [Bool.eq_iff_iff, hp e]; simp [eq_comm]
  rw [hf, ← Multiset.coe_card, ← Multiset.filter_coe]

end record


/-! ## `np.argmax(abs(v))` and the unity normalisation of `ac2mp_poly` -/
section argmax
variable [Field K] [LinearOrder K] [IsStrictOrderedRing K]

theorem normSq_nonneg (z : Cx K) : 0 ≤ Cx.normSq z := by
  unfold Cx.normSq
  have h1 : 0 ≤ z.re * z.re := mul_self_nonneg _
  have h2 : 0 ≤ z.im * z.im := mul_self_nonneg _
  linarith

theorem normSq_eq_zero (z : Cx K) : Cx.normSq z = 0 ↔ (z.re = 0 ∧ z.im = 0) := by
  unfold Cx.normSq
  constructor
  · intro h
    have h1 : 0 ≤ z.re * z.re := mul_self_nonneg _
    have h2 : 0 ≤ z.im * z.im := mul_self_nonneg _
    have hr0 : z.re * z.re = 0 := by linarith
    have hm0 : z.im * z.im = 0 := by linarith
    exact ⟨mul_self_eq_zero.mp hr0, mul_self_eq_zero.mp hm0⟩
  · rintro ⟨h1, h2⟩; rw [h1, h2]; simp

omit [IsStrictOrderedRing K] in
theorem argmaxAbs_go_spec : ∀ (rest pre : List (Cx K)) (best : Nat) (bestv : K),
    best < pre.length → Cx.normSq (pre.getD best ⟨0, 0⟩) = bestv →
    (∀ y ∈ pre, Cx.normSq y ≤ bestv) →
    ∀ y ∈ pre ++ rest,
      Cx.normSq y ≤ Cx.normSq ((pre ++ rest).getD (argmaxAbs.go rest pre.length best bestv) ⟨0, 0⟩) := by
  intro rest
  induction rest with
  | nil =>
    intro pre best bestv _ hbv hmax y hy
    simp only [List.append_nil] at hy ⊢
    unfold argmaxAbs.go
    rw [hbv]
    exact hmax y hy
  | cons x xs ih =>
    intro pre best bestv hb hbv hmax y hy
    have happ : pre ++ x :: xs = (pre ++ [x]) ++ xs := by simp
    have hlen : (pre ++ [x]).length = pre.length + 1 := by simp
    unfold argmaxAbs.go
    by_cases hlt : bestv < Cx.normSq x
    · rw [if_pos hlt, happ, ← hlen]
      rw [happ] at hy
      refine ih (pre ++ [x]) pre.length (Cx.normSq x) (by simp) ?_ ?_ y hy
      · simp
      · intro y hy
        rcases List.mem_append.mp hy with h | h
        · exact le_trans (hmax y h) (le_of_lt hlt)
        · rw [List.mem_singleton.mp h]
    · rw [if_neg hlt, happ, ← hlen]
      rw [happ] at hy
      refine ih (pre ++ [x]) best bestv (by simp; omega) ?_ ?_ y hy
      · rw [← hbv, List.getD_eq_getElem?_getD, List.getD_eq_getElem?_getD, List.getElem?_append_left hb]
      · intro y hy
        rcases List.mem_append.mp hy with h | h
        · exact hmax y h
        · rw [List.mem_singleton.mp h]; exact not_lt.mp hlt

omit [IsStrictOrderedRing K] in
/-- the component `np.argmax(abs(v))` selects has the largest modulus -/
theorem argmaxAbs_spec (v : List (Cx K)) :
    ∀ y ∈ v, Cx.normSq y ≤ Cx.normSq (v.getD (argmaxAbs v) ⟨0, 0⟩) := by
  cases v with
  | nil => intro y hy; simp at hy
  | cons x xs =>
    intro y hy
    unfold argmaxAbs
    exact argmaxAbs_go_spec xs [x] 0 (Cx.normSq x) (by simp) (by simp) (by simp) y (by simpa using hy)

/-- the pivot of the unity normalisation is zero iff the whole vector is -/
theorem pivot_zero_iff (v : List (Cx K)) :
    ((v.getD (argmaxAbs v) ⟨0, 0⟩).re = 0 ∧ (v.getD (argmaxAbs v) ⟨0, 0⟩).im = 0)
      ↔ ∀ y ∈ v, y.re = 0 ∧ y.im = 0 := by
  constructor
  · intro h y hy
    have h1 := argmaxAbs_spec v y hy
    rw [(normSq_eq_zero _).mpr h] at h1
    exact (normSq_eq_zero y).mp (le_antisymm h1 (normSq_nonneg y))
  · intro h
    rw [List.getD_eq_getElem?_getD]
    cases hk : v[argmaxAbs v]? with
    | none => exact ⟨rfl, rfl⟩
    | some x => exact h x (List.mem_of_getElem? hk)

/-- **Mode-shape cell**: NaN iff the column was blanked or the output `C·q` is the zero vector. -/
theorem phiCell_eq_none_iff (C : Mat K) (lambd : Option (Cx K)) (q : List (Cx K)) :
    phiCell C lambd q = none
      ↔ (blanked lambd = true ∨ ∀ y ∈ phiRaw C q, y.re = 0 ∧ y.im = 0) := by
  unfold phiCell
  by_cases hb : blanked lambd = true
  · simp [hb]
  · simp only [hb, Bool.false_eq_true, if_false, false_or]
    rw [← pivot_zero_iff]
    simp

end argmax

/-! ## small utilities for the concrete instances -/

theorem some_getD_of_isSome {α : Type} (o : Option α) (d : α) (h : o.isSome = true) :
    o = some (o.getD d) := by
  cases o with
  | none => simp at h
  | some x => rfl

/-- a left inverse on the index range gives injectivity in the form the uniqueness theorems use -/
theorem inj_of_leftInv [Field K] (d : Nat) (M Li : Nat → Nat → K)
    (h : ∀ i < d, ∀ j < d, ∑ t ∈ range d, Li i t * M t j = if i = j then 1 else 0)
    (y : Nat → K) (hy : ∀ I < d, ∑ J ∈ range d, M I J * y J = 0) : ∀ J < d, y J = 0 := by
  intro J hJ
  have : ∑ t ∈ range d, Li J t * ∑ j ∈ range d, M t j * y j = 0 := by
    apply Finset.sum_eq_zero
    intro t ht
    rw [hy t (mem_range.mp ht), mul_zero]
  simp only [Finset.mul_sum] at this
  rw [Finset.sum_comm] at this
  have h2 : ∀ j ∈ range d, ∑ t ∈ range d, Li J t * (M t j * y j) = (if J = j then 1 else 0) * y j := by
    intro j hj
    rw [← h J hJ j (mem_range.mp hj), Finset.sum_mul]
    apply Finset.sum_congr rfl
    intro t _; ring
  rw [Finset.sum_congr rfl h2] at this
  simpa [Finset.sum_ite_eq, hJ] using this

end PV.Plscf
