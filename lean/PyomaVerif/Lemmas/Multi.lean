import PyomaVerif.Model.Multi
import Mathlib.Data.List.Basic
/-! index lemma for `flatMap` over a range of fixed-width blocks -/
namespace PV.Multi

theorem flatMap_range_length {α} (br w : Nat) (f : Nat → Nat → α) :
    ((List.range br).flatMap fun b => (List.range w).map (f b)).length = br * w := by
  induction br with
  | zero => simp
  | succ k ih =>
    rw [List.range_succ, List.flatMap_append, List.length_append, ih]
    simp [Nat.succ_mul]

theorem flatMap_range_get {α} (br w : Nat) (f : Nat → Nat → α) (b j : Nat) (hb : b < br) (hj : j < w) :
    ((List.range br).flatMap fun b => (List.range w).map (f b))[b * w + j]? = some (f b j) := by
  induction br with
  | zero => omega
  | succ k ih =>
    rw [List.range_succ, List.flatMap_append]
    by_cases hbk : b < k
    · have hlt : b * w + j < k * w := by
        calc b * w + j < b * w + w := by omega
          _ = (b + 1) * w := by rw [Nat.succ_mul]
          _ ≤ k * w := Nat.mul_le_mul_right w hbk
      rw [List.getElem?_append_left (by rw [flatMap_range_length]; exact hlt)]
      exact ih hbk
    · have hbe : b = k := by omega
      subst hbe
      rw [List.getElem?_append_right (by rw [flatMap_range_length]; omega), flatMap_range_length]
      simp [hj]

end PV.Multi

namespace PV.Multi

theorem flatMap_blocks_length {α} (br w : Nat) (blk : Nat → List α) (hlen : ∀ b, (blk b).length = w) :
    ((List.range br).flatMap blk).length = br * w := by
  induction br with
  | zero => simp
  | succ k ih =>
    rw [List.range_succ, List.flatMap_append, List.length_append, ih]
    simp [hlen, Nat.succ_mul]

/-- indexing into a concatenation of `br` blocks of equal length `w` -/
theorem flatMap_blocks_get {α} (br w : Nat) (blk : Nat → List α) (hlen : ∀ b, (blk b).length = w)
    (b s : Nat) (hb : b < br) (hs : s < w) :
    ((List.range br).flatMap blk)[b * w + s]? = (blk b)[s]? := by
  induction br with
  | zero => omega
  | succ k ih =>
    rw [List.range_succ, List.flatMap_append]
    by_cases hbk : b < k
    · have hlt : b * w + s < k * w := by
        calc b * w + s < b * w + w := by omega
          _ = (b + 1) * w := by rw [Nat.succ_mul]
          _ ≤ k * w := Nat.mul_le_mul_right w hbk
      rw [List.getElem?_append_left (by rw [flatMap_blocks_length _ _ _ hlen]; exact hlt)]
      exact ih hbk
    · have hbe : b = k := by omega
      subst hbe
      rw [List.getElem?_append_right (by rw [flatMap_blocks_length _ _ _ hlen]; omega),
        flatMap_blocks_length _ _ _ hlen]
      simp

/-- one block row of the global observability matrix -/
def blockRow (nref : Nat) (nmov : List Nat) (ii : Nat) : List RowSrc :=
  ((List.range nref).map fun k => RowSrc.ref (ii * nref + k)) ++ movBlocks ii 0 nmov

theorem movBlocks_length (ii jj : Nat) (l : List Nat) : (movBlocks ii jj l).length = l.sum := by
  induction l generalizing jj with
  | nil => simp [movBlocks]
  | cons x xs ih => simp [movBlocks, ih]

theorem blockRow_length (nref : Nat) (nmov : List Nat) (ii : Nat) :
    (blockRow nref nmov ii).length = nref + nmov.sum := by
  simp [blockRow, movBlocks_length]

theorem allRows_eq (br nref : Nat) (nmov : List Nat) :
    allRows br nref nmov = (List.range br).flatMap (blockRow nref nmov) := rfl

/-- every roving offset `t < Σ nmov` is `(Σ_{j<jj} nmov_j) + k` for exactly the setup `jj` it falls into -/
theorem roving_cover : ∀ (nmov : List Nat) (t : Nat), t < nmov.sum →
    ∃ jj nm k, nmov[jj]? = some nm ∧ k < nm ∧ t = (nmov.take jj).sum + k := by
  intro nmov
  induction nmov with
  | nil => intro t ht; simp at ht
  | cons x xs ih =>
    intro t ht
    by_cases hx : t < x
    · exact ⟨0, x, t, by simp, hx, by simp⟩
    · have : t - x < xs.sum := by simp at ht; omega
      obtain ⟨jj, nm, k, h1, h2, h3⟩ := ih (t - x) this
      exact ⟨jj + 1, nm, k, by simpa using h1, h2, by simp [List.take_succ_cons]; omega⟩

end PV.Multi
