import PyomaVerif.Model.Multi
import Mathlib.Data.List.Basic
/-! index lemma for `flatMap` over a range of fixed-width blocks -/
namespace PV.Multi

theorem flatMap_range_length {α} (br w : Nat) (f : Nat → Nat → α) :
    ((List.range br).flatMap fun b => (List.range w).map (f b)).length = br * w := by
  induction br with
  | zero => simp
  | succ k ih =>
    rw [List.range_succ, List.flatMap_append, List.length_append, ih]
    simp [Nat.succ_mul]

theorem flatMap_range_get {α} (br w : Nat) (f : Nat → Nat → α) (b j : Nat) (hb : b < br) (hj : j < w) :
    ((List.range br).flatMap fun b => (List.range w).map (f b))[b * w + j]? = some (f b j) := by
  induction br with
  | zero => omega
  | succ k ih =>
    rw [List.range_succ, List.flatMap_append]
    by_cases hbk : b < k
    · have hlt : b * w + j < k * w := by
        calc b * w + j < b * w + w := by omega
          _ = (b + 1) * w := by rw [Nat.succ_mul]
          _ ≤ k * w := Nat.mul_le_mul_right w hbk
      rw [List.getElem?_append_left (by rw [flatMap_range_length]; exact hlt)]
      exact ih hbk
    · have hbe : b = k := by omega
      subst hbe
      rw [List.getElem?_append_right (by rw [flatMap_range_length]; omega), flatMap_range_length]
      simp [hj]

end PV.Multi
