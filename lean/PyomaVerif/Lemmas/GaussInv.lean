import PyomaVerif.Lemmas.GaussComplete
import PyomaVerif.Lemmas.PreGER
/-!
# `gaussInv` (the driver's exact stand-in for `np.linalg.inv`) verified as written

`Model/PreGER.lean::gaussInv` is an imperative Gauss–Jordan elimination on the augmented array
`[G | 1]`.  It is verified with `Std.Do` / `mvcgen` along the lines of
`Lemmas/GaussComplete.lean` (same loop structure), with the invariants

* `RowComb`: the whole working array is `E·[G | 1]` for some `E` (so its right half is `E`),
* `UnitCols`: the columns left of the current pivot column are unit vectors,
* `InjL`: the left half is injective, provided `G` has a left inverse (row operations keep
  injectivity) — this gives completeness: the pivot search cannot fail on an invertible `G`.
-/
open Finset Std.Do
namespace PV
open PV.Plscf

variable {K : Type}

/-- `gaussInv` for a square matrix given by size and entries (the same `do` block with the
    size as a parameter; `gaussInv_eq` below is `rfl`). -/
def gaussCore [Zero K] [One K] [Sub K] [Mul K] [Div K] [DecidableEq K] [Inhabited K]
    (n : Nat) (e : Nat → Nat → K) : Option (Mat K) := Id.run do
  let mut A : Array (Array K) := Array.ofFn (n := n) fun i =>
    Array.ofFn (n := 2 * n) fun j =>
      if j.1 < n then e i.1 j.1 else if j.1 - n = i.1 then (1 : K) else (0 : K)
  for col in [0:n] do
    let mut piv : Option Nat := none
    for r in [col:n] do
      if piv.isNone && (A[r]!)[col]! ≠ (0 : K) then piv := some r
    match piv with
    | none => return none
    | some p =>
      let rp := A[p]!
      let rc := A[col]!
      A := (A.set! p rc).set! col rp
      let pv := rp[col]!
      let rowN := rp.map fun x => x / pv
      A := A.set! col rowN
      for r in [0:n] do
        if r ≠ col then
          let fac := (A[r]!)[col]!
          if fac ≠ (0 : K) then
            let old := A[r]!
            A := A.set! r (Array.ofFn (n := 2 * n) fun j => old[j.1]! - fac * rowN[j.1]!)
  let R := A
  return some ⟨n, n, fun i j => (R[i]!)[n + j]!⟩

theorem gaussInv_eq [Zero K] [One K] [Sub K] [Mul K] [Div K] [DecidableEq K] [Inhabited K] (G : Mat K) :
    gaussInv G = if G.r ≠ G.c then none else gaussCore G.r G.e := by
  unfold gaussInv gaussCore
  split <;> rfl

/-! ## invariants on entry functions -/
section inv
variable [Field K]

/-- the augmented matrix `[G | 1]` -/
def aug (n : Nat) (e : Nat → Nat → K) : Nat → Nat → K :=
  fun i j => if j < n then e i j else if j - n = i then 1 else 0

/-- all `w` columns are `E·M` for some `E` -/
def RowComb (n w : Nat) (M ρ : Nat → Nat → K) : Prop :=
  ∃ E : Nat → Nat → K, ∀ i < n, ∀ j < w, ρ i j = ∑ t ∈ range n, E i t * M t j

/-- the left `n × n` block is injective -/
def InjL (n : Nat) (ρ : Nat → Nat → K) : Prop :=
  ∀ z : Nat → K, (∀ i < n, ∑ j ∈ range n, ρ i j * z j = 0) → ∀ j < n, z j = 0

theorem RowComb_init (n w : Nat) (M ρ : Nat → Nat → K) (h : ∀ i < n, ∀ j < w, ρ i j = M i j) :
    RowComb n w M ρ := by
  refine ⟨fun i t => if i = t then 1 else 0, ?_⟩
  intro i hi j hj
  rw [h i hi j hj]
  simp [Finset.sum_ite_eq, hi]

theorem RowComb_swapnorm (n w : Nat) (M ρ ρ' : Nat → Nat → K) (pr col : Nat) (d : K)
    (hpr : pr < n) (hcol : col < n)
    (h' : ∀ i < n, ∀ j < w, ρ' i j = if i = col then ρ pr j / d else if i = pr then ρ col j else ρ i j)
    (h : RowComb n w M ρ) : RowComb n w M ρ' := by
  obtain ⟨E, hE⟩ := h
  refine ⟨fun i t => if i = col then E pr t / d else if i = pr then E col t else E i t, ?_⟩
  intro i hi j hj
  rw [h' i hi j hj]
  by_cases h1 : i = col
  · simp only [if_pos h1]
    rw [hE pr hpr j hj, div_eq_mul_inv, Finset.sum_mul]
    apply Finset.sum_congr rfl
    intro t _; ring
  · simp only [if_neg h1]
    by_cases h2 : i = pr
    · simp only [if_pos h2]; exact hE col hcol j hj
    · simp only [if_neg h2]; exact hE i hi j hj

theorem RowComb_elim (n w : Nat) (M ρ ρ' : Nat → Nat → K) (r col : Nat) (f : K)
    (hr : r < n) (hcol : col < n)
    (h' : ∀ i < n, ∀ j < w, ρ' i j = if i = r then ρ r j - f * ρ col j else ρ i j)
    (h : RowComb n w M ρ) : RowComb n w M ρ' := by
  obtain ⟨E, hE⟩ := h
  refine ⟨fun i t => if i = r then E r t - f * E col t else E i t, ?_⟩
  intro i hi j hj
  rw [h' i hi j hj]
  by_cases h1 : i = r
  · simp only [if_pos h1]
    rw [hE r hr j hj, hE col hcol j hj, Finset.mul_sum, ← Finset.sum_sub_distrib]
    apply Finset.sum_congr rfl
    intro t _; ring
  · simp only [if_neg h1]; exact hE i hi j hj

theorem InjL_swapnorm (n : Nat) (ρ ρ' : Nat → Nat → K) (pr col : Nat) (d : K) (hd : d ≠ 0)
    (hpr : pr < n) (hcol : col < n)
    (h' : ∀ i < n, ∀ j < n, ρ' i j = if i = col then ρ pr j / d else if i = pr then ρ col j else ρ i j)
    (h : InjL n ρ) : InjL n ρ' := by
  intro z hz
  apply h z
  have hrow : ∀ i < n, ∑ j ∈ range n, ρ' i j * z j
      = ∑ j ∈ range n, (if i = col then ρ pr j / d else if i = pr then ρ col j else ρ i j) * z j :=
    fun i hi => Finset.sum_congr rfl fun j hj => by rw [h' i hi j (mem_range.mp hj)]
  have hP : ∑ j ∈ range n, ρ pr j * z j = 0 := by
    have := hz col hcol
    rw [hrow col hcol] at this
    simp only [if_true] at this
    have e : ∑ j ∈ range n, ρ pr j / d * z j = (∑ j ∈ range n, ρ pr j * z j) * d⁻¹ := by
      rw [Finset.sum_mul]; exact Finset.sum_congr rfl fun j _ => by ring
    rw [e] at this
    exact (mul_eq_zero.mp this).resolve_right (inv_ne_zero hd)
  intro i hi
  by_cases hip : i = pr
  · rw [hip]; exact hP
  · by_cases hic : i = col
    · -- row `col` of ρ sits in row `pr` of ρ'
      have := hz pr hpr
      rw [hrow pr hpr] at this
      have hpc : ¬ pr = col := fun e => hip (hic.trans e.symm)
      simp only [if_neg hpc, if_true] at this
      rw [hic]; exact this
    · have := hz i hi
      rw [hrow i hi] at this
      simp only [if_neg hic, if_neg hip] at this
      exact this

theorem InjL_elim (n : Nat) (ρ ρ' : Nat → Nat → K) (r col : Nat) (f : K)
    (hr : r < n) (hcol : col < n) (hne : r ≠ col)
    (h' : ∀ i < n, ∀ j < n, ρ' i j = if i = r then ρ r j - f * ρ col j else ρ i j)
    (h : InjL n ρ) : InjL n ρ' := by
  intro z hz
  apply h z
  have hrow : ∀ i < n, ∑ j ∈ range n, ρ' i j * z j
      = ∑ j ∈ range n, (if i = r then ρ r j - f * ρ col j else ρ i j) * z j :=
    fun i hi => Finset.sum_congr rfl fun j hj => by rw [h' i hi j (mem_range.mp hj)]
  have hC : ∑ j ∈ range n, ρ col j * z j = 0 := by
    have := hz col hcol
    rw [hrow col hcol] at this
    simp only [if_neg (fun (e : col = r) => hne e.symm)] at this
    exact this
  intro i hi
  by_cases hir : i = r
  · have := hz r hr
    rw [hrow r hr] at this
    simp only [if_true] at this
    have e : ∑ j ∈ range n, (ρ r j - f * ρ col j) * z j
        = ∑ j ∈ range n, ρ r j * z j - f * ∑ j ∈ range n, ρ col j * z j := by
      rw [Finset.mul_sum, ← Finset.sum_sub_distrib]; exact Finset.sum_congr rfl fun j _ => by ring
    rw [e, hC, mul_zero, sub_zero] at this
    rw [hir]; exact this
  · have := hz i hi
    rw [hrow i hi] at this
    simp only [if_neg hir] at this
    exact this

/-- a failed pivot search contradicts injectivity: column `col` is a combination of the unit
    columns on its left -/
theorem pivot_fail_contra (n col : Nat) (ρ : Nat → Nat → K) (hcol : col < n)
    (hU : UnitCols n col ρ) (hz : ∀ i, col ≤ i → i < n → ρ i col = 0) (hinj : InjL n ρ) : False := by
  let z : Nat → K := fun j => if j = col then 1 else if j < col then -ρ j col else 0
  have hzero : ∀ i < n, ∑ j ∈ range n, ρ i j * z j = 0 := by
    intro i hi
    have hsplit : ∀ j ∈ range n, ρ i j * z j
        = (if j = col then ρ i col else 0) + (if j = i then (if i < col then -ρ i col else 0) else 0) := by
      intro j hj
      simp only [z]
      by_cases h1 : j = col
      · subst h1
        have : ¬ (j = i ∧ i < j) := fun h => by omega
        by_cases h2 : j = i
        · subst h2; simp
        · simp [h2]
      · by_cases h2 : j < col
        · rw [if_neg h1, if_pos h2, if_neg h1, zero_add, hU j h2 i hi]
          by_cases h3 : i = j
          · subst h3; simp [h2]
          · have : ¬ j = i := fun e => h3 e.symm
            simp [h3, this]
        · rw [if_neg h1, if_neg h2, if_neg h1, mul_zero, zero_add]
          by_cases h3 : j = i
          · subst h3
            have : ¬ j < col := h2
            simp [this]
          · simp [h3]
    rw [Finset.sum_congr rfl hsplit, Finset.sum_add_distrib, Finset.sum_ite_eq', Finset.sum_ite_eq',
      if_pos (mem_range.mpr hcol), if_pos (mem_range.mpr hi)]
    by_cases h : i < col
    · rw [if_pos h]; ring
    · rw [if_neg h, add_zero]; exact hz i (by omega) hi
  have := hinj z hzero col hcol
  simp only [z, if_true] at this
  exact one_ne_zero this

/-- all `n` columns unit and the array `E·[G | 1]`: the right half is a left inverse of `G` -/
theorem leftInv_of_aug (n : Nat) (e ρ : Nat → Nat → K) (h1 : RowComb n (2 * n) (aug n e) ρ)
    (h2 : UnitCols n n ρ) :
    ∀ i < n, ∀ j < n, ∑ t ∈ range n, ρ i (n + t) * e t j = if i = j then 1 else 0 := by
  obtain ⟨E, hE⟩ := h1
  have hR : ∀ i < n, ∀ t < n, ρ i (n + t) = E i t := by
    intro i hi t ht
    rw [hE i hi (n + t) (by omega)]
    have : ∀ s ∈ range n, E i s * aug n e s (n + t) = if s = t then E i t else 0 := by
      intro s _
      simp only [aug]
      rw [if_neg (by omega), Nat.add_sub_cancel_left]
      by_cases hst : t = s
      · subst hst; simp
      · have : ¬ s = t := fun h => hst h.symm
        simp [hst, this]
    rw [Finset.sum_congr rfl this, Finset.sum_ite_eq', if_pos (mem_range.mpr ht)]
  intro i hi j hj
  rw [← h2 j hj i hi, hE i hi j (by omega)]
  apply Finset.sum_congr rfl
  intro t ht
  rw [hR i hi t (mem_range.mp ht)]
  simp only [aug, if_pos hj]

end inv

theorem legacy_mem' {a n i : Nat} (h1 : a ≤ i) (h2 : i < n) : i ∈ ([a:n] : Std.Legacy.Range).toList := by
  unfold Std.Legacy.Range.toList
  simp [List.mem_range']
  refine ⟨i - a, by omega, by omega⟩

theorem sized_init_aug [Zero K] [One K] [Inhabited K] (n : Nat) (e : Nat → Nat → K) :
    Sized n (2 * n) (Array.ofFn (n := n) fun i => Array.ofFn (n := 2 * n) fun j =>
      if j.1 < n then e i.1 j.1 else if j.1 - n = i.1 then (1 : K) else (0 : K))
    ∧ ∀ i < n, ∀ j < 2 * n, R (Array.ofFn (n := n) fun i => Array.ofFn (n := 2 * n) fun j =>
      if j.1 < n then e i.1 j.1 else if j.1 - n = i.1 then (1 : K) else (0 : K)) i j
        = if j < n then e i j else if j - n = i then 1 else 0 := by
  refine ⟨⟨by simp, ?_⟩, ?_⟩
  · intro i hi
    rw [get_ofFn! n _ i hi]; simp
  · intro i hi j hj
    unfold R
    rw [get_ofFn! n _ i hi, get_ofFn! (2 * n) _ j hj]

/-! ## the elimination, verified as written -/
section main
variable [Field K] [DecidableEq K] [Inhabited K]

/-- what `gaussCore n e` promises: a returned matrix is `n × n` and a left inverse of `e` on the
    `n × n` range; if `e` has a left inverse there, a matrix is returned. -/
def CorePost (n : Nat) (e : Nat → Nat → K) (r : Option (Mat K)) : Prop :=
  (∀ W, r = some W → W.r = n ∧ W.c = n ∧
      ∀ i < n, ∀ j < n, ∑ t ∈ range n, W.e i t * e t j = if i = j then 1 else 0)
  ∧ ((∃ L : Nat → Nat → K, ∀ i < n, ∀ j < n, ∑ t ∈ range n, L i t * e t j = if i = j then 1 else 0)
      → r ≠ none)

set_option mvcgen.warning false in
theorem gaussCore_post (n : Nat) (e : Nat → Nat → K) : CorePost n e (gaussCore n e) := by
  generalize hr : gaussCore n e = r
  unfold gaussCore at hr
  apply Id.of_wp_run_eq hr
  clear hr
  mvcgen
  case inv1 =>
    exact ⇓⟨xs, b⟩ => ⌜(b.1 = some none ∧ xs.suffix = [] ∧
        ¬ ∃ L : Nat → Nat → K, ∀ i < n, ∀ j < n, ∑ t ∈ range n, L i t * e t j = if i = j then 1 else 0)
      ∨ (b.1 = none ∧ Sized n (2 * n) b.2 ∧ RowComb n (2 * n) (aug n e) (R b.2)
        ∧ UnitCols n xs.prefix.length (R b.2)
        ∧ ((∃ L : Nat → Nat → K, ∀ i < n, ∀ j < n, ∑ t ∈ range n, L i t * e t j = if i = j then 1 else 0)
            → InjL n (R b.2)))⌝
  case inv2 =>
    rename_i pref cur suff hsplit b rws piv hinv
    exact ⇓⟨xs, piv⟩ => ⌜(∀ pr, piv = some pr → cur ≤ pr ∧ pr < n ∧ R b.2 pr cur ≠ 0)
      ∧ (piv = none → ∀ i ∈ xs.prefix, R b.2 i cur = 0)⌝
  case inv3 =>
    rename_i pref cur suff hsplit b rws0 piv0 hinv r0 pr hr0 rowP rowC rws1 d rowN rws2 hpiv
    exact ⇓⟨xs, rws⟩ => ⌜Sized n (2 * n) rws ∧ RowComb n (2 * n) (aug n e) (R rws) ∧ UnitCols n cur (R rws)
      ∧ (∀ j < 2 * n, R rws cur j = rowN[j]!) ∧ R rws cur cur = 1
      ∧ (∀ i < n, i ∈ xs.prefix → i ≠ cur → R rws i cur = 0)
      ∧ ((∃ L : Nat → Nat → K, ∀ i < n, ∀ j < n, ∑ t ∈ range n, L i t * e t j = if i = j then 1 else 0)
            → InjL n (R rws))⌝
  case vc1 =>
    rename_i pref cur suff hsplit b rws piv hinv pref' cur' suff' hsplit' piv' hcond hinv'
    obtain ⟨hc1, hc2⟩ := legacy_split hsplit'
    simp only [Bool.and_eq_true, decide_eq_true_eq] at hcond
    refine ⟨?_, fun h => absurd h (by simp)⟩
    intro pr hpr
    injection hpr with hpr
    subst hpr
    exact ⟨by omega, hc2, hcond.2⟩
  case vc2 =>
    rename_i pref cur suff hsplit b rws piv hinv pref' cur' suff' hsplit' piv' hcond hinv'
    refine ⟨hinv'.1, ?_⟩
    intro hnone i hmem
    rcases List.mem_append.mp hmem with hm | hm
    · exact hinv'.2 hnone i hm
    · rw [List.mem_singleton.mp hm]
      subst hnone
      simp only [Option.isNone_none, Bool.true_and, decide_eq_true_eq, not_not] at hcond
      exact hcond
  case vc3 =>
    exact ⟨fun pr hpr => absurd hpr (by simp), fun _ i hi => absurd hi (by simp)⟩
  case vc4 =>
    rename_i pref cur suff hsplit b rws0 piv0 hinv r0 hr0 hpiv
    left
    refine ⟨rfl, rfl, ?_⟩
    intro hL
    have hcur : cur < n := (legacy_split hsplit).2
    have hlen : pref.length = cur := by have := (legacy_split hsplit).1; omega
    rcases hinv with ⟨-, hbad, -⟩ | ⟨-, hS, hL', hU, hI⟩
    · exact absurd hbad (by simp)
    rw [hlen] at hU
    exact pivot_fail_contra n cur (R b.2) hcur hU
      (fun i h1 h2 => hpiv.2 rfl i (legacy_mem' h1 h2)) (hI hL)
  case vc5 =>
    rename_i pref cur suff hsplit b rws0 piv0 hinv r0 pr hr0 rowP rowC rws1 d rowN rws2 hpiv
      pref' cur' suff' hsplit' b' hne f hf hinv'
    obtain ⟨hS, hL, hU, hN, h1, hZ, hI⟩ := hinv'
    have hcur : cur < n := (legacy_split hsplit).2
    have hcur' : cur' < n := (legacy_split hsplit').2
    obtain ⟨hS', hR'⟩ := elimrow n (2 * n) b' cur'
      (fun j => (b'[cur']!)[j.1]! - f * rowN[j.1]!) hS hcur'
    have hR'' : ∀ i < n, ∀ j < 2 * n,
        R (b'.set! cur' (Array.ofFn fun j : Fin (2 * n) => (b'[cur']!)[j.1]! - f * rowN[j.1]!)) i j
          = if i = cur' then R b' cur' j - R b' cur' cur * R b' cur j else R b' i j := by
      intro i hi j hj
      rw [hR' i hi j hj]
      split
      · rw [hN j hj]; rfl
      · rfl
    refine ⟨hS', ?_, ?_, ?_, ?_, ?_, ?_⟩
    · exact RowComb_elim n (2 * n) (aug n e) (R b') _ cur' cur (R b' cur' cur) hcur' hcur
        (fun i hi j hj => hR'' i hi j hj) hL
    · intro j hj i hi
      rw [hR'' i hi j (by omega)]
      split
      · rename_i hic
        rw [hU j hj cur hcur, if_neg (by omega), mul_zero, sub_zero, hU j hj cur' hcur', hic]
      · exact hU j hj i hi
    · intro j hj
      rw [hR'' cur hcur j hj, if_neg (fun h => hne h.symm)]
      exact hN j hj
    · rw [hR'' cur hcur cur (by omega), if_neg (fun h => hne h.symm)]
      exact h1
    · intro i hi hmem hic
      rw [hR'' i hi cur (by omega)]
      split
      · rw [h1, mul_one, sub_self]
      · rename_i hne'
        rcases List.mem_append.mp hmem with hm | hm
        · exact hZ i hi hm hic
        · exact absurd (List.mem_singleton.mp hm) hne'
    · intro hLi
      exact InjL_elim n (R b') _ cur' cur (R b' cur' cur) hcur' hcur hne
        (fun i hi j hj => hR'' i hi j (by omega)) (hI hLi)
  case vc6 =>
    rename_i pref cur suff hsplit b rws0 piv0 hinv r0 pr hr0 rowP rowC rws1 d rowN rws2 hpiv
      pref' cur' suff' hsplit' b' hne f hf hinv'
    obtain ⟨hS, hL, hU, hN, h1, hZ, hI⟩ := hinv'
    refine ⟨hS, hL, hU, hN, h1, ?_, hI⟩
    intro i hi hmem hic
    rcases List.mem_append.mp hmem with hm | hm
    · exact hZ i hi hm hic
    · rw [List.mem_singleton.mp hm]
      exact not_not.mp hf
  case vc7 =>
    rename_i pref cur suff hsplit b rws0 piv0 hinv r0 pr hr0 rowP rowC rws1 d rowN rws2 hpiv
      pref' cur' suff' hsplit' b' heq hinv'
    obtain ⟨hS, hL, hU, hN, h1, hZ, hI⟩ := hinv'
    refine ⟨hS, hL, hU, hN, h1, ?_, hI⟩
    intro i hi hmem hic
    rcases List.mem_append.mp hmem with hm | hm
    · exact hZ i hi hm hic
    · exact absurd ((List.mem_singleton.mp hm).trans (not_not.mp heq)) hic
  case vc8 =>
    rename_i pref cur suff hsplit b rws0 piv0 hinv r0 pr hr0 rowP rowC rws1 d rowN rws2 hpiv
    have hcur : cur < n := (legacy_split hsplit).2
    have hlen : pref.length = cur := by have := (legacy_split hsplit).1; omega
    rcases hinv with ⟨-, hbad, -⟩ | ⟨-, hS, hL, hU, hI⟩
    · exact absurd hbad (by simp)
    obtain ⟨hp1, hp2, hp3⟩ := hpiv.1 pr rfl
    obtain ⟨hS', hR'⟩ := swapnorm n (2 * n) b.2 pr cur (fun x => x / d) hS hp2 hcur
    have hd : d = R b.2 pr cur := rfl
    rw [hlen] at hU
    refine ⟨hS', ?_, ?_, ?_, ?_, ?_, ?_⟩
    · exact RowComb_swapnorm n (2 * n) (aug n e) (R b.2) _ pr cur d hp2 hcur
        (fun i hi j hj => hR' i hi j hj) hL
    · intro j hj i hi
      rw [hR' i hi j (by omega)]
      split
      · rename_i hic
        rw [hU j hj pr hp2, if_neg (by omega), zero_div, hic, if_neg (by omega)]
      · split
        · rename_i hip
          rw [hU j hj cur hcur, if_neg (by omega), hip, if_neg (by omega)]
        · exact hU j hj i hi
    · intro j hj
      rw [hR' cur hcur j hj, if_pos rfl]
      show R b.2 pr j / d = (Array.map (fun x => x / d) (b.2[pr]!))[j]!
      rw [get_map! _ _ j (by rw [hS.2 pr hp2]; exact hj)]
      rfl
    · rw [hR' cur hcur cur (by omega), if_pos rfl, ← hd]
      exact div_self (by rw [hd]; exact hp3)
    · intro i _ hmem
      exact absurd hmem (by simp)
    · intro hLi
      exact InjL_swapnorm n (R b.2) _ pr cur d (by rw [hd]; exact hp3) hp2 hcur
        (fun i hi j hj => hR' i hi j (by omega)) (hI hLi)
  case vc9 =>
    rename_i pref cur suff hsplit b rws0 piv0 hinv r0 pr hr0 rowP rowC rws1 d rowN rws2 hpiv
      rfin hfin
    have hlen : pref.length = cur := by have := (legacy_split hsplit).1; omega
    obtain ⟨hS, hL, hU, hN, h1, hZ, hI⟩ := hfin
    right
    refine ⟨rfl, hS, hL, ?_, hI⟩
    intro j hj i hi
    have hj' : j < cur + 1 := by simpa [hlen] using hj
    by_cases hjc : j = cur
    · subst hjc
      by_cases hic : i = j
      · subst hic; rw [h1, if_pos rfl]
      · rw [hZ i hi (legacy_mem hi) hic, if_neg hic]
    · exact hU j (by omega) i hi
  case vc10 =>
    right
    obtain ⟨hS, hR⟩ := sized_init_aug n e
    refine ⟨rfl, hS, RowComb_init n (2 * n) (aug n e) _ hR, fun j hj => absurd hj (by simp), ?_⟩
    rintro ⟨L, hL⟩ z hz
    refine inj_of_leftInv n e L hL z ?_
    intro I hI
    have := hz I hI
    rw [← this]
    apply Finset.sum_congr rfl
    intro J hJ
    rw [hR I hI J (by have := mem_range.mp hJ; omega), if_pos (mem_range.mp hJ)]
  case vc11 =>
    rename_i b a ha hinv
    rcases hinv with ⟨hb, -, hnL⟩ | ⟨hb, -⟩
    · rw [hb] at ha
      injection ha with ha
      subst ha
      exact ⟨fun W hW => absurd hW (by simp), fun hL => absurd hL hnL⟩
    · rw [hb] at ha
      exact absurd ha (by simp)
  case vc12 =>
    rename_i b hb hinv
    rcases hinv with ⟨hb', -⟩ | ⟨-, -, hL, hU, -⟩
    · rw [hb] at hb'
      exact absurd hb' (by simp)
    · have hlen : ([:n] : Std.Legacy.Range).toList.length = n := by
        simp [Std.Legacy.Range.toList]
      rw [hlen] at hU
      refine ⟨?_, fun _ => by simp⟩
      intro W hW
      injection hW with hW
      subst hW
      exact ⟨rfl, rfl, leftInv_of_aug n e _ hL hU⟩

end main

end PV
