import PyomaVerif.Model.MsGather
import PyomaVerif.Model.Prep
import PyomaVerif.Props.C03
/-!
# Lemmas for `Props/C03Split.lean` / `Props/C04Split.lean`

1. the two index models of `gen.pre_multisetup` (`Multi.removeAll`/`preSplit`, C03; `foldl erase` inside
   `Prep.preMultisetup`, C14) agree;
2. the record-level split (`MsGather.splitOne`, `preMultisetupRec`) on duplicate-free in-range reference lists;
3. `vstack(ref, mov)` of a split is the dataset's columns in the order `ref_id ++ mov_id`, transposed.
-/
namespace PV.MsGather
open PV PV.Multi

/-! ## 1. the two index models -/

/-- whenever `removeAll` succeeds its result is the `foldl erase` of the C14 model — no hypothesis. -/
theorem removeAll_eq_foldl : ∀ (r mov m : List Nat), removeAll mov r = some m →
    m = r.foldl (fun l x => l.erase x) mov := by
  intro r
  induction r with
  | nil => intro mov m h; simp [removeAll] at h; simp [h]
  | cons x xs ih =>
    intro mov m h
    simp only [removeAll] at h
    split at h
    · simpa using ih _ _ h
    · simp at h

/-- the roving channel indices of a dataset with `ncol` channels and references `r`: ascending complement -/
def rovingCols (ncol : Nat) (r : List Nat) : List Nat := (List.range ncol).filter (fun c => !r.contains c)

theorem preSplit_ok (n : Nat) (r : List Nat) (hnd : r.Nodup) (hin : ∀ x ∈ r, x < n) :
    preSplit n r = some (r, rovingCols n r) := by
  obtain ⟨mov, h1, h2, _, _⟩ := PV.C03.C03_split n r hnd hin
  rw [h1, h2]; rfl

/-- every successful `preSplit` returns the listed references and the `foldl erase` of C14's model. -/
theorem preSplit_eq_foldl (n : Nat) (r r' m : List Nat) (h : preSplit n r = some (r', m)) :
    r' = r ∧ m = r.foldl (fun l x => l.erase x) (List.range n) := by
  simp only [preSplit] at h
  split at h
  · cases hr : removeAll (List.range n) r with
    | none => simp [hr] at h
    | some mm =>
      simp only [hr, Option.map_some, Option.some.injEq, Prod.mk.injEq] at h
      exact ⟨h.1.symm, h.2 ▸ removeAll_eq_foldl r _ _ hr⟩
  · simp at h

theorem foldl_erase_eq_roving (n : Nat) (r : List Nat) (hnd : r.Nodup) (hin : ∀ x ∈ r, x < n) :
    r.foldl (fun l x => l.erase x) (List.range n) = rovingCols n r :=
  ((preSplit_eq_foldl n r _ _ (preSplit_ok n r hnd hin)).2).symm

theorem rovingCols_length (n : Nat) (r : List Nat) (hnd : r.Nodup) (hin : ∀ x ∈ r, x < n) :
    r.length + (rovingCols n r).length = n := by
  obtain ⟨mov, h1, h2, _, hp⟩ := PV.C03.C03_split n r hnd hin
  have := hp.length_eq
  rw [List.length_append, List.length_range, h2] at this
  exact this

theorem mem_rovingCols {n : Nat} {r : List Nat} {c : Nat} (h : c ∈ rovingCols n r) : c < n ∧ c ∉ r := by
  simp only [rovingCols, List.mem_filter, List.mem_range] at h
  exact ⟨h.1, by simpa using h.2⟩

/-! ## 2. the record-level split -/
section rec
variable {K : Type}

theorem splitOne_ok (y : Mat K) (r : List Nat) (hnd : r.Nodup) (hin : ∀ x ∈ r, x < y.c)
    (h0 : 0 < r.length) (h1 : r.length < y.c) :
    splitOne y r = .ok ⟨gatherT y r, gatherT y (rovingCols y.c r)⟩ := by
  simp only [splitOne, preSplit_ok y.c r hnd hin]
  rw [if_neg (by omega)]

/-- what `gen.pre_multisetup` returns for setup `i` -/
def splitAt (y : Mat K) (r : List Nat) : Setup K := ⟨gatherT y r, gatherT y (rovingCols y.c r)⟩

/-- reference lists the property allows for the datasets `D`: as many lists as datasets, each duplicate-free,
    in range, not empty and leaving at least one roving channel. -/
def ValidRefs (D : List (Mat K)) (R : List (List Nat)) : Prop :=
  R.length = D.length ∧
  ∀ (i : Nat) (y : Mat K) (r : List Nat), D[i]? = some y → R[i]? = some r → r.Nodup ∧ (∀ x ∈ r, x < y.c) ∧ 0 < r.length ∧ r.length < y.c

theorem ValidRefs.tail {y : Mat K} {ys : List (Mat K)} {r : List Nat} {rs : List (List Nat)}
    (h : ValidRefs (y :: ys) (r :: rs)) : ValidRefs ys rs :=
  ⟨by have := h.1; simpa using this, fun i y' r' hy hr => h.2 (i + 1) y' r' (by simpa using hy) (by simpa using hr)⟩

theorem preMultisetupRec_ok : ∀ (D : List (Mat K)) (R : List (List Nat)), ValidRefs D R →
    preMultisetupRec D R = .ok (List.zipWith splitAt D R) := by
  intro D
  induction D with
  | nil => intro R _; cases R <;> rfl
  | cons y ys ih =>
    intro R h
    cases R with
    | nil => have := h.1; simp at this
    | cons r rs =>
      obtain ⟨hnd, hin, h0, h1⟩ := h.2 0 y r rfl rfl
      simp only [preMultisetupRec, splitOne_ok y r hnd hin h0 h1, ih rs h.tail, List.zipWith_cons_cons]
      rfl

theorem zipWith_splitAt_get (D : List (Mat K)) (R : List (List Nat)) (i : Nat) (y : Mat K) (r : List Nat)
    (hy : D[i]? = some y) (hr : R[i]? = some r) : (List.zipWith splitAt D R)[i]? = some (splitAt y r) := by
  rw [List.getElem?_zipWith, hy, hr]

/-! ## 3. the hand-over: `vstack(ref, mov)` -/

theorem getD_app_left (xs ys : List Nat) (s : Nat) (hs : s < xs.length) :
    (xs ++ ys).getD s 0 = xs.getD s 0 := by
  simp only [List.getD_eq_getElem?_getD]
  rw [List.getElem?_append_left hs]

theorem getD_app_right (xs ys : List Nat) (m : Nat) :
    (xs ++ ys).getD (xs.length + m) 0 = ys.getD m 0 := by
  simp only [List.getD_eq_getElem?_getD]
  rw [List.getElem?_append_right (by omega)]
  congr 2; omega

/-- **`np.vstack((Y["ref"], Y["mov"]))` of a split is the dataset's channels in the order `ref_id ++ mov_id`,
    transposed** — as arrays (shape and every entry). -/
theorem vstack_gather (y : Mat K) (r m : List Nat) :
    Mat.vstack2 (gatherT y r) (gatherT y m) = gatherT y (r ++ m) := by
  show (⟨r.length + m.length, y.r,
      fun a t => if a < r.length then y.e t (r.getD a 0) else y.e t (m.getD (a - r.length) 0)⟩ : Mat K)
    = ⟨(r ++ m).length, y.r, fun a t => y.e t ((r ++ m).getD a 0)⟩
  rw [List.length_append]
  congr 1
  funext a t
  split
  · rename_i h
    rw [getD_app_left r m a h]
  · rename_i h
    have : a = r.length + (a - r.length) := by omega
    conv_rhs => rw [this, getD_app_right]

theorem ssiMsHankArgs_split (D : List (Mat K)) (R : List (List Nat)) (i : Nat) (y : Mat K) (r : List Nat)
    (hy : D[i]? = some y) (hr : R[i]? = some r) :
    ssiMsHankArgs (List.zipWith splitAt D R) i
      = some (gatherT y (r ++ rovingCols y.c r), gatherT y r) := by
  simp only [ssiMsHankArgs, zipWith_splitAt_get D R i y r hy hr, splitAt]
  rw [if_neg (by simp [gatherT]), vstack_gather]

theorem ssiMsHead_split (D : List (Mat K)) (R : List (List Nat)) (y0 : Mat K) (r0 : List Nat)
    (hy : D[0]? = some y0) (hr : R[0]? = some r0) (hlen : R.length = D.length) :
    ssiMsHead (List.zipWith splitAt D R)
      = some ⟨D.length, r0.length, (List.zipWith splitAt D R).map (fun s => s.mov.r),
          r0.length + ((List.zipWith splitAt D R).map (fun s => s.mov.r)).sum⟩ := by
  cases D with
  | nil => simp at hy
  | cons y ys =>
    cases R with
    | nil => simp at hr
    | cons r rs =>
      simp only [List.getElem?_cons_zero, Option.some.injEq] at hy hr
      subst hy; subst hr
      simp only [List.zipWith_cons_cons, ssiMsHead, List.length_cons, List.length_zipWith, splitAt, gatherT]
      simp only [List.length_cons] at hlen
      congr 2
      omega

/-! ## 4. the split as a value, the roving DOF lists -/

/-- what `MultiSetup_PreGER.data` / `gen.pre_multisetup` holds for the datasets `D` and reference lists `R`
    (`[]` where the code raises) -/
def splitOf {K : Type} (D : List (Mat K)) (R : List (List Nat)) : List (Setup K) :=
  match preMultisetupRec D R with
  | .ok Y => Y
  | .error _ => []

theorem splitOf_eq {K : Type} (D : List (Mat K)) (R : List (List Nat)) (h : ValidRefs D R) :
    splitOf D R = List.zipWith splitAt D R := by
  simp only [splitOf, preMultisetupRec_ok D R h]

/-- the DOFs of the roving blocks: setup `i`'s roving channels (ascending channel order) mapped to the DOFs they
    measure -/
def movDofs {K : Type} (D : List (Mat K)) (R : List (List Nat)) (dof : Nat → Nat → Nat) : List (List Nat) :=
  (List.range D.length).map fun i => (rovingCols ((D.map Mat.c).getD i 0) (R.getD i [])).map (dof i)

theorem movDofs_get {K : Type} (D : List (Mat K)) (R : List (List Nat)) (dof : Nat → Nat → Nat) (i : Nat) (y : Mat K)
    (r : List Nat) (hy : D[i]? = some y) (hr : R[i]? = some r) :
    (movDofs D R dof)[i]? = some ((rovingCols y.c r).map (dof i)) := by
  have hi : i < D.length := (List.getElem?_eq_some_iff.mp hy).1
  simp only [movDofs, List.getElem?_map, List.getElem?_range hi, Option.map_some, List.getD_eq_getElem?_getD,
    hy, hr, Option.getD_some]

theorem movDofs_get_inv {K : Type} (D : List (Mat K)) (R : List (List Nat)) (dof : Nat → Nat → Nat) (hlen : R.length = D.length)
    (i : Nat) (mi : List Nat) (h : (movDofs D R dof)[i]? = some mi) :
    ∃ y r, D[i]? = some y ∧ R[i]? = some r ∧ mi = (rovingCols y.c r).map (dof i) := by
  have hi : i < D.length := by
    have := (List.getElem?_eq_some_iff.mp h).1
    simpa [movDofs] using this
  have hy : D[i]? = some D[i] := List.getElem?_eq_getElem hi
  have hr : R[i]? = some (R[i]'(by omega)) := List.getElem?_eq_getElem (by omega)
  refine ⟨_, _, hy, hr, ?_⟩
  rw [movDofs_get D R dof i _ _ hy hr] at h
  exact (Option.some.inj h).symm


end rec
end PV.MsGather
