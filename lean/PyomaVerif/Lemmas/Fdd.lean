import PyomaVerif.Model.Fdd
import Mathlib.Algebra.Order.Field.Basic
import Mathlib.Algebra.Order.AbsoluteValue.Basic
import Mathlib.Tactic.Ring
import Mathlib.Tactic.Linarith
import Mathlib.Tactic.FieldSimp
/-! Lemmas about `argminTo` / `argmaxTo` / `absK` and the pair-complex numbers `Cx K`. -/
set_option linter.unusedSectionVars false
namespace PV.Fdd

section arg
variable {K : Type} [LinearOrder K]

theorem argminTo_lt {n : Nat} (hn : 0 < n) (f : Nat → K) : argminTo n f < n := by
  induction n with
  | zero => omega
  | succ n ih =>
    unfold argminTo
    split
    · omega
    · rcases Nat.eq_zero_or_pos n with h | h
      · subst h; simp [argminTo]
      · have := ih h; omega

theorem argminTo_le {n : Nat} (f : Nat → K) : ∀ i, i < n → f (argminTo n f) ≤ f i := by
  induction n with
  | zero => intro i hi; omega
  | succ n ih =>
    intro i hi
    unfold argminTo
    split
    · rename_i h
      rcases Nat.lt_succ_iff_lt_or_eq.mp hi with h' | h'
      · exact le_of_lt (lt_of_lt_of_le h (ih i h'))
      · subst h'; exact le_refl _
    · rename_i h
      rcases Nat.lt_succ_iff_lt_or_eq.mp hi with h' | h'
      · exact ih i h'
      · subst h'; exact not_lt.mp h

theorem argminTo_first {n : Nat} (f : Nat → K) : ∀ i, i < argminTo n f → f (argminTo n f) < f i := by
  induction n with
  | zero => intro i hi; simp [argminTo] at hi
  | succ n ih =>
    intro i
    unfold argminTo
    split
    · rename_i h
      intro hi
      exact lt_of_lt_of_le h (argminTo_le f i hi)
    · intro hi; exact ih i hi

theorem argmaxTo_lt {n : Nat} (hn : 0 < n) (f : Nat → K) : argmaxTo n f < n := by
  induction n with
  | zero => omega
  | succ n ih =>
    unfold argmaxTo
    split
    · omega
    · rcases Nat.eq_zero_or_pos n with h | h
      · subst h; simp [argmaxTo]
      · have := ih h; omega

theorem argmaxTo_le {n : Nat} (f : Nat → K) : ∀ i, i < n → f i ≤ f (argmaxTo n f) := by
  induction n with
  | zero => intro i hi; omega
  | succ n ih =>
    intro i hi
    unfold argmaxTo
    split
    · rename_i h
      rcases Nat.lt_succ_iff_lt_or_eq.mp hi with h' | h'
      · exact le_of_lt (lt_of_le_of_lt (ih i h') h)
      · subst h'; exact le_refl _
    · rename_i h
      rcases Nat.lt_succ_iff_lt_or_eq.mp hi with h' | h'
      · exact ih i h'
      · subst h'; exact not_lt.mp h

theorem argmaxTo_first {n : Nat} (f : Nat → K) : ∀ i, i < argmaxTo n f → f i < f (argmaxTo n f) := by
  induction n with
  | zero => intro i hi; simp [argmaxTo] at hi
  | succ n ih =>
    intro i
    unfold argmaxTo
    split
    · rename_i h
      intro hi
      exact lt_of_le_of_lt (argmaxTo_le f i hi) h
    · intro hi; exact ih i hi

/-- `argmaxTo` only looks at the first `n` values -/
theorem argmaxTo_congr {n : Nat} {f g : Nat → K} (h : ∀ i, i < n → f i = g i) :
    argmaxTo n f = argmaxTo n g := by
  induction n with
  | zero => rfl
  | succ n ih =>
    have e := ih (fun i hi => h i (Nat.lt_succ_of_lt hi))
    rcases Nat.eq_zero_or_pos n with h0 | h0
    · subst h0
      have h1 := argmaxTo_lt (n := 0 + 1) (by omega) f
      have h2 := argmaxTo_lt (n := 0 + 1) (by omega) g
      omega
    · unfold argmaxTo
      rw [e, h n (Nat.lt_succ_self n),
        h (argmaxTo n g) (Nat.lt_succ_of_lt (argmaxTo_lt h0 g))]

end arg

section field
variable {K : Type} [Field K] [LinearOrder K] [IsStrictOrderedRing K]

theorem absK_eq_abs (x : K) : absK x = |x| := by
  unfold absK
  split
  · rename_i h; exact (abs_of_neg h).symm
  · rename_i h; exact (abs_of_nonneg (not_lt.mp h)).symm

/-- positive scaling does not move the arg-max -/
theorem argmaxTo_scale {c : K} (hc : 0 < c) (n : Nat) (f : Nat → K) :
    argmaxTo n (fun i => c * f i) = argmaxTo n f := by
  induction n with
  | zero => rfl
  | succ n ih =>
    unfold argmaxTo
    rw [ih]
    have : (c * f (argmaxTo n f) < c * f n) ↔ (f (argmaxTo n f) < f n) := mul_lt_mul_iff_right₀ hc
    by_cases h : f (argmaxTo n f) < f n
    · rw [if_pos (this.mpr h), if_pos h]
    · rw [if_neg (fun h' => h (this.mp h')), if_neg h]

namespace Cx

@[ext] theorem ext' {a b : Cx K} (h1 : a.re = b.re) (h2 : a.im = b.im) : a = b := by
  cases a; cases b; simp_all

@[simp] theorem zero_re : (0 : Cx K).re = 0 := rfl
@[simp] theorem zero_im : (0 : Cx K).im = 0 := rfl
@[simp] theorem one_re : (1 : Cx K).re = 1 := rfl
@[simp] theorem one_im : (1 : Cx K).im = 0 := rfl
@[simp] theorem mul_re (a b : Cx K) : (a * b).re = a.re * b.re - a.im * b.im := rfl
@[simp] theorem mul_im (a b : Cx K) : (a * b).im = a.re * b.im + a.im * b.re := rfl
@[simp] theorem add_re (a b : Cx K) : (a + b).re = a.re + b.re := rfl
@[simp] theorem add_im (a b : Cx K) : (a + b).im = a.im + b.im := rfl
@[simp] theorem div_re (a b : Cx K) : (a / b).re = (a.re * b.re + a.im * b.im) / normSq b := rfl
@[simp] theorem div_im (a b : Cx K) : (a / b).im = (a.im * b.re - a.re * b.im) / normSq b := rfl
@[simp] theorem conj_re (a : Cx K) : (conj a).re = a.re := rfl
@[simp] theorem conj_im (a : Cx K) : (conj a).im = -a.im := rfl
@[simp] theorem smul_re (c : K) (a : Cx K) : (smul c a).re = c * a.re := rfl
@[simp] theorem smul_im (c : K) (a : Cx K) : (smul c a).im = c * a.im := rfl
@[simp] theorem ofReal_re (x : K) : (ofReal x : Cx K).re = x := rfl
@[simp] theorem ofReal_im (x : K) : (ofReal x : Cx K).im = 0 := rfl

theorem normSq_nonneg (z : Cx K) : 0 ≤ normSq z := by
  unfold normSq; nlinarith [mul_self_nonneg z.re, mul_self_nonneg z.im]

theorem normSq_eq_zero {z : Cx K} : normSq z = 0 ↔ z = 0 := by
  constructor
  · intro h
    unfold normSq at h
    have h1 : z.re * z.re = 0 := by nlinarith [mul_self_nonneg z.re, mul_self_nonneg z.im]
    have h2 : z.im * z.im = 0 := by nlinarith [mul_self_nonneg z.re, mul_self_nonneg z.im]
    ext
    · simpa using mul_self_eq_zero.mp h1
    · simpa using mul_self_eq_zero.mp h2
  · intro h; subst h; simp [normSq]

theorem normSq_mul (a b : Cx K) : normSq (a * b) = normSq a * normSq b := by
  simp only [normSq, mul_re, mul_im]; ring

theorem normSq_conj (a : Cx K) : normSq (conj a) = normSq a := by
  simp only [normSq, conj_re, conj_im]; ring

theorem conj_mul (a b : Cx K) : conj (a * b) = conj a * conj b := by
  ext <;> simp only [conj_re, conj_im, mul_re, mul_im] <;> ring

theorem conj_conj (a : Cx K) : conj (conj a) = a := by
  ext <;> simp

/-- the reciprocal used by the division -/
def inv (b : Cx K) : Cx K := ⟨b.re / normSq b, -b.im / normSq b⟩

theorem div_eq_inv_mul (a b : Cx K) : a / b = inv b * a := by
  ext <;> simp [inv] <;> ring

theorem inv_ne_zero {b : Cx K} (hb : b ≠ 0) : inv b ≠ 0 := by
  intro h
  have hn : normSq b ≠ 0 := fun h' => hb (normSq_eq_zero.mp h')
  have h1 : b.re / normSq b = 0 := congrArg Cx.re h
  have h2 : -b.im / normSq b = 0 := congrArg Cx.im h
  rw [div_eq_zero_iff] at h1 h2
  apply hb
  ext
  · rcases h1 with h1 | h1
    · simpa using h1
    · exact absurd h1 hn
  · rcases h2 with h2 | h2
    · simpa using h2
    · exact absurd h2 hn

theorem div_self {b : Cx K} (hb : b ≠ 0) : b / b = 1 := by
  have hn : normSq b ≠ 0 := fun h' => hb (normSq_eq_zero.mp h')
  ext
  · simp only [div_re, one_re]
    rw [div_eq_one_iff_eq hn]; rfl
  · simp only [div_im, one_im]
    rw [div_eq_zero_iff]; left; ring

theorem normSq_div (a : Cx K) {b : Cx K} (hb : b ≠ 0) : normSq (a / b) = normSq a / normSq b := by
  have hn : normSq b ≠ 0 := fun h' => hb (normSq_eq_zero.mp h')
  have hn' : b.re * b.re + b.im * b.im ≠ 0 := hn
  simp only [normSq, div_re, div_im]
  rw [div_mul_div_comm, div_mul_div_comm, ← add_div, div_eq_div_iff (mul_ne_zero hn' hn') hn']
  ring

end Cx
end field
end PV.Fdd
