import PyomaVerif.Props.C09C18
import PyomaVerif.Lemmas.Stab
import Mathlib.Tactic.Linarith
/-!
# Helpers for `Props/C09All.lean` (C09 for all six classes, composed with C10)

* `Kept` — "passes every enabled hard criterion", on the unfiltered tables, with the library's MPC/MPD;
* `FiltOf` — a table is the unfiltered one blanked exactly where `Kept` fails;
* `retVar_mem` — the variable looked up for a result field is the one the program returns;
* `toMat`/`toTen` — the filtered tables of a run (cells indexed by `(pole row, order column)`) as the
  arrays `gen.SC_apply` receives; `StableKept` — the soft criteria against the first nearest *kept*
  pole of the previous order, written on the unfiltered tables; `stable_iff` — the bridge to
  `StableAgainstPrev` of `Lemmas/Stab.lean`;
* `keptB` — a Boolean reading of `Kept` when `mpd_lim ≥ 2 ≥ π/2` (used for the concrete instance).
-/
namespace PV.C09All
open PV PV.Hc PV.HcFn PV.C09 PV.C09C18

variable {Idx : Type}

/-- the pole passes every hard criterion enabled by the configuration (read on the UNFILTERED tables,
    with the indicator definitions of `Model/Indicators.lean`) -/
def Kept (p : Params Idx) (conjOn covOn : Bool) (i : Idx) : Prop :=
  (conjOn = true → ConjOk p i) ∧ DampOk p i ∧ MpdOk p i ∧ MpcOk p i ∧ (covOn = true → CovOk p i)

/-- `T` is the unfiltered table `o` blanked exactly at the poles that fail an enabled criterion,
    values unchanged -/
def FiltOf (p : Params Idx) (conjOn covOn : Bool) (o : Tbl) (T : Idx → Option Cell) : Prop :=
  ∀ i c, T i = some c ↔ (p.orig o i = some c ∧ Kept p conjOn covOn i)

theorem FiltOf.nan_iff {p : Params Idx} {conjOn covOn : Bool} {o : Tbl} {T : Idx → Option Cell}
    (h : FiltOf p conjOn covOn o T) (i : Idx) :
    T i = none ↔ (p.orig o i = none ∨ ¬ Kept p conjOn covOn i) := by
  constructor
  · intro hT
    by_cases hk : Kept p conjOn covOn i
    · left
      cases ho : p.orig o i with
      | none => rfl
      | some c => have := (h i c).mpr ⟨ho, hk⟩; rw [hT] at this; cases this
    · exact Or.inr hk
  · intro hor
    cases hT : T i with
    | none => rfl
    | some c =>
      obtain ⟨ho, hk⟩ := (h i c).mp hT
      rcases hor with h1 | h1
      · rw [h1] at ho; cases ho
      · exact absurd hk h1

theorem FiltOf.eq_of_kept {p : Params Idx} {conjOn covOn : Bool} {o : Tbl} {T : Idx → Option Cell}
    (h : FiltOf p conjOn covOn o T) (i : Idx) (hk : Kept p conjOn covOn i) : T i = p.orig o i := by
  cases ho : p.orig o i with
  | some c => exact (h i c).mpr ⟨ho, hk⟩
  | none => exact (h.nan_iff i).mpr (Or.inl ho)

theorem FiltOf.none_of_not_kept {p : Params Idx} {conjOn covOn : Bool} {o : Tbl} {T : Idx → Option Cell}
    (h : FiltOf p conjOn covOn o T) (i : Idx) (hk : ¬ Kept p conjOn covOn i) : T i = none :=
  (h.nan_iff i).mpr (Or.inr hk)

/-- two tables characterised by the same `FiltOf` are the same table -/
theorem FiltOf.unique {p : Params Idx} {conjOn covOn : Bool} {o : Tbl} {T T' : Idx → Option Cell}
    (h : FiltOf p conjOn covOn o T) (h' : FiltOf p conjOn covOn o T') : T = T' := by
  funext i
  cases hT : T i with
  | some c => exact ((h' i c).mpr ((h i c).mp hT)).symm
  | none =>
    cases hT' : T' i with
    | none => rfl
    | some c => have := (h i c).mpr ((h' i c).mp hT'); rw [hT] at this; cases this

/-! ### result-field lookup -/
theorem lookup_mem (f : String) : ∀ l : List (String × String),
    l.any (fun fx => decide (fx.1 = f)) = true → (f, (l.lookup f).getD "") ∈ l := by
  intro l
  induction l with
  | nil => intro h; simp at h
  | cons a es ih =>
    intro h
    obtain ⟨k, b⟩ := a
    by_cases hk : f = k
    · subst hk
      simp [List.lookup]
    · have hbeq : (f == k) = false := by simpa using hk
      have hk' : ¬ k = f := fun e => hk e.symm
      simp only [List.any_cons, hk', decide_false, Bool.false_or] at h
      simp only [List.lookup, hbeq]
      exact List.mem_cons_of_mem _ (ih h)

/-- the variable `retVar P f` is the one the program returns as field `f` (when it returns `f`) -/
theorem retVar_mem (P : ClassProg) (f : String) (h : P.ret.any (fun fx => decide (fx.1 = f)) = true) :
    (f, retVar P f) ∈ P.ret := lookup_mem f P.ret h

/-- a successful sequencing obligation includes: every required field is in the result -/
theorem required_of_check (P : ClassProg) (req : List String) (conjOn covOn : Bool)
    (hchk : check P req conjOn covOn = true) (f : String) (hf : f ∈ req) : (f, retVar P f) ∈ P.ret := by
  unfold check at hchk
  split at hchk
  · cases hchk
  · simp only [Bool.and_eq_true] at hchk
    exact retVar_mem P f ((List.all_eq_true.mp hchk.1.2) f hf)

/-! ### the filtered tables as the arrays `gen.SC_apply` receives -/

/-- a complex number of `Model/Indicators.lean` as the pair of `Model/Stab.lean` -/
def cq (z : Cx Rat) : CQ := (z.re, z.im)

/-- the components of a mode-shape cell; a blanked cell is NaN in every component -/
def shapeVec : Option Cell → Nat → Option CQ
  | some (.shape _ v), k => some (cq (v k))
  | _, _ => none

/-- a real-valued result table (`Fn_poles`, `Xi_poles`) with `r` pole rows and `c` order columns -/
def toMat (r c : Nat) (T : Nat × Nat → Option Cell) : Mat NR :=
  ⟨r, c, fun i o => (T (i, o)).bind Cell.real?⟩

/-- the mode-shape result table (`Phi_poles`), `d` components per shape -/
def toTen (r c d : Nat) (T : Nat × Nat → Option Cell) : Ten3 (Option CQ) :=
  ⟨r, c, d, fun i o k => shapeVec (T (i, o)) k⟩

theorem bind_real?_eq_some (x : Option Cell) (w : Rat) :
    x.bind Cell.real? = some w ↔ x = some (.real w) := by
  cases x with
  | none => simp
  | some c => cases c <;> simp [Cell.real?]

/-- `j` is the first pole of order column `o` nearest in frequency to `f` **among the kept poles** -/
def KeptNearest (p : Params (Nat × Nat)) (conjOn covOn : Bool) (r o : Nat) (f : Rat) (j : Nat) (f' : Rat) :
    Prop :=
  j < r ∧ Kept p conjOn covOn (j, o) ∧ p.orig .fn (j, o) = some (.real f') ∧
    (∀ j', j' < r → Kept p conjOn covOn (j', o) → ∀ w, p.orig .fn (j', o) = some (.real w) →
      |f' - f| ≤ |w - f|) ∧
    (∀ j', j' < j → Kept p conjOn covOn (j', o) → ∀ w, p.orig .fn (j', o) = some (.real w) →
      |f' - f| < |w - f|)

/-- **a kept pole that is stable against the kept poles of the previous order**, on the unfiltered
    tables: pole `(i, o)` passes every enabled hard criterion, and the first nearest *kept* pole `j`
    of column `o − 1` is within the three tolerances (`ξ > 0` comes from the damping criterion, so the
    relative damping test is `|ξ − ξ'| < err_xi·ξ`; `MAC` over the `d` components of the two shapes). -/
def StableKept (p : Params (Nat × Nat)) (conjOn covOn : Bool) (r d : Nat) (eF eX eP : Rat) (o i : Nat) :
    Prop :=
  Kept p conjOn covOn (i, o) ∧
  ∃ f j f', p.orig .fn (i, o) = some (.real f) ∧ KeptNearest p conjOn covOn r (o - 1) f j f' ∧
    f ≠ 0 ∧ |f - f'| / f < eF ∧
    ∃ ξ ξ', p.orig .xi (i, o) = some (.real ξ) ∧ p.orig .xi (j, o - 1) = some (.real ξ') ∧
      0 < ξ ∧ ξ < p.xiMax ∧ 0 < ξ' ∧ ξ' < p.xiMax ∧ |ξ - ξ'| < eX * ξ ∧
    ∃ n v n' v' m, p.orig .phi (i, o) = some (.shape n v) ∧ p.orig .phi (j, o - 1) = some (.shape n' v') ∧
      scMac d (fun k => some (cq (v k))) (fun k => some (cq (v' k))) = some m ∧ 1 - m < eP

section bridge
variable {p : Params (Nat × Nat)} {conjOn covOn : Bool} {Tf Tx Tp : Nat × Nat → Option Cell}

theorem toMat_some_iff {o : Tbl} {T : Nat × Nat → Option Cell} (h : FiltOf p conjOn covOn o T)
    (r c i k : Nat) (w : Rat) :
    (toMat r c T).e i k = some w ↔ (p.orig o (i, k) = some (.real w) ∧ Kept p conjOn covOn (i, k)) := by
  show (T (i, k)).bind Cell.real? = some w ↔ _
  rw [bind_real?_eq_some]
  exact h (i, k) (.real w)

theorem toMat_none_of_not_kept {o : Tbl} {T : Nat × Nat → Option Cell} (h : FiltOf p conjOn covOn o T)
    (r c i k : Nat) (hk : ¬ Kept p conjOn covOn (i, k)) : (toMat r c T).e i k = none := by
  show (T (i, k)).bind Cell.real? = none
  rw [h.none_of_not_kept (i, k) hk]; rfl

theorem nearest_iff (hf : FiltOf p conjOn covOn .fn Tf) (r c o : Nat) (f : Rat) (j : Nat) (f' : Rat) :
    IsFirstNearest (fun j => (toMat r c Tf).e j o) r f j f' ↔ KeptNearest p conjOn covOn r o f j f' := by
  unfold IsFirstNearest KeptNearest
  constructor
  · rintro ⟨hj, hc, hall, hfirst⟩
    obtain ⟨ho, hk⟩ := (toMat_some_iff hf r c j o f').mp hc
    refine ⟨hj, hk, ho, ?_, ?_⟩
    · intro j' hj' hk' w hw
      exact hall j' hj' w ((toMat_some_iff hf r c j' o w).mpr ⟨hw, hk'⟩)
    · intro j' hj' hk' w hw
      exact hfirst j' hj' w ((toMat_some_iff hf r c j' o w).mpr ⟨hw, hk'⟩)
  · rintro ⟨hj, hk, ho, hall, hfirst⟩
    refine ⟨hj, (toMat_some_iff hf r c j o f').mpr ⟨ho, hk⟩, ?_, ?_⟩
    · intro j' hj' w hw
      obtain ⟨hw', hk'⟩ := (toMat_some_iff hf r c j' o w).mp hw
      exact hall j' hj' hk' w hw'
    · intro j' hj' w hw
      obtain ⟨hw', hk'⟩ := (toMat_some_iff hf r c j' o w).mp hw
      exact hfirst j' hj' hk' w hw'

/-- the shape row of a kept pole, as `SC_apply` reads it -/
theorem toTen_of_kept (hp : FiltOf p conjOn covOn .phi Tp) (r c d i o : Nat) (hk : Kept p conjOn covOn (i, o)) :
    ∃ n v, p.orig .phi (i, o) = some (.shape n v) ∧
      (toTen r c d Tp).e i o = fun k => some (cq (v k)) := by
  obtain ⟨n, v, _, ho, _⟩ := hk.2.2.2.1
  refine ⟨n, v, ho, ?_⟩
  funext k
  show shapeVec (Tp (i, o)) k = _
  rw [hp.eq_of_kept (i, o) hk, ho]
  rfl

/-- **bridge**: `SC_apply`'s cell condition on the filtered tables of a run = the soft criteria against
    the first nearest kept pole, on the unfiltered tables -/
theorem stable_iff (hf : FiltOf p conjOn covOn .fn Tf) (hx : FiltOf p conjOn covOn .xi Tx)
    (hp : FiltOf p conjOn covOn .phi Tp) (r c d : Nat) (eF eX eP : Rat) (o i : Nat) :
    StableAgainstPrev (toMat r c Tf) (toMat r c Tx) (toTen r c d Tp) eF eX eP o i ↔
      StableKept p conjOn covOn r d eF eX eP o i := by
  unfold StableAgainstPrev StableKept
  constructor
  · rintro ⟨f, j, f', hfi, hn, hf0, hc1, ξ, ξ', hξ, hξ', hξ0, hc2, m, hm, hc3⟩
    obtain ⟨hfo, hki⟩ := (toMat_some_iff hf r c i o f).mp hfi
    have hn' := (nearest_iff hf r c (o - 1) f j f').mp hn
    have hkj := hn'.2.1
    obtain ⟨hξo, _⟩ := (toMat_some_iff hx r c i o ξ).mp hξ
    obtain ⟨hξo', _⟩ := (toMat_some_iff hx r c j (o - 1) ξ').mp hξ'
    -- the damping criterion gives 0 < ξ < ξ_max at both poles
    obtain ⟨x, hxo, hx0, hx1⟩ := hki.2.1
    rw [hξo] at hxo
    have hxe : ξ = x := by cases hxo; rfl
    subst hxe
    obtain ⟨x', hxo', hx0', hx1'⟩ := hkj.2.1
    rw [hξo'] at hxo'
    have hxe' : ξ' = x' := by cases hxo'; rfl
    subst hxe'
    obtain ⟨n, v, hpo, hpe⟩ := toTen_of_kept hp r c d i o hki
    obtain ⟨n', v', hpo', hpe'⟩ := toTen_of_kept hp r c d j (o - 1) hkj
    refine ⟨hki, f, j, f', hfo, hn', hf0, hc1, ξ, ξ', hξo, hξo', hx0, hx1, hx0', hx1',
      (div_lt_iff₀ hx0).mp hc2, n, v, n', v', m, hpo, hpo', ?_, hc3⟩
    have : (toTen r c d Tp).d = d := rfl
    rw [this, hpe, hpe'] at hm
    exact hm
  · rintro ⟨hki, f, j, f', hfo, hn', hf0, hc1, ξ, ξ', hξo, hξo', hx0, _, _, _, hc2,
      n, v, n', v', m, hpo, hpo', hm, hc3⟩
    have hkj := hn'.2.1
    refine ⟨f, j, f', (toMat_some_iff hf r c i o f).mpr ⟨hfo, hki⟩,
      (nearest_iff hf r c (o - 1) f j f').mpr hn', hf0, hc1, ξ, ξ',
      (toMat_some_iff hx r c i o ξ).mpr ⟨hξo, hki⟩, (toMat_some_iff hx r c j (o - 1) ξ').mpr ⟨hξo', hkj⟩,
      ne_of_gt hx0, (div_lt_iff₀ hx0).mpr hc2, m, ?_, hc3⟩
    obtain ⟨n1, v1, hpo1, hpe⟩ := toTen_of_kept hp r c d i o hki
    obtain ⟨n2, v2, hpo2, hpe'⟩ := toTen_of_kept hp r c d j (o - 1) hkj
    rw [hpo] at hpo1
    rw [hpo'] at hpo2
    cases hpo1
    cases hpo2
    have : (toTen r c d Tp).d = d := rfl
    rw [this, hpe, hpe']
    exact hm
end bridge

/-! ### a Boolean reading of `Kept` when the MPD limit is not binding (`mpd_lim ≥ 2 ≥ π/2`) -/

/-- conjugate, damping, MPC criteria and "the shape is not the zero vector", as Booleans on the
    unfiltered tables (no covariance criterion) -/
def keptB (orig : Tbl → Idx → Option Cell) (conjT : (Idx → Option Cell) → Idx → Bool)
    (xiMax mpcLim : Rat) (conjOn : Bool) (i : Idx) : Bool :=
  (!conjOn || conjT (orig .lam) i) && dampMask xiMax ((orig .xi i).bind Cell.real?) &&
    mpcMask mpcLim ((orig .phi i).bind Cell.mpc?) &&
    (match orig .phi i with
     | some (.shape n v) => shapeNonZero n v
     | _ => false)

theorem kept_iff_keptB (p : Params Idx) (h2 : 2 ≤ p.mpdLim) (conjOn : Bool) (i : Idx) :
    Kept p conjOn false i ↔ keptB p.orig p.conjT p.xiMax p.mpcLim conjOn i = true := by
  have hd : DampOk p i ↔ dampMask p.xiMax ((p.orig .xi i).bind Cell.real?) = true :=
    (crit_damp p .xiMax i).symm
  have hm : MpcOk p i ↔ mpcMask p.mpcLim ((p.orig .phi i).bind Cell.mpc?) = true :=
    (crit_mpc p .mpcLim i).symm
  have hpd : MpdOk p i ↔ (match p.orig .phi i with
      | some (.shape n v) => shapeNonZero n v
      | _ => false) = true := by
    unfold MpdOk
    constructor
    · rintro ⟨n, v, ho, hnz, _⟩; rw [ho]; exact hnz
    · intro h
      cases ho : p.orig .phi i with
      | none => rw [ho] at h; cases h
      | some c =>
        rw [ho] at h
        cases c with
        | real x => cases h
        | cplx z => cases h
        | shape n v =>
          refine ⟨n, v, rfl, h, ?_⟩
          have hb := (PV.C18.C18_mpd_bounds n (castShape v) (p.dir n v).1 (p.dir n v).2).2
          have hpi : Real.pi / 2 ≤ 2 := by linarith [Real.pi_le_four]
          have hc : ((2 : Rat) : ℝ) ≤ (p.mpdLim : ℝ) := by exact_mod_cast h2
          have h2' : ((2 : Rat) : ℝ) = 2 := by norm_num
          unfold mpdVal
          linarith
  unfold Kept keptB ConjOk
  rw [hd, hm, hpd]
  cases conjOn <;> simp [and_assoc] <;> intros <;> exact and_comm

end PV.C09All
