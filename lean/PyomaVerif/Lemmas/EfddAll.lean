import PyomaVerif.Model.EfddAll
import PyomaVerif.Lemmas.Efdd
/-! Lemmas for Props/C07All.lean: first-match index search, fit selection, telescoping peak spacing. -/
set_option linter.unusedSectionVars false
namespace PV.Efdd
open PV PV.Fdd

end PV.Efdd
