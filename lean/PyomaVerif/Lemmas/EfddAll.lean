import PyomaVerif.Model.EfddAll
import PyomaVerif.Lemmas.Efdd
import Mathlib.Algebra.BigOperators.Group.List.Basic
/-! Lemmas for Props/C07All.lean: `mapM` over a range in `Except`, first-match index search,
    telescoping peak spacing. -/
set_option linter.unusedSectionVars false
namespace PV.Efdd
open PV PV.Fdd

section mapM
variable {α β : Type}

theorem mapM_ok (f : α → Except String β) (g : α → β) :
    ∀ (l : List α), (∀ a ∈ l, f a = .ok (g a)) → l.mapM f = .ok (l.map g)
  | [], _ => rfl
  | a :: l, h => by
    have h1 := h a (by simp)
    have h2 := mapM_ok f g l (fun b hb => h b (by simp [hb]))
    rw [List.mapM_cons, h1, h2]
    rfl

theorem mapM_error (f : α → Except String β) (e : String) :
    ∀ (l : List α), (∀ a ∈ l, (∃ b, f a = .ok b) ∨ f a = .error e) → (∃ a ∈ l, f a = .error e) →
      l.mapM f = .error e
  | [], _, ⟨a, ha, _⟩ => by simp at ha
  | a :: l, h, hex => by
    rw [List.mapM_cons]
    rcases h a (by simp) with ⟨b0, h1⟩ | h1
    · rw [h1]
      have : ∃ b ∈ l, f b = .error e := by
        obtain ⟨b, hb, hbe⟩ := hex
        rcases List.mem_cons.mp hb with rfl | hb'
        · rw [h1] at hbe; cases hbe
        · exact ⟨b, hb', hbe⟩
      rw [mapM_error f e l (fun b hb => h b (by simp [hb])) this]
      rfl
    · rw [h1]; rfl

/-- a successful `mapM` has one result per element, in order -/
theorem mapM_ok_elim (f : α → Except String β) :
    ∀ (l : List α) (r : List β), l.mapM f = .ok r →
      r.length = l.length ∧ ∀ n (h1 : n < l.length) (h2 : n < r.length), f l[n] = .ok r[n]
  | [], r, h => by
    rw [List.mapM_nil] at h
    cases h
    exact ⟨rfl, fun n h1 => absurd h1 (by simp)⟩
  | a :: l, r, h => by
    rw [List.mapM_cons] at h
    cases hfa : f a with
    | error e => rw [hfa] at h; cases h
    | ok b =>
      cases hl : l.mapM f with
      | error e => rw [hfa, hl] at h; cases h
      | ok bs =>
        rw [hfa, hl] at h
        cases h
        obtain ⟨ih1, ih2⟩ := mapM_ok_elim f l bs hl
        refine ⟨by simp [ih1], ?_⟩
        intro n h1 h2
        cases n with
        | zero => exact hfa
        | succ n => exact ih2 n (by simpa using h1) (by simpa using h2)

end mapM

section select
variable {α : Type}

/-- `selectFit` succeeds iff the requested range lies inside the list (or is empty) -/
theorem selectFit_ok [Inhabited α] (l : List α) (sppk npmax : Nat)
    (h : npmax = 0 ∨ sppk + npmax ≤ l.length) :
    selectFit l sppk npmax = .ok ((List.range npmax).map (fun a => l[sppk + a]!)) := by
  unfold selectFit
  apply mapM_ok
  intro a ha
  have ha' : a < npmax := List.mem_range.mp ha
  have hlt : sppk + a < l.length := by omega
  simp [List.getElem?_eq_getElem hlt, hlt]

theorem selectFit_error (l : List α) (sppk npmax : Nat) (h0 : 0 < npmax)
    (h : l.length < sppk + npmax) :
    selectFit l sppk npmax = .error "IndexError: index out of range" := by
  unfold selectFit
  apply mapM_error
  · intro a _
    by_cases hlt : sppk + a < l.length
    · left; exact ⟨l[sppk + a], by simp [List.getElem?_eq_getElem hlt]⟩
    · right; simp [List.getElem?_eq_none (Nat.le_of_not_lt hlt)]
  · refine ⟨npmax - 1, List.mem_range.mpr (by omega), ?_⟩
    have : l.length ≤ sppk + (npmax - 1) := by omega
    simp [List.getElem?_eq_none this]

end select

section tele
variable {K : Type} [Field K]

theorem foldl_add_eq (l : List K) (c : K) : l.foldl (· + ·) c = c + l.sum := by
  induction l generalizing c with
  | nil => simp
  | cons a l ih => rw [List.foldl_cons, ih, List.sum_cons, add_assoc]

/-- `Σ 2·(t_{i+1} − t_i) = 2·(t_last − t_first)` -/
theorem diffs2_sum (a : K) (t : List K) :
    (diffs2 (a :: t)).sum = ((a :: t).getLast (List.cons_ne_nil a t) - a) * ((2 : Nat) : K) := by
  induction t generalizing a with
  | nil => simp [diffs2]
  | cons b t ih =>
    have : diffs2 (a :: b :: t) = (b - a) * ((2 : Nat) : K) :: diffs2 (b :: t) := by
      simp [diffs2]
    rw [this, List.sum_cons, ih b, List.getLast_cons (List.cons_ne_nil b t)]
    ring

theorem diffs2_length (t : List K) : (diffs2 t).length = t.length - 1 := by
  unfold diffs2
  rw [List.length_zipWith, List.length_tail]
  omega

/-- mean of the doubled differences of a list with at least two entries -/
theorem meanL_diffs2 (t : List K) (m : Nat) (hm : 2 ≤ m) (hl : t.length = m) :
    meanL (diffs2 t)
      = some ((t.getD (m - 1) 0 - t.getD 0 0) * ((2 : Nat) : K) / (((m - 1 : Nat)) : K)) := by
  cases t with
  | nil => simp at hl; omega
  | cons a t =>
    have hlen : (diffs2 (a :: t)).length = m - 1 := by rw [diffs2_length, hl]
    unfold meanL
    rw [if_neg (by rw [hlen]; omega), foldl_add_eq, zero_add, diffs2_sum, hlen]
    congr 3
    have h1 : (a :: t).getD 0 0 = a := rfl
    have h2 : (a :: t).getD (m - 1) 0 = (a :: t).getLast (List.cons_ne_nil a t) := by
      rw [List.getLast_eq_getElem, List.getD_eq_getElem?_getD, List.getElem?_eq_getElem (by rw [hl]; omega)]
      simp [hl]
    rw [h1, h2]

end tele

section idx
variable {K : Type} [Field K] [LinearOrder K] [IsStrictOrderedRing K]

/-- `np.argmin(abs(x - x[j]))` is the first index at which the value `x[j]` occurs -/
theorem idxOf_first (n : Nat) (x : Nat → K) (j : Nat) (hj : j < n) :
    x (idxOf n x (x j)) = x j ∧ idxOf n x (x j) ≤ j ∧ ∀ i, i < idxOf n x (x j) → x i ≠ x j := by
  set g : Nat → K := fun i => absK (x i - x j) with hg
  have hp : idxOf n x (x j) = argminTo n g := rfl
  have hgj : g j = 0 := by simp only [hg, absK_eq_abs, sub_self, abs_zero]
  have hnn : ∀ i, 0 ≤ g i := fun i => by simp only [hg, absK_eq_abs]; exact abs_nonneg _
  have h0 : g (argminTo n g) = 0 := le_antisymm (hgj ▸ argminTo_le g j hj) (hnn _)
  rw [hp]
  refine ⟨?_, ?_, ?_⟩
  · have : |x (argminTo n g) - x j| = 0 := by simpa only [hg, absK_eq_abs] using h0
    exact sub_eq_zero.mp (abs_eq_zero.mp this)
  · by_contra hlt
    have := argminTo_first g j (not_le.mp hlt)
    rw [h0, hgj] at this
    exact lt_irrefl _ this
  · intro i hi he
    have := argminTo_first g i hi
    rw [h0] at this
    simp only [hg, absK_eq_abs, he, sub_self, abs_zero, lt_self_iff_false] at this

end idx
end PV.Efdd
