import PyomaVerif.Lemmas.Covariance
import PyomaVerif.Lemmas.PlscfChain
/-!
# Helpers for `Props/C08Unity.lean` — the three unity normalisers

* `FirstLargestIsUnit`: the property's clause "the largest-magnitude component equals 1" as a predicate
  on the squared magnitudes of the REPORTED vector: index `m` carries magnitude 1, everything before it
  is strictly smaller, nothing is larger.
* `np.argmax(abs(v))` of `ssi.ac2mp` (`argmaxNormSq`) and of `plscf.ac2mp_poly` (`argmaxAbs`): the index
  returned is the FIRST one of largest magnitude (`argmaxNormSq_spec`/`argmaxAbs_spec` give "a largest
  one" only).
* squared magnitude of the model's complex quotients.
-/
namespace PV.Unity
open PV PV.Cov

/-- in a vector of `n` components with squared magnitudes `ns`: component `m` has magnitude 1, it is the
    first component of largest magnitude (everything before it is strictly smaller) and no component
    has a magnitude above 1 -/
structure FirstLargestIsUnit {K : Type} [One K] [LT K] [LE K] (n m : Nat) (ns : Nat → K) : Prop where
  lt : m < n
  one : ns m = 1
  before : ∀ j, j < m → ns j < 1
  all : ∀ j, j < n → ns j ≤ 1

/-- dividing by a largest squared magnitude `M > 0` attained first at `m` gives `FirstLargestIsUnit` -/
theorem firstLargest_of_div {K : Type} [Field K] [LinearOrder K] [IsStrictOrderedRing K]
    {n m : Nat} {f g : Nat → K} (hm : m < n) (hpos : 0 < f m) (hg : ∀ j, j < n → g j = f j / f m)
    (hbefore : ∀ j, j < m → f j < f m) (hall : ∀ j, j < n → f j ≤ f m) :
    FirstLargestIsUnit n m g where
  lt := hm
  one := by rw [hg m hm, div_self hpos.ne']
  before := fun j hj => by rw [hg j (lt_trans hj hm), div_lt_one hpos]; exact hbefore j hj
  all := fun j hj => by rw [hg j hj, div_le_one hpos]; exact hall j hj

/-! ## `ssi.ac2mp`: `argmaxNormSq`, `normalise` over `Cpx Rat` -/
section ssi
open scoped CpxL

theorem argmax_go_first (f : Nat → Rat) :
    ∀ (l : List (Cpx Rat)) (i best : Nat) (bv : Rat),
      (∀ j, (hj : j < l.length) → Cpx.normSq l[j] = f (i + j)) → f best = bv →
      (∀ j, j < best → f j < bv) → (∀ j, j < i → f j ≤ bv) →
      ∀ j, j < argmaxNormSq.go l i best bv → f j < f (argmaxNormSq.go l i best bv) := by
  intro l
  induction l with
  | nil =>
    intro i best bv _ hb h1 _ j hj
    simp only [argmaxNormSq.go] at hj ⊢
    rw [hb]; exact h1 j hj
  | cons x xs ih =>
    intro i best bv hl hb h1 h2
    have hx : Cpx.normSq x = f i := by
      have h0 := hl 0 (by simp)
      rw [List.getElem_cons_zero, Nat.add_zero] at h0
      exact h0
    have hxs : ∀ j, (hj : j < xs.length) → Cpx.normSq xs[j] = f (i + 1 + j) := by
      intro j hj
      have := hl (j + 1) (by simp; omega)
      rw [List.getElem_cons_succ] at this
      rw [this]; congr 1; omega
    simp only [argmaxNormSq.go]
    by_cases h : Cpx.normSq x > bv
    · rw [if_pos h]
      refine ih (i + 1) i (Cpx.normSq x) hxs hx.symm ?_ ?_
      · intro j hj; exact lt_of_le_of_lt (h2 j hj) h
      · intro j hj
        rcases Nat.lt_succ_iff_lt_or_eq.mp hj with hj | hj
        · exact le_of_lt (lt_of_le_of_lt (h2 j hj) h)
        · rw [hj, hx]
    · rw [if_neg h]
      refine ih (i + 1) best bv hxs hb h1 ?_
      intro j hj
      rcases Nat.lt_succ_iff_lt_or_eq.mp hj with hj | hj
      · exact h2 j hj
      · rw [hj, ← hx]; exact not_lt.mp h

/-- `np.argmax(abs(v))`: every component before the returned index is strictly smaller -/
theorem argmaxNormSq_first (v : List (Cpx Rat)) :
    ∀ j, j < argmaxNormSq v →
      Cpx.normSq (v.getD j 0) < Cpx.normSq (v.getD (argmaxNormSq v) 0) := by
  cases v with
  | nil => intro j hj; simp [argmaxNormSq] at hj
  | cons x xs =>
    intro j hj
    simp only [argmaxNormSq] at hj ⊢
    exact argmax_go_first (fun j => Cpx.normSq ((x :: xs).getD j 0)) xs 1 0 (Cpx.normSq x)
      (by intro j hj; simp [Nat.add_comm 1 j, List.getD_eq_getElem?_getD, List.getElem?_eq_getElem hj])
      (by simp) (by intro j hj; omega)
      (by intro j hj; have : j = 0 := by omega
          subst this; simp) j hj

theorem cpx_normSq_div (a b : Cpx Rat) (hb : Cpx.normSq b ≠ 0) :
    Cpx.normSq (a / b) = Cpx.normSq a / Cpx.normSq b := by
  have hn' : b.re * b.re + b.im * b.im ≠ 0 := hb
  simp only [Cpx.normSq, CpxL.div_re, CpxL.div_im]
  rw [div_mul_div_comm, div_mul_div_comm, ← add_div, div_eq_div_iff (mul_ne_zero hn' hn') hn']
  ring

theorem cpx_div_self (b : Cpx Rat) (hb : Cpx.normSq b ≠ 0) : b / b = (⟨1, 0⟩ : Cpx Rat) := by
  have hn' : b.re * b.re + b.im * b.im ≠ 0 := hb
  apply CpxL.ext
  · simp only [CpxL.div_re]; exact div_self hn'
  · simp only [CpxL.div_im]
    have : b.im * b.re - b.re * b.im = 0 := by ring
    rw [this, zero_div]

theorem getD_map_range {α : Type} (n : Nat) (g : Nat → α) (d : α) (j : Nat) (hj : j < n) :
    ((List.range n).map g).getD j d = g j := by
  simp [List.getD_eq_getElem?_getD, List.getElem?_map, List.getElem?_range hj]

end ssi

/-! ## `plscf.ac2mp_poly`: `argmaxAbs`, `Cx.div` over an ordered field -/
section plscf
open PV.Plscf
variable {K : Type} [Field K] [LinearOrder K] [IsStrictOrderedRing K]

omit [IsStrictOrderedRing K] in
theorem argmaxAbs_go_first (f : Nat → K) :
    ∀ (l : List (Plscf.Cx K)) (i best : Nat) (bv : K),
      (∀ j, (hj : j < l.length) → Cx.normSq l[j] = f (i + j)) → f best = bv →
      (∀ j, j < best → f j < bv) → (∀ j, j < i → f j ≤ bv) →
      (∀ j, j < argmaxAbs.go l i best bv → f j < f (argmaxAbs.go l i best bv)) ∧
      (∀ j, j < i + l.length → f j ≤ f (argmaxAbs.go l i best bv)) ∧
      (best < i → argmaxAbs.go l i best bv < i + l.length) := by
  intro l
  induction l with
  | nil =>
    intro i best bv _ hb h1 h2
    simp only [argmaxAbs.go, List.length_nil, Nat.add_zero]
    refine ⟨fun j hj => by rw [hb]; exact h1 j hj, fun j hj => by rw [hb]; exact h2 j hj, fun h => h⟩
  | cons x xs ih =>
    intro i best bv hl hb h1 h2
    have hx : Cx.normSq x = f i := by
      have h0 := hl 0 (by simp)
      rw [List.getElem_cons_zero, Nat.add_zero] at h0
      exact h0
    have hxs : ∀ j, (hj : j < xs.length) → Cx.normSq xs[j] = f (i + 1 + j) := by
      intro j hj
      have := hl (j + 1) (by simp; omega)
      rw [List.getElem_cons_succ] at this
      rw [this]; congr 1; omega
    have hlen : i + (x :: xs).length = i + 1 + xs.length := by simp; omega
    simp only [argmaxAbs.go]
    by_cases h : bv < Cx.normSq x
    · rw [if_pos h, hlen]
      obtain ⟨a, b, c⟩ := ih (i + 1) i (Cx.normSq x) hxs hx.symm
        (fun j hj => lt_of_le_of_lt (h2 j hj) h)
        (fun j hj => by
          rcases Nat.lt_succ_iff_lt_or_eq.mp hj with hj | hj
          · exact le_of_lt (lt_of_le_of_lt (h2 j hj) h)
          · rw [hj, hx])
      exact ⟨a, b, fun _ => c (Nat.lt_succ_self i)⟩
    · rw [if_neg h, hlen]
      obtain ⟨a, b, c⟩ := ih (i + 1) best bv hxs hb h1
        (fun j hj => by
          rcases Nat.lt_succ_iff_lt_or_eq.mp hj with hj | hj
          · exact h2 j hj
          · rw [hj, ← hx]; exact not_lt.mp h)
      exact ⟨a, b, fun hbi => c (Nat.lt_succ_of_lt hbi)⟩

omit [IsStrictOrderedRing K] in
/-- `np.argmax(abs(v))` of `ac2mp_poly` on a non-empty vector: an index of the vector, a largest
    component, and every component before it strictly smaller -/
theorem argmaxAbs_first (v : List (Plscf.Cx K)) (hv : v ≠ []) :
    argmaxAbs v < v.length ∧
    (∀ j, j < argmaxAbs v →
      Cx.normSq (v.getD j ⟨0, 0⟩) < Cx.normSq (v.getD (argmaxAbs v) ⟨0, 0⟩)) ∧
    (∀ j, j < v.length →
      Cx.normSq (v.getD j ⟨0, 0⟩) ≤ Cx.normSq (v.getD (argmaxAbs v) ⟨0, 0⟩)) := by
  cases v with
  | nil => exact absurd rfl hv
  | cons x xs =>
    simp only [argmaxAbs]
    obtain ⟨a, b, c⟩ := argmaxAbs_go_first (fun j => Cx.normSq ((x :: xs).getD j ⟨0, 0⟩)) xs 1 0
      (Cx.normSq x)
      (by intro j hj; simp [Nat.add_comm 1 j, List.getD_eq_getElem?_getD, List.getElem?_eq_getElem hj])
      (by simp) (by intro j hj; omega)
      (by intro j hj; have : j = 0 := by omega
          subst this; simp)
    refine ⟨?_, a, ?_⟩
    · have := c (by omega); simp only [List.length_cons]; omega
    · intro j hj; exact b j (by simp only [List.length_cons] at hj; omega)

omit [LinearOrder K] [IsStrictOrderedRing K] in
theorem pcx_normSq_div (a b : Plscf.Cx K) (hb : Cx.normSq b ≠ 0) :
    Cx.normSq (Cx.div a b) = Cx.normSq a / Cx.normSq b := by
  have hn' : b.re * b.re + b.im * b.im ≠ 0 := hb
  simp only [Cx.normSq, Cx.div]
  rw [div_mul_div_comm, div_mul_div_comm, ← add_div, div_eq_div_iff (mul_ne_zero hn' hn') hn']
  ring

omit [LinearOrder K] [IsStrictOrderedRing K] in
theorem pcx_div_self (b : Plscf.Cx K) (hb : Cx.normSq b ≠ 0) : Cx.div b b = ⟨1, 0⟩ := by
  have hn' : b.re * b.re + b.im * b.im ≠ 0 := hb
  simp only [Cx.div, Cx.normSq]
  congr 1
  · exact div_self hn'
  · have : b.im * b.re - b.re * b.im = 0 := by ring
    rw [this, zero_div]

end plscf

end PV.Unity
