import PyomaVerif.Model.OrchX
import PyomaVerif.Lemmas.Orch
/-!
Helper lemmas for the extended orchestration alphabet (`Model/OrchX.lean`): frame, data, history projection.
Core Lean only.
-/
namespace PV.Orch
variable {C P D R A Q : Type}

/-- the name an operation addresses -/
def OpX.target : OpX C P A Q → Option String
  | .base o => o.target
  | .readd n => some n
  | .setParams n _ => some n
  | .mpeFromPlot n _ => some n

def Op.isRunAll : Op C P A Q → Bool
  | .runAll => true
  | _ => false

def OpX.isRunAll : OpX C P A Q → Bool
  | .base o => o.isRunAll
  | _ => false

theorem Op.ne_runAll_of {o : Op C P A Q} (h : o.isRunAll = false) : o ≠ .runAll := by
  intro e; subst e; simp [Op.isRunAll] at h

theorem Op.eq_runAll_of {o : Op C P A Q} (h : o.isRunAll = true) : o = .runAll := by
  cases o <;> simp [Op.isRunAll] at h ⊢

/-- operations that matter to algorithm `n` (besides `run_all`) -/
def relevantX (n : String) : OpX C P A Q → Bool
  | .base o => relevant n o
  | .readd m => m = n
  | .setParams m _ => m = n
  | .mpeFromPlot m _ => m = n

/-- what one call contributes to the history as algorithm `n` sees it -/
def projOne (sx : SemX C P D R A Q) (n : String) (op : OpX C P A Q) (s : State C P D R) : List (OpX C P A Q) :=
  (if relevantX n op then [op] else []) ++
  (if op.isRunAll && reaches sx.toSem n s.algs then [.base (.runByName n)] else [])

/-- the history as algorithm `n` sees it (extended alphabet): calls naming other algorithms are dropped, a `run_all`
    becomes `run_by_name n` when its loop reaches `n`. -/
def projX (sx : SemX C P D R A Q) (n : String) : List (OpX C P A Q) → State C P D R → List (OpX C P A Q)
  | [], _ => []
  | op :: t, s => projOne sx n op s ++ projX sx n t (stepX sx op s).2

theorem execX_append (sx : SemX C P D R A Q) (a b : List (OpX C P A Q)) (u : State C P D R) :
    execX sx (a ++ b) u = execX sx b (execX sx a u) := by
  induction a generalizing u with
  | nil => rfl
  | cons x xs ih => exact ih _

/-- a call naming `n` leaves every other entry alone -/
theorem stepX_frame (sx : SemX C P D R A Q) (op : OpX C P A Q) (s : State C P D R) (n m : String)
    (ht : op.target = some n) (hm : m ≠ n) : get m (stepX sx op s).2.algs = get m s.algs := by
  cases op with
  | base o => exact step_frame sx.toSem o s n m ht hm
  | readd n' =>
    simp [OpX.target] at ht; subst ht
    simp only [stepX]
    cases hg : get n' s.algs with
    | none => rfl
    | some e => simp [get_dictSet_ne hm]
  | setParams n' p =>
    simp [OpX.target] at ht; subst ht
    simp only [stepX]
    cases hg : get n' s.algs with
    | none => rfl
    | some e => simp [get_dictSet_ne hm]
  | mpeFromPlot n' a =>
    simp [OpX.target] at ht; subst ht
    simp only [stepX]
    cases hg : get n' s.algs with
    | none => rfl
    | some e => simp [get_dictSet_ne hm]

/-- … and the setup's data -/
theorem stepX_data (sx : SemX C P D R A Q) (op : OpX C P A Q) (s : State C P D R) (n : String)
    (ht : op.target = some n) :
    (stepX sx op s).2.data = s.data ∧ (stepX sx op s).2.initial = s.initial := by
  cases op with
  | base o => exact step_data sx.toSem o s n (Or.inl ht)
  | readd n' =>
    simp only [stepX]
    cases hg : get n' s.algs <;> simp
  | setParams n' p =>
    simp only [stepX]
    cases hg : get n' s.algs <;> simp
  | mpeFromPlot n' a =>
    simp only [stepX]
    cases hg : get n' s.algs <;> simp

/-- the keys of the dict (and their order) change only by `add` / `inject` / `rollback` -/
theorem stepX_keys_new (sx : SemX C P D R A Q) (op : OpX C P A Q) (s : State C P D R)
    (h : ∀ o, op ≠ .base o) : keys (stepX sx op s).2.algs = keys s.algs := by
  cases op with
  | base o => exact absurd rfl (h o)
  | readd n' =>
    simp only [stepX]
    cases hg : get n' s.algs with
    | none => rfl
    | some e =>
      have : n' ∈ keys s.algs := by
        apply Classical.byContradiction; intro hn
        rw [(get_none_iff n' s.algs).mpr hn] at hg; cases hg
      simp [keys_dictSet_mem _ this]
  | setParams n' p =>
    simp only [stepX]
    cases hg : get n' s.algs with
    | none => rfl
    | some e =>
      have : n' ∈ keys s.algs := by
        apply Classical.byContradiction; intro hn
        rw [(get_none_iff n' s.algs).mpr hn] at hg; cases hg
      simp [keys_dictSet_mem _ this]
  | mpeFromPlot n' a =>
    simp only [stepX]
    cases hg : get n' s.algs with
    | none => rfl
    | some e =>
      have : n' ∈ keys s.algs := by
        apply Classical.byContradiction; intro hn
        rw [(get_none_iff n' s.algs).mpr hn] at hg; cases hg
      simp [keys_dictSet_mem _ this]

theorem agreeX_step_same (sx : SemX C P D R A Q) (op : OpX C P A Q) (n : String) (s s2 : State C P D R)
    (hrel : relevantX n op = true) (h : Agree n s s2) :
    Agree n (stepX sx op s).2 (stepX sx op s2).2 := by
  cases op with
  | base o => exact agree_step_same sx.toSem o n s s2 hrel h
  | readd m =>
    obtain ⟨hg, hd, hi⟩ := h
    simp [relevantX] at hrel; subst hrel
    simp only [stepX, ← hg]
    cases hge : get m s.algs with
    | none => exact ⟨by simpa [hge] using hg, hd, hi⟩
    | some e => exact ⟨by simp [get_dictSet_self, hd], hd, hi⟩
  | setParams m p =>
    obtain ⟨hg, hd, hi⟩ := h
    simp [relevantX] at hrel; subst hrel
    simp only [stepX, ← hg]
    cases hge : get m s.algs with
    | none => exact ⟨by simpa [hge] using hg, hd, hi⟩
    | some e => exact ⟨by simp [get_dictSet_self], hd, hi⟩
  | mpeFromPlot m a =>
    obtain ⟨hg, hd, hi⟩ := h
    simp [relevantX] at hrel; subst hrel
    simp only [stepX, ← hg]
    cases hge : get m s.algs with
    | none => exact ⟨by simpa [hge] using hg, hd, hi⟩
    | some e => exact ⟨by simp [get_dictSet_self], hd, hi⟩

theorem agreeX_step_left (sx : SemX C P D R A Q) (op : OpX C P A Q) (n : String) (s s2 : State C P D R)
    (hrel : relevantX n op = false) (hra : op.isRunAll = false) (h : Agree n s s2) :
    Agree n (stepX sx op s).2 s2 := by
  have key : ∀ m, op.target = some m → m ≠ n → Agree n (stepX sx op s).2 s2 := by
    intro m ht hmn
    obtain ⟨hg, hd, hi⟩ := h
    have hf := stepX_frame sx op s m n ht (fun e => hmn e.symm)
    have hdd := stepX_data sx op s m ht
    exact ⟨hf.trans hg, hdd.1.trans hd, hdd.2.trans hi⟩
  cases op with
  | base o => exact agree_step_left sx.toSem o n s s2 hrel (Op.ne_runAll_of hra) h
  | readd m => exact key m rfl (by simpa [relevantX] using hrel)
  | setParams m p => exact key m rfl (by simpa [relevantX] using hrel)
  | mpeFromPlot m a => exact key m rfl (by simpa [relevantX] using hrel)

theorem agreeX_exec_proj (sx : SemX C P D R A Q) (n : String) (ops : List (OpX C P A Q))
    (s s2 : State C P D R) (h : Agree n s s2) :
    Agree n (execX sx ops s) (execX sx (projX sx n ops s) s2) := by
  induction ops generalizing s s2 with
  | nil => exact h
  | cons op t ih =>
    simp only [projX, execX, execX_append]
    apply ih
    cases hra : op.isRunAll with
    | true =>
      -- `run_all`: the old theorem on the one-letter history
      cases op with
      | base o =>
        have ho : o = .runAll := Op.eq_runAll_of hra
        subst ho
        have := agree_exec_proj sx.toSem n [.runAll] s s2 h
        simp only [proj, exec, List.append_nil] at this
        simp only [projOne, relevantX, relevant, OpX.isRunAll, Op.isRunAll, Bool.true_and, stepX]
        by_cases hre : reaches sx.toSem n s.algs = true
        · simp only [hre, if_true] at this ⊢
          simpa [execX, stepX, exec] using this
        · simp only [hre] at this ⊢
          simpa [execX, exec] using this
      | readd m => simp [OpX.isRunAll] at hra
      | setParams m p => simp [OpX.isRunAll] at hra
      | mpeFromPlot m a => simp [OpX.isRunAll] at hra
    | false =>
      simp only [projOne, hra, Bool.false_and]
      cases hrel : relevantX n op with
      | true => simpa [execX] using agreeX_step_same sx op n s s2 hrel h
      | false => simpa [execX] using agreeX_step_left sx op n s s2 hrel hra h

/-- the base alphabet embeds: a history of old letters runs as before -/
theorem execX_base (sx : SemX C P D R A Q) (ops : List (Op C P A Q)) (s : State C P D R) :
    execX sx (ops.map .base) s = exec sx.toSem ops s := by
  induction ops generalizing s with
  | nil => rfl
  | cons o t ih => simp only [List.map, execX, exec, stepX]; exact ih _

/-- a run of an entry that has parameters and bound data succeeds and stores that entry's own run -/
theorem runX_of (sx : SemX C P D R A Q) (n : String) (u : State C P D R) (e : Entry C P D R) (p : P) (d : D)
    (hg : get n u.algs = some e) (hp : e.params = some p) (hb : e.bound = .set d) :
    (stepX sx (.base (.runByName n)) u).1 = .ok ∧
    get n (stepX sx (.base (.runByName n)) u).2.algs = some { e with result := some (sx.run e.cls p d) } := by
  have hr := runEntry_of (sem := sx.toSem) hp hb
  constructor
  · simp only [stepX, step, runByName, hg, hr]
  · simp only [stepX, step, runByName, hg, hr, get_dictSet_self]

end PV.Orch
